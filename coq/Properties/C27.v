(* C27 — property theorems (statements only; proofs in C27/Proofs.v).
   rows_of s g et = the net.group rows of group g and element type et (the impl requires at most one);
   gmem = element_index of the row; tab s et = the element table. *)
From Coq Require Import ZArith List Bool String.
From PPV Require Import C27.Model C27.Proofs C27.Refine.
Import ListNotations.
Open Scope Z_scope.

(* attach onto the existing index based row (reference_column None or NaN): members become the set union, every other
   (group, type) is unaffected, element tables untouched, and every attached element exists *)
Theorem C27_attach_is_union : forall s g et elm r0 s',
  rows_of s g et = [r0] -> rc_null (grc r0) = true -> attach s g et elm = Ok s' ->
  (exists r1, rows_of s' g et = [r1] /\ grc r1 = grc r0 /\ forall x, In x (gmem r1) <-> In x (gmem r0) \/ In x elm) /\
  (forall g' et', (g', et') <> (g, et) -> rows_of s' g' et' = rows_of s g' et') /\ tab s' = tab s /\
  (forall x, In x elm -> In x (ids s et)).
Proof. exact attach_union. Qed.
Print Assumptions C27_attach_is_union.

(* the rule before the repair (NaN != None) corrupted a row whose reference_column is NaN (regression witness) *)
Theorem C27_attach_old_nan_row_refuted :
  exists s g et elm s', attach_old s g et elm = Ok s' /\ members_of s g et = Ok [7] /\ members_of s' g et = Err "ValueError".
Proof. exact attach_nan_refuted. Qed.
Print Assumptions C27_attach_old_nan_row_refuted.
Example C27_attach_nan_row_now_union : exists s', attach s_w1_ 1 0%nat [2] = Ok s' /\ members_of s' 1 0%nat = Ok [7; 2].
Proof. exact attach_nan_row_now_union. Qed.
Print Assumptions C27_attach_nan_row_now_union.

(* the rule before "fix: attach_to_group checks the existence of elements appended to an existing group row" accepted a
   non-existing index as member of an existing row; the repaired rule raises like the new-row path (regression witness) *)
Theorem C27_attach_unchecked_refuted :
  exists s g et elm s', attach_unchecked s g et elm = Ok s' /\ members_of s' g et = Ok [4; 88] /\ ~ In 88 (ids s' et) /\
                        attach s g et elm = Err "UserWarning".
Proof. exact attach_unchecked_refuted. Qed.
Print Assumptions C27_attach_unchecked_refuted.

Theorem C27_attach_new_row : forall s g et elm s',
  rows_of s g et = [] -> attach s g et elm = Ok s' ->
  exists r1, rows_of s' g et = [r1] /\ gmem r1 = elm /\ rc_null (grc r1) = true /\ forall x, In x elm -> In x (ids s et).
Proof. exact attach_new_row. Qed.
Print Assumptions C27_attach_new_row.

(* detach (also the group part of every drop function): each resulting row stems from one old row; rows of other element
   types / unselected groups are unchanged (other_groups_unaffected); a selected index based row keeps exactly
   members \ ids and is never left empty (empty_row_removed) *)
Theorem C27_detach_is_difference : forall s et idl sl r',
  In r' (grp (detach s et idl sl)) ->
  exists r, In r (grp s) /\ gid r' = gid r /\ gty r' = gty r /\ grc r' = grc r /\
    (targeted et sl r = false -> r' = r) /\
    (targeted et sl r = true -> gmem r' <> [] /\
       (rc_null (grc r) = true -> forall x, In x (gmem r') <-> In x (gmem r) /\ ~ In x idl)).
Proof. exact detach_rows. Qed.
Print Assumptions C27_detach_is_difference.
(* ... and nothing else disappears: untouched rows stay, a selected row with a remaining member stays *)
Theorem C27_detach_keeps : forall s et idl sl r,
  In r (grp s) ->
  (targeted et sl r = false -> In r (grp (detach s et idl sl))) /\
  (targeted et sl r = true -> rc_null (grc r) = true -> (exists x, In x (gmem r) /\ ~ In x idl) ->
     exists r', In r' (grp (detach s et idl sl)) /\ gid r' = gid r /\ gty r' = gty r).
Proof. exact detach_keeps. Qed.
Print Assumptions C27_detach_keeps.

(* reference-column groups: with duplicated reference values detaching one element removes the others too *)
Theorem C27_detach_reference_column_refuted :
  exists s et idl, members_of s 0 et = Ok [4; 2; 7] /\ members_of (detach s et idl None) 0 et = Ok [7].
Proof. exact detach_refcol_refuted. Qed.
Print Assumptions C27_detach_reference_column_refuted.

(* pd.Index.difference as used by attach/detach is the set difference *)
Theorem C27_index_difference_is_set_difference : forall x l d, In x (zdiff l d) <-> In x l /\ ~ In x d.
Proof. exact in_zdiff. Qed.
Print Assumptions C27_index_difference_is_set_difference.

(* ------------------------------------------------------------------ refinement to the abstract set model
   [member s g et x] (C27/Refine.v): x is a member of group g for element type et — listed in the index based row, or an
   element of the table carrying a listed reference value for a reference-column row.  G27_refcols s: every
   reference-column row sits on a table whose reference values (and indices) are unique (otherwise
   C27_detach_reference_column_refuted). *)

(* group_element_index reports exactly the abstract member set *)
Theorem C27_reported_members_are_the_set : forall s g et r l,
  rows_of s g et = [r] -> members_of s g et = Ok l -> forall x, In x l <-> member s g et x.
Proof. exact members_of_is_member. Qed.
Print Assumptions C27_reported_members_are_the_set.

(* detach_from_groups = set difference on the selected groups of that element type, for index based and reference-column
   rows alike; every other (group, type) keeps its member set *)
Theorem C27_detach_refines_set_model : forall s et idl sl g et' x,
  G27_refcols s = true ->
  (member (detach s et idl sl) g et' x <-> member s g et' x /\ ~ (et' = et /\ selected sl g /\ In x idl)).
Proof. exact detach_member_b. Qed.
Print Assumptions C27_detach_refines_set_model.

(* drop_elements_simple: every group loses exactly the dropped elements, the table loses exactly their rows *)
Theorem C27_drop_elements_refines_set_model : forall s et idl s',
  G27_refcols s = true -> drop_simple s et idl = Ok s' ->
  (forall g et' x, member s' g et' x <-> member s g et' x /\ ~ (et' = et /\ In x idl)) /\
  (forall p, In p (tab s' et) <-> In p (tab s et) /\ ~ In (fst p) idl) /\
  (forall e, e <> et -> tab s' e = tab s e) /\ lsw s' = lsw s.
Proof. exact drop_simple_member_b. Qed.
Print Assumptions C27_drop_elements_refines_set_model.

(* the composite drop_lines step (line switches detached as switches and dropped, then the lines): every group loses
   exactly the dropped lines as line members and exactly the line switches at them as switch members; the line, switch and
   line-switch tables lose exactly these rows; rows of other element types are identical; no member-less row remains
   (drop_lines_spec spells this out) *)
Theorem C27_drop_lines_refines_set_model : forall s idl s',
  G27_refcols s = true -> drop_lines s idl = Ok s' ->
  (forall g et x, member s' g et x <->
       member s g et x /\ ~ (et = ET_LINE /\ In x idl) /\ ~ (et = ET_SWITCH /\ In x (line_switches s idl))) /\
  (forall p, In p (tab s' ET_LINE) <-> In p (tab s ET_LINE) /\ ~ In (fst p) idl) /\
  (forall p, In p (tab s' ET_SWITCH) <-> In p (tab s ET_SWITCH) /\ ~ In (fst p) (line_switches s idl)) /\
  (forall p, In p (lsw s') <-> In p (lsw s) /\ ~ In (fst p) (line_switches s idl)) /\
  (forall e, e <> ET_LINE -> e <> ET_SWITCH -> tab s' e = tab s e) /\
  (forall r, gty r <> ET_LINE -> gty r <> ET_SWITCH -> (In r (grp s') <-> In r (grp s))) /\
  ((forall r, In r (grp s) -> gmem r <> []) -> forall r, In r (grp s') -> gmem r <> []).
Proof. exact drop_lines_member_b. Qed.
Print Assumptions C27_drop_lines_refines_set_model.
Example C27_drop_lines_nonvacuous :
  exists s', drop_lines s_ex [5] = Ok s' /\ line_switches s_ex [5] = [5; 9] /\
             map (fun r => (gid r, gty r, gmem r)) (grp s') = [(0, ET_LINE, [3]); (0, ET_SWITCH, [20]); (1, 0%nat, [1])] /\
             members_of s' 1 0%nat = Ok [2].
Proof. exact drop_lines_nonvacuous. Qed.
Print Assumptions C27_drop_lines_nonvacuous.
Example C27_refcols_guard_nonvacuous : G27_refcols s_ex = true /\ G27_refcols s_w2 = false.
Proof. exact refcols_nonvacuous. Qed.
Print Assumptions C27_refcols_guard_nonvacuous.

(* reindex_elements commutes with the set model (no guard): the member set of every group of the reindexed type is the
   image of the old one under the renaming rho that is also applied to the table index; rho is the lookup on every existing
   row; other element types keep their member sets and tables.  Holds for reference-column rows too (their listed
   reference values are untouched, the elements carrying them move). *)
Theorem C27_reindex_commutes_with_set_model : forall s et lk s',
  reindex s et lk = Ok s' ->
  (forall g et' x', member s' g et' x' <-> exists x, member s g et' x /\ x' = if Nat.eqb et' et then rho s et lk x else x) /\
  tab s' et = map (fun p => (rho s et lk (fst p), snd p)) (tab s et) /\
  (forall e, e <> et -> tab s' e = tab s e) /\
  (forall x, In x (ids s et) -> rho s et lk x = remap lk x).
Proof. exact reindex_member. Qed.
Print Assumptions C27_reindex_commutes_with_set_model.
Example C27_reindex_nonvacuous :
  exists s', reindex s_ex ET_SWITCH [(9, 30); (5, 31)] = Ok s' /\ members_of s' 0 ET_SWITCH = Ok [31; 30; 20] /\
             map (rho s_ex ET_SWITCH [(9, 30); (5, 31)]) [5; 9; 20; 77] = [31; 30; 20; 77].
Proof. exact reindex_nonvacuous. Qed.
Print Assumptions C27_reindex_nonvacuous.
