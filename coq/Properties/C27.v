(* C27 — property theorems (statements only; proofs in C27/Proofs.v).
   rows_of s g et = the net.group rows of group g and element type et (the impl requires at most one);
   gmem = element_index of the row; tab s et = the element table. *)
From Coq Require Import ZArith List Bool String.
From PPV Require Import C27.Model C27.Proofs.
Import ListNotations.
Open Scope Z_scope.

(* attach onto the existing index based row (reference_column None or NaN): members become the set union, every other
   (group, type) is unaffected, element tables untouched, and every attached element exists *)
Theorem C27_attach_is_union : forall s g et elm r0 s',
  rows_of s g et = [r0] -> rc_null (grc r0) = true -> attach s g et elm = Ok s' ->
  (exists r1, rows_of s' g et = [r1] /\ grc r1 = grc r0 /\ forall x, In x (gmem r1) <-> In x (gmem r0) \/ In x elm) /\
  (forall g' et', (g', et') <> (g, et) -> rows_of s' g' et' = rows_of s g' et') /\ tab s' = tab s /\
  (forall x, In x elm -> In x (ids s et)).
Proof. exact attach_union. Qed.
Print Assumptions C27_attach_is_union.

(* the rule before the repair (NaN != None) corrupted a row whose reference_column is NaN (regression witness) *)
Theorem C27_attach_old_nan_row_refuted :
  exists s g et elm s', attach_old s g et elm = Ok s' /\ members_of s g et = Ok [7] /\ members_of s' g et = Err "ValueError".
Proof. exact attach_nan_refuted. Qed.
Print Assumptions C27_attach_old_nan_row_refuted.
Example C27_attach_nan_row_now_union : exists s', attach s_w1_ 1 0%nat [2] = Ok s' /\ members_of s' 1 0%nat = Ok [7; 2].
Proof. exact attach_nan_row_now_union. Qed.
Print Assumptions C27_attach_nan_row_now_union.

(* the rule before "fix: attach_to_group checks the existence of elements appended to an existing group row" accepted a
   non-existing index as member of an existing row; the repaired rule raises like the new-row path (regression witness) *)
Theorem C27_attach_unchecked_refuted :
  exists s g et elm s', attach_unchecked s g et elm = Ok s' /\ members_of s' g et = Ok [4; 88] /\ ~ In 88 (ids s' et) /\
                        attach s g et elm = Err "UserWarning".
Proof. exact attach_unchecked_refuted. Qed.
Print Assumptions C27_attach_unchecked_refuted.

Theorem C27_attach_new_row : forall s g et elm s',
  rows_of s g et = [] -> attach s g et elm = Ok s' ->
  exists r1, rows_of s' g et = [r1] /\ gmem r1 = elm /\ rc_null (grc r1) = true /\ forall x, In x elm -> In x (ids s et).
Proof. exact attach_new_row. Qed.
Print Assumptions C27_attach_new_row.

(* detach (also the group part of every drop function): each resulting row stems from one old row; rows of other element
   types / unselected groups are unchanged (other_groups_unaffected); a selected index based row keeps exactly
   members \ ids and is never left empty (empty_row_removed) *)
Theorem C27_detach_is_difference : forall s et idl sl r',
  In r' (grp (detach s et idl sl)) ->
  exists r, In r (grp s) /\ gid r' = gid r /\ gty r' = gty r /\ grc r' = grc r /\
    (targeted et sl r = false -> r' = r) /\
    (targeted et sl r = true -> gmem r' <> [] /\
       (rc_null (grc r) = true -> forall x, In x (gmem r') <-> In x (gmem r) /\ ~ In x idl)).
Proof. exact detach_rows. Qed.
Print Assumptions C27_detach_is_difference.
(* ... and nothing else disappears: untouched rows stay, a selected row with a remaining member stays *)
Theorem C27_detach_keeps : forall s et idl sl r,
  In r (grp s) ->
  (targeted et sl r = false -> In r (grp (detach s et idl sl))) /\
  (targeted et sl r = true -> rc_null (grc r) = true -> (exists x, In x (gmem r) /\ ~ In x idl) ->
     exists r', In r' (grp (detach s et idl sl)) /\ gid r' = gid r /\ gty r' = gty r).
Proof. exact detach_keeps. Qed.
Print Assumptions C27_detach_keeps.

(* reference-column groups: with duplicated reference values detaching one element removes the others too *)
Theorem C27_detach_reference_column_refuted :
  exists s et idl, members_of s 0 et = Ok [4; 2; 7] /\ members_of (detach s et idl None) 0 et = Ok [7].
Proof. exact detach_refcol_refuted. Qed.
Print Assumptions C27_detach_reference_column_refuted.

(* pd.Index.difference as used by attach/detach is the set difference *)
Theorem C27_index_difference_is_set_difference : forall x l d, In x (zdiff l d) <-> In x l /\ ~ In x d.
Proof. exact in_zdiff. Qed.
Print Assumptions C27_index_difference_is_set_difference.
