(* C29 — the relay's stage times against the user's settings per switch id (model: C29/Grading.v) *)
From Coq Require Import ZArith QArith List Bool String Lia.
From PPV Require Import Base.QN C29.Grading.
Import ListNotations.
Open Scope Q_scope.

(* ---------------------------------------------------------------- selecting the unique row with a key *)
Lemma filter_key_unique {A} (k : A -> Z) (l : list A) : forall r, NoDup (map k l) -> In r l ->
  filter (fun x => Z.eqb (k x) (k r)) l = [r].
Proof.
  induction l as [|x l IH]; intros r Hn Hr; [destruct Hr|].
  simpl in Hn. inversion Hn as [|? ? Hx Hn']; subst. simpl.
  destruct Hr as [<-|Hr].
  - rewrite Z.eqb_refl. f_equal.
    assert (E : forall y, In y l -> Z.eqb (k y) (k x) = false).
    { intros y Hy. apply Z.eqb_neq. intros E. apply Hx. rewrite <- E. apply in_map. exact Hy. }
    clear -E. induction l as [|y l IH]; [reflexivity|]. simpl. rewrite (E y (or_introl eq_refl)).
    apply IH. intros z Hz. apply E. right. exact Hz.
  - assert (N : Z.eqb (k x) (k r) = false).
    { apply Z.eqb_neq. intros E. apply Hx. rewrite E. apply in_map. exact Hr. }
    rewrite N. apply IH; assumption.
Qed.

Lemma filter_map_comm {A B} (f : A -> B) (p : B -> bool) (l : list A) : filter p (map f l) = map f (filter (fun x => p (f x)) l).
Proof. induction l as [|x l IH]; [reflexivity|]. simpl. destruct (p (f x)); simpl; rewrite IH; reflexivity. Qed.

Definition mk (r : trow) : prow := {| p_lbl := lbl r; p_sid := sid r; p_tg := c2 r; p_tgg := c1 r |}.

Lemma frame_table c rows : c = ColsDtoc \/ c = ColsIdmt -> grading_frame c rows = map mk rows.
Proof. intros [->| ->]; reflexivity. Qed.

Lemma by_sid_frame rows r : NoDup (map sid rows) -> In r rows -> by_sid (map mk rows) (sid r) = [mk r].
Proof.
  intros Hn Hr. unfold by_sid. rewrite filter_map_comm. simpl.
  rewrite (filter_key_unique sid rows r Hn Hr). reflexivity.
Qed.
Lemma by_label_frame rows r : G29_frame_labels rows = true -> NoDup (map sid rows) -> In r rows ->
  by_label (map mk rows) (sid r) = [mk r].
Proof.
  intros G Hn Hr. unfold by_label. rewrite filter_map_comm. simpl.
  rewrite (filter_ext_in (fun x => Z.eqb (lbl x) (sid r)) (fun x => Z.eqb (sid x) (sid r))).
  - rewrite (filter_key_unique sid rows r Hn Hr). reflexivity.
  - intros x Hx. unfold G29_frame_labels in G. rewrite forallb_forall in G. specialize (G x Hx).
    apply Z.eqb_eq in G. rewrite G. reflexivity.
Qed.

Definition user_dtoc (r : trow) : rtimes := {| r_tg := Some (c2 r); r_tgg := Some (c1 r); r_tms := None; r_tgrade := None |}.
Definition user_idmt (r : trow) : rtimes := {| r_tg := None; r_tgg := None; r_tms := Some (c1 r); r_tgrade := Some (c2 r) |}.

(* DataFrame form BEFORE the repair: the relay of switch s held the user's row of switch_id s only if every row was labelled
   with its switch id *)
Theorem frame_times_old_partial g c rows r : c = ColsDtoc \/ c = ColsIdmt ->
  G29_frame_labels rows = true -> NoDup (map sid rows) -> In r rows ->
  relay_times_old DTOC g (TFrame c rows) (sid r) = Ok (user_dtoc r) /\
  relay_times_old IDMT g (TFrame c rows) (sid r) = Ok (user_idmt r).
Proof.
  intros Hc G Hn Hr. unfold relay_times_old, relay_times_with, time_grading. simpl bind.
  rewrite (frame_table c rows Hc). unfold series_at. rewrite (by_label_frame rows r G Hn Hr). split; reflexivity.
Qed.
(* the code as it is (rows selected by the switch_id column): no condition on labels or order *)
Theorem frame_times_users g c rows r : c = ColsDtoc \/ c = ColsIdmt -> NoDup (map sid rows) -> In r rows ->
  relay_times DTOC g (TFrame c rows) (sid r) = Ok (user_dtoc r) /\
  relay_times IDMT g (TFrame c rows) (sid r) = Ok (user_idmt r).
Proof.
  intros Hc Hn Hr. unfold relay_times, relay_times_with, time_grading. simpl bind.
  rewrite (frame_table c rows Hc). unfold setting_at. rewrite (by_sid_frame rows r Hn Hr). split; reflexivity.
Qed.
(* without the label condition the old code handed the relay another switch's times *)
Theorem frame_times_old_refuted : exists g c rows r, (c = ColsDtoc \/ c = ColsIdmt) /\ NoDup (map sid rows) /\ In r rows /\
  relay_times_old DTOC g (TFrame c rows) (sid r) <> Ok (user_dtoc r).
Proof.
  exists {| paths := []; par := []; lines := []; closed := [] |}, ColsDtoc,
    [{| lbl := 0; sid := 1; c1 := 1 # 100; c2 := 1 # 10 |}; {| lbl := 1; sid := 0; c1 := 4 # 100; c2 := 4 # 10 |}],
    {| lbl := 1; sid := 0; c1 := 4 # 100; c2 := 4 # 10 |}.
  split; [left; reflexivity|]. split.
  - simpl. constructor; [intros [H|[]]; discriminate|]. constructor; [intros []|constructor].
  - split; [right; left; reflexivity|]. vm_compute. intros H. discriminate H.
Qed.

(* manual pick-up currents: read by position; equal to the user's row of the switch id when the rows are 0..n-1 in order *)
Lemma zseq_nth n : forall k i, (i < n)%nat -> nth_error (zseq k n) i = Some (k + Z.of_nat i)%Z.
Proof.
  induction n as [|n IH]; intros k i Hi; [lia|]. destruct i as [|i]; simpl.
  - f_equal. lia.
  - rewrite IH by lia. f_equal. lia.
Qed.
Lemma zlist_eqb_eq a : forall b, zlist_eqb a b = true -> a = b.
Proof.
  unfold zlist_eqb. induction a as [|x a IH]; intros [|y b] H; simpl in *; try reflexivity; try discriminate.
  apply andb_true_iff in H. destruct H as [H1 H2]. apply andb_true_iff in H2. destruct H2 as [H2 H3].
  apply Z.eqb_eq in H2. subst y. f_equal. apply IH. rewrite H1, H3. reflexivity.
Qed.
Theorem pickup_old_partial rows r s : G29_positions (map k_sid rows) = true -> pickup_iloc rows s = Ok r -> k_sid r = s.
Proof.
  unfold G29_positions, pickup_iloc. intros G. apply zlist_eqb_eq in G.
  destruct (Z.ltb s 0) eqn:E; [discriminate|]. apply Z.ltb_ge in E.
  destruct (nth_error rows (Z.to_nat s)) as [r'|] eqn:N; [|discriminate]. intros H. inversion H; subst r'.
  assert (M : nth_error (map k_sid rows) (Z.to_nat s) = Some (k_sid r)) by (rewrite nth_error_map, N; reflexivity).
  rewrite G in M. rewrite zseq_nth in M.
  - inversion M. lia.
  - rewrite map_length. apply nth_error_Some. rewrite N. discriminate.
Qed.
Theorem pickup_users rows r : NoDup (map k_sid rows) -> In r rows -> pickup_by_sid rows (k_sid r) = Ok r.
Proof. intros Hn Hr. unfold pickup_by_sid. rewrite (filter_key_unique k_sid rows r Hn Hr). reflexivity. Qed.
Theorem pickup_sound rows r s : pickup_by_sid rows s = Ok r -> In r rows /\ k_sid r = s.
Proof.
  unfold pickup_by_sid. destruct (filter (fun r0 => Z.eqb (k_sid r0) s) rows) as [|x [|? ?]] eqn:F; try discriminate.
  intros H. inversion H; subst x.
  assert (I : In r (filter (fun r0 => Z.eqb (k_sid r0) s) rows)) by (rewrite F; left; reflexivity).
  apply filter_In in I. destruct I as [I1 I2]. apply Z.eqb_eq in I2. split; assumption.
Qed.
Theorem pickup_old_refuted : exists rows r s, pickup_iloc rows s = Ok r /\ k_sid r <> s.
Proof.
  exists [{| k_sid := 1; k_Ig := 1; k_Igg := 2 # 1; k_Is := 1 # 10 |}; {| k_sid := 0; k_Ig := 1 # 2; k_Igg := 3 # 1; k_Is := 1 # 5 |}],
    {| k_sid := 1; k_Ig := 1; k_Igg := 2 # 1; k_Is := 1 # 10 |}, 0%Z.
  split; [reflexivity | discriminate].
Qed.

(* ---------------------------------------------------------------- list form *)
(* every row of the table carries the user's t>> (or tms) *)
Lemma switch_rows_tgg m a cl : forall r, switch_rows m a cl = Ok r -> Forall (fun x => snd x = a) r.
Proof.
  induction cl as [|[sw el] t IH]; intros r H; simpl in H.
  - inversion H. constructor.
  - destruct (get m el) as [tg|]; [|discriminate].
    destruct (switch_rows m a t) as [r'|] eqn:E; [|discriminate]. simpl in H. inversion H. subst r.
    constructor; [reflexivity | apply IH; reflexivity].
Qed.
Lemma insert_sid_forall (P : Z * Q * Q -> Prop) r l : P r -> Forall P l -> Forall P (insert_sid r l).
Proof.
  intros Hr Hl. induction Hl as [|q t Hq Ht IH]; simpl; [constructor; [exact Hr | constructor]|].
  destruct (Z.ltb (fst (fst r)) (fst (fst q))); constructor; try assumption. constructor; assumption.
Qed.
Lemma sort_sid_forall (P : Z * Q * Q -> Prop) l : Forall P l -> Forall P (sort_sid l).
Proof.
  unfold sort_sid. intros H.
  assert (G : forall acc, Forall P acc -> Forall P (fold_left (fun acc r => insert_sid r acc) l acc)).
  { induction H as [|x l Hx Hl IH]; intros acc Ha; simpl; [exact Ha|]. apply IH. apply insert_sid_forall; assumption. }
  apply G. constructor.
Qed.
Lemma relabel_tgg a l : forall k, Forall (fun x => snd x = a) l -> Forall (fun r => p_tgg r = a) (relabel k l).
Proof.
  induction l as [|[[sw tg] tgg] t IH]; intros k H; simpl; [constructor|].
  inversion H as [|? ? H1 H2]. constructor; [exact H1 | apply IH; exact H2].
Qed.
Lemma grading_list_tgg g a b c tab : grading_list g [a; b; c] = Ok tab -> Forall (fun r => p_tgg r = a) tab.
Proof.
  unfold grading_list. destruct (paths g); [discriminate|]. destruct (closed g) as [|x cl]; [discriminate|].
  destruct (switch_rows (line_time g b c) a (x :: cl)) as [r|] eqn:E; [|discriminate]. simpl. intros H. inversion H.
  apply relabel_tgg. apply sort_sid_forall. apply (switch_rows_tgg _ _ _ _ E).
Qed.
Lemma grading_list_tgg2 g a b tab : grading_list g [a; b] = Ok tab -> Forall (fun r => p_tgg r = a) tab.
Proof.
  unfold grading_list. destruct (paths g); [discriminate|]. destruct (closed g) as [|x cl]; [discriminate|].
  destruct (switch_rows (line_time g b b) a (x :: cl)) as [r|] eqn:E; [|discriminate]. simpl. intros H. inversion H.
  apply relabel_tgg. apply sort_sid_forall. apply (switch_rows_tgg _ _ _ _ E).
Qed.
Lemma setting_at_in f rows s v : setting_at f rows s = Ok v -> exists r, In r rows /\ p_sid r = s /\ v = f r.
Proof.
  unfold setting_at. destruct (by_sid rows s) as [|r [|? ?]] eqn:F; try discriminate.
  intros H. inversion H. exists r.
  assert (I : In r (by_sid rows s)) by (rewrite F; left; reflexivity).
  apply filter_In in I. destruct I as [I1 I2]. apply Z.eqb_eq in I2. auto.
Qed.
Lemma series_at_in f rows s v : series_at f rows s = Ok v -> exists r, In r rows /\ p_lbl r = s /\ v = f r.
Proof.
  unfold series_at. destruct (by_label rows s) as [|r [|? ?]] eqn:F; try discriminate.
  intros H. inversion H. exists r.
  assert (I : In r (by_label rows s)) by (rewrite F; left; reflexivity).
  apply filter_In in I. destruct I as [I1 I2]. apply Z.eqb_eq in I2. auto.
Qed.

(* list form, full (no guard): whenever the relay is constructed, its t>> (DTOC) / tms (IDMT) is the user's value *)
Theorem list_tgg_is_users g a b c s rt : relay_times DTOC g (TList [a; b; c]) s = Ok rt -> r_tgg rt = Some a.
Proof.
  unfold relay_times, relay_times_with, time_grading.
  destruct (grading_list g [a; b; c]) as [tab|] eqn:E; [|discriminate]. simpl bind.
  destruct (setting_at p_tg tab s) as [tg|]; [|discriminate]. simpl bind.
  destruct (setting_at p_tgg tab s) as [tgg|] eqn:E2; [|discriminate]. simpl bind. intros H. inversion H. simpl.
  destruct (setting_at_in _ _ _ _ E2) as (r & Hr & _ & ->).
  pose proof (grading_list_tgg g a b c tab E) as F. rewrite Forall_forall in F. rewrite (F r Hr). reflexivity.
Qed.
Theorem list_tms_is_users g a b s rt : relay_times IDMT g (TList [a; b]) s = Ok rt -> r_tms rt = Some a.
Proof.
  unfold relay_times, relay_times_with, time_grading.
  destruct (grading_list g [a; b]) as [tab|] eqn:E; [|discriminate]. simpl bind.
  destruct (setting_at p_tg tab s) as [tg|]; [|discriminate]. simpl bind.
  destruct (setting_at p_tgg tab s) as [tgg|] eqn:E2; [|discriminate]. simpl bind. intros H. inversion H. simpl.
  destruct (setting_at_in _ _ _ _ E2) as (r & Hr & _ & ->).
  pose proof (grading_list_tgg2 g a b tab E) as F. rewrite Forall_forall in F. rewrite (F r Hr). reflexivity.
Qed.

(* the table is labelled by position after sort_values/reset_index: the relay of switch s reads the row of the switch with the
   s-th smallest id among the closed switches *)
Lemma by_label_later l : forall k s, (s < k)%Z -> by_label (relabel k l) s = [].
Proof.
  induction l as [|[[a b] c] l IH]; intros k s H; simpl; [reflexivity|].
  assert (E : Z.eqb k s = false) by (apply Z.eqb_neq; lia). rewrite E. apply IH. lia.
Qed.
Lemma by_label_relabel l : forall k s, (k <= s)%Z ->
  by_label (relabel k l) s =
  match nth_error l (Z.to_nat (s - k)) with
  | Some (sw, tg, tgg) => [{| p_lbl := s; p_sid := sw; p_tg := tg; p_tgg := tgg |}]
  | None => []
  end.
Proof.
  induction l as [|[[sw tg] tgg] t IH]; intros k s Hk; simpl.
  - destruct (Z.to_nat (s - k)); reflexivity.
  - destruct (Z.eqb k s) eqn:E.
    + apply Z.eqb_eq in E. subst k. replace (s - s)%Z with 0%Z by lia. simpl.
      rewrite by_label_later by lia. reflexivity.
    + apply Z.eqb_neq in E. rewrite IH by lia.
      replace (Z.to_nat (s - k)) with (S (Z.to_nat (s - (k + 1)))) by lia. reflexivity.
Qed.

(* list form BEFORE the repair: what the relay of switch s held was the table row at POSITION s *)
Theorem list_old_reads_position g a b c s tab : grading_list g [a; b; c] = Ok tab -> (0 <= s)%Z ->
  exists l, tab = relabel 0 l /\
    relay_times_old DTOC g (TList [a; b; c]) s =
    match nth_error l (Z.to_nat s) with
    | Some (_, tg, tgg) => Ok {| r_tg := Some tg; r_tgg := Some tgg; r_tms := None; r_tgrade := None |}
    | None => Raise "KeyError"
    end.
Proof.
  intros E Hs. unfold relay_times_old, relay_times_with, time_grading. rewrite E. simpl bind.
  assert (X : exists l, tab = relabel 0 l).
  { revert E. unfold grading_list. destruct (paths g); [discriminate|]. destruct (closed g) as [|x cl]; [discriminate|].
    destruct (switch_rows (line_time g b c) a (x :: cl)) as [r|]; [|discriminate]. simpl. intros H. inversion H. eauto. }
  destruct X as (l & ->). exists l. split; [reflexivity|].
  unfold series_at. rewrite (by_label_relabel l 0 s Hs). replace (s - 0)%Z with s by lia.
  destruct (nth_error l (Z.to_nat s)) as [[[sw tg] tgg]|]; reflexivity.
Qed.
(* ... which is another switch as soon as the closed switches are not 0 .. n-1 (an open switch, a gapped index) *)
Theorem list_old_position_refuted : exists g a b c s el v rt, NoDup (map fst (closed g)) /\ In (s, el) (closed g) /\
  get (line_time g b c) el = Some v /\ relay_times_old DTOC g (TList [a; b; c]) s = Ok rt /\ r_tg rt <> Some v.
Proof.
  exists {| paths := [[0%Z]; [0%Z; 1%Z]]; par := []; lines := [0%Z; 1%Z]; closed := [(1%Z, 0%Z); (5%Z, 1%Z)] |},
    (1 # 16), (1 # 2), (1 # 4), 1%Z, 0%Z, (3 # 4).
  eexists. split; [simpl; constructor; [intros [H|[]]; discriminate|]; constructor; [intros []|constructor]|].
  split; [left; reflexivity|]. split; [vm_compute; reflexivity|]. split; [vm_compute; reflexivity|].
  simpl. intros H. inversion H.
Qed.
