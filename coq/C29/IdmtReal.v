(* C29 — the IDMT curve over the reals: t(i) = c / ((i / I_s) ^ alpha - 1) + t_grade is antitone in the current for
   i > I_s > 0, alpha > 0, c = tms * k >= 0, and (i / I_s) ^ alpha > 1 there.  These are the hypotheses pw_gt1 / pw_mono of
   C29.Proofs.Power for the true power function.  Uses Reals (standard axioms). *)
From Coq Require Import Reals Lra.
Open Scope R_scope.

Definition pw (Is alpha i : R) : R := Rpower (i / Is) alpha.
Definition idmt_curve (Is alpha c tg i : R) : R := c / (pw Is alpha i - 1) + tg.

Lemma ratio_gt1 Is i : 0 < Is -> Is < i -> 1 < i / Is.
Proof.
  intros H1 H2. unfold Rdiv. apply Rmult_lt_reg_r with Is; [exact H1|].
  rewrite Rmult_assoc, Rinv_l, Rmult_1_r, Rmult_1_l; [exact H2 | lra].
Qed.

Lemma pw_gt1 Is alpha i : 0 < Is -> 0 < alpha -> Is < i -> 1 < pw Is alpha i.
Proof.
  intros H1 Ha H2. unfold pw. pose proof (ratio_gt1 Is i H1 H2) as Hr.
  rewrite <- (Rpower_O (i / Is)); [|lra].
  apply Rpower_lt; assumption.
Qed.

Lemma pw_mono Is alpha i1 i2 : 0 < Is -> 0 < alpha -> Is < i1 -> i1 <= i2 -> pw Is alpha i1 <= pw Is alpha i2.
Proof.
  intros H1 Ha H2 H3. unfold pw.
  apply Rle_Rpower_l; [lra|]. split.
  - pose proof (ratio_gt1 Is i1 H1 H2). lra.
  - unfold Rdiv. apply Rmult_le_compat_r; [left; apply Rinv_0_lt_compat; exact H1 | exact H3].
Qed.

Lemma idmt_antitone_R Is alpha c tg i1 i2 :
  0 < Is -> 0 < alpha -> 0 <= c -> Is < i1 -> i1 <= i2 ->
  idmt_curve Is alpha c tg i2 <= idmt_curve Is alpha c tg i1.
Proof.
  intros H1 Ha Hc H2 H3. unfold idmt_curve.
  pose proof (pw_gt1 Is alpha i1 H1 Ha H2) as G1.
  assert (H2' : Is < i2) by lra.
  pose proof (pw_gt1 Is alpha i2 H1 Ha H2') as G2.
  pose proof (pw_mono Is alpha i1 i2 H1 Ha H2 H3) as M.
  apply Rplus_le_compat_r. unfold Rdiv. apply Rmult_le_compat_l; [exact Hc|].
  apply Rinv_le_contravar; lra.
Qed.

(* the trip time is positive and above the grading delay *)
Lemma idmt_ge_grade Is alpha c tg i : 0 < Is -> 0 < alpha -> 0 <= c -> Is < i -> tg <= idmt_curve Is alpha c tg i.
Proof.
  intros H1 Ha Hc H2. unfold idmt_curve. pose proof (pw_gt1 Is alpha i H1 Ha H2) as G.
  assert (0 <= c / (pw Is alpha i - 1)).
  { unfold Rdiv. apply Rmult_le_pos; [exact Hc | left; apply Rinv_0_lt_compat; lra]. }
  lra.
Qed.
