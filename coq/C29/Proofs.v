From Coq Require Import ZArith QArith List Bool Lia Lqa.
From PPV Require Import Base.QN C29.Model.
Import ListNotations.
Open Scope Q_scope.

Lemma fgt_s x b : fgt (Some x) b = true <-> b < x. Proof. cbn. apply qltb_lt. Qed.
Lemma fgt_f x b : fgt (Some x) b = false <-> x <= b. Proof. cbn. apply qltb_ge. Qed.
Lemma flt_s x b : flt (Some x) b = true <-> x < b. Proof. cbn. apply qltb_lt. Qed.
Lemma flt_f x b : flt (Some x) b = false <-> b <= x. Proof. cbn. apply qltb_ge. Qed.
Lemma fle_s x b : fle (Some x) b = true <-> x <= b. Proof. cbn. apply qleb_le. Qed.
Lemma fle_f x b : fle (Some x) b = false <-> b < x.
Proof.
  cbn. split; intros H.
  - destruct (Qlt_le_dec b x) as [Y|Y]; [exact Y|]. apply qleb_le in Y. congruence.
  - destruct (qleb x b) eqn:E; [|reflexivity]. apply qleb_le in E. lra.
Qed.

Lemma tle_refl t : tle t t.
Proof. destruct t; cbn; [exact I | apply Qle_refl]. Qed.

(* ---------------------------------------------------------------- DTOC *)
Lemma dtoc_antitone s i1 i2 :
  (t_gg s <= t_g s \/ I_gg s <= I_g s) -> i1 <= i2 ->
  tle (ttime (dtoc s (Some i2))) (ttime (dtoc s (Some i1))).
Proof.
  intros G H. unfold dtoc.
  destruct (fgt (Some i2) (I_gg s)) eqn:A2; destruct (fgt (Some i1) (I_gg s)) eqn:A1;
    destruct (fgt (Some i2) (I_g s)) eqn:B2; destruct (fgt (Some i1) (I_g s)) eqn:B1; cbn;
    rewrite ?fgt_s, ?fgt_f in *; try exact I; try apply Qle_refl; try lra.
  all: destruct G as [G|G]; lra.
Qed.

Lemma dtoc_trip_iff s i : I_g s <= I_gg s -> (tripped (dtoc s (Some i)) = true <-> I_g s < i).
Proof.
  intros G. unfold dtoc.
  destruct (fgt (Some i) (I_gg s)) eqn:A; destruct (fgt (Some i) (I_g s)) eqn:B; cbn;
    rewrite ?fgt_s, ?fgt_f in *; split; intros; try reflexivity; try discriminate; try lra.
Qed.
Lemma dtoc_nan s : dtoc s None = {| tripped := false; ttime := TInf |}.
Proof. reflexivity. Qed.

(* ---------------------------------------------------------------- IDMT *)
Lemma div_antitone a d1 d2 : 0 <= a -> 0 < d1 -> d1 <= d2 -> a / d2 <= a / d1.
Proof.
  intros Ha H1 H2.
  assert (H2' : 0 < d2) by lra.
  apply Qle_shift_div_l; [exact H1|].
  assert (E : a / d2 * d1 == a * (d1 / d2)) by (field; lra).
  rewrite E.
  assert (d1 / d2 <= 1) by (apply Qle_shift_div_r; [exact H2' | lra]).
  assert (0 <= d1 / d2) by (apply Qle_shift_div_l; [exact H2' | lra]).
  nra.
Qed.

Lemma idmt_time_antitone s pw1 pw2 :
  0 <= tms s * kk s -> 1 < pw1 -> pw1 <= pw2 -> tle (idmt_time s pw2) (idmt_time s pw1).
Proof.
  intros Ha H1 H2. unfold idmt_time.
  assert (N1 : qeqb pw1 1 = false) by (destruct (qeqb pw1 1) eqn:E; [apply qeqb_eq in E; lra | reflexivity]).
  assert (N2 : qeqb pw2 1 = false) by (destruct (qeqb pw2 1) eqn:E; [apply qeqb_eq in E; lra | reflexivity]).
  rewrite N1, N2. unfold tle. qnorm.
  assert (D1 : 0 < pw1 - 1) by lra. assert (D2 : pw1 - 1 <= pw2 - 1) by lra.
  pose proof (div_antitone (tms s * kk s) (pw1 - 1) (pw2 - 1) Ha D1 D2) as D.
  apply Qplus_le_compat; [exact D | apply Qle_refl].
Qed.

Section Power.
  (* the oracle for (i_ka / I_s) ** alpha as a function of the current; hypotheses = what IdmtReal proves about Rpower *)
  Variable s : idmt_set.
  Variable pw : Q -> Q.
  Hypothesis pw_gt1 : forall i, I_s s < i -> 1 < pw i.
  Hypothesis pw_mono : forall i1 i2, I_s s < i1 -> i1 <= i2 -> pw i1 <= pw i2.
  Hypothesis gain_nonneg : 0 <= tms s * kk s.

  Lemma idmt_antitone i1 i2 : i1 <= i2 ->
    tle (ttime (idmt s (pw i2) (Some i2))) (ttime (idmt s (pw i1) (Some i1))).
  Proof.
    intros H. unfold idmt.
    destruct (fgt (Some i2) (I_s s)) eqn:A2; destruct (fgt (Some i1) (I_s s)) eqn:A1; cbn;
      rewrite ?fgt_s, ?fgt_f in *; try exact I; try lra.
    - change (tle (idmt_time s (pw i2)) (idmt_time s (pw i1))).
      apply idmt_time_antitone; [exact gain_nonneg | apply pw_gt1; exact A1 | apply pw_mono; assumption].
    - destruct (idmt_time s (pw i2)); exact I.
  Qed.

  Lemma idmt_trip_iff p i : tripped (idmt s p (Some i)) = true <-> I_s s < i.
  Proof.
    unfold idmt. destruct (fgt (Some i) (I_s s)) eqn:A; cbn; rewrite ?fgt_s, ?fgt_f in *;
      split; intros; try reflexivity; try discriminate; lra.
  Qed.

  (* IDTOC under consistent grading: I_s <= I_g <= I_gg, t_gg <= t_g, and the inverse curve at I_g is not below t_g *)
  Variable d : dtoc_set.
  Hypothesis g1 : I_s s <= I_g d.
  Hypothesis g2 : I_g d <= I_gg d.
  Hypothesis g3 : t_gg d <= t_g d.
  Hypothesis g4 : I_s s < I_g d -> tle (TFin (t_g d)) (idmt_time s (pw (I_g d))).

  Lemma tle_trans a b c : tle a b -> tle b c -> tle a c.
  Proof. destruct a, b, c; cbn; try tauto. intros; lra. Qed.

  Lemma idtoc_antitone i1 i2 : i1 <= i2 ->
    tle (ttime (idtoc d s (pw i2) (Some i2))) (ttime (idtoc d s (pw i1) (Some i1))).
  Proof.
    intros H. unfold idtoc.
    destruct (fgt (Some i2) (I_gg d)) eqn:A2; destruct (fgt (Some i1) (I_gg d)) eqn:A1;
      destruct (fgt (Some i2) (I_g d)) eqn:B2; destruct (fgt (Some i1) (I_g d)) eqn:B1;
      destruct (fgt (Some i2) (I_s s)) eqn:C2; destruct (fgt (Some i1) (I_s s)) eqn:C1; cbn;
      rewrite ?fgt_s, ?fgt_f in *; try exact I; try apply Qle_refl; try lra.
    - (* i2 in the t>> stage, i1 on the inverse curve *)
      assert (L : I_s s < I_g d) by lra.
      change (tle (TFin (t_gg d)) (idmt_time s (pw i1))).
      eapply tle_trans; [|eapply tle_trans; [apply (g4 L)|]].
      + cbn. exact g3.
      + apply idmt_time_antitone; [exact gain_nonneg | apply pw_gt1; exact C1 | apply pw_mono; assumption].
    - (* i2 in the t> stage, i1 on the inverse curve *)
      assert (L : I_s s < I_g d) by lra.
      change (tle (TFin (t_g d)) (idmt_time s (pw i1))).
      eapply tle_trans; [apply (g4 L)|].
      apply idmt_time_antitone; [exact gain_nonneg | apply pw_gt1; exact C1 | apply pw_mono; assumption].
    - change (tle (idmt_time s (pw i2)) (idmt_time s (pw i1))).
      apply idmt_time_antitone; [exact gain_nonneg | apply pw_gt1; exact C1 | apply pw_mono; assumption].
    - destruct (idmt_time s (pw i2)); exact I.
  Qed.

  Lemma idtoc_trip_iff p i : tripped (idtoc d s p (Some i)) = true <-> I_s s < i.
  Proof.
    unfold idtoc.
    destruct (fgt (Some i) (I_gg d)) eqn:A; destruct (fgt (Some i) (I_g d)) eqn:B; destruct (fgt (Some i) (I_s s)) eqn:C;
      cbn; rewrite ?fgt_s, ?fgt_f in *; split; intros; try reflexivity; try discriminate; lra.
  Qed.
End Power.

(* ---------------------------------------------------------------- Fuse *)
Section Fuse.
  Variables i_start i_stop : Q.
  Variable c : Q -> Q.            (* melting curve (seconds) as a function of the current in A *)
  Hypothesis c_antitone : forall a b, i_start <= a -> a <= b -> b <= i_stop -> c b <= c a.
  Hypothesis c_nonneg : forall a, i_start <= a -> a <= i_stop -> 0 <= c a.

  Definition fuse_at (i : Q) : res := fuse i_start i_stop (c (i * 1000)) (Some i).

  Lemma fuse_antitone i1 i2 : i1 <= i2 -> tle (ttime (fuse_at i2)) (ttime (fuse_at i1)).
  Proof.
    intros H. unfold fuse_at, fuse.
    destruct (flt (Some (qmul i2 1000)) i_start) eqn:A2; destruct (flt (Some (qmul i1 1000)) i_start) eqn:A1;
      destruct (fle (Some (qmul i2 1000)) i_stop) eqn:B2; destruct (fle (Some (qmul i1 1000)) i_stop) eqn:B1;
      cbn [ttime tle];
      rewrite ?flt_s, ?flt_f, ?fle_s, ?fle_f in *; qnorm; try exact I; try apply Qle_refl; try lra.
    - apply c_antitone; lra.
    - apply c_nonneg; lra.
  Qed.

  Lemma fuse_trip_iff cv i : tripped (fuse i_start i_stop cv (Some i)) = true <-> i_start <= i * 1000.
  Proof.
    unfold fuse.
    destruct (flt (Some (qmul i 1000)) i_start) eqn:A; destruct (fle (Some (qmul i 1000)) i_stop) eqn:B;
      cbn [tripped];
      rewrite ?flt_s, ?flt_f, ?fle_s, ?fle_f in *; qnorm; split; intros; try reflexivity; try discriminate; lra.
  Qed.
End Fuse.

(* the fuse melts exactly when there is a current and it reaches the start value *)
Lemma fuse_trip_iff_full i_start i_stop cv (i : F) :
  tripped (fuse i_start i_stop cv i) = true <-> exists x, i = Some x /\ i_start <= x * 1000.
Proof.
  destruct i as [x|].
  - rewrite (fuse_trip_iff i_start i_stop cv x). split.
    + intros H. exists x. split; [reflexivity | exact H].
    + intros (y & E & H). inversion E. subst. exact H.
  - cbn. split; [discriminate | intros (y & E & _); discriminate].
Qed.
Lemma fuse_nan i_start i_stop cv : fuse i_start i_stop cv None = {| tripped := false; ttime := TInf |}.
Proof. reflexivity. Qed.
(* before the repair a NaN current (no result row for the switch) melted the fuse at once *)
Lemma fuse_old_nan_trips i_start i_stop cv : fuse_old i_start i_stop cv None = {| tripped := true; ttime := TFin 0 |}.
Proof. reflexivity. Qed.
Lemma fuse_trip_iff_old_refuted :
  exists i_start i_stop cv (i : F), tripped (fuse_old i_start i_stop cv i) = true /\
    ~ (exists x, i = Some x /\ i_start <= x * 1000).
Proof. exists 100, 1000, 1, None. split; [reflexivity|]. intros (x & E & _). discriminate. Qed.

(* the reported activation value is the switch current of the chosen result table *)
Lemma activation_value s a b v : select s a b = Some v -> (s = Sc /\ v = a) \/ (s = Pp /\ v = b).
Proof. destruct s; cbn; intros H; inversion H; auto. Qed.

(* DTOC with inconsistent grading (t_gg > t_g, I_g < I_gg) is not antitone: the guard is necessary *)
Lemma dtoc_ungraded_refuted :
  exists s i1 i2, i1 <= i2 /\ ~ tle (ttime (dtoc s (Some i2))) (ttime (dtoc s (Some i1))).
Proof.
  exists {| I_g := 1; I_gg := 2; t_g := 1 # 10; t_gg := 1 |}, (3 # 2), 3.
  split; [vm_compute; discriminate|]. vm_compute. intros H. apply H. reflexivity.
Qed.
