(* C29 — list form, positive statements: the relay of switch s holds the stage time of ITS line (the code as it is: for every
   net with a unique switch index; before the repair: only when the closed switches were exactly 0 .. n-1) *)
From Coq Require Import ZArith QArith List Bool String Lia Permutation.
From PPV Require Import Base.QN C29.Grading C29.GradingProofs.
Import ListNotations.
Open Scope Q_scope.

Definition key (r : Z * Q * Q) : Z := fst (fst r).
Definition strip (r : Z * Q * Q) : Z * Q * Q := (key r, 0, 0).

Lemma switch_rows_spec m a cl : forall r, switch_rows m a cl = Ok r ->
  map key r = map fst cl /\ (forall sw el v, In (sw, el) cl -> get m el = Some v -> In (sw, v, a) r).
Proof.
  induction cl as [|[sw el] t IH]; intros r H; simpl in H.
  - inversion H. split; [reflexivity | intros ? ? ? []].
  - destruct (get m el) as [tg|] eqn:G; [|discriminate].
    destruct (switch_rows m a t) as [r'|] eqn:E; [|discriminate]. simpl in H. inversion H. subst r.
    destruct (IH r' eq_refl) as [K I]. split; [simpl; rewrite K; reflexivity|].
    intros sw' el' v [X|X] Gv.
    + inversion X; subst. rewrite G in Gv. inversion Gv. left. reflexivity.
    + right. apply (I sw' el' v X Gv).
Qed.

Lemma insert_sid_in r l x : In x (insert_sid r l) <-> x = r \/ In x l.
Proof.
  induction l as [|q t IH]; simpl; [intuition|].
  destruct (Z.ltb (fst (fst r)) (fst (fst q))); simpl; [intuition|]. rewrite IH. intuition.
Qed.
Lemma sort_sid_in l x : In x (sort_sid l) <-> In x l.
Proof.
  unfold sort_sid.
  assert (G : forall acc, In x (fold_left (fun acc r => insert_sid r acc) l acc) <-> In x l \/ In x acc).
  { induction l as [|y l IH]; intros acc; simpl; [intuition|]. rewrite IH, insert_sid_in. intuition. }
  rewrite G. simpl. intuition.
Qed.
Lemma insert_sid_strip r l : map strip (insert_sid r l) = insert_sid (strip r) (map strip l).
Proof.
  induction l as [|q t IH]; simpl; [reflexivity|].
  change (fst (fst (strip r))) with (key r). change (fst (fst (strip q))) with (key q). unfold key at 1 2.
  destruct (Z.ltb (fst (fst r)) (fst (fst q))); simpl; [reflexivity | rewrite IH; reflexivity].
Qed.
Lemma sort_sid_strip l : map strip (sort_sid l) = sort_sid (map strip l).
Proof.
  unfold sort_sid.
  assert (G : forall acc, map strip (fold_left (fun acc r => insert_sid r acc) l acc)
                          = fold_left (fun acc r => insert_sid r acc) (map strip l) (map strip acc)).
  { induction l as [|y l IH]; intros acc; simpl; [reflexivity|]. rewrite IH, insert_sid_strip. reflexivity. }
  apply (G []).
Qed.
Lemma map_key_strip l : map key (map strip l) = map key l.
Proof. rewrite map_map. apply map_ext. intros [[a b] c]. reflexivity. Qed.

Lemma zseq_in n : forall k x, In x (zseq k n) -> (k <= x < k + Z.of_nat n)%Z.
Proof. induction n as [|n IH]; intros k x H; simpl in H; [destruct H|]. destruct H as [<-|H]; [lia|]. apply IH in H. lia. Qed.
Lemma zseq_nodup n : forall k, NoDup (zseq k n).
Proof.
  induction n as [|n IH]; intros k; simpl; constructor; [|apply IH].
  intros H. apply zseq_in in H. lia.
Qed.
Lemma zseq_len n : forall k, List.length (zseq k n) = n.
Proof. induction n as [|n IH]; intros k; simpl; [reflexivity | rewrite IH; reflexivity]. Qed.
Lemma nodup_key_inj (l : list (Z * Q * Q)) x y : NoDup (map key l) -> In x l -> In y l -> key x = key y -> x = y.
Proof.
  induction l as [|z l IH]; intros Hn Hx Hy E; [destruct Hx|].
  simpl in Hn. inversion Hn as [|? ? Hz Hn']; subst.
  destruct Hx as [<-|Hx]; destruct Hy as [<-|Hy]; try reflexivity.
  - exfalso. apply Hz. rewrite E. apply in_map. exact Hy.
  - exfalso. apply Hz. rewrite <- E. apply in_map. exact Hx.
  - apply IH; assumption.
Qed.

Theorem list_stage_old_partial g a b c s el v :
  G29_list_positions g = true -> In (s, el) (closed g) -> get (line_time g b c) el = Some v ->
  forall tab, grading_list g [a; b; c] = Ok tab ->
  relay_times_old DTOC g (TList [a; b; c]) s = Ok {| r_tg := Some v; r_tgg := Some a; r_tms := None; r_tgrade := None |}.
Proof.
  intros G Hin Hget tab E.
  assert (R : exists rows, switch_rows (line_time g b c) a (closed g) = Ok rows /\ tab = relabel 0 (sort_sid rows)).
  { revert E. unfold grading_list. destruct (paths g); [discriminate|]. destruct (closed g) as [|x cl] eqn:C; [discriminate|].
    destruct (switch_rows (line_time g b c) a (x :: cl)) as [r|]; [|discriminate]. simpl. intros H. inversion H. eauto. }
  destruct R as (rows & SR & ->).
  destruct (switch_rows_spec _ _ _ _ SR) as [K I].
  unfold G29_list_positions, G29_positions in G. apply zlist_eqb_eq in G.
  set (n := List.length (map (fun r => fst (fst r)) (sort_sid (map (fun se : Z * Z => (fst se, 0, 0)) (closed g))))) in G.
  (* keys of the sorted rows are 0 .. n-1 *)
  assert (S1 : map strip rows = map (fun se : Z * Z => (fst se, 0, 0)) (closed g)).
  { rewrite <- (map_map fst (fun k => (k, 0, 0))). rewrite <- K. rewrite map_map. reflexivity. }
  assert (KS : map key (sort_sid rows) = zseq 0 n).
  { rewrite <- map_key_strip, sort_sid_strip, S1. exact G. }
  assert (Hs : In s (zseq 0 n)).
  { rewrite <- KS. apply in_map_iff. exists (s, v, a). split; [reflexivity|]. apply sort_sid_in. apply (I s el v Hin Hget). }
  apply zseq_in in Hs.
  assert (Ln : List.length (sort_sid rows) = n) by (rewrite <- (map_length key), KS, zseq_len; reflexivity).
  destruct (nth_error (sort_sid rows) (Z.to_nat s)) as [x|] eqn:N.
  2:{ apply nth_error_None in N. lia. }
  assert (Kx : key x = s).
  { assert (M : nth_error (map key (sort_sid rows)) (Z.to_nat s) = Some (key x)) by (rewrite nth_error_map, N; reflexivity).
    rewrite KS, zseq_nth in M by lia. inversion M. lia. }
  assert (X : x = (s, v, a)).
  { apply (nodup_key_inj (sort_sid rows)); [rewrite KS; apply zseq_nodup | apply (nth_error_In _ _ N) | | exact Kx].
    apply sort_sid_in. apply (I s el v Hin Hget). }
  destruct (list_old_reads_position g a b c s _ E) as (l & EL & RT); [lia|].
  (* relabel is injective on the row data *)
  assert (L : l = sort_sid rows).
  { clear -EL. revert EL. generalize 0%Z. generalize (sort_sid rows). induction l as [|[[p q] r] l IH]; intros [|[[p' q'] r'] l'] k H; simpl in H;
      try reflexivity; try discriminate. inversion H. f_equal. apply (IH l' (k + 1)%Z). assumption. }
  rewrite RT, L, N, X. reflexivity.
Qed.

(* ---------------------------------------------------------------- the code as it is: rows selected by switch_id *)
Lemma insert_sid_perm r l : Permutation (insert_sid r l) (r :: l).
Proof.
  induction l as [|q t IH]; simpl; [apply Permutation_refl|].
  destruct (Z.ltb (fst (fst r)) (fst (fst q))); [apply Permutation_refl|].
  apply perm_trans with (q :: r :: t); [apply perm_skip; exact IH | apply perm_swap].
Qed.
Lemma sort_sid_perm l : Permutation (sort_sid l) l.
Proof.
  unfold sort_sid.
  assert (G : forall acc, Permutation (fold_left (fun acc r => insert_sid r acc) l acc) (l ++ acc)).
  { induction l as [|y l IH]; intros acc; simpl; [apply Permutation_refl|].
    apply perm_trans with (l ++ insert_sid y acc); [apply IH|].
    apply perm_trans with (l ++ y :: acc); [apply Permutation_app_head; apply insert_sid_perm|].
    apply Permutation_sym. apply Permutation_middle. }
  specialize (G []). rewrite app_nil_r in G. exact G.
Qed.
Lemma relabel_sid l : forall k, map p_sid (relabel k l) = map key l.
Proof. induction l as [|[[a b] c] l IH]; intros k; simpl; [reflexivity | rewrite IH; reflexivity]. Qed.
Lemma relabel_in l : forall k sw tg tgg, In (sw, tg, tgg) l ->
  exists k', In {| p_lbl := k'; p_sid := sw; p_tg := tg; p_tgg := tgg |} (relabel k l).
Proof.
  induction l as [|[[a b] c] l IH]; intros k sw tg tgg H; [destruct H|]. simpl.
  destruct H as [E|H].
  - inversion E; subst. exists k. left. reflexivity.
  - destruct (IH (k + 1)%Z sw tg tgg H) as (k' & I). exists k'. right. exact I.
Qed.

(* list form, the code as it is: in every net (unique switch index) the relay of a closed switch s holds the user's t>> and the
   stage time t> + depth * t_diff of ITS OWN line, whatever the switch ids are and whichever switches are open *)
Theorem list_stage_users g a b c s el v :
  NoDup (map fst (closed g)) -> In (s, el) (closed g) -> get (line_time g b c) el = Some v ->
  forall tab, grading_list g [a; b; c] = Ok tab ->
  relay_times DTOC g (TList [a; b; c]) s = Ok {| r_tg := Some v; r_tgg := Some a; r_tms := None; r_tgrade := None |}.
Proof.
  intros Hn Hin Hget tab E.
  assert (R : exists rows, switch_rows (line_time g b c) a (closed g) = Ok rows /\ tab = relabel 0 (sort_sid rows)).
  { revert E. unfold grading_list. destruct (paths g); [discriminate|]. destruct (closed g) as [|x cl] eqn:C; [discriminate|].
    destruct (switch_rows (line_time g b c) a (x :: cl)) as [r|]; [|discriminate]. simpl. intros H. inversion H. eauto. }
  destruct R as (rows & SR & ->).
  destruct (switch_rows_spec _ _ _ _ SR) as [K I].
  assert (ND : NoDup (map p_sid (relabel 0 (sort_sid rows)))).
  { rewrite relabel_sid. apply (Permutation_NoDup (l := map key rows)).
    - apply Permutation_map. apply Permutation_sym. apply sort_sid_perm.
    - rewrite K. exact Hn. }
  destruct (relabel_in (sort_sid rows) 0 s v a) as (k' & Ir); [apply sort_sid_in; apply (I s el v Hin Hget)|].
  set (r := {| p_lbl := k'; p_sid := s; p_tg := v; p_tgg := a |}) in *.
  pose proof (filter_key_unique p_sid _ r ND Ir) as F. change (p_sid r) with s in F.
  unfold relay_times, relay_times_with, time_grading. rewrite E. simpl bind.
  unfold setting_at, by_sid. rewrite F. reflexivity.
Qed.
