(* C29 — the fuse melting curve is a LogSplineCharacteristic(interpolator_kind="Pchip") over the points (x_values, y_values)
   (fuse.py:70-79: i_start_a = min(x_values), i_stop_a = max(x_values)).  With the whole-curve theorem of C32 (C32/Whole.v) the
   hypotheses of Proofs.fuse_antitone (curve non-increasing and non-negative on [i_start, i_stop]) are THEOREMS for
   monotone characteristic data; log10 / 10** enter only through their order contract. *)
From Coq Require Import ZArith QArith List Bool Lia Lqa.
From PPV Require Import Base.QN C32.Model C32.Whole C29.Model C29.Proofs.
Import ListNotations.
Open Scope Q_scope.

Section FusePchip.
  Variable lg pw : Q -> Q.                         (* log10 and 10** *)
  Hypothesis pw_lg : forall y, 0 < y -> pw (lg y) == y.
  Hypothesis pw_mono : forall a b, a <= b -> pw a <= pw b.
  Hypothesis lg_mono : forall a b, 0 < a -> a <= b -> lg a <= lg b.
  Hypothesis lg_strict : forall a b, 0 < a -> a < b -> lg a < lg b.

  (* c(i_ka * 1000) as protection_function evaluates it; None never occurs for two or more points (theorem below) *)
  Definition melt (l : list pt) (i : Q) : Q := match logspline lg pw l i with Some v => v | None => 0 end.

  Variable a : pt.
  Variable t : list pt.
  Hypothesis two_points : t <> [].
  Hypothesis Hpos : positive (a :: t).             (* currents and times are positive (log-log data) *)
  Hypothesis Hsorted : sorted (a :: t).            (* currents strictly increasing *)
  Hypothesis Hmono : nonincreasing (a :: t).       (* melting times non-increasing: the monotone characteristic data *)

  Lemma melt_antitone x x' : fst a <= x -> x <= x' -> x' <= fst (last t a) -> melt (a :: t) x' <= melt (a :: t) x.
  Proof.
    intros X1 X2 X3.
    destruct (logspline_noninc_monotone lg pw pw_mono lg_mono lg_strict a t x x' two_points Hpos Hsorted Hmono X1 X2 X3)
      as (v & v' & E & E' & L).
    unfold melt. rewrite E, E'. exact L.
  Qed.
  Lemma melt_nonneg x : fst a <= x -> x <= fst (last t a) -> 0 <= melt (a :: t) x.
  Proof.
    intros X1 X2.
    destruct (logspline_noninc_bounds lg pw pw_lg pw_mono lg_mono lg_strict a t x two_points Hpos Hsorted Hmono X1 X2)
      as (v & E & L1 & L2).
    unfold melt. rewrite E.
    destruct (Hpos (last t a) (last_in t a)) as [_ Py]. lra.
  Qed.
  Lemma melt_defined x : fst a <= x -> x <= fst (last t a) -> exists v, logspline lg pw (a :: t) x = Some v /\ snd (last t a) <= v /\ v <= snd a.
  Proof.
    intros X1 X2. exact (logspline_noninc_bounds lg pw pw_lg pw_mono lg_mono lg_strict a t x two_points Hpos Hsorted Hmono X1 X2).
  Qed.

  (* the melt time reported by Fuse.protection_function is non-increasing in the switch current over the whole axis *)
  Theorem fuse_pchip_antitone i1 i2 : i1 <= i2 ->
    tle (ttime (fuse_at (fst a) (fst (last t a)) (melt (a :: t)) i2)) (ttime (fuse_at (fst a) (fst (last t a)) (melt (a :: t)) i1)).
  Proof.
    apply fuse_antitone.
    - intros x x' X1 X2 X3. apply melt_antitone; assumption.
    - intros x X1 X2. apply melt_nonneg; assumption.
  Qed.
End FusePchip.
