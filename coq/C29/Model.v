(* C29 — faithful model of the protection functions
     pandapower/protection/protection_devices/fuse.py     Fuse.protection_function (:90-118)
     pandapower/protection/protection_devices/ocrelay.py  OCRelay.protection_function (:198-249), _select_k_alpha (:166-178)
   NaN current = None.  The melting curve value c(i) (LogSplineCharacteristic, PCHIP in log-log) and the power
   (i_ka / I_s) ** alpha are oracle inputs.  Executable definitions only. *)
From Coq Require Import ZArith QArith List Bool String.
From PPV Require Import Base.QN Base.Out.
Import ListNotations.
Open Scope Q_scope.

Definition F := option Q.
(* python / numpy comparisons: False when the current is NaN *)
Definition fgt (a : F) (b : Q) : bool := match a with Some x => qltb b x | None => false end.
Definition flt (a : F) (b : Q) : bool := match a with Some x => qltb x b | None => false end.
Definition fle (a : F) (b : Q) : bool := match a with Some x => qleb x b | None => false end.

Inductive time := TInf | TFin (q : Q).            (* np.inf | seconds *)
Record res := { tripped : bool; ttime : time }.

(* the current the device looks at: res_switch_sc.ikss_ka ("sc") or res_switch.i_ka ("pp") at switch_index *)
Inductive scenario := Sc | Pp | Other.
Definition select (s : scenario) (sc_val pp_val : F) : option F :=
  match s with Sc => Some sc_val | Pp => Some pp_val | Other => None end.          (* None: ValueError *)

(* ---------------------------------------------------------------- Fuse.protection_function (:99-109) *)
(* c : value of the characteristic at i_ka*1000 (only used in the middle branch).  After "fix: a fuse does not melt on a NaN
   switch current" the first test is  np.isnan(i_ka) or i_ka * 1000 < self.i_start_a *)
Definition fuse (i_start i_stop : Q) (c : Q) (i_ka : F) : res :=
  let i_a := match i_ka with Some x => Some (qmul x 1000) | None => None end in
  if (match i_ka with None => true | Some _ => false end) || flt i_a i_start then {| tripped := false; ttime := TInf |}
  else if fle i_a i_stop then {| tripped := true; ttime := TFin c |}
  else {| tripped := true; ttime := TFin 0 |}.
(* before the repair a NaN current fell through to the last branch *)
Definition fuse_old (i_start i_stop : Q) (c : Q) (i_ka : F) : res :=
  let i_a := match i_ka with Some x => Some (qmul x 1000) | None => None end in
  if flt i_a i_start then {| tripped := false; ttime := TInf |}
  else if fle i_a i_stop then {| tripped := true; ttime := TFin c |}
  else {| tripped := true; ttime := TFin 0 |}.

(* ---------------------------------------------------------------- OCRelay.protection_function *)
Record dtoc_set := { I_g : Q; I_gg : Q; t_g : Q; t_gg : Q }.
Record idmt_set := { I_s : Q; tms : Q; kk : Q; t_grade : Q }.

Definition dtoc (s : dtoc_set) (i : F) : res :=
  if fgt i (I_gg s) then {| tripped := true; ttime := TFin (t_gg s) |}
  else if fgt i (I_g s) then {| tripped := true; ttime := TFin (t_g s) |}
  else {| tripped := false; ttime := TInf |}.

(* (tms*k) / ((i_ka/I_s)**alpha - 1) + t_grade with pw = (i_ka/I_s)**alpha; a zero denominator gives inf (numpy float) *)
Definition idmt_time (s : idmt_set) (pw : Q) : time :=
  if qeqb pw 1 then TInf
  else TFin (qadd (qdiv (qmul (tms s) (kk s)) (qsub pw 1)) (t_grade s)).
Definition idmt (s : idmt_set) (pw : Q) (i : F) : res :=
  if fgt i (I_s s) then {| tripped := true; ttime := idmt_time s pw |}
  else {| tripped := false; ttime := TInf |}.

Definition idtoc (d : dtoc_set) (s : idmt_set) (pw : Q) (i : F) : res :=
  if fgt i (I_gg d) then {| tripped := true; ttime := TFin (t_gg d) |}
  else if fgt i (I_g d) then {| tripped := true; ttime := TFin (t_g d) |}
  else if fgt i (I_s s) then {| tripped := true; ttime := idmt_time s pw |}
  else {| tripped := false; ttime := TInf |}.

(* _select_k_alpha: (k, alpha) *)
Definition k_alpha (curve : string) : option (Q * Q) :=
  if String.eqb curve "standard_inverse" then Some (140 # 1000, 2 # 100)
  else if String.eqb curve "very_inverse" then Some (135 # 10, 1)
  else if String.eqb curve "extremely_inverse" then Some (80, 2)
  else if String.eqb curve "long_inverse" then Some (120, 1)
  else None.

(* ---------------------------------------------------------------- spec side *)
Definition tle (a b : time) : Prop :=
  match a, b with
  | _, TInf => True
  | TInf, TFin _ => False
  | TFin x, TFin y => x <= y
  end.

(* ---------------------------------------------------------------- output *)
Definition otime (t : time) : out := match t with TInf => OS "inf" | TFin q => oq q end.
Definition ores (r : res) : out := OL [OB (tripped r); otime (ttime r)].
Definition run_fuse (i_start i_stop c : Q) (s : scenario) (sc_val pp_val : F) : out :=
  match select s sc_val pp_val with
  | None => OErr "ValueError"
  | Some i => OL [ores (fuse i_start i_stop c i); ooq i]
  end.
Definition run_dtoc (d : dtoc_set) (s : scenario) (sc_val pp_val : F) : out :=
  match select s sc_val pp_val with None => OErr "ValueError" | Some i => OL [ores (dtoc d i); ooq i] end.
Definition run_idmt (m : idmt_set) (pw : Q) (s : scenario) (sc_val pp_val : F) : out :=
  match select s sc_val pp_val with None => OErr "ValueError" | Some i => OL [ores (idmt m pw i); ooq i] end.
Definition run_idtoc (d : dtoc_set) (m : idmt_set) (pw : Q) (s : scenario) (sc_val pp_val : F) : out :=
  match select s sc_val pp_val with None => OErr "ValueError" | Some i => OL [ores (idtoc d m pw i); ooq i] end.
