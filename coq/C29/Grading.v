(* C29 — where an OCRelay gets its settings from (pandapower/protection/protection_devices/ocrelay.py)
     time_grading(net, time_settings)            (:282-395)  list form (topological grading) and DataFrame form
     OCRelay.create_protection_function          (:115-164)  reads t_g / t_gg / tms / t_grade and the manual pick-up currents
   Inputs of the list form that come from the grid search (bus_path_multiple_ext_bus + get_line_path, parallel_lines) are
   observed on the real functions and passed in.  Executable definitions only; python exceptions = Raise. *)
From Coq Require Import ZArith QArith List Bool String.
From PPV Require Import Base.QN Base.Out.
Import ListNotations.
Open Scope Q_scope.

Inductive res (A : Type) : Type := Ok (a : A) | Raise (e : string).
Arguments Ok {A} a. Arguments Raise {A} e.
Definition bind {A B} (r : res A) (f : A -> res B) : res B := match r with Ok a => f a | Raise e => Raise e end.

(* ---------------------------------------------------------------- the settings table *)
Record prow := { p_lbl : Z; p_sid : Z; p_tg : Q; p_tgg : Q }.      (* row label, columns switch_id, t_g, t_gg *)

(* BEFORE "fix: OCRelay reads its time settings and manual pick-up currents by the switch_id column":
   self.time_grading.t_g[self.switch_index]: a Series indexed by ROW LABEL (integer labels), float(...) of the result *)
Definition by_label (rows : list prow) (s : Z) : list prow := filter (fun r => Z.eqb (p_lbl r) s) rows.
Definition series_at (f : prow -> Q) (rows : list prow) (s : Z) : res Q :=
  match by_label rows s with
  | [r] => Ok (f r)
  | [] => Raise "KeyError"
  | _ => Raise "TypeError"                       (* float() of a Series with several entries *)
  end.
(* the code now (_setting_of_switch, ocrelay.py:16-21): the row whose switch_id equals the relay's switch; anything but exactly
   one such row raises ValueError *)
Definition by_sid (rows : list prow) (s : Z) : list prow := filter (fun r => Z.eqb (p_sid r) s) rows.
Definition setting_at (f : prow -> Q) (rows : list prow) (s : Z) : res Q :=
  match by_sid rows s with
  | [r] => Ok (f r)
  | _ => Raise "ValueError"
  end.

(* ---------------------------------------------------------------- DataFrame form (:371-393) *)
Record trow := { lbl : Z; sid : Z; c1 : Q; c2 : Q }.               (* user's row: label, switch_id, 2nd and 3rd column *)
Inductive cols := ColsDtoc | ColsIdmt | ColsOther.                (* ['switch_id','t_gg','t_g'] | ['switch_id','tms','t_grade'] | else *)
Definition grading_frame (c : cols) (rows : list trow) : list prow :=
  match c with
  | ColsDtoc | ColsIdmt =>                                        (* t_g <- t_g / t_grade (3rd column), t_gg <- t_gg / tms (2nd) *)
      map (fun r => {| p_lbl := lbl r; p_sid := sid r; p_tg := c2 r; p_tgg := c1 r |}) rows
  | ColsOther => []                                               (* the empty frame with the three columns *)
  end.

(* ---------------------------------------------------------------- list form (:285-368) *)
Record grid := {
  paths : list (list Z);            (* get_line_path of every bus path, in the order of net.line.index *)
  par : list (Z * Z);               (* parallel_lines(net) *)
  lines : list Z;                   (* net.line.index *)
  closed : list (Z * Z)             (* (switch, element) of the closed switches, in index order *)
}.

Fixpoint insert_len (p : list Z) (l : list (list Z)) : list (list Z) :=          (* sorted(..., key=len) is stable *)
  match l with
  | [] => [p]
  | q :: t => if Nat.ltb (List.length p) (List.length q) then p :: q :: t else q :: insert_len p t
  end.
Definition sort_len (l : list (list Z)) : list (list Z) := fold_left (fun acc p => insert_len p acc) l [].

Definition assoc := list (Z * Q).
Fixpoint get (m : assoc) (k : Z) : option Q :=
  match m with [] => None | (k', v) :: t => if Z.eqb k k' then Some v else get t k end.
Fixpoint upd (m : assoc) (k : Z) (v : Q) : assoc :=
  match m with [] => [(k, v)] | (k', v') :: t => if Z.eqb k k' then (k, v) :: t else (k', v') :: upd t k v end.
Definition has (m : assoc) (k : Z) : bool := match get m k with Some _ => true | None => false end.

(* line_time[line[-1]] = t> + (L - len(line)) * t_diff for every path, L = length of the longest path *)
Definition stage (b c : Q) (L : nat) (p : list Z) : Q := qadd b (qmul (inject_Z (Z.of_nat (L - List.length p))) c).
Definition line_time0 (sorted : list (list Z)) (b c : Q) : assoc :=
  let L := List.length (last sorted []) in
  fold_left (fun m p => match p with [] => m | _ => upd m (last p 0%Z) (stage b c L p) end) sorted [].
(* lines without an own entry take the time of a parallel line that has one (:318-352) *)
Definition copy_from (m : assoc) (line other : Z) : assoc :=
  match get m other with Some v => upd m line v | None => m end.
Definition par_step (missing : list Z) (m : assoc) (ab : Z * Z) : assoc :=
  fold_left (fun m line =>
               let m1 := if Z.eqb (fst ab) line then copy_from m line (snd ab) else m in
               if Z.eqb (snd ab) line then copy_from m1 line (fst ab) else m1) missing m.
Definition line_time (g : grid) (b c : Q) : assoc :=
  let m0 := line_time0 (sort_len (paths g)) b c in
  let missing := filter (fun l => negb (has m0 l)) (lines g) in
  fold_left (par_step missing) (par g) m0.

(* one row per closed switch: [switch, line_time[element], t>>]; a missing line raises KeyError *)
Fixpoint switch_rows (m : assoc) (a : Q) (cl : list (Z * Z)) : res (list (Z * Q * Q)) :=
  match cl with
  | [] => Ok []
  | (sw, el) :: t => match get m el with
                     | None => Raise "KeyError"
                     | Some tg => bind (switch_rows m a t) (fun r => Ok ((sw, tg, a) :: r))
                     end
  end.
Fixpoint insert_sid (r : Z * Q * Q) (l : list (Z * Q * Q)) : list (Z * Q * Q) :=
  match l with
  | [] => [r]
  | q :: t => if Z.ltb (fst (fst r)) (fst (fst q)) then r :: q :: t else q :: insert_sid r t
  end.
Definition sort_sid (l : list (Z * Q * Q)) : list (Z * Q * Q) := fold_left (fun acc r => insert_sid r acc) l [].
(* sort_values(by=['switch_id']).reset_index(drop=True): the labels are the positions *)
Fixpoint relabel (k : Z) (l : list (Z * Q * Q)) : list prow :=
  match l with
  | [] => []
  | (sw, tg, tgg) :: t => {| p_lbl := k; p_sid := sw; p_tg := tg; p_tgg := tgg |} :: relabel (k + 1) t
  end.

Definition grading_list (g : grid) (ts : list Q) : res (list prow) :=
  match ts with
  | [a; b] | [a; b; _] =>
      let c := match ts with [_; _; c] => c | _ => b end in       (* [tms, t_grade] -> [tms, t_grade, t_grade] *)
      match paths g with
      | [] => Raise "UnboundLocalError"                           (* sorted_line_path is never assigned *)
      | _ => match closed g with
             | [] => Raise "ValueError"                           (* three column names for an empty frame *)
             | cl => bind (switch_rows (line_time g b c) a cl) (fun r => Ok (relabel 0 (sort_sid r)))
             end
      end
  | _ => Raise "IndexError"                                       (* outside the documented forms *)
  end.

(* ---------------------------------------------------------------- create_protection_function *)
Inductive tsettings := TList (ts : list Q) | TFrame (c : cols) (rows : list trow).
Definition time_grading (g : grid) (t : tsettings) : res (list prow) :=
  match t with TList ts => grading_list g ts | TFrame c rows => Ok (grading_frame c rows) end.

Inductive rtype := DTOC | IDMT | IDTOC.
Record rtimes := { r_tg : option Q; r_tgg : option Q; r_tms : option Q; r_tgrade : option Q }.

(* lk = how a value is looked up in the table: setting_at (the code) or series_at (before the repair) *)
Definition relay_times_with (lk : (prow -> Q) -> list prow -> Z -> res Q) (ty : rtype) (g : grid) (t : tsettings) (s : Z) : res rtimes :=
  match ty with
  | DTOC => bind (time_grading g t) (fun tab => bind (lk p_tg tab s) (fun tg => bind (lk p_tgg tab s) (fun tgg =>
              Ok {| r_tg := Some tg; r_tgg := Some tgg; r_tms := None; r_tgrade := None |})))
  | IDMT => bind (time_grading g t) (fun tab => bind (lk p_tg tab s) (fun tgr => bind (lk p_tgg tab s) (fun tms =>
              Ok {| r_tg := None; r_tgg := None; r_tms := Some tms; r_tgrade := Some tgr |})))
  | IDTOC =>
      match t with
      | TList (a :: b :: c :: d :: e :: _) =>
          bind (grading_list g [a; b; c]) (fun tab => bind (lk p_tg tab s) (fun tg => bind (lk p_tgg tab s) (fun tgg =>
          bind (grading_list g [d; e]) (fun tab2 => bind (lk p_tgg tab2 s) (fun tms => bind (lk p_tg tab2 s) (fun tgr =>
              Ok {| r_tg := Some tg; r_tgg := Some tgg; r_tms := Some tms; r_tgrade := Some tgr |}))))))
      | TList _ => Raise "IndexError"
      | TFrame _ _ => Raise "KeyError"                            (* self.time_settings[0] on a DataFrame *)
      end
  end.
Definition relay_times := relay_times_with setting_at.             (* the code as it is: rows selected by switch_id *)
Definition relay_times_old := relay_times_with series_at.          (* before the repair: row label = switch index *)

(* manual pick-up currents: _setting_of_switch(self.pickup_current_manual, "I_g", self.switch_index) = pickup_by_sid;
   before the repair self.pickup_current_manual.I_g.iloc[self.switch_index] — by POSITION = pickup_iloc *)
Record krow := { k_sid : Z; k_Ig : Q; k_Igg : Q; k_Is : Q }.
Definition pickup_iloc (rows : list krow) (s : Z) : res krow :=
  if Z.ltb s 0 then Raise "negative" else
  match nth_error rows (Z.to_nat s) with Some r => Ok r | None => Raise "IndexError" end.
Definition pickup_by_sid (rows : list krow) (s : Z) : res krow :=
  match filter (fun r => Z.eqb (k_sid r) s) rows with [r] => Ok r | _ => Raise "ValueError" end.

(* ---------------------------------------------------------------- guards (what made the OLD label / position lookup hit the switch) *)
Definition G29_frame_labels (rows : list trow) : bool := forallb (fun r => Z.eqb (lbl r) (sid r)) rows.
Fixpoint zseq (k : Z) (n : nat) : list Z := match n with O => [] | S m => k :: zseq (k + 1) m end.
Definition zlist_eqb (a b : list Z) : bool :=
  (Nat.eqb (List.length a) (List.length b) && forallb (fun xy => Z.eqb (fst xy) (snd xy)) (combine a b))%bool.
Definition G29_positions (sids : list Z) : bool := zlist_eqb sids (zseq 0 (List.length sids)).
Definition G29_list_positions (g : grid) : bool :=                 (* the closed switches are 0 .. n-1 *)
  G29_positions (map (fun r => fst (fst r)) (sort_sid (map (fun se => (fst se, 0, 0)) (closed g)))).

(* ---------------------------------------------------------------- output *)
Definition ores {A} (f : A -> out) (r : res A) : out := match r with Ok a => f a | Raise e => OErr e end.
Definition oprow (r : prow) : out := OL [OZ (p_lbl r); OZ (p_sid r); oq (p_tg r); oq (p_tgg r)].
Definition ortimes (r : rtimes) : out := OL [ooq (r_tg r); ooq (r_tgg r); ooq (r_tms r); ooq (r_tgrade r)].
Definition okrow (r : krow) : out := OL [OZ (k_sid r); oq (k_Ig r); oq (k_Igg r); oq (k_Is r)].
Definition run_grading (ty : rtype) (g : grid) (t : tsettings) (s : Z) : out :=
  OL [ores (olist oprow) (match ty, t with IDTOC, TList ts => grading_list g (firstn 3 ts) | _, _ => time_grading g t end);
      ores ortimes (relay_times ty g t s); ores ortimes (relay_times_old ty g t s);
      OB (match t with TFrame _ rows => G29_frame_labels rows | TList _ => G29_list_positions g end)].
Definition run_pickup (rows : list krow) (s : Z) : out :=
  OL [ores okrow (pickup_by_sid rows s); ores okrow (pickup_iloc rows s);
      OB (G29_positions (map k_sid rows))].
