(* C05 — model of the re-representation-sensitive bookkeeping of the power-flow build:
     auxiliary.py:541  _sum_by_group (sort by bus, cumulative sum, value at the end of each group, differences)
     build_bus.py:145  create_consecutive_bus_lookup (pp index -> position)
     build_branch.py:176-246 _calc_line_parameter (per-unit r, x, b, g of a line; parallel; sn_mva)
     pypower/makeYbus.py branch stamps for tap = 1 (Ytt = Ys + j Bc/2 + g/2, Yff = Ytt, Yft = Ytf = -Ys)
   The bus-fusing lookup (build_bus.py:36-125) is modelled in C07/Model.v (rep) and proved in C07/UnionFind.v.
   Executable definitions only. *)
From Coq Require Import QArith List Bool Arith.
From PPV Require Import Base.Out Base.QN Base.QC.
Import ListNotations.

(* ---- _sum_by_group on one value column: rows (bus, value) *)
Fixpoint insert (r : nat * Q) (l : list (nat * Q)) : list (nat * Q) :=
  match l with
  | [] => [r]
  | x :: t => if Nat.leb (fst r) (fst x) then r :: l else x :: insert r t
  end.
Definition sort_rows (l : list (nat * Q)) : list (nat * Q) := fold_right insert [] l.   (* np.argsort(bus); order inside a bus is immaterial *)
(* one pass over the sorted rows: acc = cumsum so far, prev = cumsum at the end of the previous group;
   a group ends where the next bus differs (index[:-1] = bus[1:] != bus[:-1]); its value is acc - prev *)
Fixpoint group_out (acc prev : Q) (l : list (nat * Q)) : list (nat * Q) :=
  match l with
  | [] => []
  | (b, p) :: t =>
      let acc' := qadd acc p in
      match t with
      | [] => [(b, qsub acc' prev)]
      | (b', _) :: _ => if Nat.eqb b b' then group_out acc' prev t else (b, qsub acc' prev) :: group_out acc' acc' t
      end
  end.
Definition sum_by_group (rows : list (nat * Q)) : list (nat * Q) := group_out 0 0 (sort_rows rows).

(* ---- create_consecutive_bus_lookup: bus_lookup[bus_index[i]] = i  (-1 = None for other indices) *)
Fixpoint pos_of (b : nat) (idx : list nat) (k : nat) : option nat :=
  match idx with [] => None | x :: t => if Nat.eqb x b then Some k else pos_of b t (S k) end.
Definition consec_lookup (bus_index : list nat) (b : nat) : option nat := pos_of b bus_index 0.

(* ---- _calc_line_parameter (mode pf, no temperature correction); two_pi_f_n = 2*f_hz*pi*1e-9 as an input *)
Record line := { r_km : Q; x_km : Q; c_nf : Q; g_us : Q; len : Q; par : Q }.
Record line_pu := { br_r : Q; br_x : Q; br_b : Q; br_g : Q }.
Definition baseR (vn sn : Q) : Q := qdiv (qmul vn vn) sn.
Definition line_param (two_pi_f_n vn sn : Q) (l : line) : line_pu :=
  let bR := baseR vn sn in
  {| br_r := qdiv (qdiv (qmul (r_km l) (len l)) bR) (par l);
     br_x := qdiv (qdiv (qmul (x_km l) (len l)) bR) (par l);
     br_b := qmul (qmul (qmul (qmul two_pi_f_n (c_nf l)) bR) (len l)) (par l);
     br_g := qmul (qmul (qmul (qmul (g_us l) (1 # 1000000)) bR) (len l)) (par l) |}.

(* ---- makeYbus stamps of a line (tap 1, no shift): Ys = 1/(r + jx), Ytt = Yff = Ys + (g + jb)/2, Yft = Ytf = -Ys *)
Definition ys (p : line_pu) : C := Cinv (mkC (br_r p) (br_x p)).
Definition ydiag (p : line_pu) : C := Cadd (ys p) (mkC (qdiv (br_g p) 2) (qdiv (br_b p) 2)).
Definition yoff (p : line_pu) : C := Copp (ys p).
(* branch flows in per unit (complex power at from / to) for end voltages vf, vt *)
Definition s_from (p : line_pu) (vf vt : C) : C := Cmul vf (Cconj (Cadd (Cmul (ydiag p) vf) (Cmul (yoff p) vt))).
Definition s_to (p : line_pu) (vf vt : C) : C := Cmul vt (Cconj (Cadd (Cmul (yoff p) vf) (Cmul (ydiag p) vt))).

(* ---- Run wrappers *)
Definition run_sum_by_group (rows : list (nat * Q)) : out := olist (opair onat oq) (sum_by_group rows).
Definition run_line_param (k vn sn : Q) (l : line) : out :=
  let p := line_param k vn sn l in OL [oq (br_r p); oq (br_x p); oq (br_b p); oq (br_g p)].
Definition run_consec (idx : list nat) (qs : list nat) : out := olist (fun b => oopt onat (consec_lookup idx b)) qs.

(* ---- convergence test of newtonpf.py:72,95 (_check_for_convergence): the mismatch vector F is in per unit on
   baseMVA = net.sn_mva and is compared with options["tolerance_mva"] as it is *)
Definition nr_converged (tolerance_mva sn mismatch_mva : Q) : bool := qltb (qdiv mismatch_mva sn) tolerance_mva.
Definition run_nr_converged (tol sn mis : Q) : out := OB (nr_converged tol sn mis).
