(* C05/BranchProofs.v — sn_mva invariance of the physical terminal powers of transformer and impedance branch rows
   (model of build_branch.py / makeYbus / pfsoln in C02/Model.v), the swap of an impedance element's ends, and the
   commutation of a transformer row with a relabelling of the buses. *)
From Coq Require Import ZArith QArith List Bool Lqa Setoid Morphisms.
From PPV Require Import Base.QN Base.QC C31.Model C02.Model C02.CPlain C02.CField C02.Proofs C05.Model C05.Proofs.
Import ListNotations.
Open Scope Q_scope.

(* ------------------------------------------------------------------ rows on two system bases *)
(* b2 is b1 re-expressed on a base k times as large: impedances * k, admittances / k, same tap, shift, status *)
Definition row_scaled (k : Q) (b1 b2 : brow) : Prop :=
  b_r b2 == k * b_r b1 /\ b_x b2 == k * b_x b1 /\ b_ra b2 == k * b_ra b1 /\ b_xa b2 == k * b_xa b1 /\
  b_g b2 * k == b_g b1 /\ b_b b2 * k == b_b b1 /\ b_ga b2 * k == b_ga b1 /\ b_ba b2 * k == b_ba b1 /\
  b_tap b2 = b_tap b1 /\ b_stat b2 = b_stat b1.

Lemma one_nz : ~ 1 == 0. Proof. intro K. discriminate K. Qed.

(* the MW / Mvar terminal powers (pfsoln: per-unit flow * baseMVA) of the two rows coincide for the same per-unit
   voltages *)
Theorem flows_sn_scale b1 b2 e vf vt sn1 sn2 :
  ~ sn1 == 0 -> ~ sn2 == 0 -> row_scaled (sn2 / sn1) b1 b2 ->
  b_stat b1 = true ->
  ~ (b_r b1) * (b_r b1) + (b_x b1) * (b_x b1) == 0 ->
  ~ (b_r b1 + b_ra b1) * (b_r b1 + b_ra b1) + (b_x b1 + b_xa b1) * (b_x b1 + b_xa b1) == 0 ->
  ~ b_tap b1 == 0 -> re e * re e + im e * im e == 1 ->
  Ceq2 (flows (stamps_core b1 e) vf vt sn1) (flows (stamps_core b2 e) vf vt sn2).
Proof.
  intros H1 H2 [Rr [Rx [Rra [Rxa [Rg [Rb [Rga [Rba [Rt Rs]]]]]]]]] Hs Hz Hzt Ht He.
  assert (Hk : ~ sn2 / sn1 == 0) by (apply div_nz; assumption).
  assert (Hz2 : ~ (b_r b2) * (b_r b2) + (b_x b2) * (b_x b2) == 0).
  { rewrite Rr, Rx. apply norm_scale_nz; assumption. }
  assert (Hzt2 : ~ (b_r b2 + b_ra b2) * (b_r b2 + b_ra b2) + (b_x b2 + b_xa b2) * (b_x b2 + b_xa b2) == 0).
  { rewrite Rr, Rx, Rra, Rxa. intro K. apply (norm_scale_nz (sn2 / sn1) _ _ Hk Hzt). rewrite <- K. ring. }
  assert (Hs2 : b_stat b2 = true) by congruence.
  assert (Ht2 : ~ b_tap b2 == 0) by (rewrite Rt; exact Ht).
  etransitivity; [apply (pu_eq_phys b1 e vf vt sn1 1 Hs Hz Hzt Ht He H1 one_nz)|].
  symmetry. etransitivity; [apply (pu_eq_phys b2 e vf vt sn2 1 Hs2 Hz2 Hzt2 Ht2 He H2 one_nz)|].
  rewrite Rt.
  assert (Eg : b_g b2 == b_g b1 / (sn2 / sn1)) by (rewrite <- Rg; field; split; assumption).
  assert (Eb : b_b b2 == b_b b1 / (sn2 / sn1)) by (rewrite <- Rb; field; split; assumption).
  assert (Ega : b_ga b2 == b_ga b1 / (sn2 / sn1)) by (rewrite <- Rga; field; split; assumption).
  assert (Eba : b_ba b2 == b_ba b1 / (sn2 / sn1)) by (rewrite <- Rba; field; split; assumption).
  apply pi_flows_phys2_proper; try reflexivity.
  - cstrip; rewrite ?Rr, ?Rx; field; split; assumption.
  - cstrip; rewrite ?Rr, ?Rx, ?Rra, ?Rxa; field; split; assumption.
  - cstrip; rewrite ?Eg, ?Eb; field; split; assumption.
  - cstrip; rewrite ?Eg, ?Eb, ?Ega, ?Eba; field; split; assumption.
Qed.

(* ------------------------------------------------------------------ impedance element *)
Lemma impedance_row_scaled sn1 sn2 i : ~ sn1 == 0 -> ~ sn2 == 0 -> ~ i_sn i == 0 ->
  row_scaled (sn2 / sn1) (impedance_branch sn1 i) (impedance_branch sn2 i).
Proof.
  intros H1 H2 Hi. destruct i as [rft xft rtf xtf gf bf gt bt isn ins].
  unfold row_scaled, impedance_branch. cbn [i_rft i_xft i_rtf i_xtf i_gf i_bf i_gt i_bt i_sn i_in] in *. brow_cbn.
  repeat split; try reflexivity; qstrip; field; repeat split; assumption.
Qed.

Theorem impedance_sn_invariant sn1 sn2 i vf vt :
  i_in i = true -> ~ sn1 == 0 -> ~ sn2 == 0 -> ~ i_sn i == 0 ->
  ~ i_rft i * i_rft i + i_xft i * i_xft i == 0 -> ~ i_rtf i * i_rtf i + i_xtf i * i_xtf i == 0 ->
  Ceq2 (flows (stamps_core (impedance_branch sn1 i) C1) vf vt sn1)
       (flows (stamps_core (impedance_branch sn2 i) C1) vf vt sn2).
Proof.
  intros Hin H1 H2 Hi Hf Ht.
  etransitivity; [apply (impedance_pu_eq_documented sn1 i vf vt Hin H1 Hi Hf Ht)|].
  symmetry. etransitivity; [apply (impedance_pu_eq_documented sn2 i vf vt Hin H2 Hi Hf Ht)|].
  destruct i as [rft xft rtf xtf gf bf gt bt isn ins]. destruct vf as [vfr vfi], vt as [vtr vti].
  unfold imp_doc_flows, pi_flows_phys2, Ceq2. cbn [i_rft i_xft i_rtf i_xtf i_gf i_bf i_gt i_bt i_sn i_in fst snd] in *.
  split; cstrip; field; repeat split; try assumption;
    first [ nz_scaled Hf (sn1 * sn1); apply mul_nz; assumption | nz_scaled Ht (sn1 * sn1); apply mul_nz; assumption
          | nz_scaled Hf (sn2 * sn2); apply mul_nz; assumption | nz_scaled Ht (sn2 * sn2); apply mul_nz; assumption ].
Qed.

(* swapping the ends of an impedance element (z_ft <-> z_tf, y_f <-> y_t) swaps its two terminal flows *)
Definition imp_swap (i : imped) : imped :=
  {| i_rft := i_rtf i; i_xft := i_xtf i; i_rtf := i_rft i; i_xtf := i_xft i; i_gf := i_gt i; i_bf := i_bt i;
     i_gt := i_gf i; i_bt := i_bf i; i_sn := i_sn i; i_in := i_in i |}.
Theorem impedance_swap_flows sn i vf vt :
  i_in i = true -> ~ sn == 0 -> ~ i_sn i == 0 ->
  ~ i_rft i * i_rft i + i_xft i * i_xft i == 0 -> ~ i_rtf i * i_rtf i + i_xtf i * i_xtf i == 0 ->
  let s := flows (stamps_core (impedance_branch sn i) C1) vf vt sn in
  Ceq2 (flows (stamps_core (impedance_branch sn (imp_swap i)) C1) vt vf sn) (snd s, fst s).
Proof.
  intros Hin H1 Hi Hf Ht s. subst s.
  pose proof (impedance_pu_eq_documented sn i vf vt Hin H1 Hi Hf Ht) as [A1 A2].
  assert (Hin' : i_in (imp_swap i) = true) by exact Hin.
  pose proof (impedance_pu_eq_documented sn (imp_swap i) vt vf Hin' H1 Hi Ht Hf) as [B1 B2].
  split; cbn [fst snd].
  - rewrite B1, A2. unfold imp_doc_flows, pi_flows_phys2, imp_swap. cbn [i_rft i_xft i_rtf i_xtf i_gf i_bf i_gt i_bt i_sn fst snd]. reflexivity.
  - rewrite B2, A1. unfold imp_doc_flows, pi_flows_phys2, imp_swap. cbn [i_rft i_xft i_rtf i_xtf i_gf i_bf i_gt i_bt i_sn fst snd]. reflexivity.
Qed.

(* ------------------------------------------------------------------ transformer, pi model *)
Lemma sq_eq_nonneg a b : 0 <= a -> 0 <= b -> a * a == b * b -> a == b.
Proof. intros Ha Hb E. apply Qle_antisym; nra. Qed.

Lemma qsign_scale k z z' : 0 < k -> z' == k * z -> qsign z' = qsign z.
Proof.
  intros Hk E. unfold qsign.
  destruct (qltb 0 z) eqn:A; destruct (qltb 0 z') eqn:A'; destruct (qltb z 0) eqn:B; destruct (qltb z' 0) eqn:B';
    try reflexivity; exfalso;
    repeat match goal with
           | H : qltb _ _ = true |- _ => apply qltb_lt in H
           | H : qltb _ _ = false |- _ => apply qltb_ge in H
           end; rewrite E in *; nra.
Qed.

Section Trafo.
Variables (sn1 sn2 : Q) (t : trafo) (o1 o2 : trafo_orc) (vnh vnl shift basehv baselv : Q).
Hypothesis Hsn1 : 0 < sn1.
Hypothesis Hsn2 : 0 < sn2.
Hypothesis Htsn : ~ t_sn t == 0.
Hypothesis Hpar : ~ t_par t == 0.
Hypothesis Hbl : ~ baselv == 0.
Hypothesis Hvnl : ~ vnl == 0.
Hypothesis Hvnl0 : ~ t_vnl0 t == 0.
(* the sqrt oracles of the two runs satisfy their defining equations (validated by C02's correspondence run) *)
Hypothesis Ox1 : o_x o1 * o_x o1 == fst (trafo_zr sn1 t vnl baselv) * fst (trafo_zr sn1 t vnl baselv)
                                    - snd (trafo_zr sn1 t vnl baselv) * snd (trafo_zr sn1 t vnl baselv).
Hypothesis Ox2 : o_x o2 * o_x o2 == fst (trafo_zr sn2 t vnl baselv) * fst (trafo_zr sn2 t vnl baselv)
                                    - snd (trafo_zr sn2 t vnl baselv) * snd (trafo_zr sn2 t vnl baselv).
Hypothesis Ox1p : 0 <= o_x o1.
Hypothesis Ox2p : 0 <= o_x o2.
(* sqrt(max(ym^2 - pfe^2, 0)) does not mention sn_mva: both runs take the root of the same number *)
Hypothesis Obm : o_bm o1 * o_bm o1 == o_bm o2 * o_bm o2.
Hypothesis Obm1 : 0 <= o_bm o1.
Hypothesis Obm2 : 0 <= o_bm o2.

Let k := sn2 / sn1.
Lemma k_pos : 0 < k.
Proof. unfold k. apply Qlt_shift_div_l; [assumption|]. rewrite Qmult_0_l. assumption. Qed.
Lemma sn1_nz : ~ sn1 == 0. Proof. intro K. rewrite K in Hsn1. discriminate Hsn1. Qed.
Lemma sn2_nz : ~ sn2 == 0. Proof. intro K. rewrite K in Hsn2. discriminate Hsn2. Qed.

Lemma zr_scale : fst (trafo_zr sn2 t vnl baselv) == k * fst (trafo_zr sn1 t vnl baselv) /\
                 snd (trafo_zr sn2 t vnl baselv) == k * snd (trafo_zr sn1 t vnl baselv).
Proof.
  pose proof sn1_nz. unfold trafo_zr, qsq, k. cbn [fst snd]. split; qstrip; field; repeat split; assumption.
Qed.
Lemma ox_scale : o_x o2 == k * o_x o1.
Proof.
  pose proof k_pos as Kp. destruct zr_scale as [Z R].
  apply sq_eq_nonneg; [assumption|nra|].
  rewrite Ox2, Z, R. transitivity (k * k * (o_x o1 * o_x o1)); [rewrite Ox1; ring|ring].
Qed.
Lemma obm_eq : o_bm o2 == o_bm o1.
Proof. apply sq_eq_nonneg; auto. symmetry. exact Obm. Qed.

Lemma trafo_rx_scale :
  fst (trafo_rx sn2 t o2 vnl baselv) == k * fst (trafo_rx sn1 t o1 vnl baselv) /\
  snd (trafo_rx sn2 t o2 vnl baselv) == k * snd (trafo_rx sn1 t o1 vnl baselv).
Proof.
  destruct zr_scale as [Z R]. pose proof ox_scale as X.
  unfold trafo_rx.
  destruct (trafo_zr sn1 t vnl baselv) as [z1 r1] eqn:E1. destruct (trafo_zr sn2 t vnl baselv) as [z2 r2] eqn:E2.
  cbn [fst snd] in *. rewrite (qsign_scale k z1 z2 k_pos Z). split.
  - qstrip. rewrite R. field. assumption.
  - qstrip. rewrite X. field. assumption.
Qed.
Lemma trafo_gb_scale :
  fst (trafo_gb sn2 t o2 vnl baselv) * k == fst (trafo_gb sn1 t o1 vnl baselv) /\
  snd (trafo_gb sn2 t o2 vnl baselv) * k == snd (trafo_gb sn1 t o1 vnl baselv).
Proof.
  pose proof sn1_nz. pose proof sn2_nz. pose proof obm_eq as B.
  unfold trafo_gb, qsq, k. cbn [fst snd]. split; qstrip; rewrite ?B; field; repeat split; assumption.
Qed.

(* pi model (trafo_model = "pi"): the row on base sn2 is the row on base sn1 rescaled *)
Lemma trafo_pi_row_scaled b1 b2 :
  trafo_branch sn1 false t o1 vnh vnl shift basehv baselv = Ok b1 ->
  trafo_branch sn2 false t o2 vnh vnl shift basehv baselv = Ok b2 ->
  row_scaled k b1 b2.
Proof.
  unfold trafo_branch. destruct (qleb (t_df t) 0); [discriminate|].
  destruct trafo_rx_scale as [R X]. destruct trafo_gb_scale as [G B].
  destruct (trafo_rx sn1 t o1 vnl baselv) as [r1 x1]. destruct (trafo_rx sn2 t o2 vnl baselv) as [r2 x2].
  destruct (trafo_gb sn1 t o1 vnl baselv) as [g1 bb1]. destruct (trafo_gb sn2 t o2 vnl baselv) as [g2 bb2].
  cbn [fst snd] in *. intros E1 E2. inversion E1; subst b1. inversion E2; subst b2. clear E1 E2.
  unfold row_scaled. brow_cbn. repeat split; try assumption; try reflexivity; ring.
Qed.

Theorem trafo_pi_sn_invariant b1 b2 e vf vt :
  trafo_branch sn1 false t o1 vnh vnl shift basehv baselv = Ok b1 ->
  trafo_branch sn2 false t o2 vnh vnl shift basehv baselv = Ok b2 ->
  b_stat b1 = true -> ~ (b_r b1) * (b_r b1) + (b_x b1) * (b_x b1) == 0 -> ~ b_tap b1 == 0 ->
  re e * re e + im e * im e == 1 ->
  Ceq2 (flows (stamps_core b1 e) vf vt sn1) (flows (stamps_core b2 e) vf vt sn2).
Proof.
  intros E1 E2 Hs Hz Ht He. pose proof (trafo_pi_row_scaled b1 b2 E1 E2) as RS.
  apply flows_sn_scale; try assumption; try apply sn1_nz; try apply sn2_nz.
  (* the pi row has no asymmetric series part *)
  assert (A : b_ra b1 = 0 /\ b_xa b1 = 0).
  { revert E1. unfold trafo_branch. destruct (qleb (t_df t) 0); [discriminate|].
    destruct (trafo_rx sn1 t o1 vnl baselv), (trafo_gb sn1 t o1 vnl baselv). intros E1. inversion E1. split; reflexivity. }
  destruct A as [-> ->]. intro K. apply Hz. rewrite <- K. ring.
Qed.
End Trafo.

(* ------------------------------------------------------------------ transformer row and bus relabelling *)
(* the ppc row of a transformer: positions of its two buses in the ppc bus table and the per-unit parameters; the bus
   data enter through the looked-up BASE_KV values only, so an injective relabelling of the buses (lookup tables
   relabelled accordingly) leaves the row unchanged *)
Definition trafo_ppc_row (idx : list nat) (bkv : nat -> Q) (hv lv : nat) (sn : Q) (m : bool) (t : trafo) (o : trafo_orc)
                         (vnh vnl shift : Q) : option nat * option nat * res brow :=
  (consec_lookup idx hv, consec_lookup idx lv, trafo_branch sn m t o vnh vnl shift (bkv hv) (bkv lv)).
Theorem trafo_row_relabel f idx bkv bkv' hv lv sn m t o vnh vnl shift :
  (forall x y, f x = f y -> x = y) -> (forall b, bkv' (f b) = bkv b) ->
  trafo_ppc_row (map f idx) bkv' (f hv) (f lv) sn m t o vnh vnl shift = trafo_ppc_row idx bkv hv lv sn m t o vnh vnl shift.
Proof.
  intros Inj B. unfold trafo_ppc_row, consec_lookup. rewrite !B.
  rewrite !(C05.Proofs.pos_of_map f _ idx 0%nat Inj). reflexivity.
Qed.

(* ------------------------------------------------------------------ non-vacuity: vk 5 %, vkr 3 % (x = 4 % exactly), bases 1 and 4 MVA *)
Definition w_trafo : trafo :=
  {| t_vnh0 := 1; t_vnl0 := 1; t_sn := 1; t_vk := 5; t_vkr := 3; t_pfe := 0; t_i0 := 0; t_par := 1; t_df := 1; t_in := true;
     t_maxload := None; t_rr := 1 # 2; t_xr := 1 # 2 |}.
Definition w_o1 : trafo_orc := {| o_x := 4 # 100; o_bm := 0 |}.
Definition w_o2 : trafo_orc := {| o_x := 16 # 100; o_bm := 0 |}.
Example trafo_sn_nonvacuous :
  (o_x w_o1 * o_x w_o1 == fst (trafo_zr 1 w_trafo 1 1) * fst (trafo_zr 1 w_trafo 1 1)
                          - snd (trafo_zr 1 w_trafo 1 1) * snd (trafo_zr 1 w_trafo 1 1)) /\
  (o_x w_o2 * o_x w_o2 == fst (trafo_zr 4 w_trafo 1 1) * fst (trafo_zr 4 w_trafo 1 1)
                          - snd (trafo_zr 4 w_trafo 1 1) * snd (trafo_zr 4 w_trafo 1 1)) /\
  exists b1 b2, trafo_branch 1 false w_trafo w_o1 1 1 0 1 1 = Ok b1 /\ trafo_branch 4 false w_trafo w_o2 1 1 0 1 1 = Ok b2 /\
    b_stat b1 = true /\ b_r b1 == 3 # 100 /\ b_x b1 == 4 # 100 /\ b_r b2 == 12 # 100 /\ b_x b2 == 16 # 100 /\ b_tap b1 == 1.
Proof.
  split; [vm_compute; reflexivity|]. split; [vm_compute; reflexivity|].
  eexists. eexists. split; [vm_compute; reflexivity|]. split; [vm_compute; reflexivity|].
  repeat split; vm_compute; reflexivity.
Qed.
