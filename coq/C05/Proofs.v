(* C05/Proofs.v — model-level metamorphic theorems: per-bus aggregation (_sum_by_group) computes the group sums and is
   therefore invariant under row permutation, load splitting and inert rows; the consecutive bus lookup commutes with
   injective relabelling; the fused-bus partition does not depend on the order of the switch table; the physical
   admittances of a line do not depend on sn_mva; parallel=n equals n single lines; swapping the ends swaps the flows. *)
From Coq Require Import QArith List Bool Arith Lia Lqa Permutation Sorting.Sorted Relations.
From PPV Require Import Base.QN Base.QC Base.C07Graph C07.Model C07.UnionFind C05.Model.
Import ListNotations.

(* ------------------------------------------------------------------ _sum_by_group *)
Fixpoint gsum (b : nat) (l : list (nat * Q)) : Q :=
  match l with [] => 0 | (b', p) :: t => if Nat.eqb b' b then p + gsum b t else gsum b t end.

Lemma gsum_perm b l l' : Permutation l l' -> gsum b l == gsum b l'.
Proof.
  induction 1 as [|[b1 p1] l l' _ IH|[b1 p1] [b2 p2] l|l l' l'' _ IH1 _ IH2]; simpl.
  - reflexivity.
  - destruct (Nat.eqb b1 b); rewrite IH; reflexivity.
  - destruct (Nat.eqb b1 b), (Nat.eqb b2 b); ring.
  - rewrite IH1; exact IH2.
Qed.
Lemma gsum_app b l l' : gsum b (l ++ l') == gsum b l + gsum b l'.
Proof. induction l as [|[b1 p1] t IH]; simpl; [ring|]. destruct (Nat.eqb b1 b); rewrite IH; ring. Qed.

Definition le_row (a b : nat * Q) : Prop := (fst a <= fst b)%nat.
Lemma insert_perm r l : Permutation (insert r l) (r :: l).
Proof.
  induction l as [|x t IH]; simpl; auto. destruct (Nat.leb (fst r) (fst x)); auto.
  eapply perm_trans; [apply perm_skip; exact IH|apply perm_swap].
Qed.
Lemma sort_perm l : Permutation (sort_rows l) l.
Proof. induction l; simpl; auto. eapply perm_trans; [apply insert_perm|]. now apply perm_skip. Qed.
Lemma insert_sorted r l : StronglySorted le_row l -> StronglySorted le_row (insert r l).
Proof.
  induction 1 as [|x t S IH F]; simpl; [repeat constructor|].
  destruct (Nat.leb (fst r) (fst x)) eqn:E.
  - apply Nat.leb_le in E. constructor; [now constructor|]. constructor; auto.
    rewrite Forall_forall in *. intros y Y. specialize (F y Y). unfold le_row in *. lia.
  - apply Nat.leb_gt in E. constructor; auto.
    assert (P := insert_perm r t). rewrite Forall_forall in *. intros y Y.
    apply (Permutation_in _ P) in Y. destruct Y as [<-|Y]; [unfold le_row; lia|auto].
Qed.
Lemma sort_sorted l : StronglySorted le_row (sort_rows l).
Proof. induction l; simpl; [constructor|now apply insert_sorted]. Qed.

Lemma gsum_zero_above b l : Forall (fun r => (b < fst r)%nat) l -> gsum b l == 0.
Proof.
  induction 1 as [|[b1 p1] t H _ IH]; simpl; [reflexivity|]. simpl in H.
  destruct (Nat.eqb b1 b) eqn:E; [apply Nat.eqb_eq in E; lia|exact IH].
Qed.
Lemma group_out_bus acc prev l b v : In (b, v) (group_out acc prev l) -> exists p, In (b, p) l.
Proof.
  revert acc prev. induction l as [|[b0 p0] t IH]; intros acc prev H; simpl in H; [contradiction|].
  destruct t as [|[b' p'] t'].
  - destruct H as [H|[]]. inversion H; subst. exists p0. now left.
  - destruct (Nat.eqb b0 b').
    + destruct (IH _ _ H) as [p P]. exists p. now right.
    + destruct H as [H|H]; [inversion H; subst; exists p0; now left|].
      destruct (IH _ _ H) as [p P]. exists p. now right.
Qed.

Definition head_is (b : nat) (l : list (nat * Q)) : bool := match l with (b0, _) :: _ => Nat.eqb b0 b | [] => false end.

Lemma group_out_value l : StronglySorted le_row l -> forall acc prev b v,
  In (b, v) (group_out acc prev l) -> v == gsum b l + (if head_is b l then acc - prev else 0).
Proof.
  induction 1 as [|[b0 p0] t S IH F]; intros acc prev b v H; [contradiction|].
  simpl in H. destruct t as [|[b' p'] t'].
  - destruct H as [H|[]]. inversion H; subst. simpl. rewrite Nat.eqb_refl. qnorm. clear. lra.
  - destruct (Nat.eqb b0 b') eqn:E.
    + apply Nat.eqb_eq in E. subst b'. specialize (IH _ _ _ _ H). rewrite IH. simpl.
      destruct (Nat.eqb b0 b); qnorm; clear; lra.
    + apply Nat.eqb_neq in E. destruct H as [H|H].
      * inversion H; subst. simpl head_is. rewrite Nat.eqb_refl.
        assert (Z : gsum b ((b', p') :: t') == 0).
        { apply gsum_zero_above. inversion S; subst. rewrite Forall_forall in F. pose proof (F (b', p') (or_introl eq_refl)) as F0.
          unfold le_row in F0. simpl in F0. constructor; [simpl; lia|].
          rewrite Forall_forall in *. intros y Y. specialize (H3 y Y). unfold le_row in H3. simpl in H3. lia. }
        change (gsum b ((b, p0) :: (b', p') :: t')) with (if Nat.eqb b b then p0 + gsum b ((b', p') :: t') else gsum b ((b', p') :: t')).
        rewrite Nat.eqb_refl, Z. qnorm. clear. lra.
      * pose proof (IH _ _ _ _ H) as V. rewrite V.
        destruct (group_out_bus _ _ _ _ _ H) as [p P]. rewrite Forall_forall in F. pose proof (F _ P) as Fb.
        unfold le_row in Fb. simpl in Fb. pose proof (F (b', p') (or_introl eq_refl)) as F0. unfold le_row in F0. simpl in F0.
        assert (Nb : Nat.eqb b0 b = false).
        { apply Nat.eqb_neq. intros ->.
          inversion S; subst. rewrite Forall_forall in H3.
          destruct P as [P|P]; [inversion P; subst; congruence|]. specialize (H3 _ P). unfold le_row in H3. simpl in H3. lia. }
        simpl head_is. change (gsum b ((b0, p0) :: (b', p') :: t')) with (if Nat.eqb b0 b then p0 + gsum b ((b', p') :: t') else gsum b ((b', p') :: t')).
        rewrite Nb. simpl head_is. destruct (Nat.eqb b' b); qnorm; clear; lra.
Qed.

(* every reported value is the sum over the rows of that bus *)
Theorem sum_by_group_is_group_sum rows b v : In (b, v) (sum_by_group rows) -> v == gsum b rows.
Proof.
  unfold sum_by_group. intros H. rewrite (group_out_value _ (sort_sorted rows) _ _ _ _ H).
  rewrite (gsum_perm b _ _ (sort_perm rows)). destruct (head_is b (sort_rows rows)); ring.
Qed.
(* hence: row permutation, splitting a row at its bus, and zero rows do not change any reported value *)
Theorem sum_by_group_perm rows rows' b v v' : Permutation rows rows' ->
  In (b, v) (sum_by_group rows) -> In (b, v') (sum_by_group rows') -> v == v'.
Proof.
  intros P H H'. rewrite (sum_by_group_is_group_sum _ _ _ H), (sum_by_group_is_group_sum _ _ _ H'). now apply gsum_perm.
Qed.
Theorem sum_by_group_split l1 l2 bx p p1 p2 b v v' : p == p1 + p2 ->
  In (b, v) (sum_by_group (l1 ++ (bx, p) :: l2)) -> In (b, v') (sum_by_group (l1 ++ (bx, p1) :: (bx, p2) :: l2)) -> v == v'.
Proof.
  intros E H H'. rewrite (sum_by_group_is_group_sum _ _ _ H), (sum_by_group_is_group_sum _ _ _ H'), !gsum_app. simpl.
  destruct (Nat.eqb bx b); rewrite ?E; ring.
Qed.
Theorem sum_by_group_inert l1 l2 bx b v v' :
  In (b, v) (sum_by_group (l1 ++ l2)) -> In (b, v') (sum_by_group (l1 ++ (bx, 0) :: l2)) -> v == v'.
Proof.
  intros H H'. rewrite (sum_by_group_is_group_sum _ _ _ H), (sum_by_group_is_group_sum _ _ _ H'), !gsum_app. simpl.
  destruct (Nat.eqb bx b); ring.
Qed.

(* ------------------------------------------------------------------ consecutive lookup and relabelling *)
Lemma pos_of_map f b idx k : (forall x y, f x = f y -> x = y) -> pos_of (f b) (map f idx) k = pos_of b idx k.
Proof.
  intros Inj. revert k. induction idx as [|x t IH]; simpl; intros k; auto.
  destruct (Nat.eqb x b) eqn:E.
  - apply Nat.eqb_eq in E. subst. now rewrite Nat.eqb_refl.
  - destruct (Nat.eqb (f x) (f b)) eqn:E'; [apply Nat.eqb_eq in E'; apply Inj in E'; subst; rewrite Nat.eqb_refl in E; discriminate|].
    apply IH.
Qed.
Theorem consec_lookup_relabel f idx b : (forall x y, f x = f y -> x = y) ->
  consec_lookup (map f idx) (f b) = consec_lookup idx b.
Proof. intros. now apply pos_of_map. Qed.

(* ------------------------------------------------------------------ fusing does not depend on the switch-table order *)
Theorem fuse_partition_switch_perm n n' a b :
  buses n' = buses n -> Permutation (switches n) (switches n') ->
  (rep n a = rep n b <-> rep n' a = rep n' b).
Proof.
  intros B P. rewrite !rep_iff_fused.
  assert (F : forall s, fuses n' s = fuses n s). { intros s. unfold fuses, bus_is. now rewrite B. }
  assert (I : forall e, In e (fuse_edges n) <-> In e (fuse_edges n')).
  { intros e. unfold fuse_edges, fuse_edges_of. rewrite !in_flat_map. split; intros [s [Is H]]; exists s.
    - split; [eapply Permutation_in; eauto|now rewrite F].
    - split; [eapply Permutation_in; [apply Permutation_sym|]; eauto|now rewrite <- F]. }
  split; apply upath_mono; intros e; apply I.
Qed.

(* ------------------------------------------------------------------ line algebra *)
Section Line.
Variables (k vn : Q) (l : line).
Hypothesis Hvn : ~ vn == 0.
Hypothesis Hpar : ~ par l == 0.

(* physical series impedance and shunt admittance recovered from the per-unit row do not mention sn_mva *)
Theorem line_physical_sn_invariant sn : ~ sn == 0 ->
  br_r (line_param k vn sn l) * (vn * vn / sn) == r_km l * len l / par l /\
  br_x (line_param k vn sn l) * (vn * vn / sn) == x_km l * len l / par l /\
  br_b (line_param k vn sn l) / (vn * vn / sn) == k * c_nf l * len l * par l /\
  br_g (line_param k vn sn l) / (vn * vn / sn) == g_us l * (1 # 1000000) * len l * par l.
Proof.
  intros Hs. unfold line_param, baseR. simpl. qnorm. repeat split; field; auto.
Qed.

(* parallel = n: r, x divided by n; b, g multiplied by n — the stamps of n identical single lines added up *)
Theorem line_parallel_scaling sn : ~ sn == 0 ->
  let p1 := line_param k vn sn {| r_km := r_km l; x_km := x_km l; c_nf := c_nf l; g_us := g_us l; len := len l; par := 1 |} in
  let pn := line_param k vn sn l in
  br_r pn * par l == br_r p1 /\ br_x pn * par l == br_x p1 /\ br_b pn == par l * br_b p1 /\ br_g pn == par l * br_g p1.
Proof.
  intros Hs. unfold line_param, baseR. simpl. qnorm. repeat split; field; auto.
Qed.
End Line.

(* swapping the ends of a line swaps the two terminal flows (the stamps of a line are symmetric) *)
Theorem line_swap_flows p vf vt : s_from p vt vf ==c s_to p vf vt /\ s_to p vt vf ==c s_from p vf vt.
Proof.
  unfold s_from, s_to, ydiag, yoff, ys. split; csimp; split; ring.
Qed.

(* ------------------------------------------------------------------ the convergence tolerance is applied per unit *)
(* with sn_mva = 1 the test is the documented one (mismatch in MVA below tolerance_mva) ... *)
Theorem nr_tolerance_partial tol mis : nr_converged tol 1 mis = true <-> mis < tol.
Proof.
  unfold nr_converged. rewrite qltb_lt. qnorm.
  assert (E : mis / 1 == mis) by (field).
  rewrite E. tauto.
Qed.
(* ... on another base a mismatch far above tolerance_mva passes: the full statement "sn_mva does not change results up
   to tolerance_mva" is false of the model *)
Theorem nr_tolerance_refuted : exists tol sn mis, nr_converged tol sn mis = true /\ tol * 50 <= mis.
Proof. exists (1 # 100000000), 100, (1 # 2000000). split; [vm_compute; reflexivity|vm_compute; discriminate]. Qed.
