(* C23/ReplProofs.v — the ward / xward / ext_grid replacements keep what the replaced element contributes to the bus equations *)
From Coq Require Import ZArith QArith List Bool String Arith Lia Lqa Setoid Morphisms.
From PPV Require Import Base.QN C23.Repl.
From PPV Require C02.Model.
Import ListNotations.
Open Scope Q_scope.

(* ------------------------------------------------------------------ rows up to == *)
Definition req (a b : row4) : Prop := pd a == pd b /\ qd a == qd b /\ gs a == gs b /\ qsh a == qsh b.
Infix "=r=" := req (at level 70, no associativity).
Lemma req_refl a : a =r= a. Proof. repeat split; reflexivity. Qed.
Lemma req_sym a b : a =r= b -> b =r= a. Proof. intros (A & B & C & D). repeat split; symmetry; assumption. Qed.
Lemma req_trans a b c : a =r= b -> b =r= c -> a =r= c.
Proof. intros (A & B & C & D) (A' & B' & C' & D'). repeat split; etransitivity; eassumption. Qed.
Add Parametric Relation : row4 req reflexivity proved by req_refl symmetry proved by req_sym transitivity proved by req_trans as req_rel.
Global Instance radd_proper : Proper (req ==> req ==> req) radd.
Proof. intros a b (A & B & C & D) c d (A' & B' & C' & D'). unfold radd, req; simpl. qnorm. repeat split; lra. Qed.
Ltac rsolve := unfold req, radd, rzero in *; simpl in *; qnorm; repeat split; lra.
Lemma radd_0_l a : radd rzero a =r= a. Proof. rsolve. Qed.
Lemma radd_0_r a : radd a rzero =r= a. Proof. rsolve. Qed.
Lemma radd_comm a b : radd a b =r= radd b a. Proof. rsolve. Qed.
Lemma radd_assoc a b c : radd a (radd b c) =r= radd (radd a b) c. Proof. rsolve. Qed.

Section Tot.
Variable lk : nat -> nat.
Context {A : Type}.
Variable bus : A -> nat.
Variable c : A -> row4.
Variable r : nat.
Notation T := (tot lk bus c r).

Lemma tot_cons a l : T (a :: l) = if Nat.eqb (lk (bus a)) r then radd (c a) (T l) else T l.
Proof. reflexivity. Qed.
Lemma tot_app l1 l2 : T (l1 ++ l2) =r= radd (T l1) (T l2).
Proof.
  induction l1 as [|a l IH]; [symmetry; apply radd_0_l|].
  simpl app. rewrite !tot_cons. destruct (Nat.eqb (lk (bus a)) r); [|exact IH].
  rewrite IH. apply radd_assoc.
Qed.

Variable id : A -> nat.
Lemma find_split i tab a : NoDup (map id tab) -> find (fun x => Nat.eqb (id x) i) tab = Some a ->
  T tab =r= radd (T [a]) (T (filter (fun x => negb (Nat.eqb (id x) i)) tab)).
Proof.
  induction tab as [|x t IH]; intros ND F; [discriminate|]. simpl in F. inversion ND as [|? ? N1 N2]; subst.
  destruct (Nat.eqb (id x) i) eqn:E.
  - inversion F; subst a. cbn [filter]. rewrite E. cbn [negb].
    assert (Fl : filter (fun y => negb (Nat.eqb (id y) i)) t = t).
    { apply Nat.eqb_eq in E. clear -N1 E. induction t as [|y t IH]; [reflexivity|]. cbn [filter].
      destruct (Nat.eqb (id y) i) eqn:E'.
      - apply Nat.eqb_eq in E'. exfalso. apply N1. left. congruence.
      - cbn [negb]. f_equal. apply IH. intros H. apply N1. right. exact H. }
    rewrite Fl. rewrite !tot_cons. destruct (Nat.eqb (lk (bus x)) r); [|symmetry; apply radd_0_l].
    cbn [tot fold_right]. rewrite radd_0_r. reflexivity.
  - cbn [filter]. rewrite E. cbn [negb]. rewrite (tot_cons x t), (tot_cons x (filter _ t)).
    specialize (IH N2 F). destruct (Nat.eqb (lk (bus x)) r); [|exact IH]. rewrite IH.
    rewrite !radd_assoc. rewrite (radd_comm (c x)). reflexivity.
Qed.

Lemma pick_filter i tab sel : ~ In i sel -> pick id (filter (fun x => negb (Nat.eqb (id x) i)) tab) sel = pick id tab sel.
Proof.
  intros NI. induction sel as [|j t IH]; [reflexivity|]. simpl. rewrite IH by (intros H; apply NI; right; exact H).
  assert (J : j <> i) by (intros ->; apply NI; left; reflexivity).
  assert (Ff : find (fun a => Nat.eqb (id a) j) (filter (fun x => negb (Nat.eqb (id x) i)) tab) = find (fun a => Nat.eqb (id a) j) tab).
  { clear -J. induction tab as [|x tb IHt]; [reflexivity|]. cbn [filter find].
    destruct (Nat.eqb (id x) i) eqn:E; cbn [negb].
    - apply Nat.eqb_eq in E. destruct (Nat.eqb (id x) j) eqn:E'; [apply Nat.eqb_eq in E'; congruence|exact IHt].
    - cbn [find]. destruct (Nat.eqb (id x) j); [reflexivity|exact IHt]. }
  rewrite Ff. reflexivity.
Qed.
Lemma NoDup_filter_ids (p : A -> bool) tab : NoDup (map id tab) -> NoDup (map id (filter p tab)).
Proof.
  induction tab as [|x t IH]; intros ND; [constructor|]. inversion ND as [|? ? N1 N2]; subst. cbn [filter].
  destruct (p x); [|auto]. simpl. constructor; [|auto]. intros H. apply N1.
  apply in_map_iff in H. destruct H as [y [Ey Hy]]. apply filter_In in Hy. apply in_map_iff. exists y. tauto.
Qed.
Lemma filter_filter_sel i t tab :
  filter (fun a => negb (memb (id a) t)) (filter (fun x => negb (Nat.eqb (id x) i)) tab) = filter (fun a => negb (memb (id a) (i :: t))) tab.
Proof.
  induction tab as [|x tb IH]; [reflexivity|]. cbn [filter]. unfold memb at 2. cbn [existsb].
  destruct (Nat.eqb (id x) i) eqn:E; cbn [negb orb].
  - exact IH.
  - cbn [filter]. fold (memb (id x) t). destruct (memb (id x) t); cbn [negb]; [exact IH|f_equal; exact IH].
Qed.

(* net.<tab>.loc[sel] and the rows that stay make up the table: nothing is counted twice, nothing is lost *)
Lemma pick_split sel : forall tab hit, NoDup sel -> NoDup (map id tab) -> pick id tab sel = Some hit ->
  T tab =r= radd (T hit) (T (drop_sel id tab sel)).
Proof.
  induction sel as [|i t IH]; intros tab hit NS ND P.
  - simpl in P. inversion P; subst. unfold drop_sel. cbn [memb existsb negb].
    assert (F : filter (fun _ : A => true) tab = tab) by (clear; induction tab; simpl; congruence).
    unfold memb. cbn [existsb negb]. rewrite F. symmetry. apply radd_0_l.
  - simpl in P. destruct (find (fun a => Nat.eqb (id a) i) tab) as [a|] eqn:F; [|discriminate].
    destruct (pick id tab t) as [rr|] eqn:Pt; [|discriminate]. inversion P; subst hit. inversion NS as [|? ? N1 N2]; subst.
    rewrite (find_split i tab a ND F).
    set (tab' := filter (fun x => negb (Nat.eqb (id x) i)) tab).
    assert (P' : pick id tab' t = Some rr) by (unfold tab'; rewrite pick_filter; assumption).
    rewrite (IH tab' rr N2 (NoDup_filter_ids _ tab ND) P').
    unfold drop_sel, tab'. rewrite filter_filter_sel.
    change (a :: rr) with ([a] ++ rr). rewrite (tot_app [a] rr). apply radd_assoc.
Qed.
End Tot.

Lemma tot_map lk {A B} (f : A -> B) (bus : B -> nat) (c : B -> row4) r l :
  tot lk bus c r (map f l) = tot lk (fun a => bus (f a)) (fun a => c (f a)) r l.
Proof. induction l as [|a l IH]; [reflexivity|]. simpl. rewrite IH. reflexivity. Qed.
Lemma tot_ext lk {A} r (bus : A -> nat) (c1 c2 : A -> row4) l :
  (forall a, In a l -> c1 a = c2 a) -> tot lk bus c1 r l = tot lk bus c2 r l.
Proof.
  intros H. induction l as [|a l IHl]; [reflexivity|]. rewrite !tot_cons, (H a (or_introl eq_refl)), IHl; auto.
  intros a' Ha'. apply H. right. exact Ha'.
Qed.
Lemma pick_In {A} (id : A -> nat) tab sel hit : pick id tab sel = Some hit -> forall a, In a hit -> In a tab.
Proof.
  revert hit. induction sel as [|i t IH]; intros hit P a Ha; simpl in P.
  - inversion P; subst. contradiction.
  - destruct (find (fun a => Nat.eqb (id a) i) tab) as [x|] eqn:F; [|discriminate].
    destruct (pick id tab t) as [rr|]; [|discriminate]. inversion P; subst. destruct Ha as [<-|Ha].
    + apply find_some in F. tauto.
    + eapply IH; eauto.
Qed.

(* ------------------------------------------------------------------ ward -> load + shunt *)
Section Ward.
Variable bis : nat -> bool.
Variable lk : nat -> nat.
Variable bk : nat -> Q.

Lemma a01_cases x : a01 x == 0 \/ a01 x == 1. Proof. destruct x; [right|left]; reflexivity. Qed.

Lemma ward_element vn w : bk (lk (w_bus w)) == vn -> ~ vn == 0 ->
  ward_c bis w =r= radd (load_c bis (ward_load w)) (shunt_c bis lk bk (ward_shunt vn w)).
Proof.
  intros B V. unfold req, radd, ward_c, load_c, shunt_c, ward_load, ward_shunt. cbn -[a01 qadd qmul qdiv]. qnorm. rewrite B.
  repeat split; field; assumption.
Qed.
Lemma xward_element vn x : bk (lk (x_bus x)) == vn -> ~ vn == 0 ->
  xward_c bis x =r= radd (load_c bis (xward_load x)) (shunt_c bis lk bk (xward_shunt vn x)).
Proof.
  intros B V. unfold req, radd, xward_c, load_c, shunt_c, xward_load, xward_shunt. cbn -[a01 qadd qmul qdiv]. qnorm. rewrite B.
  repeat split; field; assumption.
Qed.
End Ward.

(* the rated voltage of every bus that carries a ward is the BASE_KV of its ppc row and is not zero
   (buses fused by a bus-bus switch have the same vn_kv) *)
Definition base_ok (lk : nat -> nat) (bk : nat -> Q) (n : net) (b : nat) : Prop :=
  forall vn, vn_of n b = Some vn -> bk (lk b) == vn /\ ~ vn == 0.

Lemma ward_shunts_tot bis lk bk n r : forall hit sh, ward_shunts n hit = Ok sh ->
  (forall w, In w hit -> base_ok lk bk n (w_bus w)) ->
  radd (tot lk l_bus (load_c bis) r (map ward_load hit)) (tot lk s_bus (shunt_c bis lk bk) r sh) =r= tot lk w_bus (ward_c bis) r hit.
Proof.
  induction hit as [|w t IH]; intros sh W G.
  - simpl in W. inversion W; subst. cbn. apply radd_0_l.
  - simpl in W. destruct (vn_of n (w_bus w)) as [vn|] eqn:V; [|discriminate].
    destruct (ward_shunts n t) as [rr|e] eqn:Wt; [|discriminate]. inversion W; subst sh.
    specialize (IH rr eq_refl (fun w' H => G w' (or_intror H))).
    destruct (G w (or_introl eq_refl) vn V) as [B NZ].
    pose proof (ward_element bis lk bk vn w B NZ) as El.
    cbn [map]. rewrite !tot_cons. cbn [l_bus ward_load s_bus ward_shunt].
    destruct (Nat.eqb (lk (w_bus w)) r); [|exact IH].
    rewrite <- IH, El. clear. rsolve.
Qed.

Theorem replace_wards_row lk bk n sel m r :
  replace_wards n sel = Ok m -> NoDup sel -> NoDup (map w_id (wards n)) ->
  (forall w, In w (wards n) -> base_ok lk bk n (w_bus w)) ->
  bus_row lk bk m r =r= bus_row lk bk n r.
Proof.
  unfold replace_wards. intros R NS ND G.
  destruct (pick w_id (wards n) sel) as [hit|] eqn:P; [|discriminate].
  destruct (ward_shunts n hit) as [sh|e] eqn:W; [|discriminate]. inversion R; subst m; clear R.
  unfold bus_row, bus_row4, bus_is; cbn [loads shunts wards xwards buses].
  fold (bus_is n).
  pose proof (pick_split lk w_bus (ward_c (bus_is n)) r w_id sel (wards n) hit NS ND P) as S.
  pose proof (ward_shunts_tot (bus_is n) lk bk n r hit sh W (fun w H => G w (pick_In w_id _ _ _ P w H))) as E.
  rewrite (tot_app lk l_bus _ r (loads n)), (tot_app lk s_bus _ r (shunts n)).
  rewrite S, <- E. clear. rsolve.
Qed.

(* per unit: the complex power drawn and the shunt admittance at every ppc row are the same before and after *)
Lemma row_pu sn a b : a =r= b ->
  fst (s_pu sn a) == fst (s_pu sn b) /\ snd (s_pu sn a) == snd (s_pu sn b) /\
  fst (ysh_pu sn a) == fst (ysh_pu sn b) /\ snd (ysh_pu sn a) == snd (ysh_pu sn b).
Proof.
  intros (A & B & C & D). unfold s_pu, ysh_pu, bs; simpl. qnorm. rewrite A, B, C, D. repeat split; reflexivity.
Qed.

(* ------------------------------------------------------------------ xward -> bus + load + shunt + gen + impedance *)
Definition xs_inv (n0 n : net) : Prop :=
  sn n = sn n0 /\ wards n = wards n0 /\ xwards n = xwards n0 /\ egrids n = egrids n0 /\
  (forall b vn, vn_of n0 b = Some vn -> vn_of n b = Some vn) /\
  (forall b, vn_of n0 b <> None -> bus_is n b = bus_is n0 b).

Lemma vn_of_app n b l : vn_of n b <> None ->
  find (fun r => Nat.eqb (b_id r) b) (buses n ++ l) = find (fun r => Nat.eqb (b_id r) b) (buses n).
Proof.
  unfold vn_of. induction (buses n) as [|x t IH]; intros H; [cbn in H; congruence|].
  cbn [app find] in *. destruct (Nat.eqb (b_id x) b); [reflexivity|apply IH; exact H].
Qed.
Lemma new_bus_fresh n : forall x, In x (buses n) -> (b_id x < new_bus_id n)%nat.
Proof.
  unfold new_bus_id. induction (buses n) as [|y t IH]; intros x H; [contradiction|]. cbn [fold_right].
  destruct H as [->|H]; [lia|]. specialize (IH x H). lia.
Qed.
Lemma bus_is_app n b x : Nat.eqb (b_id x) b = false ->
  existsb (fun r => Nat.eqb (b_id r) b && b_is r) (buses n ++ [x]) = bus_is n b.
Proof. intros E. rewrite existsb_app. cbn [existsb]. rewrite E. cbn. rewrite !orb_false_r. reflexivity. Qed.

(* one loop iteration: the rows PD QD GS BS change by load + shunt of this xward *)
Lemma xward_step_row old lk bk n x m :
  xward_step old (Ok n) x = Ok m -> base_ok lk bk n (x_bus x) ->
  exists vn, vn_of n (x_bus x) = Some vn /\
    loads m = loads n ++ [xward_load x] /\ shunts m = shunts n ++ [xward_shunt vn x] /\
    wards m = wards n /\ xwards m = xwards n /\ sn m = sn n /\ egrids m = egrids n /\
    (forall b v, vn_of n b = Some v -> vn_of m b = Some v) /\ (forall b, vn_of n b <> None -> bus_is m b = bus_is n b).
Proof.
  unfold xward_step. intros S G. destruct (vn_of n (x_bus x)) as [vn|] eqn:V; [|discriminate].
  inversion S; subst m; clear S. exists vn. cbn. repeat split; try reflexivity.
  - intros b v H. unfold vn_of in *. cbn [buses]. rewrite vn_of_app; [exact H|]. unfold vn_of. intros X. rewrite X in H. discriminate.
  - intros b H. unfold bus_is at 1. cbn [buses]. apply bus_is_app. cbn [b_id].
    apply Nat.eqb_neq. intros E. apply H. unfold vn_of.
    destruct (find (fun r0 => Nat.eqb (b_id r0) b) (buses n)) as [y|] eqn:F; [|reflexivity].
    apply find_some in F. destruct F as [F1 F2]. apply Nat.eqb_eq in F2. pose proof (new_bus_fresh n y F1). lia.
Qed.

(* the loop over the selected xwards: tables of the net during the loop *)
Lemma xward_loop old lk bk r : forall hit n m,
  fold_left (xward_step old) hit (Ok n) = Ok m ->
  (forall x, In x hit -> base_ok lk bk n (x_bus x) /\ vn_of n (x_bus x) <> None) ->
  exists ld sh, loads m = loads n ++ ld /\ shunts m = shunts n ++ sh /\ wards m = wards n /\ xwards m = xwards n /\ sn m = sn n /\
    (forall b v, vn_of n b = Some v -> vn_of m b = Some v) /\ (forall b, vn_of n b <> None -> bus_is m b = bus_is n b) /\
    forall bis, (forall x, In x hit -> bis (x_bus x) = bus_is n (x_bus x)) ->
      radd (tot lk l_bus (load_c bis) r ld) (tot lk s_bus (shunt_c bis lk bk) r sh) =r= tot lk x_bus (xward_c bis) r hit.
Proof.
  induction hit as [|x t IH]; intros n m F G.
  - cbn in F. inversion F; subst m. exists [], []. rewrite !app_nil_r. repeat split; auto.
  - cbn [fold_left] in F. destruct (xward_step old (Ok n) x) as [n1|e] eqn:S.
    2:{ exfalso. clear -F. induction t as [|y t IHt]; cbn in F; [discriminate|auto]. }
    destruct (G x (or_introl eq_refl)) as [Gx Vx].
    destruct (xward_step_row old lk bk n x n1 S Gx) as (vn & V & L1 & S1 & W1 & X1 & N1 & _ & K1 & B1).
    assert (G1 : forall y, In y t -> base_ok lk bk n1 (x_bus y) /\ vn_of n1 (x_bus y) <> None).
    { intros y Hy. destruct (G y (or_intror Hy)) as [Gy Vy]. split.
      - intros v Hv. apply Gy. destruct (vn_of n (x_bus y)) as [v0|] eqn:E; [|congruence].
        rewrite (K1 _ _ E) in Hv. exact Hv.
      - destruct (vn_of n (x_bus y)) as [v0|] eqn:E; [|congruence]. rewrite (K1 _ _ E). discriminate. }
    destruct (IH n1 m F G1) as (ld & sh & L & Sh & W & X & N & K & B & T).
    exists (xward_load x :: ld), (xward_shunt vn x :: sh).
    rewrite L, Sh, L1, S1, <- !app_assoc. cbn [app]. split; [reflexivity|]. split; [reflexivity|]. split; [congruence|]. split; [congruence|]. split; [congruence|]. split; [|split].
    + intros b v H. apply K, K1, H.
    + intros b H. rewrite B; [apply B1, H|]. destruct (vn_of n b) as [v0|] eqn:E; [|congruence]. rewrite (K1 _ _ E). discriminate.
    + intros bis Hb. rewrite !tot_cons. cbn [l_bus xward_load s_bus xward_shunt].
      assert (T' := T bis). destruct (Gx vn V) as [Bq NZ].
      pose proof (xward_element bis lk bk vn x Bq NZ) as El.
      assert (Tt : radd (tot lk l_bus (load_c bis) r ld) (tot lk s_bus (shunt_c bis lk bk) r sh) =r= tot lk x_bus (xward_c bis) r t).
      { apply T'. intros y Hy. rewrite (Hb y (or_intror Hy)). symmetry. apply B1. apply (G y (or_intror Hy)). }
      destruct (Nat.eqb (lk (x_bus x)) r); [|exact Tt]. rewrite <- Tt, El. clear. rsolve.
Qed.

Theorem replace_xwards_row old lk bk n sel m r :
  replace_xwards_gen old n sel = Ok m -> NoDup sel -> NoDup (map x_id (xwards n)) ->
  (forall x, In x (xwards n) -> base_ok lk bk n (x_bus x) /\ vn_of n (x_bus x) <> None) ->
  (forall l, In l (loads n) -> vn_of n (l_bus l) <> None) -> (forall s, In s (shunts n) -> vn_of n (s_bus s) <> None) ->
  (forall w, In w (wards n) -> vn_of n (w_bus w) <> None) ->
  bus_row lk bk m r =r= bus_row lk bk n r.
Proof.
  unfold replace_xwards_gen. intros R NS ND G GL GS GW.
  destruct (pick x_id (xwards n) sel) as [hit|] eqn:P; [|discriminate].
  destruct (fold_left (xward_step old) hit (Ok n)) as [m1|e] eqn:F; [|discriminate]. inversion R; subst m; clear R.
  destruct (xward_loop old lk bk r hit n m1 F (fun x H => G x (pick_In x_id _ _ _ P x H)))
    as (ld & sh & L & Sh & W & X & N & K & B & T).
  unfold bus_row, bus_row4. cbn [loads shunts wards xwards]. rewrite L, Sh, W, X.
  (* bus_is of the result agrees with bus_is n on every bus that existed *)
  set (b1 := bus_is {| sn := sn m1; buses := buses m1; loads := loads n ++ ld; shunts := shunts n ++ sh; wards := wards n;
                      xwards := drop_sel x_id (xwards n) sel; gens := gens m1; egrids := egrids m1; imps := imps m1 |}).
  assert (Hb : forall b, vn_of n b <> None -> b1 b = bus_is n b) by (intros b H; unfold b1, bus_is; cbn [buses]; apply (B b H)).
  pose proof (fun A => @tot_ext lk A r) as EXT.
  rewrite (tot_app lk l_bus _ r (loads n)), (tot_app lk s_bus _ r (shunts n)).
  rewrite (EXT _ l_bus (load_c b1) (load_c (bus_is n)) (loads n)) by (intros a Ha; unfold load_c; rewrite (Hb _ (GL a Ha)); reflexivity).
  rewrite (EXT _ s_bus (shunt_c b1 lk bk) (shunt_c (bus_is n) lk bk) (shunts n)) by (intros a Ha; unfold shunt_c; rewrite (Hb _ (GS a Ha)); reflexivity).
  rewrite (EXT _ w_bus (ward_c b1) (ward_c (bus_is n)) (wards n)) by (intros a Ha; unfold ward_c; rewrite (Hb _ (GW a Ha)); reflexivity).
  assert (DI : forall a, In a (drop_sel x_id (xwards n) sel) -> In a (xwards n)) by (intros a Ha; apply filter_In in Ha; tauto).
  rewrite (EXT _ x_bus (xward_c b1) (xward_c (bus_is n)) (drop_sel x_id (xwards n) sel))
    by (intros a Ha; unfold xward_c; rewrite (Hb _ (proj2 (G a (DI a Ha)))); reflexivity).
  pose proof (pick_split lk x_bus (xward_c (bus_is n)) r x_id sel (xwards n) hit NS ND P) as S.
  assert (T1 := T b1 (fun x H => Hb _ (proj2 (G x (pick_In x_id _ _ _ P x H))))).
  rewrite (EXT _ x_bus (xward_c b1) (xward_c (bus_is n)) hit) in T1
    by (intros a Ha; unfold xward_c; rewrite (Hb _ (proj2 (G a (pick_In x_id _ _ _ P a Ha)))); reflexivity).
  rewrite S, <- T1. clear. rsolve.
Qed.

(* the voltage source behind r + jx: the branch to the internal node and its PV set point, per unit on net.sn_mva *)
Definition vsrc_eq (a b : vsrc) : Prop :=
  z_r a == z_r b /\ z_x a == z_x b /\ fst (z_asym a) == fst (z_asym b) /\ snd (z_asym a) == snd (z_asym b) /\
  (let '(g, b0, ga, ba) := z_sh a in let '(g', b0', ga', ba') := z_sh b in g == g' /\ b0 == b0' /\ ga == ga' /\ ba == ba') /\
  fst (z_tap a) == fst (z_tap b) /\ snd (z_tap a) == snd (z_tap b) /\ v_set a == v_set b /\ p_set a == p_set b /\ v_on a = v_on b.

Lemma xward_vsrc snet basekv vn nb x :
  basekv == vn -> ~ vn == 0 -> ~ snet == 0 ->
  vsrc_eq (vsrc_of_internal snet (xward_imped false snet vn x) (xward_gen nb x)) (vsrc_of_xward snet basekv true x).
Proof.
  intros B V S. unfold vsrc_eq, vsrc_of_internal, vsrc_of_xward, vsrc_of_branch, xward_imped, xward_gen,
    C02.Model.impedance_branch, C02.Model.xward_branch, C02.Model.qsq.
  cbn -[qadd qsub qmul qdiv]. qnorm. rewrite B. rewrite !andb_true_r.
  repeat split; try reflexivity; try (field; tauto); try ring.
Qed.
(* the rule before the repair: only for net.sn_mva = 1 *)
Lemma xward_vsrc_old_partial snet basekv vn nb x :
  snet == 1 -> basekv == vn -> ~ vn == 0 ->
  vsrc_eq (vsrc_of_internal snet (xward_imped true snet vn x) (xward_gen nb x)) (vsrc_of_xward snet basekv true x).
Proof.
  intros S1 B V. unfold vsrc_eq, vsrc_of_internal, vsrc_of_xward, vsrc_of_branch, xward_imped, xward_gen,
    C02.Model.impedance_branch, C02.Model.xward_branch, C02.Model.qsq.
  cbn -[qadd qsub qmul qdiv]. qnorm. rewrite B, S1. rewrite !andb_true_r.
  repeat split; try reflexivity; try (field; tauto); try ring.
Qed.
Definition w_xward : xward := {| x_id := 0; x_bus := 0; x_ps := 1 # 8; x_qs := 1 # 16; x_pz := 1 # 4; x_qz := 1 # 8;
                                 x_r := 1 # 2; x_x := 1; x_vm := 1; x_is := true |}.
Lemma xward_vsrc_old_refuted : exists snet vn nb x, ~ vn == 0 /\ ~ snet == 0 /\
  ~ z_r (vsrc_of_internal snet (xward_imped true snet vn x) (xward_gen nb x)) == z_r (vsrc_of_xward snet vn true x).
Proof. exists 100, 20, 7%nat, w_xward. repeat split; try (vm_compute; discriminate). Qed.

(* ------------------------------------------------------------------ ext_grid -> gen *)
Definition vref_eq (a b : option vref) : Prop :=
  match a, b with
  | None, None => True
  | Some u, Some v => is_ref u = is_ref v /\ is_pv u = is_pv v /\ vm_set u == vm_set v /\ va_set u == va_set v
  | _, _ => False
  end.
Lemma egrid_vref_partial cva bis p e : G23e cva e = true ->
  vref_eq (vref_of_gen bis (egrid_gen true p e)) (vref_of_egrid cva bis e).
Proof.
  unfold G23e, vref_eq, vref_of_gen, vref_of_egrid, egrid_gen. cbn. intros G. destruct (e_is e && bis); [|exact I].
  cbn. repeat split; try reflexivity. destruct cva; [|reflexivity]. cbn in G. apply qeqb_eq in G. symmetry. exact G.
Qed.
(* magnitude set point, reference flag and in-service state survive for every ext_grid *)
Lemma egrid_vm_ref cva bis p e :
  match vref_of_gen bis (egrid_gen true p e), vref_of_egrid cva bis e with
  | Some u, Some v => is_ref u = is_ref v /\ vm_set u == vm_set v
  | None, None => True | _, _ => False end.
Proof. unfold vref_of_gen, vref_of_egrid, egrid_gen. cbn. destruct (e_is e && bis); cbn; [split; reflexivity|exact I]. Qed.
Definition w_egrid : egrid := {| e_id := 0; e_bus := 0; e_vm := 1; e_va := 10; e_is := true |}.
Lemma egrid_vref_refuted : exists cva bis p e, ~ vref_eq (vref_of_gen bis (egrid_gen true p e)) (vref_of_egrid cva bis e).
Proof. exists true, true, None, w_egrid. cbn. intros (_ & _ & _ & H). vm_compute in H. discriminate. Qed.
(* slack = False (the default of the function) turns the reference bus into a PV bus *)
Lemma egrid_noslack_refuted : exists cva bis p e, G23e cva e = true /\ ~ vref_eq (vref_of_gen bis (egrid_gen false p e)) (vref_of_egrid cva bis e).
Proof. exists false, true, None, w_egrid. split; [reflexivity|]. cbn. intros (H & _). discriminate. Qed.
(* the table step: the created gens are exactly the images of the selected ext_grids, in the order of the selection *)
Lemma replace_egrids_tables n slack resp sel m : replace_egrids n slack resp sel = Ok m ->
  exists hit, pick e_id (egrids n) sel = Some hit /\ gens m = gens n ++ map (fun e => egrid_gen slack (resp (e_id e)) e) hit /\
              egrids m = drop_sel e_id (egrids n) sel /\ buses m = buses n.
Proof.
  unfold replace_egrids. destruct (pick e_id (egrids n) sel) as [hit|]; [|discriminate]. intros H. inversion H; subst.
  exists hit. repeat split.
Qed.

(* ------------------------------------------------------------------ per unit on net.sn_mva *)
Definition pu_eq (sn1 : Q) (a : row4) (sn2 : Q) (b : row4) : Prop :=
  fst (s_pu sn1 a) == fst (s_pu sn2 b) /\ snd (s_pu sn1 a) == snd (s_pu sn2 b) /\
  fst (ysh_pu sn1 a) == fst (ysh_pu sn2 b) /\ snd (ysh_pu sn1 a) == snd (ysh_pu sn2 b).
Lemma replace_wards_sn n sel m : replace_wards n sel = Ok m -> sn m = sn n.
Proof.
  unfold replace_wards. destruct (pick w_id (wards n) sel); [|discriminate]. destruct (ward_shunts n l); [|discriminate].
  intros H; inversion H; reflexivity.
Qed.
Theorem replace_wards_pu lk bk n sel m r :
  replace_wards n sel = Ok m -> NoDup sel -> NoDup (map w_id (wards n)) ->
  (forall w, In w (wards n) -> base_ok lk bk n (w_bus w)) ->
  pu_eq (sn m) (bus_row lk bk m r) (sn n) (bus_row lk bk n r).
Proof.
  intros R NS ND G. rewrite (replace_wards_sn n sel m R). apply row_pu. eapply replace_wards_row; eauto.
Qed.
Lemma xward_loop_sn old : forall hit n m, fold_left (xward_step old) hit (Ok n) = Ok m -> sn m = sn n.
Proof.
  induction hit as [|x t IH]; intros n m F; cbn in F; [inversion F; reflexivity|].
  destruct (vn_of n (x_bus x)) eqn:V.
  - apply IH in F. cbn in F. exact F.
  - exfalso. clear -F. induction t as [|y t IHt]; cbn in F; [discriminate|auto].
Qed.
Lemma replace_xwards_sn old n sel m : replace_xwards_gen old n sel = Ok m -> sn m = sn n.
Proof.
  unfold replace_xwards_gen. destruct (pick x_id (xwards n) sel); [|discriminate].
  destruct (fold_left (xward_step old) l (Ok n)) eqn:F; [|discriminate]. intros H; inversion H; cbn. eapply xward_loop_sn; eauto.
Qed.
Theorem replace_xwards_pu old lk bk n sel m r :
  replace_xwards_gen old n sel = Ok m -> NoDup sel -> NoDup (map x_id (xwards n)) ->
  (forall x, In x (xwards n) -> base_ok lk bk n (x_bus x) /\ vn_of n (x_bus x) <> None) ->
  (forall l, In l (loads n) -> vn_of n (l_bus l) <> None) -> (forall s, In s (shunts n) -> vn_of n (s_bus s) <> None) ->
  (forall w, In w (wards n) -> vn_of n (w_bus w) <> None) ->
  pu_eq (sn m) (bus_row lk bk m r) (sn n) (bus_row lk bk n r).
Proof.
  intros R NS ND G GL GS GW. rewrite (replace_xwards_sn old n sel m R). apply row_pu. eapply replace_xwards_row; eauto.
Qed.

(* ------------------------------------------------------------------ a concrete net on which all hypotheses hold *)
Definition w_rnet : net :=
  {| sn := 10; buses := [{| b_id := 0; b_vn := 20; b_is := true |}; {| b_id := 3; b_vn := 20; b_is := true |}];
     loads := [{| l_bus := 3; l_p := 1 # 4; l_q := 1 # 8; l_sc := 1; l_is := true |}]; shunts := [];
     wards := [{| w_id := 4; w_bus := 3; w_ps := 1 # 8; w_qs := 1 # 16; w_pz := 1 # 4; w_qz := 1 # 8; w_is := true |};
               {| w_id := 1; w_bus := 0; w_ps := 1 # 2; w_qs := 0; w_pz := 0; w_qz := 1 # 8; w_is := true |}];
     xwards := [{| x_id := 2; x_bus := 3; x_ps := 1 # 8; x_qs := 1 # 16; x_pz := 1 # 4; x_qz := 1 # 8;
                   x_r := 1 # 2; x_x := 1; x_vm := 1; x_is := true |}];
     gens := []; egrids := [w_egrid]; imps := [] |}.
Lemma w_rnet_base_ok b : base_ok (fun x => x) (fun _ => 20) w_rnet b.
Proof.
  intros vn H. unfold vn_of in H. cbn [buses w_rnet find b_id] in H.
  destruct (Nat.eqb 0 b); [inversion H; split; [reflexivity|discriminate]|].
  destruct (Nat.eqb 3 b); [inversion H; split; [reflexivity|discriminate]|discriminate].
Qed.
Example replace_wards_nonvacuous : exists m,
  replace_wards w_rnet [4%nat] = Ok m /\ NoDup [4%nat] /\ NoDup (map w_id (wards w_rnet)) /\
  (forall w, In w (wards w_rnet) -> base_ok (fun x => x) (fun _ => 20) w_rnet (w_bus w)) /\
  ~ pd (bus_row (fun x => x) (fun _ => 20) w_rnet 3) == 0 /\ List.length (loads m) = 2%nat /\ List.length (wards m) = 1%nat.
Proof.
  eexists. split; [vm_compute; reflexivity|]. split; [repeat constructor; simpl; tauto|].
  split; [repeat constructor; simpl; intuition discriminate|]. split; [intros; apply w_rnet_base_ok|].
  split; [vm_compute; discriminate|]. split; reflexivity.
Qed.
Example replace_xwards_nonvacuous : exists m,
  replace_xwards w_rnet [2%nat] = Ok m /\ NoDup [2%nat] /\ NoDup (map x_id (xwards w_rnet)) /\
  (forall x, In x (xwards w_rnet) -> base_ok (fun x => x) (fun _ => 20) w_rnet (x_bus x) /\ vn_of w_rnet (x_bus x) <> None) /\
  List.length (buses m) = 3%nat /\ List.length (imps m) = 1%nat /\ xwards m = [].
Proof.
  eexists. split; [vm_compute; reflexivity|]. split; [repeat constructor; simpl; tauto|].
  split; [repeat constructor; simpl; tauto|].
  split; [intros x [<-|[]]; split; [apply w_rnet_base_ok|vm_compute; discriminate]|]. repeat split; reflexivity.
Qed.

Theorem replace_wards_bus_rows : forall lk bk n sel m r,
  replace_wards n sel = Ok m -> NoDup sel -> NoDup (map w_id (wards n)) ->
  (forall w, In w (wards n) -> base_ok lk bk n (w_bus w)) ->
  bus_row lk bk m r =r= bus_row lk bk n r /\ pu_eq (sn m) (bus_row lk bk m r) (sn n) (bus_row lk bk n r).
Proof. intros. split; [eapply replace_wards_row|eapply replace_wards_pu]; eassumption. Qed.
Theorem replace_xwards_bus_rows : forall lk bk n sel m r,
  replace_xwards n sel = Ok m -> NoDup sel -> NoDup (map x_id (xwards n)) ->
  (forall x, In x (xwards n) -> base_ok lk bk n (x_bus x) /\ vn_of n (x_bus x) <> None) ->
  (forall l, In l (loads n) -> vn_of n (l_bus l) <> None) -> (forall s, In s (shunts n) -> vn_of n (s_bus s) <> None) ->
  (forall w, In w (wards n) -> vn_of n (w_bus w) <> None) ->
  bus_row lk bk m r =r= bus_row lk bk n r /\ pu_eq (sn m) (bus_row lk bk m r) (sn n) (bus_row lk bk n r).
Proof. intros. split; [eapply (replace_xwards_row false)|eapply (replace_xwards_pu false)]; eassumption. Qed.
