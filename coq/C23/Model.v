(* C23 — result-preserving transformations: the parameter algebra of
     pandapower/toolbox/grid_modification.py replace_line_by_impedance :1199-1258 (as it is: `parallel` and `length_km`
     are numpy arrays (positional) indexed with the line LABEL idx, :1217-1233), merge_parallel_line :461-509,
     replace_impedance_by_line :1146-1196.
   pandas label access (.loc/.at/iterrows) and positional access (.values[i]) are kept apart.  Executable definitions only. *)
From Coq Require Import ZArith QArith List Bool String.
From PPV Require Import Base.QN Base.Out.
Import ListNotations.
Open Scope Q_scope.

Record line := { lid : Z; r_km : Q; x_km : Q; c_km : Q; g_km : Q; len : Q; par : Q; vn : Q }.   (* vn = vn_kv of from_bus *)
Record imp := { rft : Q; xft : Q; isn : Q }.

Inductive result (A : Type) := Ok (a : A) | Err (s : string).
Arguments Ok {A} a. Arguments Err {A} s.

(* label access: net.line.loc[idx] *)
Definition by_label (tab : list line) (i : Z) : option line := find (fun l => Z.eqb (lid l) i) tab.
(* positional access: arr[idx] with numpy semantics: 0 <= idx < n, or -n <= idx < 0 counted from the end, else IndexError *)
Definition by_pos (tab : list line) (i : Z) : option line :=
  let n := Z.of_nat (List.length tab) in
  if (0 <=? i)%Z && (i <? n)%Z then nth_error tab (Z.to_nat i)
  else if (i <? 0)%Z && (- n <=? i)%Z then nth_error tab (Z.to_nat (n + i)) else None.

(* the rule before "fix: replace_line_by_impedance takes parallel and length_km from the line's own row":
   row values by label, parallel / length_km by POSITION = label *)
Definition line_to_imp_old (tab : list line) (sn : Q) (idx : Z) : result imp :=
  match by_label tab idx with
  | None => Err "KeyError"
  | Some l =>
    match by_pos tab idx with
    | None => Err "IndexError"
    | Some lp =>
      let zni := qdiv (qmul (vn l) (vn l)) sn in
      Ok {| rft := qdiv (qdiv (qmul (r_km l) (len lp)) (par lp)) zni;
            xft := qdiv (qdiv (qmul (x_km l) (len lp)) (par lp)) zni; isn := sn |}
    end
  end.
(* the repaired rule (:1237-1246): everything from the line's own row *)
Definition line_to_imp (tab : list line) (sn : Q) (idx : Z) : result imp :=
  match by_label tab idx with
  | None => Err "KeyError"
  | Some l => let zni := qdiv (qmul (vn l) (vn l)) sn in
              Ok {| rft := qdiv (qdiv (qmul (r_km l) (len l)) (par l)) zni;
                    xft := qdiv (qdiv (qmul (x_km l) (len l)) (par l)) zni; isn := sn |}
  end.

(* spec: series impedance in ohm of a line, and of an impedance element on base vn^2/sn *)
Definition z_line_r (l : line) : Q := r_km l * len l / par l.
Definition z_line_x (l : line) : Q := x_km l * len l / par l.
Definition z_imp_r (m : imp) (v : Q) : Q := rft m * (v * v / isn m).
Definition z_imp_x (m : imp) (v : Q) : Q := xft m * (v * v / isn m).

(* G23a: the line table index is 0..n-1 in table order (labels = positions) *)
Fixpoint ident_from (k : Z) (tab : list line) : bool :=
  match tab with [] => true | l :: t => Z.eqb (lid l) k && ident_from (k + 1) t end.
Definition G23a (tab : list line) : bool := ident_from 0 tab.

(* merge_parallel_line :484-507: y0 = 1/(r0+jx0); y1 = p*y0; z1 = 1/y1;  c1 = p*c0; g1 = p*g0; parallel := 1 *)
Definition merge_parallel (l : line) : line :=
  let d := qadd (qmul (r_km l) (r_km l)) (qmul (x_km l) (x_km l)) in      (* |z0|^2 *)
  let y1r := qmul (par l) (qdiv (r_km l) d) in
  let y1i := qopp (qmul (par l) (qdiv (x_km l) d)) in
  let e := qadd (qmul y1r y1r) (qmul y1i y1i) in
  {| lid := lid l; r_km := qdiv y1r e; x_km := qopp (qdiv y1i e); c_km := qmul (par l) (c_km l); g_km := qmul (par l) (g_km l);
     len := len l; par := 1; vn := vn l |}.

(* replace_impedance_by_line :1169-1185 (symmetric impedance): r_ohm_per_km = rft_pu * vn^2/sn, length 1, parallel 1 *)
Definition imp_to_line (m : imp) (v : Q) (i : Z) : line :=
  let zni := qdiv (qmul v v) (isn m) in
  {| lid := i; r_km := qmul (rft m) zni; x_km := qmul (xft m) zni; c_km := 0; g_km := 0; len := 1; par := 1; vn := v |}.

Definition oimp (r : result imp) : out :=
  match r with Ok m => OL [oq (rft m); oq (xft m); oq (isn m)] | Err e => OErr e end.
Definition run_replace (tab : list line) (sn : Q) (idxs : list Z) : out := olist (fun i => oimp (line_to_imp tab sn i)) idxs.
Definition run_merge (l : line) : out := let m := merge_parallel l in OL [oq (r_km m); oq (x_km m); oq (c_km m); oq (g_km m); oq (par m)].
