(* C23/FuseProofs.v — fuse_buses over buses that the power flow fuses anyway leaves the ppc bus lookup partition unchanged *)
From Coq Require Import List Bool Arith Lia Relations.
From PPV Require Import Base.C07Graph C07.Model C07.UnionFind C23.Fuse.
Import ListNotations.
Local Open Scope nat_scope.

Lemma in_fuse_edges n sw u v :
  In (u, v) (fuse_edges_of n sw) <-> exists s, In s sw /\ fuses n s = true /\ u = s_bus s /\ v = s_el s.
Proof.
  unfold fuse_edges_of. rewrite in_flat_map. split.
  - intros [s [I H]]. destruct (fuses n s) eqn:F; [|contradiction]. destruct H as [H|[]]. inversion H; subst. eauto.
  - intros [s [I [F [-> ->]]]]. exists s. split; auto. rewrite F. now left.
Qed.
Lemma fuses_parts n s : fuses n s = true ->
  s_closed s = true /\ s_et s = ETb /\ s_zpos s = false /\ bus_is n (s_bus s) = true /\ bus_is n (s_el s) = true.
Proof.
  unfold fuses. intros F. repeat (apply andb_prop in F; destruct F as [F ?]).
  repeat split; auto; [destruct (s_et s); simpl in *; congruence|destruct (s_zpos s); simpl in *; congruence].
Qed.
Lemma fuse_edge_is n u v : In (u, v) (fuse_edges n) -> bus_is n u = true /\ bus_is n v = true.
Proof. intros H. apply in_fuse_edges in H. destruct H as [s [_ [F [-> ->]]]]. apply fuses_parts in F. tauto. Qed.
Lemma fuse_path_is n a b : upath (fuse_edges n) a b -> a = b \/ (bus_is n a = true /\ bus_is n b = true).
Proof.
  intros H. induction H as [x y E| |x y z _ IH1 _ IH2]; auto.
  - right. apply sym_In in E. destruct E as [E|E]; apply fuse_edge_is in E; tauto.
  - destruct IH1 as [->|[A B]]; auto. destruct IH2 as [<-|[C D]]; auto.
Qed.

Section Fuse.
Variable n : net.
Variable b1 : nat.
Variable b2s : list nat.
(* every bus that is fused into b1 already shares the ppc row of b1 *)
Hypothesis Hc : forall x, in_b2 b1 b2s x = true -> upath (fuse_edges n) b1 x.

Notation s := (sb b1 b2s).
Notation m := (fuse_buses n b1 b2s).
Notation E := (fuse_edges n).
Notation E' := (fuse_edges m).

Lemma in_b2_neq x : in_b2 b1 b2s x = true -> x <> b1.
Proof. unfold in_b2. intros H. apply andb_prop in H. destruct H as [_ H]. intros ->. rewrite Nat.eqb_refl in H. discriminate. Qed.
Lemma in_b2_sb x : in_b2 b1 b2s (s x) = false.
Proof.
  unfold sb. destruct (in_b2 b1 b2s x) eqn:I; [|exact I]. unfold in_b2. rewrite Nat.eqb_refl. apply andb_false_r.
Qed.
Lemma sb_path x : upath E x (s x).
Proof. unfold sb. destruct (in_b2 b1 b2s x) eqn:I; [apply upath_sym, Hc, I|apply upath_refl]. Qed.
Lemma b2_is x : in_b2 b1 b2s x = true -> bus_is n x = true /\ bus_is n b1 = true.
Proof.
  intros I. destruct (fuse_path_is n b1 x (Hc x I)) as [H|H]; [|tauto]. exfalso. apply (in_b2_neq x I). auto.
Qed.
Lemma bus_is_sb x : bus_is n (s x) = bus_is n x.
Proof. unfold sb. destruct (in_b2 b1 b2s x) eqn:I; [|reflexivity]. destruct (b2_is x I) as [A B]. congruence. Qed.
Lemma bus_is_m y : bus_is m y = bus_is n y && negb (in_b2 b1 b2s y).
Proof.
  unfold bus_is. cbn [buses fuse_buses]. induction (buses n) as [|r t IH]; [reflexivity|]. cbn [filter existsb].
  destruct (in_b2 b1 b2s (b_id r)) eqn:I; cbn [negb existsb].
  - rewrite IH. destruct (Nat.eqb (b_id r) y) eqn:Ey; cbn [andb orb]; [|reflexivity].
    apply Nat.eqb_eq in Ey. subst y. rewrite I. cbn. rewrite !andb_false_r. destruct (b_is r); reflexivity.
  - rewrite IH. destruct (Nat.eqb (b_id r) y) eqn:Ey; cbn [andb orb]; [|reflexivity].
    apply Nat.eqb_eq in Ey. subst y. rewrite I. cbn. destruct (b_is r); cbn; [reflexivity|].
    rewrite andb_true_r. reflexivity.
Qed.
Lemma bus_is_m_sb x : bus_is m (s x) = bus_is n x.
Proof. rewrite bus_is_m, in_b2_sb, bus_is_sb. apply andb_true_r. Qed.

(* a switch fuses after the rerouting iff it fused before *)
Lemma fuses_resw w : fuses m (resw s w) = fuses n w.
Proof.
  unfold fuses. cbn [resw s_closed s_et s_zpos s_bus s_el]. destruct (swet_eqb (s_et w) ETb) eqn:Eb.
  - rewrite !bus_is_m_sb. reflexivity.
  - rewrite !andb_false_r. reflexivity.
Qed.

Lemma edge_forward u v : In (u, v) E -> s u = s v \/ In (s u, s v) E'.
Proof.
  intros H. apply in_fuse_edges in H. destruct H as [w [I [F [-> ->]]]].
  destruct (fuses_parts n w F) as (_ & Et & _).
  destruct (inner_sw b1 (resw s w)) eqn:In1.
  - left. unfold inner_sw in In1. cbn [resw s_bus s_el s_et] in In1. rewrite Et in In1. cbn in In1.
    rewrite andb_true_r in In1. apply andb_prop in In1. destruct In1 as [A B]. apply Nat.eqb_eq in A, B. congruence.
  - right. apply in_fuse_edges. exists (resw s w). split; [|split; [rewrite fuses_resw; exact F|]].
    + cbn [switches fuse_buses]. apply filter_In. split; [apply in_map; exact I|]. rewrite In1. cbn [negb andb].
      cbn [resw s_et]. rewrite Et. reflexivity.
    + cbn [resw s_bus s_el]. rewrite Et. cbn. split; reflexivity.
Qed.
Lemma edge_backward u v : In (u, v) E' -> upath E u v.
Proof.
  intros H. apply in_fuse_edges in H. destruct H as [w' [I [F [-> ->]]]].
  cbn [switches fuse_buses] in I. apply filter_In in I. destruct I as [I _]. apply in_map_iff in I.
  destruct I as [w [<- I]]. rewrite fuses_resw in F. destruct (fuses_parts n w F) as (_ & Et & _).
  cbn [resw s_bus s_el]. rewrite Et. cbn.
  eapply upath_trans; [apply upath_sym, sb_path|]. eapply upath_trans; [|apply sb_path].
  apply upath_edge. apply in_fuse_edges. exists w. auto.
Qed.

Theorem fuse_partition a b : rep m (s a) = rep m (s b) <-> rep n a = rep n b.
Proof.
  rewrite !rep_iff_fused. split.
  - intros H. eapply upath_trans; [apply sb_path|]. eapply upath_trans; [|apply upath_sym, sb_path].
    apply (upath_map nat nat (fun x => x) (fuse_edges m) (upath E)); auto.
    + intros; apply upath_refl.
    + intros; eapply upath_trans; eauto.
    + intros; now apply upath_sym.
    + apply edge_backward.
  - apply (upath_map nat nat s (fuse_edges n) (upath E')).
    + intros; apply upath_refl.
    + intros; eapply upath_trans; eauto.
    + intros; now apply upath_sym.
    + intros u v H. destruct (edge_forward u v H) as [->|H']; [apply upath_refl|now apply upath_edge].
Qed.
(* for the surviving buses the lookup partition is literally the same *)
Corollary fuse_partition_surviving a b : in_b2 b1 b2s a = false -> in_b2 b1 b2s b = false ->
  (rep m a = rep m b <-> rep n a = rep n b).
Proof.
  intros A B. rewrite <- fuse_partition. unfold sb. rewrite A, B. tauto.
Qed.
(* in-service state of the row of a fused bus: b1 stands for its class *)
Corollary fuse_in_service x : bus_is m (s x) = bus_is n x.
Proof. apply bus_is_m_sb. Qed.
End Fuse.

(* the case of the property text: b1 and b2 joined by a closed bus-bus switch without impedance *)
Lemma G23f_path n b1 b2 : G23f n b1 b2 = true -> forall x, in_b2 b1 [b2] x = true -> upath (fuse_edges n) b1 x.
Proof.
  unfold G23f. intros G x I. apply andb_prop in G. destruct G as [_ G]. apply existsb_exists in G.
  destruct G as [w [Iw G]]. apply andb_prop in G. destruct G as [F J].
  unfold in_b2, memn in I. cbn [existsb] in I. rewrite orb_false_r in I. apply andb_prop in I. destruct I as [I _].
  apply Nat.eqb_eq in I. subst x.
  unfold joins in J. apply orb_prop in J. destruct J as [J|J]; apply andb_prop in J; destruct J as [J1 J2];
    apply Nat.eqb_eq in J1, J2.
  - apply upath_edge. apply in_fuse_edges. exists w. auto.
  - apply upath_sym, upath_edge. apply in_fuse_edges. exists w. auto.
Qed.
Theorem fuse_closed_switch_partition n b1 b2 : G23f n b1 b2 = true ->
  forall a b, rep (fuse_buses n b1 [b2]) (sb b1 [b2] a) = rep (fuse_buses n b1 [b2]) (sb b1 [b2] b) <-> rep n a = rep n b.
Proof. intros G a b. apply fuse_partition. apply G23f_path. exact G. Qed.

(* without the guard: fusing across an OPEN bus-bus switch merges two rows of the ppc *)
Definition w_net : net :=
  {| buses := [{| b_id := 0; b_is := true |}; {| b_id := 1; b_is := true |}; {| b_id := 2; b_is := true |}];
     lines := [{| r_id := 0; r_f := 0; r_t := 1; r_is := true |}]; trafos := []; trafo3ws := []; imps := []; dclines := []; xwards := [];
     switches := [{| s_bus := 1; s_el := 2; s_et := ETb; s_closed := false; s_zpos := false |}];
     injs := [{| i_bus := 0; i_is := true; i_pv := true; i_slack := true |}; {| i_bus := 2; i_is := true; i_pv := false; i_slack := false |}] |}.
Lemma fuse_open_switch_refuted : exists n b1 b2 a b,
  ~ (rep (fuse_buses n b1 [b2]) (sb b1 [b2] a) = rep (fuse_buses n b1 [b2]) (sb b1 [b2] b) <-> rep n a = rep n b).
Proof. exists w_net, 1, 2, 1, 2. vm_compute. intros [H _]. specialize (H eq_refl). discriminate. Qed.
Definition w_net_closed : net :=
  {| buses := buses w_net; lines := lines w_net; trafos := []; trafo3ws := []; imps := []; dclines := []; xwards := [];
     switches := [{| s_bus := 1; s_el := 2; s_et := ETb; s_closed := true; s_zpos := false |}]; injs := injs w_net |}.
Lemma fuse_nonvacuous : G23f w_net_closed 1 2 = true /\ rep w_net_closed 1 = rep w_net_closed 2 /\ rep w_net_closed 0 <> rep w_net_closed 1.
Proof. vm_compute. repeat split; congruence. Qed.

(* the same, with the hypothesis stated on the lookup itself *)
Theorem fuse_partition_rep : forall n b1 b2s,
  (forall x, in_b2 b1 b2s x = true -> rep n x = rep n b1) ->
  forall a b, rep (fuse_buses n b1 b2s) (sb b1 b2s a) = rep (fuse_buses n b1 b2s) (sb b1 b2s b) <-> rep n a = rep n b.
Proof. intros n b1 b2s H. apply fuse_partition. intros x I. apply rep_iff_fused. symmetry. exact (H x I). Qed.
Theorem fuse_partition_surviving_rep : forall n b1 b2s,
  (forall x, in_b2 b1 b2s x = true -> rep n x = rep n b1) ->
  forall a b, in_b2 b1 b2s a = false -> in_b2 b1 b2s b = false ->
  (rep (fuse_buses n b1 b2s) a = rep (fuse_buses n b1 b2s) b <-> rep n a = rep n b).
Proof. intros n b1 b2s H. apply fuse_partition_surviving. intros x I. apply rep_iff_fused. symmetry. exact (H x I). Qed.
