(* C23/Repl.v — the elements created by the ward / xward / ext_grid replacements and what they contribute to the bus equations.
     pandapower/toolbox/grid_modification.py
       replace_ward_by_internal_elements   :1714-1767  (load(ps, qs) + shunt(pz, qz) per ward, wards dropped)
       replace_xward_by_internal_elements  :1770-1824  (bus + load + shunt + gen(p=0, vm) + impedance(r_ohm*sn/vn^2) per xward)
       replace_ext_grid_by_gen             :1275-1353  (gen(bus, vm_pu, p_mw = res p or 0, slack) per ext_grid)
     pandapower/build_bus.py  _calc_pq_elements_and_add_on_ppc :605-664 (PD, QD), _calc_shunts_and_add_on_ppc :721-805 (GS, BS),
                              set_reference_buses :571-585
     pandapower/build_gen.py  _build_pp_ext_grid :104-139, _build_pp_gen :217-235, _build_pp_xward :238-256
     pandapower/build_branch.py _calc_impedance_parameters_from_dataframe :994, _calc_xward_parameter :1034 (C02.Model)
   mode "pf", constant-power loads (the created loads have const_z/i percent 0).  Executable definitions only. *)
From Coq Require Import ZArith QArith List Bool String Arith.
From PPV Require Import Base.QN Base.Out.
From PPV Require C02.Model.
Import ListNotations.
Open Scope Q_scope.

(* ------------------------------------------------------------------ tables (the columns the power flow reads) *)
Record busr := { b_id : nat; b_vn : Q; b_is : bool }.
Record load := { l_bus : nat; l_p : Q; l_q : Q; l_sc : Q; l_is : bool }.                   (* p_mw q_mvar scaling in_service *)
Record shunt := { s_bus : nat; s_p : Q; s_q : Q; s_vn : Q; s_step : Q; s_is : bool }.      (* p_mw q_mvar vn_kv step in_service *)
Record ward := { w_id : nat; w_bus : nat; w_ps : Q; w_qs : Q; w_pz : Q; w_qz : Q; w_is : bool }.
Record xward := { x_id : nat; x_bus : nat; x_ps : Q; x_qs : Q; x_pz : Q; x_qz : Q; x_r : Q; x_x : Q; x_vm : Q; x_is : bool }.
Record gen := { g_bus : nat; g_p : Q; g_vm : Q; g_sc : Q; g_slack : bool; g_is : bool }.   (* p_mw vm_pu scaling slack in_service *)
Record egrid := { e_id : nat; e_bus : nat; e_vm : Q; e_va : Q; e_is : bool }.              (* vm_pu va_degree in_service *)
Record imp := { m_f : nat; m_t : nat; m_par : C02.Model.imped }.
Record net := { sn : Q; buses : list busr; loads : list load; shunts : list shunt; wards : list ward; xwards : list xward;
                gens : list gen; egrids : list egrid; imps : list imp }.

Inductive res (A : Type) := Ok (a : A) | Raise (e : string).
Arguments Ok {A}. Arguments Raise {A}.

Definition bus_is (n : net) (b : nat) : bool := existsb (fun r => Nat.eqb (b_id r) b && b_is r) (buses n).
Definition vn_of (n : net) (b : nat) : option Q :=                                          (* net.bus.vn_kv.at[b] *)
  match find (fun r => Nat.eqb (b_id r) b) (buses n) with Some r => Some (b_vn r) | None => None end.
Definition a01 (x : bool) : Q := if x then 1 else 0.                                         (* _is_elements[..].astype(float) *)

(* ------------------------------------------------------------------ ppc bus row columns PD QD GS and the q-sum of the shunts
   (BS = - that sum, build_bus.py:805).  lk = net._pd2ppc_lookups["bus"], bk r = ppc["bus"][r, BASE_KV]. *)
Record row4 := { pd : Q; qd : Q; gs : Q; qsh : Q }.
Definition rzero : row4 := {| pd := 0; qd := 0; gs := 0; qsh := 0 |}.
Definition radd (a b : row4) : row4 :=
  {| pd := qadd (pd a) (pd b); qd := qadd (qd a) (qd b); gs := qadd (gs a) (gs b); qsh := qadd (qsh a) (qsh b) |}.
Definition bs (r : row4) : Q := qopp (qsh r).

Section Rows.
Variable bis : nat -> bool.          (* bus in service *)
Variable lk : nat -> nat.            (* bus lookup *)
Variable bk : nat -> Q.              (* BASE_KV of a ppc row *)

(* :648-650  p = p_mw * active * scaling * sign *)
Definition load_c (l : load) : row4 :=
  let a := a01 (l_is l && bis (l_bus l)) in
  {| pd := qmul (qmul (l_p l) a) (l_sc l); qd := qmul (qmul (l_q l) a) (l_sc l); gs := 0; qsh := 0 |}.
(* :740,:761-762  v_ratio = (BASE_KV / vn_kv)^2; p = p_mw * step * v_ratio * vl *)
Definition shunt_c (s : shunt) : row4 :=
  let a := a01 (s_is s && bis (s_bus s)) in
  let q := qdiv (bk (lk (s_bus s))) (s_vn s) in let vr := qmul q q in
  {| pd := 0; qd := 0; gs := qmul (qmul (qmul (s_p s) (s_step s)) vr) a; qsh := qmul (qmul (qmul (s_q s) (s_step s)) vr) a |}.
(* :645-647 and :765-770 *)
Definition ward_c (w : ward) : row4 :=
  let a := a01 (w_is w && bis (w_bus w)) in
  {| pd := qmul (w_ps w) a; qd := qmul (w_qs w) a; gs := qmul (w_pz w) a; qsh := qmul (w_qz w) a |}.
Definition xward_c (x : xward) : row4 :=
  let a := a01 (x_is x && bis (x_bus x)) in
  {| pd := qmul (x_ps x) a; qd := qmul (x_qs x) a; gs := qmul (x_pz x) a; qsh := qmul (x_qz x) a |}.

(* _sum_by_group: the total of the contributions whose bus is looked up to row r *)
Definition tot {A} (bus : A -> nat) (c : A -> row4) (r : nat) (l : list A) : row4 :=
  fold_right (fun a acc => if Nat.eqb (lk (bus a)) r then radd (c a) acc else acc) rzero l.
Definition bus_row4 (ls : list load) (ss : list shunt) (ws : list ward) (xs : list xward) (r : nat) : row4 :=
  radd (tot l_bus load_c r ls) (radd (tot s_bus shunt_c r ss) (radd (tot w_bus ward_c r ws) (tot x_bus xward_c r xs))).
End Rows.
Definition bus_row (lk : nat -> nat) (bk : nat -> Q) (n : net) (r : nat) : row4 :=
  bus_row4 (bus_is n) lk bk (loads n) (shunts n) (wards n) (xwards n) r.
(* per unit (makeSbus.py:37-39 Sbus = -(PD + jQD)/baseMVA; makeYbus.py:76 Ysh = (GS + jBS)/baseMVA) *)
Definition s_pu (sn : Q) (r : row4) : Q * Q := (qopp (qdiv (pd r) sn), qopp (qdiv (qd r) sn)).
Definition ysh_pu (sn : Q) (r : row4) : Q * Q := (qdiv (gs r) sn, qdiv (bs r) sn).

(* ------------------------------------------------------------------ selection: net.<tab>.loc[sel] (rows in the order of sel) *)
Fixpoint pick {A} (id : A -> nat) (tab : list A) (sel : list nat) : option (list A) :=
  match sel with
  | [] => Some []
  | i :: t => match find (fun a => Nat.eqb (id a) i) tab, pick id tab t with
              | Some a, Some r => Some (a :: r) | _, _ => None end
  end.
Definition memb (i : nat) (l : list nat) : bool := existsb (Nat.eqb i) l.
Definition drop_sel {A} (id : A -> nat) (tab : list A) (sel : list nat) : list A := filter (fun a => negb (memb (id a) sel)) tab.

(* ------------------------------------------------------------------ replace_ward_by_internal_elements *)
Definition ward_load (w : ward) : load := {| l_bus := w_bus w; l_p := w_ps w; l_q := w_qs w; l_sc := 1; l_is := w_is w |}.
Definition ward_shunt (vn : Q) (w : ward) : shunt :=
  {| s_bus := w_bus w; s_p := w_pz w; s_q := w_qz w; s_vn := vn; s_step := 1; s_is := w_is w |}.
(* the created shunts: vn_kv = net.bus.vn_kv.at[bus] (shunt_create.py:79-80); create_load raises if the bus does not exist *)
Fixpoint ward_shunts (n : net) (ws : list ward) : res (list shunt) :=
  match ws with
  | [] => Ok []
  | w :: t => match vn_of n (w_bus w), ward_shunts n t with
              | Some vn, Ok r => Ok (ward_shunt vn w :: r)
              | None, _ => Raise "UserWarning" | _, Raise e => Raise e end
  end.
Definition replace_wards (n : net) (sel : list nat) : res net :=
  match pick w_id (wards n) sel with
  | None => Raise "KeyError"
  | Some hit =>
    match ward_shunts n hit with
    | Raise e => Raise e
    | Ok sh => Ok {| sn := sn n; buses := buses n; loads := loads n ++ map ward_load hit; shunts := shunts n ++ sh;
                     wards := drop_sel w_id (wards n) sel; xwards := xwards n; gens := gens n; egrids := egrids n; imps := imps n |}
    end
  end.

(* ------------------------------------------------------------------ replace_xward_by_internal_elements *)
Definition new_bus_id (n : net) : nat := fold_right (fun b acc => Nat.max (S (b_id b)) acc) O (buses n).   (* get_free_id *)
Definition xward_load (x : xward) : load := {| l_bus := x_bus x; l_p := x_ps x; l_q := x_qs x; l_sc := 1; l_is := x_is x |}.
Definition xward_shunt (vn : Q) (x : xward) : shunt :=
  {| s_bus := x_bus x; s_p := x_pz x; s_q := x_qz x; s_vn := vn; s_step := 1; s_is := x_is x |}.
Definition xward_gen (nb : nat) (x : xward) : gen :=
  {| g_bus := nb; g_p := 0; g_vm := x_vm x; g_sc := 1; g_slack := false; g_is := x_is x |}.
(* old = the rule before "fix: replace_xward_by_internal_elements converts the xward impedance to per unit with net.sn_mva":
   z / vn^2 with sn_mva = net.sn_mva; now z * net.sn_mva / vn^2 (:1810-1811); rtf/xtf default to rft/xft, g, b = 0 *)
Definition xward_imped (old : bool) (snet vn : Q) (x : xward) : C02.Model.imped :=
  let f := fun z => if old then qdiv z (qmul vn vn) else qdiv (qmul z snet) (qmul vn vn) in
  C02.Model.Build_imped (f (x_r x)) (f (x_x x)) (f (x_r x)) (f (x_x x)) 0 0 0 0 snet (x_is x).
Definition xward_step (old : bool) (rn : res net) (x : xward) : res net :=
  match rn with
  | Raise e => Raise e
  | Ok n =>
    match vn_of n (x_bus x) with
    | None => Raise "KeyError"
    | Some vn =>
      let nb := new_bus_id n in
      Ok {| sn := sn n; buses := buses n ++ [{| b_id := nb; b_vn := vn; b_is := x_is x |}];
            loads := loads n ++ [xward_load x]; shunts := shunts n ++ [xward_shunt vn x];
            wards := wards n; xwards := xwards n; gens := gens n ++ [xward_gen nb x]; egrids := egrids n;
            imps := imps n ++ [{| m_f := x_bus x; m_t := nb; m_par := xward_imped old (sn n) vn x |}] |}
    end
  end.
Definition replace_xwards_gen (old : bool) (n : net) (sel : list nat) : res net :=
  match pick x_id (xwards n) sel with
  | None => Raise "KeyError"
  | Some hit =>
    match fold_left (xward_step old) hit (Ok n) with
    | Raise e => Raise e
    | Ok m => Ok {| sn := sn m; buses := buses m; loads := loads m; shunts := shunts m; wards := wards m;
                    xwards := drop_sel x_id (xwards m) sel; gens := gens m; egrids := egrids m; imps := imps m |}
    end
  end.
Definition replace_xwards := replace_xwards_gen false.
Definition replace_xwards_old := replace_xwards_gen true.

(* the voltage source behind r + jx of an xward as the power flow sees it: series branch (per unit on net.sn_mva), PV set
   point of the node behind it (VG, PG), and whether it is there at all *)
Record vsrc := { z_r : Q; z_x : Q; z_asym : Q * Q; z_sh : Q * Q * Q * Q; z_tap : Q * Q; v_set : Q; p_set : Q; v_on : bool }.
Definition vsrc_of_branch (b : C02.Model.brow) (vg pg : Q) (on : bool) : vsrc :=
  {| z_r := C02.Model.b_r b; z_x := C02.Model.b_x b; z_asym := (C02.Model.b_ra b, C02.Model.b_xa b);
     z_sh := (C02.Model.b_g b, C02.Model.b_b b, C02.Model.b_ga b, C02.Model.b_ba b);
     z_tap := (C02.Model.b_tap b, C02.Model.b_shift b); v_set := vg; p_set := pg; v_on := on && C02.Model.b_stat b |}.
(* build_branch.py:1034-1045 + build_gen.py:238-256 (PG stays 0 from _init_ppc_gen) *)
Definition vsrc_of_xward (snet basekv : Q) (bis : bool) (x : xward) : vsrc :=
  vsrc_of_branch (C02.Model.xward_branch snet basekv (x_r x) (x_x x) (x_is x && bis)) (x_vm x) 0 (x_is x && bis).
(* build_branch.py:994-1031 + build_gen.py:217-235 (PG = p_mw * scaling, VG = vm_pu); the gen sits at the new bus, which is
   in service iff the xward is *)
Definition vsrc_of_internal (snet : Q) (m : C02.Model.imped) (g : gen) : vsrc :=
  vsrc_of_branch (C02.Model.impedance_branch snet m) (g_vm g) (qmul (g_p g) (g_sc g)) (g_is g).

(* ------------------------------------------------------------------ replace_ext_grid_by_gen *)
(* p_mw = res_ext_grid.p_mw if there is a result row else 0 (:1321-1322) *)
Definition egrid_gen (slack : bool) (p : option Q) (e : egrid) : gen :=
  {| g_bus := e_bus e; g_p := match p with Some v => v | None => 0 end; g_vm := e_vm e; g_sc := 1; g_slack := slack; g_is := e_is e |}.
Definition replace_egrids (n : net) (slack : bool) (resp : nat -> option Q) (sel : list nat) : res net :=
  match pick e_id (egrids n) sel with
  | None => Raise "KeyError"
  | Some hit => Ok {| sn := sn n; buses := buses n; loads := loads n; shunts := shunts n; wards := wards n; xwards := xwards n;
                      gens := gens n ++ map (fun e => egrid_gen slack (resp (e_id e)) e) hit;
                      egrids := drop_sel e_id (egrids n) sel; imps := imps n |}
  end.
(* what an ext_grid / a gen writes into the ppc row of its bus: reference flag (set_reference_buses), VM, VA
   (bus rows start with VA = 0; an ext_grid writes va_degree when calculate_voltage_angles, a gen never writes VA) *)
Record vref := { is_ref : bool; is_pv : bool; vm_set : Q; va_set : Q }.
Definition vref_of_egrid (cva : bool) (bis : bool) (e : egrid) : option vref :=
  if e_is e && bis then Some {| is_ref := true; is_pv := false; vm_set := e_vm e; va_set := if cva then e_va e else 0 |} else None.
Definition vref_of_gen (bis : bool) (g : gen) : option vref :=
  if g_is g && bis then Some {| is_ref := g_slack g; is_pv := negb (g_slack g); vm_set := g_vm g; va_set := 0 |} else None.
(* G23e: the replacement keeps the angle reference *)
Definition G23e (cva : bool) (e : egrid) : bool := negb cva || qeqb (e_va e) 0.

(* ------------------------------------------------------------------ Run wrappers *)
Definition orow (r : row4) : out := OL [oq (pd r); oq (qd r); oq (gs r); oq (bs r)].
Definition oload (l : load) : out := OL [onat (l_bus l); oq (l_p l); oq (l_q l); oq (l_sc l); OB (l_is l)].
Definition oshunt (s : shunt) : out := OL [onat (s_bus s); oq (s_p s); oq (s_q s); oq (s_vn s); oq (s_step s); OB (s_is s)].
Definition ogen (g : gen) : out := OL [onat (g_bus g); oq (g_p g); oq (g_vm g); oq (g_sc g); OB (g_slack g); OB (g_is g)].
Definition obus (b : busr) : out := OL [onat (b_id b); oq (b_vn b); OB (b_is b)].
Definition oimp (m : imp) : out :=
  let p := m_par m in
  OL [onat (m_f m); onat (m_t m); oq (C02.Model.i_rft p); oq (C02.Model.i_xft p); oq (C02.Model.i_rtf p); oq (C02.Model.i_xtf p);
      oq (C02.Model.i_sn p); OB (C02.Model.i_in p)].
Definition tail_from {A} (k : nat) (l : list A) : list A := skipn k l.
Definition lk_of (tab : list (nat * nat)) (b : nat) : nat :=
  match find (fun p => Nat.eqb (fst p) b) tab with Some p => snd p | None => b end.
Definition bk_of (tab : list (nat * Q)) (r : nat) : Q :=
  match find (fun p => Nat.eqb (fst p) r) tab with Some p => snd p | None => 0 end.
Definition ovsrc (v : vsrc) : out := OL [oq (z_r v); oq (z_x v); oq (fst (z_asym v)); oq (snd (z_asym v)); oq (v_set v); oq (p_set v); OB (v_on v)].
Definition ovref (v : option vref) : out :=
  match v with None => ONone | Some v => OL [OB (is_ref v); OB (is_pv v); oq (vm_set v); oq (va_set v)] end.
(* created rows (the new tails of the tables), surviving ids of the replaced table, and the rows PD QD GS BS of the listed ppc rows
   before and after (lookup / BASE_KV tables observed on the real net before and after) *)
Definition run_wards (n : net) (sel : list nat) (lk1 lk2 : list (nat * nat)) (bk1 bk2 : list (nat * Q)) (rows1 rows2 : list nat) : out :=
  match replace_wards n sel with
  | Raise e => OErr e
  | Ok m => OL [ olist oload (tail_from (List.length (loads n)) (loads m)); olist oshunt (tail_from (List.length (shunts n)) (shunts m));
                 olist (fun w => onat (w_id w)) (wards m);
                 olist (fun r => orow (bus_row (lk_of lk1) (bk_of bk1) n r)) rows1;
                 olist (fun r => orow (bus_row (lk_of lk2) (bk_of bk2) m r)) rows2 ]
  end.
Definition run_xwards (n : net) (sel : list nat) (lk1 lk2 : list (nat * nat)) (bk1 bk2 : list (nat * Q)) (rows1 rows2 : list nat) : out :=
  match replace_xwards n sel with
  | Raise e => OErr e
  | Ok m => OL [ olist oload (tail_from (List.length (loads n)) (loads m)); olist oshunt (tail_from (List.length (shunts n)) (shunts m));
                 olist (fun x => onat (x_id x)) (xwards m);
                 olist (fun r => orow (bus_row (lk_of lk1) (bk_of bk1) n r)) rows1;
                 olist (fun r => orow (bus_row (lk_of lk2) (bk_of bk2) m r)) rows2;
                 olist obus (tail_from (List.length (buses n)) (buses m)); olist ogen (tail_from (List.length (gens n)) (gens m));
                 olist oimp (tail_from (List.length (imps n)) (imps m));
                 olist (fun x => if memb (x_id x) sel
                                 then ovsrc (vsrc_of_xward (sn n) (bk_of bk1 (lk_of lk1 (x_bus x))) (bus_is n (x_bus x)) x) else ONone) (xwards n);
                 olist (fun mg => ovsrc (vsrc_of_internal (sn m) (m_par (fst mg)) (snd mg)))
                       (combine (tail_from (List.length (imps n)) (imps m)) (tail_from (List.length (gens n)) (gens m))) ]
  end.
Definition run_egrids (n : net) (slack cva : bool) (resp : list (nat * Q)) (sel : list nat) : out :=
  let rp := fun i => match find (fun p => Nat.eqb (fst p) i) resp with Some p => Some (snd p) | None => None end in
  match replace_egrids n slack rp sel with
  | Raise e => OErr e
  | Ok m => OL [ olist ogen (tail_from (List.length (gens n)) (gens m)); olist (fun e => onat (e_id e)) (egrids m);
                 olist (fun e => if memb (e_id e) sel then ovref (vref_of_egrid cva (bus_is n (e_bus e)) e) else ONone) (egrids n);
                 olist (fun g => ovref (vref_of_gen (bus_is m (g_bus g)) g)) (tail_from (List.length (gens n)) (gens m)) ]
  end.
