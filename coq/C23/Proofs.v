From Coq Require Import ZArith QArith List Bool String Lia Lqa.
From PPV Require Import Base.QN C23.Model.
Import ListNotations.
Open Scope Q_scope.

(* the label-based conversion reproduces the series impedance of the line *)
Lemma label_conversion_preserves tab sn idx l m :
  by_label tab idx = Some l -> line_to_imp tab sn idx = Ok m ->
  ~ vn l == 0 -> ~ sn == 0 -> ~ par l == 0 ->
  z_imp_r m (vn l) == z_line_r l /\ z_imp_x m (vn l) == z_line_x l.
Proof.
  intros Hl. unfold line_to_imp. rewrite Hl. intros E. inversion E; subst m; clear E.
  intros Hv Hs Hp. unfold z_imp_r, z_imp_x, z_line_r, z_line_x. simpl. qnorm. split; field; repeat split; assumption.
Qed.

(* labels = positions when the index is 0..n-1 in order *)
Lemma ident_label_pos tab : forall k i l, ident_from k tab = true -> by_label tab i = Some l ->
  (k <= i < k + Z.of_nat (List.length tab))%Z /\ nth_error tab (Z.to_nat (i - k)) = Some l.
Proof.
  induction tab as [|a t IH]; intros k i l H Hl; simpl in *; [discriminate|].
  apply andb_true_iff in H. destruct H as [H1 H2]. apply Z.eqb_eq in H1.
  destruct (Z.eqb (lid a) i) eqn:E.
  - apply Z.eqb_eq in E. inversion Hl; subst. split; [lia|]. replace (lid l - lid l)%Z with 0%Z by lia. reflexivity.
  - apply Z.eqb_neq in E. destruct (IH (k + 1)%Z i l H2 Hl) as [B N]. split; [lia|].
    replace (Z.to_nat (i - k)) with (S (Z.to_nat (i - (k + 1)))) by lia. exact N.
Qed.
Lemma G23a_pos_eq_label tab i l : G23a tab = true -> by_label tab i = Some l -> by_pos tab i = Some l.
Proof.
  intros G Hl. destruct (ident_label_pos tab 0 i l G Hl) as [B N]. unfold by_pos.
  assert (H1 : (0 <=? i)%Z = true) by (apply Z.leb_le; lia).
  assert (H2 : (i <? Z.of_nat (List.length tab))%Z = true) by (apply Z.ltb_lt; lia).
  rewrite H1, H2. simpl. replace (i - 0)%Z with i in N by lia. exact N.
Qed.
Lemma G23a_impl_is_label tab sn i : G23a tab = true -> line_to_imp_old tab sn i = line_to_imp tab sn i.
Proof.
  intros G. unfold line_to_imp_old, line_to_imp. destruct (by_label tab i) as [l|] eqn:Hl; [|reflexivity].
  rewrite (G23a_pos_eq_label tab i l G Hl). reflexivity.
Qed.
Lemma line_to_imp_partial tab sn idx l m :
  G23a tab = true -> by_label tab idx = Some l -> line_to_imp_old tab sn idx = Ok m ->
  ~ vn l == 0 -> ~ sn == 0 -> ~ par l == 0 ->
  z_imp_r m (vn l) == z_line_r l /\ z_imp_x m (vn l) == z_line_x l.
Proof. intros G Hl E. rewrite (G23a_impl_is_label tab sn idx G) in E. eapply label_conversion_preserves; eauto. Qed.

(* line index [1, 0] with different lengths: the impedance of line 1 is computed with the length of line 0 *)
Definition w_tab : list line :=
  [{| lid := 1; r_km := 1 # 4; x_km := 1 # 8; c_km := 0; g_km := 0; len := 2; par := 1; vn := 20 |};
   {| lid := 0; r_km := 1 # 4; x_km := 1 # 8; c_km := 0; g_km := 0; len := 1 # 2; par := 1; vn := 20 |}].
Lemma line_to_imp_refuted :
  exists tab sn idx l m, by_label tab idx = Some l /\ line_to_imp_old tab sn idx = Ok m /\ ~ z_imp_r m (vn l) == z_line_r l.
Proof.
  exists w_tab, 1, 1%Z. eexists. eexists. split; [reflexivity|]. split; [reflexivity|]. vm_compute. discriminate.
Qed.
Lemma line_to_imp_index_error : exists tab sn idx, by_label tab idx <> None /\ line_to_imp_old tab sn idx = Err "IndexError".
Proof.
  exists [{| lid := 5; r_km := 1 # 4; x_km := 1 # 8; c_km := 0; g_km := 0; len := 2; par := 1; vn := 20 |}], 1, 5%Z.
  split; [discriminate | reflexivity].
Qed.

(* merge_parallel_line keeps the series impedance and the total shunt of the parallel systems *)
Lemma merge_parallel_preserves l :
  ~ par l == 0 -> ~ r_km l * r_km l + x_km l * x_km l == 0 ->
  z_line_r (merge_parallel l) == z_line_r l /\ z_line_x (merge_parallel l) == z_line_x l /\
  c_km (merge_parallel l) * par (merge_parallel l) == c_km l * par l /\ g_km (merge_parallel l) * par (merge_parallel l) == g_km l * par l.
Proof.
  intros Hp Hd. unfold z_line_r, z_line_x, merge_parallel. simpl. qnorm.
  assert (Hr : ~ r_km l == 0 \/ ~ x_km l == 0).
  { destruct (Qeq_dec (r_km l) 0) as [E|E]; [right|left; exact E]. intros X. apply Hd. rewrite E, X. reflexivity. }
  assert (Hpd : ~ par l * r_km l * (par l * r_km l) + - (par l * x_km l) * - (par l * x_km l) == 0).
  { intros X. assert (Y : (par l * par l) * (r_km l * r_km l + x_km l * x_km l) == 0) by (rewrite <- X; ring).
    apply Qmult_integral in Y. destruct Y as [Y|Y]; [|apply Hd, Y].
    apply Qmult_integral in Y. destruct Y; apply Hp; assumption. }
  repeat split; try (field; repeat split; assumption); try ring.
Qed.

(* impedance -> line -> same series impedance (replace_impedance_by_line) *)
Lemma imp_to_line_preserves m v i :
  ~ isn m == 0 -> z_line_r (imp_to_line m v i) == z_imp_r m v /\ z_line_x (imp_to_line m v i) == z_imp_x m v.
Proof. intros H. unfold z_line_r, z_line_x, z_imp_r, z_imp_x, imp_to_line. simpl. qnorm. split; field; exact H. Qed.
