(* C23/Fuse.v — fuse_buses(net, b1, b2, drop=True) on the topology data of C07.Model.net
     pandapower/toolbox/grid_modification.py:614-645
       b2 := set(b2) - {b1}; every bus column of element_bus_tuples() (incl. switch.bus of all switches) and switch.element of
       the bus-bus switches is rerouted from b2 to b1; the buses b2 are dropped (drop_buses(drop_elements=False) :700-716);
       drop_inner_branches(buses=[b1]) :906-957 drops every line / impedance / trafo / trafo3w / dcline whose bus columns all
       equal b1 and every bus-bus switch b1-b1 (drop_lines / drop_trafos also drop the switches at the dropped branches).
   Executable definitions only. *)
From Coq Require Import List Bool Arith.
From PPV Require Import Base.Out C07.Model.
Import ListNotations.
Local Open Scope nat_scope.

Definition memn (x : nat) (l : list nat) : bool := existsb (Nat.eqb x) l.
Definition in_b2 (b1 : nat) (b2s : list nat) (x : nat) : bool := memn x b2s && negb (Nat.eqb x b1).
Definition sb (b1 : nat) (b2s : list nat) (x : nat) : nat := if in_b2 b1 b2s x then b1 else x.

Definition re2 (s : nat -> nat) (r : br2) : br2 := {| r_id := r_id r; r_f := s (r_f r); r_t := s (r_t r); r_is := r_is r |}.
Definition re3 (s : nat -> nat) (t : br3) : br3 :=
  {| t_id := t_id t; t_hv := s (t_hv t); t_mv := s (t_mv t); t_lv := s (t_lv t); t_is := t_is t |}.
Definition resw (s : nat -> nat) (w : switch) : switch :=
  {| s_bus := s (s_bus w); s_el := if swet_eqb (s_et w) ETb then s (s_el w) else s_el w; s_et := s_et w;
     s_closed := s_closed w; s_zpos := s_zpos w |}.
Definition reinj (s : nat -> nat) (i : inj) : inj := {| i_bus := s (i_bus i); i_is := i_is i; i_pv := i_pv i; i_slack := i_slack i |}.
Definition rexw (s : nat -> nat) (x : xward) : xward := {| x_bus := s (x_bus x); x_is := x_is x |}.

Definition inner2 (b1 : nat) (r : br2) : bool := Nat.eqb (r_f r) b1 && Nat.eqb (r_t r) b1.
Definition inner3 (b1 : nat) (t : br3) : bool := Nat.eqb (t_hv t) b1 && Nat.eqb (t_mv t) b1 && Nat.eqb (t_lv t) b1.
Definition inner_sw (b1 : nat) (w : switch) : bool := Nat.eqb (s_bus w) b1 && Nat.eqb (s_el w) b1 && swet_eqb (s_et w) ETb.

Definition fuse_buses (n : net) (b1 : nat) (b2s : list nat) : net :=
  let s := sb b1 b2s in
  let ls := map (re2 s) (lines n) in let ts := map (re2 s) (trafos n) in let t3 := map (re3 s) (trafo3ws n) in
  let dl := map r_id (filter (inner2 b1) ls) in            (* dropped lines *)
  let dt := map r_id (filter (inner2 b1) ts) in            (* dropped trafos *)
  let d3 := map t_id (filter (inner3 b1) t3) in            (* dropped trafo3ws *)
  let at_dropped := fun w : switch =>
      match s_et w with ETl => memn (s_el w) dl | ETt => memn (s_el w) dt | ETt3 => memn (s_el w) d3 | ETb => false end in
  {| buses := filter (fun r => negb (in_b2 b1 b2s (b_id r))) (buses n);
     lines := filter (fun r => negb (inner2 b1 r)) ls;
     trafos := filter (fun r => negb (inner2 b1 r)) ts;
     trafo3ws := filter (fun t => negb (inner3 b1 t)) t3;
     imps := filter (fun r => negb (inner2 b1 r)) (map (re2 s) (imps n));
     dclines := filter (fun r => negb (inner2 b1 r)) (map (re2 s) (dclines n));
     xwards := map (rexw s) (xwards n);
     switches := filter (fun w => negb (inner_sw b1 w) && negb (at_dropped w)) (map (resw s) (switches n));
     injs := map (reinj s) (injs n) |}.

(* G23f: b1 and b2 are joined by a closed bus-bus switch without impedance between two buses in service
   (a switch that the power flow fuses, build_bus.py:61-69) *)
Definition joins (b1 b2 : nat) (w : switch) : bool :=
  (Nat.eqb (s_bus w) b1 && Nat.eqb (s_el w) b2) || (Nat.eqb (s_bus w) b2 && Nat.eqb (s_el w) b1).
Definition G23f (n : net) (b1 b2 : nat) : bool := negb (Nat.eqb b1 b2) && existsb (fun w => fuses n w && joins b1 b2 w) (switches n).

(* ------------------------------------------------------------------ Run wrapper *)
Definition obr2 (r : br2) : out := OL [onat (r_id r); onat (r_f r); onat (r_t r); OB (r_is r)].
Definition oet (e : swet) : out := onat (match e with ETb => 0 | ETl => 1 | ETt => 2 | ETt3 => 3 end).
Definition onet (n : net) : out :=
  OL [ olist (fun r => OL [onat (b_id r); OB (b_is r)]) (buses n); olist obr2 (lines n); olist obr2 (trafos n);
       olist (fun t => OL [onat (t_id t); onat (t_hv t); onat (t_mv t); onat (t_lv t); OB (t_is t)]) (trafo3ws n);
       olist obr2 (imps n); olist obr2 (dclines n); olist (fun x => OL [onat (x_bus x); OB (x_is x)]) (xwards n);
       olist (fun w => OL [onat (s_bus w); onat (s_el w); oet (s_et w); OB (s_closed w); OB (s_zpos w)]) (switches n);
       olist (fun i => OL [onat (i_bus i); OB (i_is i); OB (i_pv i); OB (i_slack i)]) (injs n) ].
(* [fused net; root bus per bus before; root bus per bus after; G23f] *)
Definition run_fuse (n : net) (b1 b2 : nat) : out :=
  let m := fuse_buses n b1 [b2] in
  let rp := rep n in let rq := rep m in
  OL [ onet m; olist (fun r => OL [onat (b_id r); onat (rp (b_id r))]) (buses n);
       olist (fun r => OL [onat (b_id r); onat (rq (b_id r))]) (buses m); OB (G23f n b1 b2) ].
