(* C33 — VDE AR-N-4130 areas (PQVArea4130V1-V3): the QV limits are numpy.interp over the tabulated (vm, q) points, i.e. the
   piecewise-linear functions of C32.Model.interp; clamp-in-area for them. *)
From Coq Require Import ZArith QArith List Bool Lia Lqa.
From PPV Require Import Base.QN C33.Model C33.Proofs.
From PPV Require C32.Model C32.Proofs.
Import ListNotations.
Open Scope Q_scope.

Notation sorted := C32.Model.sorted.
Notation consec := C32.Model.consec.
Notation incr := C32.Model.incr.

(* ---- the limit curves are the piecewise-linear interpolants of their tables *)
Lemma interp1_through l p : sorted l -> In p l -> interp1 (fst p) l == snd p.
Proof.
  intros Hs Hp. destruct (C32.Proofs.interp_through_points l p Hs Hp) as (v & E & V). unfold interp1, C32.Model.pt in *. rewrite E. exact V.
Qed.
Lemma interp1_between l p q x : sorted l -> consec p q l -> fst p <= x -> x <= fst q ->
  (snd p <= interp1 x l /\ interp1 x l <= snd q) \/ (snd q <= interp1 x l /\ interp1 x l <= snd p).
Proof.
  intros Hs Hc X1 X2. destruct (C32.Proofs.interp_within_neighbours l p q x Hs Hc X1 X2) as (v & E & B).
  unfold interp1, C32.Model.pt in *. rewrite E. exact B.
Qed.
Lemma interp1_left (a : C32.Model.pt) (l : list C32.Model.pt) x : x <= fst a -> interp1 x (a :: l) = snd a.
Proof. intros H. pose proof (C32.Proofs.interp_left_clamp l a x H) as E. unfold interp1, C32.Model.pt in *. rewrite E. reflexivity. Qed.
Lemma interp1_right (a : C32.Model.pt) (l : list C32.Model.pt) x : sorted (a :: l) -> (forall q, In q (a :: l) -> fst q <= x) -> interp1 x (a :: l) == snd (last l a).
Proof.
  intros Hs Hx. destruct (C32.Proofs.interp_right_clamp l a x Hx Hs) as (v & E & V). unfold interp1, C32.Model.pt in *. rewrite E. exact V.
Qed.

(* ---- a limit curve never leaves the range of its table *)
Lemma go_bounds m M (l : list C32.Model.pt) : forall (p : C32.Model.pt) x, incr p l -> fst p <= x -> (forall r, In r (p :: l) -> m <= snd r /\ snd r <= M) ->
  m <= C32.Model.interp_go x p l /\ C32.Model.interp_go x p l <= M.
Proof.
  induction l as [|q t IH]; intros p x Hi Hx Hb.
  - simpl. apply Hb. left. reflexivity.
  - destruct Hi as [H1 H2]. simpl. destruct (qltb x (fst q)) eqn:E.
    + apply qltb_lt in E.
      assert (B : C32.Model.between (snd p) (snd q) (C32.Model.lin p q x)) by (apply C32.Proofs.lin_between; lra).
      destruct (Hb p (or_introl eq_refl)) as [P1 P2]. destruct (Hb q (or_intror (or_introl eq_refl))) as [Q1 Q2].
      destruct B as [[B1 B2]|[B1 B2]]; split; lra.
    + apply qltb_ge in E. apply IH; [exact H2 | exact E|]. intros r Hr. apply Hb. right. exact Hr.
Qed.
Lemma interp1_bounds m M (a : C32.Model.pt) (l : list C32.Model.pt) x : sorted (a :: l) -> (forall r, In r (a :: l) -> m <= snd r /\ snd r <= M) ->
  m <= interp1 x (a :: l) /\ interp1 x (a :: l) <= M.
Proof.
  intros Hs Hb. unfold interp1. simpl. destruct (qleb x (fst a)) eqn:E.
  - apply Hb. left. reflexivity.
  - apply go_bounds; [exact Hs | | exact Hb].
    destruct (Qlt_le_dec (fst a) x) as [L|L]; [lra|]. apply qleb_le in L. congruence.
Qed.

(* ---- clamp-in-area for the 4130 variants *)
Definition pq_consts_ok (a : pq4120) : Prop :=
  lf_ind a <= 0 /\ a_min_q a <= k_ind a + (p1 a - p0 a) * lf_ind a /\ k_cap a + (p1 a - p0 a) * lf_cap a <= a_max_q a.

(* whatever _saturate returns when only the area applies: p unchanged, q inside the merged flexibility; when the PQ interval and
   the two interpolated QV limits overlap, q lies inside the PQ interval AND between the two limit curves at the element's voltage *)
Theorem area4130_clamp_in_area a lo_pts hi_pts r q_prio rt p q vm p' q' :
  pq_consts_ok a ->
  saturate (A4130 a lo_pts hi_pts r) None q_prio rt p q vm = Res p' q' ->
  p' = p /\
  exists lo hi, merge r (pq4120_flex a p) (qv4130_flex lo_pts hi_pts vm) = Some (lo, hi) /\ lo <= q' /\ q' <= hi /\
    (qmax (fst (pq4120_flex a p)) (interp1 vm lo_pts) <= qmin (snd (pq4120_flex a p)) (interp1 vm hi_pts) ->
     fst (pq4120_flex a p) <= q' /\ q' <= snd (pq4120_flex a p) /\ interp1 vm lo_pts <= q' /\ q' <= interp1 vm hi_pts).
Proof.
  intros Hok H.
  destruct (area_result_in_flex (A4130 a lo_pts hi_pts r) q_prio rt p q vm p' q') as (Hp & lo & hi & F & L1 & L2);
    [discriminate | exact Hok | exact H|].
  split; [exact Hp|]. exists lo, hi. cbn [area_flex] in F. split; [exact F|]. split; [exact L1|]. split; [exact L2|].
  intros Ov. destruct (merge_spec _ _ _ _ _ F) as [_ M]. specialize (M Ov). destruct M as [-> ->].
  cbn [qv4130_flex fst snd] in *.
  destruct (qmax_cases (fst (pq4120_flex a p)) (interp1 vm lo_pts)) as [[A1 A2]|[A1 A2]]; rewrite A2 in L1;
  destruct (qmin_cases (snd (pq4120_flex a p)) (interp1 vm hi_pts)) as [[B1 B2]|[B1 B2]]; rewrite B2 in L2;
  repeat split; lra.
Qed.

(* the area raises (ValueError) exactly when the flexibility is empty and raise_merge_overlap is set; otherwise the result is the
   clamped q: in particular a returned q is never outside both limit curves' range of the table *)
Theorem area4130_q_within_table_range a lo_pts hi_pts r q_prio rt p q vm p' q' m M b0 bl c0 cl :
  pq_consts_ok a -> lo_pts = b0 :: bl -> hi_pts = c0 :: cl -> sorted lo_pts -> sorted hi_pts ->
  (forall x, In x lo_pts -> m <= snd x) -> (forall x, In x hi_pts -> snd x <= M) ->
  qmax (fst (pq4120_flex a p)) (interp1 vm lo_pts) <= qmin (snd (pq4120_flex a p)) (interp1 vm hi_pts) ->
  saturate (A4130 a lo_pts hi_pts r) None q_prio rt p q vm = Res p' q' ->
  m <= q' /\ q' <= M.
Proof.
  intros Hok -> -> S1 S2 Hm HM Ov H.
  destruct (area4130_clamp_in_area _ _ _ _ _ _ _ _ _ _ _ Hok H) as (_ & lo & hi & _ & _ & _ & K).
  destruct (K Ov) as (_ & _ & K3 & K4).
  assert (B1 : m <= interp1 vm (b0 :: bl)).
  { (* lower curve stays above the smallest tabulated value *)
    assert (X : forall M', (forall r0, In r0 (b0 :: bl) -> snd r0 <= M') -> m <= interp1 vm (b0 :: bl)).
    { intros M' HM'. apply (interp1_bounds m M' b0 bl vm S1). intros r0 Hr. split; [apply Hm | apply HM']; exact Hr. }
    (* an upper bound of the finite table always exists *)
    assert (U : exists M', forall r0, In r0 (b0 :: bl) -> snd r0 <= M').
    { clear. induction (b0 :: bl) as [|x l [M' IH]]; [exists 0; intros ? []|].
      exists (qmax M' (snd x)). intros r0 [E0|Hr]; [subst r0|].
      - destruct (qmax_cases M' (snd x)) as [[? ->]|[? ->]]; lra.
      - specialize (IH r0 Hr). destruct (qmax_cases M' (snd x)) as [[? ->]|[? ->]]; lra. }
    destruct U as (M' & HM'). exact (X M' HM'). }
  assert (B2 : interp1 vm (c0 :: cl) <= M).
  { assert (L : exists m', forall r0, In r0 (c0 :: cl) -> m' <= snd r0).
    { clear. induction (c0 :: cl) as [|x l [m' IH]]; [exists 0; intros ? []|].
      exists (qmin m' (snd x)). intros r0 [E0|Hr]; [subst r0|].
      - destruct (qmin_cases m' (snd x)) as [[? ->]|[? ->]]; lra.
      - specialize (IH r0 Hr). destruct (qmin_cases m' (snd x)) as [[? ->]|[? ->]]; lra. }
    destruct L as (m' & Hm'). apply (interp1_bounds m' M c0 cl vm S2). intros r0 Hr. split; [apply Hm' | apply HM]; exact Hr. }
  split; lra.
Qed.
