(* C33 — faithful model of the DER controller saturation
     pandapower/control/controller/DERController/der_control.py
        _determine_target_powers (:155-183), _step_p/_step_q (:185-196), _saturate (:198-212), _saturate_sn_mva_step (:214-238),
        control_step (:146-153)
     pandapower/control/controller/DERController/PQVAreas.py
        BaseArea.in_area (:30-32), BasePQVArea.in_area/q_flexibility (:45-79), PQAreaSTATCOM (:176-195),
        PQArea4120 (:201-243), QVArea4120 (:246-280)
   One controlled element (the impl is vectorised element-wise).  sqrt is an oracle input; polygon areas (shapely) are
   oracle triples (in_area, min_q, max_q); the Q model is an oracle value.  NaN saturate_sn_mva = None.
   Executable definitions only. *)
From Coq Require Import ZArith QArith List Bool String.
From PPV Require Import Base.QN Base.Out.
From PPV Require C32.Model.
Import ListNotations.
Open Scope Q_scope.

(* np.clip / np.minimum(np.maximum(q, lo), hi) *)
Definition clamp (x lo hi : Q) : Q := qmin (qmax x lo) hi.
Definition sign (x : Q) : Q := if qltb x 0 then -(1) else if qltb 0 x then 1 else 0.

(* ---------------------------------------------------------------- areas *)
(* PQArea4120: constants as the object holds them (floats); k_low = -0.05, k_ind = -0.1, k_cap = 0.1 *)
Record pq4120 := { p0 : Q; p1 : Q; a_min_q : Q; a_max_q : Q; q_under : Q; lf_ind : Q; lf_cap : Q;
                   k_low : Q; k_ind : Q; k_cap : Q }.
(* q_flexibility (:232-243): default, then p < p1, then p < p0 overrides *)
Definition pq4120_flex (a : pq4120) (p : Q) : Q * Q :=
  if qltb p (p0 a) then (k_low a, q_under a)
  else if qltb p (p1 a) then (qadd (k_ind a) (qmul (qsub p (p0 a)) (lf_ind a)), qadd (k_cap a) (qmul (qsub p (p0 a)) (lf_cap a)))
  else (a_min_q a, a_max_q a).
(* in_area (:220-230); note the sign of the inductive edge: -0.1 - (p-p0)*linear_factor_ind *)
Definition pq4120_in (a : pq4120) (p q : Q) : bool :=
  let r1 := qltb p (p0 a) && (qltb q (k_low a) || qltb (q_under a) q) in
  let r2 := qltb (p1 a) p && (qltb q (a_min_q a) || qltb (a_max_q a) q) in
  let r3 := qltb q (qsub (k_ind a) (qmul (qsub p (p0 a)) (lf_ind a)))
            || qltb (qadd (k_cap a) (qmul (qsub p (p0 a)) (lf_cap a))) q in
  negb (r1 || r2 || r3).

(* QVArea4120: b1 = min_vm + delta, b2 = max_vm - delta as computed by the impl *)
Record qv4120 := { v_min_q : Q; v_max_q : Q; min_vm : Q; max_vm : Q; b1 : Q; b2 : Q; lf : Q }.
(* q_flexibility (:260-280): sequential masked assignments *)
Definition qv4120_flex (v : qv4120) (vm : Q) : Q * Q :=
  let r0 := (v_min_q v, v_min_q v) in
  let r1 := if qltb vm (min_vm v) then (v_max_q v, v_max_q v) else r0 in
  let r2 := if qltb (min_vm v) vm && qleb vm (b1 v)
            then (qsub (v_max_q v) (qmul (lf v) (qsub vm (min_vm v))), v_max_q v) else r1 in
  let r3 := if qltb (b1 v) vm && qleb vm (b2 v) then (v_min_q v, v_max_q v) else r2 in
  let r4 := if qltb (b2 v) vm && qleb vm (max_vm v)
            then (v_min_q v, qadd (v_min_q v) (qmul (lf v) (qsub (max_vm v) vm))) else r3 in
  r4.

(* QVArea4130 (PQVAreas.py:333-381, VDE AR-N-4130 variants 1-3, 380 kV / 220 kV): both q limits are piecewise-linear functions
   of the voltage, q_flexibility = (np.interp(vm, min_vm_points_pu, min_q_points_pu), np.interp(vm, max_vm_points_pu, max_q_points_pu)).
   np.interp is C32.Model.interp (numpy raises on empty point arrays; the constructor never builds one) *)
Definition interp1 (x : Q) (l : list C32.Model.pt) : Q := match C32.Model.interp x l with Some v => v | None => 0 end.
Definition qv4130_flex (lo_pts hi_pts : list C32.Model.pt) (vm : Q) : Q * Q := (interp1 vm lo_pts, interp1 vm hi_pts).

Definition within (iv : Q * Q) (q : Q) : bool := qleb (fst iv) q && qleb q (snd iv).

(* BasePQVArea.q_flexibility (:48-79): None = ValueError *)
Definition merge (raise_overlap : bool) (pq qv : Q * Q) : option (Q * Q) :=
  if qltb (snd pq) (fst pq) then None
  else if qltb (snd qv) (fst qv) then None
  else
    let lo := qmax (fst pq) (fst qv) in
    let hi := qmin (snd pq) (snd qv) in
    if qltb hi lo then
      (if raise_overlap then None else let m := qdiv (qadd lo hi) 2 in Some (m, m))
    else Some (lo, hi).

Inductive area :=
| ANone
| A4120 (a : pq4120) (v : qv4120) (raise_overlap : bool)      (* PQVArea4120V1/V2/V3 *)
| AStatcom (lo hi : Q)                                        (* PQAreaSTATCOM *)
| AOracle (inside : bool) (lo hi : Q)                         (* polygon areas: shapely results for this point *)
| A4130 (a : pq4120) (lo_pts hi_pts : list C32.Model.pt) (raise_overlap : bool).   (* PQVArea4130V1/V2/V3: PQArea4130 + QVArea4130 *)

Definition area_in (ar : area) (p q vm : Q) : bool :=
  match ar with
  | ANone => true
  | A4120 a v _ => pq4120_in a p q && within (qv4120_flex v vm) q
  | AStatcom lo hi => qleb lo q && qleb q hi
  | AOracle b _ _ => b
  | A4130 a lo_pts hi_pts _ => pq4120_in a p q && within (qv4130_flex lo_pts hi_pts vm) q   (* BaseArea.in_area on the QV part *)
  end.
Definition area_flex (ar : area) (p vm : Q) : option (Q * Q) :=
  match ar with
  | ANone => None
  | A4120 a v r => merge r (pq4120_flex a p) (qv4120_flex v vm)
  | AStatcom lo hi => Some (lo, hi)
  | AOracle _ lo hi => Some (lo, hi)
  | A4130 a lo_pts hi_pts r => merge r (pq4120_flex a p) (qv4130_flex lo_pts hi_pts vm)
  end.

(* ---------------------------------------------------------------- _saturate *)
Inductive result := Res (p q : Q) | ErrValue.

(* _saturate_sn_mva_step; s = saturate_sn_mva / sn_mva; rt = the value np.sqrt returned for this element *)
Definition saturate_sn (s : option Q) (q_prio : bool) (rt : Q) (p q : Q) : Q * Q :=
  match s with
  | None => (p, q)                                   (* NaN: p**2+q**2 > nan is False *)
  | Some s =>
      if qltb (qmul s s) (qadd (qmul p p) (qmul q q)) then
        if q_prio then let qc := clamp q (qopp s) s in (rt, qc)
        else let pc := clamp p 0 s in (pc, qmul rt (sign q))
      else (p, q)
  end.
(* the argument of np.sqrt, for the oracle hypothesis *)
Definition sqrt_arg (s : Q) (q_prio : bool) (p q : Q) : Q :=
  if q_prio then let qc := clamp q (qopp s) s in qsub (qmul s s) (qmul qc qc)
  else let pc := clamp p 0 s in qsub (qmul s s) (qmul pc pc).

(* the area part of _saturate (:201-207): the reactive power after the area clamp; None = q_flexibility raised *)
Definition area_step (ar : area) (p q vm : Q) : option Q :=
  match ar with
  | ANone => Some q
  | _ => if area_in ar p q vm then Some q
         else match area_flex ar p vm with
              | None => None
              | Some (lo, hi) => Some (clamp q lo hi)
              end
  end.
Definition saturate (ar : area) (s : option Q) (q_prio : bool) (rt : Q) (p q vm : Q) : result :=
  match area_step ar p q vm with
  | None => ErrValue
  | Some q1 => let (p2, q2) := saturate_sn s q_prio rt p q1 in Res p2 q2
  end.

(* _determine_target_powers for one element.  q_raw = q_model.step(...) when a Q model is given (oracle), else None.
   Returns the damped targets (what control_step writes to the net) *)
Definition pu_point (sn p_series q_cur : Q) (q_raw : option Q) : Q * Q :=
  let p_series := if qltb p_series 0 then 0 else p_series in
  (qdiv p_series sn, match q_raw with Some x => x | None => qdiv q_cur sn end).
(* alias: no p_series_mw attribute, so p_series_mw IS self.p_mw and "p_series_mw[p_series_mw < 0] = 0." (:162-164)
   also zeroes the current value used by the damping formula *)
Definition cur_p (alias : bool) (p_cur : Q) : Q := if alias && qltb p_cur 0 then 0 else p_cur.
Definition target (ar : area) (sat_mva : option Q) (q_prio : bool) (rt : Q) (damping sn : Q) (alias : bool)
                  (p_cur q_cur p_series : Q) (q_raw : option Q) (vm : Q) : result :=
  let p_cur := cur_p alias p_cur in
  let (p_pu, q_pu) := pu_point sn p_series q_cur q_raw in
  let s := match sat_mva with Some m => Some (qdiv m sn) | None => None end in
  match saturate ar s q_prio rt p_pu q_pu vm with
  | ErrValue => ErrValue
  | Res p2 q2 =>
      let tp := qmul p2 sn in
      let tq := qmul q2 sn in
      Res (qadd p_cur (qdiv (qsub tp p_cur) damping)) (qadd q_cur (qdiv (qsub tq q_cur) damping))
  end.

(* ---------------------------------------------------------------- spec side *)
Definition in_disc (s p q : Q) : Prop := p * p + q * q <= s * s.
Definition in_iv (lo hi q : Q) : Prop := lo <= q /\ q <= hi.
(* damped update (:182-183) *)
Definition damp (d cur tgt : Q) : Q := qadd cur (qdiv (qsub tgt cur) d).

(* ---------------------------------------------------------------- output *)
Definition oresult (r : result) : out :=
  match r with Res p q => OL [oq p; oq q] | ErrValue => OErr "ValueError" end.
Definition run_target (ar : area) (sat_mva : option Q) (q_prio : bool) (rt : Q) (damping sn : Q) (alias : bool)
                      (p_cur q_cur p_series : Q) (q_raw : option Q) (vm : Q) : out :=
  OL [ oresult (target ar sat_mva q_prio rt damping sn alias p_cur q_cur p_series q_raw vm);
       OB (let p_pu := qdiv (if qltb p_series 0 then 0 else p_series) sn in
           let q_pu := match q_raw with Some x => x | None => qdiv q_cur sn end in
           area_in ar p_pu q_pu vm);
       match area_flex ar (qdiv (if qltb p_series 0 then 0 else p_series) sn) vm with
       | Some (lo, hi) => OL [oq lo; oq hi] | None => ONone end ].
