From Coq Require Import ZArith QArith List Bool Lia Lqa.
From PPV Require Import Base.QN C33.Model.
Import ListNotations.
Open Scope Q_scope.

Lemma qmax_cases x y : (x < y /\ qmax x y = y) \/ (y <= x /\ qmax x y = x).
Proof.
  unfold qmax. destruct (qltb x y) eqn:E.
  - left. split; [apply qltb_lt; exact E | reflexivity].
  - right. split; [apply qltb_ge; exact E | reflexivity].
Qed.
Lemma qmin_cases x y : (y < x /\ qmin x y = y) \/ (x <= y /\ qmin x y = x).
Proof.
  unfold qmin. destruct (qltb y x) eqn:E.
  - left. split; [apply qltb_lt; exact E | reflexivity].
  - right. split; [apply qltb_ge; exact E | reflexivity].
Qed.

(* clamp_in_area: np.minimum(np.maximum(q, lo), hi) lies in [lo, hi] whenever lo <= hi *)
Lemma clamp_in x lo hi : lo <= hi -> lo <= clamp x lo hi <= hi.
Proof.
  intros H. unfold clamp.
  destruct (qmax_cases x lo) as [[A EA]|[A EA]]; rewrite EA;
    [destruct (qmin_cases lo hi) as [[B EB]|[B EB]] | destruct (qmin_cases x hi) as [[B EB]|[B EB]]]; rewrite EB; split; lra.
Qed.
Lemma clamp_id x lo hi : lo <= x -> x <= hi -> clamp x lo hi = x.
Proof.
  intros H1 H2. unfold clamp.
  destruct (qmax_cases x lo) as [[A EA]|[A EA]]; rewrite EA; [lra|].
  destruct (qmin_cases x hi) as [[B EB]|[B EB]]; rewrite EB; [lra | reflexivity].
Qed.
(* when the interval is empty the result is hi (so it is NOT >= lo) *)
Lemma clamp_empty x lo hi : hi < lo -> clamp x lo hi = hi.
Proof.
  intros H. unfold clamp.
  destruct (qmax_cases x lo) as [[A EA]|[A EA]]; rewrite EA;
    [destruct (qmin_cases lo hi) as [[B EB]|[B EB]] | destruct (qmin_cases x hi) as [[B EB]|[B EB]]]; rewrite EB; try reflexivity; lra.
Qed.

Lemma sign_sq x : sign x * sign x <= 1 /\ 0 <= sign x * sign x.
Proof. unfold sign. destruct (qltb x 0); [split; vm_compute; discriminate|]. destruct (qltb 0 x); split; vm_compute; discriminate. Qed.

(* ---------------------------------------------------------------- apparent power saturation *)
Lemma sqrt_arg_nonneg s q_prio p q : 0 <= s -> 0 <= sqrt_arg s q_prio p q.
Proof.
  intros Hs. unfold sqrt_arg. destruct q_prio; qnorm.
  - pose proof (qopp_correct s) as Eo. set (ns := qopp s) in *.
    assert (H : ns <= s) by lra. destruct (clamp_in q ns s H) as [A B].
    set (c := clamp q ns s) in *. nra.
  - destruct (clamp_in p 0 s Hs) as [A B]. set (c := clamp p 0 s) in *. nra.
Qed.

Lemma saturate_sn_disc s q_prio rt p q :
  0 <= s -> rt * rt == sqrt_arg s q_prio p q ->
  in_disc s (fst (saturate_sn (Some s) q_prio rt p q)) (snd (saturate_sn (Some s) q_prio rt p q)).
Proof.
  intros Hs Hr. unfold saturate_sn, in_disc.
  destruct (qltb (qmul s s) (qadd (qmul p p) (qmul q q))) eqn:E.
  - unfold sqrt_arg in Hr. destruct q_prio; cbn [fst snd]; qnorm.
    + set (c := clamp q (qopp s) s) in *. lra.
    + pose proof (sign_sq q) as [S1 S2]. set (c := clamp p 0 s) in *. set (g := sign q) in *.
      assert (0 <= rt * rt) by nra. nra.
  - apply qltb_ge in E. qnorm. cbn [fst snd]. exact E.
Qed.

(* ---------------------------------------------------------------- areas *)
Lemma within_iff iv q : within iv q = true <-> fst iv <= q /\ q <= snd iv.
Proof. unfold within. rewrite andb_true_iff, !qleb_le. tauto. Qed.

(* PQArea4120: a point that in_area accepts lies inside the interval q_flexibility reports, provided the object's
   constants are consistent (checked on the real objects by the harness) *)
Lemma pq4120_in_sound a p q :
  lf_ind a <= 0 ->
  a_min_q a <= k_ind a + (p1 a - p0 a) * lf_ind a ->
  k_cap a + (p1 a - p0 a) * lf_cap a <= a_max_q a ->
  pq4120_in a p q = true -> within (pq4120_flex a p) q = true.
Proof.
  intros H1 H2 H3 H. apply within_iff. unfold pq4120_in in H. apply negb_true_iff in H.
  apply orb_false_iff in H. destruct H as [H R3]. apply orb_false_iff in H. destruct H as [R1 R2].
  apply orb_false_iff in R3. destruct R3 as [R3a R3b].
  apply qltb_ge in R3a. apply qltb_ge in R3b. qnorm.
  unfold pq4120_flex.
  destruct (qltb p (p0 a)) eqn:E0.
  - cbn [andb] in R1. apply orb_false_iff in R1. destruct R1 as [A B]. apply qltb_ge in A. apply qltb_ge in B.
    cbn [fst snd]. split; assumption.
  - apply qltb_ge in E0. destruct (qltb p (p1 a)) eqn:E1.
    + cbn [fst snd]. qnorm. split; [|exact R3b]. nra.
    + apply qltb_ge in E1. cbn [fst snd].
      destruct (qltb (p1 a) p) eqn:E2.
      * cbn [andb] in R2. apply orb_false_iff in R2. destruct R2 as [A B]. apply qltb_ge in A. apply qltb_ge in B.
        split; assumption.
      * apply qltb_ge in E2. assert (Ep : p == p1 a) by lra.
        split.
        -- assert (k_ind a + (p1 a - p0 a) * lf_ind a <= k_ind a - (p - p0 a) * lf_ind a) by (rewrite Ep; nra). lra.
        -- assert (k_cap a + (p - p0 a) * lf_cap a == k_cap a + (p1 a - p0 a) * lf_cap a) by (rewrite Ep; reflexivity). lra.
Qed.

(* merged flexibility of the PQ and the QV area *)
Lemma merge_spec r pq qv lo hi :
  merge r pq qv = Some (lo, hi) ->
  lo <= hi /\
  (qmax (fst pq) (fst qv) <= qmin (snd pq) (snd qv) -> lo = qmax (fst pq) (fst qv) /\ hi = qmin (snd pq) (snd qv)).
Proof.
  unfold merge.
  destruct (qltb (snd pq) (fst pq)); [discriminate|].
  destruct (qltb (snd qv) (fst qv)); [discriminate|].
  destruct (qltb (qmin (snd pq) (snd qv)) (qmax (fst pq) (fst qv))) eqn:E.
  - destruct r; [discriminate|]. intros H. inversion H. subst. split; [apply Qle_refl|].
    apply qltb_lt in E. intros X. lra.
  - apply qltb_ge in E. intros H. inversion H. subst. split; [exact E | intros _; split; reflexivity].
Qed.
Lemma merge_within r pq qv q :
  within pq q = true -> within qv q = true ->
  exists lo hi, merge r pq qv = Some (lo, hi) /\ lo <= q /\ q <= hi.
Proof.
  intros A B. apply within_iff in A. apply within_iff in B. destruct A as [A1 A2]. destruct B as [B1 B2].
  unfold merge.
  assert (E1 : qltb (snd pq) (fst pq) = false) by (apply qltb_ge; lra).
  assert (E2 : qltb (snd qv) (fst qv) = false) by (apply qltb_ge; lra).
  rewrite E1, E2.
  assert (L : qmax (fst pq) (fst qv) <= q) by (destruct (qmax_cases (fst pq) (fst qv)) as [[_ ->]|[_ ->]]; assumption).
  assert (U : q <= qmin (snd pq) (snd qv)) by (destruct (qmin_cases (snd pq) (snd qv)) as [[_ ->]|[_ ->]]; assumption).
  assert (E3 : qltb (qmin (snd pq) (snd qv)) (qmax (fst pq) (fst qv)) = false) by (apply qltb_ge; lra).
  rewrite E3. eexists. eexists. split; [reflexivity|]. split; assumption.
Qed.

Definition area_ok (ar : area) (q : Q) : Prop :=
  match ar with
  | ANone => True
  | A4120 a _ _ => lf_ind a <= 0 /\ a_min_q a <= k_ind a + (p1 a - p0 a) * lf_ind a /\
                   k_cap a + (p1 a - p0 a) * lf_cap a <= a_max_q a
  | AStatcom lo hi => lo <= hi
  | AOracle b lo hi => lo <= hi /\ (b = true -> lo <= q /\ q <= hi)
  | A4130 a _ _ _ => lf_ind a <= 0 /\ a_min_q a <= k_ind a + (p1 a - p0 a) * lf_ind a /\
                     k_cap a + (p1 a - p0 a) * lf_cap a <= a_max_q a
  end.

(* only a PQV area applies (no apparent-power saturation): whenever _saturate returns, the reactive power it returns lies
   within the area's q_flexibility at the element's active power and voltage, and the active power is unchanged *)
Lemma area_result_in_flex ar q_prio rt p q vm p' q' :
  ar <> ANone -> area_ok ar q ->
  saturate ar None q_prio rt p q vm = Res p' q' ->
  p' = p /\ exists lo hi, area_flex ar p vm = Some (lo, hi) /\ lo <= q' /\ q' <= hi.
Proof.
  intros Hn Hok. unfold saturate, area_step.
  destruct ar as [|a v r|lo hi|b lo hi|a l1 l2 r]; [contradiction| | | |].
  - (* 4120 *)
    destruct Hok as (K1 & K2 & K3).
    destruct (area_in (A4120 a v r) p q vm) eqn:E.
    + cbn [saturate_sn]. intros H. injection H as Hp Hq. rewrite <- Hp, <- Hq. split; [reflexivity|].
      cbn [area_in] in E. apply andb_true_iff in E. destruct E as [E1 E2].
      apply (pq4120_in_sound a p q K1 K2 K3) in E1.
      cbn [area_flex]. apply merge_within; assumption.
    + destruct (area_flex (A4120 a v r) p vm) as [[lo hi]|] eqn:F; [|discriminate].
      cbn [saturate_sn]. intros H. injection H as Hp Hq. rewrite <- Hp, <- Hq. split; [reflexivity|].
      exists lo, hi. split; [reflexivity|]. cbn [area_flex] in F. apply merge_spec in F. destruct F as [F _].
      apply clamp_in. exact F.
  - (* STATCOM *)
    cbn [area_ok] in Hok. destruct (area_in (AStatcom lo hi) p q vm) eqn:E.
    + cbn [saturate_sn]. intros H. injection H as Hp Hq. rewrite <- Hp, <- Hq. split; [reflexivity|].
      cbn [area_in] in E. apply andb_true_iff in E. destruct E as [E1 E2]. apply qleb_le in E1. apply qleb_le in E2.
      exists lo, hi. split; [reflexivity | split; assumption].
    + cbn [area_flex saturate_sn]. intros H. injection H as Hp Hq. rewrite <- Hp, <- Hq. split; [reflexivity|].
      exists lo, hi. split; [reflexivity | apply clamp_in; exact Hok].
  - (* polygon oracle *)
    destruct Hok as [K1 K2]. destruct b.
    + cbn [area_in saturate_sn]. intros H. injection H as Hp Hq. rewrite <- Hp, <- Hq. split; [reflexivity|].
      exists lo, hi. split; [reflexivity | apply K2; reflexivity].
    + cbn [area_in area_flex saturate_sn]. intros H. injection H as Hp Hq. rewrite <- Hp, <- Hq. split; [reflexivity|].
      exists lo, hi. split; [reflexivity | apply clamp_in; exact K1].
  - (* 4130: PQArea4130 + piecewise-linear QV limits *)
    destruct Hok as (K1 & K2 & K3).
    destruct (area_in (A4130 a l1 l2 r) p q vm) eqn:E.
    + cbn [saturate_sn]. intros H. injection H as Hp Hq. rewrite <- Hp, <- Hq. split; [reflexivity|].
      cbn [area_in] in E. apply andb_true_iff in E. destruct E as [E1 E2].
      apply (pq4120_in_sound a p q K1 K2 K3) in E1.
      cbn [area_flex]. apply merge_within; assumption.
    + destruct (area_flex (A4130 a l1 l2 r) p vm) as [[lo hi]|] eqn:F; [|discriminate].
      cbn [saturate_sn]. intros H. injection H as Hp Hq. rewrite <- Hp, <- Hq. split; [reflexivity|].
      exists lo, hi. split; [reflexivity|]. cbn [area_flex] in F. apply merge_spec in F. destruct F as [F _].
      apply clamp_in. exact F.
Qed.

(* ---------------------------------------------------------------- damping *)
Lemma damp_eq d cur tgt : ~ d == 0 -> damp d cur tgt == (1 - 1 / d) * cur + (1 / d) * tgt.
Proof. intros H. unfold damp. qnorm. field. exact H. Qed.

Lemma inv_range d : 1 <= d -> 0 < 1 / d /\ 1 / d <= 1.
Proof.
  intros H. split.
  - apply Qlt_shift_div_l; lra.
  - apply Qle_shift_div_r; lra.
Qed.

Lemma sq_nonneg x : 0 <= x * x.
Proof.
  destruct (Qlt_le_dec x 0) as [H|H].
  - assert (E : x * x == (- x) * (- x)) by ring. rewrite E. apply Qmult_le_0_compat; lra.
  - apply Qmult_le_0_compat; exact H.
Qed.

Lemma convex_disc s l a b c e :
  0 <= l -> l <= 1 -> in_disc s a b -> in_disc s c e ->
  in_disc s ((1 - l) * a + l * c) ((1 - l) * b + l * e).
Proof.
  unfold in_disc. intros L0 L1 H1 H2.
  pose proof (sq_nonneg (a - c)) as Sq1. pose proof (sq_nonneg (b - e)) as Sq2.
  assert (C : a * c + b * e <= s * s) by lra.
  assert (I : ((1 - l) * a + l * c) * ((1 - l) * a + l * c) + ((1 - l) * b + l * e) * ((1 - l) * b + l * e)
              == (1 - l) * (1 - l) * (a * a + b * b) + l * l * (c * c + e * e) + 2 * (l * (1 - l)) * (a * c + b * e)) by ring.
  rewrite I.
  assert (M : 0 <= l * (1 - l)) by (apply Qmult_le_0_compat; lra).
  pose proof (sq_nonneg (1 - l)) as N1. pose proof (sq_nonneg l) as N2.
  assert (T1 : (a * a + b * b) * ((1 - l) * (1 - l)) <= (s * s) * ((1 - l) * (1 - l))) by (apply Qmult_le_compat_r; assumption).
  assert (T2 : (c * c + e * e) * (l * l) <= (s * s) * (l * l)) by (apply Qmult_le_compat_r; assumption).
  assert (T3 : (a * c + b * e) * (l * (1 - l)) <= (s * s) * (l * (1 - l))) by (apply Qmult_le_compat_r; assumption).
  assert (S : (1 - l) * (1 - l) * (s * s) + l * l * (s * s) + 2 * (l * (1 - l)) * (s * s) == s * s) by ring.
  lra.
Qed.

(* damped_step_in_disc: damping >= 1, previous point and saturated target inside the disc => the written point is inside *)
Lemma damped_step_in_disc d s pc qc pt qt :
  1 <= d -> in_disc s pc qc -> in_disc s pt qt -> in_disc s (damp d pc pt) (damp d qc qt).
Proof.
  intros Hd H1 H2. destruct (inv_range d Hd) as [L0 L1].
  assert (Hn : ~ d == 0) by lra.
  unfold in_disc. rewrite (damp_eq d pc pt Hn), (damp_eq d qc qt Hn).
  apply (convex_disc s (1 / d) pc qc pt qt); [lra | exact L1 | exact H1 | exact H2].
Qed.

Lemma damped_step_in_iv d lo hi cur tgt :
  1 <= d -> in_iv lo hi cur -> in_iv lo hi tgt -> in_iv lo hi (damp d cur tgt).
Proof.
  intros Hd [A1 A2] [B1 B2]. destruct (inv_range d Hd) as [L0 L1].
  assert (Hn : ~ d == 0) by lra. unfold in_iv. rewrite (damp_eq d cur tgt Hn).
  set (l := 1 / d) in *. split; nra.
Qed.

(* refuted without the guard: from a point outside the disc, damping 2 lands outside although the target is inside *)
Lemma damped_step_refuted :
  exists d s pc qc pt qt, 1 <= d /\ in_disc s pt qt /\ ~ in_disc s (damp d pc pt) (damp d qc qt).
Proof.
  exists 2, 1, 3, 0, 1, 0. split; [vm_compute; discriminate|]. split; [vm_compute; discriminate|].
  vm_compute. intros H. apply H. reflexivity.
Qed.
(* and with damping < 1 even from inside *)
Lemma damped_step_small_damping_refuted :
  exists d s pc qc pt qt, 0 < d /\ in_disc s pc qc /\ in_disc s pt qt /\ ~ in_disc s (damp d pc pt) (damp d qc qt).
Proof.
  exists (1 # 2), 1, (-(1)), 0, 1, 0. split; [reflexivity|]. split; [vm_compute; discriminate|].
  split; [vm_compute; discriminate|]. vm_compute. intros H. apply H. reflexivity.
Qed.

(* ---------------------------------------------------------------- one controller step, end to end *)
Lemma scale_disc s sn p q : 0 <= sn -> in_disc s p q -> in_disc (s * sn) (p * sn) (q * sn).
Proof. unfold in_disc. intros H0 H. assert (0 <= sn * sn) by nra. nra. Qed.

Lemma cur_p_disc m alias pc qc : in_disc m pc qc -> in_disc m (cur_p alias pc) qc.
Proof.
  unfold cur_p, in_disc. intros H. destruct (alias && qltb pc 0); [|exact H].
  pose proof (sq_nonneg pc). lra.
Qed.

Lemma target_in_disc ar m q_prio rt d sn alias pc qc ps qraw vm p' q' :
  0 < sn -> 0 <= m -> 1 <= d ->
  in_disc m pc qc ->
  (forall q1, area_step ar (fst (pu_point sn ps qc qraw)) (snd (pu_point sn ps qc qraw)) vm = Some q1 ->
              rt * rt == sqrt_arg (qdiv m sn) q_prio (fst (pu_point sn ps qc qraw)) q1) ->
  target ar (Some m) q_prio rt d sn alias pc qc ps qraw vm = Res p' q' ->
  in_disc m p' q'.
Proof.
  intros Hsn Hm Hd Hc Hrt. unfold target. apply (cur_p_disc m alias) in Hc. set (pc' := cur_p alias pc) in *.
  destruct (pu_point sn ps qc qraw) as [pp qq]. cbn [fst snd] in Hrt.
  unfold saturate.
  destruct (area_step ar pp qq vm) as [q1|]; [|discriminate].
  assert (Hs : 0 <= qdiv m sn) by (qnorm; apply Qle_shift_div_l; lra).
  pose proof (saturate_sn_disc (qdiv m sn) q_prio rt pp q1 Hs (Hrt q1 eq_refl)) as D.
  destruct (saturate_sn (Some (qdiv m sn)) q_prio rt pp q1) as [p2 q2]. cbn [fst snd] in D.
  intros H. injection H as Hp Hq. rewrite <- Hp, <- Hq.
  fold (damp d pc' (qmul p2 sn)). fold (damp d qc (qmul q2 sn)).
  apply damped_step_in_disc; [exact Hd | exact Hc|].
  pose proof (scale_disc (qdiv m sn) sn p2 q2) as S.
  assert (E : qdiv m sn * sn == m) by (qnorm; field; lra).
  unfold in_disc in *. qnorm. rewrite <- E at 1 2. qnorm. apply S; [lra|].
  qnorm. exact D.
Qed.
