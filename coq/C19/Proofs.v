(* C19 — proofs about the state-estimation kernels *)
From Coq Require Import ZArith QArith List Bool Lia Lqa Setoid Permutation Arith.
From PPV Require Import Base.QN Base.QC C19.Model.
Import ListNotations.
Open Scope Q_scope.

(* ---------------------------------------------------------------- _merge_mask *)
Fixpoint sortedP (l : list nat) : Prop :=
  match l with [] => True | x :: l' => (forall y, In y l' -> (x < y)%nat) /\ sortedP l' end.

Lemma strictly_sorted_sortedP : forall l, strictly_sorted l = true -> sortedP l.
Proof.
  induction l as [|x l IH]; [exact (fun _ => I)|].
  intros H. destruct l as [|y l'].
  - split; [intros ? []| exact I].
  - cbn [strictly_sorted] in H. apply andb_prop in H. destruct H as [H1 H2].
    apply Nat.ltb_lt in H1. specialize (IH H2). split; [|exact IH].
    intros z [->|Hz]; [exact H1|]. destruct IH as [IH1 _]. specialize (IH1 z Hz). lia.
Qed.

Lemma insert_u_spec : forall x l, sortedP l ->
  sortedP (insert_u x l) /\ forall y, In y (insert_u x l) <-> y = x \/ In y l.
Proof.
  intros x l. induction l as [|a l IH]; intros Hs.
  - cbn. split; [split; [intros ? []|exact I]|]. intros y; split; [intros [H|[]]; auto | intros [H|[]]; auto].
  - cbn [insert_u]. destruct Hs as [Ha Hs].
    destruct (Nat.ltb x a) eqn:E1.
    + apply Nat.ltb_lt in E1. split.
      * split; [|split; assumption]. intros y [->|Hy]; [exact E1|]. specialize (Ha y Hy). lia.
      * intros y. cbn. split; [intros [H|[H|H]]; auto | intros [H|[H|H]]; auto].
    + apply Nat.ltb_ge in E1. destruct (Nat.eqb x a) eqn:E2.
      * apply Nat.eqb_eq in E2. subst. split; [split; assumption|]. intros y. cbn. split; [auto|]. intros [->|H]; auto.
      * apply Nat.eqb_neq in E2. destruct (IH Hs) as [IH1 IH2]. split.
        -- split; [|exact IH1]. intros y Hy. apply IH2 in Hy. destruct Hy as [->|Hy]; [lia|auto].
        -- intros y. cbn. rewrite IH2. tauto.
Qed.

Lemma np_unique_spec : forall l, sortedP (np_unique l) /\ forall y, In y (np_unique l) <-> In y l.
Proof.
  induction l as [|x l [IH1 IH2]]; [cbn; split; [exact I|tauto]|].
  cbn [np_unique fold_right]. fold (np_unique l).
  destruct (insert_u_spec x (np_unique l) IH1) as [A B]. split; [exact A|].
  intros y. rewrite B, IH2. cbn. split; intros [H|H]; auto.
Qed.

Lemma select_isin_filter : forall (tot m : list nat),
  select tot (isin tot m) = filter (fun x => existsb (Nat.eqb x) m) tot.
Proof.
  intros tot m. unfold isin. induction tot as [|a l IH]; [reflexivity|].
  cbn. rewrite IH. reflexivity.
Qed.

Lemma filter_sortedP : forall f l, sortedP l -> sortedP (filter f l).
Proof.
  intros f l. induction l as [|a l IH]; intros Hs; [exact I|].
  destruct Hs as [Ha Hs]. cbn. destruct (f a).
  - split; [|exact (IH Hs)]. intros y Hy. apply filter_In in Hy. apply Ha. tauto.
  - exact (IH Hs).
Qed.

Lemma sortedP_ext : forall a b, sortedP a -> sortedP b -> (forall x, In x a <-> In x b) -> a = b.
Proof.
  induction a as [|x a IH]; intros b Ha Hb Hext.
  - destruct b as [|y b]; [reflexivity|]. exfalso. apply (Hext y). left. reflexivity.
  - destruct b as [|y b]; [exfalso; apply (Hext x); left; reflexivity|].
    destruct Ha as [Ha1 Ha2]. destruct Hb as [Hb1 Hb2].
    assert (x = y) as ->.
    { assert (In x (y :: b)) as H1 by (apply Hext; left; reflexivity).
      assert (In y (x :: a)) as H2 by (apply Hext; left; reflexivity).
      destruct H1 as [H1|H1]; [congruence|]. destruct H2 as [H2|H2]; [congruence|].
      specialize (Hb1 x H1). specialize (Ha1 y H2). lia. }
    f_equal. apply IH; try assumption.
    intros z. split; intros Hz.
    + assert (In z (y :: b)) as H by (apply Hext; right; exact Hz).
      destruct H as [H|H]; [|exact H]. subst. specialize (Ha1 z Hz). lia.
    + assert (In z (y :: a)) as H by (apply Hext; right; exact Hz).
      destruct H as [H|H]; [|exact H]. subst. specialize (Hb1 z Hz). lia.
Qed.

Lemma existsb_eqb_In : forall x m, existsb (Nat.eqb x) m = true <-> In x m.
Proof.
  intros x m. rewrite existsb_exists. split.
  - intros [y [H1 H2]]. apply Nat.eqb_eq in H2. subst. exact H1.
  - intros H. exists x. split; [exact H | apply Nat.eqb_refl].
Qed.

Lemma rows_P_correct : forall m1 m2, strictly_sorted m1 = true -> rows_P m1 m2 = rows_hx m1.
Proof.
  intros m1 m2 H. unfold rows_P, merge_mask, rows_hx. rewrite select_isin_filter.
  destruct (np_unique_spec (m1 ++ m2)) as [S1 S2].
  apply sortedP_ext.
  - apply filter_sortedP. exact S1.
  - apply strictly_sorted_sortedP. exact H.
  - intros x. rewrite filter_In, S2, in_app_iff, existsb_eqb_In. tauto.
Qed.
Lemma rows_Q_correct : forall m1 m2, strictly_sorted m2 = true -> rows_Q m1 m2 = rows_hx m2.
Proof.
  intros m1 m2 H. unfold rows_Q, merge_mask, rows_hx. rewrite select_isin_filter.
  destruct (np_unique_spec (m1 ++ m2)) as [S1 S2].
  apply sortedP_ext.
  - apply filter_sortedP. exact S1.
  - apply strictly_sorted_sortedP. exact H.
  - intros x. rewrite filter_In, S2, in_app_iff, existsb_eqb_In. tauto.
Qed.
(* without the flatnonzero invariant the Jacobian rows would not be aligned with h(x) *)
Lemma rows_P_unsorted_refuted : exists m1 m2, rows_P m1 m2 <> rows_hx m1.
Proof. exists [2; 1]%nat, []. vm_compute. discriminate. Qed.

(* ---------------------------------------------------------------- sums *)
Lemma qsum_cons : forall x l, qsum (x :: l) = qadd x (qsum l).
Proof. reflexivity. Qed.
Lemma qsum_nil : qsum [] = 0.
Proof. reflexivity. Qed.
Lemma qsum_app : forall a b, qsum (a ++ b) == qsum a + qsum b.
Proof.
  induction a as [|x a IH]; intros b; cbn [app].
  - rewrite qsum_nil. ring.
  - rewrite !qsum_cons. qnorm. rewrite IH. ring.
Qed.
Lemma qsum_perm : forall a b, Permutation a b -> qsum a == qsum b.
Proof.
  intros a b P. induction P; rewrite ?qsum_cons; qnorm.
  - reflexivity.
  - rewrite IHP. reflexivity.
  - ring.
  - etransitivity; eassumption.
Qed.
Lemma qsum_zero : forall l, (forall x, In x l -> x == 0) -> qsum l == 0.
Proof.
  induction l as [|x l IH]; intros H; [reflexivity|]. rewrite qsum_cons. qnorm.
  rewrite IH by (intros; apply H; right; assumption). rewrite (H x (or_introl eq_refl)). ring.
Qed.
Lemma qsum_nonneg : forall l, (forall x, In x l -> 0 <= x) -> 0 <= qsum l.
Proof.
  induction l as [|x l IH]; intros H; [rewrite qsum_nil; lra|]. rewrite qsum_cons. qnorm.
  specialize (IH (fun y Hy => H y (or_intror Hy))). specialize (H x (or_introl eq_refl)). lra.
Qed.

(* ---------------------------------------------------------------- WLS step *)
(* z = h(x)  =>  right-hand side of the normal equations is zero *)
Lemma rhs_zero_residual : forall ms j, (forall m, In m ms -> res m == 0) -> rhs j ms == 0.
Proof.
  intros ms j H. unfold rhs. apply qsum_zero. intros x Hx. apply in_map_iff in Hx.
  destruct Hx as [m [<- Hm]]. qnorm. rewrite (H m Hm). ring.
Qed.
Lemma objective_zero_residual : forall ms, (forall m, In m ms -> res m == 0) -> objective ms == 0.
Proof.
  intros ms H. unfold objective. apply qsum_zero. intros x Hx. apply in_map_iff in Hx.
  destruct Hx as [m [<- Hm]]. qnorm. rewrite (H m Hm). ring.
Qed.
Lemma objective_nonneg : forall ms, (forall m, In m ms -> 0 <= wgt m) -> 0 <= objective ms.
Proof.
  intros ms H. unfold objective. apply qsum_nonneg. intros x Hx. apply in_map_iff in Hx.
  destruct Hx as [m [<- Hm]]. qnorm. specialize (H m Hm). nra.
Qed.
(* order of the measurements is irrelevant *)
Lemma normal_eq_perm : forall ms ms' j k, Permutation ms ms' ->
  gain j k ms == gain j k ms' /\ rhs j ms == rhs j ms' /\ objective ms == objective ms'.
Proof.
  intros ms ms' j k P. unfold gain, rhs, objective.
  repeat split; apply qsum_perm; apply Permutation_map; exact P.
Qed.
Lemma normal_eq_app : forall a b j k,
  gain j k (a ++ b) == gain j k a + gain j k b /\ rhs j (a ++ b) == rhs j a + rhs j b.
Proof. intros. unfold gain, rhs. rewrite !map_app, !qsum_app. split; reflexivity. Qed.

(* the solver's answer to a zero right-hand side is zero when the gain matrix is nonsingular: the state is a fixed point *)
Lemma zero_residual_fixed_point : forall n ms d,
  (forall m, In m ms -> res m == 0) ->
  (forall j, (j < n)%nat -> gain_times n ms d j == rhs j ms) ->                       (* contract of spsolve *)
  (forall d', (forall j, (j < n)%nat -> gain_times n ms d' j == 0) ->
              forall k, (k < n)%nat -> nth k d' 0 == 0) ->                            (* G nonsingular *)
  forall k, (k < n)%nat -> nth k d 0 == 0.
Proof.
  intros n ms d Hr Hs Hinj k Hk. apply Hinj; [|exact Hk].
  intros j Hj. rewrite (Hs j Hj). apply rhs_zero_residual. exact Hr.
Qed.

(* ---------------------------------------------------------------- redundant measurements *)
Definition dup_meas (h : list Q) (hx : Q) (zs : list (Q * Q)) : list meas :=
  map (fun p => {| hrow := h; wgt := mweight (snd p); res := qsub (fst p) hx |}) zs.
Definition merged_meas (h : list Q) (hx : Q) (zs : list (Q * Q)) (s : Q) : meas :=
  {| hrow := h; wgt := qdiv 1 (qmul s s); res := qsub (merged_value zs) hx |}.
Definition wsum (zs : list (Q * Q)) : Q := qsum (map (fun p => mweight (snd p)) zs).
Definition wzsum (zs : list (Q * Q)) : Q := qsum (map (fun p => qmul (mweight (snd p)) (fst p)) zs).

Lemma dup_gain : forall h hx zs j k,
  gain j k (dup_meas h hx zs) == nth j h 0 * wsum zs * nth k h 0.
Proof.
  intros. unfold gain, dup_meas, wsum. rewrite map_map. induction zs as [|p zs IH].
  - cbn [map]. rewrite !qsum_nil. ring.
  - cbn [map]. rewrite !qsum_cons. qnorm. rewrite IH. unfold col. cbn [hrow wgt]. ring.
Qed.
Lemma dup_rhs : forall h hx zs j,
  rhs j (dup_meas h hx zs) == nth j h 0 * (wzsum zs - hx * wsum zs).
Proof.
  intros. unfold rhs, dup_meas, wsum, wzsum. rewrite map_map. induction zs as [|p zs IH].
  - cbn [map]. rewrite !qsum_nil. ring.
  - cbn [map]. rewrite !qsum_cons. qnorm. rewrite IH. unfold col. cbn [hrow wgt res]. qnorm. ring.
Qed.

(* k readings of the same quantity contribute to G and to the right-hand side exactly what their merge
   (weighted mean, std = sqrt(1/sum w) =: s) contributes *)
Lemma duplicates_equiv_merged : forall h hx zs s j k,
  ~ wsum zs == 0 -> s * s == merged_var zs ->
  gain j k (dup_meas h hx zs) == gain j k [merged_meas h hx zs s] /\
  rhs j (dup_meas h hx zs) == rhs j [merged_meas h hx zs s].
Proof.
  intros h hx zs s j k HW Hs.
  assert (Hv : merged_var zs == 1 / wsum zs) by (unfold merged_var; fold (wsum zs); qnorm; reflexivity).
  assert (Hs0 : ~ s * s == 0).
  { rewrite Hs, Hv. intro X. apply HW. assert (Y : wsum zs * (1 / wsum zs) == 1) by (field; exact HW).
    rewrite X in Y. lra. }
  assert (Hw : 1 / (s * s) == wsum zs) by (rewrite Hs, Hv; field; exact HW).
  rewrite dup_gain, dup_rhs. unfold gain, rhs, merged_meas. cbn [map]. rewrite !qsum_cons, !qsum_nil.
  unfold col. cbn [hrow wgt res]. unfold merged_value. fold (wsum zs) (wzsum zs). qnorm.
  split.
  - rewrite Hw. ring.
  - rewrite Hw. field. exact HW.
Qed.

(* ---------------------------------------------------------------- measurement functions *)
Lemma Csum_cons : forall x l, Csum (x :: l) = Cadd x (Csum l).
Proof. reflexivity. Qed.
Lemma Csum_app : forall a b, Csum (a ++ b) ==c Cadd (Csum a) (Csum b).
Proof.
  induction a as [|x a IH]; intros b; cbn [app].
  - unfold Csum at 2. cbn [fold_right]. symmetry. apply Cadd_0_l.
  - rewrite !Csum_cons. rewrite IH. apply Cadd_assoc.
Qed.
Lemma Cmul_conj_Csum : forall v l,
  Cmul v (Cconj (Csum l)) ==c Csum (map (fun x => Cmul v (Cconj x)) l).
Proof.
  intros v l. induction l as [|x l IH]; cbn [map].
  - unfold Csum. cbn [fold_right]. csimp. split; ring.
  - rewrite !Csum_cons. rewrite <- IH. csimp. split; ring.
Qed.

(* currents / powers that the branches inject at bus i *)
Definition inj_I (V : list C) (i : nat) (brs : list branch) : list C :=
  flat_map (fun b => (if Nat.eqb (bf b) i then [I_from V b] else []) ++
                     (if Nat.eqb (bt b) i then [I_to V b] else [])) brs.
Definition inj_S (V : list C) (i : nat) (brs : list branch) : list C :=
  flat_map (fun b => (if Nat.eqb (bf b) i then [S_from V b] else []) ++
                     (if Nat.eqb (bt b) i then [S_to V b] else [])) brs.

Lemma Ibus_stamp_branches : forall V i brs,
  Csum (map (fun p => Cmul (snd p) (nthC V (fst p)))
            (flat_map (fun b => (if Nat.eqb (bf b) i then [(bf b, yff b); (bt b, yft b)] else []) ++
                                (if Nat.eqb (bt b) i then [(bf b, ytf b); (bt b, ytt b)] else [])) brs))
  ==c Csum (inj_I V i brs).
Proof.
  intros V i brs. induction brs as [|b brs IH]; [reflexivity|].
  unfold inj_I in *. cbn [flat_map]. rewrite !map_app, !Csum_app, IH.
  destruct (Nat.eqb (bf b) i); destruct (Nat.eqb (bt b) i); cbn [map app fst snd];
    rewrite ?Csum_cons; unfold I_from, I_to, Csum; cbn [fold_right]; csimp; split; ring.
Qed.

Lemma inj_S_of_I : forall V i brs,
  Csum (inj_S V i brs) ==c Csum (map (fun x => Cmul (nthC V i) (Cconj x)) (inj_I V i brs)).
Proof.
  intros V i brs. induction brs as [|b brs IH]; [reflexivity|].
  unfold inj_S, inj_I in *. cbn [flat_map]. rewrite !map_app, !Csum_app, IH.
  destruct (Nat.eqb_spec (bf b) i) as [e1|n1]; destruct (Nat.eqb_spec (bt b) i) as [e2|n2]; cbn [map app];
    rewrite ?Csum_cons; unfold S_from, S_to; rewrite ?e1, ?e2; reflexivity.
Qed.

(* h_pbus/h_qbus (bus injection) = sum of the branch-flow measurement functions at that bus + the bus shunt:
   the three kinds of power measurement functions are mutually consistent, so any mix of exact power-flow
   results is an exact (zero-residual) measurement set *)
Lemma bus_injection_is_flow_sum : forall V i ysh brs,
  S_bus V i (stamp_row i ysh brs) ==c
  Cadd (Cmul (nthC V i) (Cconj (Cmul ysh (nthC V i)))) (Csum (inj_S V i brs)).
Proof.
  intros V i ysh brs. unfold S_bus, Ibus_row, stamp_row. cbn [map fst snd]. rewrite Csum_cons.
  rewrite Ibus_stamp_branches. rewrite inj_S_of_I. rewrite <- Cmul_conj_Csum.
  csimp. split; ring.
Qed.

(* ---------------------------------------------------------------- stored residual of the WLS loop *)
Lemma wls_loop_app : forall h z steps x r d,
  wls_loop h z x r (steps ++ [d]) =
  (qadd (fst (wls_loop h z x r steps)) d, qsub z (h (fst (wls_loop h z x r steps)))).
Proof.
  intros h z steps. induction steps as [|s steps IH]; intros x r d; cbn [app wls_loop fst]; [reflexivity|].
  apply IH.
Qed.
(* if the last increment is zero the stored residual is the residual of the final state *)
Lemma stored_residual_old_partial : forall h z x0 steps,
  (forall a b, a == b -> h a == h b) ->
  G19_last_step_zero steps = true ->
  stored_residual_old h z x0 steps == z - h (final_state h z x0 steps).
Proof.
  intros h z x0 steps Hh G. unfold G19_last_step_zero in G.
  destruct (rev steps) as [|d l] eqn:E; [discriminate|].
  assert (steps = rev l ++ [d]) as -> by (rewrite <- (rev_involutive steps), E; reflexivity).
  apply qeqb_eq in G. unfold stored_residual_old, final_state. rewrite wls_loop_app. cbn [fst snd]. qnorm.
  apply Qplus_inj_l. apply Qopp_comp. apply Hh. rewrite qadd_correct, G. ring.
Qed.
(* in general it is not: exact measurement z = h(x_final), yet a non-zero residual is handed to the bad-data tests *)
Lemma stored_residual_old_refuted :
  exists (h : Q -> Q) z x0 steps,
    z - h (final_state h z x0 steps) == 0 /\ ~ stored_residual_old h z x0 steps == z - h (final_state h z x0 steps).
Proof.
  exists (fun x => x), 1, 0, [1]. vm_compute. split; [reflexivity | intro H; discriminate H].
Qed.

(* ---------------------------------------------------------------- the gain matrix is positive definite on full column rank *)
Definition hd_l (m : meas) (d : list Q) (l : list nat) : Q := qsum (map (fun k => qmul (col k m) (nth k d 0)) l).
Definition hd (n : nat) (m : meas) (d : list Q) : Q := hd_l m d (seq 0 n).          (* h_i . d *)
Definition gt_l (l : list nat) (ms : list meas) (d : list Q) (j : nat) : Q :=
  qsum (map (fun k => qmul (gain j k ms) (nth k d 0)) l).
Definition qf_l (n : nat) (l : list nat) (ms : list meas) (d : list Q) : Q :=
  qsum (map (fun j => qmul (nth j d 0) (gain_times n ms d j)) l).

Lemma gain_cons : forall j k m ms, gain j k (m :: ms) == col j m * wgt m * col k m + gain j k ms.
Proof. intros. unfold gain. cbn [map]. rewrite qsum_cons. qnorm. reflexivity. Qed.

Lemma gt_l_cons : forall l m ms d j,
  gt_l l (m :: ms) d j == col j m * wgt m * hd_l m d l + gt_l l ms d j.
Proof.
  induction l as [|a l IH]; intros m ms d j; unfold gt_l, hd_l in *; cbn [map].
  - rewrite !qsum_nil. ring.
  - rewrite !qsum_cons. qnorm. rewrite IH. rewrite gain_cons. ring.
Qed.
Lemma gain_times_cons : forall n m ms d j,
  gain_times n (m :: ms) d j == col j m * wgt m * hd n m d + gain_times n ms d j.
Proof. intros. apply (gt_l_cons (seq 0 n)). Qed.

Lemma qf_l_cons : forall n l m ms d,
  qf_l n l (m :: ms) d ==
  wgt m * hd n m d * qsum (map (fun j => qmul (nth j d 0) (col j m)) l) + qf_l n l ms d.
Proof.
  intros n l m ms d. induction l as [|a l IH]; unfold qf_l in *; cbn [map].
  - rewrite !qsum_nil. ring.
  - rewrite !qsum_cons. qnorm. rewrite IH. rewrite gain_times_cons. ring.
Qed.
Lemma dh_hd : forall m d l, qsum (map (fun j => qmul (nth j d 0) (col j m)) l) == hd_l m d l.
Proof.
  intros m d l. unfold hd_l. induction l as [|a l IH]; cbn [map]; [reflexivity|].
  rewrite !qsum_cons. qnorm. rewrite IH. ring.
Qed.
Lemma gain_times_nil : forall n d j, gain_times n [] d j == 0.
Proof.
  intros. unfold gain_times. apply qsum_zero. intros x Hx. apply in_map_iff in Hx. destruct Hx as [k [<- _]].
  unfold gain. cbn [map]. rewrite qsum_nil. qnorm. ring.
Qed.

(* d^T G d = sum_i w_i (h_i . d)^2 *)
Lemma quadratic_form : forall n ms d,
  qf_l n (seq 0 n) ms d == qsum (map (fun m => qmul (wgt m) (qmul (hd n m d) (hd n m d))) ms).
Proof.
  intros n ms d. induction ms as [|m ms IH].
  - cbn [map]. rewrite qsum_nil. unfold qf_l. apply qsum_zero. intros x Hx. apply in_map_iff in Hx.
    destruct Hx as [j [<- _]]. qnorm. rewrite gain_times_nil. ring.
  - rewrite qf_l_cons, dh_hd, IH. cbn [map]. rewrite qsum_cons. qnorm. unfold hd. ring.
Qed.

Lemma qsum_nonneg_zero : forall l, (forall x, In x l -> 0 <= x) -> qsum l == 0 -> forall x, In x l -> x == 0.
Proof.
  induction l as [|a l IH]; intros Hn Hs x Hx; [destruct Hx|].
  rewrite qsum_cons in Hs. qnorm.
  pose proof (Hn a (or_introl eq_refl)) as Ha.
  pose proof (qsum_nonneg l (fun y Hy => Hn y (or_intror Hy))) as Hl.
  destruct Hx as [<-|Hx]; [lra|]. apply IH; try assumption; [intros; apply Hn; right; assumption | lra].
Qed.

(* G d = 0 with positive weights forces h_i . d = 0 for every measurement *)
Lemma gain_kernel : forall n ms d,
  (forall m, In m ms -> 0 < wgt m) ->
  (forall j, (j < n)%nat -> gain_times n ms d j == 0) ->
  forall m, In m ms -> hd n m d == 0.
Proof.
  intros n ms d Hw Hg m Hm.
  assert (Hq : qf_l n (seq 0 n) ms d == 0).
  { unfold qf_l. apply qsum_zero. intros x Hx. apply in_map_iff in Hx. destruct Hx as [j [<- Hj]].
    apply in_seq in Hj. qnorm. rewrite (Hg j) by lia. ring. }
  rewrite quadratic_form in Hq.
  assert (Hnn : forall x, In x (map (fun m : meas => qmul (wgt m) (qmul (hd n m d) (hd n m d))) ms) -> 0 <= x).
  { intros x Hx. apply in_map_iff in Hx. destruct Hx as [m' [<- Hm']]. qnorm. specialize (Hw m' Hm'). nra. }
  assert (Hterm : qmul (wgt m) (qmul (hd n m d) (hd n m d)) == 0).
  { apply (qsum_nonneg_zero _ Hnn Hq). apply in_map_iff. exists m. split; [reflexivity | exact Hm]. }
  revert Hterm. qnorm. intros Hterm. specialize (Hw m Hm).
  apply Qmult_integral in Hterm. destruct Hterm as [E|E]; [lra|].
  apply Qmult_integral in E. destruct E; assumption.
Qed.

(* fixed point under the natural hypotheses: positive weights and a Jacobian of full column rank *)
Lemma zero_residual_fixed_point_rank : forall n ms d,
  (forall m, In m ms -> res m == 0) ->
  (forall m, In m ms -> 0 < wgt m) ->
  (forall j, (j < n)%nat -> gain_times n ms d j == rhs j ms) ->
  (forall d', (forall m, In m ms -> hd n m d' == 0) -> forall k, (k < n)%nat -> nth k d' 0 == 0) ->
  forall k, (k < n)%nat -> nth k d 0 == 0.
Proof.
  intros n ms d Hr Hw Hs Hrank k Hk. apply Hrank; [|exact Hk].
  apply gain_kernel; [exact Hw|]. intros j Hj. rewrite (Hs j Hj). apply rhs_zero_residual. exact Hr.
Qed.

Lemma merge_mask_rows_aligned : forall m1 m2,
  strictly_sorted m1 = true -> strictly_sorted m2 = true ->
  rows_P m1 m2 = rows_hx m1 /\ rows_Q m1 m2 = rows_hx m2.
Proof. intros m1 m2 H1 H2. split; [apply rows_P_correct | apply rows_Q_correct]; assumption. Qed.

Lemma zero_residual_global_minimum : forall ms ms',
  (forall m, In m ms -> res m == 0) -> (forall m, In m ms' -> 0 <= wgt m) ->
  objective ms == 0 /\ objective ms <= objective ms'.
Proof.
  intros ms ms' H W. pose proof (objective_zero_residual ms H) as A. pose proof (objective_nonneg ms' W) as B.
  split; [exact A | rewrite A; exact B].
Qed.

Lemma full_rank_nonvacuous :
  let ms := [{| hrow := [1; 0]; wgt := 4; res := 0 |}; {| hrow := [1; 1]; wgt := 1; res := 0 |}] in
  (forall m, In m ms -> 0 < wgt m) /\ (forall m, In m ms -> res m == 0) /\
  (forall d', (forall m, In m ms -> hd 2 m d' == 0) -> forall k, (k < 2)%nat -> nth k d' 0 == 0).
Proof.
  cbv zeta. split; [|split].
  - intros m [<-|[<-|[]]]; reflexivity.
  - intros m [<-|[<-|[]]]; reflexivity.
  - intros d' H k Hk.
    pose proof (H _ (or_introl eq_refl)) as A. pose proof (H _ (or_intror (or_introl eq_refl))) as B.
    unfold hd, hd_l, col in A, B. cbn [seq map hrow nth] in A, B. rewrite !qsum_cons, qsum_nil in A, B. qnorm.
    destruct k as [|[|k]]; [lra | lra | lia].
Qed.

(* repaired rule: the residual handed to the bad-data tests is the residual of the returned state, for every history *)
Lemma stored_residual_final : forall h z x0 steps,
  stored_residual h z x0 steps == z - h (final_state h z x0 steps).
Proof.
  intros. unfold stored_residual, final_state. destruct (wls_loop h z x0 0 steps) as [x r]. cbn [fst]. qnorm. reflexivity.
Qed.
Lemma stored_residual_exact_data : forall h z x0 steps,
  z == h (final_state h z x0 steps) -> stored_residual h z x0 steps == 0.
Proof. intros h z x0 steps H. rewrite stored_residual_final. lra. Qed.
