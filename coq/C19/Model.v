(* C19 — faithful model of the state-estimation kernels
     pandapower/estimation/algorithm/matrix_base.py : _merge_mask (:296-301), _define_mask (:286-293) and the row
       selection that follows it in _dSbus_dv/_dSbr_dv (:163-227); create_hx (:52-99)
     pandapower/estimation/algorithm/base.py : WLSAlgorithm.estimate, one iteration (:95-131):
       r = z - h(x), G = H^T R^-1 H, rhs = H^T R^-1 r, d_E = spsolve(G, rhs) (the solve is an ORACLE input)
     pandapower/estimation/ppc_conversion.py : _calculate_weighted_measurements (:84-98) (sqrt = oracle input)
   Matrices are lists of rows over Q; complex voltages over Base.QC.  Executable definitions only. *)
From Coq Require Import ZArith QArith List Bool String.
From PPV Require Import Base.QN Base.QC Base.Out.
Import ListNotations.
Open Scope Q_scope.

(* ------------------------------------------------------------------ _merge_mask *)
(* np.unique(np.concatenate((mask1, mask2))) : sorted, duplicate free *)
Fixpoint insert_u (x : nat) (l : list nat) : list nat :=
  match l with
  | [] => [x]
  | y :: l' => if Nat.ltb x y then x :: l else if Nat.eqb x y then l else y :: insert_u x l'
  end.
Definition np_unique (l : list nat) : list nat := fold_right insert_u [] l.
(* np.isin(tot, m) *)
Definition isin (tot m : list nat) : list bool := map (fun x => existsb (Nat.eqb x) m) tot.
Definition merge_mask (m1 m2 : list nat) : list nat * list bool * list bool :=
  let tot := np_unique (m1 ++ m2) in (tot, isin tot m1, isin tot m2).
(* boolean row selection  A[mask,:] *)
Fixpoint select {A} (l : list A) (fl : list bool) : list A :=
  match l, fl with
  | a :: l', b :: fl' => if b then a :: select l' fl' else select l' fl'
  | _, _ => []
  end.
(* which bus/branch index each row of dP (resp. dQ) belongs to: rows are first computed for maskS = tot (:178,:181),
   then dS.real[maskP,:] (:186-189) *)
Definition rows_P (m1 m2 : list nat) : list nat := let '(tot, f1, f2) := merge_mask m1 m2 in select tot f1.
Definition rows_Q (m1 m2 : list nat) : list nat := let '(tot, f1, f2) := merge_mask m1 m2 in select tot f2.
(* the order in which create_hx / z list the same measurements: the mask itself (:69-74) *)
Definition rows_hx (m : list nat) : list nat := m.
(* masks are produced by np.flatnonzero (ppc_conversion.py:650-659): strictly increasing *)
Fixpoint strictly_sorted (l : list nat) : bool :=
  match l with
  | x :: ((y :: _) as l') => Nat.ltb x y && strictly_sorted l'
  | _ => true
  end.

(* ------------------------------------------------------------------ measurement functions h(x) *)
Record branch := { bf : nat; bt : nat; yff : C; yft : C; ytf : C; ytt : C }.
Definition nthC (V : list C) (i : nat) : C := nth i V C0.
(* Ife = Yf*V, Ite = Yt*V ; Sfe = V[f]*conj(Ife) (:64-68) *)
Definition I_from (V : list C) (b : branch) : C := Cadd (Cmul (yff b) (nthC V (bf b))) (Cmul (yft b) (nthC V (bt b))).
Definition I_to (V : list C) (b : branch) : C := Cadd (Cmul (ytf b) (nthC V (bf b))) (Cmul (ytt b) (nthC V (bt b))).
Definition S_from (V : list C) (b : branch) : C := Cmul (nthC V (bf b)) (Cconj (I_from V b)).
Definition S_to (V : list C) (b : branch) : C := Cmul (nthC V (bt b)) (Cconj (I_to V b)).
(* Sbuse = V*conj(Ybus*V) ; Ybus row i as a sparse list of (column, entry) *)
Definition Ibus_row (V : list C) (row : list (nat * C)) : C := Csum (map (fun p => Cmul (snd p) (nthC V (fst p))) row).
Definition S_bus (V : list C) (i : nat) (row : list (nat * C)) : C := Cmul (nthC V i) (Cconj (Ibus_row V row)).
(* Ybus row i assembled from the branch stamps and the bus shunt (makeYbus): used by the spec side *)
Definition stamp_row (i : nat) (ysh : C) (brs : list branch) : list (nat * C) :=
  (i, ysh) ::
  flat_map (fun b => (if Nat.eqb (bf b) i then [(bf b, yff b); (bt b, yft b)] else []) ++
                     (if Nat.eqb (bt b) i then [(bf b, ytf b); (bt b, ytt b)] else [])) brs.

(* ------------------------------------------------------------------ Jacobian rows of one branch (polar state) *)
(* matrix_base.py _dSbr_dv (:186-227) and _dImbr_dV (:252-283), row of ONE branch, for either side: "own side" bus s
   (from-side rows: s = f, entries yff/yft; to-side rows: s = t, entries ytt/ytf) and the other end e.
   State of a bus in polar form (E2V: V = vm*exp(j*theta)): magnitude vm and the unit vector (cos theta, sin theta),
   which is an ORACLE pair (pc, ps) supplied by the harness; V/abs(V) of the code is that unit vector. *)
Record pol := { vm : Q; pc : Q; ps : Q }.
Definition Vn (p : pol) : C := mkC (pc p) (ps p).                     (* Vnorm = V/|V| *)
Definition Vof (p : pol) : C := Cscale (vm p) (Vn p).                 (* V *)
Definition I_side (ys ye Vs Ve : C) : C := Cadd (Cmul ys Vs) (Cmul ye Ve).           (* (Y*V)[l] *)
Definition S_side (ys ye Vs Ve : C) : C := Cmul Vs (Cconj (I_side ys ye Vs Ve)).     (* V[s]*conj(Y*V) : create_hx :64-65 *)
(* dS_dVa = 1j*(conj(diagI) @ sparse(V[s] at (l,s)) - diagVs @ conj(Y @ diagV)) : columns s and e of row l *)
Definition dS_dth_s (ys ye : C) (s e : pol) : C :=
  Cmul Cj (Csub (Cmul (Cconj (I_side ys ye (Vof s) (Vof e))) (Vof s)) (Cmul (Vof s) (Cconj (Cmul ys (Vof s))))).
Definition dS_dth_e (ys ye : C) (s e : pol) : C :=
  Cmul Cj (Csub C0 (Cmul (Vof s) (Cconj (Cmul ye (Vof e))))).
(* dS_dVm = diagVs @ conj(Y @ diagVnorm) + conj(diagI) @ sparse(Vnorm[s] at (l,s)) *)
Definition dS_dvm_s (ys ye : C) (s e : pol) : C :=
  Cadd (Cmul (Vof s) (Cconj (Cmul ys (Vn s)))) (Cmul (Cconj (I_side ys ye (Vof s) (Vof e))) (Vn s)).
Definition dS_dvm_e (ys ye : C) (s e : pol) : C := Cmul (Vof s) (Cconj (Cmul ye (Vn e))).
(* dP = [dS_dVa.real, dS_dVm.real], dQ = [dS_dVa.imag, dS_dVm.imag] *)
(* _dImbr_dV: diagInorm = conj(I)/abs(I) (abs(I) = ORACLE m), a = Inorm*Y*diagV, b = Inorm*Y*diagVnorm,
   dIm_dth = -a.imag, dIm_dv = b.real ; column k with matrix entry yk *)
Definition Inorm (ys ye : C) (s e : pol) (m : Q) : C := Cscale (qdiv 1 m) (Cconj (I_side ys ye (Vof s) (Vof e))).
Definition dIm_dth (inorm yk : C) (k : pol) : Q := qopp (im (Cmul (Cmul inorm yk) (Vof k))).
Definition dIm_dvm (inorm yk : C) (k : pol) : Q := re (Cmul (Cmul inorm yk) (Vn k)).

(* ------------------------------------------------------------------ one WLS step *)
Record meas := { hrow : list Q;       (* row of the Jacobian H *)
                 wgt : Q;             (* 1/sigma^2 *)
                 res : Q }.           (* z - h(x) *)
Definition qsum (l : list Q) : Q := fold_right qadd 0 l.
Definition col (j : nat) (m : meas) : Q := nth j (hrow m) 0.
(* rhs = H^T R^-1 r ; G = H^T R^-1 H  (base.py:113, :123) *)
Definition rhs (j : nat) (ms : list meas) : Q := qsum (map (fun m => qmul (qmul (col j m) (wgt m)) (res m)) ms).
Definition gain (j k : nat) (ms : list meas) : Q := qsum (map (fun m => qmul (qmul (col j m) (wgt m)) (col k m)) ms).
(* objective J = r^T R^-1 r (:137) *)
Definition objective (ms : list meas) : Q := qsum (map (fun m => qmul (qmul (res m) (wgt m)) (res m)) ms).
Definition dot (a b : list Q) : Q := qsum (map (fun p => qmul (fst p) (snd p)) (combine a b)).
(* (G d)_j for a state increment d of length n *)
Definition gain_times (n : nat) (ms : list meas) (d : list Q) (j : nat) : Q :=
  qsum (map (fun k => qmul (gain j k ms) (nth k d 0)) (seq 0 n)).

(* ------------------------------------------------------------------ what the loop leaves behind for the bad-data tests *)
(* base.py:95-131,153-159: every pass computes r = z - h(E) and H at the CURRENT E, then updates E += d_E; after the loop
   self.r, self.H, self.Gm are the values of the LAST PASS, i.e. of the state before the final update, while
   self.hx = create_hx(final E).  One scalar state is enough to exhibit it: [steps] are the increments returned by the
   solver (oracle), h the measurement function. *)
Fixpoint wls_loop (h : Q -> Q) (z : Q) (x : Q) (r_stored : Q) (steps : list Q) : Q * Q :=
  match steps with
  | [] => (x, r_stored)
  | d :: rest => wls_loop h z (qadd x d) (qsub z (h x)) rest
  end.
Definition final_state (h : Q -> Q) (z x0 : Q) (steps : list Q) : Q := fst (wls_loop h z x0 0 steps).
(* before the repair "fix: WLS state estimation stores residual, Jacobian and gain matrix of the returned state":
   self.r = the r of the last pass *)
Definition stored_residual_old (h : Q -> Q) (z x0 : Q) (steps : list Q) : Q := snd (wls_loop h z x0 0 steps).
(* after the repair (base.py: r = create_rx(eppci.E) once more after the loop): the loop's r is discarded *)
Definition stored_residual (h : Q -> Q) (z x0 : Q) (steps : list Q) : Q :=
  let '(x, _) := wls_loop h z x0 0 steps in qsub z (h x).
(* guard: the last increment is exactly zero (the loop ran one more pass after reaching the solution) *)
Definition G19_last_step_zero (steps : list Q) : bool := match rev steps with d :: _ => qeqb d 0 | [] => false end.

(* ------------------------------------------------------------------ redundant measurements are merged *)
(* _calculate_weighted_measurements: weight = 1/std^2 ; merged value = sum(w*z) * (1/sum w) ; merged std = sqrt(1/sum w) *)
Definition mweight (std : Q) : Q := qdiv 1 (qmul std std).
Definition merged_value (zs : list (Q * Q)) : Q :=      (* list of (value, std_dev) *)
  qmul (qsum (map (fun p => qmul (mweight (snd p)) (fst p)) zs)) (qdiv 1 (qsum (map (fun p => mweight (snd p)) zs))).
Definition merged_var (zs : list (Q * Q)) : Q := qdiv 1 (qsum (map (fun p => mweight (snd p)) zs)).   (* = merged std^2 *)

(* ------------------------------------------------------------------ run wrappers *)
Definition run_merge_mask (m1 m2 : list nat) : out :=
  let '(tot, f1, f2) := merge_mask m1 m2 in
  OL [olist onat tot; olist OB f1; olist OB f2; olist onat (rows_P m1 m2); olist onat (rows_Q m1 m2)].
(* h(x) of every kind at once: [Sbus per bus] [Sf, St, |If|^2, |It|^2 per branch] *)
Definition run_hx (V : list C) (ybus : list (list (nat * C))) (brs : list branch) : out :=
  OL [ OL (map (fun p => oc (S_bus V (fst p) (snd p))) (combine (seq 0 (List.length ybus)) ybus));
       OL (map (fun b => OL [oc (S_from V b); oc (S_to V b); oq (cnorm2 (I_from V b)); oq (cnorm2 (I_to V b))]) brs) ].
Definition run_normal_eq (n : nat) (ms : list meas) : out :=
  OL [ OL (map (fun j => OL (map (fun k => oq (gain j k ms)) (seq 0 n))) (seq 0 n));
       OL (map (fun j => oq (rhs j ms)) (seq 0 n));
       oq (objective ms) ].
(* Jacobian rows of one branch: from side [th_f th_t vm_f vm_t] (complex: real part = dP row, imaginary part = dQ row),
   to side in the same column order, then the |I| rows of both sides (mf, mt = abs(If), abs(It) oracles) *)
Definition run_jac_branch (b : branch) (f t : pol) (mf mt : Q) : out :=
  let inf := Inorm (yff b) (yft b) f t mf in
  let int_ := Inorm (ytt b) (ytf b) t f mt in
  OL [ OL [oc (dS_dth_s (yff b) (yft b) f t); oc (dS_dth_e (yff b) (yft b) f t);
           oc (dS_dvm_s (yff b) (yft b) f t); oc (dS_dvm_e (yff b) (yft b) f t)];
       OL [oc (dS_dth_e (ytt b) (ytf b) t f); oc (dS_dth_s (ytt b) (ytf b) t f);
           oc (dS_dvm_e (ytt b) (ytf b) t f); oc (dS_dvm_s (ytt b) (ytf b) t f)];
       OL [oq (dIm_dth inf (yff b) f); oq (dIm_dth inf (yft b) t); oq (dIm_dvm inf (yff b) f); oq (dIm_dvm inf (yft b) t)];
       OL [oq (dIm_dth int_ (ytf b) f); oq (dIm_dth int_ (ytt b) t); oq (dIm_dvm int_ (ytf b) f); oq (dIm_dvm int_ (ytt b) t)];
       OL [oc (S_side (yff b) (yft b) (Vof f) (Vof t)); oc (S_side (ytt b) (ytf b) (Vof t) (Vof f))] ].
Definition run_merged (zs : list (Q * Q)) : out := OL [oq (merged_value zs); oq (merged_var zs)].
