(* C19 — the branch rows of the measurement Jacobian (matrix_base.py _dSbr_dv, _dImbr_dV, modelled in C19.Model) are
   the partial derivatives of the measurement functions h:
     * in rectangular form the complex power S = Vs*conj(ys*Vs + ye*Ve) is a quadratic form, so
         S(V + dV) = S(V) + DS(V)[dV] + S(dV)            exactly (the remainder is the quadratic form of the increment);
     * every polar Jacobian entry of the implementation is DS(V) applied to the tangent vector of the polar
       parametrisation V = vm*(cos th + j sin th):  d/dth -> j*V,  d/dvm -> V/|V| ;
     * the polar parametrisation itself: with the angle increment given as an oracle pair (cd, sd), cd^2 + sd^2 = 1,
         V(th+delta, vm+dv) = V + sd*(j*V) + dv*(V/|V|) + rho,  rho = -(sd^2/(1+cd))*(V + dv*Vn) + dv*sd*(j*Vn)
       (every term of rho carries two small factors);
     * all together: h(x (+) d) - h(x) - J*d == DS(V)[rho] + S(DeltaV)   (second order in d), stated as an exact identity;
     * |I|: with m = |I|, m' = |I + dI| (oracles, squares constrained), (m' - m - J*d)*(m' + m) == |dI|^2 - (J*d)*(m' - m). *)
From Coq Require Import ZArith QArith List Bool Lqa Setoid Morphisms.
From PPV Require Import Base.QN Base.QC C19.Model.
Open Scope Q_scope.

(* the real-linear differential of S at (Vs, Ve) in direction (dVs, dVe) *)
Definition DS (ys ye Vs Ve dVs dVe : C) : C :=
  Cadd (Cmul dVs (Cconj (I_side ys ye Vs Ve))) (Cmul Vs (Cconj (I_side ys ye dVs dVe))).

(* ---------------------------------------------------------------- rectangular form: exact second-order expansion *)
Lemma S_expand : forall ys ye Vs Ve dVs dVe,
  S_side ys ye (Cadd Vs dVs) (Cadd Ve dVe) ==c
  Cadd (Cadd (S_side ys ye Vs Ve) (DS ys ye Vs Ve dVs dVe)) (S_side ys ye dVs dVe).
Proof. intros. unfold S_side, DS, I_side. csimp. split; ring. Qed.

(* the remainder is homogeneous of degree two; the differential is real-linear *)
Lemma S_quadratic : forall ys ye t dVs dVe,
  S_side ys ye (Cscale t dVs) (Cscale t dVe) ==c Cscale (t * t) (S_side ys ye dVs dVe).
Proof. intros. unfold S_side, I_side. csimp. split; ring. Qed.
Lemma DS_scale : forall ys ye Vs Ve t dVs dVe,
  DS ys ye Vs Ve (Cscale t dVs) (Cscale t dVe) ==c Cscale t (DS ys ye Vs Ve dVs dVe).
Proof. intros. unfold DS, I_side. csimp. split; ring. Qed.
Lemma DS_add : forall ys ye Vs Ve a b a' b',
  DS ys ye Vs Ve (Cadd a a') (Cadd b b') ==c Cadd (DS ys ye Vs Ve a b) (DS ys ye Vs Ve a' b').
Proof. intros. unfold DS, I_side. csimp. split; ring. Qed.

(* ---------------------------------------------------------------- the implementation's entries are DS at the polar tangents *)
Lemma dS_dth_s_is_DS : forall ys ye s e,
  dS_dth_s ys ye s e ==c DS ys ye (Vof s) (Vof e) (Cmul Cj (Vof s)) C0.
Proof. intros. unfold dS_dth_s, DS, I_side, Vof, Vn. csimp. split; ring. Qed.
Lemma dS_dth_e_is_DS : forall ys ye s e,
  dS_dth_e ys ye s e ==c DS ys ye (Vof s) (Vof e) C0 (Cmul Cj (Vof e)).
Proof. intros. unfold dS_dth_e, DS, I_side, Vof, Vn. csimp. split; ring. Qed.
Lemma dS_dvm_s_is_DS : forall ys ye s e,
  dS_dvm_s ys ye s e ==c DS ys ye (Vof s) (Vof e) (Vn s) C0.
Proof. intros. unfold dS_dvm_s, DS, I_side, Vof, Vn. csimp. split; ring. Qed.
Lemma dS_dvm_e_is_DS : forall ys ye s e,
  dS_dvm_e ys ye s e ==c DS ys ye (Vof s) (Vof e) C0 (Vn e).
Proof. intros. unfold dS_dvm_e, DS, I_side, Vof, Vn. csimp. split; ring. Qed.

(* ---------------------------------------------------------------- the polar parametrisation *)
Definition unit (c s : Q) : Prop := c * c + s * s == 1.
(* theta + delta (delta given by its cosine cd and sine sd), vm + dv *)
Definition move (p : pol) (cd sd dv : Q) : pol :=
  {| vm := qadd (vm p) dv; pc := qsub (qmul (pc p) cd) (qmul (ps p) sd); ps := qadd (qmul (ps p) cd) (qmul (pc p) sd) |}.
(* first-order part of the displacement of V, and the rest *)
Definition lin (p : pol) (sd dv : Q) : C := Cadd (Cscale sd (Cmul Cj (Vof p))) (Cscale dv (Vn p)).
Definition rho (p : pol) (cd sd dv : Q) : C :=
  Cadd (Cadd (Cscale (cd - 1) (Vof p)) (Cscale (dv * (cd - 1)) (Vn p))) (Cscale (dv * sd) (Cmul Cj (Vn p))).

Lemma move_unit : forall p cd sd dv, unit (pc p) (ps p) -> unit cd sd -> unit (pc (move p cd sd dv)) (ps (move p cd sd dv)).
Proof.
  intros p cd sd dv H1 H2. unfold unit, move in *. cbn [pc ps]. qnorm.
  setoid_replace ((pc p * cd - ps p * sd) * (pc p * cd - ps p * sd) + (ps p * cd + pc p * sd) * (ps p * cd + pc p * sd))
    with ((pc p * pc p + ps p * ps p) * (cd * cd + sd * sd)) by ring.
  rewrite H1, H2. ring.
Qed.

Lemma move_expand : forall p cd sd dv,
  Vof (move p cd sd dv) ==c Cadd (Cadd (Vof p) (lin p sd dv)) (rho p cd sd dv).
Proof. intros. unfold lin, rho, move, Vof, Vn. cbn [vm pc ps]. csimp. split; ring. Qed.

(* cd - 1 is itself of second order: (1 - cd)(1 + cd) = sd^2 *)
Lemma one_minus_cos : forall cd sd, unit cd sd -> (1 - cd) * (1 + cd) == sd * sd.
Proof. intros cd sd H. unfold unit in H. rewrite <- (Qplus_inj_r _ _ (cd * cd)). ring_simplify. rewrite <- H. ring. Qed.

Lemma rho_second_order : forall p cd sd dv, unit cd sd -> ~ 1 + cd == 0 ->
  rho p cd sd dv ==c
  Cadd (Cscale (- (sd * sd) / (1 + cd)) (Cadd (Vof p) (Cscale dv (Vn p)))) (Cscale (dv * sd) (Cmul Cj (Vn p))).
Proof.
  intros p cd sd dv H N.
  assert (E : cd - 1 == - (sd * sd) / (1 + cd)).
  { rewrite <- (one_minus_cos cd sd H). field. exact N. }
  unfold rho. transitivity (Cadd (Cscale (cd - 1) (Cadd (Vof p) (Cscale dv (Vn p)))) (Cscale (dv * sd) (Cmul Cj (Vn p)))).
  - unfold Vof, Vn. csimp. split; ring.
  - apply Cadd_proper; [| reflexivity]. apply Cscale_proper; [exact E | reflexivity].
Qed.

(* ---------------------------------------------------------------- power rows: h(x (+) d) - h(x) - J*d is of second order *)
(* J*d with the real increments (sd_s, sd_e, dv_s, dv_e) of (th_s, th_e, vm_s, vm_e) *)
Definition Jd_S (ys ye : C) (s e : pol) (sds sde dvs dve : Q) : C :=
  Cadd (Cadd (Cscale sds (dS_dth_s ys ye s e)) (Cscale sde (dS_dth_e ys ye s e)))
       (Cadd (Cscale dvs (dS_dvm_s ys ye s e)) (Cscale dve (dS_dvm_e ys ye s e))).

Lemma Jd_S_is_DS_lin : forall ys ye s e sds sde dvs dve,
  Jd_S ys ye s e sds sde dvs dve ==c DS ys ye (Vof s) (Vof e) (lin s sds dvs) (lin e sde dve).
Proof.
  intros. unfold Jd_S, dS_dth_s, dS_dth_e, dS_dvm_s, dS_dvm_e, DS, I_side, lin.
  generalize (Vof s) (Vof e) (Vn s) (Vn e). intros Vs Ve Ns Ne. csimp. split; ring.
Qed.

Lemma taylor_glue : forall S' A J B R T D,
  S' ==c Cadd (Cadd A D) T -> D ==c Cadd B R -> J ==c B -> Csub (Csub S' A) J ==c Cadd R T.
Proof.
  intros S' A J B R T D [H1 H2] [H3 H4] [H5 H6]. csimp. rewrite H1, H2, H3, H4, H5, H6. split; ring.
Qed.
Lemma S_side_proper : forall ys ye a b a' b', a ==c a' -> b ==c b' -> S_side ys ye a b ==c S_side ys ye a' b'.
Proof. intros ys ye a b a' b' Ha Hb. unfold S_side, I_side. rewrite Ha, Hb. reflexivity. Qed.

Theorem S_polar_taylor : forall ys ye s e cds sds dvs cde sde dve,
  let s' := move s cds sds dvs in let e' := move e cde sde dve in
  Csub (Csub (S_side ys ye (Vof s') (Vof e')) (S_side ys ye (Vof s) (Vof e))) (Jd_S ys ye s e sds sde dvs dve) ==c
  Cadd (DS ys ye (Vof s) (Vof e) (rho s cds sds dvs) (rho e cde sde dve))
       (S_side ys ye (Cadd (lin s sds dvs) (rho s cds sds dvs)) (Cadd (lin e sde dve) (rho e cde sde dve))).
Proof.
  intros ys ye s e cds sds dvs cde sde dve s' e'.
  assert (Es : Vof s' ==c Cadd (Vof s) (Cadd (lin s sds dvs) (rho s cds sds dvs))).
  { unfold s'. etransitivity; [apply move_expand | symmetry; apply Cadd_assoc]. }
  assert (Ee : Vof e' ==c Cadd (Vof e) (Cadd (lin e sde dve) (rho e cde sde dve))).
  { unfold e'. etransitivity; [apply move_expand | symmetry; apply Cadd_assoc]. }
  apply (taylor_glue _ _ _ (DS ys ye (Vof s) (Vof e) (lin s sds dvs) (lin e sde dve)) _ _
           (DS ys ye (Vof s) (Vof e) (Cadd (lin s sds dvs) (rho s cds sds dvs)) (Cadd (lin e sde dve) (rho e cde sde dve)))).
  - etransitivity; [apply (S_side_proper ys ye _ _ _ _ Es Ee) | apply S_expand].
  - apply DS_add.
  - apply Jd_S_is_DS_lin.
Qed.

(* ---------------------------------------------------------------- current-magnitude rows *)
(* generic: m = |I|, m' = |I + dI| ; the linear term is re(conj(I)/m * dI) *)
Lemma abs_taylor : forall I dI m m',
  ~ m == 0 -> m * m == cnorm2 I -> m' * m' == cnorm2 (Cadd I dI) ->
  let Jd := re (Cmul (Cscale (1 / m) (Cconj I)) dI) in
  (m' - m - Jd) * (m' + m) == cnorm2 dI - Jd * (m' - m).
Proof.
  intros I dI m m' Hm H1 H2 Jd.
  assert (E : m * Jd == re I * re dI + im I * im dI).
  { unfold Jd. csimp. field. exact Hm. }
  assert (X : m' * m' - m * m == 2 * (m * Jd) + cnorm2 dI).
  { rewrite H1, H2, E. csimp. ring. }
  setoid_replace ((m' - m - Jd) * (m' + m)) with ((m' * m' - m * m) - Jd * (m' + m)) by ring.
  rewrite X. ring.
Qed.

(* I is linear in V *)
Lemma I_side_add : forall ys ye a b a' b',
  I_side ys ye (Cadd a a') (Cadd b b') ==c Cadd (I_side ys ye a b) (I_side ys ye a' b').
Proof. intros. unfold I_side. csimp. split; ring. Qed.

(* J*d of the |I| row = re(Inorm * I(lin_s, lin_e)) : the entries of _dImbr_dV are the coefficients of that linear form *)
Definition Jd_I (ys ye : C) (s e : pol) (m : Q) (sds sde dvs dve : Q) : Q :=
  let inorm := Inorm ys ye s e m in
  sds * dIm_dth inorm ys s + sde * dIm_dth inorm ye e + dvs * dIm_dvm inorm ys s + dve * dIm_dvm inorm ye e.
Lemma Jd_I_is_linear_form : forall ys ye s e m sds sde dvs dve,
  Jd_I ys ye s e m sds sde dvs dve ==
  re (Cmul (Inorm ys ye s e m) (I_side ys ye (lin s sds dvs) (lin e sde dve))).
Proof.
  intros. unfold Jd_I, dIm_dth, dIm_dvm, I_side, lin.
  set (n := Inorm ys ye s e m). unfold Vof, Vn. csimp. ring.
Qed.

Theorem I_polar_taylor : forall ys ye s e cds sds dvs cde sde dve m m',
  let s' := move s cds sds dvs in let e' := move e cde sde dve in
  let I := I_side ys ye (Vof s) (Vof e) in
  let dI := I_side ys ye (Cadd (lin s sds dvs) (rho s cds sds dvs)) (Cadd (lin e sde dve) (rho e cde sde dve)) in
  ~ m == 0 -> m * m == cnorm2 I -> m' * m' == cnorm2 (I_side ys ye (Vof s') (Vof e')) ->
  let Jd := Jd_I ys ye s e m sds sde dvs dve in
  let r2 := re (Cmul (Inorm ys ye s e m) (I_side ys ye (rho s cds sds dvs) (rho e cde sde dve))) in
  (m' - m - Jd) * (m' + m) == cnorm2 dI - (Jd + r2) * (m' - m) + r2 * (m' + m).
Proof.
  intros ys ye s e cds sds dvs cde sde dve m m' s' e' I dI Hm H1 H2 Jd r2.
  assert (EI : I_side ys ye (Vof s') (Vof e') ==c Cadd I dI).
  { unfold s', e', I, dI. unfold I_side. rewrite !move_expand. csimp. split; ring. }
  assert (H2' : m' * m' == cnorm2 (Cadd I dI)).
  { rewrite H2. destruct EI as [A B]. unfold cnorm2. qnorm. rewrite A, B. reflexivity. }
  pose proof (abs_taylor I dI m m' Hm H1 H2') as T. cbv zeta in T.
  assert (EJ : re (Cmul (Cscale (1 / m) (Cconj I)) dI) == Jd + r2).
  { unfold Jd, r2. rewrite Jd_I_is_linear_form. unfold Inorm. fold I. unfold dI.
    generalize (Cconj I) (lin s sds dvs) (lin e sde dve) (rho s cds sds dvs) (rho e cde sde dve).
    intros cI ls le rs re_. unfold I_side. csimp. ring. }
  rewrite EJ in T.
  setoid_replace ((m' - m - Jd) * (m' + m)) with ((m' - m - (Jd + r2)) * (m' + m) + r2 * (m' + m)) by ring.
  rewrite T. ring.
Qed.
