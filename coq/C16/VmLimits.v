(* C16 — the voltage limits the OPF gets: fixed ext_grids (controllable column), gen.max_vm_pu / min_vm_pu *)
From Coq Require Import ZArith QArith List Bool Lia Lqa String.
From PPV Require Import Base.QN Base.Out C16.Model C16.Proofs.
Import ListNotations.
Open Scope Q_scope.

(* ---- ext_grids: when the index labels are the positions 0..n-1 every fixed ext_grid pins its bus to its OWN vm_pu,
   controllable and out-of-service ext_grids write nothing *)
Lemma np_pos_in n k : (k < n)%nat -> np_pos n (Z.of_nat k) = Some k.
Proof.
  intros H. unfold np_pos.
  assert (E1 : (0 <=? Z.of_nat k)%Z = true) by (apply Z.leb_le; lia).
  assert (E2 : (Z.of_nat k <? Z.of_nat n)%Z = true) by (apply Z.ltb_lt; lia).
  rewrite E1, E2. cbn [andb]. now rewrite Nat2Z.id.
Qed.

Lemma eg_go_spec all : forall rows pre, all = pre ++ rows ->
  labels_are_positions (Z.of_nat (List.length pre)) rows = true -> eg_writes_go_old all rows = Some (eg_writes_spec rows).
Proof.
  induction rows as [|r t IH]; intros pre Hall Hl; [reflexivity|].
  cbn [labels_are_positions] in Hl. apply andb_true_iff in Hl. destruct Hl as [Hr Ht]. apply Z.eqb_eq in Hr.
  cbn [eg_writes_go_old]. rewrite (IH (pre ++ [r])).
  2:{ rewrite <- app_assoc. exact Hall. }
  2:{ rewrite app_length. cbn [List.length]. replace (Z.of_nat (List.length pre + 1)) with (Z.of_nat (List.length pre) + 1)%Z by lia. exact Ht. }
  unfold eg_writes_spec. cbn [filter]. destruct (x_on r); cbn [andb]; [|reflexivity].
  destruct (x_ctrl r) as [[|]|]; cbn [map]; try reflexivity.
  rewrite Hr, np_pos_in by (rewrite Hall, app_length; cbn; lia).
  rewrite Hall, nth_error_app2, Nat.sub_diag by lia. reflexivity.
Qed.

Lemma eg_writes_old_partial egs : G16eg_old egs = true -> eg_writes_old egs = Some (eg_writes_spec egs).
Proof. intros H. apply (eg_go_spec egs egs []); [reflexivity | exact H]. Qed.

(* as it is: with other labels the voltage of ANOTHER ext_grid is used, or the build raises *)
Definition eg_swapped : list egrow :=
  [ {| x_label := 1; x_bus := 0; x_vm := 1; x_on := true; x_ctrl := Some false |};
    {| x_label := 0; x_bus := 2; x_vm := 51 # 50; x_on := true; x_ctrl := Some false |} ].
Lemma eg_writes_old_refuted :
  eg_writes_old eg_swapped = Some [(0%nat, 51 # 50); (2%nat, 1)] /\ eg_writes_spec eg_swapped = [(0%nat, 1); (2%nat, 51 # 50)] /\
  eg_writes_old [ {| x_label := 3; x_bus := 0; x_vm := 1; x_on := true; x_ctrl := Some false |} ] = None.
Proof. repeat split. Qed.

(* repaired: every fixed ext_grid pins its bus to its OWN vm_pu, for any index labels *)
Lemma eg_writes_own egs : eg_writes egs = Some (eg_writes_spec egs).
Proof. reflexivity. Qed.

(* ---- gen voltage limits *)
Lemma set_nth_nth {A} (l : list A) k a d : (k < List.length l)%nat -> nth k (set_nth l k a) d = a.
Proof. intros H. apply nth_error_nth. apply set_nth_same. exact H. Qed.
Lemma set_nth_nth_other {A} (l : list A) k j a d : k <> j -> nth j (set_nth l k a) d = nth j l d.
Proof.
  revert k j. induction l as [|x l IH]; intros [|k] [|j] H; cbn; try reflexivity; try congruence.
  apply IH. congruence.
Qed.

Lemma vmax_fold_length_old lims0 gens : forall l, List.length (fold_left (gen_vmax_step_old lims0) gens l) = List.length l.
Proof.
  induction gens as [|g gens IH]; intros l; [reflexivity|]. cbn [fold_left]. rewrite IH. unfold gen_vmax_step_old.
  destruct (ltb_nan _ _); [reflexivity | apply set_nth_length].
Qed.
Lemma vmax_fold_untouched_old lims0 gens b : forall l,
  (forall g, In g gens -> fst (fst g) <> b) -> nth b (fold_left (gen_vmax_step_old lims0) gens l) (None, None) = nth b l (None, None).
Proof.
  induction gens as [|g gens IH]; intros l H; [reflexivity|]. cbn [fold_left].
  rewrite IH by (intros g' Hg'; apply H; now right). unfold gen_vmax_step_old.
  destruct (ltb_nan _ _); [reflexivity|]. apply set_nth_nth_other. apply H. now left.
Qed.

Lemma nodup_nat_app_inv l1 x l2 : nodup_nat (l1 ++ x :: l2) = true -> ~ In x l1 /\ ~ In x l2.
Proof.
  induction l1 as [|y l1 IH]; cbn [app nodup_nat]; intros H; apply andb_true_iff in H; destruct H as [H1 H2].
  - split; [intros []|]. intros Hin. apply negb_true_iff in H1.
    assert (existsb (Nat.eqb x) l2 = true) by (apply existsb_exists; exists x; split; [exact Hin | apply Nat.eqb_refl]).
    congruence.
  - destruct (IH H2) as [I1 I2]. split; [|exact I2]. intros [->|Hin]; [|exact (I1 Hin)].
    apply negb_true_iff in H1.
    assert (existsb (Nat.eqb x) (l1 ++ x :: l2) = true).
    { apply existsb_exists. exists x. split; [apply in_or_app; right; now left | apply Nat.eqb_refl]. }
    congruence.
Qed.

(* with at most one in-service gen per bus: the upper limit handed to the OPF at the gen's bus is the tighter one of
   the bus limit and the gen's max_vm_pu, the lower limit is untouched by the maximum pass *)
Theorem gen_vmax_old_partial lims gens b mx mn hi0 lo0 :
  G16vm_old gens = true -> In (b, Some mx, mn) gens -> nth_error lims b = Some (lo0, Some hi0) ->
  exists v, nth b (fold_left (gen_vmax_step_old lims) gens lims) (None, None) = (lo0, Some v) /\ v <= hi0 /\ v <= mx /\
            (v == hi0 \/ v == mx).
Proof.
  intros HG Hin Hb. apply in_split in Hin. destruct Hin as (g1 & g2 & ->).
  unfold G16vm_old in HG. rewrite map_app in HG. cbn [map fst] in HG. apply nodup_nat_app_inv in HG. destruct HG as [N1 N2].
  assert (U1 : forall g, In g g1 -> fst (fst g) <> b).
  { intros g Hg E. apply N1. apply in_map_iff. exists g. split; [exact E | exact Hg]. }
  assert (U2 : forall g, In g g2 -> fst (fst g) <> b).
  { intros g Hg E. apply N2. apply in_map_iff. exists g. split; [exact E | exact Hg]. }
  rewrite fold_left_app. cbn [fold_left]. rewrite vmax_fold_untouched_old by exact U2.
  assert (Hn0 : nth b lims (None, None) = (lo0, Some hi0)) by (apply nth_error_nth; exact Hb).
  assert (Hlen : (b < List.length lims)%nat) by (apply nth_error_Some; congruence).
  unfold gen_vmax_step_old at 1. cbv zeta. cbn [fst snd]. unfold olim in *. rewrite Hn0. cbn [snd ltb_nan].
  destruct (qltb hi0 mx) eqn:E.
  - apply qltb_lt in E. rewrite vmax_fold_untouched_old by exact U1. unfold olim in *. rewrite Hn0.
    exists hi0. repeat split; try lra; try (now left).
  - apply qltb_ge in E. rewrite set_nth_nth by (rewrite vmax_fold_length_old; exact Hlen).
    rewrite vmax_fold_untouched_old by exact U1. unfold olim in *. rewrite Hn0. cbn [fst].
    exists mx. repeat split; try lra; try (now right).
Qed.

(* as it is: two gens on one bus — the limit of the LAST one wins, the tighter limit of the first is dropped *)
Lemma gen_vmax_old_refuted :
  exists lims gens b mx mn, In (b, Some mx, mn) gens /\
    exists v, nth b (gen_vm_limits_old lims gens true false) (None, None) = (Some (19 # 20), Some v) /\ mx < v.
Proof.
  exists [(Some (19 # 20), Some (11 # 10)); (Some (19 # 20), Some (11 # 10))],
         [(1%nat, Some (103 # 100), None); (1%nat, Some (105 # 100), None)], 1%nat, (103 # 100), None.
  split; [now left|]. exists (105 # 100). split; [vm_compute; reflexivity | reflexivity].
Qed.

(* ---- repaired rule: any number of gens per bus *)
Lemma qmin_le x y : qmin x y <= x /\ qmin x y <= y.
Proof.
  unfold qmin. destruct (qltb y x) eqn:E; [apply qltb_lt in E | apply qltb_ge in E]; split; lra.
Qed.

Lemma vmax_step_length lims0 l g : List.length (gen_vmax_step lims0 l g) = List.length l.
Proof. unfold gen_vmax_step. destruct (ltb_nan _ _); [reflexivity | apply set_nth_length]. Qed.

Lemma vmax_fold_inv lims b lo0 hi0 : snd (nth b lims (None, None)) = Some hi0 ->
  forall gens l c, nth b l (None, None) = (lo0, Some c) -> c <= hi0 -> (b < List.length l)%nat ->
  (forall g, In g gens -> fst (fst g) = b -> exists m, snd (fst g) = Some m) ->
  exists c', nth b (fold_left (gen_vmax_step lims) gens l) (None, None) = (lo0, Some c') /\ c' <= c /\
    forall g m, In g gens -> fst (fst g) = b -> snd (fst g) = Some m -> c' <= m.
Proof.
  intros H0. induction gens as [|g gens IH]; intros l c Hl Hc Hlen Hsome.
  - exists c. split; [exact Hl|]. split; [lra|]. intros g m [].
  - cbn [fold_left].
    assert (Hsome' : forall g', In g' gens -> fst (fst g') = b -> exists m, snd (fst g') = Some m)
      by (intros g' Hg'; apply Hsome; now right).
    destruct (Nat.eq_dec (fst (fst g)) b) as [Eb|Nb].
    + destruct (Hsome g (or_introl eq_refl) Eb) as [m Hm].
      unfold gen_vmax_step at 2. cbv zeta. rewrite Eb, Hm. unfold olim in *. rewrite H0. cbn [ltb_nan].
      destruct (qltb hi0 m) eqn:E.
      * apply qltb_lt in E. destruct (IH l c Hl Hc Hlen Hsome') as (c' & N & Lc & Lm).
        exists c'. split; [exact N|]. split; [exact Lc|].
        intros g' m' [<-|Hg'] Hb' Hm'; [rewrite Hm in Hm'; injection Hm' as <-; lra | exact (Lm g' m' Hg' Hb' Hm')].
      * apply qltb_ge in E. rewrite Hl. cbn [fst snd nmin].
        destruct (qmin_le c m) as [Q1 Q2].
        destruct (IH (set_nth l b (lo0, Some (qmin c m))) (qmin c m)) as (c' & N & Lc & Lm).
        { apply set_nth_nth. exact Hlen. } { lra. } { rewrite set_nth_length. exact Hlen. } { exact Hsome'. }
        exists c'. split; [exact N|]. split; [lra|].
        intros g' m' [<-|Hg'] Hb' Hm'; [rewrite Hm in Hm'; injection Hm' as <-; lra | exact (Lm g' m' Hg' Hb' Hm')].
    + assert (Hl' : nth b (gen_vmax_step lims l g) (None, None) = (lo0, Some c)).
      { unfold gen_vmax_step. destruct (ltb_nan _ _); [exact Hl|]. rewrite set_nth_nth_other by exact Nb. exact Hl. }
      destruct (IH _ c Hl' Hc ltac:(rewrite vmax_step_length; exact Hlen) Hsome') as (c' & N & Lc & Lm).
      exists c'. split; [exact N|]. split; [exact Lc|].
      intros g' m' [<-|Hg'] Hb' Hm'; [congruence | exact (Lm g' m' Hg' Hb' Hm')].
Qed.

(* the upper limit handed to the OPF at a bus respects the bus limit AND the max_vm_pu of EVERY in-service gen at
   that bus (none of them NaN), in any order *)
Theorem gen_vmax_all lims gens b lo0 hi0 :
  nth_error lims b = Some (lo0, Some hi0) ->
  (forall g, In g gens -> fst (fst g) = b -> exists m, snd (fst g) = Some m) ->
  exists v, nth b (fold_left (gen_vmax_step lims) gens lims) (None, None) = (lo0, Some v) /\ v <= hi0 /\
    forall g m, In g gens -> fst (fst g) = b -> snd (fst g) = Some m -> v <= m.
Proof.
  intros Hb Hsome.
  assert (Hn0 : nth b lims (None, None) = (lo0, Some hi0)) by (apply nth_error_nth; exact Hb).
  assert (Hlen : (b < List.length lims)%nat) by (apply nth_error_Some; congruence).
  apply (vmax_fold_inv lims b lo0 hi0); [unfold olim in *; rewrite Hn0; reflexivity | exact Hn0 | lra | exact Hlen | exact Hsome].
Qed.

(* the witness of the old rule now gets the tighter limit *)
Lemma gen_vmax_witness_repaired :
  nth 1%nat (gen_vm_limits [(Some (19 # 20), Some (11 # 10)); (Some (19 # 20), Some (11 # 10))]
                           [(1%nat, Some (103 # 100), None); (1%nat, Some (105 # 100), None)] true false) (None, None)
  = (Some (19 # 20), Some (103 # 100)).
Proof. vm_compute. reflexivity. Qed.

Example vm_limits_nonvacuous :
  G16vm_old [(1%nat, Some (103 # 100), None); (2%nat, Some (105 # 100), None)] = true /\
  G16eg_old [ {| x_label := 0; x_bus := 0; x_vm := 1; x_on := true; x_ctrl := Some false |};
          {| x_label := 1; x_bus := 2; x_vm := 51 # 50; x_on := true; x_ctrl := Some true |} ] = true.
Proof. split; reflexivity. Qed.
