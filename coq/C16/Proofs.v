(* C16 — lemmas: constraint boxes pulled back through the result sign, fixed elements, dcline OPF vs PF law,
   line rating vs loading, bus voltage limit writes. *)
From Coq Require Import ZArith QArith List Bool Lia Lqa String.
From PPV Require Import Base.QN Base.Out C16.Model.
Import ListNotations.
Open Scope Q_scope.

Definition fixed_gen (k : kind) (e : elem) : bool :=
  match k, e_ctrl e with KGen, Some false => true | _, _ => false end.

Lemma rsign_cases k : (inverted k = false /\ rsign k == 1) \/ (inverted k = true /\ rsign k == -1).
Proof. unfold rsign. destruct (inverted k); [right|left]; split; reflexivity. Qed.

(* active power: the ppc box [PMIN, PMAX], read through the result sign, is the declared [min_p, max_p] widened by delta *)
Lemma box_roundtrip_p k e delta plim x mn mx :
  e_min_p e = Some mn -> e_max_p e = Some mx -> fixed_gen k e = false ->
  (PMIN (gen_row k e delta plim) <= x /\ x <= PMAX (gen_row k e delta plim))
  <-> (mn - delta <= rsign k * x /\ rsign k * x <= mx + delta).
Proof.
  intros Hmn Hmx Hf. unfold gen_row, lim_lo, lim_hi, rsign. rewrite Hmn, Hmx.
  destruct k; cbn [inverted oneg osub oadd option_map dflt PMIN PMAX];
    try (unfold fixed_gen in Hf; destruct (e_ctrl e) as [[|]|]; try discriminate);
    cbn [PMIN PMAX]; qnorm; split; intros [H1 H2]; split; lra.
Qed.

Lemma box_roundtrip_q k e delta plim x mn mx :
  e_min_q e = Some mn -> e_max_q e = Some mx ->
  (QMIN (gen_row k e delta plim) <= x /\ x <= QMAX (gen_row k e delta plim))
  <-> (mn - delta <= rsign k * x /\ rsign k * x <= mx + delta).
Proof.
  intros Hmn Hmx. unfold gen_row, lim_lo, lim_hi, rsign. rewrite Hmn, Hmx.
  destruct k; cbn [inverted oneg osub oadd option_map dflt QMIN QMAX];
    try (destruct (e_ctrl e) as [[|]|]); cbn [QMIN QMAX]; qnorm; split; intros [H1 H2]; split; lra.
Qed.

(* a missing / NaN limit becomes the default limit, on the correct side after the inversion *)
Lemma box_default_p k e delta plim x :
  e_min_p e = None -> e_max_p e = None -> fixed_gen k e = false ->
  (PMIN (gen_row k e delta plim) <= x /\ x <= PMAX (gen_row k e delta plim))
  <-> (- plim <= rsign k * x /\ rsign k * x <= plim).
Proof.
  intros Hmn Hmx Hf. unfold gen_row, lim_lo, lim_hi, rsign. rewrite Hmn, Hmx.
  destruct k; cbn [inverted oneg osub oadd option_map dflt PMIN PMAX];
    try (unfold fixed_gen in Hf; destruct (e_ctrl e) as [[|]|]; try discriminate);
    cbn [PMIN PMAX]; qnorm; split; intros [H1 H2]; split; lra.
Qed.

(* the start value (= the fixed injection of an element that is not a variable), read through the result sign,
   is the scaled setpoint *)
Lemma start_is_scaled_setpoint k e delta plim :
  k <> KExt ->
  rsign k * PG (gen_row k e delta plim) == e_p e * e_scaling e.
Proof.
  intros Hk. unfold gen_row, rsign. destruct k; try congruence; cbn [inverted PG]; qnorm; ring.
Qed.

(* non-controllable generator: pinned (within delta) to its setpoint p_mw * scaling *)
Lemma fixed_gen_pinned e delta plim x :
  e_ctrl e = Some false ->
  PMIN (gen_row KGen e delta plim) <= x /\ x <= PMAX (gen_row KGen e delta plim) ->
  e_p e * e_scaling e - delta <= x /\ x <= e_p e * e_scaling e + delta.
Proof.
  intros Hc. unfold gen_row. rewrite Hc. cbn [PMIN PMAX]. qnorm. intros [H1 H2]. split; lra.
Qed.

(* the rule before the repair (box around the unscaled p_mw) *)
Lemma fixed_gen_old_partial e delta x :
  G16gen_old e = true -> e_ctrl e = Some false ->
  fst (fixed_box_old e delta) <= x /\ x <= snd (fixed_box_old e delta) ->
  e_p e * e_scaling e - delta <= x /\ x <= e_p e * e_scaling e + delta.
Proof.
  intros HG Hc. unfold G16gen_old in HG. rewrite Hc in HG. unfold fixed_box_old. cbn [fst snd]. qnorm.
  apply orb_true_iff in HG. destruct HG as [H|H]; apply qeqb_eq in H; intros [H1 H2].
  - rewrite H. split; lra.
  - rewrite H in *. split; lra.
Qed.
Definition bad_gen : elem :=
  {| e_p := 1; e_q := 0; e_scaling := 1 # 2; e_min_p := Some 0; e_max_p := Some 2; e_min_q := None; e_max_q := None;
     e_ctrl := Some false |}.
Lemma fixed_gen_old_refuted :
  exists e delta x, e_ctrl e = Some false /\ 0 <= delta /\
    (fst (fixed_box_old e delta) <= x /\ x <= snd (fixed_box_old e delta)) /\
    ~ (e_p e * e_scaling e - delta <= x /\ x <= e_p e * e_scaling e + delta).
Proof.
  exists bad_gen, 0, 1. split; [reflexivity|]. split; [lra|]. split.
  - vm_compute. split; discriminate.
  - intros [_ H]. vm_compute in H. apply H. reflexivity.
Qed.

(* ---------------------------------------------------------------- dcline *)
Lemma qabs'_pos x : 0 < x -> qabs' x == x.
Proof. intros H. unfold qabs'. destruct (qltb x 0) eqn:E; [apply qltb_lt in E; lra | reflexivity]. Qed.
Lemma qabs'_nonpos x : x <= 0 -> qabs' x == - x.
Proof.
  intros H. unfold qabs'. destruct (qltb x 0) eqn:E; qnorm; [reflexivity|].
  apply qltb_ge in E. lra.
Qed.

(* the generator pair of the power-flow model of a dcline satisfies the OPF constraint: every dcline, both directions *)
Lemma dcline_opf_eq_pf d :
  opf_lhs d (g_to (pf_dcline d)) (g_from (pf_dcline d)) == opf_rhs d.
Proof.
  unfold opf_lhs, opf_rhs, pf_dcline. destruct (qltb 0 (d_p d)) eqn:E; cbn [g_to g_from]; qnorm.
  - apply qltb_lt in E. rewrite (qabs'_pos _ E). field.
  - field.
Qed.

(* and conversely the OPF constraint determines the receiving-end power from the sending-end power: an OPF result
   that takes the same power at the sending end as the power flow delivers the same power at the receiving end *)
Lemma dcline_opf_determines_receiving d pg_to pg_from :
  opf_lhs d pg_to pg_from == opf_rhs d ->
  (0 < d_p d -> pg_from == g_from (pf_dcline d) -> pg_to == g_to (pf_dcline d)) /\
  (d_p d <= 0 -> pg_to == g_to (pf_dcline d) -> pg_from == g_from (pf_dcline d)).
Proof.
  intros H. pose proof (dcline_opf_eq_pf d) as Hpf. unfold opf_lhs, opf_rhs in *.
  destruct (qltb 0 (d_p d)) eqn:E; revert H Hpf; qnorm; intros H Hpf; split; intros Hd Heq.
  - rewrite Heq in H. lra.
  - apply qltb_lt in E. lra.
  - apply qltb_ge in E. lra.
  - rewrite Heq in H. lra.
Qed.

(* the constraint before the repair held at the power-flow point only for loss_percent = 0, with the exact residual *)
Lemma dcline_old_partial d :
  G16dc_old d = true -> 0 < d_p d ->
  opf_lhs_old d (g_to (pf_dcline d)) (g_from (pf_dcline d)) == opf_rhs d.
Proof.
  unfold G16dc_old. intros H Hp. apply qeqb_eq in H.
  unfold opf_lhs_old, opf_rhs, pf_dcline.
  assert (E : qltb 0 (d_p d) = true) by (apply qltb_lt; exact Hp). rewrite E. cbn [g_to g_from]. qnorm.
  rewrite H, (qabs'_pos _ Hp). field.
Qed.
Lemma dcline_old_deviation d :
  0 < d_p d ->
  opf_lhs_old d (g_to (pf_dcline d)) (g_from (pf_dcline d)) - opf_rhs d
  == - (d_loss_pct d / 100) * (d_p d * (d_loss_pct d / 100) + d_loss_mw d).
Proof.
  intros Hp. unfold opf_lhs_old, opf_rhs, pf_dcline.
  assert (E : qltb 0 (d_p d) = true) by (apply qltb_lt; exact Hp). rewrite E. cbn [g_to g_from]. qnorm.
  rewrite (qabs'_pos _ Hp). field.
Qed.
Lemma dcline_old_refuted :
  exists d, d_in d = true /\ 0 < d_p d /\
    ~ opf_lhs_old d (g_to (pf_dcline d)) (g_from (pf_dcline d)) == opf_rhs d.
Proof.
  exists {| d_p := 1; d_loss_pct := 5; d_loss_mw := 0; d_max_p := 2; d_in := true |}.
  split; [reflexivity|]. split; [reflexivity|]. vm_compute. discriminate.
Qed.

(* constraint rows: one row per in-service dcline, each stating the constraint of its own dcline *)
Lemma dcline_rows_spec ds :
  exists rows, dcline_rows ds = Some rows /\ List.length rows = List.length (filter d_in ds) /\
    forall k d, nth_error (filter d_in ds) k = Some d ->
      exists r, nth_error rows k = Some r /\
        forall pg_to pg_from, fst (fst r) * pg_to + snd (fst r) * pg_from == opf_lhs d pg_to pg_from /\ snd r == opf_rhs d.
Proof.
  exists (map dc_row (filter d_in ds)). split; [reflexivity|]. split; [apply map_length|].
  intros k d Hk. exists (dc_row d). split; [now apply map_nth_error|].
  intros a b. unfold dc_row, opf_lhs, opf_rhs. destruct (qltb 0 (d_p d)); cbn [fst snd]; qnorm; split; try ring; reflexivity.
Qed.

(* before the repair a mixture of in-service and out-of-service dclines could not be set up (the impl raised) *)
Lemma filter_length_le {A} (f : A -> bool) l : (List.length (filter f l) <= List.length l)%nat.
Proof. induction l as [|a l IH]; cbn; [lia|]. destruct (f a); cbn; lia. Qed.
Lemma filter_length_all {A} (f : A -> bool) l : List.length (filter f l) = List.length l -> forallb f l = true.
Proof.
  induction l as [|a l IH]; cbn; [reflexivity|]. destruct (f a) eqn:E; cbn; intros H.
  - apply IH. lia.
  - pose proof (filter_length_le f l). lia.
Qed.
Lemma dcline_rows_old_mixed ds :
  existsb d_in ds = true -> forallb d_in ds = false -> dcline_rows_old ds = None.
Proof.
  intros He Hf. unfold dcline_rows_old.
  destruct (Nat.eqb (List.length (filter d_in ds)) 0) eqn:E0.
  - apply Nat.eqb_eq in E0. apply existsb_exists in He. destruct He as (d & Hin & Hd).
    assert (In d (filter d_in ds)) by (apply filter_In; auto).
    destruct (filter d_in ds); [contradiction | discriminate].
  - destruct (Nat.eqb (List.length (filter d_in ds)) (List.length ds)) eqn:E1; [|reflexivity].
    apply Nat.eqb_eq in E1. apply filter_length_all in E1. congruence.
Qed.

(* ---------------------------------------------------------------- line rating vs reported loading *)
(* i_ka: a terminal current in kA.  pypower compares |I| * baseMVA = i_ka * vn * sqrt3 with RATE_A (OPF_FLOW_LIM = 2);
   the result table reports loading = i_ka / (max_i_ka * df * parallel) * 100 *)
Lemma rate_a_loading max_load max_i_ka df par vn s3 i_ka :
  0 < max_i_ka * df * par -> 0 < vn -> 0 < s3 ->
  (i_ka * vn * s3 <= rate_a max_load max_i_ka df par vn s3
   <-> i_ka / (max_i_ka * df * par) * 100 <= max_load).
Proof.
  intros Hm Hv Hs. unfold rate_a. qnorm.
  assert (Hvs : 0 < vn * s3) by (apply Qmult_lt_0_compat; assumption).
  set (M := max_i_ka * df * par) in *.
  assert (E1 : max_load / 100 * max_i_ka * df * par * (vn * s3) == (max_load / 100 * M) * (vn * s3)) by (unfold M; ring).
  rewrite E1.
  assert (E2 : i_ka * vn * s3 == i_ka * (vn * s3)) by ring. rewrite E2.
  assert (E3 : i_ka / M * 100 == i_ka * (100 / M)) by (field; lra). rewrite E3.
  split; intros H.
  - assert (H' : i_ka <= max_load / 100 * M).
    { apply Qmult_le_r with (z := vn * s3); assumption. }
    assert (Hinv : 0 < 100 / M) by (apply Qlt_shift_div_l; lra).
    assert (i_ka * (100 / M) <= (max_load / 100 * M) * (100 / M)).
    { apply Qmult_le_compat_r; lra. }
    assert (E4 : max_load / 100 * M * (100 / M) == max_load) by (field; lra). lra.
  - apply Qmult_le_r; [assumption|].
    assert (i_ka * (100 / M) * (M / 100) <= max_load * (M / 100)).
    { apply Qmult_le_compat_r; [assumption|]. apply Qle_shift_div_l; lra. }
    assert (E5 : i_ka * (100 / M) * (M / 100) == i_ka) by (field; lra).
    assert (E6 : max_load * (M / 100) == max_load / 100 * M) by (field; lra). lra.
Qed.

(* ---------------------------------------------------------------- voltage limit writes *)
Lemma set_nth_same {A} (l : list A) k a : (k < List.length l)%nat -> nth_error (set_nth l k a) k = Some a.
Proof. revert k. induction l as [|x l IH]; intros [|k] H; cbn in *; try lia; [reflexivity | apply IH; lia]. Qed.
Lemma set_nth_other {A} (l : list A) k j a : k <> j -> nth_error (set_nth l k a) j = nth_error l j.
Proof.
  revert k j. induction l as [|x l IH]; intros [|k] [|j] H; cbn; try reflexivity; try congruence.
  apply IH. congruence.
Qed.
Lemma set_nth_length {A} (l : list A) k a : List.length (set_nth l k a) = List.length l.
Proof. revert k. induction l as [|x l IH]; intros [|k]; cbn; auto. Qed.
Lemma vm_writes_length lims ws delta : List.length (vm_writes lims ws delta) = List.length lims.
Proof.
  unfold vm_writes. revert lims. induction ws as [|w ws IH]; intros lims; cbn; [reflexivity|].
  rewrite IH. apply set_nth_length.
Qed.

(* a bus no fixed-voltage element sits on keeps its own limits *)
Lemma vm_writes_untouched lims ws delta b :
  (forall w, In w ws -> fst w <> b) -> nth_error (vm_writes lims ws delta) b = nth_error lims b.
Proof.
  unfold vm_writes. revert lims. induction ws as [|w ws IH]; intros lims H; cbn; [reflexivity|].
  rewrite IH by (intros w' Hw'; apply H; now right).
  apply set_nth_other. apply H. now left.
Qed.

(* the last fixed-voltage element at a bus pins it to vm +- delta *)
Lemma vm_writes_last lims ws delta b v ws' :
  (b < List.length lims)%nat -> (forall w, In w ws' -> fst w <> b) ->
  nth_error (vm_writes lims (ws ++ (b, v) :: ws') delta) b = Some (qsub v delta, qadd v delta).
Proof.
  intros Hb Hn. unfold vm_writes. rewrite fold_left_app. cbn [fold_left fst snd].
  fold (vm_writes lims ws delta).
  change (fold_left _ ws' ?l) with (vm_writes l ws' delta).
  rewrite vm_writes_untouched by exact Hn.
  apply set_nth_same. rewrite vm_writes_length. exact Hb.
Qed.

(* transformer: an apparent power (AC: sqrt3 * U_rated * I at either side; DC: |P|) within RATE_A is exactly a reported
   loading (referred to sn_mva * df * parallel) within max_loading_percent *)
Lemma rate_a_trafo_loading max_load sn df par s :
  0 < sn * df * par ->
  (s <= rate_a_trafo max_load sn df par <-> s / (sn * df * par) * 100 <= max_load).
Proof.
  intros Hm. unfold rate_a_trafo. qnorm. set (M := sn * df * par) in *.
  assert (E1 : max_load / 100 * sn * df * par == max_load / 100 * M) by (unfold M; ring). rewrite E1.
  assert (E2 : s / M * 100 == s * (100 / M)) by (field; lra). rewrite E2.
  assert (Hinv : 0 < 100 / M) by (apply Qlt_shift_div_l; lra).
  split; intros H.
  - assert (s * (100 / M) <= (max_load / 100 * M) * (100 / M)) by (apply Qmult_le_compat_r; lra).
    assert (E4 : max_load / 100 * M * (100 / M) == max_load) by (field; lra). lra.
  - assert (s * (100 / M) * (M / 100) <= max_load * (M / 100)).
    { apply Qmult_le_compat_r; [assumption|]. apply Qle_shift_div_l; lra. }
    assert (E5 : s * (100 / M) * (M / 100) == s) by (field; lra).
    assert (E6 : max_load * (M / 100) == max_load / 100 * M) by (field; lra). lra.
Qed.
