(* C16 — faithful model of the OPF constraint construction:
   build_gen.py  _init_ppc_gen :77-88, _build_pp_ext_grid :108-139, _build_pp_gen :203-231,
                 _enforce_controllable_vm_pu_p_mw :180-200, _build_pp_pq_element :255-272,
                 add_q_constraints :274-290, add_p_constraints :293-304;
   auxiliary.py  _replace_nans_with_default_limits, _add_dcline_gens (power-flow model of a dcline);
   optimal_powerflow.py _add_dcline_constraints (OPF model of a dcline);
   build_branch.py:247-258 RATE_A of lines; results write-back signs (results_bus.py write_pq_results_to_element).
   NaN / missing column = None.  Executable definitions only. *)
From Coq Require Import ZArith QArith List Bool String.
From PPV Require Import Base.QN Base.Out.
Import ListNotations.
Open Scope Q_scope.

Inductive kind := KGen | KExt | KSgen | KLoad | KStorage.
Definition inverted (k : kind) : bool := match k with KLoad | KStorage => true | _ => false end.
(* sign of the result write-back: res p = rsign * PG *)
Definition rsign (k : kind) : Q := if inverted k then (-1 # 1) else 1.

Record elem := {
  e_p : Q; e_q : Q; e_scaling : Q;
  e_min_p : option Q; e_max_p : option Q; e_min_q : option Q; e_max_q : option Q;
  e_ctrl : option bool      (* gen: the "controllable" column (None = column absent) *)
}.
Record box := { PMIN : Q; PMAX : Q; QMIN : Q; QMAX : Q; PG : Q; QG : Q }.

Definition oadd (o : option Q) (d : Q) : option Q := option_map (fun x => qadd x d) o.
Definition osub (o : option Q) (d : Q) : option Q := option_map (fun x => qsub x d) o.
Definition oneg (o : option Q) : option Q := option_map qopp o.
(* _replace_nans_with_default_limits: NaN -> default (the delta is lost with the NaN) *)
Definition dflt (o : option Q) (d : Q) : Q := match o with Some x => x | None => d end.

(* add_p_constraints / add_q_constraints (:274-304) followed by the NaN replacement *)
Definition lim_lo (inv : bool) (mn mx : option Q) (delta lim : Q) : Q :=
  if inv then dflt (osub (oneg mx) delta) (qopp lim) else dflt (osub mn delta) (qopp lim).
Definition lim_hi (inv : bool) (mn mx : option Q) (delta lim : Q) : Q :=
  if inv then dflt (oadd (oneg mn) delta) lim else dflt (oadd mx delta) lim.

(* one generator-matrix row; plim = p_lim_default also initialises the q limits (:82-83) *)
Definition gen_row (k : kind) (e : elem) (delta plim : Q) : box :=
  let inv := inverted k in
  let pmin := lim_lo inv (e_min_p e) (e_max_p e) delta plim in
  let pmax := lim_hi inv (e_min_p e) (e_max_p e) delta plim in
  let qmin := lim_lo inv (e_min_q e) (e_max_q e) delta plim in
  let qmax := lim_hi inv (e_min_q e) (e_max_q e) delta plim in
  match k with
  | KGen =>
      (* :210 PG = p_mw * scaling ; :190-200 a non-controllable gen is fixed at p_mw * scaling *)
      let fixed := match e_ctrl e with Some false => true | _ => false end in
      let sp := qmul (e_p e) (e_scaling e) in
      {| PMIN := if fixed then qsub sp delta else pmin; PMAX := if fixed then qadd sp delta else pmax;
         QMIN := qmin; QMAX := qmax; PG := qmul (e_p e) (e_scaling e); QG := 0 |}
  | KExt => {| PMIN := pmin; PMAX := pmax; QMIN := qmin; QMAX := qmax; PG := 0; QG := 0 |}
  | _ =>
      let s := rsign k in
      {| PMIN := pmin; PMAX := pmax; QMIN := qmin; QMAX := qmax;
         PG := qmul (qmul s (e_p e)) (e_scaling e); QG := qmul (qmul s (e_q e)) (e_scaling e) |}
  end.

(* before the repair a non-controllable gen was pinned to the unscaled p_mw *)
Definition fixed_box_old (e : elem) (delta : Q) : Q * Q := (qsub (e_p e) delta, qadd (e_p e) delta).

Definition in_range (lo hi x : Q) : bool := qleb lo x && qleb x hi.

(* ---- bus voltage limits: the bus columns, then ext_grids (:124-139), then non-controllable gens (:180-195);
   each write is (bus position, vm) and replaces VMAX/VMIN by vm +- delta; later writes win *)
Fixpoint set_nth {A} (l : list A) (k : nat) (a : A) : list A :=
  match l, k with
  | [], _ => []
  | _ :: t, O => a :: t
  | x :: t, S k' => x :: set_nth t k' a
  end.
Definition vm_writes (lims : list (Q * Q)) (ws : list (nat * Q)) (delta : Q) : list (Q * Q) :=
  fold_left (fun l w => set_nth l (fst w) (qsub (snd w) delta, qadd (snd w) delta)) ws lims.

(* ---- line rating (build_branch.py:247-258), s3 = sqrt 3 oracle *)
Definition rate_a (max_load max_i_ka df par vn s3 : Q) : Q :=
  qmul (qmul (qmul (qmul (qdiv max_load 100) max_i_ka) df) par) (qmul vn s3).

(* ---- dcline *)
Record dcl := { d_p : Q; d_loss_pct : Q; d_loss_mw : Q; d_max_p : Q; d_in : bool }.
(* power-flow model, auxiliary.py _add_dcline_gens: (PG of the to-bus gen, PG of the from-bus gen, and their p boxes) *)
Definition qabs' (x : Q) : Q := if qltb x 0 then qopp x else x.
Record dcgens := { g_to : Q; g_from : Q; to_lo : Q; to_hi : Q; from_lo : Q; from_hi : Q }.
Definition pf_dcline (d : dcl) : dcgens :=
  let p := qabs' (d_p d) in
  let ploss := qsub (qmul p (qsub 1 (qdiv (d_loss_pct d) 100))) (d_loss_mw d) in
  if qltb 0 (d_p d)
  then {| g_to := ploss; g_from := qopp p; to_lo := 0; to_hi := d_max_p d;
          from_lo := qopp (d_max_p d); from_hi := qopp 0 |}
  else {| g_to := qopp p; g_from := ploss; to_lo := qopp (d_max_p d); to_hi := 0;
          from_lo := qopp 0; from_hi := qopp (qopp (d_max_p d)) |}.
(* OPF model, optimal_powerflow.py _add_dcline_constraints (repaired):
   (1 - loss%/100) Pg[sending end gen] + Pg[receiving end gen] = -loss_mw, sending end = from bus iff p_mw > 0 *)
Definition opf_lhs (d : dcl) (pg_to pg_from : Q) : Q :=
  let k := qsub 1 (qdiv (d_loss_pct d) 100) in
  if qltb 0 (d_p d) then qadd (qmul k pg_from) pg_to else qadd (qmul k pg_to) pg_from.
Definition opf_rhs (d : dcl) : Q := qopp (d_loss_mw d).
(* before the repair: (1 + loss%/100) Pg[to-bus gen] + Pg[from-bus gen] = -loss_mw *)
Definition opf_lhs_old (d : dcl) (pg_to pg_from : Q) : Q :=
  qadd (qmul (qadd 1 (qdiv (d_loss_pct d) 100)) pg_to) pg_from.

(* rows of the constraint matrix as (coefficient on the to gen, coefficient on the from gen, rhs): one row per
   in-service dcline, built from its own data *)
Definition dc_row (d : dcl) : Q * Q * Q :=
  let k := qsub 1 (qdiv (d_loss_pct d) 100) in
  if qltb 0 (d_p d) then (1, k, qopp (d_loss_mw d)) else (k, 1, qopp (d_loss_mw d)).
Definition dcline_rows (ds : list dcl) : option (list (Q * Q * Q)) := Some (map dc_row (filter d_in ds)).
(* before the repair: the rows used the LAST ndc gen pairs but the loss data of the FIRST ndc dclines and a
   right-hand side with one entry per dcline: any mixture of in-service and out-of-service dclines raised *)
Definition dcline_rows_old (ds : list dcl) : option (list (Q * Q * Q)) :=
  let ndc := List.length (filter d_in ds) in
  if Nat.eqb ndc 0 then Some []
  else if Nat.eqb ndc (List.length ds)
  then Some (map (fun d => (qadd 1 (qdiv (d_loss_pct d) 100), 1, qopp (d_loss_mw d))) ds)
  else None.

(* guards of the rules before the repairs *)
Definition G16gen_old (e : elem) : bool :=
  match e_ctrl e with Some false => qeqb (e_scaling e) 1 || qeqb (e_p e) 0 | _ => true end.
Definition G16dc_old (d : dcl) : bool := qeqb (d_loss_pct d) 0.

(* ---- output *)
Definition obox (b : box) : out := OL [oq (PMIN b); oq (PMAX b); oq (QMIN b); oq (QMAX b); oq (PG b); oq (QG b)].
Definition run_gen (k : kind) (e : elem) (delta plim : Q) : out := obox (gen_row k e delta plim).
Definition run_vm (lims : list (Q * Q)) (ws : list (nat * Q)) (delta : Q) : out :=
  olist (fun p => OL [oq (fst p); oq (snd p)]) (vm_writes lims ws delta).
Definition run_dc (ds : list dcl) : out :=
  OL [ olist (fun d => let g := pf_dcline d in
                       OL [oq (g_to g); oq (g_from g); oq (to_lo g); oq (to_hi g); oq (from_lo g); oq (from_hi g)]) ds;
       match dcline_rows ds with
       | Some rows => olist (fun r => OL [oq (fst (fst r)); oq (snd (fst r)); oq (snd r)]) rows
       | None => OErr "raise" end ].
Definition run_rate (max_load max_i_ka df par vn s3 : Q) : out := oq (rate_a max_load max_i_ka df par vn s3).

(* ---- transformer rating (build_branch.py:386-396): RATE_A = max_loading_percent / 100 * sn_mva * df * parallel *)
Definition rate_a_trafo (max_load sn df par : Q) : Q := qmul (qmul (qmul (qdiv max_load 100) sn) df) par.
Definition run_rate_trafo (max_load sn df par : Q) : out := oq (rate_a_trafo max_load sn df par).

(* ================================================================ bus power balance (OPF equality constraints / power flow)
   makeSbus.py _get_Sbus :16-20  Sbus = (Cg (PG + j QG) - (PD + j QD)) / baseMVA over the generator rows that are on;
   build_bus.py _calc_pq_elements_and_add_on_ppc :605-667  PD/QD = sum of sign * p * scaling of the pq elements of the
     mode (OPF: in service and NOT controllable; power flow: in service), sign = -1 for sgen;
   build_gen.py: generator rows = ext_grids, gens (dcline generators included) and, OPF only, controllable sgen/load/storage
     with PG = rsign * p;
   opf_consfcn.py:78-93  mis = V conj(Ybus V) - Sbus,  g = [Re mis; Im mis]   (every bus);
   newtonpf.py _evaluate_Fx :693-701  F = [Re mis[pv]; Re mis[pq]; Im mis[pq]],  _check_for_convergence :894 norm(F, inf) < tol. *)
From PPV Require Import Base.QC.

Record genrow := { gb_bus : nat; gb_on : bool; gb_pg : Q; gb_qg : Q }.     (* GEN_BUS, GEN_STATUS > 0, PG, QG *)
Record dem := { dm_bus : nat; dm_p : Q; dm_q : Q }.                         (* one pq element's contribution to PD / QD *)

Definition sum_at {A} (bus : A -> nat) (val : A -> C) (l : list A) (i : nat) : C :=
  fold_right (fun a acc => if Nat.eqb (bus a) i then Cadd (val a) acc else acc) C0 l.
Definition Cdivq (z : C) (d : Q) : C := mkC (qdiv (re z) d) (qdiv (im z) d).
Definition sbus_at (base : Q) (gens : list genrow) (dems : list dem) (i : nat) : C :=
  Cdivq (Csub (sum_at gb_bus (fun g => mkC (gb_pg g) (gb_qg g)) (filter gb_on gens) i)
              (sum_at dm_bus (fun d => mkC (dm_p d) (dm_q d)) dems i)) base.

Definition row_dot (row V : list C) : C := Csum (map (fun yv => Cmul (fst yv) (snd yv)) (combine row V)).
Definition mis_at (Y : list (list C)) (V : list C) (sb : nat -> C) (i : nat) : C :=
  Csub (Cmul (nth i V C0) (Cconj (row_dot (nth i Y []) V))) (sb i).
Definition opf_g (nb : nat) (Y : list (list C)) (V : list C) (sb : nat -> C) : list Q :=
  map (fun i => re (mis_at Y V sb i)) (seq 0 nb) ++ map (fun i => im (mis_at Y V sb i)) (seq 0 nb).
Definition pf_F (Y : list (list C)) (V : list C) (sb : nat -> C) (pv pq : list nat) : list Q :=
  map (fun i => re (mis_at Y V sb i)) pv ++ map (fun i => re (mis_at Y V sb i)) pq ++ map (fun i => im (mis_at Y V sb i)) pq.
(* numpy raises on an index outside the arrays *)
Definition shapes_ok (nb : nat) (Y : list (list C)) (V : list C) (idx : list nat) : bool :=
  Nat.eqb (List.length Y) nb && Nat.eqb (List.length V) nb && forallb (fun r => Nat.eqb (List.length r) nb) Y
  && forallb (fun i => Nat.ltb i nb) idx.
Definition pf_converged (F : list Q) (tol : Q) : bool :=
  match F with [] => qltb 0 tol | _ => forallb (fun x => qltb (Qabs.Qabs x) tol) F end.

(* the elements behind the rows: own-sign powers p, q (the values of the result tables: rsign * PG for an OPF variable,
   p_mw * scaling for a fixed element), on = in service, var = OPF variable (controllable sgen / load / storage);
   xp, xq: what the generator row of the power flow holds where the dispatch gives no setpoint (P of an ext_grid,
   Q of every gen / ext_grid) *)
Record el := { l_kind : kind; l_bus : nat; l_on : bool; l_var : bool; l_p : Q; l_q : Q; l_xp : Q; l_xq : Q }.
Definition is_vctrl (e : el) : bool := match l_kind e with KGen | KExt => true | _ => false end.
Definition is_row (e : el) : bool := is_vctrl e || l_var e.
Definition pdsign (k : kind) : Q := match k with KSgen => (-1 # 1) | _ => 1 end.   (* build_bus.py:640 *)
Definition as_dem (e : el) : dem :=
  {| dm_bus := l_bus e; dm_p := qmul (pdsign (l_kind e)) (l_p e); dm_q := qmul (pdsign (l_kind e)) (l_q e) |}.
(* the OPF's ppc *)
Definition opf_gens (els : list el) : list genrow :=
  map (fun e => {| gb_bus := l_bus e; gb_on := true; gb_pg := qmul (rsign (l_kind e)) (l_p e);
                   gb_qg := qmul (rsign (l_kind e)) (l_q e) |}) (filter (fun e => l_on e && is_row e) els).
Definition opf_dems (els : list el) : list dem := map as_dem (filter (fun e => l_on e && negb (is_row e)) els).
(* the ppc of the power flow that takes the dispatch as setpoints: gens keep their active power *)
Definition pf_gens (els : list el) : list genrow :=
  map (fun e => {| gb_bus := l_bus e; gb_on := true;
                   gb_pg := match l_kind e with KExt => l_xp e | _ => l_p e end; gb_qg := l_xq e |})
      (filter (fun e => l_on e && is_vctrl e) els).
Definition pf_dems (els : list el) : list dem := map as_dem (filter (fun e => l_on e && negb (is_vctrl e)) els).

(* Sbus of the OPF's ppc and of the power flow's ppc (per bus 0..nb-1), the OPF's g and the power flow's F at V *)
Definition run_balance (base : Q) (nb : nat) (els : list el) (Y : list (list C)) (V : list C)
                       (pv pq : list nat) (tol : Q) : out :=
  let sbo := sbus_at base (opf_gens els) (opf_dems els) in
  let sbp := sbus_at base (pf_gens els) (pf_dems els) in
  if negb (shapes_ok nb Y V (pv ++ pq)) then OErr "IndexError"
  else OL [ olist oc (map sbo (seq 0 nb)); olist oc (map sbp (seq 0 nb));
            olist oq (opf_g nb Y V sbo); olist oq (pf_F Y V sbp pv pq); OB (pf_converged (pf_F Y V sbp pv pq) tol) ].

(* ================================================================ bus voltage limits, complete chain (OPF mode)
   bus table limits -> _build_pp_ext_grid :124-136 (fixed ext_grids pin vm +- delta) -> _check_gen_vm_limits :156-181
   (gen.max_vm_pu / min_vm_pu) -> _enforce_controllable_vm_pu_p_mw :184-200 (fixed gens pin vm +- delta)
   -> _replace_nans_with_default_limits (VMAX NaN -> 2.0, VMIN NaN -> 0.0).   Limits are (VMIN, VMAX), NaN = None. *)
Definition np_pos (n : nat) (i : Z) : option nat :=
  if (0 <=? i)%Z && (i <? Z.of_nat n)%Z then Some (Z.to_nat i)
  else if (i <? 0)%Z && (- Z.of_nat n <=? i)%Z then Some (Z.to_nat (i + Z.of_nat n)) else None.

(* ext_grid rows in table order: index label, bus position, vm_pu, in service, controllable (None: no such column) *)
Record egrow := { x_label : Z; x_bus : nat; x_vm : Q; x_on : bool; x_ctrl : option bool }.
(* :126-136 (repaired) — the constrained rows are selected by one positional mask (in service and not controllable)
   and each pins its bus to its OWN vm_pu; without the column every in-service ext_grid does *)
Definition eg_writes (egs : list egrow) : option (list (nat * Q)) :=
  Some (map (fun r => (x_bus r, x_vm r))
            (filter (fun r => x_on r && match x_ctrl r with Some true => false | _ => true end) egs)).
(* before the repair the voltage was read from net.ext_grid.vm_pu.values[eg_constrained.index]: the index LABEL was
   used as a POSITION (another ext_grid's voltage, or IndexError) *)
Fixpoint eg_writes_go_old (all : list egrow) (rows : list egrow) : option (list (nat * Q)) :=
  match rows with
  | [] => Some []
  | r :: t =>
      match eg_writes_go_old all t with
      | None => None
      | Some rest =>
          if x_on r then
            match x_ctrl r with
            | None => Some ((x_bus r, x_vm r) :: rest)
            | Some true => Some rest
            | Some false =>
                match np_pos (List.length all) (x_label r) with
                | Some k => match nth_error all k with Some r' => Some ((x_bus r, x_vm r') :: rest) | None => None end
                | None => None
                end
            end
          else Some rest
      end
  end.
Definition eg_writes_old (egs : list egrow) : option (list (nat * Q)) := eg_writes_go_old egs egs.
(* what it should read: the row's own voltage *)
Definition eg_writes_spec (egs : list egrow) : list (nat * Q) :=
  map (fun r => (x_bus r, x_vm r))
      (filter (fun r => x_on r && match x_ctrl r with Some true => false | _ => true end) egs).
Fixpoint labels_are_positions (k : Z) (egs : list egrow) : bool :=
  match egs with [] => true | r :: t => Z.eqb (x_label r) k && labels_are_positions (k + 1) t end.
(* guard of the rule before the repair *)
Definition G16eg_old (egs : list egrow) : bool := labels_are_positions 0 egs.

Definition olim := (option Q * option Q)%type.
Definition ltb_nan (a b : option Q) : bool := match a, b with Some x, Some y => qltb x y | _, _ => false end.
(* gens in service, table order: bus position, max_vm_pu, min_vm_pu.  The masks are taken against the limits BEFORE
   the writes; (repaired) np.minimum.at / np.maximum.at combine the limits of several gens at one bus, NaN propagates *)
Definition nmin (a b : option Q) : option Q := match a, b with Some x, Some y => Some (qmin x y) | _, _ => None end.
Definition nmax (a b : option Q) : option Q := match a, b with Some x, Some y => Some (qmax x y) | _, _ => None end.
Definition gen_vmax_step (lims0 : list olim) (l : list olim) (g : nat * option Q * option Q) : list olim :=
  let b := fst (fst g) in let mx := snd (fst g) in
  if ltb_nan (snd (nth b lims0 (None, None))) mx then l
  else set_nth l b (fst (nth b l (None, None)), nmin (snd (nth b l (None, None))) mx).
Definition gen_vmin_step (lims0 : list olim) (l : list olim) (g : nat * option Q * option Q) : list olim :=
  let b := fst (fst g) in let mn := snd g in
  if ltb_nan mn (fst (nth b lims0 (None, None))) then l
  else set_nth l b (nmax (fst (nth b l (None, None))) mn, snd (nth b l (None, None))).
Definition gen_vm_limits (lims : list olim) (gens : list (nat * option Q * option Q)) (has_max has_min : bool) : list olim :=
  let l1 := if has_max then fold_left (gen_vmax_step lims) gens lims else lims in
  if has_min then fold_left (gen_vmin_step l1) gens l1 else l1.
(* before the repair: plain numpy assignment, with a repeated bus the LAST value was kept *)
Definition gen_vmax_step_old (lims0 : list olim) (l : list olim) (g : nat * option Q * option Q) : list olim :=
  let b := fst (fst g) in let mx := snd (fst g) in
  if ltb_nan (snd (nth b lims0 (None, None))) mx then l else set_nth l b (fst (nth b l (None, None)), mx).
Definition gen_vmin_step_old (lims0 : list olim) (l : list olim) (g : nat * option Q * option Q) : list olim :=
  let b := fst (fst g) in let mn := snd g in
  if ltb_nan mn (fst (nth b lims0 (None, None))) then l else set_nth l b (mn, snd (nth b l (None, None))).
Definition gen_vm_limits_old (lims : list olim) (gens : list (nat * option Q * option Q)) (has_max has_min : bool) : list olim :=
  let l1 := if has_max then fold_left (gen_vmax_step_old lims) gens lims else lims in
  if has_min then fold_left (gen_vmin_step_old l1) gens l1 else l1.
(* the declared limits taken together: the tightest of the bus limit and of all gens at the bus *)
Definition omin (a b : option Q) : option Q :=
  match a, b with Some x, Some y => Some (qmin x y) | Some x, None => Some x | None, o => o end.
Definition omax (a b : option Q) : option Q :=
  match a, b with Some x, Some y => Some (qmax x y) | Some x, None => Some x | None, o => o end.
(* guard of the rule before the repair: no two in-service gens sit on the same bus *)
Fixpoint nodup_nat (l : list nat) : bool :=
  match l with [] => true | x :: t => negb (existsb (Nat.eqb x) t) && nodup_nat t end.
Definition G16vm_old (gens : list (nat * option Q * option Q)) : bool := nodup_nat (map (fun g => fst (fst g)) gens).

Definition pin_writes (l : list olim) (ws : list (nat * Q)) (delta : Q) : list olim :=
  fold_left (fun l w => set_nth l (fst w) (Some (qsub (snd w) delta), Some (qadd (snd w) delta))) ws l.
Definition vm_chain (lims : list olim) (egs : list egrow) (gens : list (nat * option Q * option Q)) (has_max has_min : bool)
                    (fixed_gens : list (nat * Q)) (delta : Q) : option (list (Q * Q)) :=
  match eg_writes egs with
  | None => None
  | Some ws =>
      let l1 := pin_writes lims ws delta in
      let l2 := gen_vm_limits l1 gens has_max has_min in
      let l3 := pin_writes l2 fixed_gens delta in
      Some (map (fun p => (dflt (fst p) 0, dflt (snd p) 2)) l3)
  end.
Definition run_vm_chain (lims : list olim) (egs : list egrow) (gens : list (nat * option Q * option Q)) (has_max has_min : bool)
                        (fixed_gens : list (nat * Q)) (delta : Q) : out :=
  match vm_chain lims egs gens has_max has_min fixed_gens delta with
  | None => OErr "IndexError"
  | Some l => olist (fun p => OL [oq (fst p); oq (snd p)]) l
  end.
