(* C16 — faithful model of the OPF constraint construction:
   build_gen.py  _init_ppc_gen :77-88, _build_pp_ext_grid :108-139, _build_pp_gen :203-231,
                 _enforce_controllable_vm_pu_p_mw :180-200, _build_pp_pq_element :255-272,
                 add_q_constraints :274-290, add_p_constraints :293-304;
   auxiliary.py  _replace_nans_with_default_limits, _add_dcline_gens (power-flow model of a dcline);
   optimal_powerflow.py _add_dcline_constraints (OPF model of a dcline);
   build_branch.py:247-258 RATE_A of lines; results write-back signs (results_bus.py write_pq_results_to_element).
   NaN / missing column = None.  Executable definitions only. *)
From Coq Require Import ZArith QArith List Bool String.
From PPV Require Import Base.QN Base.Out.
Import ListNotations.
Open Scope Q_scope.

Inductive kind := KGen | KExt | KSgen | KLoad | KStorage.
Definition inverted (k : kind) : bool := match k with KLoad | KStorage => true | _ => false end.
(* sign of the result write-back: res p = rsign * PG *)
Definition rsign (k : kind) : Q := if inverted k then (-1 # 1) else 1.

Record elem := {
  e_p : Q; e_q : Q; e_scaling : Q;
  e_min_p : option Q; e_max_p : option Q; e_min_q : option Q; e_max_q : option Q;
  e_ctrl : option bool      (* gen: the "controllable" column (None = column absent) *)
}.
Record box := { PMIN : Q; PMAX : Q; QMIN : Q; QMAX : Q; PG : Q; QG : Q }.

Definition oadd (o : option Q) (d : Q) : option Q := option_map (fun x => qadd x d) o.
Definition osub (o : option Q) (d : Q) : option Q := option_map (fun x => qsub x d) o.
Definition oneg (o : option Q) : option Q := option_map qopp o.
(* _replace_nans_with_default_limits: NaN -> default (the delta is lost with the NaN) *)
Definition dflt (o : option Q) (d : Q) : Q := match o with Some x => x | None => d end.

(* add_p_constraints / add_q_constraints (:274-304) followed by the NaN replacement *)
Definition lim_lo (inv : bool) (mn mx : option Q) (delta lim : Q) : Q :=
  if inv then dflt (osub (oneg mx) delta) (qopp lim) else dflt (osub mn delta) (qopp lim).
Definition lim_hi (inv : bool) (mn mx : option Q) (delta lim : Q) : Q :=
  if inv then dflt (oadd (oneg mn) delta) lim else dflt (oadd mx delta) lim.

(* one generator-matrix row; plim = p_lim_default also initialises the q limits (:82-83) *)
Definition gen_row (k : kind) (e : elem) (delta plim : Q) : box :=
  let inv := inverted k in
  let pmin := lim_lo inv (e_min_p e) (e_max_p e) delta plim in
  let pmax := lim_hi inv (e_min_p e) (e_max_p e) delta plim in
  let qmin := lim_lo inv (e_min_q e) (e_max_q e) delta plim in
  let qmax := lim_hi inv (e_min_q e) (e_max_q e) delta plim in
  match k with
  | KGen =>
      (* :210 PG = p_mw * scaling ; :190-200 a non-controllable gen is fixed at p_mw * scaling *)
      let fixed := match e_ctrl e with Some false => true | _ => false end in
      let sp := qmul (e_p e) (e_scaling e) in
      {| PMIN := if fixed then qsub sp delta else pmin; PMAX := if fixed then qadd sp delta else pmax;
         QMIN := qmin; QMAX := qmax; PG := qmul (e_p e) (e_scaling e); QG := 0 |}
  | KExt => {| PMIN := pmin; PMAX := pmax; QMIN := qmin; QMAX := qmax; PG := 0; QG := 0 |}
  | _ =>
      let s := rsign k in
      {| PMIN := pmin; PMAX := pmax; QMIN := qmin; QMAX := qmax;
         PG := qmul (qmul s (e_p e)) (e_scaling e); QG := qmul (qmul s (e_q e)) (e_scaling e) |}
  end.

(* before the repair a non-controllable gen was pinned to the unscaled p_mw *)
Definition fixed_box_old (e : elem) (delta : Q) : Q * Q := (qsub (e_p e) delta, qadd (e_p e) delta).

Definition in_range (lo hi x : Q) : bool := qleb lo x && qleb x hi.

(* ---- bus voltage limits: the bus columns, then ext_grids (:124-139), then non-controllable gens (:180-195);
   each write is (bus position, vm) and replaces VMAX/VMIN by vm +- delta; later writes win *)
Fixpoint set_nth {A} (l : list A) (k : nat) (a : A) : list A :=
  match l, k with
  | [], _ => []
  | _ :: t, O => a :: t
  | x :: t, S k' => x :: set_nth t k' a
  end.
Definition vm_writes (lims : list (Q * Q)) (ws : list (nat * Q)) (delta : Q) : list (Q * Q) :=
  fold_left (fun l w => set_nth l (fst w) (qsub (snd w) delta, qadd (snd w) delta)) ws lims.

(* ---- line rating (build_branch.py:247-258), s3 = sqrt 3 oracle *)
Definition rate_a (max_load max_i_ka df par vn s3 : Q) : Q :=
  qmul (qmul (qmul (qmul (qdiv max_load 100) max_i_ka) df) par) (qmul vn s3).

(* ---- dcline *)
Record dcl := { d_p : Q; d_loss_pct : Q; d_loss_mw : Q; d_max_p : Q; d_in : bool }.
(* power-flow model, auxiliary.py _add_dcline_gens: (PG of the to-bus gen, PG of the from-bus gen, and their p boxes) *)
Definition qabs' (x : Q) : Q := if qltb x 0 then qopp x else x.
Record dcgens := { g_to : Q; g_from : Q; to_lo : Q; to_hi : Q; from_lo : Q; from_hi : Q }.
Definition pf_dcline (d : dcl) : dcgens :=
  let p := qabs' (d_p d) in
  let ploss := qsub (qmul p (qsub 1 (qdiv (d_loss_pct d) 100))) (d_loss_mw d) in
  if qltb 0 (d_p d)
  then {| g_to := ploss; g_from := qopp p; to_lo := 0; to_hi := d_max_p d;
          from_lo := qopp (d_max_p d); from_hi := qopp 0 |}
  else {| g_to := qopp p; g_from := ploss; to_lo := qopp (d_max_p d); to_hi := 0;
          from_lo := qopp 0; from_hi := qopp (qopp (d_max_p d)) |}.
(* OPF model, optimal_powerflow.py _add_dcline_constraints (repaired):
   (1 - loss%/100) Pg[sending end gen] + Pg[receiving end gen] = -loss_mw, sending end = from bus iff p_mw > 0 *)
Definition opf_lhs (d : dcl) (pg_to pg_from : Q) : Q :=
  let k := qsub 1 (qdiv (d_loss_pct d) 100) in
  if qltb 0 (d_p d) then qadd (qmul k pg_from) pg_to else qadd (qmul k pg_to) pg_from.
Definition opf_rhs (d : dcl) : Q := qopp (d_loss_mw d).
(* before the repair: (1 + loss%/100) Pg[to-bus gen] + Pg[from-bus gen] = -loss_mw *)
Definition opf_lhs_old (d : dcl) (pg_to pg_from : Q) : Q :=
  qadd (qmul (qadd 1 (qdiv (d_loss_pct d) 100)) pg_to) pg_from.

(* rows of the constraint matrix as (coefficient on the to gen, coefficient on the from gen, rhs): one row per
   in-service dcline, built from its own data *)
Definition dc_row (d : dcl) : Q * Q * Q :=
  let k := qsub 1 (qdiv (d_loss_pct d) 100) in
  if qltb 0 (d_p d) then (1, k, qopp (d_loss_mw d)) else (k, 1, qopp (d_loss_mw d)).
Definition dcline_rows (ds : list dcl) : option (list (Q * Q * Q)) := Some (map dc_row (filter d_in ds)).
(* before the repair: the rows used the LAST ndc gen pairs but the loss data of the FIRST ndc dclines and a
   right-hand side with one entry per dcline: any mixture of in-service and out-of-service dclines raised *)
Definition dcline_rows_old (ds : list dcl) : option (list (Q * Q * Q)) :=
  let ndc := List.length (filter d_in ds) in
  if Nat.eqb ndc 0 then Some []
  else if Nat.eqb ndc (List.length ds)
  then Some (map (fun d => (qadd 1 (qdiv (d_loss_pct d) 100), 1, qopp (d_loss_mw d))) ds)
  else None.

(* guards of the rules before the repairs *)
Definition G16gen_old (e : elem) : bool :=
  match e_ctrl e with Some false => qeqb (e_scaling e) 1 || qeqb (e_p e) 0 | _ => true end.
Definition G16dc_old (d : dcl) : bool := qeqb (d_loss_pct d) 0.

(* ---- output *)
Definition obox (b : box) : out := OL [oq (PMIN b); oq (PMAX b); oq (QMIN b); oq (QMAX b); oq (PG b); oq (QG b)].
Definition run_gen (k : kind) (e : elem) (delta plim : Q) : out := obox (gen_row k e delta plim).
Definition run_vm (lims : list (Q * Q)) (ws : list (nat * Q)) (delta : Q) : out :=
  olist (fun p => OL [oq (fst p); oq (snd p)]) (vm_writes lims ws delta).
Definition run_dc (ds : list dcl) : out :=
  OL [ olist (fun d => let g := pf_dcline d in
                       OL [oq (g_to g); oq (g_from g); oq (to_lo g); oq (to_hi g); oq (from_lo g); oq (from_hi g)]) ds;
       match dcline_rows ds with
       | Some rows => olist (fun r => OL [oq (fst (fst r)); oq (snd (fst r)); oq (snd r)]) rows
       | None => OErr "raise" end ].
Definition run_rate (max_load max_i_ka df par vn s3 : Q) : out := oq (rate_a max_load max_i_ka df par vn s3).

(* ---- transformer rating (build_branch.py:386-396): RATE_A = max_loading_percent / 100 * sn_mva * df * parallel *)
Definition rate_a_trafo (max_load sn df par : Q) : Q := qmul (qmul (qmul (qdiv max_load 100) sn) df) par.
Definition run_rate_trafo (max_load sn df par : Q) : out := oq (rate_a_trafo max_load sn df par).
