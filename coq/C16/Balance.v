(* C16 — "the reported results are a valid power flow": on the bus balance equations both calculations use.
   The OPF's equality constraints and the power flow's mismatch are the same function  V conj(Ybus V) - Sbus  and the
   Sbus the power flow builds from the dispatch equals the OPF's Sbus wherever the power flow has an equation. *)
From Coq Require Import ZArith QArith Qabs List Bool Lia Lqa String.
From PPV Require Import Base.QN Base.QC Base.Out C16.Model.
Import ListNotations.
Open Scope Q_scope.

(* total injection at bus i before the division by baseMVA *)
Definition inj_opf (els : list el) (i : nat) : C :=
  Csub (sum_at gb_bus (fun g => mkC (gb_pg g) (gb_qg g)) (filter gb_on (opf_gens els)) i)
       (sum_at dm_bus (fun d => mkC (dm_p d) (dm_q d)) (opf_dems els) i).
Definition inj_pf (els : list el) (i : nat) : C :=
  Csub (sum_at gb_bus (fun g => mkC (gb_pg g) (gb_qg g)) (filter gb_on (pf_gens els)) i)
       (sum_at dm_bus (fun d => mkC (dm_p d) (dm_q d)) (pf_dems els) i).

(* no ext_grid in service at bus i / no gen or ext_grid in service at bus i *)
Definition no_ext_at (els : list el) (i : nat) : Prop :=
  forall e, In e els -> l_on e = true -> l_bus e = i -> l_kind e <> KExt.
Definition no_vctrl_at (els : list el) (i : nat) : Prop :=
  forall e, In e els -> l_on e = true -> l_bus e = i -> is_vctrl e = false.

Lemma no_at_cons (P : el -> Prop) e els i :
  (forall e', In e' (e :: els) -> l_on e' = true -> l_bus e' = i -> P e') ->
  (l_on e = true -> l_bus e = i -> P e) /\ (forall e', In e' els -> l_on e' = true -> l_bus e' = i -> P e').
Proof. intros H. split; [intros; apply H; auto; now left | intros; apply H; auto; now right]. Qed.

Lemma sum_at_cons {A} (bus : A -> nat) (val : A -> C) a l i :
  sum_at bus val (a :: l) i = if Nat.eqb (bus a) i then Cadd (val a) (sum_at bus val l i) else sum_at bus val l i.
Proof. reflexivity. Qed.

(* one element more: expose its contribution, abstract the sums over the rest *)
Ltac expose Eb :=
  cbn [map filter gb_on negb]; rewrite ?sum_at_cons;
  cbn [gb_bus dm_bus as_dem gb_pg gb_qg dm_p dm_q l_bus]; rewrite ?Eb.
Ltac abstract_sums IH :=
  revert IH;
  repeat match goal with |- context [sum_at ?a ?b ?c ?i] => let s := fresh "s" in generalize (sum_at a b c i); intro s end.

(* active power: the two injections agree at every bus without an ext_grid *)
Lemma inj_re_eq els i : no_ext_at els i -> re (inj_pf els i) == re (inj_opf els i).
Proof.
  induction els as [|e els IH]; intros Hno; [reflexivity|].
  apply no_at_cons in Hno. destruct Hno as [He Hno]. specialize (IH Hno).
  unfold inj_opf, inj_pf, opf_gens, opf_dems, pf_gens, pf_dems in *. cbn [filter].
  destruct (l_on e) eqn:Eon; cbn [andb]; [|exact IH].
  unfold is_row in *. destruct (is_vctrl e) eqn:Ev; cbn [orb].
  - (* a gen / ext_grid: a generator row in both *)
    destruct (Nat.eqb (l_bus e) i) eqn:Eb; expose Eb; [|exact IH]. apply Nat.eqb_eq in Eb.
    assert (Hk : l_kind e = KGen).
    { specialize (He eq_refl Eb). unfold is_vctrl in Ev. destruct (l_kind e); try discriminate; congruence. }
    rewrite Hk. abstract_sums IH. csimp. cbn [rsign inverted]. intros IH. lra.
  - (* a pq element: row or demand in the OPF, demand in the power flow *)
    destruct (l_var e) eqn:Evar; destruct (Nat.eqb (l_bus e) i) eqn:Eb; expose Eb; try exact IH;
      abstract_sums IH; unfold is_vctrl in Ev; destruct (l_kind e); try discriminate;
      csimp; cbn [rsign inverted pdsign]; intros IH; lra.
Qed.

(* reactive power: they agree at every bus without a gen / ext_grid (the PQ buses of the power flow) *)
Lemma inj_im_eq els i : no_vctrl_at els i -> im (inj_pf els i) == im (inj_opf els i).
Proof.
  induction els as [|e els IH]; intros Hno; [reflexivity|].
  apply no_at_cons in Hno. destruct Hno as [He Hno]. specialize (IH Hno).
  unfold inj_opf, inj_pf, opf_gens, opf_dems, pf_gens, pf_dems in *. cbn [filter].
  destruct (l_on e) eqn:Eon; cbn [andb]; [|exact IH].
  unfold is_row in *. destruct (is_vctrl e) eqn:Ev; cbn [orb].
  - destruct (Nat.eqb (l_bus e) i) eqn:Eb; expose Eb; [|exact IH]. apply Nat.eqb_eq in Eb.
    specialize (He eq_refl Eb). congruence.
  - destruct (l_var e) eqn:Evar; destruct (Nat.eqb (l_bus e) i) eqn:Eb; expose Eb; try exact IH;
      abstract_sums IH; unfold is_vctrl in Ev; destruct (l_kind e); try discriminate;
      csimp; cbn [rsign inverted pdsign]; intros IH; lra.
Qed.

Definition sb_opf (base : Q) (els : list el) : nat -> C := sbus_at base (opf_gens els) (opf_dems els).
Definition sb_pf (base : Q) (els : list el) : nat -> C := sbus_at base (pf_gens els) (pf_dems els).

Lemma sbus_re_eq base els i : no_ext_at els i -> re (sb_pf base els i) == re (sb_opf base els i).
Proof.
  intros H. unfold sb_pf, sb_opf, sbus_at, Cdivq. cbn [re]. fold (inj_pf els i). fold (inj_opf els i).
  qnorm. rewrite (inj_re_eq els i H). reflexivity.
Qed.
Lemma sbus_im_eq base els i : no_vctrl_at els i -> im (sb_pf base els i) == im (sb_opf base els i).
Proof.
  intros H. unfold sb_pf, sb_opf, sbus_at, Cdivq. cbn [im]. fold (inj_pf els i). fold (inj_opf els i).
  qnorm. rewrite (inj_im_eq els i H). reflexivity.
Qed.

(* the mismatch of the power flow at V is the OPF's mismatch at V, component by component *)
Lemma mis_re_eq Y V sb sb' i : re (sb i) == re (sb' i) -> re (mis_at Y V sb i) == re (mis_at Y V sb' i).
Proof. intros H. unfold mis_at, Csub. cbn [re]. qnorm. rewrite H. reflexivity. Qed.
Lemma mis_im_eq Y V sb sb' i : im (sb i) == im (sb' i) -> im (mis_at Y V sb i) == im (mis_at Y V sb' i).
Proof. intros H. unfold mis_at, Csub. cbn [im]. qnorm. rewrite H. reflexivity. Qed.

Lemma opf_g_bound nb Y V sb eps : Forall (fun x => Qabs x <= eps) (opf_g nb Y V sb) ->
  forall i, (i < nb)%nat -> Qabs (re (mis_at Y V sb i)) <= eps /\ Qabs (im (mis_at Y V sb i)) <= eps.
Proof.
  unfold opf_g. intros H i Hi. apply Forall_app in H. destruct H as [H1 H2].
  rewrite Forall_map in H1, H2. rewrite Forall_forall in H1, H2.
  assert (Hin : In i (seq 0 nb)) by (apply in_seq; lia). split; [exact (H1 i Hin) | exact (H2 i Hin)].
Qed.

(* MAIN: if the OPF's final point (V and the dispatch) satisfies every power-balance constraint within eps, then at the
   same V every equation of the power flow that takes the dispatch as setpoints is satisfied within eps — for any network
   (Ybus), any mixture of element kinds, controllable or fixed, in or out of service, any number of elements per bus.
   Hypotheses on the bus types of the power flow: a PV or PQ bus holds no ext_grid, a PQ bus holds no gen. *)
Theorem opf_point_is_pf_point base nb Y V els pv pq eps :
  (forall i, In i pv \/ In i pq -> (i < nb)%nat /\ no_ext_at els i) ->
  (forall i, In i pq -> no_vctrl_at els i) ->
  Forall (fun x => Qabs x <= eps) (opf_g nb Y V (sb_opf base els)) ->
  Forall (fun x => Qabs x <= eps) (pf_F Y V (sb_pf base els) pv pq).
Proof.
  intros Hpvpq Hpq Hg. pose proof (opf_g_bound _ _ _ _ _ Hg) as Hb. unfold pf_F.
  apply Forall_app. split; [|apply Forall_app; split]; rewrite Forall_map; apply Forall_forall; intros i Hi.
  - destruct (Hpvpq i (or_introl Hi)) as [Hlt Hne].
    rewrite (mis_re_eq Y V _ (sb_opf base els) i (sbus_re_eq base els i Hne)). exact (proj1 (Hb i Hlt)).
  - destruct (Hpvpq i (or_intror Hi)) as [Hlt Hne].
    rewrite (mis_re_eq Y V _ (sb_opf base els) i (sbus_re_eq base els i Hne)). exact (proj1 (Hb i Hlt)).
  - destruct (Hpvpq i (or_intror Hi)) as [Hlt Hne].
    rewrite (mis_im_eq Y V _ (sb_opf base els) i (sbus_im_eq base els i (Hpq i Hi))). exact (proj2 (Hb i Hlt)).
Qed.

(* ... so the power flow's own convergence test accepts V as a solution whenever the OPF's mismatch is below the
   power-flow tolerance *)
Corollary opf_point_passes_pf_test base nb Y V els pv pq eps tol :
  (forall i, In i pv \/ In i pq -> (i < nb)%nat /\ no_ext_at els i) ->
  (forall i, In i pq -> no_vctrl_at els i) ->
  Forall (fun x => Qabs x <= eps) (opf_g nb Y V (sb_opf base els)) -> 0 <= eps -> eps < tol ->
  pf_converged (pf_F Y V (sb_pf base els) pv pq) tol = true.
Proof.
  intros H1 H2 H3 He Ht. pose proof (opf_point_is_pf_point base nb Y V els pv pq eps H1 H2 H3) as HF.
  unfold pf_converged. destruct (pf_F Y V (sb_pf base els) pv pq) as [|x F] eqn:E.
  - apply qltb_lt. lra.
  - apply forallb_forall. intros y Hy. rewrite Forall_forall in HF. specialize (HF y Hy). apply qltb_lt. lra.
Qed.

(* what the power flow then reports at the voltage-controlling elements (pfsoln: the generators at a bus together
   supply the computed injection plus the demand): per bus, the reported reactive infeed differs from the OPF's by
   exactly baseMVA times the OPF's reactive mismatch at that bus; likewise the active power at the slack bus *)
Definition calc_inj (Y : list (list C)) (V : list C) (i : nat) : C := Cmul (nth i V C0) (Cconj (row_dot (nth i Y []) V)).
Definition gen_sum (els : list el) (i : nat) : C :=
  sum_at l_bus (fun e => mkC (l_p e) (l_q e)) (filter (fun e => l_on e && is_vctrl e) els) i.
Definition dem_sum_pf (els : list el) (i : nat) : C := sum_at dm_bus (fun d => mkC (dm_p d) (dm_q d)) (pf_dems els) i.

Lemma inj_opf_split els i :
  inj_opf els i ==c Csub (gen_sum els i) (dem_sum_pf els i).
Proof.
  induction els as [|e els IH]; [split; reflexivity|].
  unfold inj_opf, gen_sum, dem_sum_pf, opf_gens, opf_dems, pf_dems in *. cbn [filter].
  destruct (l_on e) eqn:Eon; cbn [andb]; [|exact IH].
  unfold is_row in *. destruct (is_vctrl e) eqn:Ev; cbn [orb].
  - destruct (Nat.eqb (l_bus e) i) eqn:Eb; expose Eb; [|exact IH].
    abstract_sums IH. unfold is_vctrl in Ev. destruct (l_kind e); try discriminate;
      csimp; cbn [rsign inverted]; intros [I1 I2]; split; lra.
  - destruct (l_var e) eqn:Evar; destruct (Nat.eqb (l_bus e) i) eqn:Eb; expose Eb; try exact IH;
      abstract_sums IH; unfold is_vctrl in Ev; destruct (l_kind e); try discriminate;
      csimp; cbn [rsign inverted pdsign]; intros [I1 I2]; split; lra.
Qed.

Theorem pf_reports_opf_infeed base Y V els i : ~ base == 0 ->
  let reported := Cadd (Cscale base (calc_inj Y V i)) (dem_sum_pf els i) in
  Csub reported (gen_sum els i) ==c Cscale base (mis_at Y V (sb_opf base els) i).
Proof.
  intros Hb. cbv zeta. unfold mis_at. fold (calc_inj Y V i).
  destruct (inj_opf_split els i) as [S1 S2].
  unfold sb_opf, sbus_at, Cdivq. fold (inj_opf els i).
  revert S1 S2. generalize (calc_inj Y V i) (inj_opf els i) (gen_sum els i) (dem_sum_pf els i).
  intros c io g d. csimp. intros S1 S2. split; field_simplify_eq; try exact Hb; lra.
Qed.

(* ---- not vacuous: two buses, an ext_grid at bus 0, a controllable load (OPF variable) and a fixed sgen at bus 1 *)
Definition ex_els : list el :=
  [ {| l_kind := KExt; l_bus := 0; l_on := true; l_var := false; l_p := 1; l_q := 0; l_xp := 0; l_xq := 0 |};
    {| l_kind := KLoad; l_bus := 1; l_on := true; l_var := true; l_p := 3 # 2; l_q := 1 # 4; l_xp := 0; l_xq := 0 |};
    {| l_kind := KSgen; l_bus := 1; l_on := true; l_var := false; l_p := 1 # 2; l_q := 0; l_xp := 0; l_xq := 0 |} ].
Example balance_nonvacuous :
  (forall i, In i [] \/ In i [1%nat] -> (i < 2)%nat /\ no_ext_at ex_els i) /\
  (forall i, In i [1%nat] -> no_vctrl_at ex_els i) /\
  sb_opf 1 ex_els 1 ==c mkC (-1) (- (1 # 4)) /\ sb_pf 1 ex_els 1 ==c mkC (-1) (- (1 # 4)) /\
  ~ sb_pf 1 ex_els 0 ==c sb_opf 1 ex_els 0.
Proof.
  split; [|split; [|split; [|split]]].
  - intros i [[]|[<-|[]]]. split; [lia|]. intros e [<-|[<-|[<-|[]]]]; cbn; intros; congruence.
  - intros i [<-|[]]. intros e [<-|[<-|[<-|[]]]]; cbn; intros; congruence.
  - vm_compute. split; reflexivity.
  - vm_compute. split; reflexivity.
  - vm_compute. intros [H _]. discriminate.
Qed.
