(* C30 — the diagnostic functions that modify the network temporarily, as stage machines with crash points
     pandapower/diagnostic/diagnostic_functions.py
       Overload.diagnostic (:327-382), WrongLineCapacitance.diagnostic (:427-464),
       WrongSwitchConfiguration.diagnostic (:805-826), ImplausibleImpedanceValues.diagnostic (:1090-1152)
   as they are in /repo now (after the repair "diagnostic experiments restore the network in a finally clause"); the three
   scaling / switching experiments before that repair are kept as the *_old variants.  A table (or column) is an opaque value; every power flow `run(net)` of the function has an
   outcome given by an oracle: converges, raises one of expected_exceptions (:39), or raises anything else ("unexpected":
   the crash).  Python semantics that matter: an exception raised inside an `except` handler is NOT caught by a sibling
   `except Exception` clause of the same try statement - it leaves the statement, skipping the code after it; a
   `finally` clause runs on every exit.
   Executable definitions only. *)
From Coq Require Import ZArith List Bool String.
From PPV Require Import Base.Out.
Import ListNotations.
Open Scope Z_scope.

(* the parts of the net these functions write: load/gen/sgen.scaling, line.c_nf_per_km, switch.closed, and the nine
   tables of the impedance experiment (switch, line, impedance, vsc, line_dc, ward, xward, trafo, trafo3w) as one value *)
Record net := { n_load : Z; n_gen : Z; n_sgen : Z; n_cap : Z; n_sw : Z; n_imp : Z }.
Definition set_load v n := {| n_load := v; n_gen := n_gen n; n_sgen := n_sgen n; n_cap := n_cap n; n_sw := n_sw n; n_imp := n_imp n |}.
Definition set_gen v n := {| n_load := n_load n; n_gen := v; n_sgen := n_sgen n; n_cap := n_cap n; n_sw := n_sw n; n_imp := n_imp n |}.
Definition set_sgen v n := {| n_load := n_load n; n_gen := n_gen n; n_sgen := v; n_cap := n_cap n; n_sw := n_sw n; n_imp := n_imp n |}.
Definition set_cap v n := {| n_load := n_load n; n_gen := n_gen n; n_sgen := n_sgen n; n_cap := v; n_sw := n_sw n; n_imp := n_imp n |}.
Definition set_sw v n := {| n_load := n_load n; n_gen := n_gen n; n_sgen := n_sgen n; n_cap := n_cap n; n_sw := v; n_imp := n_imp n |}.
Definition set_imp v n := {| n_load := n_load n; n_gen := n_gen n; n_sgen := n_sgen n; n_cap := n_cap n; n_sw := n_sw n; n_imp := v |}.

Inductive outcome := Conv | Exp | Unexp.      (* run(net): returns / raises expected_exceptions / raises anything else *)
(* what the function did: returned a verdict (encoded as a number), or let an exception escape *)
Inductive result := Ret (v : Z) | Raised.

(* ---- BEFORE the repair (restore lines after the inner try, not in a finally clause)
   Overload.diagnostic: F = overload_scaling_factor; verdict = 2*load + generation, -1 = None *)
Definition overload_old (F : Z) (o : nat -> outcome) (n : net) : net * result :=
  let L := n_load n in let G := n_gen n in let S := n_sgen n in
  let restore m := set_load L (set_gen G (set_sgen S m)) in                    (* :375-377 *)
  match o 0%nat with
  | Conv => (n, Ret (-1))
  | Unexp => (n, Raised)                                                        (* :378-380 re-raised *)
  | Exp =>
      let n1 := set_load F n in                                                 (* :353 *)
      match o 1%nat with
      | Conv => (restore n1, Ret 2)
      | Unexp => (n1, Raised)                       (* raised inside the handler: leaves the try statement *)
      | Exp =>
          let n2 := set_sgen F (set_gen F (set_load L n1)) in                   (* :357-360 *)
          match o 2%nat with
          | Conv => (restore n2, Ret 1)
          | Unexp => (n2, Raised)
          | Exp =>
              let n3 := set_sgen F (set_gen F (set_load F (set_gen G (set_sgen S n2)))) in   (* :364-369 *)
              match o 3%nat with
              | Conv => (restore n3, Ret 3)
              | Exp => (restore n3, Ret 0)
              | Unexp => (n3, Raised)
              end
          end
      end
  end.

(* ---- WrongLineCapacitance.diagnostic: c' = c_nf_per_km * factor; verdict 1 / 0 / -1 (None) *)
Definition line_cap_old (C' : Z) (o : nat -> outcome) (n : net) : net * result :=
  let C0 := n_cap n in
  match o 0%nat with
  | Conv => (set_cap C0 n, Ret (-1))                                            (* teardown :462 *)
  | Unexp => (n, Raised)                                                        (* :457-459 *)
  | Exp =>
      let n1 := set_cap C' n in                                                 (* :451 *)
      match o 1%nat with
      | Conv => (set_cap C0 n1, Ret 1)
      | Exp => (set_cap C0 n1, Ret 0)
      | Unexp => (n1, Raised)                       (* raised inside the handler: the teardown is skipped *)
      end
  end.

(* ---- WrongSwitchConfiguration.diagnostic: ALL = every switch closed *)
Definition switch_conf_old (ALL : Z) (o : nat -> outcome) (n : net) : net * result :=
  let W0 := n_sw n in
  match o 0%nat with
  | Conv => (n, Ret (-1))
  | Unexp => (n, Ret (-1))                                                      (* :824-826 logged, returns None *)
  | Exp =>
      let n1 := set_sw ALL n in                                                 (* :817 *)
      match o 1%nat with
      | Conv => (set_sw W0 n1, Ret 1)
      | Exp => (set_sw W0 n1, Ret 0)
      | Unexp => (n1, Raised)
      end
  end.

(* ---- ImplausibleImpedanceValues.diagnostic, the experiment (:1090-1152): the replacement consists of [k] table
   writes (in_service := False, create_switch / create_impedance / replace_xward_by_ward), each of which may crash;
   w i = the tables after i writes; crash_at = Some i: the (i+1)-th write raises something unexpected *)
Definition impedance (w : nat -> Z) (k : nat) (crash_at : option nat) (o : nat -> outcome) (n : net) : net * result :=
  let I0 := n_imp n in
  let fin (m : net) := set_imp I0 m in                                          (* finally :1141-1152 *)
  match o 0%nat with
  | Conv => (fin n, Ret 1)
  | Unexp => (fin n, Ret 1)                                                     (* :1139-1140 logged *)
  | Exp =>
      match crash_at with
      | Some i => if Nat.ltb i k then (fin (set_imp (w i) n), Raised)           (* leaves through the finally *)
                  else
                    let n1 := set_imp (w k) n in
                    match o 1%nat with Conv => (fin n1, Ret 3) | Exp => (fin n1, Ret 2) | Unexp => (fin n1, Raised) end
      | None =>
          let n1 := set_imp (w k) n in
          match o 1%nat with Conv => (fin n1, Ret 3) | Exp => (fin n1, Ret 2) | Unexp => (fin n1, Raised) end
      end
  end.

(* ---- the three functions as they are in /repo now (after the repair "diagnostic experiments restore the network in
   a finally clause"): the restore sits in a finally clause and runs on every exit *)
Definition overload (F : Z) (o : nat -> outcome) (n : net) : net * result :=
  let L := n_load n in let G := n_gen n in let S := n_sgen n in
  let fin m := set_load L (set_gen G (set_sgen S m)) in                        (* finally *)
  match o 0%nat with
  | Conv => (fin n, Ret (-1))
  | Unexp => (fin n, Raised)                                                    (* re-raised by `except Exception` *)
  | Exp =>
      let n1 := set_load F n in
      match o 1%nat with
      | Conv => (fin n1, Ret 2)
      | Unexp => (fin n1, Raised)                   (* raised inside the handler: leaves through the finally *)
      | Exp =>
          let n2 := set_sgen F (set_gen F (set_load L n1)) in
          match o 2%nat with
          | Conv => (fin n2, Ret 1)
          | Unexp => (fin n2, Raised)
          | Exp =>
              let n3 := set_sgen F (set_gen F (set_load F (set_gen G (set_sgen S n2)))) in
              match o 3%nat with
              | Conv => (fin n3, Ret 3)
              | Exp => (fin n3, Ret 0)
              | Unexp => (fin n3, Raised)
              end
          end
      end
  end.
Definition line_cap (C' : Z) (o : nat -> outcome) (n : net) : net * result :=
  let C0 := n_cap n in
  let fin m := set_cap C0 m in                                                  (* finally: teardown *)
  match o 0%nat with
  | Conv => (fin n, Ret (-1))
  | Unexp => (fin n, Raised)
  | Exp =>
      let n1 := set_cap C' n in
      match o 1%nat with
      | Conv => (fin n1, Ret 1)
      | Exp => (fin n1, Ret 0)
      | Unexp => (fin n1, Raised)
      end
  end.
Definition switch_conf (ALL : Z) (o : nat -> outcome) (n : net) : net * result :=
  let W0 := n_sw n in
  match o 0%nat with
  | Conv => (n, Ret (-1))
  | Unexp => (n, Ret (-1))                                                      (* logged, returns None *)
  | Exp =>
      let n1 := set_sw ALL n in
      match o 1%nat with                                                        (* inner try ... finally *)
      | Conv => (set_sw W0 n1, Ret 1)
      | Exp => (set_sw W0 n1, Ret 0)
      | Unexp => (set_sw W0 n1, Raised)
      end
  end.

(* guard under which the pre-repair code restored the net: no power flow of the experiment (run #1, #2, #3) raises an unexpected exception *)
Definition no_unexp (o : nat -> outcome) : bool :=
  forallb (fun i => match o i with Unexp => false | _ => true end) [1%nat; 2%nat; 3%nat].

(* ---- output for the correspondence run: which parts differ from the start, and the result *)
Definition oresult (r : result) : out := match r with Ret v => OZ v | Raised => OErr "raised" end.
Definition ochanged (a b : net) : out :=
  OL [ OB (negb (Z.eqb (n_load a) (n_load b))); OB (negb (Z.eqb (n_gen a) (n_gen b)));
       OB (negb (Z.eqb (n_sgen a) (n_sgen b))); OB (negb (Z.eqb (n_cap a) (n_cap b)));
       OB (negb (Z.eqb (n_sw a) (n_sw b))); OB (negb (Z.eqb (n_imp a) (n_imp b))) ].
Definition oscript (l : list outcome) (i : nat) : outcome := nth i l Conv.
Definition net0 : net := {| n_load := 1; n_gen := 2; n_sgen := 3; n_cap := 4; n_sw := 5; n_imp := 6 |}.
(* which = 0 overload, 1 line capacitance, 2 switch configuration, 3 impedance (k writes, crash_at) *)
Definition run_restore (which : Z) (script : list outcome) (k : nat) (crash_at : option nat) : out :=
  let o := oscript script in
  let r := match which with
           | 0 => overload 100 o net0
           | 1 => line_cap 101 o net0
           | 2 => switch_conf 102 o net0
           | _ => impedance (fun i => 200 + Z.of_nat i) k crash_at o net0
           end in
  OL [ochanged net0 (fst r); oresult (snd r); OB (no_unexp o)].
(* pre-repair behaviour, for the regression witness *)
Definition run_restore_old (which : Z) (script : list outcome) : out :=
  let o := oscript script in
  let r := match which with
           | 0 => overload_old 100 o net0
           | 1 => line_cap_old 101 o net0
           | _ => switch_conf_old 102 o net0
           end in
  OL [ochanged net0 (fst r); oresult (snd r); OB (no_unexp o)].
