(* C30 — table preservation of the diagnostic functions that modify the net temporarily, for every crash point and verdict *)
From Coq Require Import ZArith List Bool String.
From PPV Require Import Base.Out C30.ModelRestore.
Import ListNotations.
Open Scope Z_scope.

Ltac cases o :=
  destruct (o 0%nat) eqn:?; destruct (o 1%nat) eqn:?; destruct (o 2%nat) eqn:?; destruct (o 3%nat) eqn:?.

Lemma no_unexp_spec o : no_unexp o = true -> o 1%nat <> Unexp /\ o 2%nat <> Unexp /\ o 3%nat <> Unexp.
Proof.
  unfold no_unexp. cbn [forallb]. intros H.
  destruct (o 1%nat), (o 2%nat), (o 3%nat); cbn in H; try discriminate H; repeat split; discriminate.
Qed.

(* ---- the impedance experiment: restored on EVERY path - verdicts, expected and unexpected exceptions of both power
   flows, a crash after any number of the replacement's table writes *)
Theorem impedance_preserved : forall w k crash_at o n, fst (impedance w k crash_at o n) = n.
Proof.
  intros w k c o [l g s cp sw im]. unfold impedance.
  destruct (o 0%nat); try reflexivity.
  destruct c as [i|]; [destruct (Nat.ltb i k)|]; try reflexivity; destruct (o 1%nat); reflexivity.
Qed.

(* ---- the three scaling / switching experiments (restore in a finally clause): restored on EVERY path *)
Theorem overload_preserved : forall F o n, fst (overload F o n) = n.
Proof. intros F o [l g s cp sw im]. unfold overload. cases o; reflexivity. Qed.
Theorem line_cap_preserved : forall C' o n, fst (line_cap C' o n) = n.
Proof. intros F o [l g s cp sw im]. unfold line_cap. cases o; reflexivity. Qed.
Theorem switch_conf_preserved : forall ALL o n, fst (switch_conf ALL o n) = n.
Proof. intros F o [l g s cp sw im]. unfold switch_conf. cases o; reflexivity. Qed.

(* ---- before the repair: restored unless a power flow OF THE EXPERIMENT raised an unexpected exception *)
Theorem overload_old_preserved_partial : forall F o n, no_unexp o = true -> fst (overload_old F o n) = n.
Proof.
  intros F o [l g s cp sw im] G. destruct (no_unexp_spec _ G) as (H1 & H2 & H3).
  unfold overload_old. cases o; try congruence; reflexivity.
Qed.
Theorem line_cap_old_preserved_partial : forall C' o n, no_unexp o = true -> fst (line_cap_old C' o n) = n.
Proof.
  intros C' o [l g s cp sw im] G. destruct (no_unexp_spec _ G) as (H1 & H2 & H3).
  unfold line_cap_old. cases o; try congruence; reflexivity.
Qed.
Theorem switch_conf_old_preserved_partial : forall ALL o n, no_unexp o = true -> fst (switch_conf_old ALL o n) = n.
Proof.
  intros A o [l g s cp sw im] G. destruct (no_unexp_spec _ G) as (H1 & H2 & H3).
  unfold switch_conf_old. cases o; try congruence; reflexivity.
Qed.

(* the full statements were false of the old code *)
Definition o_crash1 (i : nat) : outcome := match i with O => Exp | _ => Unexp end.
Theorem overload_old_refuted : exists F o n, fst (overload_old F o n) <> n.
Proof. exists 100, o_crash1, net0. vm_compute. discriminate. Qed.
Theorem line_cap_old_refuted : exists C' o n, fst (line_cap_old C' o n) <> n.
Proof. exists 100, o_crash1, net0. vm_compute. discriminate. Qed.
Theorem switch_conf_old_refuted : exists ALL o n, fst (switch_conf_old ALL o n) <> n.
Proof. exists 100, o_crash1, net0. vm_compute. discriminate. Qed.
(* exactly which tables stayed modified after a crash of the k-th experiment power flow of the overload check *)
Theorem overload_old_crash_leaves : forall F n,
  fst (overload_old F (fun i => match i with 0%nat => Exp | _ => Unexp end) n) = set_load F n /\
  fst (overload_old F (fun i => match i with 2%nat => Unexp | _ => Exp end) n) = set_sgen F (set_gen F n) /\
  fst (overload_old F (fun i => match i with 3%nat => Unexp | _ => Exp end) n) = set_sgen F (set_gen F (set_load F n)).
Proof. intros F [l g s cp sw im]. repeat split. Qed.

(* the repair changed no verdict and no raised error *)
Theorem repair_same_result : forall F o n,
  snd (overload F o n) = snd (overload_old F o n) /\ snd (line_cap F o n) = snd (line_cap_old F o n) /\
  snd (switch_conf F o n) = snd (switch_conf_old F o n).
Proof.
  intros F o n. unfold overload, overload_old, line_cap, line_cap_old, switch_conf, switch_conf_old.
  cases o; repeat split.
Qed.

(* ---- non-vacuity: a run through all four power flows of the overload check with a final verdict; a crash of the
   second power flow of each experiment; the impedance experiment crashing after 2 of 5 table writes: net restored *)
Example restore_nonvacuous :
  overload 100 (fun _ => Exp) net0 = (net0, Ret 0) /\
  overload 100 (fun i => match i with 3%nat => Conv | _ => Exp end) net0 = (net0, Ret 3) /\
  overload 100 o_crash1 net0 = (net0, Raised) /\ line_cap 101 o_crash1 net0 = (net0, Raised) /\
  switch_conf 102 o_crash1 net0 = (net0, Raised) /\
  impedance (fun i => 200 + Z.of_nat i) 5 (Some 2%nat) (fun _ => Exp) net0 = (net0, Raised) /\
  impedance (fun i => 200 + Z.of_nat i) 5 None (fun i => match i with O => Exp | _ => Unexp end) net0 = (net0, Raised).
Proof. repeat split. Qed.
