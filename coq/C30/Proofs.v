(* C30 — non-interference of Diagnostic instances: invariant over all operation sequences *)
From Coq Require Import ZArith List Bool Lia Arith.
From PPV Require Import Base.Out C30.Model.
Import ListNotations.
Open Scope nat_scope.

(* ------------------------------------------------------------------ heap lemmas *)
Lemma length_hset h : forall l o, length (hset h l o) = length h.
Proof. induction h as [|x h IH]; intros [|l] o; cbn; auto. Qed.
Lemma nth_hset_same h : forall l o, (l < length h)%nat -> nth_error (hset h l o) l = Some o.
Proof.
  induction h as [|x h IH]; intros [|l] o H; cbn in *; try lia; auto. apply IH. lia.
Qed.
Lemma nth_hset_other h : forall l l' o, l <> l' -> nth_error (hset h l o) l' = nth_error h l'.
Proof.
  induction h as [|x h IH]; intros [|l] [|l'] o H; cbn; auto; try congruence.
Qed.
Lemma get_dict_hset_other h l l' o : l <> l' -> get_dict (hset h l o) l' = get_dict h l'.
Proof. intros H. unfold get_dict. now rewrite nth_hset_other. Qed.
Lemma get_list_hset_other h l l' o : l <> l' -> get_list (hset h l o) l' = get_list h l'.
Proof. intros H. unfold get_list. now rewrite nth_hset_other. Qed.
Lemma get_list_hset_same h l f : (l < length h)%nat -> get_list (hset h l (OList f)) l = f.
Proof. intros H. unfold get_list. now rewrite nth_hset_same. Qed.
Lemma get_dict_app_l h h' l : (l < length h)%nat -> get_dict (h ++ h') l = get_dict h l.
Proof. intros H. unfold get_dict. now rewrite nth_error_app1. Qed.
Lemma get_list_app_l h h' l : (l < length h)%nat -> get_list (h ++ h') l = get_list h l.
Proof. intros H. unfold get_list. now rewrite nth_error_app1. Qed.

(* ------------------------------------------------------------------ the invariant *)
Section Inv.
Variables (d0 : dict) (f0 : list fn).

Definition base_kw (flag : bool) : dict := if flag then d0 else [].
Definition base_fn (flag : bool) : list fn := if flag then f0 else [].
Definition kw_loc (i : nat) : nat := 2 + 2 * i.
Definition fn_loc (i : nat) : nat := 3 + 2 * i.

(* flags: constructor flag per instance; regs i: functions registered on instance i so far *)
Record GInv (st : state) (flags : list bool) (regs : nat -> list fn) : Prop := {
  g_ninst : length (insts st) = length flags;
  g_heap  : length (hp st) = 2 + 2 * length flags;
  g_d0    : get_dict (hp st) L_DEFAULT_KW = d0;
  g_f0    : get_list (hp st) L_DEFAULT_FN = f0;
  g_inst  : forall i, i < length flags -> nth_error (insts st) i = Some {| i_kw := kw_loc i; i_fn := fn_loc i |};
  g_kw    : forall i flag, nth_error flags i = Some flag -> get_dict (hp st) (kw_loc i) = base_kw flag;
  g_fn    : forall i flag, nth_error flags i = Some flag -> get_list (hp st) (fn_loc i) = base_fn flag ++ regs i;
  g_fresh : forall i, length flags <= i -> regs i = []
}.

Lemma ginv_init : GInv (init d0 f0) [] (fun _ => []).
Proof.
  constructor; cbn; auto; try lia.
  - intros i flag H. destruct i; discriminate.
  - intros i flag H. destruct i; discriminate.
Qed.

Definition flags_step (o : op) : list bool := match o with New a => [a] | _ => [] end.
Definition regs_step (n : nat) (o : op) (i : nat) : list fn :=
  match o with
  | Register j f => if Nat.eqb i j && Nat.ltb j n then [f] else []
  | _ => []
  end.

Lemma nth_error_lt {A} (l : list A) i x : nth_error l i = Some x -> i < length l.
Proof. intros H. apply nth_error_Some. congruence. Qed.

Lemma ginv_step st flags regs o :
  GInv st flags regs ->
  GInv (fst (step st o)) (flags ++ flags_step o) (fun i => regs i ++ regs_step (length flags) o i).
Proof.
  intros G. destruct G as [Gn Gh Gd Gf Gi Gk Gfn Gfr].
  destruct o as [a | j f | j kw]; cbn [step flags_step regs_step].
  - (* New *)
    cbn [fst hp insts]. constructor; cbn [hp insts].
    + rewrite !app_length. cbn. lia.
    + rewrite !app_length. cbn. lia.
    + rewrite get_dict_app_l by (unfold L_DEFAULT_KW; lia). exact Gd.
    + rewrite get_list_app_l by (unfold L_DEFAULT_FN; lia). exact Gf.
    + intros i Hi. rewrite app_length in Hi. cbn in Hi.
      destruct (Nat.eq_dec i (length flags)) as [->|N].
      * rewrite nth_error_app2 by lia. rewrite Gn, Nat.sub_diag. cbn.
        unfold kw_loc, fn_loc. rewrite Gh. reflexivity.
      * rewrite nth_error_app1 by lia. apply Gi. lia.
    + intros i flag H.
      destruct (Nat.lt_ge_cases i (length flags)) as [Hi|Hi].
      * rewrite nth_error_app1 in H by exact Hi.
        rewrite get_dict_app_l by (unfold kw_loc; lia). eauto.
      * rewrite nth_error_app2 in H by exact Hi.
        destruct (i - length flags) as [|k] eqn:E; cbn in H; [|destruct k; discriminate].
        inversion H; subst flag. assert (i = length flags) by lia. subst i.
        unfold get_dict at 1, kw_loc. rewrite nth_error_app2 by lia.
        replace (2 + 2 * length flags - length (hp st)) with 0 by lia. cbn.
        unfold base_kw. destruct a; [exact Gd | reflexivity].
    + intros i flag H. rewrite app_nil_r.
      destruct (Nat.lt_ge_cases i (length flags)) as [Hi|Hi].
      * rewrite nth_error_app1 in H by exact Hi.
        rewrite get_list_app_l by (unfold fn_loc; lia). eauto.
      * rewrite nth_error_app2 in H by exact Hi.
        destruct (i - length flags) as [|k] eqn:E; cbn in H; [|destruct k; discriminate].
        inversion H; subst flag. assert (i = length flags) by lia. subst i.
        unfold get_list at 1, fn_loc. rewrite nth_error_app2 by lia.
        replace (3 + 2 * length flags - length (hp st)) with 1 by lia. cbn.
        rewrite (Gfr (length flags)) by lia. rewrite app_nil_r.
        unfold base_fn. destruct a; [exact Gf | reflexivity].
    + intros i Hi. rewrite app_length in Hi. cbn in Hi. rewrite app_nil_r. apply Gfr. lia.
  - (* Register *)
    rewrite app_nil_r.
    destruct (nth_error (insts st) j) as [it|] eqn:E.
    + assert (Hj : j < length flags) by (rewrite <- Gn; eapply nth_error_lt; eauto).
      rewrite (Gi j Hj) in E. inversion E; subst it. cbn [fst hp insts i_fn].
      assert (Hl : fn_loc j < length (hp st)) by (unfold fn_loc; lia).
      constructor; cbn [hp insts].
      * exact Gn.
      * now rewrite length_hset.
      * rewrite get_dict_hset_other by (unfold fn_loc, L_DEFAULT_KW; lia). exact Gd.
      * rewrite get_list_hset_other by (unfold fn_loc, L_DEFAULT_FN; lia). exact Gf.
      * exact Gi.
      * intros i flag H. rewrite get_dict_hset_other by (unfold fn_loc, kw_loc; lia). eauto.
      * intros i flag H. destruct (Nat.eq_dec i j) as [->|N].
        -- rewrite get_list_hset_same by exact Hl. rewrite (Gfn j flag H).
           rewrite Nat.eqb_refl. assert (Nat.ltb j (length flags) = true) as -> by (apply Nat.ltb_lt; exact Hj).
           cbn [andb]. now rewrite app_assoc.
        -- rewrite get_list_hset_other by (unfold fn_loc; lia).
           assert (Nat.eqb i j = false) as -> by (apply Nat.eqb_neq; exact N). cbn [andb].
           rewrite app_nil_r. eauto.
      * intros i Hi. assert (Nat.eqb i j = false) as -> by (apply Nat.eqb_neq; lia). cbn [andb].
        rewrite app_nil_r. now apply Gfr.
    + (* no such instance: nothing happens, and the registration does not count *)
      assert (Hj : length flags <= j) by (rewrite <- Gn; apply nth_error_None; exact E).
      assert (Nat.ltb j (length flags) = false) as L by (apply Nat.ltb_ge; exact Hj).
      cbn [fst]. constructor; auto.
      * intros i flag H. rewrite L, andb_false_r, app_nil_r. eauto.
      * intros i Hi. rewrite L, andb_false_r, app_nil_r. now apply Gfr.
  - (* Diagnose: the state is not touched *)
    rewrite app_nil_r.
    assert (fst (match nth_error (insts st) j with
                 | Some it => (st, ECalls (fst (run_fns (merge (get_dict (hp st) (i_kw it)) kw) (get_list (hp st) (i_fn it))))
                                          (snd (run_fns (merge (get_dict (hp st) (i_kw it)) kw) (get_list (hp st) (i_fn it)))))
                 | None => (st, EBadInstance) end) = st) as -> by (destruct (nth_error (insts st) j); reflexivity).
    constructor; auto.
    + intros i flag H. rewrite app_nil_r. eauto.
    + intros i Hi. rewrite app_nil_r. now apply Gfr.
Qed.

(* flags and registrations accumulated by a whole operation sequence *)
Lemma ginv_exec ops : forall st flags regs,
  GInv st flags regs ->
  GInv (fst (exec step st ops)) (flags ++ flags_of ops) (fun i => regs i ++ regs_of i (length flags) ops).
Proof.
  induction ops as [|o ops IH]; intros st flags regs G; cbn [exec fst flags_of regs_of].
  - rewrite app_nil_r. destruct G. constructor; auto.
    + intros i flag H. rewrite app_nil_r. eauto.
    + intros i Hi. rewrite app_nil_r. auto.
  - specialize (IH _ _ _ (ginv_step st flags regs o G)).
    destruct o as [a | j f | j kw]; cbn [flags_step regs_step flags_of regs_of] in *.
    + rewrite app_length in IH. cbn [length] in IH. rewrite <- app_assoc in IH. cbn [app] in IH.
      replace (length flags + 1) with (S (length flags)) in IH by lia.
      destruct IH. constructor; auto.
      * intros i flag H. rewrite (g_fn0 i flag H). now rewrite app_nil_r.
      * intros i Hi. rewrite <- (g_fresh0 i Hi). now rewrite app_nil_r.
    + rewrite app_nil_r in IH.
      destruct IH. constructor; auto.
      * intros i flag H. rewrite (g_fn0 i flag H). rewrite <- !app_assoc. f_equal. f_equal.
        destruct (Nat.eqb i j && Nat.ltb j (length flags)); reflexivity.
      * intros i Hi. rewrite <- (g_fresh0 i Hi). rewrite <- !app_assoc. f_equal.
        destruct (Nat.eqb i j && Nat.ltb j (length flags)); reflexivity.
    + rewrite app_nil_r in IH.
      destruct IH. constructor; auto.
      * intros i flag H. rewrite (g_fn0 i flag H). now rewrite app_nil_r.
      * intros i Hi. rewrite <- (g_fresh0 i Hi). now rewrite app_nil_r.
Qed.

Lemma ginv_reachable ops :
  GInv (fst (exec step (init d0 f0) ops)) (flags_of ops) (fun i => regs_of i 0 ops).
Proof. exact (ginv_exec ops _ _ _ ginv_init). Qed.

(* ---- the observable consequences *)
(* what diagnose_network calls depends only on the module defaults at process start, the instance's own
   constructor flag, the functions registered on this instance, and the kwargs of this call *)
Theorem diagnose_noninterference ops i kw flag :
  nth_error (flags_of ops) i = Some flag ->
  snd (step (fst (exec step (init d0 f0) ops)) (Diagnose i kw))
  = spec_event d0 f0 flag (regs_of i 0 ops) kw.
Proof.
  intros H. destruct (ginv_reachable ops) as [Gn Gh Gd Gf Gi Gk Gfn Gfr].
  assert (Hi : i < length (flags_of ops)) by (eapply nth_error_lt; eauto).
  cbn [step]. rewrite (Gi i Hi). cbn [snd i_kw i_fn].
  rewrite (Gk i flag H), (Gfn i flag H). reflexivity.
Qed.

Theorem diagnose_bad_instance ops i kw :
  nth_error (flags_of ops) i = None ->
  snd (step (fst (exec step (init d0 f0) ops)) (Diagnose i kw)) = EBadInstance.
Proof.
  intros H. destruct (ginv_reachable ops) as [Gn Gh Gd Gf Gi Gk Gfn Gfr].
  cbn [step]. assert (nth_error (insts (fst (exec step (init d0 f0) ops))) i = None) as ->.
  { apply nth_error_None. rewrite Gn. now apply nth_error_None. }
  reflexivity.
Qed.

(* the module-level defaults are never changed, and an instance's kwargs stay what __init__ made them *)
Theorem defaults_preserved ops :
  get_dict (hp (fst (exec step (init d0 f0) ops))) L_DEFAULT_KW = d0 /\
  get_list (hp (fst (exec step (init d0 f0) ops))) L_DEFAULT_FN = f0.
Proof. destruct (ginv_reachable ops). auto. Qed.

Theorem instance_state ops i flag :
  nth_error (flags_of ops) i = Some flag ->
  exists it, nth_error (insts (fst (exec step (init d0 f0) ops))) i = Some it /\
    i_kw it <> L_DEFAULT_KW /\ i_fn it <> L_DEFAULT_FN /\
    get_dict (hp (fst (exec step (init d0 f0) ops))) (i_kw it) = base_kw flag /\
    get_list (hp (fst (exec step (init d0 f0) ops))) (i_fn it) = base_fn flag ++ regs_of i 0 ops.
Proof.
  intros H. destruct (ginv_reachable ops) as [Gn Gh Gd Gf Gi Gk Gfn Gfr].
  assert (Hi : i < length (flags_of ops)) by (eapply nth_error_lt; eauto).
  eexists. split; [apply Gi; exact Hi|]. cbn [i_kw i_fn].
  repeat split; eauto; unfold kw_loc, fn_loc, L_DEFAULT_KW, L_DEFAULT_FN; lia.
Qed.
End Inv.

(* ------------------------------------------------------------------ exec over appended sequences *)
Lemma exec_app stp ops1 : forall st ops2,
  exec stp st (ops1 ++ ops2)
  = (fst (exec stp (fst (exec stp st ops1)) ops2), snd (exec stp st ops1) ++ snd (exec stp (fst (exec stp st ops1)) ops2)).
Proof.
  induction ops1 as [|o ops1 IH]; intros st ops2; cbn [app exec fst snd].
  - now destruct (exec stp st ops2).
  - rewrite IH. reflexivity.
Qed.

(* the event of the last operation of a history *)
Lemma last_event stp st ops o :
  snd (exec stp st (ops ++ [o])) = snd (exec stp st ops) ++ [snd (stp (fst (exec stp st ops)) o)].
Proof. rewrite exec_app. reflexivity. Qed.

(* results are a function of the calls: equal calls give equal result / error dicts for every behaviour of the
   function objects *)
Lemma results_function_of_calls beh cs1 cs2 : cs1 = cs2 -> results_of beh cs1 = results_of beh cs2.
Proof. now intros ->. Qed.

(* ------------------------------------------------------------------ the old code is refuted *)
Open Scope Z_scope.
Definition fA : fn := {| f_name := 100; f_obj := 7; f_args := None |}.
(* register on instance 0, then create instance 1 and diagnose with it *)
Definition ops_w1 : list op := [New true; Register 0%nat fA; New true].
(* pass an option to one call, then call again without it *)
Definition ops_w2 : list op := [New true; Diagnose 0%nat [(5, 42)]].

Lemma old_register_leaks :
  snd (step_old (fst (exec step_old (init [] []) ops_w1)) (Diagnose 1%nat []))
  <> spec_event [] [] true (regs_of 1%nat 0%nat ops_w1) [].
Proof. vm_compute. discriminate. Qed.

Lemma old_kwargs_persist :
  snd (step_old (fst (exec step_old (init [] [fA]) ops_w2)) (Diagnose 0%nat []))
  <> spec_event [] [fA] true (regs_of 0%nat 0%nat ops_w2) [].
Proof. vm_compute. discriminate. Qed.

Lemma old_defaults_changed :
  get_list (hp (fst (exec step_old (init [] []) ops_w1))) L_DEFAULT_FN <> [].
Proof. vm_compute. discriminate. Qed.

(* non-vacuity: a history with three instances, interleaved registrations and calls *)
Definition fB : fn := {| f_name := 101; f_obj := 8; f_args := Some [5] |}.
Definition ops_nv : list op :=
  [New true; New false; Register 1%nat fB; Diagnose 1%nat [(5, 1)]; Register 0%nat fA; New true; Diagnose 0%nat [(6, 2)]].
Lemma nonvacuous :
  nth_error (flags_of ops_nv) 2%nat = Some true /\
  regs_of 0%nat 0%nat ops_nv = [fA] /\ regs_of 1%nat 0%nat ops_nv = [fB] /\ regs_of 2%nat 0%nat ops_nv = [] /\
  snd (step (fst (exec step (init [(1, 10)] [fB]) ops_nv)) (Diagnose 2%nat [(5, 3)]))
  = ECalls [(101, 8, [(5, 3)])] false.
Proof. vm_compute. repeat split. Qed.

(* two arbitrary histories: an instance with the same constructor flag and the same own registrations makes the same
   calls for the same kwargs, whatever else happened (other instances, their registrations, all earlier calls) *)
Theorem history_independent d0 f0 ops ops' (i i' : nat) kw flag :
  nth_error (flags_of ops) i = Some flag -> nth_error (flags_of ops') i' = Some flag ->
  regs_of i 0%nat ops = regs_of i' 0%nat ops' ->
  snd (step (fst (exec step (init d0 f0) ops)) (Diagnose i kw))
  = snd (step (fst (exec step (init d0 f0) ops')) (Diagnose i' kw)).
Proof.
  intros H H' R. rewrite (diagnose_noninterference d0 f0 ops i kw flag H).
  rewrite (diagnose_noninterference d0 f0 ops' i' kw flag H'). now rewrite R.
Qed.

Definition event_results (beh : Z -> dict -> fres) (e : event) : option (dict * dict) :=
  match e with ECalls cs false => Some (results_of beh cs) | _ => None end.

(* ... hence the same diag_results / diag_errors for every behaviour of the function objects that is a function of
   (object, kwargs received) *)
Theorem results_history_independent d0 f0 beh ops ops' (i i' : nat) kw flag :
  nth_error (flags_of ops) i = Some flag -> nth_error (flags_of ops') i' = Some flag ->
  regs_of i 0%nat ops = regs_of i' 0%nat ops' ->
  event_results beh (snd (step (fst (exec step (init d0 f0) ops)) (Diagnose i kw)))
  = event_results beh (snd (step (fst (exec step (init d0 f0) ops')) (Diagnose i' kw))).
Proof. intros. f_equal. eapply history_independent; eauto. Qed.
