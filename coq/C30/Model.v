(* C30 — heap model of pandapower/diagnostic/diagnostic.py
     Diagnostic.__init__ (:40-58), register_function (:60-85), diagnose_network (:87-152)
   and of the module-level defaults default_argument_values (diagnostic_functions.py:41) and
   default_diagnostic_functions (:1789).
   Python objects that can be shared are heap locations: a dict or a list lives at a location, an instance holds the
   locations of its `kwargs` and `_functions`.  Main model = the code after the repair
   "fix: Diagnostic instances do not share or persist options and registered functions"
   (copies in __init__, call_kwargs = {**self.kwargs, **kwargs} per call); the behaviour before the repair is kept as
   the `_old` variants.  Keys, values, names and function-object identities are opaque integers (the code only moves
   them around).  Executable definitions only. *)
From Coq Require Import ZArith List Bool String.
From PPV Require Import Base.Out.
Import ListNotations.
Open Scope Z_scope.

Definition key := Z.
Definition val := Z.
Definition dict := list (key * val).

(* one entry of a _functions list: (name, DiagnosticFunction object, argument_names | None) *)
Record fn := { f_name : Z; f_obj : Z; f_args : option (list key) }.

Inductive obj := ODict (d : dict) | OList (l : list fn).
Definition heap := list obj.          (* location = position *)
Definition loc := nat.
Definition L_DEFAULT_KW : loc := 0%nat.   (* default_argument_values *)
Definition L_DEFAULT_FN : loc := 1%nat.   (* default_diagnostic_functions *)

Record inst := { i_kw : loc; i_fn : loc }.
Record state := { hp : heap; insts : list inst }.

(* ---- python dict *)
Fixpoint lookup (k : key) (d : dict) : option val :=
  match d with
  | [] => None
  | (k', v) :: d' => if Z.eqb k k' then Some v else lookup k d'
  end.
Fixpoint dset (k : key) (v : val) (d : dict) : dict :=
  match d with
  | [] => [(k, v)]
  | (k', v') :: d' => if Z.eqb k k' then (k', v) :: d' else (k', v') :: dset k v d'
  end.
(* d.update(e)  /  {**d, **e} *)
Fixpoint merge (d e : dict) : dict :=
  match e with
  | [] => d
  | (k, v) :: e' => merge (dset k v d) e'
  end.

(* ---- heap access *)
Definition get_dict (h : heap) (l : loc) : dict := match nth_error h l with Some (ODict d) => d | _ => [] end.
Definition get_list (h : heap) (l : loc) : list fn := match nth_error h l with Some (OList f) => f | _ => [] end.
Fixpoint hset (h : heap) (l : loc) (o : obj) : heap :=
  match h, l with
  | [], _ => []
  | _ :: t, O => o :: t
  | x :: t, S l' => x :: hset t l' o
  end.

(* ---- diagnose_network, the loop over self._functions (:134-148) *)
(* args of one function: all call kwargs if argument_names is None, else the named ones; a missing name raises
   ValueError out of diagnose_network (:137-142) *)
Fixpoint collect (names : list key) (ck : dict) (acc : dict) : option dict :=
  match names with
  | [] => Some acc
  | n :: names' => match lookup n ck with
                   | Some v => collect names' ck (dset n v acc)
                   | None => None
                   end
  end.
Definition args_for (ck : dict) (f : fn) : option dict :=
  match f_args f with
  | None => Some ck
  | Some names => collect names ck []
  end.
(* one call of a diagnostic function: (name, function object, kwargs it receives) *)
Definition call := (Z * Z * dict)%type.
(* the calls made, and whether the loop was left by the ValueError *)
Fixpoint run_fns (ck : dict) (fs : list fn) : list call * bool :=
  match fs with
  | [] => ([], false)
  | f :: fs' =>
      match args_for ck f with
      | None => ([], true)
      | Some a => let r := run_fns ck fs' in ((f_name f, f_obj f, a) :: fst r, snd r)
      end
  end.

(* the result dicts are a fold over the calls: diag_results[name] = r if r is not None, diag_errors[name] = e
   (:143-148); beh = behaviour of the function objects *)
Inductive fres := RNone | RVal (r : Z) | RErr (e : Z).
Definition results_of (beh : Z -> dict -> fres) (cs : list call) : dict * dict :=
  fold_left (fun acc c =>
               match c with (name, ob, a) =>
                 match beh ob a with
                 | RNone => acc
                 | RVal r => (dset name r (fst acc), snd acc)
                 | RErr e => (fst acc, dset name e (snd acc))
                 end
               end) cs ([], []).

(* ---- operations on Diagnostic objects *)
Inductive op :=
| New (add_default : bool)                 (* Diagnostic(add_default_functions=...) ; the new instance gets the next id *)
| Register (i : nat) (f : fn)              (* instance i .register_function(...) *)
| Diagnose (i : nat) (kw : dict).          (* instance i .diagnose_network(net, **kw) *)

Inductive event :=
| ENone
| ECalls (cs : list call) (raised : bool)  (* what diagnose_network called, whether it raised ValueError *)
| EBadInstance.

(* the repaired code *)
Definition step (st : state) (o : op) : state * event :=
  match o with
  | New add =>
      let h := hp st in
      let lk := List.length h in
      (* :47-51  self.kwargs = dict(default_argument_values); self._functions = list(default_diagnostic_functions)
         :43-44  else {} and [] *)
      let dk := if add then get_dict h L_DEFAULT_KW else [] in
      let df := if add then get_list h L_DEFAULT_FN else [] in
      ({| hp := h ++ [ODict dk; OList df]; insts := insts st ++ [{| i_kw := lk; i_fn := S lk |}] |}, ENone)
  | Register i f =>
      match nth_error (insts st) i with
      | None => (st, EBadInstance)
      | Some it =>                                              (* :85 self._functions.append(...) *)
          ({| hp := hset (hp st) (i_fn it) (OList (get_list (hp st) (i_fn it) ++ [f])); insts := insts st |}, ENone)
      end
  | Diagnose i kw =>
      match nth_error (insts st) i with
      | None => (st, EBadInstance)
      | Some it =>
          let ck := merge (get_dict (hp st) (i_kw it)) kw in    (* :133 call_kwargs = {**self.kwargs, **kwargs} *)
          let r := run_fns ck (get_list (hp st) (i_fn it)) in
          (st, ECalls (fst r) (snd r))
      end
  end.

(* the code before the repair: references instead of copies (:48-49 old), self.kwargs.update(kwargs) (:131 old) *)
Definition step_old (st : state) (o : op) : state * event :=
  match o with
  | New add =>
      let h := hp st in
      let lk := List.length h in
      if add
      then ({| hp := h; insts := insts st ++ [{| i_kw := L_DEFAULT_KW; i_fn := L_DEFAULT_FN |}] |}, ENone)
      else ({| hp := h ++ [ODict []; OList []]; insts := insts st ++ [{| i_kw := lk; i_fn := S lk |}] |}, ENone)
  | Register i f =>
      match nth_error (insts st) i with
      | None => (st, EBadInstance)
      | Some it =>
          ({| hp := hset (hp st) (i_fn it) (OList (get_list (hp st) (i_fn it) ++ [f])); insts := insts st |}, ENone)
      end
  | Diagnose i kw =>
      match nth_error (insts st) i with
      | None => (st, EBadInstance)
      | Some it =>
          let ck := merge (get_dict (hp st) (i_kw it)) kw in
          let h' := hset (hp st) (i_kw it) (ODict ck) in        (* self.kwargs.update(kwargs) *)
          let r := run_fns ck (get_list h' (i_fn it)) in
          ({| hp := h'; insts := insts st |}, ECalls (fst r) (snd r))
      end
  end.

Fixpoint exec (stp : state -> op -> state * event) (st : state) (ops : list op) : state * list event :=
  match ops with
  | [] => (st, [])
  | o :: ops' =>
      let r := stp st o in
      let r' := exec stp (fst r) ops' in
      (fst r', snd r :: snd r')
  end.

(* the process starts with the two module-level defaults on the heap and no instance *)
Definition init (d0 : dict) (f0 : list fn) : state := {| hp := [ODict d0; OList f0]; insts := [] |}.

(* ---- the specification side: what a Diagnostic object is supposed to be, without any heap.
   Instance i is determined by its own constructor flag and the functions registered on it, in order. *)
Fixpoint flags_of (ops : list op) : list bool :=
  match ops with
  | [] => []
  | New a :: ops' => a :: flags_of ops'
  | _ :: ops' => flags_of ops'
  end.
(* functions registered on instance i (only registrations that happen while the instance exists count) *)
Fixpoint regs_of (i : nat) (ninst : nat) (ops : list op) : list fn :=
  match ops with
  | [] => []
  | New _ :: ops' => regs_of i (S ninst) ops'
  | Register j f :: ops' => if Nat.eqb i j && Nat.ltb j ninst then f :: regs_of i ninst ops' else regs_of i ninst ops'
  | Diagnose _ _ :: ops' => regs_of i ninst ops'
  end.
(* what diagnose_network(net, **kw) of an instance (flag, own registrations) has to call *)
Definition spec_event (d0 : dict) (f0 : list fn) (flag : bool) (regs : list fn) (kw : dict) : event :=
  let ck := merge (if flag then d0 else []) kw in
  let r := run_fns ck ((if flag then f0 else []) ++ regs) in
  ECalls (fst r) (snd r).

(* ---- output for the correspondence run *)
Definition odict (d : dict) : out := olist (fun kv => OL [OZ (fst kv); OZ (snd kv)]) d.
Definition ofn (f : fn) : out := OL [OZ (f_name f); OZ (f_obj f); oopt (olist OZ) (f_args f)].
Definition oevent (e : event) : out :=
  match e with
  | ENone => ONone
  | EBadInstance => OErr "IndexError"
  | ECalls cs r => OL [olist (fun c => match c with (n, ob, a) => OL [OZ n; OZ ob; odict a] end) cs; OB r]
  end.
(* per instance: its kwargs, its function list, and whether these ARE the module-level objects (python `is`) *)
Definition oinst (h : heap) (it : inst) : out :=
  OL [ odict (get_dict h (i_kw it)); olist ofn (get_list h (i_fn it));
       OB (Nat.eqb (i_kw it) L_DEFAULT_KW); OB (Nat.eqb (i_fn it) L_DEFAULT_FN) ].
Definition ostate (st : state) : out :=
  OL [ odict (get_dict (hp st) L_DEFAULT_KW); olist ofn (get_list (hp st) L_DEFAULT_FN);
       olist (oinst (hp st)) (insts st) ].
Definition run_ops (d0 : dict) (f0 : list fn) (ops : list op) : out :=
  let r := exec step (init d0 f0) ops in OL [olist oevent (snd r); ostate (fst r)].
Definition run_ops_old (d0 : dict) (f0 : list fn) (ops : list op) : out :=
  let r := exec step_old (init d0 f0) ops in OL [olist oevent (snd r); ostate (fst r)].
