From Coq Require Import ZArith QArith Qround Qabs List Bool String Lia Lqa.
From PPV Require Import Base.QN C20.Model.
Import ListNotations.
Open Scope Q_scope.

Lemma p10_pos n : 0 < p10 n.
Proof. unfold p10. replace 0 with (inject_Z 0) by reflexivity. rewrite <- Zlt_Qlt. apply Z.pow_pos_nonneg; lia. Qed.

Lemma floor_half y : Qabs (inject_Z (Qfloor (y + (1 # 2))) - y) <= 1 # 2.
Proof.
  pose proof (Qfloor_le (y + (1 # 2))) as H1. pose proof (Qlt_floor (y + (1 # 2))) as H2.
  rewrite inject_Z_plus in H2.
  set (k := inject_Z (Qfloor (y + (1 # 2)))) in *.
  assert (O : inject_Z 1 == 1) by reflexivity. rewrite O in H2.
  apply Qabs_Qle_condition. split; lra.
Qed.

(* fixed notation: the decoded rational is within half a unit of the 15th decimal place of the stored float *)
Theorem round_fixed_within q : Qabs (round_fixed q - q) <= (1 # 2) / p10 15.
Proof.
  unfold round_fixed. qnorm.
  pose proof (p10_pos 15) as P. set (k := inject_Z (Qfloor (q * p10 15 + (1 # 2)))).
  assert (E : k / p10 15 - q == (k - q * p10 15) / p10 15) by (field; lra).
  rewrite E. unfold Qdiv. rewrite Qabs_Qmult.
  rewrite (Qabs_pos (/ p10 15)) by (apply Qlt_le_weak; apply Qinv_lt_0_compat; exact P).
  apply Qmult_le_compat_r; [apply floor_half | apply Qlt_le_weak; apply Qinv_lt_0_compat; exact P].
Qed.

(* exponent notation: within half a unit of the 15th significant digit, i.e. relative error <= 5e-15 *)
Theorem round_sig_within q scale r : 0 < scale -> round_sig q scale = Some r ->
  Qabs (r - q) <= (1 # 2) * scale /\ scale * p10 14 <= Qabs q.
Proof.
  intros Hs. unfold round_sig.
  destruct (qleb (p10 14) (qdiv (qabs q) scale) && qltb (qdiv (qabs q) scale) (p10 15))%bool eqn:G; [|discriminate].
  intros E. inversion E. subst r. clear E.
  apply andb_true_iff in G. destruct G as [G1 _]. apply qleb_le in G1. revert G1. qnorm. intros G1.
  split.
  - set (k := inject_Z (Qfloor (q / scale + (1 # 2)))).
    assert (E : k * scale - q == (k - q / scale) * scale) by (field; lra).
    rewrite E, Qabs_Qmult, (Qabs_pos scale) by lra.
    apply Qmult_le_compat_r; [apply floor_half | lra].
  - assert (A : qabs q == Qabs q).
    { unfold qabs. destruct (qltb q 0) eqn:L.
      - apply qltb_lt in L. qnorm. rewrite Qabs_neg by lra. reflexivity.
      - apply qltb_ge in L. rewrite Qabs_pos by lra. reflexivity. }
    rewrite A in G1. apply (Qmult_le_compat_r _ _ scale) in G1; [|lra].
    assert (X : Qabs q / scale * scale == Qabs q) by (field; lra). rewrite X in G1. lra.
Qed.

(* a decoded number is accepted unless it is a non-zero subnormal *)
Theorem decode_float_ok q : (q == 0 \/ min_normal <= Qabs q) -> decode DFloat (JNum q) = Some (CF q).
Proof.
  intros H. unfold decode.
  assert (A : qabs q == Qabs q).
  { unfold qabs. destruct (qltb q 0) eqn:L.
    - apply qltb_lt in L. qnorm. rewrite Qabs_neg by lra. reflexivity.
    - apply qltb_ge in L. rewrite Qabs_pos by lra. reflexivity. }
  destruct H as [H|H].
  - assert (Z : qeqb q 0 = true) by (apply qeqb_eq; exact H). rewrite Z. reflexivity.
  - assert (L : qltb (qabs q) min_normal = false) by (apply qltb_ge; rewrite A; exact H).
    rewrite L, andb_false_r. reflexivity.
Qed.

(* everything that is not a float / infinity survives unchanged: ints, bools, None, NaN of float columns,
   every string (numeric-looking, empty, "nan", ... : the stored dtype keeps pandas from converting it) *)
Theorem roundtrip_exact d scale c : fits d c = true -> G20_exact d c = true -> roundtrip d scale c = Some c.
Proof. destruct d, c; simpl; intros H G; try discriminate; reflexivity. Qed.

Theorem str_roundtrip s scale : roundtrip DObject scale (CS s) = Some (CS s) /\ roundtrip DString scale (CS s) = Some (CS s).
Proof. split; reflexivity. Qed.

(* missing values stay missing (NaN inside an object column comes back as None) *)
Theorem missing_roundtrip d scale c : fits d c = true -> (c = CNaN \/ c = CNone) ->
  exists c', roundtrip d scale c = Some c' /\ cell_equiv c c'.
Proof. intros H [-> | ->]; destruct d; simpl in *; try discriminate; eexists; split; try reflexivity; exact I. Qed.

(* FULL statement "every cell a column can hold comes back equivalent" is false: infinities become NaN ... *)
Theorem inf_refuted : exists d scale c, fits d c = true /\ roundtrip d scale c = Some CNaN /\ ~ cell_equiv c CNaN.
Proof. exists DFloat, 1, (CInf false). repeat split. simpl. discriminate. Qed.

(* ... and a subnormal float is written but cannot be read back *)
Definition q_sub : Q := 1 # (2 ^ 1030).
Definition sc_sub : Q := 1 / inject_Z (10 ^ 325).
Theorem subnormal_refuted : fits DFloat (CF q_sub) = true /\ roundtrip DFloat sc_sub (CF q_sub) = None.
Proof. split; vm_compute; reflexivity. Qed.

Example fixed_nonvacuous : roundtrip DFloat 1 (CF (1 # 3)) = Some (CF (333333333333333 # 1000000000000000)).
Proof. vm_compute. reflexivity. Qed.
