(* C20 — cell / column codec of the JSON round trip (pandapower/io_utils.py json_dataframe :1024-1050 =
   DataFrame.to_json(orient="split", double_precision=15) + the stored dtype dict; FromSerializableRegistry.DataFrame
   :545-611 = pd.read_json(precise_float=True, convert_axes=False, dtype=<stored dtypes>) + object-column post-processing
   "df.loc[pd.isnull(df[col]), col] = None").
   Float text codec as observed on pandas 2.3 (ujson): fixed notation with 15 decimal places for 1e-15 <= |x| <= 1e16,
   otherwise 15 significant digits with exponent; NaN, +-inf, None, pd.NA all become null.
   Executable definitions only. *)
From Coq Require Import ZArith QArith Qround List Bool String.
From PPV Require Import Base.QN Base.Out.
Import ListNotations.
Open Scope Q_scope.

Inductive cell :=
| CF (q : Q)            (* finite float *)
| CNaN
| CInf (neg : bool)
| CI (z : Z)
| CB (b : bool)
| CS (s : string)
| CNone.                (* None / pd.NA *)
Inductive dtype := DFloat | DInt | DBool | DObject | DNullInt | DString
| DObjNum.   (* an object column whose non-missing cells are all ints/floats and that holds a float or a missing value:
                pandas parses it as a float array (an all-int column without missing values keeps its ints) *)
Inductive jtok := JNum (q : Q) | JInt (z : Z) | JNull | JBool (b : bool) | JStr (s : string) | JRangeError.

Definition p10 (n : nat) : Q := inject_Z (Z.pow 10 (Z.of_nat n)).
(* round half up to a multiple of 10^-15 (no IEEE double is a tie, so the rounding mode does not matter) *)
Definition round_fixed (q : Q) : Q := qdiv (inject_Z (Qfloor (qadd (qmul q (p10 15)) (1 # 2)))) (p10 15).
(* 15 significant digits: the harness passes the decimal exponent e = floor(log10 |q|); scale = 10^(e-14) given as a
   rational; the model checks 10^14 <= |q|/scale < 10^15 *)
Definition round_sig (q scale : Q) : option Q :=
  let m := qdiv (qabs q) scale in
  if (qleb (p10 14) m && qltb m (p10 15))%bool
  then Some (qmul (inject_Z (Qfloor (qadd (qdiv q scale) (1 # 2)))) scale) else None.
Definition in_fixed_range (q : Q) : bool := (qleb (1 / p10 15) (qabs q) && qleb (qabs q) (p10 16))%bool.

(* smallest positive normal double: the decoder raises "Range error" below it *)
Definition min_normal : Q := 1 / inject_Z (Z.pow 2 1022).

Definition enc_float (q scale : Q) : jtok :=
  if qeqb q 0 then JNum 0
  else if in_fixed_range q then JNum (round_fixed q)
  else match round_sig q scale with Some r => JNum r | None => JRangeError end.
Definition encode (scale : Q) (c : cell) : jtok :=
  match c with
  | CF q => enc_float q scale
  | CNaN | CInf _ | CNone => JNull
  | CI z => JInt z
  | CB b => JBool b
  | CS s => JStr s
  end.

(* decode: Some cell, or None = from_json raises *)
Definition decode (d : dtype) (t : jtok) : option cell :=
  match t with
  | JRangeError => None
  | JNum q => if (negb (qeqb q 0) && qltb (qabs q) min_normal)%bool then None     (* ujson: Range error when decoding numeric as double *)
              else match d with DFloat | DObject | DObjNum => Some (CF q) | _ => None end
  | JInt z => match d with DFloat | DObjNum => Some (CF (inject_Z z)) | DInt | DObject | DNullInt => Some (CI z) | _ => None end
  | JNull => match d with DFloat => Some CNaN | DObject | DNullInt | DString | DObjNum => Some CNone | _ => None end
  | JBool b => match d with DBool | DObject => Some (CB b) | _ => None end
  | JStr s => match d with DObject | DString => Some (CS s) | _ => None end
  end.
Definition roundtrip (d : dtype) (scale : Q) (c : cell) : option cell := decode d (encode scale c).

(* which cells a column of the dtype can hold *)
Definition fits (d : dtype) (c : cell) : bool :=
  match d, c with
  | DFloat, (CF _ | CNaN | CInf _) => true
  | DInt, CI _ => true
  | DBool, CB _ => true
  | DObject, _ => true
  | DNullInt, (CI _ | CNone) => true
  | DString, (CS _ | CNone) => true
  | DObjNum, (CF _ | CI _ | CNaN | CNone | CInf _) => true
  | _, _ => false
  end.
(* guard of the exact round trip: not a float, not an infinity, no NaN inside an object column, no int inside an
   all-numeric object column (it comes back as the float of the same value) *)
Definition G20_exact (d : dtype) (c : cell) : bool :=
  match c with CF _ | CInf _ => false | CNaN => match d with DFloat => true | _ => false end
  | CI _ => match d with DObjNum => false | _ => true end | _ => true end.
(* "missing" classes coincide after the round trip *)
Definition cell_equiv (a b : cell) : Prop :=
  match a, b with
  | CF x, CF y => x == y
  | (CNaN | CNone), (CNaN | CNone) => True
  | _, _ => a = b
  end.

(* ---- output *)
Definition ocell (o : option cell) : out :=
  match o with
  | None => OErr "RangeError"
  | Some (CF q) => OL [OS "f"; oq q]
  | Some CNaN => OS "nan"
  | Some (CInf n) => OL [OS "inf"; OB n]
  | Some (CI z) => OL [OS "i"; OZ z]
  | Some (CB b) => OL [OS "b"; OB b]
  | Some (CS s) => OL [OS "s"; OS s]
  | Some CNone => OS "none"
  end.
Definition run_col (d : dtype) (cells : list (Q * cell)) : out := olist (fun p => ocell (roundtrip d (fst p) (snd p))) cells.
