(* C20 — column / table level of the JSON round trip of a DataFrame.
   Writer: io_utils.py:1024-1050 json_dataframe = DataFrame.to_json(orient="split") (columns, index, data row by row)
   + d['dtype'] = obj.dtypes.astype('str').to_dict().
   Reader: io_utils.py:545-611 FromSerializableRegistry.DataFrame = pd.read_json(precise_float=True, convert_axes=False,
   dtype=<stored dtypes>, orient="split"), i.e. (pandas/io/json/_json.py)
     1. FrameParser._parse: DataFrame(data, columns, index) of the decoded tokens -> the constructor infers a *raw* dtype
        per column from the tokens (all ints -> int64; numbers and nulls with at least one number -> float64, null = NaN;
        all bools -> bool; anything else, also all-null and empty -> object, null = None);
     2. _try_convert_data with the stored dtype: data.astype(dtype); on TypeError / ValueError the raw data is kept;
     3. back in pandapower: for every column that is now of dtype object: pp_hook per cell, astype(object) and
        df.loc[pd.isnull(df[col]), col] = None  (the object-column null reset);
     column order and index labels are taken from the stored lists (convert_axes=False); an empty table gets an int64 index.
   Executable definitions only. *)
From Coq Require Import ZArith QArith Qround List Bool String.
From PPV Require Import Base.QN Base.Out C20.Model.
Import ListNotations.
Open Scope Q_scope.

(* dtype classes the code distinguishes: the six stored dtypes of Model.v (DFloat DInt DBool DObject DNullInt DString);
   DObjNum is not a stored dtype: it is the behaviour of an object column whose raw dtype is float64 (derived here) *)
Inductive rawkind := RInt | RFloat | RBool | RObj.

Definition is_jint (t : jtok) : bool := match t with JInt _ => true | _ => false end.
Definition is_jnum (t : jtok) : bool := match t with JInt _ | JNum _ => true | _ => false end.
Definition is_numnull (t : jtok) : bool := match t with JInt _ | JNum _ | JNull => true | _ => false end.
Definition is_jbool (t : jtok) : bool := match t with JBool _ => true | _ => false end.
Definition is_err (t : jtok) : bool :=
  match t with JRangeError => true | JNum q => negb (qeqb q 0) && qltb (qabs q) min_normal | _ => false end.
Definition nonempty {A} (l : list A) : bool := match l with [] => false | _ => true end.

(* step 1: dtype inference of the DataFrame constructor *)
Definition infer (ts : list jtok) : rawkind :=
  if nonempty ts && forallb is_jint ts then RInt
  else if forallb is_numnull ts && existsb is_jnum ts then RFloat
  else if nonempty ts && forallb is_jbool ts then RBool
  else RObj.
Definition raw_cell (k : rawkind) (t : jtok) : cell :=
  match t with
  | JInt z => match k with RFloat => CF (inject_Z z) | _ => CI z end      (* exact for |z| <= 2^53 *)
  | JNum q => CF q
  | JNull => match k with RFloat => CNaN | _ => CNone end
  | JBool b => CB b
  | JStr s => CS s
  | JRangeError => CNone
  end.

(* step 2: Series.astype(stored dtype) on a raw column: Some cell, or None = TypeError / ValueError.
   Only the conversions a column written from that dtype can meet are modelled; [modelled] says which *)
Definition is_intq (q : Q) : bool := qeqb (inject_Z (Qfloor q)) q.
Definition conv (d : dtype) (k : rawkind) (c : cell) : option cell :=
  match d with
  | DFloat => match c with CF q => Some (CF q) | CI z => Some (CF (inject_Z z)) | CNaN | CNone => Some CNaN | _ => None end
  | DInt => match c with CI z => Some (CI z) | _ => None end
  | DBool => match c with CB b => Some (CB b) | _ => None end
  | DObject | DObjNum => Some c
  | DNullInt => match c with CI z => Some (CI z) | CNaN | CNone => Some CNone
                | CF q => if is_intq q then Some (CI (Qfloor q)) else None | _ => None end
  | DString => match c with CS s => Some (CS s) | CNone => Some CNone | _ => None end
  end.
Definition modelled (d : dtype) (k : rawkind) : bool :=
  match d, k with
  | DFloat, (RInt | RFloat | RObj) => true
  | DInt, (RInt | RObj) => true
  | DBool, (RBool | RObj) => true
  | DObject, _ => true
  | DNullInt, (RInt | RFloat | RObj) => true
  | DString, RObj => true
  | _, _ => false
  end.
Fixpoint all_some {A} (l : list (option A)) : option (list A) :=
  match l with
  | [] => Some []
  | None :: _ => None
  | Some x :: t => match all_some t with Some r => Some (x :: r) | None => None end
  end.
Definition raw_dtype (k : rawkind) : dtype := match k with RInt => DInt | RFloat => DFloat | RBool => DBool | RObj => DObject end.

(* step 3: the object-column null reset *)
Definition null_reset (c : cell) : cell := match c with CNaN => CNone | _ => c end.
Definition post (d : dtype) (cs : list cell) : list cell := match d with DObject => map null_reset cs | _ => cs end.

Inductive colres := ColErr (s : string) | ColOk (d : dtype) (cs : list cell).
Definition decode_col (d : dtype) (ts : list jtok) : colres :=
  if existsb is_err ts then ColErr "RangeError" else
  let k := infer ts in
  if negb (modelled d k) then ColErr "unmodelled" else
  let raw := map (raw_cell k) ts in
  match all_some (map (conv d k) raw) with
  | Some cs => ColOk d (post d cs)
  | None => ColOk (raw_dtype k) (post (raw_dtype k) raw)           (* astype raised: the raw data is kept *)
  end.
Definition encode_col (cs : list (Q * cell)) : list jtok := map (fun p => encode (fst p) (snd p)) cs.

(* the class of the per-cell codec (Model.v) that describes a column: an object column whose raw dtype is float64
   behaves as DObjNum (ints come back as floats), as computed from its cells *)
Definition numlike (c : cell) : bool := match c with CF _ | CI _ | CNaN | CNone | CInf _ => true | _ => false end.
Definition is_ci (c : cell) : bool := match c with CI _ => true | _ => false end.
Definition is_num (c : cell) : bool := match c with CF _ | CI _ => true | _ => false end.
Definition col_class (d : dtype) (cs : list cell) : dtype :=
  match d with
  | DObject => if forallb numlike cs && existsb is_num cs && negb (forallb is_ci cs) then DObjNum else DObject
  | _ => d
  end.

(* ---- tables: column order, index *)
Record table := { t_index : list Z; t_cols : list (string * (dtype * list (Q * cell))) }.
Record jtable := { j_index : list Z; j_cols : list (string * (dtype * list jtok)) }.     (* "index", "columns"+"data"+dtype dict *)
Definition encode_table (t : table) : jtable :=
  {| j_index := t_index t; j_cols := map (fun c => (fst c, (fst (snd c), encode_col (snd (snd c))))) (t_cols t) |}.
Definition decode_table (j : jtable) : list Z * list (string * colres) :=
  (j_index j, map (fun c => (fst c, decode_col (fst (snd c)) (snd (snd c)))) (j_cols j)).

(* ---- output *)
Definition odtype (d : dtype) : out :=
  OS (match d with DFloat => "float64" | DInt => "int64" | DBool => "bool" | DObject => "object" | DNullInt => "Int64"
      | DString => "string" | DObjNum => "objnum" end).
Definition ocolres (r : colres) : out :=
  match r with ColErr s => OErr s | ColOk d cs => OL [odtype d; olist (fun c => ocell (Some c)) cs] end.
Definition run_table (index : list Z) (cols : list (string * (dtype * list (Q * cell)))) : out :=
  let r := decode_table (encode_table {| t_index := index; t_cols := cols |}) in
  OL [olist OZ (fst r); olist (fun c => OL [OS (fst c); ocolres (snd c)]) (snd r);
      olist (fun c => odtype (col_class (fst (snd c)) (map snd (snd (snd c))))) cols].
