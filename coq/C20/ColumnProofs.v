From Coq Require Import ZArith QArith Qround List Bool String Lia.
From PPV Require Import Base.QN C20.Model C20.Column.
Import ListNotations.
Open Scope Q_scope.

Lemma all_some_map {A B} (g : A -> option B) (f : A -> B) l :
  (forall x, In x l -> g x = Some (f x)) -> all_some (map g l) = Some (map f l).
Proof.
  induction l as [|a l IH]; intros H; [reflexivity|]. simpl.
  rewrite (H a (or_introl eq_refl)), IH; [reflexivity|]. intros x Hx. apply H. right. exact Hx.
Qed.

Lemma existsb_none {A} (P Q : A -> bool) l : forallb P l = true -> (forall x, P x = true -> Q x = false) -> existsb Q l = false.
Proof.
  induction l as [|a l IH]; simpl; intros H HQ; [reflexivity|].
  apply andb_true_iff in H. destruct H as [H1 H2]. rewrite (HQ a H1), (IH H2 HQ). reflexivity.
Qed.
Lemma forallb_hd_false {A} (P : A -> bool) a l : P a = false -> (nonempty (a :: l) && forallb P (a :: l))%bool = false.
Proof. intros H. simpl. rewrite H. reflexivity. Qed.

(* the generic step: no range error, a modelled conversion that succeeds on every cell *)
Lemma decode_col_ok d ts f :
  existsb is_err ts = false -> modelled d (infer ts) = true ->
  (forall t, In t ts -> conv d (infer ts) (raw_cell (infer ts) t) = Some (f t)) ->
  decode_col d ts = ColOk d (post d (map f ts)).
Proof.
  intros He Hm Hc. unfold decode_col. rewrite He, Hm. simpl negb. cbv iota.
  rewrite map_map. rewrite (all_some_map (fun t => conv d (infer ts) (raw_cell (infer ts) t)) f ts Hc). reflexivity.
Qed.

(* ------------------------------------------------------------ dtype inference on the tokens of each class *)
Lemma infer_all_int ts : forallb is_jint ts = true -> infer ts = if nonempty ts then RInt else RObj.
Proof. intros H. unfold infer. rewrite H. destruct ts; reflexivity. Qed.

Lemma infer_all_bool ts : forallb is_jbool ts = true -> infer ts = if nonempty ts then RBool else RObj.
Proof.
  intros H. destruct ts as [|t r]; [reflexivity|]. unfold infer.
  simpl in H. apply andb_true_iff in H. destruct H as [H1 H2].
  destruct t; try discriminate. simpl. rewrite H2. reflexivity.
Qed.

Definition is_strnull (t : jtok) : bool := match t with JStr _ | JNull => true | _ => false end.
Lemma infer_strnull ts : forallb is_strnull ts = true -> infer ts = RObj.
Proof.
  intros H. unfold infer.
  assert (E : existsb is_jnum ts = false) by (apply (existsb_none is_strnull); [exact H | intros [] ?; try discriminate; reflexivity]).
  rewrite E, andb_false_r.
  destruct ts as [|t r]; [reflexivity|]. simpl in H. apply andb_true_iff in H. destruct H as [H1 _].
  destruct t; try discriminate; reflexivity.
Qed.

Definition is_fnull (t : jtok) : bool := match t with JNum _ | JNull => true | _ => false end.
Lemma infer_fnull ts : forallb is_fnull ts = true -> infer ts = if existsb is_jnum ts then RFloat else RObj.
Proof.
  intros H. unfold infer.
  assert (N : forallb is_numnull ts = true).
  { apply forallb_forall. intros t Ht. rewrite forallb_forall in H. specialize (H t Ht). destruct t; try discriminate; reflexivity. }
  rewrite N. simpl andb.
  destruct ts as [|t r]; [reflexivity|]. simpl in H. apply andb_true_iff in H. destruct H as [H1 H2].
  assert (I : (nonempty (t :: r) && forallb is_jint (t :: r))%bool = false) by (apply forallb_hd_false; destruct t; try discriminate; reflexivity).
  rewrite I. destruct (existsb is_jnum (t :: r)) eqn:E; [reflexivity|].
  simpl in E. apply orb_false_iff in E. destruct E as [E1 _]. destruct t; try discriminate; reflexivity.
Qed.

Definition is_inull (t : jtok) : bool := match t with JInt _ | JNull => true | _ => false end.
Lemma infer_inull ts : forallb is_inull ts = true ->
  infer ts = if (nonempty ts && forallb is_jint ts)%bool then RInt else if existsb is_jnum ts then RFloat else RObj.
Proof.
  intros H. unfold infer.
  assert (N : forallb is_numnull ts = true).
  { apply forallb_forall. intros t Ht. rewrite forallb_forall in H. specialize (H t Ht). destruct t; try discriminate; reflexivity. }
  rewrite N. simpl andb. destruct (nonempty ts && forallb is_jint ts)%bool; [reflexivity|].
  destruct (existsb is_jnum ts) eqn:E; [reflexivity|].
  destruct ts as [|t r]; [reflexivity|]. simpl in H. apply andb_true_iff in H. destruct H as [H1 _].
  simpl in E. apply orb_false_iff in E. destruct E as [E1 _]. destruct t; try discriminate; reflexivity.
Qed.

(* ------------------------------------------------------------ column round trips, one per stored dtype class *)
Definition fitsall (d : dtype) (cs : list (Q * cell)) : bool := forallb (fun p => fits d (snd p)) cs.

Lemma tokens_forall (P : jtok -> bool) d cs : fitsall d cs = true -> (forall s c, fits d c = true -> P (encode s c) = true) ->
  forallb P (encode_col cs) = true.
Proof.
  intros H HP. unfold encode_col. apply forallb_forall. intros t Ht. apply in_map_iff in Ht. destruct Ht as [p [<- Hp]].
  apply HP. unfold fitsall in H. rewrite forallb_forall in H. apply (H p Hp).
Qed.
Lemma no_err_of (P : jtok -> bool) ts : forallb P ts = true -> (forall t, P t = true -> is_err t = false) -> existsb is_err ts = false.
Proof. intros H HP. apply (existsb_none P); assumption. Qed.

Lemma map_enc_eq (f : jtok -> cell) d cs : fitsall d cs = true -> (forall s c, fits d c = true -> f (encode s c) = c) ->
  map f (encode_col cs) = map snd cs.
Proof.
  intros H Hf. unfold encode_col. rewrite map_map. apply map_ext_in. intros p Hp. apply Hf.
  unfold fitsall in H. rewrite forallb_forall in H. apply (H p Hp).
Qed.

(* int64 column: dtype and every cell restored exactly *)
Theorem col_roundtrip_int cs : fitsall DInt cs = true -> decode_col DInt (encode_col cs) = ColOk DInt (map snd cs).
Proof.
  intros H.
  assert (T : forallb is_jint (encode_col cs) = true) by (apply (tokens_forall is_jint DInt cs H); intros s [] ?; try discriminate; reflexivity).
  set (f := fun t => match t with JInt z => CI z | _ => CNone end).
  rewrite (decode_col_ok DInt (encode_col cs) f).
  - simpl post. f_equal. apply (map_enc_eq f DInt cs H). intros s [] ?; try discriminate; reflexivity.
  - apply (no_err_of is_jint); [exact T | intros [] ?; try discriminate; reflexivity].
  - rewrite (infer_all_int _ T). destruct (nonempty (encode_col cs)); reflexivity.
  - intros t Ht. rewrite (infer_all_int _ T). rewrite forallb_forall in T. specialize (T t Ht).
    destruct t; try discriminate. destruct (nonempty (encode_col cs)); reflexivity.
Qed.

(* bool column *)
Theorem col_roundtrip_bool cs : fitsall DBool cs = true -> decode_col DBool (encode_col cs) = ColOk DBool (map snd cs).
Proof.
  intros H.
  assert (T : forallb is_jbool (encode_col cs) = true) by (apply (tokens_forall is_jbool DBool cs H); intros s [] ?; try discriminate; reflexivity).
  set (f := fun t => match t with JBool b => CB b | _ => CNone end).
  rewrite (decode_col_ok DBool (encode_col cs) f).
  - simpl post. f_equal. apply (map_enc_eq f DBool cs H). intros s [] ?; try discriminate; reflexivity.
  - apply (no_err_of is_jbool); [exact T | intros [] ?; try discriminate; reflexivity].
  - rewrite (infer_all_bool _ T). destruct (nonempty (encode_col cs)); reflexivity.
  - intros t Ht. rewrite (infer_all_bool _ T). rewrite forallb_forall in T. specialize (T t Ht).
    destruct t; try discriminate. destruct (nonempty (encode_col cs)); reflexivity.
Qed.

(* string[python] column: strings and NA *)
Theorem col_roundtrip_string cs : fitsall DString cs = true -> decode_col DString (encode_col cs) = ColOk DString (map snd cs).
Proof.
  intros H.
  assert (T : forallb is_strnull (encode_col cs) = true) by (apply (tokens_forall is_strnull DString cs H); intros s [] ?; try discriminate; reflexivity).
  set (f := fun t => match t with JStr s => CS s | _ => CNone end).
  rewrite (decode_col_ok DString (encode_col cs) f).
  - simpl post. f_equal. apply (map_enc_eq f DString cs H). intros s [] ?; try discriminate; reflexivity.
  - apply (no_err_of is_strnull); [exact T | intros [] ?; try discriminate; reflexivity].
  - rewrite (infer_strnull _ T). reflexivity.
  - intros t Ht. rewrite (infer_strnull _ T). rewrite forallb_forall in T. specialize (T t Ht).
    destruct t; try discriminate; reflexivity.
Qed.

(* nullable Int64 column: whether the tokens are all ints (raw int64), ints and nulls (raw float64: the ints travel as
   floats and are converted back) or all null (raw object) *)
Theorem col_roundtrip_nullint cs : fitsall DNullInt cs = true -> decode_col DNullInt (encode_col cs) = ColOk DNullInt (map snd cs).
Proof.
  intros H.
  assert (T : forallb is_inull (encode_col cs) = true) by (apply (tokens_forall is_inull DNullInt cs H); intros s [] ?; try discriminate; reflexivity).
  set (f := fun t => match t with JInt z => CI z | _ => CNone end).
  rewrite (decode_col_ok DNullInt (encode_col cs) f).
  - simpl post. f_equal. apply (map_enc_eq f DNullInt cs H). intros s [] ?; try discriminate; reflexivity.
  - apply (no_err_of is_inull); [exact T | intros [] ?; try discriminate; reflexivity].
  - rewrite (infer_inull _ T). destruct (nonempty (encode_col cs) && forallb is_jint (encode_col cs))%bool; [reflexivity|].
    destruct (existsb is_jnum (encode_col cs)); reflexivity.
  - intros t Ht. rewrite (infer_inull _ T). rewrite forallb_forall in T. specialize (T t Ht).
    destruct t as [q|z| | | |]; try discriminate.
    + destruct (nonempty (encode_col cs) && forallb is_jint (encode_col cs))%bool; [reflexivity|].
      destruct (existsb is_jnum (encode_col cs)); [|reflexivity].
      cbn [conv raw_cell]. unfold is_intq. rewrite Qfloor_Z.
      assert (E : qeqb (inject_Z z) (inject_Z z) = true) by (apply qeqb_eq; reflexivity). rewrite E. reflexivity.
    + destruct (nonempty (encode_col cs) && forallb is_jint (encode_col cs))%bool; [reflexivity|].
      destruct (existsb is_jnum (encode_col cs)); reflexivity.
Qed.

(* float64 column: dtype restored, same number of rows, every cell = the per-cell codec of Model.v (whose error bounds
   are C20_float_roundtrip_within / _sig_within); NaN stays NaN; an infinity comes back as NaN (known finding);
   the load raises iff some cell is written as a subnormal *)
Definition fdec (t : jtok) : cell := match t with JNum q => CF q | _ => CNaN end.
Theorem col_roundtrip_float cs : fitsall DFloat cs = true -> existsb is_err (encode_col cs) = false ->
  decode_col DFloat (encode_col cs) = ColOk DFloat (map fdec (encode_col cs)) /\
  map (fun p => roundtrip DFloat (fst p) (snd p)) cs = map Some (map fdec (encode_col cs)).
Proof.
  intros H He.
  assert (T0 : forall t, In t (encode_col cs) -> is_fnull t = true).
  { intros t Ht. unfold encode_col in Ht. apply in_map_iff in Ht. destruct Ht as [p [<- Hp]].
    unfold fitsall in H. rewrite forallb_forall in H. specialize (H p Hp).
    assert (Hn : is_err (encode (fst p) (snd p)) = false).
    { destruct (is_err (encode (fst p) (snd p))) eqn:E; [|reflexivity].
      assert (X : existsb is_err (encode_col cs) = true).
      { apply existsb_exists. exists (encode (fst p) (snd p)). split; [|exact E]. unfold encode_col.
        apply (in_map (fun p => encode (fst p) (snd p))). exact Hp. }
      congruence. }
    destruct (snd p); try discriminate; try reflexivity.
    simpl in *. unfold enc_float in *. destruct (qeqb q 0); [reflexivity|]. destruct (in_fixed_range q); [reflexivity|].
    destruct (round_sig q (fst p)); [reflexivity | discriminate]. }
  assert (T : forallb is_fnull (encode_col cs) = true) by (apply forallb_forall; exact T0).
  split.
  - rewrite (decode_col_ok DFloat (encode_col cs) fdec).
    + reflexivity.
    + exact He.
    + rewrite (infer_fnull _ T). destruct (existsb is_jnum (encode_col cs)); reflexivity.
    + intros t Ht. rewrite (infer_fnull _ T). specialize (T0 t Ht).
      destruct t; try discriminate; destruct (existsb is_jnum (encode_col cs)); reflexivity.
  - unfold encode_col. rewrite !map_map. apply map_ext_in. intros p Hp. unfold roundtrip.
    assert (Ht : In (encode (fst p) (snd p)) (encode_col cs)) by (unfold encode_col; apply (in_map (fun p => encode (fst p) (snd p))); exact Hp).
    pose proof (T0 _ Ht) as F.
    assert (Hn : is_err (encode (fst p) (snd p)) = false).
    { destruct (is_err (encode (fst p) (snd p))) eqn:E; [|reflexivity].
      assert (X : existsb is_err (encode_col cs) = true) by (apply existsb_exists; eexists; split; [exact Ht | exact E]). congruence. }
    destruct (encode (fst p) (snd p)) as [q|z| | | |]; try discriminate; [|reflexivity].
    simpl in Hn. simpl. rewrite Hn. reflexivity.
Qed.

(* ------------------------------------------------------------ object columns *)
(* an object column holding at least one string or bool: raw dtype object, every cell = the per-cell codec of class DObject *)
Definition has_strbool (cs : list (Q * cell)) : bool := existsb (fun p => match snd p with CS _ | CB _ => true | _ => false end) cs.
Definition odec (t : jtok) : cell :=
  match t with JNum q => CF q | JInt z => CI z | JNull => CNone | JBool b => CB b | JStr s => CS s | JRangeError => CNone end.

Lemma infer_robj_of ts : existsb (fun t => match t with JStr _ => true | _ => false end) ts = true -> infer ts = RObj.
Proof.
  intros H. apply existsb_exists in H. destruct H as [t [Ht Hs]]. destruct t; try discriminate.
  unfold infer.
  assert (A : forall P, P (JStr s) = false -> forallb P ts = false).
  { intros P HP. apply not_true_is_false. intros X. rewrite forallb_forall in X. specialize (X _ Ht). congruence. }
  rewrite (A is_jint eq_refl), (A is_numnull eq_refl), (A is_jbool eq_refl). rewrite !andb_false_r. reflexivity.
Qed.

Theorem col_roundtrip_object_str cs :
  existsb (fun p => match snd p with CS _ => true | _ => false end) cs = true -> existsb is_err (encode_col cs) = false ->
  decode_col DObject (encode_col cs) = ColOk DObject (map odec (encode_col cs)) /\
  map (fun p => roundtrip DObject (fst p) (snd p)) cs = map Some (map odec (encode_col cs)).
Proof.
  intros Hs He.
  assert (K : infer (encode_col cs) = RObj).
  { apply infer_robj_of. apply existsb_exists in Hs. destruct Hs as [p [Hp Hc]]. apply existsb_exists.
    exists (encode (fst p) (snd p)). split; [unfold encode_col; apply (in_map (fun p => encode (fst p) (snd p))); exact Hp|]. destruct (snd p); try discriminate. reflexivity. }
  assert (Hn : forall p, In p cs -> is_err (encode (fst p) (snd p)) = false).
  { intros p Hp. destruct (is_err (encode (fst p) (snd p))) eqn:E; [|reflexivity].
    assert (X : existsb is_err (encode_col cs) = true).
    { apply existsb_exists. exists (encode (fst p) (snd p)). split; [unfold encode_col; apply (in_map (fun p => encode (fst p) (snd p))); exact Hp | exact E]. } congruence. }
  split.
  - rewrite (decode_col_ok DObject (encode_col cs) (fun t => odec t)).
    + simpl post. rewrite map_map. f_equal. apply map_ext. intros t. destruct t; reflexivity.
    + exact He.
    + rewrite K. reflexivity.
    + intros t Ht. rewrite K. destruct t; reflexivity.
  - unfold encode_col. rewrite !map_map. apply map_ext_in. intros p Hp. unfold roundtrip.
    specialize (Hn p Hp). destruct (encode (fst p) (snd p)) as [q|z| | | |]; try reflexivity; try discriminate.
    simpl in Hn. simpl. rewrite Hn. reflexivity.
Qed.

(* ------------------------------------------------------------ tables: index and column order *)
Theorem table_roundtrip_shape t :
  fst (decode_table (encode_table t)) = t_index t /\
  map fst (snd (decode_table (encode_table t))) = map fst (t_cols t) /\
  List.length (snd (decode_table (encode_table t))) = List.length (t_cols t).
Proof.
  unfold decode_table, encode_table. simpl. repeat split.
  - rewrite !map_map. reflexivity.
  - rewrite !map_length. reflexivity.
Qed.

(* the i-th column of the loaded table is the decode of the i-th stored column with its own stored dtype *)
Theorem table_roundtrip_cols t :
  snd (decode_table (encode_table t)) =
  map (fun c => (fst c, decode_col (fst (snd c)) (encode_col (snd (snd c))))) (t_cols t).
Proof. unfold decode_table, encode_table. simpl. rewrite map_map. reflexivity. Qed.

(* witnesses *)
Example col_nullint_nonvacuous :
  decode_col DNullInt (encode_col [(1, CI 5); (1, CNone); (1, CI (-3))]) = ColOk DNullInt [CI 5; CNone; CI (-3)].
Proof. vm_compute. reflexivity. Qed.
Example col_objnum_ints_become_floats :
  decode_col DObject (encode_col [(1, CI 1); (1, CNone)]) = ColOk DObject [CF (inject_Z 1); CNone] /\
  col_class DObject [CI 1; CNone] = DObjNum.
Proof. split; vm_compute; reflexivity. Qed.
Example col_float_inf_refuted :
  decode_col DFloat (encode_col [(1, CInf false); (1, CF (1 # 2))]) = ColOk DFloat [CNaN; CF (1 # 2)].
Proof. vm_compute. reflexivity. Qed.
