(* C21 — proofs about the conversion round trip model *)
From Coq Require Import ZArith QArith Qabs List Bool Lia Lqa Setoid.
From PPV Require Import Base.QN C21.Model.
Import ListNotations.
Open Scope Q_scope.

Ltac unf := unfold to_line, from_line, from_line_old, sq, q1e9, q1e6, q1e3, q100 in *; cbn [br_r br_x br_b br_g l_r l_x l_c l_g l_len l_par] in *; qnorm.

(* ---------------------------------------------------------------- lines *)
Lemma ppc_line_roundtrip : forall pif S vn r,
  ~ pif == 0 -> ~ S == 0 -> ~ vn == 0 ->
  let r' := to_line pif S vn (from_line pif S vn r) in
  br_r r' == br_r r /\ br_x r' == br_x r /\ br_b r' == br_b r /\ br_g r' == br_g r.
Proof.
  intros pif S vn r Hp HS Hv. unf. repeat split; field; repeat split; assumption.
Qed.

Lemma ppc_line_roundtrip_old : forall pif S vn r,
  ~ pif == 0 -> ~ S == 0 -> ~ vn == 0 ->
  let r' := to_line pif S vn (from_line_old pif S vn r) in
  br_r r' == br_r r /\ br_x r' == br_x r /\ br_b r' == br_b r /\ br_g r' == br_g r / 2.
Proof.
  intros pif S vn r Hp HS Hv. unf. repeat split; field; repeat split; assumption.
Qed.

Lemma line_roundtrip_old_partial : forall pif S vn r,
  ~ pif == 0 -> ~ S == 0 -> ~ vn == 0 -> G21_line r = true ->
  let r' := to_line pif S vn (from_line_old pif S vn r) in
  br_r r' == br_r r /\ br_x r' == br_x r /\ br_b r' == br_b r /\ br_g r' == br_g r.
Proof.
  intros pif S vn r Hp HS Hv G.
  destruct (ppc_line_roundtrip_old pif S vn r Hp HS Hv) as (A & B & C & D).
  cbv zeta. repeat split; try assumption.
  unfold G21_line in G. apply qeqb_eq in G. rewrite D, G. reflexivity.
Qed.

Definition wit_row : lrow := {| br_r := 1; br_x := 1; br_b := 0; br_g := 1 |}.
Lemma line_roundtrip_old_refuted :
  exists pif S vn r, ~ pif == 0 /\ ~ S == 0 /\ ~ vn == 0 /\
    ~ br_g (to_line pif S vn (from_line_old pif S vn r)) == br_g r.
Proof.
  exists 1, 1, 1, wit_row. repeat split; intro H; vm_compute in H; discriminate H.
Qed.

(* net -> ppc -> net : the created line (length 1, parallel 1) has the same total ohmic parameters *)
Lemma line_ohmic_equiv : forall pif S vn l,
  ~ pif == 0 -> ~ S == 0 -> ~ vn == 0 -> ~ l_par l == 0 ->
  let l' := from_line pif S vn (to_line pif S vn l) in
  l_len l' == 1 /\ l_par l' == 1 /\
  l_r l' == l_r l * l_len l / l_par l /\ l_x l' == l_x l * l_len l / l_par l /\
  l_c l' == l_c l * l_len l * l_par l /\ l_g l' == l_g l * l_len l * l_par l.
Proof.
  intros pif S vn l Hp HS Hv Hpar. unf.
  repeat split; try reflexivity; field; repeat split; assumption.
Qed.

(* ---------------------------------------------------------------- classification *)
Lemma which_exclusive : forall fvn tvn tap shift,
  is_line fvn tvn tap shift = true -> is_trafo tap shift = false.
Proof.
  intros. unfold is_line, is_trafo in *.
  destruct (qeqb fvn tvn), (qeqb tap 0), (qeqb tap 1), (qeqb shift 0); cbn in *; congruence.
Qed.
Lemma which_line_same_vn : forall fvn tvn tap shift,
  which fvn tvn tap shift = 0%nat -> fvn == tvn /\ (tap == 0 \/ tap == 1) /\ shift == 0.
Proof.
  intros fvn tvn tap shift H. unfold which in H.
  destruct (is_line fvn tvn tap shift) eqn:E.
  - unfold is_line in E. apply andb_prop in E. destruct E as [E E3]. apply andb_prop in E. destruct E as [E1 E2].
    apply qeqb_eq in E1. apply qeqb_eq in E3. apply orb_prop in E2.
    repeat split; try assumption. destruct E2 as [E2|E2]; apply qeqb_eq in E2; auto.
  - destruct (is_trafo tap shift); discriminate.
Qed.

(* ---------------------------------------------------------------- bus rows *)
Lemma bus_pq_roundtrip : forall pd qd,
  fst (to_bus_pq (from_bus_pq pd qd)) == pd /\ snd (to_bus_pq (from_bus_pq pd qd)) == qd.
Proof.
  intros pd qd. unfold from_bus_pq.
  destruct (qltb 0 pd) eqn:A; destruct (qltb pd 0) eqn:B; destruct (qeqb pd 0) eqn:C; destruct (qeqb qd 0) eqn:D;
    cbn [orb andb negb app to_bus_pq fst snd]; qnorm;
    try (apply qltb_lt in A); try (apply qltb_lt in B); try (apply qltb_ge in A); try (apply qltb_ge in B);
    try (apply qeqb_eq in C); try (apply qeqb_eq in D);
    try (split; lra).
  all: try (exfalso; lra).
  all: try (assert (C' : ~ pd == 0) by (intro X; apply qeqb_eq in X; congruence); exfalso; apply C'; lra).
Qed.

Lemma shunt_roundtrip : forall vn gs bs, ~ vn == 0 ->
  fst (to_bus_shunt vn (from_bus_shunt vn gs bs)) == gs /\ snd (to_bus_shunt vn (from_bus_shunt vn gs bs)) == bs.
Proof.
  intros vn gs bs Hv. unfold from_bus_shunt.
  destruct (qeqb gs 0) eqn:A; destruct (qeqb bs 0) eqn:B; cbn [negb orb to_bus_shunt to_bus_shunt1 fst snd s_p s_q s_vn s_step];
    unfold sq; qnorm; try (apply qeqb_eq in A); try (apply qeqb_eq in B).
  - split; lra.
  - split; field; assumption.
  - split; field; assumption.
  - split; field; assumption.
Qed.

(* ---------------------------------------------------------------- transformers *)
Lemma sqrt_unique : forall s a, 0 <= s -> 0 <= a -> s * s == a * a -> s == a.
Proof. intros. nra. Qed.
Lemma qabs_sign : forall a, qabs a * qsign a == a.
Proof.
  intros a. unfold qabs, qsign.
  destruct (qltb a 0) eqn:A; qnorm.
  - ring.
  - destruct (qltb 0 a) eqn:B; [ring|]. apply qltb_ge in A. apply qltb_ge in B. lra.
Qed.
Lemma qabs_nonneg : forall a, 0 <= qabs a.
Proof. intros a. unfold qabs. destruct (qltb a 0) eqn:A; qnorm; [apply qltb_lt in A | apply qltb_ge in A]; lra. Qed.
Lemma qabs_zero : forall a, qltb 0 (qmul (qabs a) q100) = false -> a == 0.
Proof.
  intros a H. apply qltb_ge in H. unfold q100 in H. qnorm. unfold qabs in H.
  destruct (qltb a 0) eqn:A; qnorm; [apply qltb_lt in A | apply qltb_ge in A]; lra.
Qed.
Lemma qsign_pos : forall a, 0 < a -> qsign a == 1.
Proof. intros a H. unfold qsign. destruct (qltb a 0) eqn:A; [apply qltb_lt in A; lra|].
  destruct (qltb 0 a) eqn:B; [reflexivity| apply qltb_ge in B; lra]. Qed.
Lemma qsign_neg : forall a, a < 0 -> qsign a == -1.
Proof. intros a H. unfold qsign. destruct (qltb a 0) eqn:A; [reflexivity| apply qltb_ge in A; lra]. Qed.

Section TrafoRoundTrip.
  Variables S fvn tvn zk ym r x b g tap shift rate : Q.
  Variables sq_vn sq_x sq_b : Q.
  Hypothesis HS : 0 < S.
  Hypothesis Htv : 0 < tvn.
  Hypothesis Hle : tvn <= fvn.                 (* hv side is the from bus: no swap *)
  Hypothesis Htap0 : isclose0 tap = false.
  Hypothesis Htap : 0 < tap.
  Hypothesis Hx : ~ x == 0.
  Hypothesis Hb : b <= 0.
  Hypothesis Hrate : 0 <= rate.
  (* oracle contracts of from_ppc *)
  Hypothesis Hzk : 0 <= zk /\ zk * zk == r * r + x * x.
  Hypothesis Hym : 0 <= ym /\ ym * ym == b * b + g * g.
  Let t := fst (from_trafo S fvn tvn zk ym r x b g tap shift (Some rate)).
  (* oracle contracts of to_ppc on the converted transformer *)
  Hypothesis Hvn : 0 <= sq_vn /\ sq_vn * sq_vn == tap_arg t * tap_arg t.
  Hypothesis Hsx : is_sqrt sq_x (x_arg S tvn sq_vn t).
  Hypothesis Hsb : is_sqrt sq_b (b_arg t).

  Let sn := if isclose0 rate then MAX_VAL else rate.
  Lemma sn_pos : 0 < sn.
  Proof.
    unfold sn. destruct (isclose0 rate) eqn:E; [unfold MAX_VAL; reflexivity|].
    unfold isclose0 in E. assert (~ qabs rate <= 1 # 100000000) as N.
    { intro X. apply qleb_le in X. congruence. }
    unfold qabs in N. destruct (qltb rate 0) eqn:A; [apply qltb_lt in A; lra|].
    apply Qnot_le_lt in N. assert (0 < 1 # 100000000) by reflexivity. lra.
  Qed.

  Lemma noswap : negb (qleb tvn fvn) = false.
  Proof. apply negb_false_iff. apply qleb_le. exact Hle. Qed.

  Lemma tap_arg_val : tap_arg t == fvn * tap.
  Proof.
    unfold t, from_trafo, tap_arg. rewrite noswap, Htap0. cbn [fst t_tap_hv t_vnh t_step t_pos t_neutral].
    unfold q100. assert (Ha : qsub tap 1 == tap - 1) by apply qsub_correct.
    set (a := qsub tap 1) in *. pose proof (qabs_sign a) as A. qnorm.
    transitivity (fvn + fvn * (qabs a * qsign a)); [field | rewrite A, Ha; ring].
  Qed.

  Lemma zk_pos : 0 < zk.
  Proof. destruct Hzk as [A B]. assert (0 < x * x) by nra. nra. Qed.

  Definition t_expl : trafo :=
    {| t_sn := Some sn; t_vnh := fvn; t_vnl := tvn;
       t_vk := Some (qdiv (qmul (qmul (qmul (qsign x) zk) sn) q100) S);
       t_vkr := Some (qdiv (qmul (qmul r sn) q100) S);
       t_pfe := qmul (qmul g S) q1e3;
       t_i0 := Some (qdiv (qmul (qmul ym q100) S) sn);
       t_shift := shift; t_tap_hv := true; t_neutral := 0;
       t_pos := qsign (qsub tap 1); t_step := qmul (qabs (qsub tap 1)) q100;
       t_ratio := qltb 0 (qmul (qabs (qsub tap 1)) q100);
       t_par := 1; t_df := 1; t_ml := Some q100 |}.
  Lemma t_is : t = t_expl.
  Proof. unfold t, t_expl, from_trafo. rewrite noswap, Htap0. reflexivity. Qed.

  Lemma vn_adjusted : exists vnh, tap_adjust t sq_vn = (vnh, tvn) /\ vnh == fvn * tap.
  Proof.
    pose proof tap_arg_val as TA. destruct Hvn as [V0 V1].
    unfold tap_adjust. rewrite t_is. unfold t_expl.
    cbn [fst t_ratio t_tap_hv t_vnh t_vnl].
    destruct (qltb 0 (qmul (qabs (qsub tap 1)) q100)) eqn:E.
    - exists sq_vn. split; [reflexivity|]. apply sqrt_unique; try assumption; [nra|]. rewrite V1, TA. ring.
    - exists fvn. split; [reflexivity|]. apply qabs_zero in E. qnorm. nra.
  Qed.

  Theorem trafo_roundtrip_sec :
    let row := to_trafo S fvn tvn sq_vn sq_x sq_b t in
    feq (tr_r row) r /\ feq (tr_x row) x /\ feq (tr_g row) g /\ feq (tr_b row) b /\
    tr_tap row == tap /\ tr_shift row == shift.
  Proof.
    destruct vn_adjusted as (vnh & E & Hv).
    pose proof sn_pos as Hsn. pose proof zk_pos as Hzp.
    destruct Hzk as [Z0 Z1]. destruct Hym as [Y0 Y1].
    assert (Hf : 0 < fvn) by lra.
    generalize Hsx Hsb. unfold x_arg, b_arg, to_trafo. rewrite E. rewrite t_is. unfold t_expl.
    cbn [t_sn t_vnh t_vnl t_vk t_vkr t_pfe t_i0 t_shift t_par t_df t_ml fmap fmap2 is_sqrt].
    fold sn.
    set (zz := qmul (qdiv (qdiv (qdiv (qmul (qmul (qmul (qsign x) zk) sn) q100) S) q100) sn) (qmul (sq (qdiv tvn tvn)) S)).
    set (rr := qmul (qdiv (qdiv (qdiv (qmul (qmul r sn) q100) S) q100) sn) (qmul (sq (qdiv tvn tvn)) S)).
    assert (Hzz : zz == qsign x * zk).
    { unfold zz, sq, q100. qnorm. field. repeat split; lra. }
    assert (Hrr : rr == r).
    { unfold rr, sq, q100. qnorm. field. repeat split; lra. }
    assert (Hsx2 : qsign x * qsign x == 1).
    { destruct (Qlt_le_dec x 0) as [L|L]; [rewrite (qsign_neg x L); ring|].
      assert (0 < x) by (destruct (Qle_lt_or_eq _ _ L) as [?|e]; [assumption | exfalso; apply Hx; symmetry; exact e]).
      rewrite (qsign_pos x H). ring. }
    assert (Hlt : qltb (sq zz) (sq rr) = false).
    { apply qltb_ge. unfold sq. qnorm. rewrite Hzz, Hrr.
      setoid_replace (qsign x * zk * (qsign x * zk)) with ((qsign x * qsign x) * (zk * zk)) by ring.
      rewrite Hsx2, Z1. nra. }
    rewrite Hlt. intros [X0 X1] Hsb'.
    unfold sq in X1. qnorm. rewrite Hzz, Hrr in X1.
    assert (X2 : sq_x * sq_x == x * x).
    { rewrite X1. setoid_replace (qsign x * zk * (qsign x * zk)) with ((qsign x * qsign x) * (zk * zk)) by ring.
      rewrite Hsx2, Z1. ring. }
    cbn [tr_r tr_x tr_g tr_b tr_tap tr_shift feq fmap fmap2].
    split; [| split; [| split; [| split; [| split]]]].
    - qnorm. rewrite Hrr. field.
    - qnorm.
      destruct (Qlt_le_dec x 0) as [L|L].
      + assert (zz < 0) by (rewrite Hzz, (qsign_neg x L); nra).
        rewrite (qsign_neg zz H). assert (sq_x == - x) by (apply sqrt_unique; [assumption | lra | rewrite X2; ring]).
        rewrite H0. field.
      + assert (0 < x) by (destruct (Qle_lt_or_eq _ _ L) as [?|e]; [assumption | exfalso; apply Hx; symmetry; exact e]).
        assert (0 < zz) by (rewrite Hzz, (qsign_pos x H); nra).
        rewrite (qsign_pos zz H0). assert (sq_x == x) by (apply sqrt_unique; [assumption | lra | exact X2]).
        rewrite H1. field.
    - unfold sq, q1e3. qnorm. field. repeat split; lra.
    - revert Hsb'. unfold sq, q100, q1e3.
      set (d := qsub _ _).
      assert (Hd : d == (S * b) * (S * b)).
      { unfold d. qnorm. transitivity (S * S * (ym * ym - g * g)); [field; lra | rewrite Y1; ring]. }
      destruct (qltb d 0) eqn:D.
      { apply qltb_lt in D. exfalso. rewrite Hd in D. nra. }
      intros [B0 B1]. rewrite Hd in B1.
      assert (sq_b == S * (- b)) by (apply sqrt_unique; [assumption | nra | rewrite B1; ring]).
      qnorm. rewrite H. field. repeat split; lra.
    - qnorm. rewrite Hv. field. repeat split; lra.
    - reflexivity.
  Qed.
End TrafoRoundTrip.

(* NaN rating (max_loading_percent NaN -> RATE_A NaN): the repaired rule always yields a positive rating, the old one NaN *)
Lemma sn_of_rate_total : forall rate, (match rate with Some r => 0 <= r | None => True end) ->
  exists s, sn_of_rate rate = Some s /\ 0 < s.
Proof.
  intros [r|] H; unfold sn_of_rate.
  - destruct (isclose0 r) eqn:E.
    + eexists; split; [reflexivity | unfold MAX_VAL; reflexivity].
    + exists r. split; [reflexivity|].
      unfold isclose0 in E. assert (~ qabs r <= 1 # 100000000) as N by (intro X; apply qleb_le in X; congruence).
      unfold qabs in N. destruct (qltb r 0) eqn:A; [apply qltb_lt in A; lra|].
      apply Qnot_le_lt in N. assert (0 < 1 # 100000000) by reflexivity. lra.
  - eexists; split; [reflexivity | unfold MAX_VAL; reflexivity].
Qed.
Lemma sn_of_rate_old_nan : sn_of_rate_old None = None.
Proof. reflexivity. Qed.

(* ---------------------------------------------------------------- generators *)
Fixpoint count_first (b : Z) (l : list Z) (fl : list bool) : nat :=
  match l, fl with
  | x :: l', f :: fl' => ((if Z.eqb x b && f then 1 else 0) + count_first b l' fl')%nat
  | _, _ => 0%nat
  end.
Definition memz (b : Z) (l : list Z) : bool := existsb (Z.eqb b) l.

Lemma count_first_aux : forall b l seen,
  count_first b l (first_flags_aux seen l) =
  if memz b seen then 0%nat else if memz b l then 1%nat else 0%nat.
Proof.
  intros b l. induction l as [|x l IH]; intros seen; cbn [first_flags_aux count_first].
  - destruct (memz b seen); reflexivity.
  - rewrite IH. unfold memz. cbn [existsb].
    destruct (Z.eqb_spec x b) as [->|N].
    + rewrite Z.eqb_refl. cbn [orb andb].
      destruct (existsb (Z.eqb b) seen); cbn; reflexivity.
    + assert (Z.eqb b x = false) as -> by (apply Z.eqb_neq; congruence).
      cbn [orb andb]. destruct (existsb (Z.eqb b) seen); reflexivity.
Qed.

(* every bus that has a gen row has exactly one row flagged as "first" *)
Lemma first_flags_one_per_bus : forall b l,
  count_first b l (first_flags l) = if memz b l then 1%nat else 0%nat.
Proof. intros. unfold first_flags. rewrite count_first_aux. reflexivity. Qed.

Lemma first_flags_length : forall l seen, length (first_flags_aux seen l) = length l.
Proof. induction l; intros; cbn; [reflexivity | rewrite IHl; reflexivity]. Qed.

(* classification counts of the direct specification: one ext_grid per slack bus with a gen row, one gen per PV bus *)
Fixpoint count_class (b : Z) (k : nat) (l : list grow) (cl : list nat) : nat :=
  match l, cl with
  | g :: l', c :: cl' => ((if Z.eqb (g_bus g) b && Nat.eqb c k then 1 else 0) + count_class b k l' cl')%nat
  | _, _ => 0%nat
  end.
Lemma count_class_spec_aux : forall b ty k l seen,
  (forall g, In g l -> g_bus g = b -> g_type g = ty) ->
  (k = 0%nat /\ ty = 3%Z) \/ (k = 1%nat /\ ty = 2%Z) ->
  count_class b k l
    (map (fun pf : grow * bool => class_of (g_type (fst pf)) (snd pf))
      (combine l (first_flags_aux seen (map g_bus l)))) =
  count_first b (map g_bus l) (first_flags_aux seen (map g_bus l)).
Proof.
  intros b ty k l. induction l as [|g l IH]; intros seen Hty Hk; [reflexivity|].
  cbn [map first_flags_aux combine count_class count_first fst snd].
  rewrite IH; [| intros; apply Hty; [right|]; assumption | assumption].
  f_equal.
  destruct (Z.eqb_spec (g_bus g) b) as [e|n]; cbn [andb]; [|reflexivity].
  rewrite (Hty g (or_introl eq_refl) e).
  destruct (negb (existsb (Z.eqb (g_bus g)) seen)); destruct Hk as [[-> ->]|[-> ->]]; reflexivity.
Qed.

Lemma gen_spec_one_ext_grid_per_slack_bus : forall b l,
  (forall g, In g l -> g_bus g = b -> g_type g = 3%Z) ->
  count_class b 0 l (gen_which_spec l) = if memz b (map g_bus l) then 1%nat else 0%nat.
Proof.
  intros. unfold gen_which_spec, first_flags.
  rewrite (count_class_spec_aux b 3%Z 0%nat l [] H (or_introl (conj eq_refl eq_refl))).
  rewrite count_first_aux. reflexivity.
Qed.
Lemma gen_spec_one_gen_per_pv_bus : forall b l,
  (forall g, In g l -> g_bus g = b -> g_type g = 2%Z) ->
  count_class b 1 l (gen_which_spec l) = if memz b (map g_bus l) then 1%nat else 0%nat.
Proof.
  intros. unfold gen_which_spec, first_flags.
  rewrite (count_class_spec_aux b 2%Z 1%nat l [] H (or_intror (conj eq_refl eq_refl))).
  rewrite count_first_aux. reflexivity.
Qed.
