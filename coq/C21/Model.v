(* C21 — faithful model of the PYPOWER conversion round trip
     pandapower/converter/pypower/to_ppc.py  (to_ppc -> _pd2ppc: build_branch.py _calc_line_parameter :176-258,
       _calc_branch_values_from_trafo_df :406-449, _calc_tap_from_dataframe :571-, _calc_r_x_from_dataframe :863-907,
       _calc_y_from_dataframe :534-568, _calc_nominal_ratio_from_dataframe :911-931, _calc_trafo_parameter :349-392,
       build_bus.py _calc_shunts_and_add_on_ppc :712-)
     pandapower/converter/pypower/from_ppc.py (_from_ppc_bus :74-97, _from_ppc_gen :102-171 with _gen_to_which :347-362,
       _from_ppc_branch :174-335 with _branch_to_which :365-379)
   Numbers are exact rationals; NaN = None.  Every square root of the implementation is an ORACLE INPUT
   (sq_* arguments, computed by the harness with math.sqrt); pi*f_hz is the input [pif].
   Executable definitions only. *)
From Coq Require Import ZArith QArith List Bool String.
From PPV Require Import Base.QN Base.Out.
Import ListNotations.
Open Scope Q_scope.

Definition F := option Q.
Definition q1e9 : Q := 1000000000 # 1.
Definition q1e6 : Q := 1000000 # 1.
Definition q1e3 : Q := 1000 # 1.
Definition q100 : Q := 100 # 1.
Definition MAX_VAL : Q := 99999 # 1.                       (* from_ppc.py:199 *)
Definition sq (x : Q) : Q := qmul x x.
(* np.sign *)
Definition qsign (x : Q) : Q := if qltb x 0 then (-1 # 1) else if qltb 0 x then 1 else 0.
(* np.isclose(x, 0): |x| <= atol = 1e-8 *)
Definition isclose0 (x : Q) : bool := qleb (qabs x) (1 # 100000000).

(* ------------------------------------------------------------------ lines *)
Record line := { l_r : Q; l_x : Q; l_c : Q; l_g : Q; l_len : Q; l_par : Q }.   (* per km, nF/km, uS/km *)
Record lrow := { br_r : Q; br_x : Q; br_b : Q; br_g : Q }.                     (* per unit, totals *)

(* build_branch.py:205-246 ; vn = BASE_KV of the FROM bus, S = net.sn_mva, pif = pi*f_hz *)
Definition to_line (pif S vn : Q) (l : line) : lrow :=
  let baseR := qdiv (sq vn) S in
  {| br_r := qdiv (qdiv (qmul (l_r l) (l_len l)) baseR) (l_par l);
     br_x := qdiv (qdiv (qmul (l_x l) (l_len l)) baseR) (l_par l);
     br_b := qmul (qmul (qmul (qmul (qmul 2 pif) (l_c l)) (1 # 1000000000)) baseR) (qmul (l_len l) (l_par l));
     br_g := qmul (qmul (qmul (l_g l) (1 # 1000000)) baseR) (qmul (l_len l) (l_par l)) |}.

(* from_ppc.py:211-226 ; vn = BASE_KV of the TO bus ; length_km = 1, parallel = 1 (defaults);
   c = B/Zni/omega*1e9/2 with omega = pi*f ; g = G/Zni*1e6
   (after the repair "fix: from_ppc no longer halves the line conductance") *)
Definition from_line (pif S vn : Q) (r : lrow) : line :=
  let zni := qdiv (sq vn) S in
  {| l_r := qmul (br_r r) zni;
     l_x := qmul (br_x r) zni;
     l_c := qdiv (qmul (qdiv (qdiv (br_b r) zni) pif) q1e9) 2;
     l_g := qmul (qdiv (br_g r) zni) q1e6;
     l_len := 1; l_par := 1 |}.
(* the rule before the repair: g = G/Zni*1e6/2 *)
Definition from_line_old (pif S vn : Q) (r : lrow) : line :=
  let zni := qdiv (sq vn) S in
  {| l_r := qmul (br_r r) zni;
     l_x := qmul (br_x r) zni;
     l_c := qdiv (qmul (qdiv (qdiv (br_b r) zni) pif) q1e9) 2;
     l_g := qdiv (qmul (qdiv (br_g r) zni) q1e6) 2;
     l_len := 1; l_par := 1 |}.

(* guard under which the old rule was right: the branch carries no conductance *)
Definition G21_line (r : lrow) : bool := qeqb (br_g r) 0.

(* ------------------------------------------------------------------ branch classification *)
(* _branch_to_which, from_ppc.py:372-377 : 0 = line, 1 = trafo, 2 = impedance *)
Definition is_line (fvn tvn tap shift : Q) : bool :=
  qeqb fvn tvn && (qeqb tap 0 || qeqb tap 1) && qeqb shift 0.
Definition is_trafo (tap shift : Q) : bool :=
  (negb (qeqb tap 0) && negb (qeqb tap 1)) || negb (qeqb shift 0).
Definition which (fvn tvn tap shift : Q) : nat :=
  if is_line fvn tvn tap shift then 0%nat else if is_trafo tap shift then 1%nat else 2%nat.

(* ------------------------------------------------------------------ transformers (pi model, mode pf) *)
Record trafo := { t_sn : F; t_vnh : Q; t_vnl : Q; t_vk : F; t_vkr : F; t_pfe : Q; t_i0 : F;
                  t_shift : Q; t_tap_hv : bool; t_neutral : Q; t_pos : Q; t_step : Q;
                  t_ratio : bool;              (* tap_changer_type == "Ratio" (else None) *)
                  t_par : Q; t_df : Q; t_ml : F (* max_loading_percent, NaN possible *) }.
Record trow := { tr_r : F; tr_x : F; tr_g : F; tr_b : F; tr_tap : Q; tr_shift : Q; tr_rate : F }.

Definition fmap2 (f : Q -> Q -> Q) (a b : F) : F :=
  match a, b with Some x, Some y => Some (f x y) | _, _ => None end.
Definition fmap (f : Q -> Q) (a : F) : F := match a with Some x => Some (f x) | None => None end.

(* _calc_tap_from_dataframe :677-684 with tap_step_degree = 0/NaN: cos = 1, sin = 0;
   vn' = sqrt((u1+du)^2 + 0^2) = oracle sq_vn ; the shift contribution arctan(0) = 0 *)
Definition tap_adjust (t : trafo) (sq_vn : Q) : Q * Q :=
  if t_ratio t then
    if t_tap_hv t then (sq_vn, t_vnl t) else (t_vnh t, sq_vn)
  else (t_vnh t, t_vnl t).
(* the argument whose square root the oracle must supply *)
Definition tap_arg (t : trafo) : Q :=
  let u1 := if t_tap_hv t then t_vnh t else t_vnl t in
  let steps := qdiv (qmul (t_step t) (qsub (t_pos t) (t_neutral t))) q100 in
  qadd u1 (qmul u1 steps).

(* to_ppc of one transformer.  bus_h, bus_l = BASE_KV of the hv / lv bus; oracles:
   sq_vn = sqrt(tap_arg^2), sq_x = sqrt(z^2 - r^2), sq_b = sqrt(max(ym^2 - pfe^2, 0)) *)
Definition to_trafo (S bus_h bus_l : Q) (sq_vn sq_x sq_b : Q) (t : trafo) : trow :=
  let '(vnh, vnl) := tap_adjust t sq_vn in
  let ratio := qdiv (qdiv vnh vnl) (qdiv bus_h bus_l) in                        (* :926-931 *)
  let tap_lv := qmul (sq (qdiv vnl bus_l)) S in                                 (* :901 *)
  let z := fmap2 (fun vk sn => qmul (qdiv (qdiv vk q100) sn) tap_lv) (t_vk t) (t_sn t) in
  let r := fmap2 (fun vkr sn => qmul (qdiv (qdiv vkr q100) sn) tap_lv) (t_vkr t) (t_sn t) in
  let x := match z, r with
           | Some zz, Some rr => if qltb (sq zz) (sq rr) then None      (* sqrt of a negative number: NaN *)
                                 else Some (qmul (qsign zz) sq_x)
           | _, _ => None end in
  let baseZ := qdiv (sq bus_l) S in                                             (* :546 *)
  let pfe_mw := qmul (t_pfe t) (1 # 1000) in
  let corr := sq (qdiv vnl (t_vnl t)) in
  let g := qdiv (qmul (qmul (qdiv pfe_mw (sq (t_vnl t))) baseZ) (t_par t)) corr in
  let b := fmap2 (fun i0 sn => qdiv (qmul (qmul (qdiv (qopp sq_b) (sq (t_vnl t))) baseZ) (t_par t)) corr)
                 (t_i0 t) (t_sn t) in
  {| tr_r := fmap (fun v => qdiv v (t_par t)) r;
     tr_x := fmap (fun v => qdiv v (t_par t)) x;
     tr_g := Some g; tr_b := b;
     tr_tap := ratio; tr_shift := t_shift t;
     tr_rate := fmap2 (fun ml sn => qmul (qmul (qmul (qdiv ml q100) sn) (t_df t)) (t_par t)) (t_ml t) (t_sn t) |}.
(* the argument of sq_x : z^2 - r^2 (None when a NaN enters) *)
Definition x_arg (S bus_l sq_vn : Q) (t : trafo) : F :=
  let '(vnh, vnl) := tap_adjust t sq_vn in
  let tap_lv := qmul (sq (qdiv vnl bus_l)) S in
  let z := fmap2 (fun vk sn => qmul (qdiv (qdiv vk q100) sn) tap_lv) (t_vk t) (t_sn t) in
  let r := fmap2 (fun vkr sn => qmul (qdiv (qdiv vkr q100) sn) tap_lv) (t_vkr t) (t_sn t) in
  fmap2 (fun zz rr => qsub (sq zz) (sq rr)) z r.
(* the argument of sq_b : max(ym^2 - pfe^2, 0) *)
Definition b_arg (t : trafo) : F :=
  fmap2 (fun i0 sn => let ym := qmul (qdiv i0 q100) sn in
                      let d := qsub (sq ym) (sq (qmul (t_pfe t) (1 # 1000))) in
                      if qltb d 0 then 0 else d) (t_i0 t) (t_sn t).

(* from_ppc of one branch classified as transformer (tap_side = "hv", the default) :229-292.
   fvn, tvn = BASE_KV of from/to bus ; oracles zk = sqrt(r^2+x^2), ym = sqrt(b^2+g^2).
   Returns (trafo, swapped) ; swapped = hv/lv buses exchanged because tvn > fvn. *)
Definition from_trafo (S fvn tvn : Q) (zk ym : Q) (r x b g tap shift : Q) (rate : F) : trafo * bool :=
  let swapped := negb (qleb tvn fvn) in
  (* RATE_A zero or NaN -> MAX_VAL (NaN since "fix: from_ppc treats a NaN branch rating like a missing one") *)
  let sn := Some (match rate with Some ra => if isclose0 ra then MAX_VAL else ra | None => MAX_VAL end) in
  let ratio_1 := if isclose0 tap then tap else qsub tap 1 in
  let step := qmul (qabs ratio_1) q100 in
  ({| t_sn := sn;
      t_vnh := if swapped then tvn else fvn;
      t_vnl := if swapped then fvn else tvn;
      t_vk := fmap (fun s => qdiv (qmul (qmul (qmul (qsign x) zk) s) q100) S) sn;
      t_vkr := fmap (fun s => qdiv (qmul (qmul r s) q100) S) sn;
      t_pfe := qmul (qmul g S) q1e3;
      t_i0 := fmap (fun s => qdiv (qmul (qmul ym q100) S) s) sn;
      t_shift := shift; t_tap_hv := true; t_neutral := 0;
      t_pos := qsign ratio_1; t_step := step;
      t_ratio := qltb 0 step;
      t_par := 1; t_df := 1; t_ml := Some q100 |}, swapped).

(* rating -> sn_mva before that repair: NaN stays NaN *)
Definition sn_of_rate_old (rate : F) : F := fmap (fun ra => if isclose0 ra then MAX_VAL else ra) rate.
Definition sn_of_rate (rate : F) : F := Some (match rate with Some ra => if isclose0 ra then MAX_VAL else ra | None => MAX_VAL end).

(* ------------------------------------------------------------------ impedance-class branches *)
(* from_ppc.py:299-325 : a branch between different base voltages with tap 0/1 and no shift becomes a net.impedance with
   sn_mva = RATE_A (zero or NaN -> MAX_VAL, after the repair "fix: from_ppc treats a NaN rating of an impedance branch like
   a missing one") ; rft = r/baseMVA*sn, xft = x/baseMVA*sn, bf = b*baseMVA/sn/2, gf = g*baseMVA/sn/2 *)
Definition imp_sn_of_rate (rate : F) : F := sn_of_rate rate.
(* the rule before that repair: np.isclose(nan, 0) is False, a NaN rating stayed NaN *)
Definition imp_sn_of_rate_old (rate : F) : F := fmap (fun ra => if isclose0 ra then MAX_VAL else ra) rate.
Record imp := { i_sn : F; i_rft : F; i_xft : F; i_bf : F; i_gf : F }.
Definition from_impedance_with (snf : F -> F) (S r x b g : Q) (rate : F) : imp :=
  let sn := snf rate in
  {| i_sn := sn;
     i_rft := fmap (fun s => qmul (qdiv r S) s) sn;
     i_xft := fmap (fun s => qmul (qdiv x S) s) sn;
     i_bf := fmap (fun s => qdiv (qdiv (qmul b S) s) 2) sn;
     i_gf := fmap (fun s => qdiv (qdiv (qmul g S) s) 2) sn |}.
Definition from_impedance := from_impedance_with imp_sn_of_rate.
Definition from_impedance_old := from_impedance_with imp_sn_of_rate_old.
(* build_branch.py:1022-1031 (mode pf: sn_factor = 1; symmetric impedance: rtf = rft, ...) : r = rft/sn*S, b = 2*bf*sn/S *)
Record irow := { ir_r : F; ir_x : F; ir_b : F; ir_g : F }.
Definition to_impedance (S : Q) (i : imp) : irow :=
  {| ir_r := fmap2 (fun v s => qmul (qdiv v s) S) (i_rft i) (i_sn i);
     ir_x := fmap2 (fun v s => qmul (qdiv v s) S) (i_xft i) (i_sn i);
     ir_b := fmap2 (fun v s => qdiv (qmul (qmul 2 v) s) S) (i_bf i) (i_sn i);
     ir_g := fmap2 (fun v s => qdiv (qmul (qmul 2 v) s) S) (i_gf i) (i_sn i) |}.
(* guard of the finding C21-impedance-rate-nan: the rating is a number *)
Definition G21_imp_rate (rate : F) : bool := match rate with Some _ => true | None => false end.

(* ------------------------------------------------------------------ bus rows: loads, sgens, shunts *)
Inductive pq := Load (p q : Q) | Sgen (p q : Q).
(* from_ppc.py:85-92 *)
Definition from_bus_pq (pd qd : Q) : list pq :=
  (if qltb 0 pd || (qeqb pd 0 && negb (qeqb qd 0)) then [Load pd qd] else []) ++
  (if qltb pd 0 then [Sgen (qopp pd) (qopp qd)] else []).
(* _calc_pq_elements_and_add_on_ppc restricted to constant-power loads and sgens, scaling 1 *)
Fixpoint to_bus_pq (l : list pq) : Q * Q :=
  match l with
  | [] => (0, 0)
  | Load p q :: l' => let '(a, b) := to_bus_pq l' in (qadd p a, qadd q b)
  | Sgen p q :: l' => let '(a, b) := to_bus_pq l' in (qsub a p, qsub b q)
  end.
(* shunt: from_ppc.py:95-97 (vn_kv defaults to the bus voltage, step = 1); build_bus.py:728-753 *)
Record shunt := { s_p : Q; s_q : Q; s_vn : Q; s_step : Q }.
Definition from_bus_shunt (vn gs bs : Q) : list shunt :=
  if negb (qeqb gs 0) || negb (qeqb bs 0) then [{| s_p := gs; s_q := qopp bs; s_vn := vn; s_step := 1 |}] else [].
Definition to_bus_shunt1 (vn : Q) (s : shunt) : Q * Q :=
  let vr := sq (qdiv vn (s_vn s)) in
  (qmul (qmul (s_p s) (s_step s)) vr, qopp (qmul (qmul (s_q s) (s_step s)) vr)).
Fixpoint to_bus_shunt (vn : Q) (l : list shunt) : Q * Q :=
  match l with
  | [] => (0, 0)
  | s :: l' => let '(a, b) := to_bus_shunt vn l' in let '(g, bb) := to_bus_shunt1 vn s in (qadd g a, qadd bb b)
  end.

(* ------------------------------------------------------------------ generators *)
(* one ppc gen row: bus number and the BUS_TYPE of that bus *)
Record grow := { g_bus : Z; g_type : Z; g_pg : Q; g_vg : Q }.
(* pandas  ~duplicated(subset=["bus"])  over a list of bus numbers *)
Fixpoint first_flags_aux (seen : list Z) (l : list Z) : list bool :=
  match l with
  | [] => []
  | b :: l' => negb (existsb (Z.eqb b) seen) :: first_flags_aux (b :: seen) l'
  end.
Definition first_flags (l : list Z) : list bool := first_flags_aux [] l.
Fixpoint enum {A} (k : nat) (l : list A) : list (nat * A) :=
  match l with [] => [] | a :: l' => (k, a) :: enum (S k) l' end.
(* _gen_to_which :350-361 : rows regrouped by bus type 3,2,1,4 ; duplicated() over that order ; sort_index *)
Definition regroup (l : list grow) : list (nat * grow) :=
  let e := enum 0 l in
  filter (fun p => Z.eqb (g_type (snd p)) 3) e ++ filter (fun p => Z.eqb (g_type (snd p)) 2) e ++
  filter (fun p => Z.eqb (g_type (snd p)) 1) e ++ filter (fun p => Z.eqb (g_type (snd p)) 4) e.
Definition flag_of (k : nat) (ord : list (nat * grow)) (fl : list bool) : bool :=
  match find (fun p => Nat.eqb (fst (fst p)) k) (combine ord fl) with Some (_, b) => b | None => false end.
(* 0 = ext_grid, 1 = gen, 2 = sgen, 3 = not converted (bus type 4 or unknown) *)
Definition class_of (t : Z) (first : bool) : nat :=
  if Z.eqb t 3 && first then 0%nat
  else if Z.eqb t 2 && first then 1%nat
  else if Z.eqb t 3 || Z.eqb t 2 || Z.eqb t 1 then 2%nat else 3%nat.
Definition gen_which (l : list grow) : list nat :=
  let ord := regroup l in
  let fl := first_flags (map (fun p => g_bus (snd p)) ord) in
  map (fun p => class_of (g_type (snd p)) (flag_of (fst p) ord fl)) (enum 0 l).
(* the same classification written directly: first row of its bus in the ORIGINAL order *)
Definition gen_which_spec (l : list grow) : list nat :=
  map (fun pf => class_of (g_type (fst pf)) (snd pf)) (combine l (first_flags (map g_bus l))).

(* ------------------------------------------------------------------ run wrappers *)
Definition olrow (r : lrow) : out := OL [oq (br_r r); oq (br_x r); oq (br_b r); oq (br_g r)].
Definition oline (l : line) : out := OL [oq (l_r l); oq (l_x l); oq (l_c l); oq (l_g l); oq (l_len l); oq (l_par l)].
Definition run_to_line (pif S vn : Q) (l : line) : out := olrow (to_line pif S vn l).
Definition run_from_line (pif S vn : Q) (r : lrow) : out := oline (from_line pif S vn r).
Definition otrow (r : trow) : out :=
  OL [ooq (tr_r r); ooq (tr_x r); ooq (tr_g r); ooq (tr_b r); oq (tr_tap r); oq (tr_shift r); ooq (tr_rate r)].
Definition run_to_trafo (S bus_h bus_l sq_vn sq_x sq_b : Q) (t : trafo) : out :=
  OL [otrow (to_trafo S bus_h bus_l sq_vn sq_x sq_b t); oq (tap_arg t); ooq (b_arg t); ooq (x_arg S bus_l sq_vn t)].
(* is value s (>= 0) the square root of a ?  |s*s - a| <= tol*max(1,|a|) : oracle-hypothesis residual *)
Definition feq (o : F) (v : Q) : Prop := match o with Some u => u == v | None => False end.
Definition is_sqrt (s : Q) (a : F) : Prop := match a with Some v => 0 <= s /\ s * s == v | None => False end.
Definition otrafo (t : trafo) : out :=
  OL [ooq (t_sn t); oq (t_vnh t); oq (t_vnl t); ooq (t_vk t); ooq (t_vkr t); oq (t_pfe t); ooq (t_i0 t);
      oq (t_shift t); oq (t_pos t); oq (t_step t); OB (t_ratio t)].
Definition run_from_trafo (S fvn tvn zk ym r x b g tap shift : Q) (rate : F) : out :=
  let '(t, sw) := from_trafo S fvn tvn zk ym r x b g tap shift rate in OL [otrafo t; OB sw].
Definition opq (e : pq) : out :=
  match e with Load p q => OL [OZ 0; oq p; oq q] | Sgen p q => OL [OZ 1; oq p; oq q] end.
Definition run_from_bus (vn pd qd gs bs : Q) : out :=
  OL [olist opq (from_bus_pq pd qd);
      olist (fun s => OL [oq (s_p s); oq (s_q s)]) (from_bus_shunt vn gs bs)].
Definition run_which (fvn tvn tap shift : Q) : out := onat (which fvn tvn tap shift).
Definition run_from_impedance (S r x b g : Q) (rate : F) : out :=
  let i := from_impedance S r x b g rate in OL [ooq (i_sn i); ooq (i_rft i); ooq (i_xft i); ooq (i_bf i); ooq (i_gf i)].
Definition run_gen_which (l : list grow) : out := olist onat (gen_which l).
