(* C21 — impedance-class branches: ppc row -> net.impedance (from_ppc.py:299-324) -> ppc row (build_branch.py:1022-1031) *)
From Coq Require Import ZArith QArith List Bool Lqa.
From PPV Require Import Base.QN C21.Model C21.Proofs.
Open Scope Q_scope.

Lemma imp_sn_nonzero : forall ra, ~ (if isclose0 ra then MAX_VAL else ra) == 0.
Proof.
  intros ra. destruct (isclose0 ra) eqn:E.
  - unfold MAX_VAL. intro H; discriminate H.
  - unfold isclose0 in E. intro H.
    assert (qleb (qabs ra) (1 # 100000000) = true) as X; [| congruence].
    apply qleb_le. unfold qabs. destruct (qltb ra 0) eqn:A.
    + apply qltb_lt in A. lra.
    + rewrite H. discriminate.
Qed.

(* every rating (zero and NaN included: MAX_VAL is used) gives back r, x, b, g *)
Lemma impedance_roundtrip : forall S r x b g rate, ~ S == 0 ->
  let row := to_impedance S (from_impedance S r x b g rate) in
  feq (ir_r row) r /\ feq (ir_x row) x /\ feq (ir_b row) b /\ feq (ir_g row) g.
Proof.
  intros S r x b g rate HS.
  assert (exists sn, imp_sn_of_rate rate = Some sn /\ ~ sn == 0) as (sn & E & Hs).
  { unfold imp_sn_of_rate, sn_of_rate. destruct rate as [ra|].
    - eexists; split; [reflexivity | apply imp_sn_nonzero].
    - eexists; split; [reflexivity | unfold MAX_VAL; intro H; discriminate H]. }
  unfold from_impedance, from_impedance_with. rewrite E.
  cbn [to_impedance fmap fmap2 feq i_sn i_rft i_xft i_bf i_gf ir_r ir_x ir_b ir_g].
  repeat split; qnorm; field; split; assumption.
Qed.

(* the rule before the repair: a NaN rating made every entry of the converted impedance and of the re-converted row NaN *)
Lemma impedance_old_nan_rating : forall S r x b g,
  let i := from_impedance_old S r x b g None in
  i_sn i = None /\ i_rft i = None /\ i_xft i = None /\ ir_r (to_impedance S i) = None /\ ir_x (to_impedance S i) = None.
Proof. intros. repeat split. Qed.

Lemma impedance_roundtrip_old_refuted : exists S r x b g rate, ~ S == 0 /\
  ~ feq (ir_r (to_impedance S (from_impedance_old S r x b g rate))) r.
Proof. exists 1, (1 # 100), (4 # 100), 0, 0, None. split; [intro H; discriminate H | cbn; tauto]. Qed.

Lemma impedance_roundtrip_old_partial : forall S r x b g rate, ~ S == 0 -> G21_imp_rate rate = true ->
  let row := to_impedance S (from_impedance_old S r x b g rate) in
  feq (ir_r row) r /\ feq (ir_x row) x /\ feq (ir_b row) b /\ feq (ir_g row) g.
Proof.
  intros S r x b g [ra|] HS G; [| discriminate G].
  change (from_impedance_old S r x b g (Some ra)) with (from_impedance S r x b g (Some ra)).
  apply impedance_roundtrip; assumption.
Qed.
