(* C21 — the regrouped generator classification of from_ppc._gen_to_which (Model.gen_which: rows regrouped by
   bus type 3,2,1,4, duplicated() over that order, sort_index) equals the direct "first gen row of its bus in
   the ORIGINAL order" classification (Model.gen_which_spec) whenever the bus type is a function of the bus —
   which holds in the implementation because the type column is ppc["bus"][bus_pos, BUS_TYPE]. *)
From Coq Require Import ZArith QArith List Bool Lia Arith.
From PPV Require Import Base.QN C21.Model C21.Proofs.
Import ListNotations.

Definition busp (p : nat * grow) : Z := g_bus (snd p).
Definition typ_is (t : Z) (p : nat * grow) : bool := Z.eqb (g_type (snd p)) t.

(* the hypothesis: all gen rows of one bus carry the same bus type *)
Definition type_of_bus_consistent (l : list grow) : Prop :=
  forall g g', In g l -> In g' l -> g_bus g = g_bus g' -> g_type g = g_type g'.

(* ---------------------------------------------------------------- enum *)
Lemma enum_app : forall {A} (l1 l2 : list A) n, enum n (l1 ++ l2) = enum n l1 ++ enum (n + length l1) l2.
Proof.
  induction l1 as [|a l1 IH]; intros l2 n; cbn [enum app length].
  - rewrite Nat.add_0_r. reflexivity.
  - rewrite IH. do 3 f_equal. lia.
Qed.
Lemma enum_keys_range : forall {A} (l : list A) n p, In p (enum n l) -> (n <= fst p < n + length l)%nat.
Proof.
  induction l as [|a l IH]; intros n p H; cbn [enum length] in *; [contradiction|].
  destruct H as [<-|H]; [cbn; lia|]. apply IH in H. lia.
Qed.
Lemma enum_snd_in : forall {A} (l : list A) n p, In p (enum n l) -> In (snd p) l.
Proof.
  induction l as [|a l IH]; intros n p H; cbn [enum] in *; [contradiction|].
  destruct H as [<-|H]; [left; reflexivity | right; eapply IH; exact H].
Qed.
(* every enumerated row splits the list at its position *)
Lemma enum_split : forall {A} (l : list A) n k a, In (k, a) (enum n l) ->
  exists l1 l2, l = l1 ++ a :: l2 /\ k = (n + length l1)%nat.
Proof.
  induction l as [|x l IH]; intros n k a H; cbn [enum] in *; [contradiction|].
  destruct H as [E|H].
  - inversion E; subst. exists [], l. split; [reflexivity | cbn; lia].
  - apply IH in H. destruct H as (l1 & l2 & -> & ->). exists (x :: l1), l2. split; [reflexivity | cbn; lia].
Qed.
Lemma map_snd_enum : forall {A} (l : list A) n, map snd (enum n l) = l.
Proof. induction l; intros; cbn; [reflexivity | rewrite IHl; reflexivity]. Qed.

(* ---------------------------------------------------------------- membership *)
Lemma memz_app : forall b l1 l2, memz b (l1 ++ l2) = memz b l1 || memz b l2.
Proof. intros. unfold memz. apply existsb_app. Qed.
Lemma memz_false_iff : forall b l, memz b l = false <-> ~ In b l.
Proof.
  intros b l. unfold memz. split.
  - intros H I. assert (existsb (Z.eqb b) l = true) by (apply existsb_exists; exists b; split; [assumption | apply Z.eqb_refl]). congruence.
  - intros N. destruct (existsb (Z.eqb b) l) eqn:E; [|reflexivity].
    apply existsb_exists in E. destruct E as (x & I & E). apply Z.eqb_eq in E. subst. contradiction.
Qed.

(* rows of bus b all have type t  =>  filtering on type t keeps all of them *)
Lemma memz_filter_same : forall b t (e : list (nat * grow)),
  (forall p, In p e -> busp p = b -> g_type (snd p) = t) ->
  memz b (map busp (filter (typ_is t) e)) = memz b (map busp e).
Proof.
  intros b t e. induction e as [|p e IH]; intros H; [reflexivity|].
  cbn [filter map]. unfold typ_is at 1.
  destruct (Z.eqb_spec (g_type (snd p)) t) as [E|N].
  - cbn [map]. unfold memz in *. cbn [existsb]. rewrite IH; [reflexivity|]. intros; apply H; [right|]; assumption.
  - rewrite IH by (intros; apply H; [right|]; assumption).
    unfold memz. cbn [existsb]. destruct (Z.eqb_spec b (busp p)) as [E|_]; [|reflexivity].
    exfalso. apply N. apply H; [left; reflexivity | congruence].
Qed.
(* rows of bus b all have a type <> t  =>  none of them is in the group of type t *)
Lemma memz_filter_other : forall b t (e : list (nat * grow)),
  (forall p, In p e -> busp p = b -> g_type (snd p) <> t) ->
  memz b (map busp (filter (typ_is t) e)) = false.
Proof.
  intros b t e H. apply memz_false_iff. intros I.
  apply in_map_iff in I. destruct I as (p & E & I). apply filter_In in I. destruct I as (I & T).
  unfold typ_is in T. apply Z.eqb_eq in T. exact (H p I E T).
Qed.

Lemma filter_split : forall {A} (f : A -> bool) l1 x l2, f x = true ->
  filter f (l1 ++ x :: l2) = filter f l1 ++ x :: filter f l2.
Proof. intros. rewrite filter_app. cbn [filter]. rewrite H. reflexivity. Qed.

(* ---------------------------------------------------------------- the flag found for key k *)
(* duplicated() over an order [pre ++ (k,g) :: post] whose keys before the row differ from k:
   the flag looked up for k is "bus of g not seen before" *)
Lemma find_flag : forall (pre : list (nat * grow)) k g post seen,
  (forall p, In p pre -> fst p <> k) ->
  find (fun p : (nat * grow) * bool => Nat.eqb (fst (fst p)) k)
       (combine (pre ++ (k, g) :: post) (first_flags_aux seen (map busp (pre ++ (k, g) :: post))))
  = Some ((k, g), negb (memz (g_bus g) seen || memz (g_bus g) (map busp pre))).
Proof.
  induction pre as [|p pre IH]; intros k g post seen H.
  - cbn [app map first_flags_aux combine find fst snd busp]. rewrite Nat.eqb_refl.
    unfold memz. cbn [map existsb]. rewrite orb_false_r. reflexivity.
  - cbn [app map first_flags_aux combine find fst snd].
    assert (Nat.eqb (fst p) k = false) as -> by (apply Nat.eqb_neq; apply H; left; reflexivity).
    rewrite IH by (intros; apply H; right; assumption).
    do 3 f_equal. unfold memz. cbn [map existsb].
    destruct (Z.eqb (g_bus g) (busp p)); destruct (existsb (Z.eqb (g_bus g)) seen);
      destruct (existsb (Z.eqb (g_bus g)) (map busp pre)); reflexivity.
Qed.

Lemma flag_of_split : forall ord pre k g post,
  ord = pre ++ (k, g) :: post -> (forall p, In p pre -> fst p <> k) ->
  flag_of k ord (first_flags (map (fun p => g_bus (snd p)) ord)) = negb (memz (g_bus g) (map busp pre)).
Proof.
  intros ord pre k g post -> H. unfold flag_of, first_flags.
  change (fun p : nat * grow => g_bus (snd p)) with busp.
  rewrite (find_flag pre k g post [] H). reflexivity.
Qed.

(* ---------------------------------------------------------------- the flag of the regrouped order *)
Lemma regroup_flag : forall l l1 g l2, type_of_bus_consistent l -> l = l1 ++ g :: l2 ->
  g_type g = 3%Z \/ g_type g = 2%Z ->
  flag_of (length l1) (regroup l) (first_flags (map (fun p => g_bus (snd p)) (regroup l)))
  = negb (memz (g_bus g) (map g_bus l1)).
Proof.
  intros l l1 g l2 Hc -> Ht. set (k := length l1).
  assert (He : enum 0 (l1 ++ g :: l2) = enum 0 l1 ++ (k, g) :: enum (S k) l2).
  { rewrite enum_app. cbn [enum]. reflexivity. }
  (* rows in front of the k-th row: same bus => same type as g *)
  assert (Hpre : forall p, In p (enum 0 l1) -> busp p = g_bus g -> g_type (snd p) = g_type g).
  { intros p I E. apply Hc; [apply in_or_app; left; eapply enum_snd_in; exact I | apply in_or_app; right; left; reflexivity | exact E]. }
  assert (Hall : forall p, In p (enum 0 (l1 ++ g :: l2)) -> busp p = g_bus g -> g_type (snd p) = g_type g).
  { intros p I E. apply Hc; [eapply enum_snd_in; exact I | apply in_or_app; right; left; reflexivity | exact E]. }
  assert (Hk : forall p, In p (enum 0 l1) -> fst p <> k).
  { intros p I. apply enum_keys_range in I. unfold k. lia. }
  assert (Hm : memz (g_bus g) (map busp (enum 0 l1)) = memz (g_bus g) (map g_bus l1)).
  { unfold busp. rewrite <- (map_map snd g_bus). rewrite map_snd_enum. reflexivity. }
  destruct Ht as [T|T].
  - (* slack bus: the row sits in the first group *)
    rewrite (flag_of_split (regroup (l1 ++ g :: l2)) (filter (typ_is 3) (enum 0 l1)) k g
               (filter (typ_is 3) (enum (S k) l2) ++ filter (typ_is 2) (enum 0 (l1 ++ g :: l2)) ++
                filter (typ_is 1) (enum 0 (l1 ++ g :: l2)) ++ filter (typ_is 4) (enum 0 (l1 ++ g :: l2)))).
    + rewrite memz_filter_same; [rewrite Hm; reflexivity|].
      intros p I E. rewrite <- T. apply Hpre; assumption.
    + unfold regroup. fold (typ_is 3) (typ_is 2) (typ_is 1) (typ_is 4).
      rewrite He at 1. rewrite (filter_split (typ_is 3)) by (unfold typ_is; cbn [snd]; rewrite T; reflexivity).
      rewrite <- app_assoc. reflexivity.
    + intros p I. apply filter_In in I. apply Hk. apply I.
  - (* PV bus: the row sits in the second group, the first group holds no row of its bus *)
    rewrite (flag_of_split (regroup (l1 ++ g :: l2))
               (filter (typ_is 3) (enum 0 (l1 ++ g :: l2)) ++ filter (typ_is 2) (enum 0 l1)) k g
               (filter (typ_is 2) (enum (S k) l2) ++
                filter (typ_is 1) (enum 0 (l1 ++ g :: l2)) ++ filter (typ_is 4) (enum 0 (l1 ++ g :: l2)))).
    + rewrite map_app, memz_app.
      rewrite memz_filter_other.
      * cbn [orb]. rewrite memz_filter_same; [rewrite Hm; reflexivity|].
        intros p I E. rewrite <- T. apply Hpre; assumption.
      * intros p I E. rewrite (Hall p I E), T. discriminate.
    + unfold regroup. fold (typ_is 3) (typ_is 2) (typ_is 1) (typ_is 4).
      rewrite He at 2. rewrite (filter_split (typ_is 2)) by (unfold typ_is; cbn [snd]; rewrite T; reflexivity).
      rewrite <- !app_assoc. reflexivity.
    + intros p I. apply in_app_or in I. destruct I as [I|I]; apply filter_In in I; destruct I as (I & Tp).
      * (* a row of type 3 with key k would be the row g itself, which has type 2 *)
        intros Ek. rewrite He in I. apply in_app_or in I. destruct I as [I|[I|I]].
        -- apply (Hk p I Ek).
        -- subst p. unfold typ_is in Tp. cbn [snd] in Tp. rewrite T in Tp. discriminate.
        -- apply enum_keys_range in I. lia.
      * apply Hk. exact I.
Qed.

(* ---------------------------------------------------------------- the direct version, row by row *)
Lemma spec_as_enum_aux : forall l pre seen,
  (forall b, memz b seen = memz b (map g_bus pre)) ->
  map (fun pf : grow * bool => class_of (g_type (fst pf)) (snd pf)) (combine l (first_flags_aux seen (map g_bus l)))
  = map (fun p : nat * grow => class_of (g_type (snd p)) (negb (memz (g_bus (snd p)) (map g_bus (firstn (fst p) (pre ++ l))))))
        (enum (length pre) l).
Proof.
  induction l as [|g l IH]; intros pre seen Hs; [reflexivity|].
  cbn [map first_flags_aux combine enum fst snd].
  f_equal.
  - rewrite firstn_app, Nat.sub_diag, firstn_all. cbn [firstn]. rewrite app_nil_r.
    fold (memz (g_bus g) seen). rewrite Hs. reflexivity.
  - specialize (IH (pre ++ [g]) (g_bus g :: seen)).
    rewrite app_length in IH. cbn [length] in IH. rewrite Nat.add_1_r in IH.
    rewrite IH.
    + apply map_ext. intros p. rewrite <- app_assoc. reflexivity.
    + intros b. rewrite map_app, memz_app. cbn [map]. unfold memz in *. cbn [existsb]. rewrite Hs.
      rewrite orb_false_r. apply orb_comm.
Qed.

Lemma spec_as_enum : forall l,
  gen_which_spec l =
  map (fun p : nat * grow => class_of (g_type (snd p)) (negb (memz (g_bus (snd p)) (map g_bus (firstn (fst p) l)))))
      (enum 0 l).
Proof. intros. unfold gen_which_spec, first_flags. apply (spec_as_enum_aux l [] []). reflexivity. Qed.

(* class_of ignores the flag for bus types other than 3 and 2 *)
Lemma class_of_flag_irrelevant : forall t f f', t <> 3%Z -> t <> 2%Z -> class_of t f = class_of t f'.
Proof.
  intros t f f' H3 H2. unfold class_of.
  assert (Z.eqb t 3 = false) as -> by (apply Z.eqb_neq; assumption).
  assert (Z.eqb t 2 = false) as -> by (apply Z.eqb_neq; assumption).
  reflexivity.
Qed.

(* ---------------------------------------------------------------- main theorem *)
Theorem gen_which_eq_spec : forall l, type_of_bus_consistent l -> gen_which l = gen_which_spec l.
Proof.
  intros l Hc. rewrite spec_as_enum. unfold gen_which.
  apply map_ext_in. intros [k g] I. cbn [fst snd].
  destruct (enum_split l 0 k g I) as (l1 & l2 & El & Ek). cbn in Ek. subst k.
  destruct (Z.eq_dec (g_type g) 3) as [T3|N3]; [| destruct (Z.eq_dec (g_type g) 2) as [T2|N2]].
  - rewrite (regroup_flag l l1 g l2 Hc El (or_introl T3)).
    rewrite El, firstn_app, Nat.sub_diag, firstn_all. cbn [firstn]. rewrite app_nil_r. reflexivity.
  - rewrite (regroup_flag l l1 g l2 Hc El (or_intror T2)).
    rewrite El, firstn_app, Nat.sub_diag, firstn_all. cbn [firstn]. rewrite app_nil_r. reflexivity.
  - apply class_of_flag_irrelevant; assumption.
Qed.

(* without the hypothesis the two differ: two rows of one bus typed 2 then 3 (cannot arise from a ppc bus table) *)
Lemma gen_which_neq_spec_without_consistency :
  exists l, gen_which l <> gen_which_spec l.
Proof.
  exists [ {| g_bus := 1; g_type := 2; g_pg := 0; g_vg := 1 |}; {| g_bus := 1; g_type := 3; g_pg := 0; g_vg := 1 |} ].
  vm_compute. discriminate.
Qed.

(* consequences for the implementation's classification itself *)
Lemma gen_which_one_ext_grid_per_slack_bus : forall b l, type_of_bus_consistent l ->
  (forall g, In g l -> g_bus g = b -> g_type g = 3%Z) ->
  count_class b 0 l (gen_which l) = if memz b (map g_bus l) then 1%nat else 0%nat.
Proof. intros b l Hc H. rewrite (gen_which_eq_spec l Hc). apply gen_spec_one_ext_grid_per_slack_bus. exact H. Qed.
Lemma gen_which_one_gen_per_pv_bus : forall b l, type_of_bus_consistent l ->
  (forall g, In g l -> g_bus g = b -> g_type g = 2%Z) ->
  count_class b 1 l (gen_which l) = if memz b (map g_bus l) then 1%nat else 0%nat.
Proof. intros b l Hc H. rewrite (gen_which_eq_spec l Hc). apply gen_spec_one_gen_per_pv_bus. exact H. Qed.

(* non-vacuity: a consistent list with several rows per bus, all four bus types, first rows not in type order *)
Definition gw_example : list grow :=
  [ {| g_bus := 5; g_type := 1; g_pg := 0; g_vg := 1 |}; {| g_bus := 2; g_type := 2; g_pg := 0; g_vg := 1 |};
    {| g_bus := 7; g_type := 3; g_pg := 0; g_vg := 1 |}; {| g_bus := 2; g_type := 2; g_pg := 0; g_vg := 1 |};
    {| g_bus := 7; g_type := 3; g_pg := 0; g_vg := 1 |}; {| g_bus := 9; g_type := 4; g_pg := 0; g_vg := 1 |};
    {| g_bus := 3; g_type := 2; g_pg := 0; g_vg := 1 |} ].
Lemma gw_example_consistent : type_of_bus_consistent gw_example.
Proof.
  intros g g' I I' E. unfold gw_example in *. cbn [In] in I, I'.
  repeat (destruct I as [<-|I]; [repeat (destruct I' as [<-|I']; [first [reflexivity | discriminate E]|]); contradiction|]).
  contradiction.
Qed.
Lemma gw_example_value : gen_which gw_example = [2; 1; 0; 2; 2; 3; 1]%nat.
Proof. vm_compute. reflexivity. Qed.
