(* C06/PfsolnProofs.v — the three pfsoln variants give the same slack P/Q exactly under the guard of _get_numba_functions.
   Main line: the complex power balance  sum_k baseMVA*Sbus[k] = sum_br (Sf + St) + sum_k |V_k|^2 (GS_k - j BS_k)
   (a consequence of Ybus = Cf.T*Yf + Ct.T*Yt + diag(Ysh)), from which
     single - std = sum_{k <> slack} mismatch_k - sum_k |V_k|^2 (GS_k - j BS_k). *)
From Coq Require Import ZArith QArith List Bool Arith Lia Lqa Setoid Morphisms.
From PPV Require Import Base.QN Base.QC C06.Pfsoln.
Import ListNotations.
Open Scope Q_scope.

(* ---- leaf algebra on abstract complex numbers *)
Lemma alg_split b v A B y : Cscale b (Cmul v (Cconj (Cadd (Cadd A B) (Cmul y v)))) ==c
  Cadd (Cadd (Cscale b (Cmul v (Cconj A))) (Cscale b (Cmul v (Cconj B)))) (Cscale b (Cmul v (Cconj (Cmul y v)))).
Proof. csimp. split; ring. Qed.
Lemma alg_shunt b g s v : ~ b == 0 ->
  Cscale b (Cmul v (Cconj (Cmul (mkC (qdiv g b) (qdiv s b)) v))) ==c Cscale (cnorm2 v) (mkC g (qopp s)).
Proof. intros H. csimp. split; field; exact H. Qed.
Lemma alg_conj_add b v x R : Cscale b (Cmul v (Cconj (Cadd x R))) ==c
  Cadd (Cscale b (Cmul v (Cconj x))) (Cscale b (Cmul v (Cconj R))).
Proof. csimp. split; ring. Qed.
Lemma alg_conj_0 b v : Cscale b (Cmul v (Cconj C0)) ==c C0.
Proof. csimp. split; ring. Qed.
Lemma alg_flow b v a c : Cscale b (Cmul v (Cconj (Cadd a c))) ==c Cmul (Cadd (Cscale b (Cconj a)) (Cscale b (Cconj c))) v.
Proof. csimp. split; ring. Qed.

(* ---- sums *)
Lemma Csum_map_ext {A} (F G : A -> C) l : (forall x, In x l -> F x ==c G x) -> Csum (map F l) ==c Csum (map G l).
Proof.
  induction l as [|a t IH]; simpl; intros H; [reflexivity|].
  rewrite (H a (or_introl eq_refl)), IH; [reflexivity|]. intros x Hx. apply H. now right.
Qed.
Lemma Csum_map_add {A} (F G : A -> C) l : Csum (map (fun x => Cadd (F x) (G x)) l) ==c Cadd (Csum (map F l)) (Csum (map G l)).
Proof.
  induction l as [|a t IH]; simpl; [csimp; split; ring|]. rewrite IH. generalize (Csum (map F t)) (Csum (map G t)) (F a) (G a).
  intros. csimp. split; ring.
Qed.
Lemma Csum_map_0 {A} (l : list A) : Csum (map (fun _ => C0) l) ==c C0.
Proof. induction l as [|a t IH]; simpl; [reflexivity|]. rewrite IH. csimp. split; ring. Qed.
(* one bus collects a term: sum_k [f = k] h = h for f among the k *)
Lemma Csum_indicator_out f h : forall n a, (f < a)%nat -> Csum (map (fun k => if Nat.eqb f k then h else C0) (seq a n)) ==c C0.
Proof.
  induction n as [|n IH]; simpl; intros a H; [reflexivity|].
  destruct (Nat.eqb f a) eqn:E; [apply Nat.eqb_eq in E; lia|]. rewrite IH by lia. csimp. split; ring.
Qed.
Lemma Csum_indicator f h : forall n a, (a <= f < a + n)%nat -> Csum (map (fun k => if Nat.eqb f k then h else C0) (seq a n)) ==c h.
Proof.
  induction n as [|n IH]; simpl; intros a H; [lia|].
  destruct (Nat.eqb f a) eqn:E.
  - apply Nat.eqb_eq in E. rewrite Csum_indicator_out by lia. csimp. split; ring.
  - apply Nat.eqb_neq in E. rewrite IH by lia. csimp. split; ring.
Qed.
(* exchange of the bus sum and the branch sum *)
Lemma Csum_exchange {A} (f : A -> nat) (h : A -> C) n : forall l, (forall x, In x l -> (f x < n)%nat) ->
  Csum (map (fun k => Csum (map (fun x => if Nat.eqb (f x) k then h x else C0) l)) (seq 0 n)) ==c Csum (map h l).
Proof.
  induction l as [|a t IH]; intros H.
  - simpl. apply Csum_map_0.
  - cbn [map Csum fold_right].
    rewrite (Csum_map_add (fun k => if Nat.eqb (f a) k then h a else C0)
                          (fun k => fold_right Cadd C0 (map (fun x => if Nat.eqb (f x) k then h x else C0) t))).
    rewrite Csum_indicator by (pose proof (H a (or_introl eq_refl)); lia).
    fold (Csum (map h t)). rewrite <- IH by (intros x Hx; apply H; now right). reflexivity.
Qed.
(* split one bus off a bus sum *)
Lemma Csum_split (F : nat -> C) n s : (s < n)%nat ->
  Csum (map F (seq 0 n)) ==c Cadd (F s) (Csum (map (fun k => if Nat.eqb k s then C0 else F k) (seq 0 n))).
Proof.
  intros H.
  rewrite (Csum_map_ext F (fun k => Cadd (if Nat.eqb s k then F s else C0) (if Nat.eqb k s then C0 else F k))).
  - rewrite (Csum_map_add (fun k => if Nat.eqb s k then F s else C0)). rewrite Csum_indicator by lia. reflexivity.
  - intros k _. rewrite (Nat.eqb_sym s k). destruct (Nat.eqb k s) eqn:E.
    + apply Nat.eqb_eq in E. subst. csimp. split; ring.
    + csimp. split; ring.
Qed.
(* v * conj(sum_br [c br] g br) scaled = sum_br [c br] g' br *)
Lemma Csum_conj_push {A} b v (c : A -> bool) (g g' : A -> C) : forall l,
  (forall x, In x l -> c x = true -> Cscale b (Cmul v (Cconj (g x))) ==c g' x) ->
  Cscale b (Cmul v (Cconj (Csum (map (fun x => if c x then g x else C0) l)))) ==c Csum (map (fun x => if c x then g' x else C0) l).
Proof.
  induction l as [|a t IH]; intros H; cbn [map Csum fold_right]; [apply alg_conj_0|].
  rewrite alg_conj_add. fold (Csum (map (fun x => if c x then g x else C0) t)). rewrite IH by (intros x Hx; apply H; now right).
  destruct (c a) eqn:E.
  - rewrite (H a (or_introl eq_refl) E). reflexivity.
  - rewrite alg_conj_0. reflexivity.
Qed.
Lemma map_seq_nth {A B} (f : A -> B) d l : map (fun k => f (nth k l d)) (seq 0 (length l)) = map f l.
Proof. induction l as [|a t IH]; simpl; [reflexivity|]. f_equal. rewrite <- seq_shift, map_map. exact IH. Qed.
Lemma re_Csum {A} (h : A -> C) l : re (Csum (map h l)) == qsum (map (fun x => re (h x)) l).
Proof. induction l as [|a t IH]; simpl; [reflexivity|]. qnorm. rewrite IH. reflexivity. Qed.
Lemma im_Csum {A} (h : A -> C) l : im (Csum (map h l)) == qsum (map (fun x => im (h x)) l).
Proof. induction l as [|a t IH]; simpl; [reflexivity|]. qnorm. rewrite IH. reflexivity. Qed.

(* ---- the two ways of computing the branch flows agree: all three variants write the same PF QF PT QT *)
Lemma sf_mat_nb p br : sf_mat p br ==c sf_nb p br.
Proof. unfold sf_mat, sf_nb, i_f. apply alg_flow. Qed.
Lemma st_mat_nb p br : st_mat p br ==c st_nb p br.
Proof. unfold st_mat, st_nb, i_t. apply alg_flow. Qed.
Definition flows_eq (a b : list (C * C)) : Prop := Forall2 (fun x y => fst x ==c fst y /\ snd x ==c snd y) a b.
Theorem flows_all_equal p v w : flows_eq (flows_of v p) (flows_of w p).
Proof.
  assert (R : forall l, flows_eq (map (fun br => (sf_nb p br, st_nb p br)) l) (map (fun br => (sf_nb p br, st_nb p br)) l)).
  { induction l; simpl; constructor; auto. split; reflexivity. }
  assert (M : forall l, flows_eq (map (fun br => (sf_mat p br, st_mat p br)) l) (map (fun br => (sf_nb p br, st_nb p br)) l)).
  { induction l; simpl; constructor; auto. split; [apply sf_mat_nb|apply st_mat_nb]. }
  assert (M' : forall l, flows_eq (map (fun br => (sf_nb p br, st_nb p br)) l) (map (fun br => (sf_mat p br, st_mat p br)) l)).
  { induction l; simpl; constructor; auto. split; symmetry; [apply sf_mat_nb|apply st_mat_nb]. }
  assert (R' : forall l, flows_eq (map (fun br => (sf_mat p br, st_mat p br)) l) (map (fun br => (sf_mat p br, st_mat p br)) l)).
  { induction l; simpl; constructor; auto. split; reflexivity. }
  destruct v, w; simpl; auto.
Qed.

(* ---- power balance *)
Section Balance.
Variable p : ppc.
Hypothesis W : wf p = true.
Hypothesis B0 : ~ p_base p == 0.

Lemma wf_br br : In br (p_br p) -> (b_f br < nb p)%nat /\ (b_t br < nb p)%nat.
Proof.
  pose proof W as W'. unfold wf in W'. apply andb_prop in W'. destruct W' as [_ F]. rewrite forallb_forall in F. intros H.
  specialize (F br H). apply andb_prop in F. destruct F as [F1 F2]. apply Nat.ltb_lt in F1, F2. auto.
Qed.
Lemma wf_slack : (p_slack p < nb p)%nat.
Proof. pose proof W as W'. unfold wf in W'. apply andb_prop in W'. destruct W' as [W' _]. apply andb_prop in W'. destruct W' as [W' _].
  apply andb_prop in W'. destruct W' as [W' _]. now apply Nat.ltb_lt in W'. Qed.

Definition shunt_c : C := Csum (map (fun k => Cscale (cnorm2 (vat p k)) (mkC (gs (row p k)) (qopp (bs (row p k))))) (seq 0 (nb p))).
Definition Sbr : C := Csum (map (fun br => Cadd (sf_nb p br) (st_nb p br)) (p_br p)).
Definition Sld : C := Csum (map (fun r => mkC (pd r) (qd r)) (p_bus p)).

Lemma sbus_decomp k : Cscale (p_base p) (sbus p k) ==c
  Cadd (Cadd (Csum (map (fun br => if Nat.eqb (b_f br) k then sf_nb p br else C0) (p_br p)))
             (Csum (map (fun br => if Nat.eqb (b_t br) k then st_nb p br else C0) (p_br p))))
       (Cscale (cnorm2 (vat p k)) (mkC (gs (row p k)) (qopp (bs (row p k))))).
Proof.
  unfold sbus, ybusv. rewrite alg_split. unfold ysh. rewrite (alg_shunt _ _ _ _ B0).
  rewrite (Csum_conj_push (p_base p) (vat p k) (fun br => Nat.eqb (b_f br) k) (i_f p) (sf_nb p)).
  2:{ intros br _ E. apply Nat.eqb_eq in E. subst k. apply sf_mat_nb. }
  rewrite (Csum_conj_push (p_base p) (vat p k) (fun br => Nat.eqb (b_t br) k) (i_t p) (st_nb p)).
  2:{ intros br _ E. apply Nat.eqb_eq in E. subst k. apply st_mat_nb. }
  reflexivity.
Qed.

(* complex power balance of the whole net *)
Theorem power_balance : Csum (map (fun k => Cscale (p_base p) (sbus p k)) (seq 0 (nb p))) ==c Cadd Sbr shunt_c.
Proof.
  rewrite (Csum_map_ext _ _ _ (fun k _ => sbus_decomp k)).
  rewrite (Csum_map_add (fun k => Cadd (Csum (map (fun br => if Nat.eqb (b_f br) k then sf_nb p br else C0) (p_br p)))
                                       (Csum (map (fun br => if Nat.eqb (b_t br) k then st_nb p br else C0) (p_br p))))).
  rewrite (Csum_map_add (fun k => Csum (map (fun br => if Nat.eqb (b_f br) k then sf_nb p br else C0) (p_br p)))).
  rewrite (Csum_exchange b_f (sf_nb p)) by (intros br H; apply (wf_br br H)).
  rewrite (Csum_exchange b_t (st_nb p)) by (intros br H; apply (wf_br br H)).
  unfold Sbr, shunt_c. rewrite (Csum_map_add (sf_nb p) (st_nb p)). reflexivity.
Qed.

Definition std_c : C := mis p (p_slack p).
Definition single_c : C := Cadd Sbr Sld.
Definition rest_mis : C := Csum (map (fun k => if Nat.eqb k (p_slack p) then C0 else mis p k) (seq 0 (nb p))).

Lemma Sld_seq : Sld = Csum (map (fun k => mkC (pd (row p k)) (qd (row p k))) (seq 0 (nb p))).
Proof. unfold Sld, nb, row. now rewrite (map_seq_nth (fun r => mkC (pd r) (qd r)) row0). Qed.

(* single - std = sum of the mismatches of the other buses - shunt power *)
Theorem single_vs_std_c : single_c ==c Cadd std_c (Csub rest_mis shunt_c).
Proof.
  assert (T : Csum (map (mis p) (seq 0 (nb p))) ==c Cadd (Cadd Sbr shunt_c) Sld).
  { unfold mis. rewrite (Csum_map_add (fun k => Cscale (p_base p) (sbus p k))). rewrite power_balance, <- Sld_seq. reflexivity. }
  rewrite (Csum_split (mis p) (nb p) (p_slack p) wf_slack) in T. fold rest_mis std_c in T.
  unfold single_c. revert T. generalize std_c rest_mis Sbr shunt_c Sld. intros a b c d e [T1 T2].
  csimp. split; lra.
Qed.

Lemma single_re : fst (slack_single p) == re single_c.
Proof.
  unfold slack_single, single_c, Sbr, Sld. cbn [fst re Cadd]. rewrite !re_Csum. cbn [re Cadd]. qnorm. reflexivity.
Qed.
Lemma single_im : snd (slack_single p) == im single_c.
Proof.
  unfold slack_single, single_c, Sbr, Sld. cbn [snd im Cadd]. rewrite !im_Csum. cbn [im Cadd]. qnorm. reflexivity.
Qed.
Lemma std_re : fst (slack_std p false) == re std_c.
Proof. unfold slack_std, std_c, mis, sload_p, sload_q. cbn [fst snd]. generalize (sbus p (p_slack p)). intros z. cbn [re im Cadd Cscale]. qnorm. ring. Qed.
Lemma std_im : snd (slack_std p false) == im std_c.
Proof. unfold slack_std, std_c, mis, sload_p, sload_q. cbn [fst snd]. generalize (sbus p (p_slack p)). intros z. cbn [re im Cadd Cscale]. qnorm. ring. Qed.

(* quantitative form: the difference between pf_solution_single_slack and pfsoln is the total mismatch of the
   non-slack buses minus the power of the bus shunts *)
Theorem single_vs_std :
  fst (slack_single p) - fst (slack_std p false) == re rest_mis - re shunt_c /\
  snd (slack_single p) - snd (slack_std p false) == im rest_mis - im shunt_c.
Proof.
  rewrite single_re, single_im, std_re, std_im. destruct single_vs_std_c as [H1 H2]. revert H1 H2.
  generalize single_c std_c rest_mis shunt_c. intros a b c d. csimp. intros H1 H2. split; lra.
Qed.
End Balance.

(* ---- equality under the guard *)
Definition solved (p : ppc) : Prop := forall k, (k < nb p)%nat -> k <> p_slack p -> mis p k ==c C0.
Definition slack_eq (a b : Q * Q) : Prop := fst a == fst b /\ snd a == snd b.

Lemma rest_mis_0 p : solved p -> rest_mis p ==c C0.
Proof.
  intros S. unfold rest_mis. rewrite (Csum_map_ext _ (fun _ => C0)); [apply Csum_map_0|].
  intros k Hk. apply in_seq in Hk. destruct (Nat.eqb k (p_slack p)) eqn:E; [reflexivity|]. apply Nat.eqb_neq in E. apply S; lia.
Qed.
Lemma shunt_c_0 p : forallb (fun r => qeqb (gs r) 0 && qeqb (bs r) 0) (p_bus p) = true -> shunt_c p ==c C0.
Proof.
  intros G. rewrite forallb_forall in G. unfold shunt_c. rewrite (Csum_map_ext _ (fun _ => C0)); [apply Csum_map_0|].
  intros k Hk. apply in_seq in Hk. assert (I : In (row p k) (p_bus p)) by (apply nth_In; unfold nb in Hk; lia).
  specialize (G _ I). apply andb_prop in G. destruct G as [G1 G2]. apply qeqb_eq in G1, G2.
  generalize (cnorm2 (vat p k)). intros n. csimp. rewrite G1, G2. split; ring.
Qed.

Theorem single_eq_std_guarded p ngen dist : wf p = true -> ~ p_base p == 0 -> solved p ->
  G06s ngen false dist (p_bus p) = true -> slack_eq (slack_single p) (slack_std p false).
Proof.
  intros W B S G. unfold G06s in G. apply andb_prop in G. destruct G as [_ G].
  destruct (single_vs_std p W B) as [H1 H2]. pose proof (rest_mis_0 p S) as [R1 R2]. pose proof (shunt_c_0 p G) as [S1 S2].
  cbn [re im C0] in *. split; lra.
Qed.

(* selection: pf_solution_single_slack is chosen exactly under the guard *)
Lemma existsb_negb_forallb {A} (f : A -> bool) l : negb (existsb (fun x => negb (f x)) l) = forallb f l.
Proof. induction l as [|a t IH]; simpl; [reflexivity|]. rewrite negb_orb, negb_involutive, IH. reflexivity. Qed.
Lemma forallb_andb {A} (f g : A -> bool) l : forallb (fun x => f x && g x) l = forallb f l && forallb g l.
Proof. induction l as [|a t IH]; simpl; [reflexivity|]. rewrite IH. destruct (f a), (g a), (forallb f t); reflexivity. Qed.
Theorem select_single_iff numba ngen vdl dist buses :
  select numba ngen vdl dist buses = VSingle <-> numba = true /\ G06s ngen vdl dist buses = true.
Proof.
  unfold select, G06s. rewrite forallb_andb, negb_orb, !existsb_negb_forallb.
  destruct numba; [|split; [discriminate|intros [H _]; discriminate]].
  rewrite (andb_comm (forallb (fun r => qeqb (bs r) 0) buses)).
  destruct (Nat.eqb ngen 1 && negb vdl && negb dist && (forallb (fun r => qeqb (gs r) 0) buses && forallb (fun r => qeqb (bs r) 0) buses));
    split; intros H; try discriminate; auto; destruct H; discriminate.
Qed.

(* whatever _get_numba_functions selects (numba on or off, any option combination) gives the slack P/Q of numba-off pfsoln *)
Theorem selected_agrees numba vdl dist p : wf p = true -> ~ p_base p == 0 -> solved p ->
  slack_eq (slack_of (select numba 1 vdl dist (p_bus p)) p vdl) (slack_of VPypower p vdl).
Proof.
  intros W B S. destruct (select numba 1 vdl dist (p_bus p)) eqn:E; try (split; reflexivity).
  apply select_single_iff in E. destruct E as [_ G]. assert (vdl = false).
  { unfold G06s in G. destruct vdl; [|reflexivity]. rewrite andb_false_r in G. discriminate. }
  subst vdl. exact (single_eq_std_guarded p 1%nat dist W B S G).
Qed.

(* ---- the guard is necessary: witnesses *)
Definition ymk (a b : Q) : C := mkC a b.
(* two buses, one line y = 1 - 2j, V = (1, 0.9), a bus conductance GS = 0.1 MW at bus 1; PD/QD of bus 1 chosen such that
   the power flow equations hold exactly *)
Definition w_gs : ppc :=
  {| p_base := 1;
     p_bus := [row0; {| pd := 9#1000; qd := 9#50; gs := 1#10; bs := 0; ci_p := 0; cz_p := 0; ci_q := 0; cz_q := 0 |}];
     p_br := [{| b_f := 0; b_t := 1; yff := ymk 1 (-2); yft := ymk (-1) 2; ytf := ymk (-1) 2; ytt := ymk 1 (-2) |}];
     p_V := [mkC 1 0; mkC (9#10) 0]; p_vm := [1; 9#10]; p_slack := 0 |}.
Lemma w_gs_solved : solved w_gs.
Proof. intros k Hk Hs. destruct k as [|[|k]]; [now elim Hs| vm_compute; split; reflexivity | unfold nb in Hk; simpl in Hk; lia]. Qed.
(* same guard minus the shunt conjunct: single ext_grid row, no voltage dependent loads, no distributed slack *)
Theorem single_with_conductance_refuted : exists p, wf p = true /\ ~ p_base p == 0 /\ solved p /\
  ~ slack_eq (slack_single p) (slack_std p false).
Proof.
  exists w_gs. split; [reflexivity|]. split; [discriminate|]. split; [exact w_gs_solved|].
  intros [H _]. vm_compute in H. discriminate.
Qed.
(* voltage dependent load (constant impedance share 1) at the slack bus held at 1.05 p.u.: Sload differs from PD *)
Definition w_vdl : ppc :=
  {| p_base := 1;
     p_bus := [{| pd := 1; qd := 0; gs := 0; bs := 0; ci_p := 0; cz_p := 1; ci_q := 0; cz_q := 0 |}];
     p_br := []; p_V := [mkC (21#20) 0]; p_vm := [21#20]; p_slack := 0 |}.
Theorem single_with_zip_refuted : exists p, wf p = true /\ ~ p_base p == 0 /\ solved p /\
  forallb (fun r => qeqb (gs r) 0 && qeqb (bs r) 0) (p_bus p) = true /\ ~ slack_eq (slack_single p) (slack_std p true).
Proof.
  exists w_vdl. split; [reflexivity|]. split; [discriminate|]. split.
  - intros k Hk Hs. unfold nb in Hk. simpl in Hk. destruct k; [now elim Hs|lia].
  - split; [reflexivity|]. intros [H _]. vm_compute in H. discriminate.
Qed.

(* non-vacuity: a solved three-bus feeder without shunts on which the guard holds and the slack power is not zero *)
Definition w_ok : ppc :=
  {| p_base := 1;
     p_bus := [row0; {| pd := 9#100; qd := 9#50; gs := 0; bs := 0; ci_p := 0; cz_p := 0; ci_q := 0; cz_q := 0 |}];
     p_br := [{| b_f := 0; b_t := 1; yff := ymk 1 (-2); yft := ymk (-1) 2; ytf := ymk (-1) 2; ytt := ymk 1 (-2) |}];
     p_V := [mkC 1 0; mkC (9#10) 0]; p_vm := [1; 9#10]; p_slack := 0 |}.
Example guarded_nonvacuous : wf w_ok = true /\ solved w_ok /\ G06s 1 false false (p_bus w_ok) = true /\
  select true 1 false false (p_bus w_ok) = VSingle /\ fst (slack_single w_ok) == 1#10 /\ snd (slack_single w_ok) == 1#5.
Proof.
  split; [reflexivity|]. split.
  - intros k Hk Hs. destruct k as [|[|k]]; [now elim Hs| vm_compute; split; reflexivity | unfold nb in Hk; simpl in Hk; lia].
  - repeat split; reflexivity.
Qed.
