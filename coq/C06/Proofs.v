(* C06/Proofs.v — the BIBC column bookkeeping is sound exactly when the reference buses are the first rows and at most
   one island is meshed; otherwise csr_matrix raises (negative column) or two different loops share a column. *)
From Coq Require Import String ZArith List Bool Arith Lia FinFun.
From PPV Require Import C06.Model.
Import ListNotations.
Local Open Scope Z_scope.

Lemma loop_entries_col nobus norefs : forall ls k e, In e (loop_entries nobus norefs k ls) ->
  exists j, (k <= j < k + length ls)%nat /\ snd (fst e) = Z.of_nat (nobus + j) - Z.of_nat norefs.
Proof.
  induction ls as [|l t IH]; simpl; intros k e H; [contradiction|].
  apply in_app_or in H. destruct H as [H|H].
  - apply in_map_iff in H. destruct H as [rd [<- _]]. exists k. simpl. split; [lia|reflexivity].
  - destruct (IH _ _ H) as [j [Hj E]]. exists j. split; [lia|exact E].
Qed.

Section Guarded.
Variables (nobus : nat) (isls : list island).
Hypothesis G : G06 isls = true.
Hypothesis Hn : (length isls <= nobus)%nat.

(* no column is negative: csr_matrix does not raise the "negative axis 1 index" error *)
Theorem guarded_cols_nonneg e : In e (all_entries nobus isls) -> 0 <= snd (fst e).
Proof.
  unfold G06 in G. apply andb_prop in G. destruct G as [G1 _]. rewrite forallb_forall in G1.
  unfold all_entries. intros H. apply in_flat_map in H. destruct H as [isl [I H]].
  unfold island_entries in H. apply in_app_or in H. destruct H as [H|H].
  - unfold tree_entries in H. apply in_flat_map in H. destruct H as [rb [Ir H]].
    apply in_map_iff in H. destruct H as [v [<- Iv]]. simpl.
    specialize (G1 isl I). rewrite forallb_forall in G1. specialize (G1 rb Ir). rewrite forallb_forall in G1.
    specialize (G1 v Iv). apply Nat.leb_le in G1. lia.
  - destruct (loop_entries_col _ _ _ _ _ H) as [j [_ E]]. rewrite E. lia.
Qed.

Theorem guarded_not_negative nobranch : bibc nobus nobranch isls <> BNeg.
Proof.
  unfold bibc. cbv zeta. destruct (existsb (fun e : entry => Z.ltb (snd (fst e)) 0) (all_entries nobus isls)) eqn:E.
  - apply existsb_exists in E. destruct E as [e [I L]]. cbv beta in L. apply Z.ltb_lt in L.
    pose proof (guarded_cols_nonneg e I). lia.
  - intros H. destruct (existsb _ _) in H; discriminate H.
Qed.

(* distinct loops get distinct columns *)
Lemma loop_cols_nodup_aux norefs : forall l,
  (length (filter (fun isl => negb (Nat.eqb (length (i_loops isl)) 0)) l) <= 1)%nat -> NoDup (loop_cols_of nobus norefs l).
Proof.
  induction l as [|isl t IH]; simpl; intros H; [constructor|].
  destruct (Nat.eqb (length (i_loops isl)) 0) eqn:E; simpl in H.
  - apply Nat.eqb_eq in E. rewrite E. simpl. apply IH. exact H.
  - assert (T : filter (fun isl => negb (Nat.eqb (length (i_loops isl)) 0)) t = []).
    { destruct (filter _ t); auto. simpl in H. lia. }
    assert (Z0 : loop_cols_of nobus norefs t = []).
    { clear -T. induction t as [|a t IH]; simpl; auto. simpl in T.
      destruct (Nat.eqb (length (i_loops a)) 0) eqn:Ea; simpl in T; [|discriminate].
      apply Nat.eqb_eq in Ea. unfold loop_cols_of in *. simpl. rewrite Ea. simpl. apply IH. exact T. }
    unfold loop_cols_of in *. simpl. rewrite Z0, app_nil_r.
    apply Injective_map_NoDup; [|apply seq_NoDup]. intros a b Hab. lia.
Qed.
Theorem guarded_loop_cols_distinct : NoDup (loop_cols nobus isls).
Proof.
  unfold loop_cols. apply loop_cols_nodup_aux. unfold G06 in G. apply andb_prop in G. destruct G as [_ G2].
  now apply Nat.leb_le in G2.
Qed.
End Guarded.

(* ---- without the guard *)
(* a radial feeder 0-1-2 whose reference bus is the last row: the sub-tree of the first tree branch contains bus 0,
   column 0 - 1 = -1 *)
Definition w_ref_last : list island := [{| i_tree := [(1%nat, [1%nat; 0%nat]); (0%nat, [0%nat])]; i_loops := [] |}].
Theorem bibc_ref_not_first_refuted : exists nobus nobranch isls, bibc nobus nobranch isls = BNeg.
Proof. exists 3%nat, 2%nat, w_ref_last. reflexivity. Qed.

(* two meshed islands with the reference buses in rows 0 and 1: both loops get column nobus + 0 - 2 *)
Definition w_two_meshed : list island :=
  [{| i_tree := [(0%nat, [2%nat]); (1%nat, [3%nat])]; i_loops := [[(0%nat, 1); (2%nat, 1); (1%nat, -1)]] |};
   {| i_tree := [(3%nat, [4%nat]); (4%nat, [5%nat])]; i_loops := [[(3%nat, 1); (5%nat, 1); (4%nat, -1)]] |}].
Theorem bibc_multi_island_refuted :
  exists nobus nobranch isls, (exists es, bibc nobus nobranch isls = BOk es) /\ ~ NoDup (loop_cols nobus isls).
Proof.
  exists 6%nat, 6%nat, w_two_meshed. split; [eexists; reflexivity|].
  vm_compute. intros H. inversion H as [|x l N _]; subst. apply N. now left.
Qed.

Example bibc_nonvacuous :
  let isls := [{| i_tree := [(0%nat, [1%nat; 2%nat; 3%nat]); (1%nat, [2%nat]); (2%nat, [3%nat])];
                  i_loops := [[(1%nat, 1); (3%nat, 1); (2%nat, -1)]] |}] in
  G06 isls = true /\ exists es, bibc 4 4 isls = BOk es /\ length es = 8%nat.
Proof. split; [reflexivity|eexists; split; reflexivity]. Qed.

(* ---- dispatch: every documented AC algorithm name selects a solver; anything else raises *)
Theorem dispatch_total alg : In alg ["nr"; "iwamoto_nr"; "bfsw"; "gs"; "fdbx"; "fdxb"]%string ->
  forall o d f, dispatch true alg o d f <> SRaise.
Proof.
  intros H o d f. simpl in H.
  repeat (destruct H as [<-|H]; [unfold dispatch; destruct (o && negb d && negb f); simpl; discriminate|]). contradiction.
Qed.

(* ---- iwamoto multiplier *)
From Coq Require Import QArith.
(* for a genuine cubic the repaired code uses the same root as before (index 2) *)
Theorem iwamoto_pick_cubic g3 g2 g1 g0 : ~ (g3 == 0)%Q -> iwamoto_pick g3 g2 g1 g0 = Some 2%nat.
Proof.
  intros H. unfold iwamoto_pick, n_roots. simpl.
  destruct (Qeq_bool g3 0) eqn:E; [apply Qeq_bool_iff in E; contradiction|reflexivity].
Qed.
(* and it always names an existing root (or the constant 1): no IndexError for any coefficients *)
Theorem iwamoto_pick_in_range g3 g2 g1 g0 k : iwamoto_pick g3 g2 g1 g0 = Some k -> (k < n_roots [g3; g2; g1; g0])%nat.
Proof. unfold iwamoto_pick. destruct (n_roots [g3; g2; g1; g0]); intros H; inversion H; subst. apply Nat.lt_succ_diag_r. Qed.
(* regression witness: before the repair index 2 did not exist without a second-order term (no PQ bus): IndexError *)
Theorem iwamoto_index_old_refuted : exists g1 g0, ~ (g1 == 0)%Q /\ iwamoto_index_ok_old 0 0 g1 g0 = false.
Proof. exists 1%Q, (-1)%Q. split; [discriminate|reflexivity]. Qed.
