(* C06 — model of the index bookkeeping of pandapower/pf/run_bfswpf.py _make_bibc_bcbv (:27-159) and of the algorithm
   dispatch of powerflow.py _run_pf_algorithm (:136-158).
   The spanning trees, the sub-tree node lists (tree_down), the loop branches and their tree paths come from
   scipy.sparse.csgraph and are inputs here (the harness recomputes them with the same scipy calls); the model is what
   the function does with them: row = branch index, column = bus index - norefs for tree entries (":131 assuming root
   bus is always 0 after ordering indices are subtracted by 1"), column = nobus + loop_i - norefs for the entries of the
   loop_i-th loop *of the current island* (enumerate restarts per reference bus, :108), then
   csr_matrix((data, (rows, cols)), shape=(nobranch, nobranch)) which raises ValueError for a negative or too large
   index and silently adds entries with equal (row, col).
   Executable definitions only. *)
From Coq Require Import String ZArith QArith List Bool Arith Lia.
From PPV Require Import Base.Out.
Import ListNotations.
Local Open Scope Z_scope.

Record island := {
  i_tree : list (nat * list nat);          (* per tree branch in BFS order: (branch index, buses of the sub-tree below it) *)
  i_loops : list (list (nat * Z)) }.       (* per loop branch: (branch index, direction +1/-1) along its tree cycle *)

Definition entry := (nat * Z * Z)%type.    (* row, column as passed to csr_matrix (already - norefs), value of BIBC *)

Definition tree_entries (norefs : nat) (isl : island) : list entry :=
  flat_map (fun rb : nat * list nat => map (fun v => (fst rb, Z.of_nat v - Z.of_nat norefs, 1)) (snd rb)) (i_tree isl).
Fixpoint loop_entries (nobus norefs : nat) (loop_i : nat) (ls : list (list (nat * Z))) : list entry :=
  match ls with
  | [] => []
  | l :: t => map (fun rd : nat * Z => (fst rd, Z.of_nat (nobus + loop_i) - Z.of_nat norefs, snd rd)) l
              ++ loop_entries nobus norefs (S loop_i) t
  end.
Definition island_entries (nobus norefs : nat) (isl : island) : list entry :=
  tree_entries norefs isl ++ loop_entries nobus norefs 0 (i_loops isl).
Definition all_entries (nobus : nat) (isls : list island) : list entry :=
  flat_map (island_entries nobus (length isls)) isls.         (* norefs = number of reference buses = islands *)

Inductive bibc_res := BOk (es : list entry) | BNeg | BBig.
(* scipy coo/csr construction: negative index -> ValueError("negative axis 1 index"), index >= shape -> ValueError *)
Definition bibc (nobus nobranch : nat) (isls : list island) : bibc_res :=
  let es := all_entries nobus isls in
  if existsb (fun e : entry => Z.ltb (snd (fst e)) 0) es then BNeg
  else if existsb (fun e : entry => Z.leb (Z.of_nat nobranch) (snd (fst e)) || Nat.leb nobranch (fst (fst e))) es then BBig
  else BOk es.

(* columns of the loops of all islands (as passed to csr_matrix) *)
Definition loop_cols_of (nobus norefs : nat) (isls : list island) : list Z :=
  flat_map (fun isl => map (fun k => Z.of_nat (nobus + k) - Z.of_nat norefs) (seq 0 (length (i_loops isl)))) isls.
Definition loop_cols (nobus : nat) (isls : list island) : list Z := loop_cols_of nobus (length isls) isls.

(* guard: the reference buses are the first rows (every sub-tree bus index >= number of references) and at most one
   island has loops *)
Definition G06 (isls : list island) : bool :=
  forallb (fun isl => forallb (fun rb : nat * list nat => forallb (fun v => Nat.leb (length isls) v) (snd rb)) (i_tree isl)) isls
  && Nat.leb (length (filter (fun isl => negb (Nat.eqb (length (i_loops isl)) 0)) isls)) 1.

(* ---- dispatch of _run_pf_algorithm (powerflow.py:136-158): which solver function runs *)
Inductive solver := SNewton | SBfsw | SPypower | SBypass | SDc | SRaise.
Definition dispatch (ac : bool) (algorithm : string) (only_ref_buses dist_slack has_facts : bool) : solver :=
  if negb ac then SDc
  else if only_ref_buses && negb dist_slack && negb has_facts then SBypass
  else if (String.eqb algorithm "bfsw") then SBfsw
  else if (String.eqb algorithm "nr") || (String.eqb algorithm "iwamoto_nr") then SNewton
  else if (String.eqb algorithm "gs") || (String.eqb algorithm "fdbx") || (String.eqb algorithm "fdxb") then SPypower
  else SRaise.

(* ---- pf/iwamoto_multiplier.py  all_roots = roots([g3, g2, g1, g0]); np_roots = all_roots[-1].real if len(all_roots) else 1.0
   (after "fix: iwamoto_nr works on networks without PQ buses").  numpy.roots strips leading zero coefficients and
   returns as many roots as the remaining degree.  Before the repair the code took index 2, which exists only for a
   genuine cubic; g3 = 2*c2.c2 and g2 = 3*c1.c2 vanish when the net has no PQ bus (dVm = 0, so c2 = -y(dx) = 0). *)
Fixpoint strip0 (l : list Q) : list Q :=
  match l with [] => [] | x :: t => if Qeq_bool x 0 then strip0 t else l end.
Definition n_roots (l : list Q) : nat := pred (length (strip0 l)).
(* which root is used: Some (position of the last root), or None = the constant multiplier 1.0; never an IndexError *)
Definition iwamoto_pick (g3 g2 g1 g0 : Q) : option nat :=
  match n_roots [g3; g2; g1; g0] with O => None | S k => Some k end.
(* the index test of the code before the repair (roots(...)[2]) *)
Definition iwamoto_index_ok_old (g3 g2 g1 g0 : Q) : bool := Nat.ltb 2 (n_roots [g3; g2; g1; g0]).

(* ---- Run wrappers *)
Definition run_n_roots (l : list Q) : out := onat (n_roots l).
Definition oentry (e : entry) : out := OL [onat (fst (fst e)); OZ (snd (fst e)); OZ (snd e)].
Definition run_bibc (nobus nobranch : nat) (isls : list island) : out :=
  match bibc nobus nobranch isls with
  | BOk es => OL [olist oentry es; OB (G06 isls)]
  | BNeg => OL [OErr "negative"; OB (G06 isls)]
  | BBig => OL [OErr "exceeds"; OB (G06 isls)]
  end.
Definition run_dispatch (ac : bool) (alg : string) (only_ref : bool) : out :=
  match dispatch ac alg only_ref false false with
  | SNewton => OS "newton" | SBfsw => OS "bfsw" | SPypower => OS "pypower" | SBypass => OS "bypass" | SDc => OS "dc"
  | SRaise => OErr "AlgorithmUnknown" end.
