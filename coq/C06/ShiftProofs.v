(* C06/ShiftProofs.v — the sub-tree rotations of _run_bfswpf add up to the cumulative shift along the tree path from the
   root exactly when every phase-shifting branch is a branch of the spanning tree; a phase-shifting branch that closes a
   loop rotates a sub-tree a second time. *)
From Coq Require Import ZArith QArith List Bool Arith Lia Lqa Setoid Morphisms.
From PPV Require Import Base.QN C06.Pfsoln C06.Shift.
Import ListNotations.
Open Scope Q_scope.

Lemma memb_In x l : memb x l = true <-> In x l.
Proof.
  unfold memb. rewrite existsb_exists. split.
  - intros [y [H E]]. apply Nat.eqb_eq in E. now subst.
  - intros H. exists x. split; [exact H|apply Nat.eqb_refl].
Qed.
Lemma memb_false x l : memb x l = false <-> ~ In x l.
Proof. rewrite <- memb_In. destruct (memb x l); split; congruence. Qed.

Lemma edge_eq_dec (a b : edge) : {a = b} + {a <> b}.
Proof. decide equality; apply Nat.eq_dec. Qed.

(* ---- sub-tree sets *)
Lemma fold_desc_mono es : forall S x, In x S -> In x (fold_left desc_step es S).
Proof. induction es as [|e t IH]; simpl; intros S x H; auto. apply IH. unfold desc_step. destruct (memb (fst e) S); simpl; auto. Qed.
Lemma desc_self es x : memb x (desc es x) = true.
Proof. apply memb_In, fold_desc_mono. simpl. auto. Qed.
Lemma fold_desc_sub es : forall S y, In y (fold_left desc_step es S) -> In y S \/ In y (map snd es).
Proof.
  induction es as [|e t IH]; simpl; intros S y H; auto. apply IH in H. destruct H as [H|H]; auto.
  unfold desc_step in H. destruct (memb (fst e) S); simpl in H; [destruct H as [<-|H]|]; auto.
Qed.
Lemma fold_desc_noparent es x : (forall e, In e es -> fst e <> x) -> fold_left desc_step es [x] = [x].
Proof.
  induction es as [|e t IH]; simpl; intros H; auto.
  assert (E : desc_step [x] e = [x]).
  { unfold desc_step, memb. simpl. destruct (Nat.eqb (fst e) x) eqn:E; [|reflexivity]. apply Nat.eqb_eq in E. elim (H e (or_introl eq_refl) E). }
  rewrite E. apply IH. intros e' H'. apply H. now right.
Qed.
Lemma desc_snoc es e x : desc (es ++ [e]) x = desc_step (desc es x) e.
Proof. unfold desc. now rewrite fold_left_app. Qed.

(* ---- well-formed trees *)
Lemma ok_parents root r : ok_rev root r = true -> forall e, In e r -> In (fst e) (root :: map snd r).
Proof.
  induction r as [|[p c] r' IH]; intros H e He; [contradiction|]. cbn [ok_rev] in H.
  apply andb_prop in H. destruct H as [H H3]. apply andb_prop in H. destruct H as [H1 H2].
  destruct He as [<-|He].
  - apply memb_In in H1. simpl in *. destruct H1; auto.
  - specialize (IH H3 e He). simpl in *. destruct IH; auto.
Qed.
Lemma ok_nodup root r : ok_rev root r = true -> NoDup (map snd r).
Proof.
  induction r as [|[p c] r' IH]; intros H; [constructor|]. cbn [ok_rev] in H.
  apply andb_prop in H. destruct H as [H H3]. apply andb_prop in H. destruct H as [_ H2].
  simpl. constructor; [|auto]. apply negb_true_iff, memb_false in H2. simpl in H2. tauto.
Qed.
Lemma ok_app root x : forall y, ok_rev root (x ++ y) = true -> ok_rev root y = true.
Proof. induction x as [|[p c] x IH]; intros y H; auto. rewrite <- app_comm_cons in H. cbn [ok_rev] in H. apply andb_prop in H. destruct H as [_ H]. auto. Qed.

(* ---- Lemma A: the path shift is the sum of the branch shifts over the branches whose sub-tree contains the bus *)
Lemma path_as_sum (w : nat -> nat -> Q) root : forall r, ok_rev root r = true -> forall b,
  path_rev w r b == qsum (map (fun e : edge => if memb b (desc (rev r) (snd e)) then w (fst e) (snd e) else 0) r).
Proof.
  induction r as [|[p c] r' IH]; intros H b; [reflexivity|].
  pose proof H as H0. cbn [ok_rev] in H. apply andb_prop in H. destruct H as [H H3]. apply andb_prop in H. destruct H as [H1 H2].
  apply memb_In in H1. apply negb_true_iff, memb_false in H2.
  assert (Pc : p <> c) by (intros ->; auto).
  (* the sub-tree of the new child is the child alone *)
  assert (Dc : desc (@rev edge (@cons edge (p, c) r')) c = [c]).
  { simpl rev. rewrite desc_snoc. unfold desc. rewrite fold_desc_noparent.
    - unfold desc_step, memb. simpl. destruct (Nat.eqb p c) eqn:E; [apply Nat.eqb_eq in E; contradiction|reflexivity].
    - intros e He Ee. apply in_rev in He. pose proof (ok_parents root r' H3 e He) as P. rewrite Ee in P. auto. }
  (* the other sub-trees gain c exactly when they contain p *)
  assert (De : forall e, In e r' -> memb b (desc (@rev edge (@cons edge (p, c) r')) (snd e)) =
                                    memb (if Nat.eqb b c then p else b) (desc (rev r') (snd e))).
  { intros e He. simpl rev. rewrite desc_snoc.
    assert (cD : memb c (desc (rev r') (snd e)) = false).
    { apply memb_false. intros I. apply fold_desc_sub in I. apply H2. simpl. right. destruct I as [[I|[]]|I].
      - rewrite <- I. apply in_map. exact He.
      - rewrite map_rev in I. now apply in_rev in I. }
    remember (desc (rev r') (snd e)) as D eqn:HD. clear HD.
    unfold desc_step. cbn [fst snd]. destruct (Nat.eqb b c) eqn:E.
    - apply Nat.eqb_eq in E. subst b. destruct (memb p D) eqn:EP; [|exact cD]. unfold memb. simpl. now rewrite Nat.eqb_refl.
    - destruct (memb p D); [|reflexivity]. unfold memb at 1. simpl. rewrite E. reflexivity. }
  cbn [path_rev map qsum fold_right fst snd]. rewrite Dc.
  rewrite (map_ext_in _ (fun e : edge => if memb (if Nat.eqb b c then p else b) (desc (rev r') (snd e)) then w (fst e) (snd e) else 0))
    by (intros e He; rewrite (De e He); reflexivity).
  unfold memb at 1. cbn [existsb]. rewrite orb_false_r.
  destruct (Nat.eqb b c) eqn:E.
  - rewrite (IH H3 p). unfold qsum. qnorm. ring.
  - rewrite (IH H3 b). unfold qsum. qnorm. ring.
Qed.

(* ---- positions in the BFS order *)
Lemma posn_app_in x l1 l2 : In x l1 -> posn (l1 ++ l2) x = posn l1 x /\ (posn l1 x < length l1)%nat.
Proof.
  induction l1 as [|y t IH]; simpl; intros H; [contradiction|].
  destruct (Nat.eqb x y) eqn:E; [split; [reflexivity|lia]|].
  destruct H as [H|H]; [subst; rewrite Nat.eqb_refl in E; discriminate|]. destruct (IH H). split; lia.
Qed.
Lemma posn_app_notin x l1 l2 : ~ In x l1 -> posn (l1 ++ x :: l2) x = length l1.
Proof.
  induction l1 as [|y t IH]; simpl; intros H; [now rewrite Nat.eqb_refl|].
  destruct (Nat.eqb x y) eqn:E; [apply Nat.eqb_eq in E; subst; tauto|]. rewrite IH; tauto.
Qed.
Lemma edge_pos root es p c : tree_ok root es = true -> In (p, c) es ->
  (posn (order root es) p < posn (order root es) c)%nat.
Proof.
  intros T I. apply in_split in I. destruct I as [a [b' ->]]. unfold tree_ok in T.
  rewrite rev_app_distr in T. simpl in T. rewrite <- app_assoc in T. apply ok_app in T. cbn [ok_rev] in T.
  apply andb_prop in T. destruct T as [T _]. apply andb_prop in T. destruct T as [T1 T2].
  apply memb_In in T1. apply negb_true_iff, memb_false in T2.
  assert (P : In p (root :: map snd a)). { simpl in *. rewrite map_rev in T1. destruct T1; auto. right. now apply in_rev. }
  assert (N : ~ In c (root :: map snd a)). { intros X. apply T2. simpl in *. rewrite map_rev. destruct X; auto. right. now apply in_rev in H. }
  unfold order. rewrite map_app. simpl map.
  change (root :: map snd a ++ c :: map snd b') with ((root :: map snd a) ++ c :: map snd b').
  rewrite (posn_app_notin _ _ _ N). destruct (posn_app_in p _ (c :: map snd b') P) as [-> L]. exact L.
Qed.

(* ---- sums *)
Lemma qsum_map_ext {A} (F G : A -> Q) l : (forall x, In x l -> F x == G x) -> qsum (map F l) == qsum (map G l).
Proof.
  induction l as [|a t IH]; simpl; intros H; [reflexivity|]. qnorm. rewrite (H a (or_introl eq_refl)), IH; [reflexivity|].
  intros x Hx. apply H. now right.
Qed.
Lemma qsum_map_add {A} (F G : A -> Q) l : qsum (map (fun x => qadd (F x) (G x)) l) == qsum (map F l) + qsum (map G l).
Proof. induction l as [|a t IH]; simpl; [ring|]. qnorm. rewrite IH. ring. Qed.
Lemma qsum_map_0 {A} (l : list A) : qsum (map (fun _ => 0) l) == 0.
Proof. induction l as [|a t IH]; simpl; [reflexivity|]. qnorm. rewrite IH. ring. Qed.
Lemma sum_zero (h : nat -> bool) (g : edge -> Q) l : (forall e, In e l -> g e == 0) ->
  qsum (map (fun e => if h (snd e) then g e else 0) l) == 0.
Proof.
  intros H. rewrite (qsum_map_ext _ (fun _ => 0)); [apply qsum_map_0|]. intros e He. destruct (h (snd e)); [apply H, He|reflexivity].
Qed.
Lemma collapse (h : nat -> bool) (g : edge -> Q) e0 : forall l, NoDup (map snd l) -> In e0 l ->
  (forall e, In e l -> e <> e0 -> g e == 0) -> qsum (map (fun e => if h (snd e) then g e else 0) l) == if h (snd e0) then g e0 else 0.
Proof.
  induction l as [|a t IH]; simpl; intros N I Z; [contradiction|]. inversion N as [|x l' Nx Nt]; subst. qnorm.
  destruct (edge_eq_dec a e0) as [->|Ne].
  - rewrite sum_zero; [ring|]. intros e He. apply Z; auto. intros ->. apply Nx. now apply in_map.
  - destruct I as [I|I]; [contradiction|]. rewrite (IH Nt I) by (intros e He; apply Z; auto).
    pose proof (Z a (or_introl eq_refl) Ne) as Za. destruct (h (snd a)); [rewrite Za|]; ring.
Qed.
Lemma exchange (d : list trafo) (hb : edge -> bool) (W : trafo -> edge -> Q) : forall l : list edge,
  qsum (map (fun e => if hb e then qsum (map (fun tr => W tr e) d) else 0) l) ==
  qsum (map (fun tr => qsum (map (fun e => if hb e then W tr e else 0) l)) d).
Proof.
  induction l as [|a t IH]; simpl.
  - now rewrite qsum_map_0.
  - rewrite (qsum_map_add (fun tr => if hb a then W tr a else 0)). qnorm. rewrite IH.
    destruct (hb a); [reflexivity|]. rewrite qsum_map_0. reflexivity.
Qed.

Lemma edge_in_In p c es : edge_in p c es = true <-> In (p, c) es.
Proof.
  unfold edge_in. rewrite existsb_exists. split.
  - intros [[a b] [I E]]. simpl in E. apply andb_prop in E. destruct E as [E1 E2]. apply Nat.eqb_eq in E1, E2. now subst.
  - intros I. exists (p, c). simpl. now rewrite !Nat.eqb_refl.
Qed.

(* ---- Lemma B: one tree transformer — the branches of the tree carrying its shift collapse to its sub-tree rotation *)
Lemma one_trafo root es f t s b : tree_ok root es = true -> edge_in f t es || edge_in t f es = true ->
  qsum (map (fun e : edge => if memb b (desc es (snd e)) then w_tr (f, t, s) (fst e) (snd e) else 0) (rev es)) ==
  contrib root es (f, t, s) b.
Proof.
  intros T G. pose proof (ok_nodup root _ T) as N.
  assert (X : forall x y, In (x, y) es -> In (y, x) es -> False).
  { intros x y I1 I2. pose proof (edge_pos root es x y T I1). pose proof (edge_pos root es y x T I2). lia. }
  unfold contrib. destruct (edge_in f t es) eqn:E1.
  - apply edge_in_In in E1. pose proof (edge_pos root es f t T E1) as L. apply Nat.ltb_lt in L. rewrite L.
    rewrite (collapse (fun c => memb b (desc es c)) (fun e => w_tr (f, t, s) (fst e) (snd e)) (f, t) (rev es) N).
    + cbn [fst snd w_tr]. rewrite !Nat.eqb_refl. reflexivity.
    + now apply in_rev in E1.
    + intros [p c] He Ne. apply in_rev in He. cbn [fst snd w_tr].
      destruct (Nat.eqb f p && Nat.eqb t c) eqn:A.
      { apply andb_prop in A. destruct A as [A1 A2]. apply Nat.eqb_eq in A1, A2. subst. now elim Ne. }
      destruct (Nat.eqb f c && Nat.eqb t p) eqn:B; [|reflexivity].
      apply andb_prop in B. destruct B as [B1 B2]. apply Nat.eqb_eq in B1, B2. subst. elim (X p c He E1).
  - simpl in G. apply edge_in_In in G. pose proof (edge_pos root es t f T G) as L.
    assert (L' : Nat.ltb (posn (order root es) f) (posn (order root es) t) = false) by (apply Nat.ltb_ge; lia). rewrite L'.
    assert (Nft : Nat.eqb f t = false). { apply Nat.eqb_neq. intros ->. lia. }
    rewrite (collapse (fun c => memb b (desc es c)) (fun e => w_tr (f, t, s) (fst e) (snd e)) (t, f) (rev es) N).
    + cbn [fst snd w_tr]. rewrite Nft, !Nat.eqb_refl. reflexivity.
    + now apply in_rev in G.
    + intros [p c] He Ne. apply in_rev in He. cbn [fst snd w_tr].
      destruct (Nat.eqb f p && Nat.eqb t c) eqn:A.
      { apply andb_prop in A. destruct A as [A1 A2]. apply Nat.eqb_eq in A1, A2. subst. elim (X p c He G). }
      destruct (Nat.eqb f c && Nat.eqb t p) eqn:B; [|reflexivity].
      apply andb_prop in B. destruct B as [B1 B2]. apply Nat.eqb_eq in B1, B2. subst. now elim Ne.
Qed.

(* ---- the post-rotation equals the cumulative shift along the tree path, for every set of phase-shifting branches *)
Lemma non_tree_zero es f t s (h : nat -> bool) : edge_in f t es || edge_in t f es = false ->
  qsum (map (fun e : edge => if h (snd e) then w_tr (f, t, s) (fst e) (snd e) else 0) (rev es)) == 0.
Proof.
  intros N. apply orb_false_elim in N. destruct N as [N1 N2]. apply sum_zero. intros [p c] He. apply in_rev in He. cbn [fst snd w_tr].
  destruct (Nat.eqb f p && Nat.eqb t c) eqn:A.
  { apply andb_prop in A. destruct A as [A1 A2]. apply Nat.eqb_eq in A1, A2. subst. apply edge_in_In in He. congruence. }
  destruct (Nat.eqb f c && Nat.eqb t p) eqn:B; [|reflexivity].
  apply andb_prop in B. destruct B as [B1 B2]. apply Nat.eqb_eq in B1, B2. subst. apply edge_in_In in He. congruence.
Qed.
Theorem rot_eq_path root es trafos b : tree_ok root es = true -> rot_impl root es trafos b == path_shift es trafos b.
Proof.
  intros T. unfold rot_impl, path_shift. rewrite (path_as_sum _ root (rev es) T b). rewrite rev_involutive. unfold w_of.
  rewrite (exchange (dict_of trafos) (fun e => memb b (desc es (snd e))) (fun tr e => w_tr tr (fst e) (snd e))).
  apply qsum_map_ext. intros [[f t] s] I. symmetry. unfold is_tree. cbn [fst snd].
  destruct (edge_in f t es || edge_in t f es) eqn:E.
  - apply one_trafo; assumption.
  - apply (non_tree_zero es f t s (fun c => memb b (desc es c)) E).
Qed.

(* the code before the repair: equal to the path shift only under G06t ... *)
Theorem rot_old_eq_path root es trafos b : tree_ok root es = true -> G06t es trafos = true ->
  exists r, rot_impl_old root es trafos b = Some r /\ r == path_shift es trafos b.
Proof.
  intros T G. unfold G06t in G. rewrite forallb_forall in G. unfold rot_impl_old. cbv zeta.
  assert (Inord : forall x y, In (x, y) es -> In x (order root es) /\ In y (order root es)).
  { intros x y I. split.
    - pose proof (ok_parents root _ T (x, y) (proj1 (in_rev _ _) I)) as P. simpl in P. unfold order. simpl.
      destruct P as [P|P]; auto. right. rewrite map_rev in P. now apply in_rev in P.
    - unfold order. simpl. right. change y with (snd (x, y)). now apply in_map. }
  assert (F : forallb (fun tr : trafo => memb (fst (fst tr)) (order root es) && memb (snd (fst tr)) (order root es)) (dict_of trafos) = true).
  { apply forallb_forall. intros [[f t] s] I. specialize (G _ I). unfold is_tree in G. cbn [fst snd] in *. apply orb_prop in G.
    destruct G as [G|G]; apply edge_in_In, Inord in G; destruct G as [G1 G2]; apply andb_true_intro; split; now apply memb_In. }
  rewrite F. eexists. split; [reflexivity|].
  rewrite <- (rot_eq_path root es trafos b T). unfold rot_impl. apply qsum_map_ext. intros tr I. now rewrite (G _ I).
Qed.

(* ... and wrong without it: a phase-shifting branch that closes a loop.  Buses 0 (root), 1, 2, 3; tree 0-1, 0-2, 2-3;
   30-degree transformers 0 -> 2 (tree branch) and 1 -> 2 (closes the loop 0-1-2): the sub-tree of bus 2 was rotated twice *)
Theorem rot_old_chord_refuted : exists root es trafos b r, tree_ok root es = true /\ rot_impl_old root es trafos b = Some r /\
  ~ r == path_shift es trafos b.
Proof.
  exists 0%nat, [(0, 1); (0, 2); (2, 3)]%nat, [(0%nat, 2%nat, 30); (1%nat, 2%nat, 30)], 3%nat, (-60).
  split; [reflexivity|]. split; [reflexivity|]. vm_compute. discriminate.
Qed.

Example rot_nonvacuous :
  let es := [(0, 1); (0, 2); (2, 3)]%nat in let trafos := [(0%nat, 2%nat, 30); (1%nat, 2%nat, 30); (1%nat, 2%nat, 30)] in
  tree_ok 0 es = true /\ G06t es trafos = false /\ rot_impl 0 es trafos 3 == -30 /\ rot_impl 0 es trafos 1 == 0 /\
  path_shift es trafos 3 == -30.
Proof. repeat split; reflexivity. Qed.
