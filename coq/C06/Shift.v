(* C06/Shift.v — model of the phase-shift post-rotation of pandapower/pf/run_bfswpf.py _run_bfswpf (:416-442) for one
   island (one reference bus): the sweep runs on a Ybus without phase shifts, afterwards for every phase-shifting branch
   the buses of one sub-tree of the BFS spanning tree are rotated by +/- its SHIFT:
     trafos_shift = dict(zip(zip(F_BUS, T_BUS), SHIFT))          over the branches with SHIFT != 0 (later rows win)
     for (f, t), shift in trafos_shift.items():
         if argwhere(buses_ordered_bfs == f) < argwhere(buses_ordered_bfs == t): lv_bus = t; shift *= -1
         else:                                                                   lv_bus = f
         V_final[breadth_first_order(G_tree, lv_bus, directed=True)] *= exp(1j*pi/180*shift)
   Rotations compose by adding their angles, so the model is the total angle (degrees, Q) added to each bus.
   Inputs: the BFS tree as the list of its branches (parent, child) in BFS order — zip(pred[order[1:]], order[1:]) of
   csgraph.breadth_first_order, so buses_ordered_bfs = root :: children — and the shifting branches (f, t, SHIFT) in
   branch order.  Executable definitions only. *)
From Coq Require Import ZArith QArith List Bool Arith.
From PPV Require Import Base.Out Base.QN C06.Pfsoln.
Import ListNotations.
Open Scope Q_scope.

Definition edge := (nat * nat)%type.
Definition trafo := (nat * nat * Q)%type.
Definition memb (x : nat) (l : list nat) : bool := existsb (Nat.eqb x) l.

(* buses below x in the tree (breadth_first_order(G_tree, x, directed=True)); one pass suffices because in BFS order the
   branch into a bus precedes the branches out of it *)
Definition desc_step (S : list nat) (e : edge) : list nat := if memb (fst e) S then snd e :: S else S.
Definition desc (es : list edge) (x : nat) : list nat := fold_left desc_step es [x].

Definition order (root : nat) (es : list edge) : list nat := root :: map snd es.
(* position of the first occurrence (length when absent) *)
Fixpoint posn (l : list nat) (x : nat) : nat :=
  match l with [] => O | y :: t => if Nat.eqb x y then O else S (posn t x) end.

Definition same_key (a b : trafo) : bool := Nat.eqb (fst (fst a)) (fst (fst b)) && Nat.eqb (snd (fst a)) (snd (fst b)).
(* python dict built from a list of (key, value): one entry per key, the last value *)
Fixpoint dict_of (l : list trafo) : list trafo :=
  match l with
  | [] => []
  | a :: r => if existsb (same_key a) r then dict_of r else a :: dict_of r
  end.

(* angle added to bus b by one dict entry *)
Definition contrib (root : nat) (es : list edge) (tr : trafo) (b : nat) : Q :=
  let '(f, t, s) := tr in
  let '(lv, s') := if Nat.ltb (posn (order root es) f) (posn (order root es) t) then (t, qopp s) else (f, s) in
  if memb b (desc es lv) then s' else 0.
Definition edge_in (p c : nat) (es : list edge) : bool := existsb (fun e : edge => Nat.eqb (fst e) p && Nat.eqb (snd e) c) es.
(* after "fix: bfsw applies the phase shift of a loop-closing transformer only once":
     if G_tree[f, t] == 0 and G_tree[t, f] == 0: continue
   a shifting branch that is not a branch of the spanning tree is skipped (G_tree = breadth_first_tree holds parent -> child) *)
Definition is_tree (es : list edge) (tr : trafo) : bool :=
  edge_in (fst (fst tr)) (snd (fst tr)) es || edge_in (snd (fst tr)) (fst (fst tr)) es.
Definition rot_impl (root : nat) (es : list edge) (trafos : list trafo) (b : nat) : Q :=
  qsum (map (fun tr => if is_tree es tr then contrib root es tr b else 0) (dict_of trafos)).
(* the code before the repair rotated for every entry.  None: a shifting branch with an end outside this island's BFS
   order (argwhere returns an empty array) *)
Definition rot_impl_old (root : nat) (es : list edge) (trafos : list trafo) (b : nat) : option Q :=
  let d := dict_of trafos in
  if forallb (fun tr : trafo => memb (fst (fst tr)) (order root es) && memb (snd (fst tr)) (order root es)) d
  then Some (qsum (map (fun tr => contrib root es tr b) d)) else None.

(* ---- specification: the cumulative shift along the tree path from the root.
   Shift of a tree branch parent p -> child c: a transformer with hv side f = p lags the child by SHIFT, one with hv side
   f = c leads it *)
Definition w_tr (tr : trafo) (p c : nat) : Q :=
  let '(f, t, s) := tr in
  if Nat.eqb f p && Nat.eqb t c then qopp s else if Nat.eqb f c && Nat.eqb t p then s else 0.
Definition w_of (d : list trafo) (p c : nat) : Q := qsum (map (fun tr => w_tr tr p c) d).
(* walk from b up to the root over the reversed branch list, adding the shift of each branch on the way:
   path (root) = 0,  path (c) = path (p) + shift (p, c) for the tree branch p -> c *)
Fixpoint path_rev (w : nat -> nat -> Q) (r : list edge) (b : nat) : Q :=
  match r with
  | [] => 0
  | (p, c) :: r' => if Nat.eqb b c then qadd (path_rev w r' p) (w p c) else path_rev w r' b
  end.
Definition path_shift (es : list edge) (trafos : list trafo) (b : nat) : Q := path_rev (w_of (dict_of trafos)) (rev es) b.

(* the branch list is a tree rooted at root in BFS order: every parent is the root or an earlier child, every child new *)
Fixpoint ok_rev (root : nat) (r : list edge) : bool :=
  match r with
  | [] => true
  | (p, c) :: r' => memb p (root :: map snd r') && negb (memb c (root :: map snd r')) && ok_rev root r'
  end.
Definition tree_ok (root : nat) (es : list edge) : bool := ok_rev root (rev es).
(* guard needed by the code before the repair: every phase-shifting branch is a branch of the spanning tree *)
Definition G06t (es : list edge) (trafos : list trafo) : bool := forallb (is_tree es) (dict_of trafos).

(* ---- Run wrapper: per bus of the BFS order (impl rotation, path shift, rotation before the repair), and the guards *)
Definition run_shift (root : nat) (es : list edge) (trafos : list trafo) : out :=
  OL [olist (fun b => OL [onat b; oq (rot_impl root es trafos b); oq (path_shift es trafos b);
                          oopt oq (rot_impl_old root es trafos b)]) (order root es);
      OB (tree_ok root es); OB (G06t es trafos)].
