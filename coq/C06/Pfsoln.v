(* C06/Pfsoln.v — model of the three result-extraction variants that Newton-Raphson can end with, and of the guard that
   selects between them:
     pandapower/pypower/pfsoln.py  pfsoln                      (numba off)
     pandapower/pf/pfsoln_numba.py pfsoln                      (numba on, general)
     pandapower/pf/pfsoln_numba.py pf_solution_single_slack    (numba on, "only one slack is in the grid and no gens")
     pandapower/pf/run_newton_raphson_pf.py:120-136 _get_numba_functions   (the selection)
   Inputs are what the three functions receive: baseMVA, the bus rows (PD QD GS BS and the ZIP columns), per branch the
   from/to bus and its four entries of Yf / Yt (Yf[br, f], Yf[br, t], Yt[br, f], Yt[br, t]), the complex voltage V, and
   the bus of the single generator row (the model of the slack update is the specialisation of _update_q/_update_p to
   gen.shape[0] == 1: on = [0], gbus = [slack], the "len(on) > 1" splitting block is skipped, ref = [slack]).
   Ybus is not an input: it is Cf.T*Yf + Ct.T*Yt + diag((GS + jBS)/baseMVA) (pypower/makeYbus.py:63-64, the same in
   pf/makeYbus_numba.py) — the harness checks this structure on the real Ybus.  No FACTS rows (svc/tcsc/ssc/vsc empty:
   their terms in pf_solution_single_slack are sums over empty tables).  abs(V) (a square root) is the oracle input p_vm,
   used only by voltage dependent loads.
   Executable definitions only. *)
From Coq Require Import String ZArith QArith List Bool Arith.
From PPV Require Import Base.Out Base.QN Base.QC.
Import ListNotations.
Open Scope Q_scope.

Record brow := { b_f : nat; b_t : nat; yff : C; yft : C; ytf : C; ytt : C }.
Record busrow := { pd : Q; qd : Q; gs : Q; bs : Q; ci_p : Q; cz_p : Q; ci_q : Q; cz_q : Q }.
Record ppc := { p_base : Q; p_bus : list busrow; p_br : list brow; p_V : list C; p_vm : list Q; p_slack : nat }.

Definition row0 : busrow := {| pd := 0; qd := 0; gs := 0; bs := 0; ci_p := 0; cz_p := 0; ci_q := 0; cz_q := 0 |}.
Definition nb (p : ppc) : nat := length (p_bus p).
(* indices in range, vectors of the right length: otherwise numpy raises IndexError / ValueError *)
Definition wf (p : ppc) : bool :=
  Nat.ltb (p_slack p) (nb p) && Nat.eqb (length (p_V p)) (nb p) && Nat.eqb (length (p_vm p)) (nb p)
  && forallb (fun br => Nat.ltb (b_f br) (nb p) && Nat.ltb (b_t br) (nb p)) (p_br p).

Definition vat (p : ppc) (k : nat) : C := nth k (p_V p) C0.
Definition row (p : ppc) (k : nat) : busrow := nth k (p_bus p) row0.
Definition qsum (l : list Q) : Q := fold_right qadd 0 l.

(* rows of Yf*V and Yt*V *)
Definition i_f (p : ppc) (br : brow) : C := Cadd (Cmul (yff br) (vat p (b_f br))) (Cmul (yft br) (vat p (b_t br))).
Definition i_t (p : ppc) (br : brow) : C := Cadd (Cmul (ytf br) (vat p (b_f br))) (Cmul (ytt br) (vat p (b_t br))).
(* pypower/pfsoln.py:65-67  Sf = V[f] * conj(Yf[br, :] * V) * baseMVA *)
Definition sf_mat (p : ppc) (br : brow) : C := Cscale (p_base p) (Cmul (vat p (b_f br)) (Cconj (i_f p br))).
Definition st_mat (p : ppc) (br : brow) : C := Cscale (p_base p) (Cmul (vat p (b_t br)) (Cconj (i_t p br))).
(* pf/pfsoln_numba.py:127-140 calc_branch_flows: Sx[r] += conj(Y[k]*v[j])*baseMVA over the row, then Sx *= v[bus_ind] *)
Definition sf_nb (p : ppc) (br : brow) : C :=
  Cmul (Cadd (Cscale (p_base p) (Cconj (Cmul (yff br) (vat p (b_f br))))) (Cscale (p_base p) (Cconj (Cmul (yft br) (vat p (b_t br))))))
       (vat p (b_f br)).
Definition st_nb (p : ppc) (br : brow) : C :=
  Cmul (Cadd (Cscale (p_base p) (Cconj (Cmul (ytf br) (vat p (b_f br))))) (Cscale (p_base p) (Cconj (Cmul (ytt br) (vat p (b_t br))))))
       (vat p (b_t br)).

(* (Ybus * V)[k] with Ybus = Cf.T*Yf + Ct.T*Yt + diag(Ysh), Ysh = (GS + 1j*BS)/baseMVA *)
Definition ysh (p : ppc) (k : nat) : C := mkC (qdiv (gs (row p k)) (p_base p)) (qdiv (bs (row p k)) (p_base p)).
Definition ybusv (p : ppc) (k : nat) : C :=
  Cadd (Cadd (Csum (map (fun br => if Nat.eqb (b_f br) k then i_f p br else C0) (p_br p)))
             (Csum (map (fun br => if Nat.eqb (b_t br) k then i_t p br else C0) (p_br p))))
       (Cmul (ysh p k) (vat p k)).
(* pfsoln.py:46  Sbus = V * conj(Ybus * V - Ibus), Ibus = 0 *)
Definition sbus (p : ppc) (k : nat) : C := Cmul (vat p k) (Cconj (ybusv p k)).

(* pypower/makeSbus.py:23-37 _get_Sload(bus, vm): vm = None unless voltage_depend_loads *)
Definition zipf (ci cz vm : Q) : Q := qadd (qadd (qsub (qsub 1 ci) cz) (qmul ci vm)) (qmul cz (qmul vm vm)).
Definition sload_p (vdl : bool) (r : busrow) (vm : Q) : Q := if vdl then qmul (pd r) (zipf (ci_p r) (cz_p r) vm) else pd r.
Definition sload_q (vdl : bool) (r : busrow) (vm : Q) : Q := if vdl then qmul (qd r) (zipf (ci_q r) (cz_q r) vm) else qd r.

(* _update_q (pfsoln.py:124-128): gen[on, QG] = Sbus[gbus].imag*baseMVA + qd[gbus];
   _update_p (:104-120): p_bus = Sbus[slack_bus].real*baseMVA + pd[slack_bus]; gen[gens_at_bus[0], PG] = p_bus.
   Both numba-off and the general numba-on variant call these same two functions. *)
Definition slack_std (p : ppc) (vdl : bool) : Q * Q :=
  let s := p_slack p in let vm := nth s (p_vm p) 0 in
  (qadd (qmul (re (sbus p s)) (p_base p)) (sload_p vdl (row p s) vm),
   qadd (qmul (im (sbus p s)) (p_base p)) (sload_q vdl (row p s) vm)).
(* pf_solution_single_slack (pfsoln_numba.py:88-101): gen[:, PG] = branch[:, [PF, PT]].sum() + bus[:, PD].sum() (+ 0 FACTS) *)
Definition slack_single (p : ppc) : Q * Q :=
  (qadd (qsum (map (fun br => qadd (re (sf_nb p br)) (re (st_nb p br))) (p_br p))) (qsum (map pd (p_bus p))),
   qadd (qsum (map (fun br => qadd (im (sf_nb p br)) (im (st_nb p br))) (p_br p))) (qsum (map qd (p_bus p)))).

Inductive variant := VPypower | VNumba | VSingle.
(* run_newton_raphson_pf.py:120-136; numba = options["numba"] and numba_installed; ngen = ppci["gen"].shape[0] *)
Definition select (numba : bool) (ngen : nat) (vdl dist : bool) (buses : list busrow) : variant :=
  if numba then
    let shunt_in_net := existsb (fun r => negb (qeqb (bs r) 0)) buses || existsb (fun r => negb (qeqb (gs r) 0)) buses in
    if Nat.eqb ngen 1 && negb vdl && negb dist && negb shunt_in_net then VSingle else VNumba
  else VPypower.
(* the guard as the property text states it: one generator row (the ext_grid), no voltage dependent loads, no distributed
   slack, no bus conductance / susceptance *)
Definition G06s (ngen : nat) (vdl dist : bool) (buses : list busrow) : bool :=
  Nat.eqb ngen 1 && negb vdl && negb dist && forallb (fun r => qeqb (gs r) 0 && qeqb (bs r) 0) buses.

Definition slack_of (v : variant) (p : ppc) (vdl : bool) : Q * Q :=
  match v with VSingle => slack_single p | _ => slack_std p vdl end.
(* branch[:, [PF, QF, PT, QT]] written by the variant *)
Definition flows_of (v : variant) (p : ppc) : list (C * C) :=
  match v with
  | VPypower => map (fun br => (sf_mat p br, st_mat p br)) (p_br p)
  | _ => map (fun br => (sf_nb p br, st_nb p br)) (p_br p)
  end.

(* power-flow mismatch of bus k in MVA: baseMVA*Sbus[k] + (PD + jQD)[k]  (no generator at k) *)
Definition mis (p : ppc) (k : nat) : C := Cadd (Cscale (p_base p) (sbus p k)) (mkC (pd (row p k)) (qd (row p k))).

(* ---- Run wrappers *)
Definition ovariant (v : variant) : out :=
  match v with VPypower => OS "pfsoln_pypower"%string | VNumba => OS "pfsoln_numba"%string | VSingle => OS "pf_solution_single_slack"%string end.
Definition run_select (numba : bool) (ngen : nat) (vdl dist : bool) (buses : list busrow) : out :=
  OL [ovariant (select numba ngen vdl dist buses); OB (G06s ngen vdl dist buses)].
Definition run_pfsoln (v : variant) (p : ppc) (vdl : bool) : out :=
  if wf p then
    OL [oq (fst (slack_of v p vdl)); oq (snd (slack_of v p vdl));
        olist (fun ft : C * C => OL [oq (re (fst ft)); oq (im (fst ft)); oq (re (snd ft)); oq (im (snd ft))]) (flows_of v p)]
  else OErr "IndexError"%string.
Definition run_mis (p : ppc) : out := if wf p then olist (fun k => oc (mis p k)) (seq 0 (nb p)) else OErr "IndexError"%string.
