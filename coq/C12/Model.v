(* C12 — faithful model of the recycling / batch-reading shortcuts of run_timeseries
     pandapower/control/controller/const_control.py   ConstControl.set_recycle (:76-96)
     pandapower/control/controller/trafo_control.py   TrafoController.set_recycle (:176-186)
     pandapower/timeseries/run_time_series.py         _check_controller_recyclability (:146-166),
                                                      _check_output_writer_recyclability (:169-203)
     pandapower/run.py (:216-218) + pandapower/powerflow.py _recycled_powerflow (:73-133)
     pandapower/pf/run_newton_raphson_pf.py           _get_Y_bus (:105-114), _get_Sbus (:139-145)
     pandapower/timeseries/output_writer.py           get_batch_outputs (:556-589)
   The ppc is split into parts; [deps] is the finite table "which part is computed from net[element][variable]"
   (build_bus.py / build_branch.py / build_gen.py; re-derived from the code and compared on every run).  Executable definitions only. *)
From Coq Require Import List Bool String ZArith.
From PPV Require Import Base.Out.
Import ListNotations.
Open Scope string_scope.

Inductive part := PBusPQ | PGen | PBrTrafo | PBrLine | PBrOther | PShunt | PTopo | PYbus | PSbus.
Definition part_eqb (a b : part) : bool :=
  match a, b with
  | PBusPQ, PBusPQ | PGen, PGen | PBrTrafo, PBrTrafo | PBrLine, PBrLine | PBrOther, PBrOther
  | PShunt, PShunt | PTopo, PTopo | PYbus, PYbus | PSbus, PSbus => true
  | _, _ => false
  end.
Definition all_parts : list part := [PBusPQ; PGen; PBrTrafo; PBrLine; PBrOther; PShunt; PTopo; PYbus; PSbus].
Definition memp (p : part) (l : list part) : bool := existsb (part_eqb p) l.
Definition mems (s : string) (l : list string) : bool := existsb (String.eqb s) l.

(* ---------------------------------------------------------------- the dependency table *)
(* base parts of the ppc computed from net[e][v]; [] = not read for the power flow (results / OPF / short circuit only).
   One row = (element tables, columns, parts).  The table is compared on EVERY run of the check with a table derived
   mechanically from the real code (harness/vf/c12_deps.py: perturb the cell, rebuild the ppc with a fresh _pd2ppc, diff the
   ppc columns the Newton-Raphson power flow reads; pandas access trace as a superset witness) over the whole [domain].
   "part P is computed from (e, v)" is meant as observed there: changing net[e][v] changes the ppc rows / columns of P.  For the
   topology-like columns (in_service, bus references, net.bus, net.switch) the parts next to PTopo are the knock-on effects
   (BR_STATUS of the element's own rows, per-bus sums moving to another bus, base voltage of the connected branches). *)
Definition deps_rows : list (list string * list string * list part) :=
  [ (["load"], ["p_mw"; "q_mvar"; "scaling"; "const_z_p_percent"; "const_i_p_percent"; "const_z_q_percent"; "const_i_q_percent";
               "in_service"; "bus"], [PBusPQ]);                                     (* build_bus.py _calc_pq_elements_and_add_on_ppc *)
    (["sgen"; "storage"], ["p_mw"; "q_mvar"; "scaling"; "in_service"; "bus"], [PBusPQ]);
    (["gen"], ["p_mw"; "vm_pu"; "scaling"; "min_q_mvar"; "max_q_mvar"], [PGen]);      (* build_gen.py _build_pp_gen *)
    (["gen"], ["in_service"; "bus"], [PGen; PTopo]);
    (["gen"], ["slack"], [PTopo]);                                                  (* bus type REF instead of PV *)
    (["ext_grid"], ["vm_pu"; "va_degree"], [PGen]);                                  (* build_gen.py _build_pp_ext_grid *)
    (["ext_grid"], ["in_service"; "bus"], [PGen; PTopo]);
    (["trafo"], ["tap_pos"; "vk_percent"; "vkr_percent"; "pfe_kw"; "i0_percent"; "sn_mva"; "parallel"; "tap_step_percent"; "shift_degree";
                "vn_hv_kv"; "vn_lv_kv"; "tap_side"; "tap_neutral"; "tap_step_degree"; "tap_changer_type"; "id_characteristic_table";
                "tap_dependency_table"], [PBrTrafo]);                               (* build_branch.py _calc_trafo_parameter; df: results only *)
    (["trafo"], ["in_service"; "hv_bus"; "lv_bus"], [PBrTrafo; PTopo]);
    (["trafo3w"], ["tap_pos"; "vk_hv_percent"; "vk_mv_percent"; "vk_lv_percent"; "vkr_hv_percent"; "vkr_mv_percent"; "vkr_lv_percent";
                  "sn_hv_mva"; "sn_mv_mva"; "sn_lv_mva"; "vn_hv_kv"; "vn_mv_kv"; "vn_lv_kv"; "pfe_kw"; "i0_percent"; "shift_mv_degree";
                  "shift_lv_degree"; "tap_side"; "tap_neutral"; "tap_step_percent"; "tap_step_degree"; "tap_at_star_point"; "tap_changer_type";
                  "id_characteristic_table"; "tap_dependency_table"], [PBrTrafo]);   (* _calc_trafo3w_parameter, _trafo_df_from_trafo3w *)
    (["trafo3w"], ["in_service"; "hv_bus"; "mv_bus"; "lv_bus"], [PBrTrafo; PTopo]);
    (["line"], ["length_km"; "r_ohm_per_km"; "x_ohm_per_km"; "c_nf_per_km"; "g_us_per_km"; "parallel"], [PBrLine]);
                                                                                    (* _calc_line_parameter; max_i_ka, df: results only *)
    (["line"], ["in_service"; "from_bus"], [PBrLine; PTopo]);                        (* from_bus: base impedance of the row *)
    (["line"], ["to_bus"], [PTopo]);
    (["shunt"], ["q_mvar"; "p_mw"; "step"; "in_service"; "vn_kv"; "bus"], [PShunt]);  (* build_bus.py _calc_shunts_and_add_on_ppc *)
    (["ward"], ["ps_mw"; "qs_mvar"], [PBusPQ]);
    (["ward"], ["pz_mw"; "qz_mvar"], [PShunt]);
    (["ward"], ["in_service"; "bus"], [PBusPQ; PShunt]);
    (["impedance"], ["rft_pu"; "xft_pu"; "rtf_pu"; "xtf_pu"; "gf_pu"; "bf_pu"; "gt_pu"; "bt_pu"; "sn_mva"], [PBrOther]);
                                                                                    (* _calc_impedance_parameter *)
    (["impedance"], ["in_service"], [PBrOther; PTopo]);
    (["impedance"], ["from_bus"; "to_bus"], [PTopo]);
    (["bus"], ["vn_kv"], [PBrTrafo; PBrLine; PBrOther; PShunt]);                     (* BASE_KV: per-unit values of the connected rows *)
    (["bus"], ["in_service"], [PBusPQ; PGen; PBrOther; PShunt; PTopo]);
    (["switch"], ["bus"; "et"; "closed"; "z_ohm"], [PBusPQ; PGen; PBrOther; PTopo]);   (* bus fusing, auxiliary buses, switch branch rows *)
    (["switch"], ["element"], [PBusPQ; PBrOther; PTopo]) ].
Definition row_matches (e v : string) (r : list string * list string * list part) : bool :=
  mems e (fst (fst r)) && mems v (snd (fst r)).
Definition deps (e v : string) : list part :=
  match find (row_matches e v) deps_rows with Some r => snd r | None => [] end.

(* derived parts and what they are assembled from (makeYbus: branch rows, bus shunts, topology; makeSbus: bus PD/QD, gen) *)
Definition sources (p : part) : list part :=
  match p with
  | PYbus => [PBrTrafo; PBrLine; PBrOther; PShunt; PTopo]
  | PSbus => [PBusPQ; PGen; PTopo]
  | _ => []
  end.

(* the domain of the exhaustive theorems: 13 element tables x 81 columns = 1053 pairs: every (element, variable) named in
   [deps_rows] (proved: Proofs.deps_in_domain), every column the access trace sees read inside a ppc build function, plus
   result-only and unknown ones *)
Definition domain_elements : list string :=
  ["load"; "sgen"; "storage"; "gen"; "ext_grid"; "trafo"; "trafo3w"; "line"; "shunt"; "ward"; "impedance"; "bus"; "switch"].
Definition domain_columns : list string :=
    ["p_mw"; "q_mvar"; "scaling"; "const_z_p_percent"; "const_i_p_percent"; "const_z_q_percent"; "const_i_q_percent"; "in_service"; "sn_mva";
     "vm_pu"; "va_degree"; "min_q_mvar"; "max_q_mvar"; "tap_pos"; "vk_percent"; "vkr_percent"; "pfe_kw"; "i0_percent"; "parallel";
     "tap_step_percent"; "shift_degree"; "df"; "vk_hv_percent"; "vk_mv_percent"; "vk_lv_percent"; "vkr_hv_percent";
     "length_km"; "r_ohm_per_km"; "x_ohm_per_km"; "c_nf_per_km"; "g_us_per_km"; "max_i_ka"; "step"; "ps_mw"; "qs_mvar"; "pz_mw"; "qz_mvar";
     "rft_pu"; "xft_pu"; "rtf_pu"; "xtf_pu"; "name"; "max_loading_percent";
     "bus"; "hv_bus"; "mv_bus"; "lv_bus"; "from_bus"; "to_bus"; "vn_kv"; "vn_hv_kv"; "vn_mv_kv"; "vn_lv_kv"; "tap_side"; "tap_neutral";
     "tap_min"; "tap_max"; "tap_step_degree"; "tap_changer_type"; "id_characteristic_table"; "tap_dependency_table"; "tap_at_star_point";
     "sn_hv_mva"; "sn_mv_mva"; "sn_lv_mva"; "vkr_mv_percent"; "vkr_lv_percent"; "shift_mv_degree"; "shift_lv_degree";
     "gf_pu"; "bf_pu"; "gt_pu"; "bt_pu"; "slack"; "slack_weight"; "max_step"; "step_dependency_table"; "element"; "et"; "closed"; "z_ohm"].
Definition domain : list (string * string) :=
  flat_map (fun e => map (fun v => (e, v)) domain_columns) domain_elements.

(* ---------------------------------------------------------------- recycle flags *)
Record flags := { f_trafo : bool; f_gen : bool; f_bus_pq : bool }.
(* ConstControl.set_recycle (after "fix: ConstControl only claims the recycle flag trafo for transformer parameters");
   [user_off] = the controller was created with recycle=False; None = recycle False *)
Definition set_recycle_const (user_off : bool) (e v : string) : option flags :=
  if user_off || negb (mems e ["load"; "sgen"; "storage"; "gen"; "ext_grid"; "trafo"; "trafo3w"]) then None
  else
    let bus_pq := mems e ["sgen"; "load"; "storage"] && mems v ["p_mw"; "q_mvar"; "scaling"] in
    let gen := (e =? "gen") && mems v ["p_mw"; "vm_pu"; "scaling"] || (e =? "ext_grid") && mems v ["vm_pu"; "va_degree"] in
    let trafo := mems e ["trafo"; "trafo3w"] && negb (mems v ["in_service"; "hv_bus"; "mv_bus"; "lv_bus"]) in
    if trafo || gen || bus_pq then Some {| f_trafo := trafo; f_gen := gen; f_bus_pq := bus_pq |} else None.
(* the rule before the repair: every column of line / trafo / trafo3w claimed the flag "trafo" *)
Definition set_recycle_const_old (user_off : bool) (e v : string) : option flags :=
  if user_off || negb (mems e ["load"; "sgen"; "storage"; "gen"; "ext_grid"; "trafo"; "trafo3w"; "line"]) then None
  else
    let bus_pq := mems e ["sgen"; "load"; "storage"] && mems v ["p_mw"; "q_mvar"; "scaling"] in
    let gen := (e =? "gen") && mems v ["p_mw"; "vm_pu"; "scaling"] || (e =? "ext_grid") && mems v ["vm_pu"; "va_degree"] in
    let trafo := mems e ["trafo"; "trafo3w"; "line"] in
    if trafo || gen || bus_pq then Some {| f_trafo := trafo; f_gen := gen; f_bus_pq := bus_pq |} else None.
(* TrafoController.set_recycle *)
Definition set_recycle_trafo (user_off : bool) (e : string) : option flags :=
  if user_off || negb (mems e ["trafo"; "trafo3w"]) then None
  else Some {| f_trafo := true; f_gen := false; f_bus_pq := false |}.

Inductive ctrl :=
| CConst (user_off : bool) (e v : string)     (* ConstControl on net[e][v] *)
| CTap (user_off : bool) (e : string)         (* a TrafoController subclass writing net[e].tap_pos *)
| COther (e v : string).                      (* any other controller class: recycle False (basic_controller.py:174) *)
Definition ctrl_flags (c : ctrl) : option flags :=
  match c with CConst u e v => set_recycle_const u e v | CTap u e => set_recycle_trafo u e | COther _ _ => None end.
Definition ctrl_flags_old (c : ctrl) : option flags :=
  match c with CConst u e v => set_recycle_const_old u e v | CTap u e => set_recycle_trafo u e | COther _ _ => None end.
Definition ctrl_writes (c : ctrl) : string * string :=
  match c with CConst _ e v => (e, v) | CTap _ e => (e, "tap_pos") | COther e v => (e, v) end.

(* _check_controller_recyclability: OR of the flags, False as soon as one controller is not recyclable *)
Fixpoint combine (cs : list ctrl) (acc : flags) : option flags :=
  match cs with
  | [] => Some acc
  | c :: cs' =>
      match ctrl_flags c with
      | None => None
      | Some f => combine cs' {| f_trafo := f_trafo acc || f_trafo f; f_gen := f_gen acc || f_gen f;
                                  f_bus_pq := f_bus_pq acc || f_bus_pq f |}
      end
  end.
Definition no_flags : flags := {| f_trafo := false; f_gen := false; f_bus_pq := false |}.
Definition recyclability (cs : list ctrl) : option flags := combine cs no_flags.

(* ---------------------------------------------------------------- one recycled power flow *)
(* freshness state: fr p = the cached part p equals what a fresh pd2ppc would compute from the tables now *)
Definition fstate := part -> bool.
Definition all_fresh : fstate := fun _ => true.
(* a controller wrote net[e][v] (time_step / control_step) *)
Definition write_m (m : part -> bool) (fr : fstate) : fstate :=
  fun p => fr p && negb (m p) && negb (existsb m (sources p)).
Definition write (ev : string * string) (fr : fstate) : fstate :=
  write_m (fun p => memp p (deps (fst ev) (snd ev))) fr.
(* _recycled_powerflow + _get_Y_bus + _get_Sbus: which parts are rebuilt from the tables under the flags *)
Definition rebuilt_base (f : flags) (p : part) : bool :=
  match p with
  | PBusPQ => f_bus_pq f          (* _calc_pq_elements_and_add_on_ppc *)
  | PBrTrafo => f_trafo f         (* _calc_trafo_parameter, _calc_trafo3w_parameter -- lines are NOT rebuilt *)
  | PGen => f_gen f               (* _build_gen_ppc *)
  | _ => false
  end.
Definition recycled_pf (f : flags) (fr : fstate) : fstate :=
  let base := fun p => fr p || rebuilt_base f p in
  fun p =>
    match p with
    | PYbus => if f_trafo f then forallb base (sources PYbus) else fr PYbus
    | PSbus => if f_bus_pq f || f_gen f then forallb base (sources PSbus) else fr PSbus
    | _ => base p
    end.
(* runpp as called from run_control inside run_timeseries: recycle dict and stored internals -> recycled, else full *)
Definition pf (rec : option flags) (stored : bool) (fr : fstate) : fstate :=
  match rec with
  | Some f => if stored then recycled_pf f fr else all_fresh
  | None => all_fresh
  end.
(* one time step: every controller writes its value, then the power flow; the result equals a fresh power flow of the
   tables iff every part is fresh when the solver starts *)
Definition time_step (cs : list ctrl) (stored : bool) (fr : fstate) : fstate :=
  pf (recyclability cs) stored (fold_left (fun fr c => write (ctrl_writes c) fr) cs fr).
Fixpoint run_steps (n : nat) (cs : list ctrl) (stored : bool) (fr : fstate) : list fstate :=
  match n with
  | O => []
  | S n' => let fr' := time_step cs stored fr in fr' :: run_steps n' cs true fr'
  end.
Definition solve_is_fresh (fr : fstate) : bool := forallb fr all_parts.

(* ---- histories with diverging time steps (continue_on_divergence=True): the behaviour BEFORE the two repairs named below.
   A step whose power flow raises is reported as failed (None).  Where the error surfaces decides what the next step sees:
   * inside the control loop (_evaluate_net, run_control.py:164-188) net._ppc is set to None, so the next step runs a full
     power flow;
   * in the initial run of run_control (net_initialization, :145-154: some controller has initial_run=True - every class but
     ConstControl) nothing is reset: with recycling active every later step is a recycled power flow that starts from the
     diverged internals and fails as well ("poisoned"). *)
Definition has_initial_run (cs : list ctrl) : bool :=
  existsb (fun c => match c with CConst _ _ _ => false | _ => true end) cs.
Definition poisons (cs : list ctrl) : bool :=
  has_initial_run cs && match recyclability cs with Some _ => true | None => false end.
(* ovr = only_v_results (batch reading active): _recycled_powerflow (powerflow.py:131-139) returns before _ppci_to_net, the
   only place that raises LoadflowNotConverged, so a recycled power flow that did not converge is not noticed: the step is
   recorded as if it had been solved ([SSilent]) and the internals stay in place *)
Inductive sres := SFailed | SSolved (fr : fstate) | SSilent.
Fixpoint run_steps_div_old (divs : list bool) (cs : list ctrl) (ovr stored poisoned : bool) (fr : fstate) : list sres :=
  match divs with
  | [] => []
  | d :: ds =>
      if poisoned then SFailed :: run_steps_div_old ds cs ovr stored true fr
      else if d then
        (if ovr && stored && (match recyclability cs with Some _ => true | None => false end)
         then SSilent :: run_steps_div_old ds cs ovr true false fr
         else SFailed :: run_steps_div_old ds cs ovr false (poisons cs) fr)
      else let fr' := time_step cs stored fr in SSolved fr' :: run_steps_div_old ds cs ovr true false fr'
  end.
(* after "fix: the recycled power flow reports non-convergence in the only_v_results mode, too" and "fix: a time step whose
   power flow diverged does not leave its internals for the next time step": every diverging step raises, is reported as
   failed, and net._ppc is dropped (run_time_step), so the next step runs a full power flow *)
Fixpoint run_steps_div (divs : list bool) (cs : list ctrl) (stored : bool) (fr : fstate) : list sres :=
  match divs with
  | [] => []
  | d :: ds =>
      if d then SFailed :: run_steps_div ds cs false fr
      else let fr' := time_step cs stored fr in SSolved fr' :: run_steps_div ds cs true fr'
  end.
(* G12c: a diverging step cannot poison the following ones *)
Definition G12c (cs : list ctrl) : bool := negb (poisons cs).

(* spec: a single controller is sound when what it writes is rebuilt (or recycling is off) *)
Definition sound (c : ctrl) : bool :=
  match ctrl_flags c with
  | None => true
  | Some f => solve_is_fresh (recycled_pf f (write (ctrl_writes c) all_fresh))
  end.
Definition sound_old (c : ctrl) : bool :=
  match ctrl_flags_old c with
  | None => true
  | Some f => solve_is_fresh (recycled_pf f (write (ctrl_writes c) all_fresh))
  end.
(* G12a: syntactic description of the (element, variable) pairs that were sound under the OLD rule: everything except the power-flow
   relevant columns of net.line (recycled under the flag "trafo", which rebuilds transformers only) and in_service / the bus
   columns of transformers (the branch rows are rebuilt but the topology / bus types are not) *)
Definition line_pf_vars : list string :=
  ["length_km"; "r_ohm_per_km"; "x_ohm_per_km"; "c_nf_per_km"; "g_us_per_km"; "parallel"; "in_service"; "from_bus"; "to_bus"].
Definition G12a (e v : string) : bool :=
  negb ((e =? "line") && mems v line_pf_vars) && negb ((e =? "trafo") && mems v ["in_service"; "hv_bus"; "lv_bus"])
  && negb ((e =? "trafo3w") && mems v ["in_service"; "hv_bus"; "mv_bus"; "lv_bus"]).

(* ---------------------------------------------------------------- OutputWriter: batch eligibility and batch readers *)
(* one entry of ow.log_variables: 2-tuples come from the constructor argument, entries added by log_variable() are longer *)
Record logv := { l_table : string; l_var : string; l_long : bool }.
Definition batch_tables : list string := ["res_bus"; "res_line"; "res_trafo"; "res_trafo3w"].
(* the dicts built in get_batch_outputs (output_writer.py:565-588) = batch_variables in run_time_series.py *)
Definition keys (t : string) : list string :=
  if t =? "res_line" then ["i_ka"; "i_from_ka"; "i_to_ka"; "loading_percent"]
  else if t =? "res_trafo" then ["i_ka"; "i_hv_ka"; "i_lv_ka"; "loading_percent"]
  else if t =? "res_trafo3w" then ["i_h"; "i_m"; "i_l"; "loading_percent"]
  else if t =? "res_bus" then ["vm_pu"; "va_degree"]
  else [].
(* _check_output_writer_recyclability (run_time_series.py:169-210, after "fix: batch reading of time series outputs is only
   chosen for variables the batch readers provide"); None = batch_read False (values are read from the result tables after
   every power flow); dc = the run function is rundcpp *)
Fixpoint eligible (dc f_trafo : bool) (l : list logv) : option (list (string * string)) :=
  if dc then None else
  match l with
  | [] => Some []
  | o :: l' =>
      if negb (mems (l_table o) batch_tables) || negb (mems (l_var o) (keys (l_table o))) || f_trafo || l_long o then None
      else match eligible dc f_trafo l' with
           | None => None
           | Some r => Some ((l_table o, l_var o) :: r)
           end
  end.
(* before the repair the test looked at the table only *)
Fixpoint eligible_old (dc f_trafo : bool) (l : list logv) : option (list (string * string)) :=
  if dc then None else
  match l with
  | [] => Some []
  | o :: l' =>
      if negb (mems (l_table o) batch_tables) || f_trafo || l_long o then None
      else match eligible_old dc f_trafo l' with
           | None => None
           | Some r => Some ((l_table o, l_var o) :: r)
           end
  end.
Inductive berr := KeyError | ValueError.
(* get_batch_outputs after "fix: OutputWriter.get_batch_outputs accepts several variables of the same result table":
   every table is evaluated once, the variable is looked up in its dict *)
Fixpoint batch (l : list (string * string)) : option berr :=
  match l with
  | [] => None
  | (t, v) :: l' =>
      if mems t batch_tables then (if mems v (keys t) then batch l' else Some KeyError) else Some ValueError
  end.
(* before the repair: a table already in [results] fell through to "raise ValueError('Something went wrong')" *)
Fixpoint batch_old (l : list (string * string)) (computed : list string) : option berr :=
  match l with
  | [] => None
  | (t, v) :: l' =>
      let next :=
        if (t =? "res_line") && negb (mems t computed) then Some (t :: computed)
        else if (t =? "res_trafo") && negb (mems t computed) then Some (t :: computed)
        else if t =? "res_trafo3w" then Some (t :: computed)
        else if (t =? "res_bus") && negb (mems t computed) then Some (t :: computed)
        else None in
      match next with
      | None => Some ValueError
      | Some c' => if mems v (keys t) then batch_old l' c' else Some KeyError
      end
  end.
(* what run_timeseries does with the writer at the last time step *)
Inductive wres := WPerStep | WBatchOk | WRaise (e : berr).
Definition writer (dc f_trafo : bool) (l : list logv) : wres :=
  match eligible dc f_trafo l with
  | None => WPerStep
  | Some [] => WPerStep                      (* empty batch_read list: nothing to read in batch *)
  | Some b => match batch b with None => WBatchOk | Some e => WRaise e end
  end.
Definition writer_old (dc f_trafo : bool) (l : list logv) : wres :=
  match eligible_old dc f_trafo l with
  | None => WPerStep
  | Some [] => WPerStep
  | Some b => match batch_old b [] with None => WBatchOk | Some e => WRaise e end
  end.
(* get_recycle_settings (:205-223): the writer is only looked at when the controllers are recyclable *)
Definition ts_writer (rec : option flags) (l : list logv) : wres :=
  match rec with None => WPerStep | Some f => writer false (f_trafo f) l end.
(* spec side: every requested variable is recorded instead of failing *)
Definition records_all (dc f_trafo : bool) (l : list logv) : Prop :=
  match writer dc f_trafo l with WRaise _ => False | _ => True end.
Definition records_all_old (dc f_trafo : bool) (l : list logv) : Prop :=
  match writer_old dc f_trafo l with WRaise _ => False | _ => True end.
(* G12b (old rule): the variable is one the batch dicts know, and no table other than res_trafo3w is requested twice *)
Definition keys_ok (b : list (string * string)) : bool := forallb (fun tv => mems (snd tv) (keys (fst tv))) b.
Definition once_tables (b : list (string * string)) : list string :=
  filter (fun t => negb (t =? "res_trafo3w")) (map fst b).
Fixpoint nodupb (l : list string) : bool :=
  match l with [] => true | x :: l' => negb (mems x l') && nodupb l' end.
Definition G12b (b : list (string * string)) : bool := keys_ok b && nodupb (once_tables b).

(* ---------------------------------------------------------------- output *)
Definition oflags (f : option flags) : out :=
  match f with None => ONone | Some f => OL [OB (f_trafo f); OB (f_gen f); OB (f_bus_pq f)] end.
Definition owres (w : wres) : out :=
  match w with WPerStep => OS "per_step" | WBatchOk => OS "batch"
             | WRaise KeyError => OErr "KeyError" | WRaise ValueError => OErr "ValueError" end.
(* recycle column of each controller, the combined flags, freshness of the solve in each of n steps, the writer verdict *)
Definition run_ts (cs : list ctrl) (n : nat) (l : list logv) : out :=
  let rec := recyclability cs in
  OL [ olist (fun c => oflags (ctrl_flags c)) cs;
       oflags rec;
       olist (fun fr => OB (solve_is_fresh fr)) (run_steps n cs false all_fresh);
       owres (ts_writer rec l) ].

(* with diverging steps: per step "failed" (ONone) or whether the solve was fresh *)
Definition run_ts_div (cs : list ctrl) (divs : list bool) (l : list logv) : out :=
  let rec := recyclability cs in
  OL [ olist (fun c => oflags (ctrl_flags c)) cs;
       oflags rec;
       olist (fun r => match r with SFailed => ONone | SSolved fr => OB (solve_is_fresh fr) | SSilent => OS "silent" end)
             (run_steps_div divs cs false all_fresh);
       owres (ts_writer rec l) ].

(* ---- the dependency table and the recycled power flow for the mechanical comparison (harness/vf/c12_deps.py) *)
Definition opart (p : part) : out :=
  OS (match p with PBusPQ => "PBusPQ" | PGen => "PGen" | PBrTrafo => "PBrTrafo" | PBrLine => "PBrLine" | PBrOther => "PBrOther"
             | PShunt => "PShunt" | PTopo => "PTopo" | PYbus => "PYbus" | PSbus => "PSbus" end).
(* the domain by its two axes (domain = their product by definition) and its size *)
Definition run_domain : out := OL [olist OS domain_elements; olist OS domain_columns; OZ (Z.of_nat (List.length domain))].
(* deps and the ConstControl recycle entry for a list of pairs *)
Definition run_deps (l : list (string * string)) : out :=
  olist (fun ev => OL [olist opart (deps (fst ev) (snd ev)); oflags (set_recycle_const false (fst ev) (snd ev))]) l.
(* which parts a recycled power flow under the flags rebuilds: start with only p stale, ask whether p is fresh afterwards *)
Definition rebuilt_part (f : flags) (p : part) : bool :=
  recycled_pf f (fun q => negb (part_eqb q p)) p.
Definition run_rebuilt (t g b : bool) : out :=
  let f := {| f_trafo := t; f_gen := g; f_bus_pq := b |} in
  olist opart (filter (rebuilt_part f) all_parts).
