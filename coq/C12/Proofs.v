From Coq Require Import List Bool String Lia.
From PPV Require Import C12.Model.
Import ListNotations.
Open Scope string_scope.

(* ================================================================ recycling *)
Definition fle (f g : flags) : Prop :=
  (f_trafo f = true -> f_trafo g = true) /\ (f_gen f = true -> f_gen g = true) /\ (f_bus_pq f = true -> f_bus_pq g = true).

(* every stale part is one the flags rebuild *)
Definition rebuilt (f : flags) (p : part) : bool :=
  match p with PYbus => f_trafo f | PSbus => f_bus_pq f || f_gen f | _ => rebuilt_base f p end.
Definition covered (f : flags) (fr : fstate) : Prop := forall p, fr p || rebuilt f p = true.
Definition fresh (fr : fstate) : Prop := forall p, fr p = true.

Lemma solve_is_fresh_iff fr : solve_is_fresh fr = true <-> fresh fr.
Proof.
  unfold solve_is_fresh, fresh. rewrite forallb_forall. split.
  - intros H p. apply H. destruct p; cbn; tauto.
  - intros H p _. apply H.
Qed.

Lemma covered_recycled f fr : covered f fr -> fresh (recycled_pf f fr).
Proof.
  intros H.
  assert (B : forall p, match p with PYbus | PSbus => True | _ => fr p || rebuilt_base f p = true end).
  { intros p. specialize (H p). destruct p; cbn in *; auto. }
  intros p. unfold recycled_pf.
  pose proof (H PYbus) as HY. pose proof (H PSbus) as HS. cbn in HY, HS.
  destruct p; [exact (B PBusPQ) | exact (B PGen) | exact (B PBrTrafo) | exact (B PBrLine) | exact (B PBrOther) | exact (B PShunt) | exact (B PTopo) | | ].
  - destruct (f_trafo f).
    + apply forallb_forall. intros q Hq. cbn in Hq.
      destruct Hq as [<-|[<-|[<-|[<-|[<-|[]]]]]]; [exact (B PBrTrafo) | exact (B PBrLine) | exact (B PBrOther) | exact (B PShunt) | exact (B PTopo)].
    + rewrite orb_false_r in HY. exact HY.
  - destruct (f_bus_pq f || f_gen f).
    + apply forallb_forall. intros q Hq. cbn in Hq.
      destruct Hq as [<-|[<-|[<-|[]]]]; [exact (B PBusPQ) | exact (B PGen) | exact (B PTopo)].
    + rewrite orb_false_r in HS. exact HS.
Qed.

Lemma recycled_covered f fr : fresh (recycled_pf f fr) -> covered f fr.
Proof.
  intros H p. pose proof (H p) as Hp. unfold recycled_pf in Hp.
  destruct p; cbn in *; try exact Hp.
  - destruct (f_trafo f); [apply orb_true_r | rewrite orb_false_r; exact Hp].
  - destruct (f_bus_pq f || f_gen f); [apply orb_true_r | rewrite orb_false_r; exact Hp].
Qed.

Lemma covered_mono f g fr : fle f g -> covered f fr -> covered g fr.
Proof.
  intros (A & B & C) H p. specialize (H p). apply orb_true_iff in H. apply orb_true_iff.
  destruct H as [H|H]; [left; exact H | right].
  destruct p; cbn in *; auto; try discriminate.
  apply orb_true_iff in H. apply orb_true_iff. destruct H; [left; apply C | right; apply B]; assumption.
Qed.

Lemma write_m_split m fr p : write_m m fr p = fr p && write_m m all_fresh p.
Proof. unfold write_m, all_fresh. cbn. destruct (fr p); reflexivity. Qed.

Lemma covered_write f ev fr : covered f fr -> covered f (write ev all_fresh) -> covered f (write ev fr).
Proof.
  intros A B p. specialize (A p). specialize (B p). unfold write in *. rewrite write_m_split.
  destruct (fr p); cbn in *; [exact B | exact A].
Qed.

Lemma fle_refl f : fle f f. Proof. repeat split; auto. Qed.
Lemma fle_trans f g h : fle f g -> fle g h -> fle f h.
Proof. intros (A & B & C) (A' & B' & C'). repeat split; auto. Qed.
Lemma fle_or_l a f : fle a {| f_trafo := f_trafo a || f_trafo f; f_gen := f_gen a || f_gen f; f_bus_pq := f_bus_pq a || f_bus_pq f |}.
Proof. repeat split; cbn; intros H; rewrite H; reflexivity. Qed.
Lemma fle_or_r a f : fle f {| f_trafo := f_trafo a || f_trafo f; f_gen := f_gen a || f_gen f; f_bus_pq := f_bus_pq a || f_bus_pq f |}.
Proof. repeat split; cbn; intros H; rewrite H; apply orb_true_r. Qed.

Lemma combine_ge cs : forall acc f, combine cs acc = Some f ->
  fle acc f /\ forall c, In c cs -> exists fc, ctrl_flags c = Some fc /\ fle fc f.
Proof.
  induction cs as [|c cs IH]; intros acc f H; cbn in H.
  - inversion H. subst. split; [apply fle_refl | intros c []].
  - destruct (ctrl_flags c) as [fc|] eqn:E; [|discriminate].
    destruct (IH _ _ H) as [A B]. split.
    + eapply fle_trans; [apply fle_or_l | exact A].
    + intros c' [<-|Hin]; [|apply B; exact Hin].
      exists fc. split; [exact E|]. eapply fle_trans; [apply fle_or_r | exact A].
Qed.

Lemma sound_covered c fc : sound c = true -> ctrl_flags c = Some fc -> covered fc (write (ctrl_writes c) all_fresh).
Proof.
  unfold sound. intros H E. rewrite E in H. apply solve_is_fresh_iff in H. apply recycled_covered. exact H.
Qed.

Lemma writes_covered f cs : forall fr,
  covered f fr -> (forall c, In c cs -> covered f (write (ctrl_writes c) all_fresh)) ->
  covered f (fold_left (fun fr c => write (ctrl_writes c) fr) cs fr).
Proof.
  induction cs as [|c cs IH]; intros fr A B; cbn; [exact A|].
  apply IH.
  - apply covered_write; [exact A | apply B; left; reflexivity].
  - intros c' Hc. apply B. right. exact Hc.
Qed.

(* one time step of a set of individually sound controllers, started from fresh parts, solves with fresh parts *)
Lemma time_step_fresh cs stored fr :
  Forall (fun c => sound c = true) cs -> fresh fr -> fresh (time_step cs stored fr).
Proof.
  intros Hs Hf. unfold time_step, pf.
  destruct (recyclability cs) as [f|] eqn:E; [|intros p; reflexivity].
  destruct stored; [|intros p; reflexivity].
  apply covered_recycled. unfold recyclability in E. destruct (combine_ge _ _ _ E) as [_ B].
  apply writes_covered.
  - intros p. rewrite Hf. reflexivity.
  - intros c Hc. destruct (B c Hc) as (fc & E1 & E2).
    eapply covered_mono; [exact E2|]. apply sound_covered; [|exact E1].
    rewrite Forall_forall in Hs. apply Hs. exact Hc.
Qed.

(* histories: every time step of a time series solves with fresh parts *)
Lemma step_equals_fresh n : forall cs stored fr,
  Forall (fun c => sound c = true) cs -> fresh fr ->
  Forall (fun fr' => solve_is_fresh fr' = true) (run_steps n cs stored fr).
Proof.
  induction n as [|n IH]; intros cs stored fr Hs Hf; cbn; [constructor|].
  pose proof (time_step_fresh cs stored fr Hs Hf) as H1.
  constructor; [apply solve_is_fresh_iff; exact H1 | apply IH; assumption].
Qed.

(* histories with diverging steps: under G12c every step is either a reported failure of a step that really diverges, or it
   solves with fresh parts; a step that does not diverge is never reported as failed *)
Definition step_ok (d : bool) (r : sres) : Prop :=
  match r with SFailed => d = true | SSolved fr => d = false /\ solve_is_fresh fr = true | SSilent => False end.
Lemma run_steps_div_old_ok divs : forall cs stored fr,
  G12c cs = true -> Forall (fun c => sound c = true) cs -> fresh fr ->
  Forall2 step_ok divs (run_steps_div_old divs cs false stored false fr).
Proof.
  induction divs as [|d ds IH]; intros cs stored fr HG Hs Hf; cbn; [constructor|].
  destruct d.
  - pose proof HG as HG'. unfold G12c in HG'. apply negb_true_iff in HG'. rewrite HG'.
    constructor; [reflexivity | apply IH; assumption].
  - pose proof (time_step_fresh cs stored fr Hs Hf) as H1.
    constructor; [split; [reflexivity | apply solve_is_fresh_iff; exact H1] | apply IH; assumption].
Qed.
(* without G12c: a tap controller (initial run) + a recyclable ConstControl: after one diverging step the following,
   solvable steps are reported as failed *)
Lemma divergence_poisons_refuted :
  exists cs divs, Forall (fun c => sound c = true) cs /\
    ~ Forall2 step_ok divs (run_steps_div_old divs cs false false false all_fresh).
Proof.
  exists [CConst false "load" "p_mw"; CTap false "trafo"], [false; true; false].
  split; [repeat constructor|].
  intros H. inversion H as [|? ? ? ? _ H2]. subst. inversion H2 as [|? ? ? ? _ H3]. subst.
  inversion H3 as [|? ? ? ? H4 _]. subst. cbn in H4. discriminate.
Qed.
(* with batch reading (only_v_results) a diverging recycled step is recorded silently *)
Lemma divergence_silent_refuted :
  exists cs divs, G12c cs = true /\ Forall (fun c => sound c = true) cs /\
    ~ Forall2 step_ok divs (run_steps_div_old divs cs true false false all_fresh).
Proof.
  exists [CConst false "load" "p_mw"], [false; true].
  split; [reflexivity|]. split; [repeat constructor|].
  intros H. inversion H as [|? ? ? ? _ H2]. subst. inversion H2 as [|? ? ? ? H3 _]. subst. exact H3.
Qed.

(* repaired behaviour: for every history of diverging / solvable steps, every solvable step solves with fresh parts, every
   diverging step is reported as failed and no other step is *)
Lemma run_steps_div_ok divs : forall cs stored fr,
  Forall (fun c => sound c = true) cs -> fresh fr ->
  Forall2 step_ok divs (run_steps_div divs cs stored fr).
Proof.
  induction divs as [|d ds IH]; intros cs stored fr Hs Hf; cbn; [constructor|].
  destruct d.
  - constructor; [reflexivity | apply IH; assumption].
  - pose proof (time_step_fresh cs stored fr Hs Hf) as H1.
    constructor; [split; [reflexivity | apply solve_is_fresh_iff; exact H1] | apply IH; assumption].
Qed.

(* the finite domain is structurally complete: every pair the dependency table knows lies in it *)
Definition pair_in_domain (e v : string) : bool := mems e domain_elements && mems v domain_columns.
Definition deps_rows_in_domain : bool :=
  forallb (fun r => forallb (fun e => forallb (fun v => pair_in_domain e v) (snd (fst r))) (fst (fst r))) deps_rows.
Lemma deps_rows_in_domain_check : deps_rows_in_domain = true.
Proof. vm_compute. reflexivity. Qed.
Lemma mems_In' s l : mems s l = true -> In s l.
Proof.
  unfold mems. rewrite existsb_exists. intros (x & Hx & E). apply String.eqb_eq in E. subst. exact Hx.
Qed.
Lemma pair_in_domain_In e v : pair_in_domain e v = true -> In (e, v) domain.
Proof.
  unfold pair_in_domain. rewrite andb_true_iff. intros [He Hv]. apply mems_In' in He. apply mems_In' in Hv.
  unfold domain. apply in_flat_map. exists e. split; [exact He|]. apply in_map. exact Hv.
Qed.
Lemma deps_in_domain e v : deps e v <> [] -> In (e, v) domain.
Proof.
  unfold deps. destruct (find (row_matches e v) deps_rows) as [r|] eqn:F; [|intros H; exfalso; apply H; reflexivity].
  intros _. apply find_some in F. destruct F as [Hin Hm].
  unfold row_matches in Hm. apply andb_true_iff in Hm. destruct Hm as [He Hv].
  apply mems_In' in He. apply mems_In' in Hv.
  pose proof deps_rows_in_domain_check as C. unfold deps_rows_in_domain in C.
  rewrite forallb_forall in C. specialize (C r Hin).
  rewrite forallb_forall in C. specialize (C e He).
  rewrite forallb_forall in C. specialize (C v Hv).
  apply pair_in_domain_In. exact C.
Qed.
(* exhaustive over the finite (element, variable) domain: every ConstControl is sound *)
Definition sound_table_ok : bool :=
  forallb (fun ev => sound (CConst false (fst ev) (snd ev))) domain.
Lemma sound_table_check : sound_table_ok = true.
Proof. vm_compute. reflexivity. Qed.
Lemma const_sound_all u e v : In (e, v) domain -> sound (CConst u e v) = true.
Proof.
  intros Hin. destruct u; [reflexivity|].
  pose proof sound_table_check as H. unfold sound_table_ok in H. rewrite forallb_forall in H.
  exact (H _ Hin).
Qed.
(* the rule before the repair was sound exactly on G12a *)
Definition sound_table_old_ok : bool :=
  forallb (fun ev => Bool.eqb (sound_old (CConst false (fst ev) (snd ev))) (G12a (fst ev) (snd ev))) domain.
Lemma sound_table_old_check : sound_table_old_ok = true.
Proof. vm_compute. reflexivity. Qed.
Lemma const_sound_old_iff e v : In (e, v) domain -> (sound_old (CConst false e v) = true <-> G12a e v = true).
Proof.
  intros Hin. pose proof sound_table_old_check as H. unfold sound_table_old_ok in H. rewrite forallb_forall in H.
  specialize (H _ Hin). cbn [fst snd] in H. apply eqb_prop in H. rewrite H. tauto.
Qed.
Lemma recycle_old_refuted : sound_old (CConst false "line" "length_km") = false /\ In ("line", "length_km") domain.
Proof. split; [vm_compute; reflexivity|]. apply pair_in_domain_In. vm_compute. reflexivity. Qed.
(* with recycle=False given by the user, and for tap controllers and other classes, every pair is sound *)
Lemma user_off_sound e v : sound (CConst true e v) = true.
Proof. reflexivity. Qed.
Lemma other_sound e v : sound (COther e v) = true.
Proof. reflexivity. Qed.
Lemma tap_sound u e : sound (CTap u e) = true.
Proof.
  unfold sound, ctrl_flags, set_recycle_trafo.
  destruct (u || negb (mems e ["trafo"; "trafo3w"])) eqn:E; [reflexivity|].
  apply orb_false_iff in E. destruct E as [_ E]. apply negb_false_iff in E.
  cbn in E. unfold ctrl_writes, write. cbn [fst snd].
  destruct (e =? "trafo") eqn:E1.
  - apply String.eqb_eq in E1. subst. vm_compute. reflexivity.
  - cbn in E. rewrite orb_false_r in E. apply String.eqb_eq in E. subst. vm_compute. reflexivity.
Qed.

(* hence a ConstControl on ANY (element, variable) - inside or outside the domain - is sound: outside the domain nothing
   cached depends on the column *)
Lemma write_nil_fresh e v : deps e v = [] -> forall p, write (e, v) all_fresh p = true.
Proof.
  intros E p. unfold write, write_m, all_fresh. cbn [fst snd]. rewrite E.
  replace (existsb (fun p0 : part => memp p0 []) (sources p)) with false; [reflexivity|].
  symmetry. induction (sources p) as [|x l IH]; [reflexivity | exact IH].
Qed.
Lemma const_sound_any u e v : sound (CConst u e v) = true.
Proof.
  destruct (deps e v) as [|p0 l0] eqn:E.
  - unfold sound. destruct (ctrl_flags (CConst u e v)) as [f|]; [|reflexivity].
    apply solve_is_fresh_iff. apply covered_recycled. intros p.
    change (ctrl_writes (CConst u e v)) with (e, v). rewrite (write_nil_fresh e v E p). reflexivity.
  - apply const_sound_all. apply deps_in_domain. rewrite E. discriminate.
Qed.
Lemma step_equals_fresh_any n cs stored fr :
  fresh fr -> Forall (fun fr' => solve_is_fresh fr' = true) (run_steps n cs stored fr).
Proof.
  intros Hf. apply step_equals_fresh; [|exact Hf].
  rewrite Forall_forall. intros c _. destruct c as [u e v|u e|e v];
    [apply const_sound_any | apply tap_sound | reflexivity].
Qed.

(* every controller the model knows is sound when its ConstControl pairs come from the domain *)
Definition in_domain (c : ctrl) : Prop :=
  match c with CConst _ e v => In (e, v) domain | _ => True end.
Lemma ctrl_sound c : in_domain c -> sound c = true.
Proof.
  destruct c as [u e v|u e|e v]; cbn [in_domain]; intros H.
  - apply const_sound_all. exact H.
  - apply tap_sound.
  - reflexivity.
Qed.
Lemma step_equals_fresh_full n cs stored fr :
  Forall in_domain cs -> fresh fr ->
  Forall (fun fr' => solve_is_fresh fr' = true) (run_steps n cs stored fr).
Proof.
  intros H Hf. apply step_equals_fresh; [|exact Hf].
  rewrite Forall_forall in *. intros c Hc. apply ctrl_sound. apply H. exact Hc.
Qed.

(* ================================================================ batch reading *)
Lemma mems_In s l : mems s l = true <-> In s l.
Proof.
  unfold mems. rewrite existsb_exists. split.
  - intros (x & Hx & E). apply String.eqb_eq in E. subst. exact Hx.
  - intros H. exists s. split; [exact H | apply String.eqb_refl].
Qed.

Definition in_tables (b : list (string * string)) : Prop := forall tv, In tv b -> In (fst tv) batch_tables.

Lemma eligible_old_tables dc ft l : forall b, eligible_old dc ft l = Some b -> in_tables b.
Proof.
  destruct dc; [destruct l; discriminate|].
  induction l as [|o l IH]; intros b H; cbn [eligible_old] in H.
  - inversion H. intros tv [].
  - destruct (negb (mems (l_table o) batch_tables) || ft || l_long o) eqn:E; [discriminate|].
    destruct (eligible_old false ft l) as [r|] eqn:E2; [|discriminate]. inversion H. subst.
    apply orb_false_iff in E. destruct E as [E _]. apply orb_false_iff in E. destruct E as [E _].
    apply negb_false_iff in E. apply mems_In in E.
    intros tv [<-|Hin]; [exact E | apply (IH r eq_refl); exact Hin].
Qed.

(* the batch reader succeeds exactly when every variable is a key of its table's dict and no table other than
   res_trafo3w is requested twice (also relative to the tables already computed) *)
Definition disjointb (l c : list string) : bool := forallb (fun t => negb (mems t c)) l.
Definition is3w (t : string) : bool := t =? "res_trafo3w".

Definition next (t : string) (c : list string) : option (list string) :=
  if (t =? "res_line") && negb (mems t c) then Some (t :: c)
  else if (t =? "res_trafo") && negb (mems t c) then Some (t :: c)
  else if t =? "res_trafo3w" then Some (t :: c)
  else if (t =? "res_bus") && negb (mems t c) then Some (t :: c)
  else None.
Lemma next_simpl t c : In t batch_tables ->
  next t c = if is3w t then Some (t :: c) else if mems t c then None else Some (t :: c).
Proof.
  intros H. cbn in H. unfold next, is3w.
  destruct H as [<-|[<-|[<-|[<-|[]]]]];
    [destruct (mems "res_bus" c) eqn:E | destruct (mems "res_line" c) eqn:E
     | destruct (mems "res_trafo" c) eqn:E | destruct (mems "res_trafo3w" c) eqn:E]; rewrite ?E; reflexivity.
Qed.

Lemma disj_cons l t c : disjointb l (t :: c) = negb (mems t l) && disjointb l c.
Proof.
  induction l as [|x l IH]; [reflexivity|].
  change (disjointb (x :: l) (t :: c)) with (negb (mems x (t :: c)) && disjointb l (t :: c)).
  change (disjointb (x :: l) c) with (negb (mems x c) && disjointb l c).
  change (mems t (x :: l)) with ((t =? x) || mems t l).
  change (mems x (t :: c)) with ((x =? t) || mems x c).
  rewrite IH, (String.eqb_sym x t).
  destruct (t =? x), (mems x c), (mems t l), (disjointb l c); reflexivity.
Qed.
Lemma once_no3w b : mems "res_trafo3w" (once_tables b) = false.
Proof.
  destruct (mems "res_trafo3w" (once_tables b)) eqn:E; [|reflexivity].
  apply mems_In in E. unfold once_tables in E. apply filter_In in E. destruct E as [_ E]. discriminate.
Qed.

Lemma batch_unfold t v b c :
  batch_old ((t, v) :: b) c = match next t c with
                          | None => Some ValueError
                          | Some c' => if mems v (keys t) then batch_old b c' else Some KeyError
                          end.
Proof. reflexivity. Qed.

Lemma batch_iff b : forall c, in_tables b ->
  (batch_old b c = None <-> keys_ok b = true /\ nodupb (once_tables b) = true /\ disjointb (once_tables b) c = true).
Proof.
  induction b as [|[t v] b IH]; intros c Ht.
  - cbn. tauto.
  - assert (Ht' : in_tables b) by (intros tv Hin; apply Ht; right; exact Hin).
    assert (Htt : In t batch_tables) by (apply (Ht (t, v)); left; reflexivity).
    rewrite batch_unfold, (next_simpl _ _ Htt).
    unfold keys_ok. cbn [forallb fst snd]. fold (keys_ok b).
    unfold once_tables. cbn [map filter fst]. fold (once_tables b). fold (is3w t).
    destruct (is3w t) eqn:E3; cbn [negb].
    + (* res_trafo3w: recomputed on every request *)
      unfold is3w in E3. apply String.eqb_eq in E3. subst t.
      destruct (mems v (keys "res_trafo3w")); cbn [andb].
      * rewrite (IH _ Ht'), disj_cons, once_no3w. cbn [negb andb]. tauto.
      * split; [discriminate | intros (A & _); discriminate].
    + cbn [nodupb disjointb forallb]. fold (disjointb (once_tables b) c).
      destruct (mems t c) eqn:Ec; cbn [negb andb].
      * split; [discriminate | intros (_ & _ & D); discriminate].
      * destruct (mems v (keys t)); cbn [andb].
        -- rewrite (IH _ Ht'), disj_cons. rewrite !andb_true_iff. tauto.
        -- split; [discriminate | intros (A & _); discriminate].
Qed.

Lemma disjointb_nil l : disjointb l [] = true.
Proof. unfold disjointb. apply forallb_forall. intros; reflexivity. Qed.

(* every eligible request list: run_timeseries records everything  <->  G12b *)
Lemma writer_old_total_iff dc ft l b :
  eligible_old dc ft l = Some b -> (records_all_old dc ft l <-> G12b b = true).
Proof.
  intros E. unfold records_all_old, writer_old. rewrite E.
  pose proof (eligible_old_tables _ _ _ _ E) as Ht.
  pose proof (batch_iff b [] Ht) as H. rewrite disjointb_nil in H.
  unfold G12b. rewrite andb_true_iff.
  destruct b as [|tv b']; [cbn; tauto|].
  destruct (batch_old (tv :: b') []) as [e|] eqn:Eb.
  - split; [intros [] |]. intros [X1 X2].
    assert (Z : Some e = None) by (apply H; repeat split; assumption). discriminate.
  - split; [|intros _; exact I]. intros _.
    assert (Y : @None berr = None) by reflexivity. apply H in Y. destruct Y as (Y1 & Y2 & _). split; assumption.
Qed.

Lemma batch_old_refuted_key :
  exists l, eligible_old false false l <> None /\ ~ records_all_old false false l.
Proof.
  exists [{| l_table := "res_line"; l_var := "p_from_mw"; l_long := false |}]. split; [vm_compute; discriminate|].
  vm_compute. tauto.
Qed.
Lemma batch_old_refuted_twice :
  exists l, eligible_old false false l <> None /\
            (forall o, In o l -> mems (l_var o) (keys (l_table o)) = true) /\ ~ records_all_old false false l.
Proof.
  exists [{| l_table := "res_bus"; l_var := "vm_pu"; l_long := false |};
          {| l_table := "res_bus"; l_var := "va_degree"; l_long := false |}].
  split; [vm_compute; discriminate|]. split.
  - intros o [<-|[<-|[]]]; reflexivity.
  - vm_compute. tauto.
Qed.

(* ---- repaired rule: whatever is admitted to batch reading is read without an error *)
Lemma eligible_batch_ok dc ft l : forall b, eligible dc ft l = Some b -> batch b = None.
Proof.
  destruct dc; [destruct l; discriminate|].
  induction l as [|o l IH]; intros b H; cbn [eligible] in H.
  - inversion H. reflexivity.
  - destruct (negb (mems (l_table o) batch_tables) || negb (mems (l_var o) (keys (l_table o))) || ft || l_long o) eqn:E; [discriminate|].
    destruct (eligible false ft l) as [r|] eqn:E2; [|discriminate]. inversion H. subst.
    apply orb_false_iff in E. destruct E as [E _]. apply orb_false_iff in E. destruct E as [E _].
    apply orb_false_iff in E. destruct E as [E1 E3].
    apply negb_false_iff in E1. apply negb_false_iff in E3.
    cbn [batch]. rewrite E1, E3. apply IH. reflexivity.
Qed.
(* run_timeseries records every requested variable instead of failing on it (writer part) *)
Lemma writer_total dc ft l : records_all dc ft l.
Proof.
  unfold records_all, writer. destruct (eligible dc ft l) as [b|] eqn:E; [|exact I].
  rewrite (eligible_batch_ok _ _ _ _ E). destruct b; exact I.
Qed.
