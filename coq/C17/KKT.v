(* C17 — a KKT point of a separable convex quadratic program with linear constraints is a global minimiser.
   Vectors are lists of Q; a missing component counts as 0 (dot truncates, vadd pads), so no dimension
   side conditions are needed except that the two compared points have the dimension of the cost. *)
From Coq Require Import QArith List Lia Lqa.
Import ListNotations.
Open Scope Q_scope.

Fixpoint dot (u v : list Q) : Q :=
  match u, v with a :: u', b :: v' => a * b + dot u' v' | _, _ => 0 end.
Fixpoint vadd (u v : list Q) : list Q :=
  match u, v with [], _ => v | _, [] => u | a :: u', b :: v' => (a + b) :: vadd u' v' end.
Definition vscale (k : Q) (u : list Q) : list Q := map (Qmult k) u.
Fixpoint vsub (y x : list Q) : list Q :=
  match y, x with a :: y', b :: x' => (a - b) :: vsub y' x' | _, _ => [] end.
(* sum_j l_j * row_j *)
Fixpoint comb (ls : list Q) (rows : list (list Q)) : list Q :=
  match ls, rows with l :: ls', r :: rows' => vadd (vscale l r) (comb ls' rows') | _, _ => [] end.

(* separable quadratic cost  sum_i a_i x_i^2 + b_i x_i + c_i  and its gradient *)
Record term := { qa : Q; qb : Q; qc : Q }.
Fixpoint cost (cs : list term) (x : list Q) : Q :=
  match cs, x with c :: cs', a :: x' => qa c * a * a + qb c * a + qc c + cost cs' x' | _, _ => 0 end.
Fixpoint grad (cs : list term) (x : list Q) : list Q :=
  match cs, x with c :: cs', a :: x' => (2 * qa c * a + qb c) :: grad cs' x' | _, _ => [] end.

(* A x = b  and  G x <= h, row by row *)
Definition eq_feasible (A : list (list Q)) (b : list Q) (x : list Q) : Prop :=
  Forall2 (fun r bi => dot r x == bi) A b.
Definition le_feasible (G : list (list Q)) (h : list Q) (x : list Q) : Prop :=
  Forall2 (fun r hi => dot r x <= hi) G h.
(* mu_k >= 0 and mu_k (G_k x - h_k) = 0 *)
Fixpoint compl (mu : list Q) (G : list (list Q)) (h : list Q) (x : list Q) : Prop :=
  match mu, G, h with
  | m :: mu', r :: G', hi :: h' => 0 <= m /\ m * (dot r x - hi) == 0 /\ compl mu' G' h' x
  | [], _, _ => True
  | _ :: _, _, _ => False          (* a multiplier without a constraint *)
  end.
Definition vzero (v : list Q) : Prop := Forall (fun a => a == 0) v.

Record KKT (cs : list term) (A : list (list Q)) (b : list Q) (G : list (list Q)) (h : list Q)
           (x lam mu : list Q) : Prop := {
  kkt_eq : eq_feasible A b x;
  kkt_le : le_feasible G h x;
  kkt_stat : vzero (vadd (grad cs x) (vadd (comb lam A) (comb mu G)));
  kkt_compl : compl mu G h x
}.

Lemma dot_nil_r u : dot u [] == 0.
Proof. destruct u; reflexivity. Qed.

Lemma dot_vadd u v d : dot (vadd u v) d == dot u d + dot v d.
Proof.
  revert v d. induction u as [|a u IH]; intros v d.
  - cbn. ring.
  - destruct v as [|b v].
    + cbn [vadd]. destruct d; cbn; ring.
    + destruct d as [|e d]; cbn [vadd dot].
      * ring.
      * rewrite IH. ring.
Qed.

Lemma dot_vscale k u d : dot (vscale k u) d == k * dot u d.
Proof.
  revert d. induction u as [|a u IH]; intros d; cbn.
  - ring.
  - destruct d as [|e d]; cbn [dot].
    + ring.
    + unfold vscale in IH. rewrite IH. ring.
Qed.

Fixpoint wsum (ls : list Q) (rows : list (list Q)) (d : list Q) : Q :=
  match ls, rows with l :: ls', r :: rows' => l * dot r d + wsum ls' rows' d | _, _ => 0 end.

Lemma dot_comb ls rows d : dot (comb ls rows) d == wsum ls rows d.
Proof.
  revert rows. induction ls as [|l ls IH]; intros rows; cbn.
  - reflexivity.
  - destruct rows as [|r rows]; cbn [dot wsum].
    + reflexivity.
    + rewrite dot_vadd, dot_vscale, IH. reflexivity.
Qed.

Lemma dot_vzero v d : vzero v -> dot v d == 0.
Proof.
  intros H. revert d. induction H as [|a v Ha Hv IH]; intros d; cbn.
  - reflexivity.
  - destruct d as [|e d]; [reflexivity|]. rewrite IH, Ha. ring.
Qed.

Lemma dot_vsub r y x : length y = length x -> dot r (vsub y x) == dot r y - dot r x.
Proof.
  revert y x. induction r as [|a r IH]; intros y x L.
  - cbn. ring.
  - destruct y as [|b y], x as [|c x]; cbn in L; try discriminate; cbn [vsub dot].
    + ring.
    + rewrite IH by (injection L; auto). ring.
Qed.

Lemma sq_nonneg t : 0 <= t * t.
Proof.
  destruct (Qlt_le_dec t 0) as [H|H].
  - setoid_replace (t * t) with ((- t) * (- t)) by ring. apply Qmult_le_0_compat; lra.
  - apply Qmult_le_0_compat; exact H.
Qed.

Lemma convex_first_order cs x y :
  Forall (fun c => 0 <= qa c) cs -> length x = length cs -> length y = length cs ->
  dot (grad cs x) (vsub y x) <= cost cs y - cost cs x.
Proof.
  intros H. revert x y. induction H as [|c cs Hc Hcs IH]; intros x y Lx Ly.
  - destruct x; [|discriminate]. destruct y; [|discriminate]. cbn. lra.
  - destruct x as [|a x], y as [|b y]; cbn in Lx, Ly; try discriminate.
    cbn [grad vsub dot cost].
    assert (IH' := IH x y ltac:(lia) ltac:(lia)).
    assert (Hsq : 0 <= qa c * ((b - a) * (b - a))).
    { apply Qmult_le_0_compat; [exact Hc|]. apply sq_nonneg. }
    nra.
Qed.

Lemma wsum_eq lam A b x y :
  length y = length x -> eq_feasible A b x -> eq_feasible A b y -> wsum lam A (vsub y x) == 0.
Proof.
  intros L Hx. revert lam. induction Hx as [|r bi A b Hr HA IH]; intros lam Hy.
  - destruct lam; reflexivity.
  - inversion Hy as [|r' bi' A' b' Hr' HA']; subst.
    destruct lam as [|l lam]; cbn [wsum]; [reflexivity|].
    rewrite (IH lam HA'), dot_vsub by exact L. rewrite Hr, Hr'. ring.
Qed.

Lemma wsum_le mu G h x y :
  length y = length x -> compl mu G h x -> le_feasible G h y -> wsum mu G (vsub y x) <= 0.
Proof.
  intros L. revert G h. induction mu as [|m mu IH]; intros G h Hc Hy.
  - cbn. lra.
  - destruct G as [|r G]; [cbn; lra|].
    destruct h as [|hi h]; cbn in Hc; [contradiction|].
    destruct Hc as (Hm & Hs & Hc).
    inversion Hy as [|r' hi' G' h' Hr' HG']; subst.
    cbn [wsum]. rewrite dot_vsub by exact L.
    assert (IH' := IH G h Hc HG').
    assert (m * (dot r y - hi) <= 0).
    { assert (dot r y - hi <= 0) by lra. nra. }
    nra.
Qed.

(* the theorem: under convexity (all a_i >= 0) a KKT point minimises the cost over the feasible set *)
Theorem kkt_global_min cs A b G h x lam mu :
  Forall (fun c => 0 <= qa c) cs -> length x = length cs ->
  KKT cs A b G h x lam mu ->
  forall y, length y = length cs -> eq_feasible A b y -> le_feasible G h y ->
  cost cs x <= cost cs y.
Proof.
  intros Hcv Lx [Heq Hle Hst Hcp] y Ly Hye Hyl.
  assert (L : length y = length x) by congruence.
  pose proof (convex_first_order cs x y Hcv Lx Ly) as H1.
  pose proof (dot_vzero _ (vsub y x) Hst) as H2.
  rewrite dot_vadd, dot_vadd, !dot_comb in H2.
  pose proof (wsum_eq lam A b x y L Heq Hye) as H3.
  pose proof (wsum_le mu G h x y L Hcp Hyl) as H4.
  lra.
Qed.

(* non-vacuity: min x1^2 + x2^2 + 2 x2  s.t. x1 + x2 = 2, x2 <= 1/4 : x = (7/4, 1/4), lam = -7/2, mu = 1 *)
Example kkt_example :
  KKT [{| qa := 1; qb := 0; qc := 0 |}; {| qa := 1; qb := 2; qc := 0 |}] [[1; 1]] [2] [[0; 1]] [1 # 4]
      [7 # 4; 1 # 4] [- (7 # 2)] [1].
Proof.
  constructor.
  - constructor; [cbn; ring | constructor].
  - constructor; [cbn; lra | constructor].
  - unfold vzero. cbn. repeat constructor; ring.
  - cbn. repeat split; try lra; try ring.
Qed.
