(* C17 — lemmas about the gencost construction (poly entries, row bookkeeping). *)
From Coq Require Import ZArith QArith List Bool Lia Lqa String.
From PPV Require Import Base.QN Base.Out C17.Model.
Import ListNotations.
Open Scope Q_scope.

(* sign relating an element's own result power to its ppc generator variable (results write-back):
   load, storage (inverted) and dcline (p_from = - Pg) are mirrored *)
Definition res_sign (t : etype) : Q := if is_neg_et t then (-1 # 1) else 1.

Definition row_of (nc : Z * list Q) : grow := {| g_model := 2; g_ncost := fst nc; g_c := snd nc |}.

Lemma polycost_quadratic a2 a1 a0 x m :
  polycost {| g_model := m; g_ncost := 3; g_c := [a2; a1; a0] |} x == a2 * x * x + a1 * x + a0.
Proof.
  unfold polycost. cbn [g_ncost g_c]. change (Z.to_nat 3) with 3%nat.
  cbn [firstn rev app polysum qpow]. qnorm. ring.
Qed.

Lemma polycost_linear a1 a0 x m :
  polycost {| g_model := m; g_ncost := 2; g_c := [a1; a0] |} x == a1 * x + a0.
Proof.
  unfold polycost. cbn [g_ncost g_c]. change (Z.to_nat 2) with 2%nat.
  cbn [firstn rev app polysum qpow]. qnorm. ring.
Qed.

Lemma polycost_cells isq s c2 c1 c0 x :
  (isq = false -> c2 == 0) ->
  polycost (row_of (cells_of isq s c2 c1 c0)) x == c2 * x * x + s * c1 * x + c0.
Proof.
  intros H. destruct isq; unfold row_of, cells_of; cbn [fst snd].
  - rewrite polycost_quadratic. qnorm. ring.
  - rewrite polycost_linear. qnorm. rewrite (H eq_refl). ring.
Qed.
Lemma polycost_cells_old isq s c2 c1 c0 x :
  (isq = false -> c2 == 0) ->
  polycost (row_of (cells_of_old isq s c2 c1 c0)) x == s * (c2 * x * x + c1 * x + c0).
Proof.
  intros H. destruct isq; unfold row_of, cells_of_old; cbn [fst snd].
  - rewrite polycost_quadratic. qnorm. ring.
  - rewrite polycost_linear. qnorm. rewrite (H eq_refl). ring.
Qed.

(* the active-power row evaluates to the user's polynomial at the element's own power, for every element kind *)
Lemma poly_cost t isq c0 c1 c2 p :
  (isq = false -> c2 == 0) ->
  polycost (row_of (cells_of isq (sign_p t) c2 c1 c0)) (res_sign t * p) == user_poly c0 c1 c2 p.
Proof.
  intros Hq. rewrite polycost_cells by exact Hq. unfold user_poly, res_sign.
  destruct t; cbn; ring.
Qed.

(* ---- the rule before the repair *)
Lemma G17old_cases t c0 c2 : G17old t c0 c2 = true -> is_neg_et t = false \/ (c2 == 0 /\ c0 == 0).
Proof.
  unfold G17old. intros H. apply orb_true_iff in H. destruct H as [H|H].
  - left. now apply negb_true_iff in H.
  - right. apply andb_true_iff in H. destruct H as [H1 H2]. split; now apply qeqb_eq.
Qed.
Lemma poly_cost_old_partial t isq c0 c1 c2 p :
  (isq = false -> c2 == 0) -> G17old t c0 c2 = true ->
  polycost (row_of (cells_of_old isq (sign_p t) c2 c1 c0)) (res_sign t * p) == user_poly c0 c1 c2 p.
Proof.
  intros Hq HG. rewrite polycost_cells_old by exact Hq. unfold user_poly, res_sign.
  destruct (G17old_cases _ _ _ HG) as [Hn|[H2 H0]].
  - rewrite Hn. destruct t; cbn in Hn; try discriminate; cbn; ring.
  - destruct t; cbn; rewrite ?H2, ?H0; ring.
Qed.
Lemma poly_cost_old_deviation t isq c0 c1 c2 p :
  (isq = false -> c2 == 0) -> is_neg_et t = true ->
  polycost (row_of (cells_of_old isq (sign_p t) c2 c1 c0)) (res_sign t * p)
  == user_poly c0 c1 c2 p - 2 * (c2 * p * p + c0).
Proof.
  intros Hq Hn. rewrite polycost_cells_old by exact Hq. unfold user_poly, res_sign. rewrite Hn.
  destruct t; cbn in Hn; try discriminate; cbn; ring.
Qed.
Lemma poly_cost_old_refuted :
  exists t isq c0 c1 c2 p, (isq = false -> c2 == 0) /\
    ~ polycost (row_of (cells_of_old isq (sign_p t) c2 c1 c0)) (res_sign t * p) == user_poly c0 c1 c2 p.
Proof.
  exists Load, true, 5, 0, 1, 3. split; [discriminate|]. vm_compute. discriminate.
Qed.

(* reactive power: the applied sign is sign_q, the result sign is res_sign (dcline: q_from = - Qg) *)
Lemma poly_qcost_partial t isq c0 c1 c2 q :
  (isq = false -> c2 == 0) -> G17q t c1 = true ->
  polycost (row_of (cells_of isq (sign_q t) c2 c1 c0)) (res_sign t * q) == user_poly c0 c1 c2 q.
Proof.
  intros Hq HG. rewrite polycost_cells by exact Hq. unfold user_poly.
  destruct t; cbn in *; try ring.
  apply qeqb_eq in HG. rewrite HG. ring.
Qed.
Lemma poly_qcost_refuted :
  exists t isq c0 c1 c2 q, (isq = false -> c2 == 0) /\
    ~ polycost (row_of (cells_of isq (sign_q t) c2 c1 c0)) (res_sign t * q) == user_poly c0 c1 c2 q.
Proof.
  exists Dcline, false, 0, 1, 0, 1. split; [reflexivity|]. vm_compute. discriminate.
Qed.

(* ---------------------------------------------------------------- piecewise linear entries *)
Lemma sign_p_res_sign t : sign_p t = res_sign t.
Proof. destruct t; reflexivity. Qed.

(* one area [l, u, slope]: the row is the line through (l, s l slope) and (u, s u slope); evaluated at the
   generator variable res_sign * p it gives slope * p, the user's function, for every element kind *)
Lemma pwl_single_area t l u sl p :
  ~ u == l ->
  exists v, obj_of_res (pwl_row t [(l, u, sl)]) (res_sign t * p) = Some v /\ v == user_pwl [(l, u, sl)] p.
Proof.
  intros Hne. unfold pwl_row, costs_from_areas. cbn [areas_go bind List.length].
  change (Z.of_nat 4 / 2)%Z with 2%Z.
  unfold obj_of_res, obj_row. cbn [g_model g_ncost g_c Z.eqb Pos.eqb].
  unfold pwl_points. cbn [g_ncost g_c]. change (Z.to_nat 2) with 2%nat. cbn [pairs firstn].
  destruct (qeqb u l) eqn:E; [apply qeqb_eq in E; contradiction|].
  eexists; split; [reflexivity|].
  unfold user_pwl, pwl_from. rewrite <- sign_p_res_sign. qnorm.
  assert (u - l == 0 -> False) by (intros H; apply Hne; lra).
  destruct t; cbn [sign_p]; field; exact H.
Qed.

(* two areas of different slope on a load: the row is not the user's function *)
Lemma pwl_neg_refuted :
  exists t pts p, consecutive pts = true /\
    forall v, obj_of_res (pwl_row t pts) (res_sign t * p) = Some v -> ~ v == user_pwl pts p.
Proof.
  exists Load, [(0, 5, 1); (5, 10, 3)], 6. split; [reflexivity|].
  intros v H. vm_compute in H. injection H as <-. vm_compute. discriminate.
Qed.
