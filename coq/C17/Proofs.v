(* C17 — lemmas about the gencost construction (poly entries, row bookkeeping). *)
From Coq Require Import ZArith QArith List Bool Lia Lqa String.
From PPV Require Import Base.QN Base.Out C17.Model.
Import ListNotations.
Open Scope Q_scope.

(* sign relating an element's own result power to its ppc generator variable (results write-back):
   load, storage (inverted) and dcline (p_from = - Pg) are mirrored *)
Definition res_sign (t : etype) : Q := if is_neg_et t then (-1 # 1) else 1.

Definition row_of (nc : Z * list Q) : grow := {| g_model := 2; g_ncost := fst nc; g_c := snd nc |}.

Lemma polycost_quadratic a2 a1 a0 x m :
  polycost {| g_model := m; g_ncost := 3; g_c := [a2; a1; a0] |} x == a2 * x * x + a1 * x + a0.
Proof.
  unfold polycost. cbn [g_ncost g_c]. change (Z.to_nat 3) with 3%nat.
  cbn [firstn rev app polysum qpow]. qnorm. ring.
Qed.

Lemma polycost_linear a1 a0 x m :
  polycost {| g_model := m; g_ncost := 2; g_c := [a1; a0] |} x == a1 * x + a0.
Proof.
  unfold polycost. cbn [g_ncost g_c]. change (Z.to_nat 2) with 2%nat.
  cbn [firstn rev app polysum qpow]. qnorm. ring.
Qed.

Lemma polycost_cells isq s c2 c1 c0 x :
  (isq = false -> c2 == 0) ->
  polycost (row_of (cells_of isq s c2 c1 c0)) x == c2 * x * x + s * c1 * x + c0.
Proof.
  intros H. destruct isq; unfold row_of, cells_of; cbn [fst snd].
  - rewrite polycost_quadratic. qnorm. ring.
  - rewrite polycost_linear. qnorm. rewrite (H eq_refl). ring.
Qed.
Lemma polycost_cells_old isq s c2 c1 c0 x :
  (isq = false -> c2 == 0) ->
  polycost (row_of (cells_of_old isq s c2 c1 c0)) x == s * (c2 * x * x + c1 * x + c0).
Proof.
  intros H. destruct isq; unfold row_of, cells_of_old; cbn [fst snd].
  - rewrite polycost_quadratic. qnorm. ring.
  - rewrite polycost_linear. qnorm. rewrite (H eq_refl). ring.
Qed.

(* the active-power row evaluates to the user's polynomial at the element's own power, for every element kind *)
Lemma poly_cost t isq c0 c1 c2 p :
  (isq = false -> c2 == 0) ->
  polycost (row_of (cells_of isq (sign_p t) c2 c1 c0)) (res_sign t * p) == user_poly c0 c1 c2 p.
Proof.
  intros Hq. rewrite polycost_cells by exact Hq. unfold user_poly, res_sign.
  destruct t; cbn; ring.
Qed.

(* ---- the rule before the repair *)
Lemma G17old_cases t c0 c2 : G17old t c0 c2 = true -> is_neg_et t = false \/ (c2 == 0 /\ c0 == 0).
Proof.
  unfold G17old. intros H. apply orb_true_iff in H. destruct H as [H|H].
  - left. now apply negb_true_iff in H.
  - right. apply andb_true_iff in H. destruct H as [H1 H2]. split; now apply qeqb_eq.
Qed.
Lemma poly_cost_old_partial t isq c0 c1 c2 p :
  (isq = false -> c2 == 0) -> G17old t c0 c2 = true ->
  polycost (row_of (cells_of_old isq (sign_p t) c2 c1 c0)) (res_sign t * p) == user_poly c0 c1 c2 p.
Proof.
  intros Hq HG. rewrite polycost_cells_old by exact Hq. unfold user_poly, res_sign.
  destruct (G17old_cases _ _ _ HG) as [Hn|[H2 H0]].
  - rewrite Hn. destruct t; cbn in Hn; try discriminate; cbn; ring.
  - destruct t; cbn; rewrite ?H2, ?H0; ring.
Qed.
Lemma poly_cost_old_deviation t isq c0 c1 c2 p :
  (isq = false -> c2 == 0) -> is_neg_et t = true ->
  polycost (row_of (cells_of_old isq (sign_p t) c2 c1 c0)) (res_sign t * p)
  == user_poly c0 c1 c2 p - 2 * (c2 * p * p + c0).
Proof.
  intros Hq Hn. rewrite polycost_cells_old by exact Hq. unfold user_poly, res_sign. rewrite Hn.
  destruct t; cbn in Hn; try discriminate; cbn; ring.
Qed.
Lemma poly_cost_old_refuted :
  exists t isq c0 c1 c2 p, (isq = false -> c2 == 0) /\
    ~ polycost (row_of (cells_of_old isq (sign_p t) c2 c1 c0)) (res_sign t * p) == user_poly c0 c1 c2 p.
Proof.
  exists Load, true, 5, 0, 1, 3. split; [discriminate|]. vm_compute. discriminate.
Qed.

(* reactive power: the applied sign is sign_q, the result sign is res_sign (dcline: q_from = - Qg) *)
Lemma poly_qcost t isq c0 c1 c2 q :
  (isq = false -> c2 == 0) ->
  polycost (row_of (cells_of isq (sign_q t) c2 c1 c0)) (res_sign t * q) == user_poly c0 c1 c2 q.
Proof.
  intros Hq. rewrite polycost_cells by exact Hq. unfold user_poly. destruct t; cbn; ring.
Qed.
(* the reactive sign rule before the repair (dcline: +1) *)
Lemma poly_qcost_old_partial t isq c0 c1 c2 q :
  (isq = false -> c2 == 0) -> G17q_old t c1 = true ->
  polycost (row_of (cells_of isq (sign_q_old t) c2 c1 c0)) (res_sign t * q) == user_poly c0 c1 c2 q.
Proof.
  intros Hq HG. rewrite polycost_cells by exact Hq. unfold user_poly.
  destruct t; cbn in *; try ring.
  apply qeqb_eq in HG. rewrite HG. ring.
Qed.
Lemma poly_qcost_old_refuted :
  exists t isq c0 c1 c2 q, (isq = false -> c2 == 0) /\
    ~ polycost (row_of (cells_of isq (sign_q_old t) c2 c1 c0)) (res_sign t * q) == user_poly c0 c1 c2 q.
Proof.
  exists Dcline, false, 0, 1, 0, 1. split; [reflexivity|]. vm_compute. discriminate.
Qed.

(* ---------------------------------------------------------------- piecewise linear entries *)
Lemma sign_p_res_sign t : sign_p t = res_sign t.
Proof. destruct t; reflexivity. Qed.

(* one area [l, u, slope]: evaluated at the generator variable res_sign * p the row gives slope * p,
   the user's function, for every element kind *)
Lemma pwl_single_area t l u sl p :
  ~ u == l ->
  exists v, obj_of_res (pwl_row t [(l, u, sl)]) (res_sign t * p) = Some v /\ v == user_pwl [(l, u, sl)] p.
Proof.
  intros Hne.
  assert (Hul : u - l == 0 -> False) by (intros H; apply Hne; lra).
  assert (Hlu : - l - - u == 0 -> False) by (intros H; apply Hne; lra).
  unfold pwl_row, costs_from_areas. cbn [areas_go bind].
  destruct t; cbn [sign_p res_sign is_neg_et];
    match goal with |- context [qltb ?a 0] => change (qltb a 0) with false || change (qltb a 0) with true end;
    cbn [mirror pairs0 rev app map unpairs fst snd List.length];
    change (Z.of_nat 4 / 2)%Z with 2%Z;
    unfold obj_of_res, obj_row; cbn [g_model g_ncost g_c Z.eqb Pos.eqb];
    unfold pwl_points; cbn [g_ncost g_c]; change (Z.to_nat 2) with 2%nat; cbn [pairs firstn].
  1,2,5: (destruct (qeqb u l) eqn:E; [apply qeqb_eq in E; contradiction|];
          eexists; split; [reflexivity|]; unfold user_pwl, pwl_from; qnorm; field; exact Hul).
  all: (destruct (qeqb (qopp l) (qopp u)) eqn:E;
        [apply qeqb_eq in E; revert E; qnorm; intros E; exfalso; apply Hne; lra|];
        eexists; split; [reflexivity|]; unfold user_pwl, pwl_from; qnorm; field; exact Hlu).
Qed.

(* the rule before the repair: two areas of different slope on a load were not the user's function *)
Lemma pwl_old_refuted :
  exists t pts p, consecutive pts = true /\
    forall v, obj_of_res (pwl_row_old t pts) (res_sign t * p) = Some v -> ~ v == user_pwl pts p.
Proof.
  exists Load, [(0, 5, 1); (5, 10, 3)], 6. split; [reflexivity|].
  intros v H. vm_compute in H. injection H as <-. vm_compute. discriminate.
Qed.
(* ... and now they are, on that witness *)
Lemma pwl_witness_repaired :
  exists v, obj_of_res (pwl_row Load [(0, 5, 1); (5, 10, 3)]) (res_sign Load * 6) = Some v
            /\ v == user_pwl [(0, 5, 1); (5, 10, 3)] 6.
Proof. eexists. split; [vm_compute; reflexivity | vm_compute; reflexivity]. Qed.

(* two convex areas [l,m,s1], [m,u,s2] (s1 <= s2): for every element kind the cost variable of the row (the maximum
   of the segment lines, evaluated at the generator variable res_sign * p) is the user's function *)
Lemma qmax_cases x y : (qmax x y == x /\ y <= x) \/ (qmax x y == y /\ x <= y).
Proof.
  unfold qmax. destruct (qltb x y) eqn:E.
  - right. apply qltb_lt in E. split; [reflexivity | lra].
  - left. apply qltb_ge in E. split; [reflexivity | exact E].
Qed.

Lemma pwl_two_areas t l m u s1 s2 p :
  l < m -> m < u -> s1 <= s2 ->
  exists v, obj_of_res (pwl_row t [(l, m, s1); (m, u, s2)]) (res_sign t * p) = Some v
            /\ v == user_pwl [(l, m, s1); (m, u, s2)] p.
Proof.
  intros Hlm Hmu Hs.
  assert (Emm : qeqb m m = true) by (apply qeqb_eq; reflexivity).
  assert (Eml : qeqb m l = false) by (destruct (qeqb m l) eqn:E; [apply qeqb_eq in E; lra | reflexivity]).
  assert (Eum : qeqb u m = false) by (destruct (qeqb u m) eqn:E; [apply qeqb_eq in E; lra | reflexivity]).
  assert (Eml' : qeqb (qopp m) (qopp u) = false).
  { destruct (qeqb (qopp m) (qopp u)) eqn:E; [apply qeqb_eq in E; revert E; qnorm; intros; lra | reflexivity]. }
  assert (Elm' : qeqb (qopp l) (qopp m) = false).
  { destruct (qeqb (qopp l) (qopp m)) eqn:E; [apply qeqb_eq in E; revert E; qnorm; intros; lra | reflexivity]. }
  assert (Huser : user_pwl [(l, m, s1); (m, u, s2)] p
                  == if qltb p m then s1 * p else s1 * m + (p - m) * s2).
  { unfold user_pwl, pwl_from. destruct (qltb p m); ring. }
  unfold pwl_row, costs_from_areas. cbn [areas_go bind]. rewrite Emm. cbn [negb areas_go bind].
  destruct t; cbn [sign_p res_sign is_neg_et];
    match goal with |- context [qltb ?a 0] => change (qltb a 0) with false || change (qltb a 0) with true end;
    cbn [mirror pairs0 rev app map unpairs fst snd List.length];
    change (Z.of_nat 6 / 2)%Z with 3%Z;
    unfold obj_of_res, obj_row; cbn [g_model g_ncost g_c Z.eqb Pos.eqb];
    unfold pwl_points; cbn [g_ncost g_c]; change (Z.to_nat 3) with 3%nat; cbn [pairs firstn lines_max].
  1,2,5: (rewrite Eml, Eum; eexists; split; [reflexivity|]; rewrite Huser;
          match goal with |- qmax ?A ?B == _ =>
            assert (HA : A == s1 * p) by (qnorm; field; lra);
            assert (HB : B == s1 * m + (p - m) * s2) by (qnorm; field; lra);
            destruct (qmax_cases A B) as [[E L]|[E L]]; rewrite E end;
          destruct (qltb p m) eqn:Ep; [apply qltb_lt in Ep | apply qltb_ge in Ep | apply qltb_lt in Ep | apply qltb_ge in Ep];
          rewrite ?HA, ?HB in *; nra).
  all: (rewrite Eml', Elm'; eexists; split; [reflexivity|]; rewrite Huser;
        match goal with |- qmax ?A ?B == _ =>
          assert (HA : A == s1 * m + (p - m) * s2) by (qnorm; field; lra);
          assert (HB : B == s1 * p) by (qnorm; field; lra);
          destruct (qmax_cases A B) as [[E L]|[E L]]; rewrite E end;
        destruct (qltb p m) eqn:Ep; [apply qltb_lt in Ep | apply qltb_ge in Ep | apply qltb_lt in Ep | apply qltb_ge in Ep];
        rewrite ?HA, ?HB in *; nra).
Qed.

(* ---------------------------------------------------------------- regressions of the other repaired rules *)
(* dcline: the row is the one of the from-bus gen's index label *)
Lemma dcline_row_is_from_gen e el k lab :
  index_of (dcl_index e) el 0 = Some k -> np_get (gen_labels e) (dcl_pos e k) = Some lab ->
  get_gen_index e Dcline el = Ok (nonneg (lookup_get (lk_gen e) lab)).
Proof. intros H1 H2. unfold get_gen_index. rewrite H1, H2. reflexivity. Qed.

(* gens 0 and 2, one dcline (auxiliary gens get the labels 3 and 4): the old rule addressed the to-bus gen's row *)
Definition env_gapped : env :=
  {| lk_gen := Some [1; -1; 2; 3; 4]%Z; lk_sgen := None; lk_load := None; lk_storage := None; lk_ext := Some [0%Z];
     n_gen_tab := 4; gen_labels := [0; 2; 3; 4]%Z; dcl_index := [0%Z]; ng := 5 |}.
Lemma dcline_row_old_refuted :
  get_gen_index_old env_gapped Dcline 0 = Ok (Some 3%Z) /\ get_gen_index env_gapped Dcline 0 = Ok (Some 4%Z).
Proof. split; reflexivity. Qed.

(* a constant reactive cost alone creates the reactive rows (it did not before) *)
Lemma cq0_creates_q_rows c ws : ~ cq0 c == 0 -> q_costs [c] ws = true.
Proof.
  intros H. unfold q_costs. cbn [existsb]. unfold nz at 1.
  destruct (qeqb (cq0 c) 0) eqn:E; [apply qeqb_eq in E; contradiction | reflexivity].
Qed.
Lemma cq0_old_refuted : exists c, ~ cq0 c == 0 /\ q_costs_old [c] [] = false.
Proof.
  exists {| pc_et := Gen; pc_el := 0; cp0 := 0; cp1 := 1; cp2 := 0; cq0 := 2; cq1 := 0; cq2 := 0 |}.
  split; [vm_compute; discriminate | reflexivity].
Qed.

(* every gencost row is evaluated at its own variable; before the repair a reactive cost-variable row was not *)
Lemma var_index_own ngn i r : var_index ngn i r = i.
Proof. reflexivity. Qed.
Lemma var_index_old_refuted : exists ngn i r, var_index_old ngn i r <> i.
Proof.
  exists 2%nat, 3%nat, {| g_model := 1; g_ncost := 3; g_c := [] |}. vm_compute. discriminate.
Qed.
