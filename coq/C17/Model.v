(* C17 — faithful model of pandapower/opf/make_objective.py (_make_objective :19-40, _get_gen_index :43-53,
   _map_costs_to_gen :56-63, _init_gencost :66-80, _fill_gencost_poly :83-111, _fill_gencost_pwl :114-122,
   costs_from_areas :125-143, _add_linear_costs_as_pwl_cost :146-154), of pypower/polycost.py, pypower/totcost.py,
   the single-block conversion of pypower/opf_setup.py:99-110 and the CCV constraints of pypower/makeAy.py.
   The model is the code AS IT IS, after the repairs (sign on the linear coefficient only; lookup -1 gives no row;
   pwl breakpoints mirrored for load/storage/dcline; cq0 creates the reactive rows; dcline row by index label;
   dcline reactive sign -1; reactive CCV rows on the right column).  Still as it is: poly costs mixed with pwl
   costs keep only cp1.  The rules before the repairs are kept with the suffix _old as regression witnesses.
   Executable definitions only. *)
From Coq Require Import ZArith QArith List Bool String.
From PPV Require Import Base.QN Base.Out.
Import ListNotations.
Open Scope Q_scope.

Inductive etype := Gen | Sgen | Load | Storage | ExtGrid | Dcline.

(* make_objective.py:62 and :86 (p) ; :98 (q: dcline is NOT in the list) *)
Definition sign_p (e : etype) : Q := match e with Load | Storage | Dcline => (-1 # 1) | _ => 1 end.
Definition sign_q (e : etype) : Q := match e with Load | Storage | Dcline => (-1 # 1) | _ => 1 end.
Definition sign_q_old (e : etype) : Q := match e with Load | Storage => (-1 # 1) | _ => 1 end.

Inductive res (A : Type) : Type := Ok (a : A) | Raise (s : string).
Arguments Ok {A} a.
Arguments Raise {A} s.
Definition bind {A B} (r : res A) (f : A -> res B) : res B :=
  match r with Ok a => f a | Raise s => Raise s end.

(* numpy indexing of a 1-d array / of the rows of a matrix with a python int: negative indices wrap *)
Definition np_norm (n : Z) (i : Z) : option nat :=
  if (0 <=? i)%Z && (i <? n)%Z then Some (Z.to_nat i)
  else if (i <? 0)%Z && (- n <=? i)%Z then Some (Z.to_nat (i + n))
  else None.
Definition np_get {A} (l : list A) (i : Z) : option A :=
  match np_norm (Z.of_nat (List.length l)) i with Some k => nth_error l k | None => None end.

(* net._pd2ppc_lookups[...]: one array per element kind (absent key = None), value -1 = not in the ppc *)
Record env := {
  lk_gen : option (list Z); lk_sgen : option (list Z); lk_load : option (list Z);
  lk_storage : option (list Z); lk_ext : option (list Z);
  n_gen_tab : Z;            (* len(net.gen.index), auxiliary dcline gens included *)
  gen_labels : list Z;      (* net.gen.index (labels), auxiliary dcline gens included *)
  dcl_index : list Z;       (* net.dcline.index *)
  ng : nat                  (* len(ppci["gen"]) *)
}.
Definition lookup_of (e : env) (t : etype) : option (list Z) :=
  match t with
  | Gen | Dcline => lk_gen e | Sgen => lk_sgen e | Load => lk_load e
  | Storage => lk_storage e | ExtGrid => lk_ext e end.
Definition lookup_get (o : option (list Z)) (i : Z) : option Z :=
  match o with Some l => np_get l i | None => None end.

Fixpoint index_of (l : list Z) (x : Z) (k : nat) : option nat :=
  match l with [] => None | y :: t => if Z.eqb x y then Some k else index_of t x (S k) end.

(* _get_gen_index (:40-53): get_loc is outside the try -> KeyError propagates; everything else -> None;
   a lookup value < 0 (element not in the ppc) -> None *)
Definition nonneg (o : option Z) : option Z :=
  match o with Some g => if (g <? 0)%Z then None else Some g | None => None end.
Definition dcl_pos (e : env) (k : nat) : Z :=
  (n_gen_tab e - 2 * Z.of_nat (List.length (dcl_index e)) + Z.of_nat k * 2 + 1)%Z.
Definition get_gen_index (e : env) (t : etype) (el : Z) : res (option Z) :=
  match t with
  | Dcline =>
      match index_of (dcl_index e) el 0 with
      | None => Raise "KeyError"
      | Some k =>
          (* net.gen.index[position] is outside the try: the position of the from-bus gen -> its index label *)
          match np_get (gen_labels e) (dcl_pos e k) with
          | None => Raise "IndexError"
          | Some lab => Ok (nonneg (lookup_get (lk_gen e) lab))
          end
      end
  | _ => Ok (nonneg (lookup_get (lookup_of e t) el))
  end.
(* before the repair the position itself was used as the label *)
Definition get_gen_index_old (e : env) (t : etype) (el : Z) : res (option Z) :=
  match t with
  | Dcline =>
      match index_of (dcl_index e) el 0 with
      | None => Raise "KeyError"
      | Some k => Ok (nonneg (lookup_get (lk_gen e) (dcl_pos e k)))
      end
  | _ => Ok (nonneg (lookup_get (lookup_of e t) el))
  end.

Record pcost := { pc_et : etype; pc_el : Z; cp0 : Q; cp1 : Q; cp2 : Q; cq0 : Q; cq1 : Q; cq2 : Q }.
Record wcost := { w_et : etype; w_el : Z; w_q : bool; w_pts : list (Q * Q * Q) }.   (* [lower, upper, slope] *)

(* gencost row: MODEL, NCOST and the cells from column COST on *)
Record grow := { g_model : Z; g_ncost : Z; g_c : list Q }.
Definition gencost := list grow.

Fixpoint set_cells (start : nat) (vals : list Q) (c : list Q) : option (list Q) :=
  match start, c with
  | O, _ =>
      match vals, c with
      | [], _ => Some c
      | v :: vs, _ :: ct => option_map (cons v) (set_cells O vs ct)
      | _ :: _, [] => None
      end
  | S k, x :: ct => option_map (cons x) (set_cells k vals ct)
  | S _, [] => match vals with [] => Some [] | _ => None end
  end.

Fixpoint upd_nth {A} (l : list A) (k : nat) (f : A -> option A) : option (list A) :=
  match l, k with
  | [], _ => None
  | x :: t, O => option_map (fun y => y :: t) (f x)
  | x :: t, S k' => option_map (cons x) (upd_nth t k' f)
  end.

(* gencost[g, NCOST] = n ; gencost[g, COST:COST+len vals] = vals   (g: numpy row index) *)
Definition write_row (m : gencost) (g : Z) (n : Z) (vals : list Q) : res gencost :=
  match np_norm (Z.of_nat (List.length m)) g with
  | None => Raise "IndexError"
  | Some k =>
      match upd_nth m k (fun r => option_map (fun c => {| g_model := g_model r; g_ncost := n; g_c := c |})
                                             (set_cells 0 vals (g_c r))) with
      | Some m' => Ok m'
      | None => Raise "IndexError"
      end
  end.

(* _map_costs_to_gen: keep the entries whose gen index is not None *)
Fixpoint map_costs {A} (e : env) (key : A -> etype * Z) (cs : list A) : res (list (Z * A)) :=
  match cs with
  | [] => Ok []
  | c :: t =>
      bind (get_gen_index e (fst (key c)) (snd (key c))) (fun og =>
      bind (map_costs e key t) (fun rest =>
      Ok (match og with Some g => (g, c) :: rest | None => rest end)))
  end.

Fixpoint fold_res {A B} (f : B -> A -> res B) (l : list A) (b : B) : res B :=
  match l with [] => Ok b | a :: t => bind (f b a) (fun b' => fold_res f t b') end.

Definition nz (x : Q) : bool := negb (qeqb x 0).

(* _init_gencost :67-69 *)
Definition is_quadratic (cs : list pcost) : bool := existsb (fun c => nz (cp2 c) || nz (cq2 c)) cs.
Definition q_costs (cs : list pcost) (ws : list wcost) : bool :=
  existsb (fun c => nz (cq0 c) || nz (cq1 c) || nz (cq2 c)) cs || existsb w_q ws.
Definition q_costs_old (cs : list pcost) (ws : list wcost) : bool :=
  existsb (fun c => nz (cq1 c) || nz (cq2 c)) cs || existsb w_q ws.

(* the NCOST value and the cells one poly entry writes (:88-113): the ppc variable is x = sign * p, only the
   linear coefficient takes the sign *)
Definition cells_of (isq : bool) (s c2 c1 c0 : Q) : Z * list Q :=
  if isq then (3%Z, [c2; qmul c1 s; c0]) else (2%Z, [qmul c1 s; c0]).
(* the rule before the repair (every coefficient times the sign), kept as a regression witness *)
Definition cells_of_old (isq : bool) (s c2 c1 c0 : Q) : Z * list Q :=
  if isq then (3%Z, [qmul c2 s; qmul c1 s; qmul c0 s]) else (2%Z, [qmul c1 s; qmul c0 s]).
Definition p_cells (isq : bool) (c : pcost) := cells_of isq (sign_p (pc_et c)) (cp2 c) (cp1 c) (cp0 c).
Definition q_cells (isq : bool) (c : pcost) := cells_of isq (sign_q (pc_et c)) (cq2 c) (cq1 c) (cq0 c).

(* _fill_gencost_poly :83-111 *)
Definition fill_poly (e : env) (m : gencost) (cs : list pcost) (isq qc : bool) : res gencost :=
  bind (map_costs e (fun c => (pc_et c, pc_el c)) cs) (fun gcs =>
  bind (fold_res (fun m gc => write_row m (fst gc) (fst (p_cells isq (snd gc))) (snd (p_cells isq (snd gc)))) gcs m)
  (fun m1 =>
  if qc then
    fold_res (fun m gc => write_row m (fst gc + Z.of_nat (ng e))%Z (fst (q_cells isq (snd gc))) (snd (q_cells isq (snd gc))))
             gcs m1
  else Ok m1)).

(* costs_from_areas before the repair: cost values times the sign, breakpoints not mirrored *)
Fixpoint areas_go (pts : list (Q * Q * Q)) (sign : Q) (c0 : Q) (last_upper : option Q) : res (list Q) :=
  match pts with
  | [] => Ok []
  | (lower, upper, slope) :: t =>
      match last_upper with
      | None =>
          let c := qadd c0 (qmul (qmul lower slope) sign) in
          let c' := qadd c (qmul (qmul (qsub upper lower) slope) sign) in
          bind (areas_go t sign c' (Some upper)) (fun rest => Ok (lower :: c :: upper :: c' :: rest))
      | Some lu =>
          if negb (qeqb lu lower) then Raise "ValueError"
          else
            let c := qadd c0 (qmul (qmul (qsub upper lower) slope) sign) in
            bind (areas_go t sign c (Some upper)) (fun rest => Ok (upper :: c :: rest))
      end
  end.
Definition costs_from_areas_old (pts : list (Q * Q * Q)) (sign : Q) : res (list Q) := areas_go pts sign 0 None.

(* costs_from_areas (repaired): the points (p_i, f(p_i)) of the user's function; for sign < 0 the breakpoints are
   mirrored (x = -p) and listed in ascending x:  [v for x, y in zip(costs[-2::-2], costs[::-2]) for v in (-x, y)] *)
Fixpoint unpairs (l : list (Q * Q)) : list Q := match l with [] => [] | (x, y) :: t => x :: y :: unpairs t end.
Fixpoint pairs0 (c : list Q) : list (Q * Q) := match c with x :: y :: t => (x, y) :: pairs0 t | _ => [] end.
Definition mirror (c : list Q) : list Q := unpairs (map (fun xy => (qopp (fst xy), snd xy)) (rev (pairs0 c))).
Definition costs_from_areas (pts : list (Q * Q * Q)) (sign : Q) : res (list Q) :=
  bind (areas_go pts 1 0 None) (fun costs => Ok (if qltb sign 0 then mirror costs else costs)).

(* _fill_gencost_pwl :114-122 — groupby("power_type"): group "p" first, then "q"; the sign is the P sign *)
Definition fill_pwl_group (e : env) (m : gencost) (ws : list wcost) (isq : bool) : res gencost :=
  bind (map_costs e (fun w => (w_et w, w_el w)) ws) (fun gws =>
  fold_res (fun m gw =>
      let g := if isq then (fst gw + Z.of_nat (ng e))%Z else fst gw in
      bind (costs_from_areas (w_pts (snd gw)) (sign_p (w_et (snd gw)))) (fun costs =>
      write_row m g (Z.of_nat (List.length costs) / 2)%Z costs)) gws m).
Definition fill_pwl (e : env) (m : gencost) (ws : list wcost) : res gencost :=
  bind (fill_pwl_group e m (filter (fun w => negb (w_q w)) ws) false) (fun m1 =>
  fill_pwl_group e m1 (filter w_q ws) true).

(* _add_linear_costs_as_pwl_cost :146-154 ; pmin/pmax = ppci["gen"][:, PMIN/PMAX] *)
Definition add_linear_as_pwl (e : env) (m : gencost) (cs : list pcost) (pmin pmax : list Q) : res gencost :=
  bind (map_costs e (fun c => (pc_et c, pc_el c)) cs) (fun gcs =>
  fold_res (fun m gc =>
      let g := fst gc in let c := snd gc in let s := sign_p (pc_et c) in
      match np_get pmin g, np_get pmax g with
      | Some lo, Some hi => write_row m g 2 [lo; qmul (qmul lo (cp1 c)) s; hi; qmul (qmul hi (cp1 c)) s]
      | _, _ => Raise "IndexError"
      end) gcs m).

Definition max_points (ws : list wcost) : nat := fold_right (fun w a => Nat.max (List.length (w_pts w)) a) O ws.

(* _make_objective :19-40 with _init_gencost :66-80 *)
Definition make_objective (e : env) (cs : list pcost) (ws : list wcost) (pmin pmax : list Q) : res gencost :=
  let isq := is_quadratic cs in
  let qc := q_costs cs ws in
  let rows := if qc then (2 * ng e)%nat else ng e in
  match ws with
  | _ :: _ =>
      if isq then Raise "ValueError"
      else
        let ncols := ((Nat.max (max_points ws) 2 + 1) * 2)%nat in
        let row := {| g_model := 1; g_ncost := 2; g_c := [0; 0; 1] ++ repeat 0 (ncols - 3) |} in
        bind (fill_pwl e (repeat row rows) ws) (fun m =>
        match cs with _ :: _ => add_linear_as_pwl e m cs pmin pmax | [] => Ok m end)
  | [] =>
      match cs with
      | _ :: _ =>
          let ncols := if isq then 3%nat else 2%nat in
          fill_poly e (repeat {| g_model := 2; g_ncost := 0; g_c := repeat 0 ncols |} rows) cs isq qc
      | [] => Ok (repeat {| g_model := 2; g_ncost := 2; g_c := [1; 0] |} rows)
      end
  end.

(* ---------------------------------------------------------------- evaluation *)
(* polycost.py: c[k,:n] = gencost[k, COST+n-1 : COST-1 : -1]; f = c0 + sum_k c_k * Pg^k *)
Fixpoint qpow (x : Q) (k : nat) : Q := match k with O => 1 | S k' => qmul x (qpow x k') end.
Fixpoint polysum (c : list Q) (x : Q) (k : nat) : Q :=
  match c with [] => 0 | a :: t => qadd (qmul a (qpow x k)) (polysum t x (S k)) end.
Definition polycost (r : grow) (x : Q) : Q := polysum (rev (firstn (Z.to_nat (g_ncost r)) (g_c r))) x 0.

Fixpoint pairs (c : list Q) : list (Q * Q) :=
  match c with x :: y :: t => (x, y) :: pairs t | _ => [] end.
Definition pwl_points (r : grow) : list (Q * Q) := firstn (Z.to_nat (g_ncost r)) (pairs (g_c r)).

(* totcost.py:33-46; None = division by zero (inf/nan in numpy) *)
Fixpoint totcost_go (pts : list (Q * Q)) (x : Q) (acc : option Q) : option Q :=
  match pts with
  | (p1, c1) :: (((p2, c2) :: _) as t) =>
      if qeqb p2 p1 then None
      else
        let m := qdiv (qsub c2 c1) (qsub p2 p1) in
        let b := qsub c1 (qmul m p1) in
        let v := qadd (qmul m x) b in
        if qltb x p2 then Some v else totcost_go t x (Some v)
  | _ => acc
  end.
Definition totcost_pwl (r : grow) (x : Q) : option Q := totcost_go (pwl_points r) x (Some 0).
Definition totcost (r : grow) (x : Q) : option Q :=
  if Z.eqb (g_model r) 1 then totcost_pwl r x
  else if Z.eqb (g_model r) 2 then Some (polycost r x) else Some 0.

(* the value the OPF objective gives a row: polynomial rows by polycost; single-block pwl rows are turned into
   the line through their two points (opf_setup.py:99-110); rows with more points get a cost variable y with
   y >= m_k (x - p_k) + c_k for every segment (makeAy.py) — minimised, y is the maximum of the lines *)
Fixpoint lines_max (pts : list (Q * Q)) (x : Q) (acc : option Q) : option Q :=
  match pts with
  | (p1, c1) :: (((p2, c2) :: _) as t) =>
      if qeqb p2 p1 then None
      else
        let m := qdiv (qsub c2 c1) (qsub p2 p1) in
        let v := qadd (qmul m (qsub x p1)) c1 in
        lines_max t x (match acc with Some a => Some (qmax a v) | None => Some v end)
  | _ => acc
  end.
(* makeAy.py:59-76 — the "basin" constraints of one cost-variable row: for every segment (p_i,c_i)-(p_i+1,c_i+1)
   the pair (m, b) of   m * Pg - Y <= b ,  m = (c_i+1 - c_i) / (p_i+1 - p_i) ,  b = m * p_i - c_i
   (in MW units: makeAy divides the breakpoints by baseMVA, its slope is m * baseMVA on Pg in p.u.) *)
Fixpoint segs {A B : Type} (f : A -> A -> B) (P : list A) : list B :=
  match P with a :: ((b :: _) as t) => f a b :: segs f t | _ => [] end.
Definition ay_seg (a b : Q * Q) : Q * Q :=
  let m := qdiv (qsub (snd b) (snd a)) (qsub (fst b) (fst a)) in (m, qsub (qmul m (fst a)) (snd a)).
Definition ay_rows (r : grow) : list (Q * Q) := segs ay_seg (pwl_points r).
(* a value y of the cost variable satisfies the row's constraints at the generator variable x *)
Definition ay_feasible (r : grow) (x y : Q) : Prop := Forall (fun mb => fst mb * x - y <= snd mb) (ay_rows r).

Definition obj_row (r : grow) (x : Q) : option Q :=
  if Z.eqb (g_model r) 2 then Some (polycost r x)
  else if Z.eqb (g_model r) 1 then
    match pwl_points r with
    | [] | [_] => None
    | [(x0, y0); (x1, y1)] =>
        if qeqb x1 x0 then None
        else let m := qdiv (qsub y1 y0) (qsub x1 x0) in Some (qadd (qmul m x) (qsub y0 (qmul m x0)))
    | pts => lines_max pts x None
    end
  else None.
(* variable a row is evaluated at.  Before the repair the cost-variable constraints of a reactive row i > ng were
   stamped at column qgbas + (i - ng) - 1 with qgbas = ng (makeAy.py:63-66, opf_setup.py:162), i.e. at the reactive
   power of the PREVIOUS generator (var_index_old) *)
Definition is_ccv (r : grow) : bool := Z.eqb (g_model r) 1 && (2 <? g_ncost r)%Z.
Definition var_index_old (ngn : nat) (i : nat) (r : grow) : nat :=
  if is_ccv r && (ngn <? i)%nat then (i - 1)%nat else i.
(* repaired (opf_setup.py: q1 = 1 + ng): every row reads its own variable *)
Definition var_index (ngn : nat) (i : nat) (r : grow) : nat := i.
Fixpoint objective_go (ngn : nat) (i : nat) (m : gencost) (xs : list Q) : option Q :=
  match m with
  | [] => Some 0
  | r :: mt =>
      match nth_error xs (var_index ngn i r) with
      | None => None
      | Some x =>
          match obj_row r x, objective_go ngn (S i) mt xs with
          | Some a, Some b => Some (qadd a b) | _, _ => None end
      end
  end.
Definition objective (ngn : nat) (m : gencost) (xs : list Q) : option Q := objective_go ngn 0 m xs.

(* ---------------------------------------------------------------- spec side *)
Definition user_poly (c0 c1 c2 p : Q) : Q := c2 * p * p + c1 * p + c0.
(* the piecewise linear function the areas describe: value lower_1 * slope_1 at lower_1, slope s_k on [l_k, u_k],
   first/last area extended outside *)
Fixpoint pwl_from (v : Q) (pts : list (Q * Q * Q)) (p : Q) : Q :=
  match pts with
  | [] => v
  | [(l, u, s)] => v + (p - l) * s
  | (l, u, s) :: t => if qltb p u then v + (p - l) * s else pwl_from (v + (u - l) * s) t p
  end.
Definition user_pwl (pts : list (Q * Q * Q)) (p : Q) : Q :=
  match pts with [] => 0 | (l, u, s) :: _ => pwl_from (l * s) pts p end.

(* guards *)
Definition is_neg_et (t : etype) : bool := match t with Load | Storage | Dcline => true | _ => false end.
(* guard of the rule before the repair: the element sign is +1, or there is neither a quadratic nor a constant term *)
Definition G17old (t : etype) (c0 c2 : Q) : bool := negb (is_neg_et t) || (qeqb c2 0 && qeqb c0 0).
(* guard of the reactive sign rule before the repair (dcline q sign +1 although q_from = - Qg) *)
Definition G17q_old (t : etype) (c1 : Q) : bool := match t with Dcline => qeqb c1 0 | _ => true end.
Fixpoint same_slopes (pts : list (Q * Q * Q)) : bool :=
  match pts with
  | (_, _, s1) :: (((_, _, s2) :: _) as t) => qeqb s1 s2 && same_slopes t
  | _ => true
  end.
Definition G17pwl (t : etype) (pts : list (Q * Q * Q)) : bool := negb (is_neg_et t) || same_slopes pts.
(* convexity of the user's function: slopes do not decrease from area to area *)
Fixpoint nondecr_slopes (pts : list (Q * Q * Q)) : bool :=
  match pts with
  | (_, _, s1) :: (((_, _, s2) :: _) as t) => qleb s1 s2 && nondecr_slopes t
  | _ => true
  end.
Fixpoint consecutive (pts : list (Q * Q * Q)) : bool :=
  match pts with
  | (l1, u1, _) :: (((l2, _, _) :: _) as t) => qltb l1 u1 && qeqb u1 l2 && consecutive t
  | [(l1, u1, _)] => qltb l1 u1
  | [] => true
  end.

Definition convex_areas (pts : list (Q * Q * Q)) : bool := consecutive pts && nondecr_slopes pts.

(* _get_gen_index before the repair of the -1 lookup value: the value was used as it is (numpy row -1 = last row) *)
Definition get_gen_index_wrap_old (e : env) (t : etype) (el : Z) : res (option Z) :=
  match t with
  | Dcline => get_gen_index e t el
  | _ => Ok (lookup_get (lookup_of e t) el)
  end.

(* ---------------------------------------------------------------- output *)
Definition orow (r : grow) : out := OL [OZ (g_model r); OZ (g_ncost r); olist oq (g_c r)].
Definition ores {A} (f : A -> out) (r : res A) : out := match r with Ok a => f a | Raise s => OErr s end.
(* gencost, then totcost and objective values at the given points (xs: one per row) *)
(* dc = true: opf_setup.py:68-70 keeps only the active-power rows (pqcost) *)
Definition run_make (e : env) (cs : list pcost) (ws : list wcost) (pmin pmax : list Q) (xs : list Q) (dc : bool) : out :=
  match make_objective e cs ws pmin pmax with
  | Raise s => OErr s
  | Ok m => OL [ olist orow m;
                 OL (map (fun rx => ooq (totcost (fst rx) (snd rx))) (combine m xs));
                 ooq (objective (ng e) (if dc then firstn (ng e) m else m) xs) ]
  end.

(* the cost-variable constraints makeAy builds from the gencost: for every row that keeps MODEL = PW_LINEAR after the
   single-block conversion (NCOST > 2): row number, the variable (column of [Pg; Qg]) it is stamped on, its (m, b) pairs *)
Fixpoint ay_go (ngn : nat) (i : nat) (m : gencost) : list out :=
  match m with
  | [] => []
  | r :: mt =>
      (if is_ccv r then [OL [onat i; onat (var_index ngn i r); olist (fun mb => OL [oq (fst mb); oq (snd mb)]) (ay_rows r)]] else [])
      ++ ay_go ngn (S i) mt
  end.
Definition run_ay (e : env) (cs : list pcost) (ws : list wcost) (pmin pmax : list Q) (dc : bool) : out :=
  match make_objective e cs ws pmin pmax with
  | Raise s => OErr s
  | Ok m => OL (ay_go (ng e) 0 (if dc then firstn (ng e) m else m))
  end.

(* what _get_gen_index returns for a list of (kind, index label) cost keys: a row, None, or the error it raises *)
Definition run_rows (e : env) (keys : list (etype * Z)) : out :=
  OL (map (fun te => match get_gen_index e (fst te) (snd te) with Ok o => oopt OZ o | Raise s => OErr s end) keys).

(* the row one pwl entry produces (NCOST and cells written by _fill_gencost_pwl on a wide enough matrix) *)
Definition pwl_row (t : etype) (pts : list (Q * Q * Q)) : res grow :=
  bind (costs_from_areas pts (sign_p t)) (fun costs =>
  Ok {| g_model := 1; g_ncost := (Z.of_nat (List.length costs) / 2)%Z; g_c := costs |}).
Definition pwl_row_old (t : etype) (pts : list (Q * Q * Q)) : res grow :=
  bind (costs_from_areas_old pts (sign_p t)) (fun costs =>
  Ok {| g_model := 1; g_ncost := (Z.of_nat (List.length costs) / 2)%Z; g_c := costs |}).
Definition obj_of_res (r : res grow) (x : Q) : option Q := match r with Ok g => obj_row g x | Raise _ => None end.
