(* C17 — row bookkeeping of the gencost construction: after the sequential writes of _fill_gencost_poly every
   mapped cost entry owns exactly its row (when the row indices are valid and pairwise distinct), all other rows
   are untouched. *)
From Coq Require Import ZArith QArith List Bool Lia Lqa String.
From PPV Require Import Base.QN Base.Out C17.Model C17.Proofs.
Import ListNotations.
Open Scope Q_scope.

Definition wide (w : nat) (m : gencost) : Prop := Forall (fun r => List.length (g_c r) = w) m.

Lemma set_cells_full vals c : List.length vals = List.length c -> set_cells 0 vals c = Some vals.
Proof.
  revert c. induction vals as [|v vs IH]; intros [|x c] H; cbn in *; try discriminate; [reflexivity|].
  rewrite IH by lia. reflexivity.
Qed.

Lemma upd_nth_spec {A} (l : list A) k (f : A -> option A) x y :
  nth_error l k = Some x -> f x = Some y ->
  exists l', upd_nth l k f = Some l' /\ nth_error l' k = Some y /\ List.length l' = List.length l /\
             forall j, j <> k -> nth_error l' j = nth_error l j.
Proof.
  revert k. induction l as [|a l IH]; intros [|k] Hn Hf; cbn in *; try discriminate.
  - injection Hn as ->. rewrite Hf. eexists; split; [reflexivity|]. repeat split.
    intros [|j] Hj; [congruence | reflexivity].
  - destruct (IH k Hn Hf) as (l' & E & N & L & O). rewrite E. eexists; split; [reflexivity|].
    cbn. repeat split; [exact N | lia |]. intros [|j] Hj; [reflexivity | cbn; apply O; congruence].
Qed.

Lemma np_norm_in n g : (0 <= g < n)%Z -> np_norm n g = Some (Z.to_nat g).
Proof.
  intros [H0 H1]. unfold np_norm.
  assert ((0 <=? g)%Z = true) by (apply Z.leb_le; lia). assert ((g <? n)%Z = true) by (apply Z.ltb_lt; lia).
  rewrite H, H2. reflexivity.
Qed.

(* one write: succeeds, installs the row, keeps every other row and the shape *)
Lemma write_row_spec w (m : gencost) g n vals :
  wide w m -> (0 <= g < Z.of_nat (List.length m))%Z -> List.length vals = w ->
  exists m' r0, write_row m g n vals = Ok m' /\ nth_error m (Z.to_nat g) = Some r0 /\
    nth_error m' (Z.to_nat g) = Some {| g_model := g_model r0; g_ncost := n; g_c := vals |} /\
    wide w m' /\ List.length m' = List.length m /\
    forall j, j <> Z.to_nat g -> nth_error m' j = nth_error m j.
Proof.
  intros Hw Hg Hv. unfold write_row. rewrite (np_norm_in _ _ Hg).
  destruct (nth_error m (Z.to_nat g)) as [r0|] eqn:En.
  2:{ apply nth_error_None in En. lia. }
  assert (Hr0 : List.length (g_c r0) = w).
  { unfold wide in Hw. rewrite Forall_forall in Hw. apply Hw. eapply nth_error_In; eauto. }
  destruct (upd_nth_spec m (Z.to_nat g)
             (fun r => option_map (fun c => {| g_model := g_model r; g_ncost := n; g_c := c |}) (set_cells 0 vals (g_c r)))
             r0 {| g_model := g_model r0; g_ncost := n; g_c := vals |} En) as (m' & E & N & L & O).
  { rewrite set_cells_full by congruence. reflexivity. }
  rewrite E. exists m', r0. repeat split; auto.
  unfold wide. apply Forall_forall. intros r Hr. apply In_nth_error in Hr. destruct Hr as [j Hj].
  destruct (Nat.eq_dec j (Z.to_nat g)) as [->|Hne].
  - rewrite N in Hj. injection Hj as <-. exact Hv.
  - rewrite O in Hj by exact Hne. unfold wide in Hw. rewrite Forall_forall in Hw. apply Hw. eapply nth_error_In; eauto.
Qed.

Section Fold.
Variable A : Type.
Variable idx : A -> Z.                 (* row index of an entry *)
Variable cells : A -> Z * list Q.      (* NCOST and cells it writes *)
Variable w : nat.
Hypothesis cells_w : forall a, List.length (snd (cells a)) = w.

Definition writes (l : list A) (m : gencost) : res gencost :=
  fold_res (fun m a => write_row m (idx a) (fst (cells a)) (snd (cells a))) l m.

Theorem writes_spec l : forall m,
  wide w m -> (forall a, In a l -> (0 <= idx a < Z.of_nat (List.length m))%Z) -> NoDup (map idx l) ->
  exists m', writes l m = Ok m' /\ List.length m' = List.length m /\ wide w m' /\
    (forall a, In a l -> exists r0, nth_error m (Z.to_nat (idx a)) = Some r0 /\
        nth_error m' (Z.to_nat (idx a)) = Some {| g_model := g_model r0; g_ncost := fst (cells a); g_c := snd (cells a) |}) /\
    (forall j, (forall a, In a l -> Z.to_nat (idx a) <> j) -> nth_error m' j = nth_error m j).
Proof.
  induction l as [|a l IH]; intros m Hw Hr Hn.
  - exists m. cbn. repeat split; auto. intros a [].
  - cbn [writes fold_res]. inversion Hn as [|x xs Hnotin Hnd]; subst.
    destruct (write_row_spec w m (idx a) (fst (cells a)) (snd (cells a)) Hw (Hr a (or_introl eq_refl)) (cells_w a))
      as (m1 & r0 & E & N0 & N & W1 & L1 & O1).
    rewrite E. cbn [bind].
    destruct (IH m1 W1) as (m' & E' & L' & W' & Own & Oth).
    { intros b Hb. rewrite L1. apply Hr. now right. }
    { exact Hnd. }
    fold (writes l m1). exists m'. split; [exact E'|]. split; [congruence|]. split; [exact W'|]. split.
    + intros b [<-|Hb].
      * exists r0. split; [exact N0|]. rewrite Oth; [exact N|].
        intros b Hb Heq. apply Hnotin. apply in_map_iff. exists b. split; [|exact Hb].
        assert (Hb' := Hr b (or_intror Hb)). assert (Ha' := Hr a (or_introl eq_refl)). lia.
      * destruct (Own b Hb) as (r1 & N1 & N1'). exists r1. split; [|exact N1'].
        rewrite <- N1. symmetry. apply O1.
        intros Heq. apply Hnotin. apply in_map_iff. exists b. split; [|exact Hb].
        assert (Hb' := Hr b (or_intror Hb)). assert (Ha' := Hr a (or_introl eq_refl)). lia.
    + intros j Hj. rewrite Oth by (intros b Hb; apply Hj; now right).
      apply O1. intros Heq. apply (Hj a (or_introl eq_refl)). congruence.
Qed.
End Fold.

(* instance: the active-power writes of _fill_gencost_poly on the zero matrix.  Every mapped entry's row then
   evaluates, at the generator variable res_sign * p, to the user's polynomial; rows without an entry cost 0. *)
Definition zero_row (isq : bool) : grow := {| g_model := 2; g_ncost := 0; g_c := repeat 0 (if isq then 3 else 2)%nat |}.

Theorem poly_rows_spec (isq : bool) (gcs : list (Z * pcost)) (rows : nat) :
  (forall gc, In gc gcs -> (0 <= fst gc < Z.of_nat rows)%Z) -> NoDup (map fst gcs) ->
  (isq = false -> forall gc, In gc gcs -> cp2 (snd gc) == 0) ->
  exists m', writes _ fst (fun gc => p_cells isq (snd gc)) gcs (repeat (zero_row isq) rows) = Ok m' /\
    List.length m' = rows /\
    (forall gc p, In gc gcs -> exists r, nth_error m' (Z.to_nat (fst gc)) = Some r /\
        polycost r (res_sign (pc_et (snd gc)) * p) == user_poly (cp0 (snd gc)) (cp1 (snd gc)) (cp2 (snd gc)) p) /\
    (forall j x, (j < rows)%nat -> (forall gc, In gc gcs -> Z.to_nat (fst gc) <> j) ->
        exists r, nth_error m' j = Some r /\ polycost r x == 0).
Proof.
  intros Hr Hn Hq.
  set (w := (if isq then 3 else 2)%nat).
  assert (Hw : wide w (repeat (zero_row isq) rows)).
  { unfold wide. apply Forall_forall. intros r Hin. apply repeat_spec in Hin. subst r. cbn. apply repeat_length. }
  assert (Hc : forall gc : Z * pcost, List.length (snd (p_cells isq (snd gc))) = w).
  { intros gc. unfold p_cells, cells_of, w. destruct isq; reflexivity. }
  destruct (writes_spec _ fst (fun gc => p_cells isq (snd gc)) w Hc gcs (repeat (zero_row isq) rows) Hw) as (m' & E & L & W & Own & Oth).
  { intros a Ha. rewrite repeat_length. apply Hr. exact Ha. }
  { exact Hn. }
  exists m'. split; [exact E|]. split; [rewrite L; apply repeat_length|]. split.
  - intros gc p Hin. destruct (Own gc Hin) as (r0 & N0 & N). eexists. split; [exact N|].
    assert (g_model r0 = 2%Z).
    { apply nth_error_In in N0. apply repeat_spec in N0. now subst r0. }
    rewrite H. change {| g_model := 2; g_ncost := fst (p_cells isq (snd gc)); g_c := snd (p_cells isq (snd gc)) |}
      with (row_of (p_cells isq (snd gc))).
    unfold p_cells. apply poly_cost. intros Hi. apply (Hq Hi gc Hin).
  - intros j x Hj Hno. rewrite (Oth j Hno). exists (zero_row isq). split.
    + apply nth_error_repeat. exact Hj.
    + unfold polycost, zero_row. cbn. reflexivity.
Qed.

(* _fill_gencost_poly without reactive costs IS this sequence of writes on the mapped entries *)
Lemma fill_poly_is_writes e m cs isq :
  fill_poly e m cs isq false
  = bind (map_costs e (fun c => (pc_et c, pc_el c)) cs) (fun gcs => writes _ fst (fun gc => p_cells isq (snd gc)) gcs m).
Proof.
  unfold fill_poly, writes. destruct (map_costs e _ cs) as [gcs|s]; cbn [bind]; [|reflexivity].
  destruct (fold_res _ gcs m); reflexivity.
Qed.
