(* C17 — which gencost row a cost entry addresses (lookup value -1, dcline position -> label) and the table theorem
   for _fill_gencost_poly WITH reactive cost rows. *)
From Coq Require Import ZArith QArith List Bool Lia Lqa String.
From PPV Require Import Base.QN Base.Out C17.Model C17.Proofs C17.Table.
Import ListNotations.
Open Scope Q_scope.

(* ------------------------------------------------------------------ _map_costs_to_gen *)
(* the mapped list holds exactly the entries whose _get_gen_index is a row, in the order of the cost table *)
Lemma map_costs_in {A} e (key : A -> etype * Z) cs : forall gcs, map_costs e key cs = Ok gcs ->
  forall g c, In (g, c) gcs <-> In c cs /\ get_gen_index e (fst (key c)) (snd (key c)) = Ok (Some g).
Proof.
  induction cs as [|c0 cs IH]; intros gcs H g c.
  - injection H as <-. cbn. tauto.
  - cbn [map_costs] in H. destruct (get_gen_index e (fst (key c0)) (snd (key c0))) as [og|s] eqn:E0; [|discriminate].
    cbn [bind] in H. destruct (map_costs e key cs) as [rest|s] eqn:Er; [|discriminate]. cbn [bind] in H.
    injection H as <-. specialize (IH rest eq_refl g c). destruct og as [g0|].
    + cbn [In]. rewrite IH. split.
      * intros [Heq|[Hin Hg]]; [injection Heq as <- <-; split; [now left | exact E0] | split; [now right | exact Hg]].
      * intros [[<-|Hin] Hg]; [left; rewrite E0 in Hg; injection Hg as <-; reflexivity | right; split; assumption].
    + rewrite IH. cbn [In]. split.
      * intros [Hin Hg]; split; [now right | exact Hg].
      * intros [[<-|Hin] Hg]; [rewrite E0 in Hg; discriminate | split; assumption].
Qed.

Lemma nonneg_some o g : nonneg o = Some g -> o = Some g /\ (0 <= g)%Z.
Proof.
  unfold nonneg. destruct o as [v|]; [|discriminate]. destruct (v <? 0)%Z eqn:E; [discriminate|].
  intros H. injection H as <-. split; [reflexivity | apply Z.ltb_ge in E; exact E].
Qed.

(* a row index returned by _get_gen_index is never negative: it cannot wrap around to the last rows *)
Lemma get_gen_index_nonneg e t el g : get_gen_index e t el = Ok (Some g) -> (0 <= g)%Z.
Proof.
  unfold get_gen_index. destruct t;
    try (intros H; injection H as H; apply nonneg_some in H; tauto).
  destruct (index_of (dcl_index e) el 0); [|discriminate].
  destruct (np_get (gen_labels e) (dcl_pos e n)); [|discriminate].
  intros H; injection H as H; apply nonneg_some in H; tauto.
Qed.

(* ... and it is the value the lookup of the element's kind holds for the element *)
Lemma get_gen_index_is_lookup e t el g : t <> Dcline ->
  get_gen_index e t el = Ok (Some g) -> lookup_get (lookup_of e t) el = Some g.
Proof.
  intros Ht. unfold get_gen_index. destruct t; try congruence;
    intros H; injection H as H; apply nonneg_some in H; tauto.
Qed.

(* an element that is not part of the ppc (lookup value -1, any negative value) has no cost row *)
Lemma absent_element_no_row e t el v : t <> Dcline ->
  lookup_get (lookup_of e t) el = Some v -> (v < 0)%Z -> get_gen_index e t el = Ok None.
Proof.
  intros Ht Hl Hv. unfold get_gen_index. destruct t; try congruence; rewrite Hl; unfold nonneg;
    apply Z.ltb_lt in Hv; rewrite Hv; reflexivity.
Qed.

(* so its cost entry writes nothing: the mapped list skips it *)
Lemma absent_element_dropped {A} e (key : A -> etype * Z) c cs v : fst (key c) <> Dcline ->
  lookup_get (lookup_of e (fst (key c))) (snd (key c)) = Some v -> (v < 0)%Z ->
  map_costs e key (c :: cs) = map_costs e key cs.
Proof.
  intros Ht Hl Hv. cbn [map_costs]. rewrite (absent_element_no_row _ _ _ _ Ht Hl Hv). cbn [bind].
  destruct (map_costs e key cs); reflexivity.
Qed.

(* all mapped rows are valid rows of the gencost when the lookups point into the ppc gen table *)
Definition lookups_below (e : env) : Prop :=
  forall t el g, lookup_get (lookup_of e t) el = Some g -> (g < Z.of_nat (ng e))%Z.

Lemma get_gen_index_below e t el g : lookups_below e -> get_gen_index e t el = Ok (Some g) -> (0 <= g < Z.of_nat (ng e))%Z.
Proof.
  intros Hb H. split; [exact (get_gen_index_nonneg _ _ _ _ H)|].
  revert H. unfold get_gen_index.
  destruct t eqn:Et;
    try (intros H; injection H as H; apply nonneg_some in H; destruct H as [H _];
         first [exact (Hb Gen _ _ H) | exact (Hb Sgen _ _ H) | exact (Hb Load _ _ H) | exact (Hb Storage _ _ H)
               | exact (Hb ExtGrid _ _ H)]).
  destruct (index_of (dcl_index e) el 0) as [n|]; [|discriminate].
  destruct (np_get (gen_labels e) (dcl_pos e n)) as [lab|]; [|discriminate].
  intros H; injection H as H; apply nonneg_some in H; destruct H as [H _]. exact (Hb Gen _ _ H).
Qed.

Lemma map_costs_rows_valid {A} e (key : A -> etype * Z) cs gcs : lookups_below e ->
  map_costs e key cs = Ok gcs -> forall gc, In gc gcs -> (0 <= fst gc < Z.of_nat (ng e))%Z.
Proof.
  intros Hb H [g c] Hin. apply (map_costs_in e key cs gcs H) in Hin. destruct Hin as [_ Hg].
  exact (get_gen_index_below _ _ _ _ Hb Hg).
Qed.

(* the rule before the repair: the lookup value -1 was used as a numpy row index and addressed the LAST row,
   i.e. the cost of an element outside the ppc overwrote the cost row of another generator *)
Definition env_absent : env :=
  {| lk_gen := Some [1%Z]; lk_sgen := Some [(-1)%Z]; lk_load := None; lk_storage := None; lk_ext := Some [0%Z];
     n_gen_tab := 1; gen_labels := [0%Z]; dcl_index := []; ng := 2 |}.
Lemma absent_old_refuted :
  get_gen_index_wrap_old env_absent Sgen 0 = Ok (Some (-1)%Z) /\
  (exists m', write_row (repeat (zero_row false) 2) (-1) 2 [7; 0] = Ok m' /\
              nth_error m' 1 = Some {| g_model := 2; g_ncost := 2; g_c := [7; 0] |}) /\
  get_gen_index env_absent Sgen 0 = Ok None.
Proof. split; [reflexivity|]. split; [|reflexivity]. eexists. split; reflexivity. Qed.

(* ------------------------------------------------------------------ dcline: position -> label *)
Lemma index_of_shift l x : forall k j, index_of l x k = Some j -> (k <= j)%nat /\ nth_error l (j - k) = Some x.
Proof.
  induction l as [|y l IH]; intros k j H; [discriminate|]. cbn [index_of] in H.
  destruct (Z.eqb x y) eqn:E.
  - injection H as <-. apply Z.eqb_eq in E. subst y. rewrite Nat.sub_diag. split; [lia | reflexivity].
  - destruct (IH _ _ H) as [Hle Hn]. split; [lia|]. replace (j - k)%nat with (S (j - S k)) by lia. exact Hn.
Qed.

Lemma index_of_nodup l x : forall k j, NoDup l -> nth_error l j = Some x -> index_of l x k = Some (k + j)%nat.
Proof.
  induction l as [|y l IH]; intros k j Hn Hj; [destruct j; discriminate|].
  inversion Hn as [|? ? Hnotin Hn']; subst. cbn [index_of]. destruct j as [|j].
  - injection Hj as ->. rewrite Z.eqb_refl. f_equal. lia.
  - cbn [nth_error] in Hj. destruct (Z.eqb x y) eqn:E.
    + apply Z.eqb_eq in E. subst y. exfalso. apply Hnotin. eapply nth_error_In; eauto.
    + rewrite (IH (S k) j Hn' Hj). f_equal. lia.
Qed.

(* net.gen = the user's generators followed by the pairs (to-bus gen, from-bus gen) of the dclines
   (_add_dcline_gens appends them in the order of net.dcline): the position used by _get_gen_index is the one of
   the from-bus generator of the k-th dcline *)
Lemma dcl_pos_is_from_gen e (user aux : list Z) k :
  gen_labels e = user ++ aux -> List.length aux = (2 * List.length (dcl_index e))%nat ->
  n_gen_tab e = Z.of_nat (List.length (gen_labels e)) -> (k < List.length (dcl_index e))%nat ->
  np_get (gen_labels e) (dcl_pos e k) = nth_error aux (2 * k + 1).
Proof.
  intros Hg Ha Hn Hk. unfold np_get, dcl_pos. rewrite Hn, Hg, app_length.
  set (nu := List.length user). set (nd := List.length (dcl_index e)) in *.
  assert (Epos : (Z.of_nat (nu + List.length aux) - 2 * Z.of_nat nd + Z.of_nat k * 2 + 1
                  = Z.of_nat (nu + (2 * k + 1)))%Z) by lia.
  rewrite Epos. unfold np_norm.
  assert (E1 : (0 <=? Z.of_nat (nu + (2 * k + 1)))%Z = true) by (apply Z.leb_le; lia).
  assert (E2 : (Z.of_nat (nu + (2 * k + 1)) <? Z.of_nat (nu + List.length aux))%Z = true) by (apply Z.ltb_lt; lia).
  rewrite E1, E2. cbn [andb]. rewrite Nat2Z.id. rewrite nth_error_app2 by (unfold nu; lia).
  f_equal. unfold nu. lia.
Qed.

(* the cost entry of the dcline with index label el (the k-th row of net.dcline) addresses the ppc row of its
   from-bus generator aux[2k+1] — or no row when that generator is not part of the ppc *)
Theorem dcline_row_spec e (user aux : list Z) k el lab :
  gen_labels e = user ++ aux -> List.length aux = (2 * List.length (dcl_index e))%nat ->
  n_gen_tab e = Z.of_nat (List.length (gen_labels e)) -> NoDup (dcl_index e) ->
  nth_error (dcl_index e) k = Some el -> nth_error aux (2 * k + 1) = Some lab ->
  get_gen_index e Dcline el = Ok (nonneg (lookup_get (lk_gen e) lab)).
Proof.
  intros Hg Ha Hn Hnd Hk Hlab.
  assert (Hlt : (k < List.length (dcl_index e))%nat) by (apply nth_error_Some; congruence).
  apply dcline_row_is_from_gen with (k := k).
  - exact (index_of_nodup _ _ 0%nat k Hnd Hk).
  - rewrite (dcl_pos_is_from_gen e user aux k Hg Ha Hn Hlt). exact Hlab.
Qed.

(* not vacuous: gens 0 and 2, one dcline -> auxiliary gens 3 (to-bus) and 4 (from-bus) *)
Example dcline_row_spec_nonvacuous :
  gen_labels env_gapped = [0; 2]%Z ++ [3; 4]%Z /\ nth_error (dcl_index env_gapped) 0 = Some 0%Z /\
  get_gen_index env_gapped Dcline 0 = Ok (Some 4%Z).
Proof. repeat split. Qed.

(* ------------------------------------------------------------------ the table with reactive rows *)
Lemma NoDup_map_shift {A} (f : A -> Z) (n : Z) l : NoDup (map f l) -> NoDup (map (fun a => (f a + n)%Z) l).
Proof.
  induction l as [|a l IH]; cbn; intros H; [constructor|]. inversion H as [|? ? Hnotin Hn]; subst.
  constructor; [|exact (IH Hn)]. intros Hin. apply Hnotin. apply in_map_iff in Hin. destruct Hin as (b & Hb & Hbin).
  apply in_map_iff. exists b. split; [lia | exact Hbin].
Qed.

Definition fill_writes (isq : bool) (ngn : nat) (gcs : list (Z * pcost)) (m : gencost) : res gencost :=
  bind (writes _ fst (fun gc => p_cells isq (snd gc)) gcs m) (fun m1 =>
        writes _ (fun gc => (fst gc + Z.of_nat ngn)%Z) (fun gc => q_cells isq (snd gc)) gcs m1).

(* _fill_gencost_poly with reactive costs IS the sequence of the active writes followed by the reactive writes *)
Lemma fill_poly_q_is_writes e m cs isq :
  fill_poly e m cs isq true
  = bind (map_costs e (fun c => (pc_et c, pc_el c)) cs) (fun gcs => fill_writes isq (ng e) gcs m).
Proof. reflexivity. Qed.

Theorem poly_rows_spec_q (isq : bool) (gcs : list (Z * pcost)) (ngn : nat) :
  (forall gc, In gc gcs -> (0 <= fst gc < Z.of_nat ngn)%Z) -> NoDup (map fst gcs) ->
  (isq = false -> forall gc, In gc gcs -> cp2 (snd gc) == 0 /\ cq2 (snd gc) == 0) ->
  exists m', fill_writes isq ngn gcs (repeat (zero_row isq) (2 * ngn)) = Ok m' /\
    List.length m' = (2 * ngn)%nat /\
    (forall gc p q, In gc gcs -> exists rp rq,
        nth_error m' (Z.to_nat (fst gc)) = Some rp /\ nth_error m' (Z.to_nat (fst gc) + ngn) = Some rq /\
        polycost rp (res_sign (pc_et (snd gc)) * p) == user_poly (cp0 (snd gc)) (cp1 (snd gc)) (cp2 (snd gc)) p /\
        polycost rq (res_sign (pc_et (snd gc)) * q) == user_poly (cq0 (snd gc)) (cq1 (snd gc)) (cq2 (snd gc)) q) /\
    (forall j x, (j < 2 * ngn)%nat ->
        (forall gc, In gc gcs -> Z.to_nat (fst gc) <> j /\ (Z.to_nat (fst gc) + ngn)%nat <> j) ->
        exists r, nth_error m' j = Some r /\ polycost r x == 0).
Proof.
  intros Hr Hn Hq.
  set (w := (if isq then 3 else 2)%nat). set (m0 := repeat (zero_row isq) (2 * ngn)).
  assert (Hw : wide w m0).
  { unfold wide. apply Forall_forall. intros r Hin. apply repeat_spec in Hin. subst r. cbn. apply repeat_length. }
  assert (Hm0 : List.length m0 = (2 * ngn)%nat) by apply repeat_length.
  assert (Hz : forall j r, nth_error m0 j = Some r -> r = zero_row isq).
  { intros j r Hj. apply nth_error_In in Hj. apply repeat_spec in Hj. exact Hj. }
  assert (Hcp : forall gc : Z * pcost, List.length (snd (p_cells isq (snd gc))) = w).
  { intros gc. unfold p_cells, cells_of, w. destruct isq; reflexivity. }
  assert (Hcq : forall gc : Z * pcost, List.length (snd (q_cells isq (snd gc))) = w).
  { intros gc. unfold q_cells, cells_of, w. destruct isq; reflexivity. }
  destruct (writes_spec _ fst (fun gc => p_cells isq (snd gc)) w Hcp gcs m0 Hw) as (m1 & E1 & L1 & W1 & Own1 & Oth1).
  { intros a Ha. rewrite Hm0. specialize (Hr a Ha). lia. }
  { exact Hn. }
  destruct (writes_spec _ (fun gc => (fst gc + Z.of_nat ngn)%Z) (fun gc => q_cells isq (snd gc)) w Hcq gcs m1 W1)
    as (m2 & E2 & L2 & W2 & Own2 & Oth2).
  { intros a Ha. rewrite L1, Hm0. specialize (Hr a Ha). lia. }
  { apply NoDup_map_shift. exact Hn. }
  exists m2. split; [unfold fill_writes; fold m0; rewrite E1; cbn [bind]; exact E2|].
  split; [congruence|]. split.
  - intros gc p q Hin. assert (Hg := Hr gc Hin).
    (* the active row survives the reactive writes *)
    destruct (Own1 gc Hin) as (r0 & N0 & N1).
    assert (N2 : nth_error m2 (Z.to_nat (fst gc)) = nth_error m1 (Z.to_nat (fst gc))).
    { apply Oth2. intros b Hb. specialize (Hr b Hb). lia. }
    (* the reactive row was a zero row when it was written *)
    destruct (Own2 gc Hin) as (r1 & M0 & M1).
    assert (M0' : nth_error m1 (Z.to_nat (fst gc + Z.of_nat ngn)) = nth_error m0 (Z.to_nat (fst gc + Z.of_nat ngn))).
    { apply Oth1. intros b Hb. specialize (Hr b Hb). lia. }
    rewrite M0' in M0. rewrite (Hz _ _ N0) in N1. rewrite (Hz _ _ M0) in M1. cbn [zero_row g_model] in N1, M1.
    replace (Z.to_nat (fst gc + Z.of_nat ngn)) with (Z.to_nat (fst gc) + ngn)%nat in M1 by lia.
    eexists _, _. split; [rewrite N2; exact N1|]. split; [exact M1|]. split.
    + change {| g_model := 2; g_ncost := fst (p_cells isq (snd gc)); g_c := snd (p_cells isq (snd gc)) |}
        with (row_of (p_cells isq (snd gc))).
      unfold p_cells. apply poly_cost. intros Hi. apply (Hq Hi gc Hin).
    + change {| g_model := 2; g_ncost := fst (q_cells isq (snd gc)); g_c := snd (q_cells isq (snd gc)) |}
        with (row_of (q_cells isq (snd gc))).
      unfold q_cells. apply poly_qcost. intros Hi. apply (Hq Hi gc Hin).
  - intros j x Hj Hno.
    assert (N2 : nth_error m2 j = nth_error m1 j).
    { apply Oth2. intros b Hb. specialize (Hr b Hb). specialize (Hno b Hb). lia. }
    assert (N1 : nth_error m1 j = nth_error m0 j).
    { apply Oth1. intros b Hb. specialize (Hno b Hb). tauto. }
    exists (zero_row isq). split.
    + rewrite N2, N1. apply nth_error_repeat. exact Hj.
    + unfold polycost, zero_row. cbn. reflexivity.
Qed.

(* from the lookups to the rows: with lookups that point into the ppc gen table the bounds hypothesis of the
   table theorems holds for the list _map_costs_to_gen returns *)
Theorem fill_poly_q_spec e cs isq gcs :
  lookups_below e -> map_costs e (fun c => (pc_et c, pc_el c)) cs = Ok gcs -> NoDup (map fst gcs) ->
  (isq = false -> forall gc, In gc gcs -> cp2 (snd gc) == 0 /\ cq2 (snd gc) == 0) ->
  exists m', fill_poly e (repeat (zero_row isq) (2 * ng e)) cs isq true = Ok m' /\
    List.length m' = (2 * ng e)%nat /\
    (forall gc p q, In gc gcs -> exists rp rq,
        nth_error m' (Z.to_nat (fst gc)) = Some rp /\ nth_error m' (Z.to_nat (fst gc) + ng e) = Some rq /\
        polycost rp (res_sign (pc_et (snd gc)) * p) == user_poly (cp0 (snd gc)) (cp1 (snd gc)) (cp2 (snd gc)) p /\
        polycost rq (res_sign (pc_et (snd gc)) * q) == user_poly (cq0 (snd gc)) (cq1 (snd gc)) (cq2 (snd gc)) q) /\
    (forall j x, (j < 2 * ng e)%nat ->
        (forall gc, In gc gcs -> Z.to_nat (fst gc) <> j /\ (Z.to_nat (fst gc) + ng e)%nat <> j) ->
        exists r, nth_error m' j = Some r /\ polycost r x == 0).
Proof.
  intros Hb Hm Hn Hq. rewrite fill_poly_q_is_writes, Hm. cbn [bind].
  apply poly_rows_spec_q; [|exact Hn|exact Hq].
  exact (map_costs_rows_valid e _ cs gcs Hb Hm).
Qed.

Example poly_rows_q_nonvacuous :
  exists m', fill_writes true 2
      [(1%Z, {| pc_et := Load; pc_el := 0; cp0 := 5; cp1 := 2; cp2 := 1; cq0 := 3; cq1 := 1; cq2 := 1 # 2 |})]
      (repeat (zero_row true) 4) = Ok m' /\
    nth_error m' 1 = Some {| g_model := 2; g_ncost := 3; g_c := [1; -2; 5] |} /\
    nth_error m' 3 = Some {| g_model := 2; g_ncost := 3; g_c := [1 # 2; -1; 3] |}.
Proof. eexists. repeat split; vm_compute; reflexivity. Qed.
