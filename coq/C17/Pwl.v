(* C17 — piecewise linear cost entries with any number of consecutive convex areas: the gencost row written by
   _fill_gencost_pwl / costs_from_areas, read as the OPF reads it (cost variable constrained from below by every
   segment line, makeAy), is the user's function at the element's own power — for every element kind, including
   the mirrored breakpoints of load / storage / dcline. *)
From Coq Require Import ZArith QArith List Bool Lia Lqa String.
From PPV Require Import Base.QN Base.Out C17.Model C17.Proofs.
Import ListNotations.
Open Scope Q_scope.

(* ------------------------------------------------------------------ consecutive pairs of a list *)
Lemma segs_as_map {A B} (f : A -> A -> B) P : segs f P = map (fun ab => f (fst ab) (snd ab)) (segs pair P).
Proof.
  induction P as [|a [|b t] IH]; try reflexivity.
  change (f a b :: segs f (b :: t) = f a b :: map (fun ab => f (fst ab) (snd ab)) (segs pair (b :: t))).
  now rewrite IH.
Qed.

Lemma segs_app2 {A B} (f : A -> A -> B) P a b : segs f (P ++ [a; b]) = segs f (P ++ [a]) ++ [f a b].
Proof.
  induction P as [|x [|y P] IH]; try reflexivity.
  change (f x y :: segs f ((y :: P) ++ [a; b]) = (f x y :: segs f ((y :: P) ++ [a])) ++ [f a b]).
  now rewrite IH.
Qed.

Lemma segs_rev {A B} (f : A -> A -> B) P : segs f (rev P) = rev (segs (fun a b => f b a) P).
Proof.
  induction P as [|x [|y P] IH]; try reflexivity.
  change (segs f ((rev P ++ [y]) ++ [x]) = rev (f y x :: segs (fun a b => f b a) (y :: P))).
  rewrite <- app_assoc. cbn [app]. rewrite segs_app2.
  change (rev P ++ [y]) with (rev (y :: P)). rewrite IH. reflexivity.
Qed.

Lemma segs_map {A B C} (g : C -> A) (f : A -> A -> B) P : segs f (map g P) = segs (fun a b => f (g a) (g b)) P.
Proof.
  induction P as [|x [|y P] IH]; try reflexivity.
  change (f (g x) (g y) :: segs f (map g (y :: P)) = f (g x) (g y) :: segs (fun a b => f (g a) (g b)) (y :: P)).
  now rewrite IH.
Qed.

Lemma segs_length {A B} (f : A -> A -> B) P : List.length (segs f P) = pred (List.length P).
Proof.
  induction P as [|x [|y P] IH]; try reflexivity.
  change (S (List.length (segs f (y :: P))) = S (List.length P)). rewrite IH. reflexivity.
Qed.

Lemma Forall2_map_same {A} (f g : A -> Q) X : Forall (fun a => f a == g a) X -> Forall2 Qeq (map f X) (map g X).
Proof. induction 1; cbn; constructor; auto. Qed.

Lemma Forall2_rev {A B} (R : A -> B -> Prop) l l' : Forall2 R l l' -> Forall2 R (rev l) (rev l').
Proof.
  induction 1; cbn; [constructor|]. apply Forall2_app; [assumption | constructor; [assumption | constructor]].
Qed.

(* ------------------------------------------------------------------ the maximum of a list of values *)
Definition is_max (r : Q) (vals : list Q) : Prop := Forall (fun v => v <= r) vals /\ Exists (fun v => r == v) vals.

Lemma is_max_eqv r vals vals' : Forall2 Qeq vals vals' -> is_max r vals -> is_max r vals'.
Proof.
  intros H [Hf He]. split.
  - clear He. induction H; [constructor|]. inversion Hf; subst. constructor; [lra | auto].
  - clear Hf. induction H; [inversion He|]. inversion He; subst; [left; lra | right; auto].
Qed.

Lemma is_max_rev r vals : is_max r vals -> is_max r (rev vals).
Proof. intros [Hf He]. split; [apply Forall_rev | apply Exists_rev]; assumption. Qed.

(* a value F that bounds all and is attained is the maximum *)
Lemma is_max_is r F vals :
  Forall (fun v => v <= F) vals -> Exists (fun v => v == F) vals -> is_max r vals -> r == F.
Proof.
  intros HF HE [Hr He].
  assert (r <= F).
  { clear HE Hr. induction He as [v l H|v l H IH]; inversion HF; subst; [lra | auto]. }
  assert (F <= r).
  { clear He HF. induction HE as [v l H'|v l H' IH]; inversion Hr; subst; [lra | auto]. }
  lra.
Qed.

(* the feasible values of a variable bounded from below by all values are those above the maximum *)
Lemma is_max_bound r vals y : is_max r vals -> (Forall (fun v => v <= y) vals <-> r <= y).
Proof.
  intros [Hr He]. split.
  - intros Hy. clear Hr. induction He as [v l H|v l H IH]; inversion Hy; subst; [lra | auto].
  - intros Hy. eapply Forall_impl; [|exact Hr]. cbn. intros; lra.
Qed.

Definition fmax (o : option Q) (v : Q) : option Q := Some (match o with Some a => qmax a v | None => v end).

Lemma fold_max vals : forall a, exists r, fold_left fmax vals (Some a) = Some r /\ is_max r (a :: vals).
Proof.
  induction vals as [|v vals IH]; intros a.
  - exists a. split; [reflexivity|]. split; [constructor; [lra | constructor] | left; reflexivity].
  - cbn [fold_left fmax]. destruct (IH (qmax a v)) as (r & E & [Hf He]). exists r. split; [exact E|].
    inversion Hf as [|x l Hx Hl]; subst.
    destruct (qmax_cases a v) as [[Em Lm]|[Em Lm]].
    + split.
      * constructor; [lra | constructor; [lra | exact Hl]].
      * inversion He; subst; [left; lra | right; right; assumption].
    + split.
      * constructor; [lra | constructor; [lra | exact Hl]].
      * inversion He; subst; [right; left; lra | right; right; assumption].
Qed.

(* ------------------------------------------------------------------ lines_max is that maximum *)
Definition seg_val (x : Q) (a b : Q * Q) : Q :=
  qadd (qmul (qdiv (qsub (snd b) (snd a)) (qsub (fst b) (fst a))) (qsub x (fst a))) (snd a).
(* no two consecutive breakpoints coincide (otherwise makeAy divides by zero) *)
Definition distinct_x (P : list (Q * Q)) : Prop := Forall (fun ab => ~ fst (snd ab) == fst (fst ab)) (segs pair P).

Lemma distinct_x_cons a b t : distinct_x (a :: b :: t) <-> ~ fst b == fst a /\ distinct_x (b :: t).
Proof.
  unfold distinct_x. change (segs pair (a :: b :: t)) with ((a, b) :: segs pair (b :: t)).
  split; [intros H; inversion H; subst; auto | intros [H1 H2]; constructor; auto].
Qed.

Lemma lines_max_fold P x : distinct_x P -> forall acc, lines_max P x acc = fold_left fmax (segs (seg_val x) P) acc.
Proof.
  induction P as [|[p1 c1] [|[p2 c2] t] IH]; intros Hd acc; try reflexivity.
  apply distinct_x_cons in Hd. destruct Hd as [Hne Hd]. cbn [fst] in Hne.
  change (segs (seg_val x) ((p1, c1) :: (p2, c2) :: t))
    with (seg_val x (p1, c1) (p2, c2) :: segs (seg_val x) ((p2, c2) :: t)).
  cbn [fold_left]. rewrite <- (IH Hd). cbn [lines_max].
  destruct (qeqb p2 p1) eqn:E; [apply qeqb_eq in E; contradiction|].
  destruct acc; reflexivity.
Qed.

Lemma lines_max_is_max P x : distinct_x P -> (2 <= List.length P)%nat ->
  exists r, lines_max P x None = Some r /\ is_max r (segs (seg_val x) P).
Proof.
  intros Hd Hl. rewrite lines_max_fold by exact Hd.
  destruct P as [|a [|b t]]; cbn in Hl; try lia.
  change (segs (seg_val x) (a :: b :: t)) with (seg_val x a b :: segs (seg_val x) (b :: t)).
  cbn [fold_left fmax]. apply fold_max.
Qed.

(* the value the objective gives a pwl row with the breakpoints P *)
Lemma obj_row_is_max n c P x :
  pwl_points {| g_model := 1; g_ncost := n; g_c := c |} = P -> distinct_x P -> (2 <= List.length P)%nat ->
  exists r, obj_row {| g_model := 1; g_ncost := n; g_c := c |} x = Some r /\ is_max r (segs (seg_val x) P).
Proof.
  intros HP Hd Hl. unfold obj_row. cbn [g_model Z.eqb Pos.eqb]. rewrite HP.
  destruct P as [|[x0 y0] [|[x1 y1] [|c3 t]]]; cbn in Hl; try lia.
  - apply distinct_x_cons in Hd. destruct Hd as [Hne _]. cbn [fst] in Hne.
    destruct (qeqb x1 x0) eqn:E; [apply qeqb_eq in E; contradiction|].
    eexists. split; [reflexivity|]. cbn [segs]. split.
    + constructor; [|constructor]. unfold seg_val. cbn [fst snd]. qnorm. apply Qle_lteq. right. ring.
    + left. unfold seg_val. cbn [fst snd]. qnorm. ring.
  - apply lines_max_is_max; [exact Hd | cbn; lia].
Qed.

(* the makeAy constraints of the row say: y is at least every segment value *)
Lemma ay_feasible_iff r x y : distinct_x (pwl_points r) ->
  (ay_feasible r x y <-> Forall (fun v => v <= y) (segs (seg_val x) (pwl_points r))).
Proof.
  unfold ay_feasible, ay_rows, distinct_x. rewrite (segs_as_map ay_seg), (segs_as_map (seg_val x)).
  rewrite !Forall_map. intros Hd. split; intros H.
  - rewrite Forall_forall in *. intros ab Hin. specialize (H ab Hin). specialize (Hd ab Hin). revert H.
    unfold ay_seg, seg_val. cbn [fst snd]. qnorm. intros H.
    assert (E : (snd (snd ab) - snd (fst ab)) / (fst (snd ab) - fst (fst ab)) * (x - fst (fst ab)) + snd (fst ab)
                == (snd (snd ab) - snd (fst ab)) / (fst (snd ab) - fst (fst ab)) * x
                   - ((snd (snd ab) - snd (fst ab)) / (fst (snd ab) - fst (fst ab)) * fst (fst ab) - snd (fst ab))) by ring.
    rewrite E. lra.
  - rewrite Forall_forall in *. intros ab Hin. specialize (H ab Hin). specialize (Hd ab Hin). revert H.
    unfold ay_seg, seg_val. cbn [fst snd]. qnorm. intros H.
    assert (E : (snd (snd ab) - snd (fst ab)) / (fst (snd ab) - fst (fst ab)) * (x - fst (fst ab)) + snd (fst ab)
                == (snd (snd ab) - snd (fst ab)) / (fst (snd ab) - fst (fst ab)) * x
                   - ((snd (snd ab) - snd (fst ab)) / (fst (snd ab) - fst (fst ab)) * fst (fst ab) - snd (fst ab))) by ring.
    rewrite E in H. lra.
Qed.

(* ------------------------------------------------------------------ costs_from_areas: the breakpoints *)
Definition nxt (v l u s : Q) : Q := qadd v (qmul (qmul (qsub u l) s) 1).
Lemma nxt_eq v l u s : nxt v l u s == v + (u - l) * s.
Proof. unfold nxt. qnorm. ring. Qed.

Fixpoint bps (pts : list (Q * Q * Q)) (v : Q) : list (Q * Q) :=
  match pts with [] => [] | (l, u, s) :: t => (u, nxt v l u s) :: bps t (nxt v l u s) end.
(* areas that continue a function whose last breakpoint is lu and whose last slope is s0, convexly *)
Fixpoint cvx (lu s0 : Q) (pts : list (Q * Q * Q)) : bool :=
  match pts with [] => true | (l, u, s) :: t => qeqb lu l && qltb l u && qleb s0 s && cvx u s t end.

Lemma cvx_inv lu s0 l u s t : cvx lu s0 ((l, u, s) :: t) = true -> lu == l /\ l < u /\ s0 <= s /\ cvx u s t = true.
Proof.
  cbn [cvx]. intros H. repeat (apply andb_true_iff in H; destruct H as [H ?]).
  repeat split; [now apply qeqb_eq | now apply qltb_lt | now apply qleb_le | assumption].
Qed.

Lemma convex_cvx l u s t : convex_areas ((l, u, s) :: t) = true -> l < u /\ cvx u s t = true.
Proof.
  unfold convex_areas. revert l u s. induction t as [|[[l2 u2] s2] t IH]; intros l u s H.
  - cbn in H. rewrite andb_true_r in H. split; [now apply qltb_lt | reflexivity].
  - apply andb_true_iff in H. destruct H as [Hc Hs].
    cbn [consecutive] in Hc. cbn [nondecr_slopes] in Hs.
    repeat (apply andb_true_iff in Hc; destruct Hc as [Hc ?]). apply andb_true_iff in Hs. destruct Hs as [Hs1 Hs2].
    split; [now apply qltb_lt|]. cbn [cvx].
    destruct (IH l2 u2 s2) as [Hlt Hcv]. { apply andb_true_iff. split; assumption. }
    apply qltb_lt in Hlt. rewrite H0, Hlt, Hs1, Hcv. reflexivity.
Qed.

Lemma areas_go_bps pts : forall v lu s0, cvx lu s0 pts = true -> areas_go pts 1 v (Some lu) = Ok (unpairs (bps pts v)).
Proof.
  induction pts as [|[[l u] s] t IH]; intros v lu s0 H; [reflexivity|].
  cbn [cvx] in H. repeat (apply andb_true_iff in H; destruct H as [H ?]).
  cbn [areas_go]. rewrite H. cbn [negb]. fold (nxt v l u s). rewrite (IH _ _ _ H0). reflexivity.
Qed.

Definition start_val (l s : Q) : Q := qadd 0 (qmul (qmul l s) 1).
Definition area_points (l u s : Q) (t : list (Q * Q * Q)) : list (Q * Q) :=
  (l, start_val l s) :: bps ((l, u, s) :: t) (start_val l s).

Lemma areas_go_points l u s t : cvx u s t = true ->
  areas_go ((l, u, s) :: t) 1 0 None = Ok (unpairs (area_points l u s t)).
Proof.
  intros H. cbn [areas_go]. fold (start_val l s). fold (nxt (start_val l s) l u s).
  rewrite (areas_go_bps _ _ _ _ H). reflexivity.
Qed.

Lemma pairs_unpairs L : pairs (unpairs L) = L.
Proof. induction L as [|[x y] L IH]; [reflexivity|]. cbn [unpairs pairs]. now rewrite IH. Qed.
Lemma pairs0_unpairs L : pairs0 (unpairs L) = L.
Proof. induction L as [|[x y] L IH]; [reflexivity|]. cbn [unpairs pairs0]. now rewrite IH. Qed.
Lemma length_unpairs L : List.length (unpairs L) = (2 * List.length L)%nat.
Proof. induction L as [|[x y] L IH]; [reflexivity|]. cbn [unpairs List.length]. rewrite IH. lia. Qed.

Lemma pwl_points_unpairs L :
  pwl_points {| g_model := 1; g_ncost := (Z.of_nat (List.length (unpairs L)) / 2)%Z; g_c := unpairs L |} = L.
Proof.
  unfold pwl_points. cbn [g_ncost g_c]. rewrite pairs_unpairs, length_unpairs.
  rewrite Nat2Z.inj_mul, Z.mul_comm, Z.div_mul by discriminate. rewrite Nat2Z.id. apply firstn_all.
Qed.

(* ------------------------------------------------------------------ the segment lines of the breakpoints *)
(* the lines of the areas: value v at the lower end of the first area *)
Fixpoint area_lines (v : Q) (pts : list (Q * Q * Q)) (x : Q) : list Q :=
  match pts with [] => [] | (l, u, s) :: t => (v + (x - l) * s) :: area_lines (nxt v l u s) t x end.

Lemma segs_bps_distinct pts : forall p0 v s0, cvx p0 s0 pts = true -> distinct_x ((p0, v) :: bps pts v).
Proof.
  induction pts as [|[[l u] s] t IH]; intros p0 v s0 H.
  - constructor.
  - apply cvx_inv in H. destruct H as (Hp & Hlu & _ & Hc). cbn [bps]. apply distinct_x_cons. split.
    + cbn [fst]. lra.
    + exact (IH _ _ _ Hc).
Qed.

(* read directly *)
Lemma segs_bps_vals pts x x' : x' == x -> forall p0 v s0, cvx p0 s0 pts = true ->
  Forall2 Qeq (segs (seg_val x') ((p0, v) :: bps pts v)) (area_lines v pts x).
Proof.
  intros Hx. induction pts as [|[[l u] s] t IH]; intros p0 v s0 H.
  - constructor.
  - apply cvx_inv in H. destruct H as (Hp & Hlu & _ & Hc). cbn [bps area_lines].
    change (segs (seg_val x') ((p0, v) :: (u, nxt v l u s) :: bps t (nxt v l u s)))
      with (seg_val x' (p0, v) (u, nxt v l u s) :: segs (seg_val x') ((u, nxt v l u s) :: bps t (nxt v l u s))).
    constructor; [|exact (IH _ _ _ Hc)].
    unfold seg_val. cbn [fst snd]. qnorm. rewrite nxt_eq, Hp, Hx. field. lra.
Qed.

(* read through the mirror: breakpoints negated, order reversed, evaluated at x' = - x *)
Definition negx (xy : Q * Q) : Q * Q := (qopp (fst xy), snd xy).
Lemma segs_bps_vals_mirror pts x x' : x' == - x -> forall p0 v s0, cvx p0 s0 pts = true ->
  Forall2 Qeq (segs (fun a b => seg_val x' (negx b) (negx a)) ((p0, v) :: bps pts v)) (area_lines v pts x).
Proof.
  intros Hx. induction pts as [|[[l u] s] t IH]; intros p0 v s0 H.
  - constructor.
  - apply cvx_inv in H. destruct H as (Hp & Hlu & _ & Hc). cbn [bps area_lines].
    change (segs (fun a b => seg_val x' (negx b) (negx a)) ((p0, v) :: (u, nxt v l u s) :: bps t (nxt v l u s)))
      with (seg_val x' (negx (u, nxt v l u s)) (negx (p0, v))
            :: segs (fun a b => seg_val x' (negx b) (negx a)) ((u, nxt v l u s) :: bps t (nxt v l u s))).
    constructor; [|exact (IH _ _ _ Hc)].
    unfold seg_val, negx. cbn [fst snd]. qnorm. rewrite nxt_eq, Hp, Hx. field. lra.
Qed.

Lemma distinct_x_mirror P : distinct_x P -> distinct_x (map negx (rev P)).
Proof.
  unfold distinct_x. rewrite (segs_map negx pair), segs_rev.
  rewrite (segs_as_map (fun a b => (negx b, negx a))). intros H.
  apply Forall_rev. rewrite Forall_map. eapply Forall_impl; [|exact H].
  intros [a b] Hab. unfold negx. cbn [fst snd] in *. qnorm. intros E. apply Hab. lra.
Qed.

Lemma segs_mirror (x' : Q) P :
  segs (seg_val x') (map negx (rev P)) = rev (segs (fun a b => seg_val x' (negx b) (negx a)) P).
Proof. rewrite (segs_map negx (seg_val x')), segs_rev. reflexivity. Qed.

(* ------------------------------------------------------------------ convexity: the maximum of the lines is the function *)
(* the user's function through its areas, with the running values of the model *)
Fixpoint fval (v : Q) (pts : list (Q * Q * Q)) (x : Q) : Q :=
  match pts with
  | [] => v
  | [(l, u, s)] => v + (x - l) * s
  | (l, u, s) :: t => if qltb x u then v + (x - l) * s else fval (nxt v l u s) t x
  end.

Lemma fval_pwl_from pts x : forall v v', v == v' -> fval v pts x == pwl_from v' pts x.
Proof.
  induction pts as [|[[l u] s] [|b t] IH]; intros v v' Hv.
  - exact Hv.
  - cbn [fval pwl_from]. rewrite Hv. reflexivity.
  - change (fval v ((l, u, s) :: b :: t) x) with (if qltb x u then v + (x - l) * s else fval (nxt v l u s) (b :: t) x).
    change (pwl_from v' ((l, u, s) :: b :: t) x)
      with (if qltb x u then v' + (x - l) * s else pwl_from (v' + (u - l) * s) (b :: t) x).
    destruct (qltb x u); [rewrite Hv; reflexivity|]. apply IH. rewrite nxt_eq, Hv. reflexivity.
Qed.

(* right of the last breakpoint lu the function stays above the continuation of a line of smaller slope *)
Lemma fval_above pts x : forall v lu s0, cvx lu s0 pts = true -> pts <> [] -> lu <= x ->
  v + (x - lu) * s0 <= fval v pts x.
Proof.
  induction pts as [|[[l u] s] [|b t] IH]; intros v lu s0 H Hne Hx; [congruence| |].
  - apply cvx_inv in H. destruct H as (Hp & Hlu & Hs & _). cbn [fval]. nra.
  - apply cvx_inv in H. destruct H as (Hp & Hlu & Hs & Hc).
    change (fval v ((l, u, s) :: b :: t) x) with (if qltb x u then v + (x - l) * s else fval (nxt v l u s) (b :: t) x).
    destruct (qltb x u) eqn:E; [nra|]. apply qltb_ge in E.
    assert (H1 := IH (nxt v l u s) u s Hc ltac:(discriminate) E). rewrite nxt_eq in H1 at 1. nra.
Qed.

(* left of lu every line of the areas stays below the continuation of a line of smaller slope *)
Lemma lines_below pts x : forall v lu s0, cvx lu s0 pts = true -> x <= lu ->
  Forall (fun w => w <= v + (x - lu) * s0) (area_lines v pts x).
Proof.
  induction pts as [|[[l u] s] t IH]; intros v lu s0 H Hx; [constructor|].
  apply cvx_inv in H. destruct H as (Hp & Hlu & Hs & Hc). cbn [area_lines]. constructor; [nra|].
  assert (Hx' : x <= u) by lra.
  eapply Forall_impl; [|exact (IH (nxt v l u s) u s Hc Hx')]. cbn beta. intros w Hw.
  rewrite nxt_eq in Hw. nra.
Qed.

Lemma lines_max_fval pts x : forall v lu s0, cvx lu s0 pts = true -> pts <> [] ->
  Forall (fun w => w <= fval v pts x) (area_lines v pts x) /\ Exists (fun w => w == fval v pts x) (area_lines v pts x).
Proof.
  induction pts as [|[[l u] s] [|b t] IH]; intros v lu s0 H Hne; [congruence| |].
  - cbn [fval area_lines]. split; [constructor; [lra | constructor] | left; reflexivity].
  - apply cvx_inv in H. destruct H as (Hp & Hlu & Hs & Hc).
    change (fval v ((l, u, s) :: b :: t) x) with (if qltb x u then v + (x - l) * s else fval (nxt v l u s) (b :: t) x).
    change (area_lines v ((l, u, s) :: b :: t) x) with ((v + (x - l) * s) :: area_lines (nxt v l u s) (b :: t) x).
    destruct (qltb x u) eqn:E.
    + apply qltb_lt in E. split; [|left; reflexivity]. constructor; [lra|].
      assert (Hx' : x <= u) by lra.
      eapply Forall_impl; [|exact (lines_below (b :: t) x (nxt v l u s) u s Hc Hx')]. cbn beta. intros w Hw.
      rewrite nxt_eq in Hw. nra.
    + apply qltb_ge in E. destruct (IH (nxt v l u s) u s Hc ltac:(discriminate)) as [Hf He].
      split; [|right; exact He]. constructor; [|exact Hf].
      assert (H1 := fval_above (b :: t) x (nxt v l u s) u s Hc ltac:(discriminate) E). rewrite nxt_eq in H1 at 1. nra.
Qed.

(* ------------------------------------------------------------------ assembly *)
Lemma user_pwl_fval l u s t p : user_pwl ((l, u, s) :: t) p == fval (start_val l s) ((l, u, s) :: t) p.
Proof. unfold user_pwl. symmetry. apply fval_pwl_from. unfold start_val. qnorm. ring. Qed.

Lemma cvx_first l u s t : l < u -> cvx u s t = true -> cvx l s ((l, u, s) :: t) = true.
Proof.
  intros Hlu Hc. cbn [cvx]. rewrite Hc.
  assert (E1 : qeqb l l = true) by (apply qeqb_eq; reflexivity).
  assert (E2 : qltb l u = true) by (now apply qltb_lt).
  assert (E3 : qleb s s = true) by (apply qleb_le; lra).
  rewrite E1, E2, E3. reflexivity.
Qed.

(* the row of a convex pwl entry: its breakpoints, and the segment values at the generator variable are the area lines *)
Lemma pwl_row_convex t l u s ar p : convex_areas ((l, u, s) :: ar) = true ->
  exists n c P, pwl_row t ((l, u, s) :: ar) = Ok {| g_model := 1; g_ncost := n; g_c := c |} /\
    pwl_points {| g_model := 1; g_ncost := n; g_c := c |} = P /\ distinct_x P /\ (2 <= List.length P)%nat /\
    exists vals, Forall2 Qeq (segs (seg_val (res_sign t * p)) P) vals /\
      forall r, is_max r vals -> r == user_pwl ((l, u, s) :: ar) p.
Proof.
  intros Hcv. destruct (convex_cvx _ _ _ _ Hcv) as [Hlu Hc].
  assert (Hc1 := cvx_first l u s ar Hlu Hc).
  set (L := area_points l u s ar).
  assert (HdL : distinct_x L) by (exact (segs_bps_distinct _ _ _ _ Hc1)).
  assert (HlL : (2 <= List.length L)%nat) by (unfold L, area_points; cbn [bps List.length]; lia).
  destruct (lines_max_fval ((l, u, s) :: ar) p (start_val l s) l s Hc1 ltac:(discriminate)) as [HF HE].
  assert (Hmax : forall r vals, (is_max r vals -> is_max r (area_lines (start_val l s) ((l, u, s) :: ar) p)) ->
                 is_max r vals -> r == user_pwl ((l, u, s) :: ar) p).
  { intros r vals Hto Hr. rewrite user_pwl_fval. exact (is_max_is _ _ _ HF HE (Hto Hr)). }
  unfold pwl_row, costs_from_areas. rewrite (areas_go_points _ _ _ _ Hc). cbn [bind]. fold L.
  destruct (qltb (sign_p t) 0) eqn:Es.
  - (* mirrored *)
    assert (Hrs : res_sign t * p == - p) by (destruct t; cbn in Es; try discriminate; cbn; ring).
    unfold mirror. rewrite pairs0_unpairs. set (L' := map negx (rev L)).
    change (map (fun xy : Q * Q => (qopp (fst xy), snd xy)) (rev L)) with L'.
    eexists _, _, L'. split; [reflexivity|]. split; [apply pwl_points_unpairs|].
    split; [exact (distinct_x_mirror _ HdL)|]. split; [unfold L'; rewrite map_length, rev_length; exact HlL|].
    exists (rev (area_lines (start_val l s) ((l, u, s) :: ar) p)). split.
    + unfold L'. rewrite segs_mirror. apply Forall2_rev.
      exact (segs_bps_vals_mirror _ p _ Hrs _ _ _ Hc1).
    + intros r Hr. apply (Hmax r _ (fun H => H)). rewrite <- (rev_involutive (area_lines _ _ _)).
      apply is_max_rev. exact Hr.
  - assert (Hrs : res_sign t * p == p) by (destruct t; cbn in Es; try discriminate; cbn; ring).
    eexists _, _, L. split; [reflexivity|]. split; [apply pwl_points_unpairs|].
    split; [exact HdL|]. split; [exact HlL|].
    exists (area_lines (start_val l s) ((l, u, s) :: ar) p). split.
    + exact (segs_bps_vals _ p _ Hrs _ _ _ Hc1).
    + intros r Hr. exact (Hmax r _ (fun H => H) Hr).
Qed.

(* any number of consecutive areas with non-decreasing slopes: the objective value of the row at the generator
   variable res_sign * p is the user's function at the element's own power p, for every element kind *)
Theorem pwl_convex_areas t pts p : pts <> [] -> convex_areas pts = true ->
  exists v, obj_of_res (pwl_row t pts) (res_sign t * p) = Some v /\ v == user_pwl pts p.
Proof.
  intros Hne Hcv. destruct pts as [|[[l u] s] ar]; [congruence|].
  destruct (pwl_row_convex t l u s ar p Hcv) as (n & c & P & Erow & EP & Hd & Hl & vals & Hv & Hmax).
  rewrite Erow. cbn [obj_of_res].
  destruct (obj_row_is_max n c P (res_sign t * p) EP Hd Hl) as (r & Er & Hr).
  exists r. split; [exact Er|]. apply Hmax. exact (is_max_eqv _ _ _ Hv Hr).
Qed.

(* the cost-variable formulation: the values y that satisfy all makeAy constraints of the row at the generator
   variable are exactly those above the user's function, so the minimised cost variable IS the user's function *)
Theorem pwl_ccv_min t pts p : pts <> [] -> convex_areas pts = true ->
  exists r, pwl_row t pts = Ok r /\
    forall y, ay_feasible r (res_sign t * p) y <-> user_pwl pts p <= y.
Proof.
  intros Hne Hcv. destruct pts as [|[[l u] s] ar]; [congruence|].
  destruct (pwl_row_convex t l u s ar p Hcv) as (n & c & P & Erow & EP & Hd & Hl & vals & Hv & Hmax).
  eexists. split; [exact Erow|]. intros y.
  destruct (obj_row_is_max n c P (res_sign t * p) EP Hd Hl) as (r & _ & Hr).
  rewrite ay_feasible_iff by (rewrite EP; exact Hd). rewrite EP.
  rewrite (is_max_bound r _ y Hr). rewrite (Hmax r (is_max_eqv _ _ _ Hv Hr)). reflexivity.
Qed.

(* not vacuous: three areas on a load (mirrored), evaluated in the middle area *)
Example pwl_convex_nonvacuous :
  convex_areas [(0, 2, 1); (2, 3, 3); (3, 5, 4)] = true /\
  obj_of_res (pwl_row Load [(0, 2, 1); (2, 3, 3); (3, 5, 4)]) (res_sign Load * (5 # 2)) = Some (7 # 2) /\
  user_pwl [(0, 2, 1); (2, 3, 3); (3, 5, 4)] (5 # 2) == 7 # 2.
Proof. repeat split; vm_compute; reflexivity. Qed.

(* without convexity the statement is false: the maximum of the lines is not a concave function *)
Lemma pwl_nonconvex_refuted :
  exists t pts p, consecutive pts = true /\
    forall v, obj_of_res (pwl_row t pts) (res_sign t * p) = Some v -> ~ v == user_pwl pts p.
Proof.
  exists Gen, [(0, 2, 3); (2, 4, 1)], 1. split; [reflexivity|].
  intros v H. vm_compute in H. injection H as <-. vm_compute. discriminate.
Qed.
