From Coq Require Import ZArith QArith List Bool Lia Lqa.
From PPV Require Import Base.QN C32.Model.
Import ListNotations.
Open Scope Q_scope.

(* ------------------------------------------------------------ one linear piece *)
Lemma lin_eq p q x : ~ fst q - fst p == 0 ->
  lin p q x == snd p + (snd q - snd p) / (fst q - fst p) * (x - fst p).
Proof. intros H. unfold lin. qnorm. reflexivity. Qed.

Lemma lin_left p q x : fst p < fst q -> x == fst p -> lin p q x == snd p.
Proof.
  intros H Hx. rewrite lin_eq by lra. rewrite Hx. field. lra.
Qed.
Lemma lin_right p q x : fst p < fst q -> x == fst q -> lin p q x == snd q.
Proof.
  intros H Hx. rewrite lin_eq by lra. rewrite Hx. field. lra.
Qed.
Lemma lin_between p q x : fst p < fst q -> fst p <= x -> x <= fst q -> between (snd p) (snd q) (lin p q x).
Proof.
  intros H H1 H2. unfold between. rewrite lin_eq by lra.
  set (l := (x - fst p) / (fst q - fst p)).
  assert (L0 : 0 <= l). { unfold l. apply Qle_shift_div_l; lra. }
  assert (L1 : l <= 1). { unfold l. apply Qle_shift_div_r; lra. }
  assert (E : snd p + (snd q - snd p) / (fst q - fst p) * (x - fst p) == snd p + (snd q - snd p) * l).
  { unfold l. field. lra. }
  rewrite E.
  destruct (Qlt_le_dec (snd q) (snd p)) as [C|C]; [right | left]; split; nra.
Qed.

(* ------------------------------------------------------------ the scan *)
Lemma incr_lt l : forall p q, incr p l -> In q l -> fst p < fst q.
Proof.
  induction l as [|a l IH]; intros p q Hi Hq; [destruct Hq|].
  destruct Hi as [H1 H2]. destruct Hq as [<-|Hq]; [exact H1|].
  eapply Qlt_trans; [exact H1 | apply IH; assumption].
Qed.

Lemma go_at_start l : forall p x, incr p l -> x == fst p -> interp_go x p l == snd p.
Proof.
  intros p x Hi Hx. destruct l as [|r t]; simpl; [reflexivity|].
  destruct Hi as [H1 _].
  assert (Q : qltb x (fst r) = true) by (apply qltb_lt; lra).
  rewrite Q. apply lin_left; assumption.
Qed.

Lemma go_through l : forall p q, incr p l -> In q l -> interp_go (fst q) p l == snd q.
Proof.
  induction l as [|a l IH]; intros p q Hi Hq; [destruct Hq|].
  simpl. destruct Hi as [H1 H2]. destruct Hq as [<-|Hq].
  - assert (Q : qltb (fst a) (fst a) = false) by (apply qltb_ge; lra).
    rewrite Q. apply go_at_start; [exact H2 | reflexivity].
  - assert (L : fst a < fst q) by (apply (incr_lt l); assumption).
    assert (Q : qltb (fst q) (fst a) = false) by (apply qltb_ge; lra).
    rewrite Q. apply IH; assumption.
Qed.

(* Characteristic(x_i) = y_i at every support point *)
Theorem interp_through_points l p : sorted l -> In p l -> exists v, interp (fst p) l = Some v /\ v == snd p.
Proof.
  destruct l as [|a l]; intros Hs Hp; [destruct Hp|].
  simpl in Hs. simpl. eexists. split; [reflexivity|].
  destruct Hp as [<-|Hp].
  - assert (Q : qleb (fst a) (fst a) = true) by (apply qleb_le; lra). rewrite Q. reflexivity.
  - assert (L : fst a < fst p) by (apply (incr_lt l); assumption).
    assert (Q : qleb (fst p) (fst a) = false).
    { destruct (qleb (fst p) (fst a)) eqn:E; [|reflexivity]. apply qleb_le in E. lra. }
    rewrite Q. apply go_through; assumption.
Qed.

(* constant beyond the ends *)
Theorem interp_left_clamp l a x : x <= fst a -> interp x (a :: l) = Some (snd a).
Proof. intros H. simpl. assert (Q : qleb x (fst a) = true) by (apply qleb_le; exact H). rewrite Q. reflexivity. Qed.

Lemma last_default {A} (t : list A) : forall b d d', last (b :: t) d = last (b :: t) d'.
Proof. induction t as [|c t IH]; intros b d d'; [reflexivity|]. simpl in *. apply (IH c). Qed.
Lemma last_cons {A} (t : list A) a p : last (a :: t) p = last t a.
Proof. destruct t as [|b t]; [reflexivity|]. simpl. apply (last_default t b p a). Qed.

Lemma go_right_clamp l : forall p x, (forall q, In q l -> fst q <= x) -> interp_go x p l == snd (last l p).
Proof.
  induction l as [|a l IH]; intros p x Hx; [reflexivity|].
  simpl interp_go.
  assert (Q : qltb x (fst a) = false) by (apply qltb_ge; apply Hx; left; reflexivity).
  rewrite Q. rewrite last_cons. apply IH. intros q Hq. apply Hx. right. exact Hq.
Qed.
Theorem interp_right_clamp l a x : (forall q, In q (a :: l) -> fst q <= x) -> sorted (a :: l) ->
  exists v, interp x (a :: l) = Some v /\ v == snd (last l a).
Proof.
  intros Hx Hs. simpl interp. eexists. split; [reflexivity|].
  destruct (qleb x (fst a)) eqn:E.
  - apply qleb_le in E. destruct l as [|b t]; [reflexivity|].
    simpl in Hs. destruct Hs as [Hab _]. specialize (Hx b (or_intror (or_introl eq_refl))). lra.
  - apply go_right_clamp. intros q Hq. apply Hx. right. exact Hq.
Qed.

(* within the neighbouring support values *)
Lemma consec_ge l : forall b p q, incr b l -> consec p q (b :: l) -> fst b <= fst p.
Proof.
  induction l as [|c l IH]; intros b p q Hi Hc; [destruct Hc|].
  destruct Hc as [[<- _]|Hc]; [lra|].
  destruct Hi as [H1 H2]. specialize (IH c p q H2 Hc). lra.
Qed.

Lemma go_within l : forall a p q x, incr a l -> consec p q (a :: l) -> fst p <= x -> x <= fst q ->
  between (snd p) (snd q) (interp_go x a l).
Proof.
  induction l as [|b t IH]; intros a p q x Hi Hc H1 H2; [destruct Hc|].
  destruct Hi as [Hab Hi]. simpl interp_go.
  destruct Hc as [[-> ->]|Hc].
  - destruct (qltb x (fst q)) eqn:E.
    + apply lin_between; assumption.
    + apply qltb_ge in E. assert (X : x == fst q) by lra.
      assert (V : interp_go x q t == snd q) by (apply go_at_start; assumption).
      unfold between. rewrite V.
      destruct (Qlt_le_dec (snd q) (snd p)); [right | left]; split; lra.
  - assert (G : fst b <= fst p) by (apply (consec_ge t b p q); assumption).
    assert (Q : qltb x (fst b) = false) by (apply qltb_ge; lra).
    rewrite Q. apply IH; assumption.
Qed.

Theorem interp_within_neighbours l p q x : sorted l -> consec p q l -> fst p <= x -> x <= fst q ->
  exists v, interp x l = Some v /\ between (snd p) (snd q) v.
Proof.
  destruct l as [|a l]; intros Hs Hc H1 H2; [destruct Hc|].
  simpl in Hs. simpl interp. eexists. split; [reflexivity|].
  destruct (qleb x (fst a)) eqn:E.
  - apply qleb_le in E.
    assert (G : fst a <= fst p) by (apply (consec_ge l a p q); assumption).
    (* then p is the first point and x sits on it *)
    destruct l as [|b t]; [destruct Hc|]. destruct Hc as [[-> ->]|Hc].
    + unfold between. destruct (Qlt_le_dec (snd q) (snd p)); [right | left]; split; lra.
    + destruct Hs as [Hab Hs]. assert (fst b <= fst p) by (apply (consec_ge t b p q); assumption). lra.
  - apply go_within; assumption.
Qed.

(* ------------------------------------------------------------ cubic Hermite pieces *)
Definition herm_t (y0 d0 y1 d1 h t : Q) : Q :=
  (2 * t * t * t - 3 * t * t + 1) * y0 + (t * t * t - 2 * t * t + t) * h * d0 + (3 * t * t - 2 * t * t * t) * y1 + (t * t * t - t * t) * h * d1.
Lemma hermite_eq x0 y0 d0 x1 y1 d1 x :
  hermite x0 y0 d0 x1 y1 d1 x == herm_t y0 d0 y1 d1 (x1 - x0) ((x - x0) / (x1 - x0)).
Proof. unfold hermite, herm_t. qnorm. ring. Qed.

(* every piece passes through its two end points, whatever the slopes *)
Lemma hermite_left x0 y0 d0 x1 y1 d1 x : x0 < x1 -> x == x0 -> hermite x0 y0 d0 x1 y1 d1 x == y0.
Proof.
  intros H Hx. rewrite hermite_eq. assert (T : (x - x0) / (x1 - x0) == 0) by (rewrite Hx; field; lra).
  unfold herm_t. rewrite T. ring.
Qed.
Lemma hermite_right x0 y0 d0 x1 y1 d1 x : x0 < x1 -> x == x1 -> hermite x0 y0 d0 x1 y1 d1 x == y1.
Proof.
  intros H Hx. rewrite hermite_eq. assert (T : (x - x0) / (x1 - x0) == 1) by (rewrite Hx; field; lra).
  unfold herm_t. rewrite T. ring.
Qed.

(* Fritsch-Carlson: slopes in the box [0, 3*secant] keep the piece between its end values *)
Lemma herm_range y0 d0 y1 d1 h t s : 0 < h -> 0 <= t -> t <= 1 -> y1 - y0 == h * s ->
  0 <= d0 -> d0 <= 3 * s -> 0 <= d1 -> d1 <= 3 * s ->
  y0 <= herm_t y0 d0 y1 d1 h t /\ herm_t y0 d0 y1 d1 h t <= y1.
Proof.
  intros Hh T0 T1 Hs A0 A1 B0 B1.
  assert (S0 : 0 <= s) by lra.
  assert (Y1 : y1 == y0 + h * s) by lra.
  assert (E1 : herm_t y0 d0 y1 d1 h t - y0 == h * (d0 * (t * (1 - t) * (1 - t)) + (3 * s - d1) * (t * t * (1 - t)) + s * (t * t * t))).
  { unfold herm_t. rewrite Y1. ring. }
  assert (E2 : y1 - herm_t y0 d0 y1 d1 h t == h * ((3 * s - d0) * (t * (1 - t) * (1 - t)) + d1 * (t * t * (1 - t)) + s * ((1 - t) * (1 - t) * (1 - t)))).
  { unfold herm_t. rewrite Y1. ring. }
  assert (P1 : 0 <= t * (1 - t) * (1 - t)) by (apply Qmult_le_0_compat; [apply Qmult_le_0_compat|]; lra).
  assert (P2 : 0 <= t * t * (1 - t)) by (apply Qmult_le_0_compat; [apply Qmult_le_0_compat|]; lra).
  assert (P3 : 0 <= t * t * t) by (apply Qmult_le_0_compat; [apply Qmult_le_0_compat|]; lra).
  assert (P4 : 0 <= (1 - t) * (1 - t) * (1 - t)) by (apply Qmult_le_0_compat; [apply Qmult_le_0_compat|]; lra).
  assert (N1 : 0 <= d0 * (t * (1 - t) * (1 - t)) + (3 * s - d1) * (t * t * (1 - t)) + s * (t * t * t)).
  { assert (0 <= d0 * (t * (1 - t) * (1 - t))) by (apply Qmult_le_0_compat; lra).
    assert (0 <= (3 * s - d1) * (t * t * (1 - t))) by (apply Qmult_le_0_compat; lra).
    assert (0 <= s * (t * t * t)) by (apply Qmult_le_0_compat; lra). lra. }
  assert (N2 : 0 <= (3 * s - d0) * (t * (1 - t) * (1 - t)) + d1 * (t * t * (1 - t)) + s * ((1 - t) * (1 - t) * (1 - t))).
  { assert (0 <= (3 * s - d0) * (t * (1 - t) * (1 - t))) by (apply Qmult_le_0_compat; lra).
    assert (0 <= d1 * (t * t * (1 - t))) by (apply Qmult_le_0_compat; lra).
    assert (0 <= s * ((1 - t) * (1 - t) * (1 - t))) by (apply Qmult_le_0_compat; lra). lra. }
  split.
  - assert (0 <= herm_t y0 d0 y1 d1 h t - y0); [|lra]. rewrite E1. apply Qmult_le_0_compat; lra.
  - assert (0 <= y1 - herm_t y0 d0 y1 d1 h t); [|lra]. rewrite E2. apply Qmult_le_0_compat; lra.
Qed.

Theorem hermite_range x0 y0 d0 x1 y1 d1 x s : x0 < x1 -> x0 <= x -> x <= x1 -> y1 - y0 == (x1 - x0) * s ->
  0 <= d0 -> d0 <= 3 * s -> 0 <= d1 -> d1 <= 3 * s ->
  y0 <= hermite x0 y0 d0 x1 y1 d1 x /\ hermite x0 y0 d0 x1 y1 d1 x <= y1.
Proof.
  intros H H1 H2 Hs A0 A1 B0 B1. rewrite hermite_eq.
  apply (herm_range y0 d0 y1 d1 (x1 - x0) ((x - x0) / (x1 - x0)) s); try assumption; try lra.
  - apply Qle_shift_div_l; lra.
  - apply Qle_shift_div_r; lra.
Qed.

(* ------------------------------------------------------------ the slopes scipy chooses lie in that box (monotone data) *)
Lemma sgn_pos q : 0 < q -> sgn q = 1%Z.
Proof. unfold sgn, Qlt. simpl. intros H. apply Z.sgn_pos. lia. Qed.
Lemma sgn_zero q : q == 0 -> sgn q = 0%Z.
Proof. unfold sgn, Qeq. simpl. intros H. assert (Qnum q = 0%Z) by lia. rewrite H0. reflexivity. Qed.
Lemma sgn_nonneg_inv q : (sgn q = 0%Z \/ sgn q = 1%Z) -> 0 <= q.
Proof.
  unfold sgn, Qle. simpl. intros [H|H].
  - apply Z.sgn_null_iff in H. lia.
  - apply Z.sgn_pos_iff in H. lia.
Qed.
Lemma sgn_of_nonneg q : 0 <= q -> sgn q = 0%Z \/ sgn q = 1%Z.
Proof.
  intros H. destruct (Qlt_le_dec 0 q) as [L|L]; [right; apply sgn_pos; exact L | left; apply sgn_zero; lra].
Qed.

Theorem slope_in_box h1 d1 h2 d2 : 0 < h1 -> 0 < h2 -> 0 <= d1 -> 0 <= d2 ->
  0 <= slope_in h1 d1 h2 d2 /\ slope_in h1 d1 h2 d2 <= 3 * d1 /\ slope_in h1 d1 h2 d2 <= 3 * d2.
Proof.
  intros H1 H2 D1 D2. unfold slope_in.
  destruct (Qlt_le_dec 0 d1) as [P1|Z1].
  2:{ rewrite (sgn_zero d1) by lra. simpl. repeat split; lra. }
  destruct (Qlt_le_dec 0 d2) as [P2|Z2].
  2:{ rewrite (sgn_zero d2) by lra. rewrite orb_true_r. simpl. repeat split; lra. }
  rewrite (sgn_pos d1 P1), (sgn_pos d2 P2). simpl. qnorm.
  set (w1 := 2 * h2 + h1). set (w2 := h2 + 2 * h1).
  assert (W1 : 0 < w1) by (unfold w1; lra). assert (W2 : 0 < w2) by (unfold w2; lra).
  assert (A : 0 < w1 / d1) by (apply Qlt_shift_div_l; lra).
  assert (B : 0 < w2 / d2) by (apply Qlt_shift_div_l; lra).
  assert (E1 : d1 * (w1 / d1 + w2 / d2) == w1 + d1 * (w2 / d2)) by (field; lra).
  assert (E2 : d2 * (w1 / d1 + w2 / d2) == d2 * (w1 / d1) + w2) by (field; lra).
  assert (C1 : 0 <= d1 * (w2 / d2)) by (apply Qmult_le_0_compat; lra).
  assert (C2 : 0 <= d2 * (w1 / d1)) by (apply Qmult_le_0_compat; lra).
  repeat split.
  - apply Qle_shift_div_l; lra.
  - apply Qle_shift_div_r; [lra|]. unfold w1, w2 in *. lra.
  - apply Qle_shift_div_r; [lra|]. unfold w1, w2 in *. lra.
Qed.

Theorem slope_edge_box h0 h1 m0 m1 : 0 < h0 -> 0 < h1 -> 0 <= m0 -> 0 <= m1 ->
  0 <= slope_edge h0 h1 m0 m1 /\ slope_edge h0 h1 m0 m1 <= 3 * m0.
Proof.
  intros H0 H1 M0 M1. unfold slope_edge.
  set (d := qdiv (qsub (qmul (qadd (qmul 2 h0) h1) m0) (qmul h0 m1)) (qadd h0 h1)).
  destruct (Z.eqb (sgn d) (sgn m0)) eqn:E; simpl; [|split; lra].
  destruct (negb (Z.eqb (sgn m0) (sgn m1)) && qltb (qmul 3 (qabs m0)) (qabs d))%bool.
  - qnorm. split; lra.
  - apply Z.eqb_eq in E.
    assert (Dn : 0 <= d) by (apply sgn_nonneg_inv; rewrite E; apply sgn_of_nonneg; exact M0).
    split; [exact Dn|].
    unfold d. qnorm. apply Qle_shift_div_r; [lra|].
    assert (0 <= h0 * m1) by (apply Qmult_le_0_compat; lra).
    assert (0 <= h0 * m0) by (apply Qmult_le_0_compat; lra).
    assert (0 <= h1 * m0) by (apply Qmult_le_0_compat; lra).
    nra.
Qed.

(* ------------------------------------------------------------ Pchip passes through every support point (any slope list) *)
Lemma pgo_start l : forall ds p dp x v, incr p l -> x == fst p -> pchip_go x p dp l ds = Some v -> v == snd p.
Proof.
  intros ds p dp x v Hi Hx. destruct l as [|q t]; [destruct ds; discriminate|].
  destruct Hi as [H1 _]. simpl.
  assert (Q : qltb x (fst q) = true) by (apply qltb_lt; lra).
  destruct t as [|r t]; destruct ds as [|dq dt]; try discriminate.
  - destruct dt; [|discriminate]. intros E. inversion E. apply hermite_left; assumption.
  - rewrite Q. intros E. inversion E. apply hermite_left; assumption.
Qed.

Lemma pgo_through l : forall ds p dp q v, incr p l -> In q l -> pchip_go (fst q) p dp l ds = Some v -> v == snd q.
Proof.
  induction l as [|a l IH]; intros ds p dp q v Hi Hq; [destruct Hq|].
  destruct Hi as [H1 H2]. simpl.
  destruct l as [|b t].
  - destruct Hq as [<-|[]]. destruct ds as [|dq [|? ?]]; try discriminate.
    intros E. inversion E. apply hermite_right; [exact H1 | reflexivity].
  - destruct ds as [|dq dt]; [discriminate|].
    destruct Hq as [<-|Hq].
    + assert (Q : qltb (fst a) (fst a) = false) by (apply qltb_ge; lra). rewrite Q.
      apply pgo_start; [exact H2 | reflexivity].
    + assert (L : fst a < fst q) by (apply (incr_lt (b :: t)); assumption).
      assert (Q : qltb (fst q) (fst a) = false) by (apply qltb_ge; lra). rewrite Q.
      apply IH; assumption.
Qed.

Theorem pchip_through_points l p v : sorted l -> In p l -> pchip (fst p) l = Some v -> v == snd p.
Proof.
  unfold pchip. destruct l as [|a l]; [discriminate|]. intros Hs Hp.
  destruct (slopes (a :: l)) as [[|da dt]|]; try discriminate.
  simpl in Hs. destruct Hp as [<-|Hp].
  - apply pgo_start; [exact Hs | reflexivity].
  - apply pgo_through; assumption.
Qed.

(* ------------------------------------------------------------ log spline: composition with an order isomorphism *)
Section Log.
  Variable lg pw : Q -> Q.                         (* log10 and 10** as oracles *)
  Hypothesis pw_lg : forall y, 0 < y -> pw (lg y) == y.
  Hypothesis pw_mono : forall a b, a <= b -> pw a <= pw b.
  Hypothesis pw_proper : forall a b, a == b -> pw a == pw b.
  Variable f : Q -> Q.                             (* the interpolant of the transformed points *)
  (* pass-through of the interpolant at (lg x, lg y) gives pass-through of 10**f(log10 x) at (x, y) *)
  Lemma log_through x y : 0 < y -> f (lg x) == lg y -> pw (f (lg x)) == y.
  Proof. intros Hy H. rewrite (pw_proper _ _ H). apply pw_lg. exact Hy. Qed.
  (* and a value between lg y0 and lg y1 is mapped between y0 and y1 *)
  Lemma log_between x y0 y1 : 0 < y0 -> 0 < y1 -> lg y0 <= f (lg x) -> f (lg x) <= lg y1 -> y0 <= pw (f (lg x)) /\ pw (f (lg x)) <= y1.
  Proof.
    intros H0 H1 A B. split.
    - apply Qle_trans with (pw (lg y0)); [rewrite (pw_lg y0 H0); apply Qle_refl | apply pw_mono; exact A].
    - apply Qle_trans with (pw (lg y1)); [apply pw_mono; exact B | rewrite (pw_lg y1 H1); apply Qle_refl].
  Qed.
End Log.
