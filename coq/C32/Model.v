(* C32 — characteristics (pandapower/control/util/characteristic.py).
   Characteristic.__call__ (:119-127) = numpy.interp(x, x_vals, y_vals): piecewise linear, constant beyond the ends.
   SplineCharacteristic(interpolator_kind="Pchip") (:160-161) = scipy PchipInterpolator: cubic Hermite pieces with the
   Fritsch-Butland slopes of scipy.interpolate._cubic.PchipInterpolator._find_derivatives / _edge_case
   (all rational operations, so the model is exact over Q); extrapolation continues the end pieces.
   LogSplineCharacteristic (:186-212): 10 ** spline(log10 x) on log10-transformed points (log10 / 10** are oracles).
   Executable definitions only. *)
From Coq Require Import ZArith QArith List Bool String.
From PPV Require Import Base.QN Base.Out.
Import ListNotations.
Open Scope Q_scope.

Definition pt := (Q * Q)%type.

(* ---- numpy.interp for increasing xp *)
Definition lin (p q : pt) (x : Q) : Q :=
  qadd (snd p) (qmul (qdiv (qsub (snd q) (snd p)) (qsub (fst q) (fst p))) (qsub x (fst p))).
Fixpoint interp_go (x : Q) (p : pt) (l : list pt) : Q :=      (* fst p <= x *)
  match l with
  | [] => snd p
  | q :: t => if qltb x (fst q) then lin p q x else interp_go x q t
  end.
Definition interp (x : Q) (l : list pt) : option Q :=          (* None: numpy raises on empty arrays *)
  match l with
  | [] => None
  | p :: t => Some (if qleb x (fst p) then snd p else interp_go x p t)
  end.

(* ---- PCHIP slopes (scipy/interpolate/_cubic.py: _find_derivatives, _edge_case) *)
Definition sgn (q : Q) : Z := Z.sgn (Qnum q).
Definition slope_in (h1 d1 h2 d2 : Q) : Q :=                    (* interior point between segments 1 and 2 *)
  if (Z.eqb (sgn d1) 0 || Z.eqb (sgn d2) 0 || negb (Z.eqb (sgn d1) (sgn d2)))%bool then 0
  else let w1 := qadd (qmul 2 h2) h1 in
       let w2 := qadd h2 (qmul 2 h1) in
       qdiv (qadd w1 w2) (qadd (qdiv w1 d1) (qdiv w2 d2)).
Definition slope_edge (h0 h1 m0 m1 : Q) : Q :=
  let d := qdiv (qsub (qmul (qadd (qmul 2 h0) h1) m0) (qmul h0 m1)) (qadd h0 h1) in
  if negb (Z.eqb (sgn d) (sgn m0)) then 0
  else if (negb (Z.eqb (sgn m0) (sgn m1)) && qltb (qmul 3 (qabs m0)) (qabs d))%bool then qmul 3 m0
  else d.

Fixpoint hs (p : pt) (l : list pt) : list Q :=
  match l with [] => [] | q :: t => qsub (fst q) (fst p) :: hs q t end.
Fixpoint deltas (p : pt) (l : list pt) : list Q :=
  match l with [] => [] | q :: t => qdiv (qsub (snd q) (snd p)) (qsub (fst q) (fst p)) :: deltas q t end.
Fixpoint inner (h : list Q) (d : list Q) : list Q :=
  match h, d with
  | h1 :: ((h2 :: _) as ht), d1 :: ((d2 :: _) as dt) => slope_in h1 d1 h2 d2 :: inner ht dt
  | _, _ => []
  end.
Definition last2 (l : list Q) : option (Q * Q) :=
  match rev l with a :: b :: _ => Some (a, b) | _ => None end.
Definition slopes (l : list pt) : option (list Q) :=            (* None: scipy needs at least 2 points *)
  match l with
  | p :: ((_ :: _) as t) =>
      let h := hs p t in let d := deltas p t in
      match h, d with
      | [_], [d0] => Some [d0; d0]
      | h0 :: h1 :: _, d0 :: d1 :: _ =>
          match last2 h, last2 d with
          | Some (hl, hl'), Some (dl, dl') => Some (slope_edge h0 h1 d0 d1 :: inner h d ++ [slope_edge hl hl' dl dl'])
          | _, _ => None end
      | _, _ => None end
  | _ => None end.

(* cubic Hermite piece on [x0, x1] *)
Definition hermite (x0 y0 d0 x1 y1 d1 x : Q) : Q :=
  let h := qsub x1 x0 in
  let t := qdiv (qsub x x0) h in
  let t2 := qmul t t in let t3 := qmul t2 t in
  qadd (qadd (qmul (qadd (qsub (qmul 2 t3) (qmul 3 t2)) 1) y0) (qmul (qmul (qadd (qsub t3 (qmul 2 t2)) t) h) d0))
       (qadd (qmul (qsub (qmul 3 t2) (qmul 2 t3)) y1) (qmul (qmul (qsub t3 t2) h) d1)).
Fixpoint pchip_go (x : Q) (p : pt) (dp : Q) (l : list pt) (ds : list Q) : option Q :=
  match l, ds with
  | [q], [dq] => Some (hermite (fst p) (snd p) dp (fst q) (snd q) dq x)                (* last piece, also beyond the end *)
  | q :: ((_ :: _) as t), dq :: dt =>
      if qltb x (fst q) then Some (hermite (fst p) (snd p) dp (fst q) (snd q) dq x) else pchip_go x q dq t dt
  | _, _ => None
  end.
Definition pchip (x : Q) (l : list pt) : option Q :=
  match l, slopes l with
  | p :: t, Some (dp :: dt) => pchip_go x p dp t dt
  | _, _ => None
  end.

(* ---- specification side *)
Fixpoint incr (p : pt) (l : list pt) : Prop :=                 (* strictly increasing abscissae *)
  match l with [] => True | q :: t => fst p < fst q /\ incr q t end.
Definition sorted (l : list pt) : Prop := match l with [] => True | p :: t => incr p t end.
Definition sortedb (l : list pt) : bool :=
  match l with [] => true | p :: t =>
    (fix go (p : pt) (l : list pt) := match l with [] => true | q :: t => (qltb (fst p) (fst q) && go q t)%bool end) p t end.
Fixpoint consec (p q : pt) (l : list pt) : Prop :=             (* p, q adjacent in l *)
  match l with a :: ((b :: _) as t) => (a = p /\ b = q) \/ consec p q t | _ => False end.
Definition between (a b v : Q) : Prop := (a <= v /\ v <= b) \/ (b <= v /\ v <= a).

(* ---- output *)
Definition run_interp (l : list pt) (xs : list Q) : out := olist (fun x => ooq (interp x l)) xs.
Definition run_pchip (l : list pt) (xs : list Q) : out :=
  OL [oopt (olist oq) (slopes l); olist (fun x => ooq (pchip x l)) xs].
