(* C32 — the whole PCHIP curve: composition of the piece / slope lemmas of Proofs.v over the support list.
   For nondecreasing (nonincreasing) data and strictly increasing abscissae the slopes scipy computes lie in the
   Fritsch-Carlson box of BOTH neighbouring segments at every node, hence the characteristic is monotone on [x_0, x_n] and
   stays between the neighbouring support values on every segment.  The nonincreasing case is obtained by negation
   (pchip_go commutes with y -> -y), the slope lemmas are proved for both signs. *)
From Coq Require Import ZArith QArith List Bool Lia Lqa.
From PPV Require Import Base.QN C32.Model C32.Proofs.
Import ListNotations.
Open Scope Q_scope.

(* ------------------------------------------------------------ a Hermite piece with box slopes is monotone *)
Lemma herm_t_form y0 d0 y1 d1 h t s : y1 - y0 == h * s ->
  herm_t y0 d0 y1 d1 h t == y0 + h * (d0 * (t - 2 * t * t + t * t * t) + d1 * (t * t * t - t * t) + s * (3 * t * t - 2 * t * t * t)).
Proof. intros Hs. assert (Y1 : y1 == y0 + h * s) by lra. unfold herm_t. rewrite Y1. ring. Qed.

Lemma sq_nn x : 0 <= x * x.
Proof.
  destruct (Qlt_le_dec 0 x); [apply Qmult_le_0_compat; lra|].
  setoid_replace (x * x) with ((- x) * (- x)) by ring. apply Qmult_le_0_compat; lra.
Qed.

Lemma mul_lower d M A : 0 <= d -> d <= M -> (0 <= A -> 0 <= d * A) /\ (A <= 0 -> M * A <= d * A).
Proof. intros H1 H2. split; intros HA; nra. Qed.

Lemma herm_mono y0 d0 y1 d1 h a b s : 0 < h -> 0 <= a -> a <= b -> b <= 1 -> y1 - y0 == h * s ->
  0 <= d0 -> d0 <= 3 * s -> 0 <= d1 -> d1 <= 3 * s ->
  herm_t y0 d0 y1 d1 h a <= herm_t y0 d0 y1 d1 h b.
Proof.
  intros Hh A0 AB B1 Hs D0 D0' D1 D1'.
  assert (S0 : 0 <= s) by lra.
  rewrite (herm_t_form y0 d0 y1 d1 h a s Hs), (herm_t_form y0 d0 y1 d1 h b s Hs).
  set (s2 := a + b). set (s3 := a * a + a * b + b * b).
  set (A := 1 - 2 * s2 + s3). set (B := s3 - s2). set (C := 3 * s2 - 2 * s3).
  assert (E : (y0 + h * (d0 * (b - 2 * b * b + b * b * b) + d1 * (b * b * b - b * b) + s * (3 * b * b - 2 * b * b * b)))
            - (y0 + h * (d0 * (a - 2 * a * a + a * a * a) + d1 * (a * a * a - a * a) + s * (3 * a * a - 2 * a * a * a)))
            == h * (b - a) * (d0 * A + d1 * B + s * C)).
  { unfold A, B, C, s2, s3. ring. }
  assert (G : 0 <= d0 * A + d1 * B + s * C).
  { (* the four corner polynomials *)
    assert (K00 : 0 <= C).
    { assert (C == a * (3 - 2 * a - b) + b * (3 - 2 * b - a)) by (unfold C, s2, s3; ring).
      assert (0 <= a * (3 - 2 * a - b)) by (apply Qmult_le_0_compat; lra).
      assert (0 <= b * (3 - 2 * b - a)) by (apply Qmult_le_0_compat; lra). lra. }
    assert (K30 : 0 <= 3 * A + C).
    { assert (3 * A + C == (1 - a) * (1 - a) + (1 - a) * (1 - b) + (1 - b) * (1 - b)) by (unfold A, C, s2, s3; ring).
      assert (0 <= (1 - a) * (1 - a)) by (apply Qmult_le_0_compat; lra).
      assert (0 <= (1 - a) * (1 - b)) by (apply Qmult_le_0_compat; lra).
      assert (0 <= (1 - b) * (1 - b)) by (apply Qmult_le_0_compat; lra). lra. }
    assert (K03 : 0 <= 3 * B + C).
    { assert (3 * B + C == a * a + a * b + b * b) by (unfold B, C, s2, s3; ring).
      assert (0 <= a * a) by (apply Qmult_le_0_compat; lra).
      assert (0 <= a * b) by (apply Qmult_le_0_compat; lra).
      assert (0 <= b * b) by (apply Qmult_le_0_compat; lra). lra. }
    assert (K33 : 0 <= 3 * A + 3 * B + C).
    { assert (3 * A + 3 * B + C == (2 * a + b - (3 # 2)) * (2 * a + b - (3 # 2)) + 3 * ((b - (1 # 2)) * (b - (1 # 2))))
        by (unfold A, B, C, s2, s3; ring).
      pose proof (sq_nn (2 * a + b - (3 # 2))). pose proof (sq_nn (b - (1 # 2))). lra. }
    destruct (mul_lower d0 (3 * s) A D0 D0') as [PA NA].
    destruct (mul_lower d1 (3 * s) B D1 D1') as [PB NB].
    assert (SC : 0 <= s * C) by (apply Qmult_le_0_compat; assumption).
    assert (S30 : 0 <= s * (3 * A + C)) by (apply Qmult_le_0_compat; assumption).
    assert (S03 : 0 <= s * (3 * B + C)) by (apply Qmult_le_0_compat; assumption).
    assert (S33 : 0 <= s * (3 * A + 3 * B + C)) by (apply Qmult_le_0_compat; assumption).
    destruct (Qlt_le_dec A 0) as [LA|LA]; destruct (Qlt_le_dec B 0) as [LB|LB].
    - assert (3 * s * A <= d0 * A) by (apply NA; lra). assert (3 * s * B <= d1 * B) by (apply NB; lra). lra.
    - assert (3 * s * A <= d0 * A) by (apply NA; lra). assert (0 <= d1 * B) by (apply PB; lra). lra.
    - assert (0 <= d0 * A) by (apply PA; lra). assert (3 * s * B <= d1 * B) by (apply NB; lra). lra.
    - assert (0 <= d0 * A) by (apply PA; lra). assert (0 <= d1 * B) by (apply PB; lra). lra. }
  assert (P : 0 <= h * (b - a) * (d0 * A + d1 * B + s * C)).
  { apply Qmult_le_0_compat; [apply Qmult_le_0_compat; lra | exact G]. }
  lra.
Qed.

Theorem hermite_mono x0 y0 d0 x1 y1 d1 x x' s : x0 < x1 -> x0 <= x -> x <= x' -> x' <= x1 -> y1 - y0 == (x1 - x0) * s ->
  0 <= d0 -> d0 <= 3 * s -> 0 <= d1 -> d1 <= 3 * s ->
  hermite x0 y0 d0 x1 y1 d1 x <= hermite x0 y0 d0 x1 y1 d1 x'.
Proof.
  intros H H1 H2 H3 Hs A0 A1 B0 B1. rewrite !hermite_eq.
  apply (herm_mono y0 d0 y1 d1 (x1 - x0) _ _ s); try assumption; try lra.
  - apply Qle_shift_div_l; lra.
  - unfold Qdiv. apply Qmult_le_compat_r; [lra|]. apply Qlt_le_weak. apply Qinv_lt_0_compat. lra.
  - apply Qle_shift_div_r; lra.
Qed.

(* ------------------------------------------------------------ the slope rules for nonincreasing data *)
Lemma sgn_neg q : q < 0 -> sgn q = (-1)%Z.
Proof. unfold sgn, Qlt. simpl. intros H. apply Z.sgn_neg. lia. Qed.
Lemma sgn_nonpos_inv q : (sgn q = 0%Z \/ sgn q = (-1)%Z) -> q <= 0.
Proof.
  unfold sgn, Qle. simpl. intros [H|H].
  - apply Z.sgn_null_iff in H. lia.
  - apply Z.sgn_neg_iff in H. lia.
Qed.
Lemma sgn_of_nonpos q : q <= 0 -> sgn q = 0%Z \/ sgn q = (-1)%Z.
Proof.
  intros H. destruct (Qlt_le_dec q 0) as [L|L]; [right; apply sgn_neg; exact L | left; apply sgn_zero; lra].
Qed.

Theorem slope_in_box_neg h1 d1 h2 d2 : 0 < h1 -> 0 < h2 -> d1 <= 0 -> d2 <= 0 ->
  slope_in h1 d1 h2 d2 <= 0 /\ 3 * d1 <= slope_in h1 d1 h2 d2 /\ 3 * d2 <= slope_in h1 d1 h2 d2.
Proof.
  intros H1 H2 D1 D2. unfold slope_in.
  destruct (Qlt_le_dec d1 0) as [P1|Z1].
  2:{ rewrite (sgn_zero d1) by lra. simpl. repeat split; lra. }
  destruct (Qlt_le_dec d2 0) as [P2|Z2].
  2:{ rewrite (sgn_zero d2) by lra. rewrite orb_true_r. simpl. repeat split; lra. }
  rewrite (sgn_neg d1 P1), (sgn_neg d2 P2). simpl. qnorm.
  set (w1 := 2 * h2 + h1). set (w2 := h2 + 2 * h1).
  assert (W1 : 0 < w1) by (unfold w1; lra). assert (W2 : 0 < w2) by (unfold w2; lra).
  (* rewrite through e_i = - d_i > 0 *)
  set (e1 := - d1). set (e2 := - d2).
  assert (E1p : 0 < e1) by (unfold e1; lra). assert (E2p : 0 < e2) by (unfold e2; lra).
  assert (A : 0 < w1 / e1) by (apply Qlt_shift_div_l; lra).
  assert (B : 0 < w2 / e2) by (apply Qlt_shift_div_l; lra).
  assert (EQ : (w1 + w2) / (w1 / d1 + w2 / d2) == - ((w1 + w2) / (w1 / e1 + w2 / e2))).
  { assert (Q1 : w1 / d1 == - (w1 / e1)) by (unfold e1; field; lra).
    assert (Q2 : w2 / d2 == - (w2 / e2)) by (unfold e2; field; lra).
    rewrite Q1, Q2. field.
    assert (X1 : 0 < w1 * e2) by (apply Qmult_lt_0_compat; lra).
    assert (X2 : 0 < w2 * e1) by (apply Qmult_lt_0_compat; lra).
    repeat split; lra. }
  rewrite EQ.
  assert (F1 : e1 * (w1 / e1 + w2 / e2) == w1 + e1 * (w2 / e2)) by (field; lra).
  assert (F2 : e2 * (w1 / e1 + w2 / e2) == e2 * (w1 / e1) + w2) by (field; lra).
  assert (C1 : 0 <= e1 * (w2 / e2)) by (apply Qmult_le_0_compat; lra).
  assert (C2 : 0 <= e2 * (w1 / e1)) by (apply Qmult_le_0_compat; lra).
  assert (P0 : 0 <= (w1 + w2) / (w1 / e1 + w2 / e2)) by (apply Qle_shift_div_l; lra).
  assert (PA : (w1 + w2) / (w1 / e1 + w2 / e2) <= 3 * e1).
  { apply Qle_shift_div_r; [lra|]. unfold w1, w2 in *. lra. }
  assert (PB : (w1 + w2) / (w1 / e1 + w2 / e2) <= 3 * e2).
  { apply Qle_shift_div_r; [lra|]. unfold w1, w2 in *. lra. }
  unfold e1, e2 in *. repeat split; lra.
Qed.

Theorem slope_edge_box_neg h0 h1 m0 m1 : 0 < h0 -> 0 < h1 -> m0 <= 0 -> m1 <= 0 ->
  slope_edge h0 h1 m0 m1 <= 0 /\ 3 * m0 <= slope_edge h0 h1 m0 m1.
Proof.
  intros H0 H1 M0 M1. unfold slope_edge.
  set (d := qdiv (qsub (qmul (qadd (qmul 2 h0) h1) m0) (qmul h0 m1)) (qadd h0 h1)).
  destruct (Z.eqb (sgn d) (sgn m0)) eqn:E; simpl; [|split; lra].
  destruct (negb (Z.eqb (sgn m0) (sgn m1)) && qltb (qmul 3 (qabs m0)) (qabs d))%bool.
  - qnorm. split; lra.
  - apply Z.eqb_eq in E.
    assert (Dn : d <= 0) by (apply sgn_nonpos_inv; rewrite E; apply sgn_of_nonpos; exact M0).
    split; [exact Dn|].
    unfold d. qnorm. apply Qle_shift_div_l; [lra|].
    assert (0 <= h0 * - m1) by (apply Qmult_le_0_compat; lra).
    assert (0 <= h0 * - m0) by (apply Qmult_le_0_compat; lra).
    assert (0 <= h1 * - m0) by (apply Qmult_le_0_compat; lra).
    nra.
Qed.

(* ------------------------------------------------------------ list level: every node slope lies in the box of both neighbours *)
Section Boxed.
  Variable okd : Q -> Prop.                        (* sign condition on the secants *)
  Variable box : Q -> Q -> Prop.                   (* box delta s : slope s admissible next to a segment with secant delta *)
  Hypothesis H_in : forall h1 d1 h2 d2, 0 < h1 -> 0 < h2 -> okd d1 -> okd d2 ->
    box d1 (slope_in h1 d1 h2 d2) /\ box d2 (slope_in h1 d1 h2 d2).
  Hypothesis H_edge : forall h0 h1 m0 m1, 0 < h0 -> 0 < h1 -> okd m0 -> okd m1 -> box m0 (slope_edge h0 h1 m0 m1).
  Hypothesis H_self : forall d, okd d -> box d d.

  Fixpoint boxedD (d : list Q) (S : list Q) : Prop :=
    match d, S with
    | [], [_] => True
    | d0 :: dt, s0 :: ((s1 :: _) as St) => box d0 s0 /\ box d0 s1 /\ boxedD dt St
    | _, _ => False
    end.

  Lemma inner_box : forall h d s0 sl dflt, length h = length d -> d <> [] ->
    (forall x, In x h -> 0 < x) -> (forall x, In x d -> okd x) ->
    box (hd dflt d) s0 -> box (last d dflt) sl -> boxedD d (s0 :: inner h d ++ [sl]).
  Proof.
    induction h as [|h1 ht IH]; intros d s0 sl dflt HL Hne Hh Hd B0 Bl.
    - destruct d; [contradiction | discriminate].
    - destruct d as [|d1 dt]; [discriminate|].
      destruct ht as [|h2 ht']; destruct dt as [|d2 dt']; try discriminate.
      + simpl. simpl in B0, Bl. repeat split; assumption.
      + assert (X : box d1 (slope_in h1 d1 h2 d2) /\ box d2 (slope_in h1 d1 h2 d2)).
        { apply H_in; [apply Hh | apply Hh | apply Hd | apply Hd]; simpl; auto. }
        destruct X as [X1 X2].
        change (inner (h1 :: h2 :: ht') (d1 :: d2 :: dt')) with (slope_in h1 d1 h2 d2 :: inner (h2 :: ht') (d2 :: dt')).
        change (boxedD (d1 :: d2 :: dt') (s0 :: (slope_in h1 d1 h2 d2 :: inner (h2 :: ht') (d2 :: dt')) ++ [sl]))
          with (box d1 s0 /\ box d1 (slope_in h1 d1 h2 d2) /\
                boxedD (d2 :: dt') (slope_in h1 d1 h2 d2 :: inner (h2 :: ht') (d2 :: dt') ++ [sl])).
        split; [exact B0|]. split; [exact X1|].
        apply (IH (d2 :: dt') _ sl dflt).
        * simpl in HL. simpl. lia.
        * discriminate.
        * intros x Hx. apply Hh. right. exact Hx.
        * intros x Hx. apply Hd. right. exact Hx.
        * exact X2.
        * rewrite last_cons in Bl. rewrite (last_default dt' d2 d1 dflt) in Bl. exact Bl.
  Qed.

  Lemma last2_inv l a b : last2 l = Some (a, b) -> exists r, l = r ++ [b; a].
  Proof.
    unfold last2. destruct (rev l) as [|a' [|b' r']] eqn:E; try discriminate.
    intros H. inversion H; subst. exists (rev r').
    rewrite <- (rev_involutive l), E. simpl. rewrite <- app_assoc. reflexivity.
  Qed.
  Lemma last2_some (a b : Q) l : exists x y, last2 (a :: b :: l) = Some (x, y).
  Proof.
    unfold last2. simpl. destruct (rev l) as [|c r]; simpl; [eauto|].
    destruct r as [|e r']; simpl; eauto.
  Qed.
  Lemma last_app2 (r : list Q) b a dflt : last (r ++ [b; a]) dflt = a.
  Proof. change [b; a] with ([b] ++ [a]). rewrite app_assoc. apply last_last. Qed.

  Lemma hs_len l : forall p, length (hs p l) = length l.
  Proof. induction l as [|q t IH]; intros p0; simpl; [reflexivity | rewrite IH; reflexivity]. Qed.
  Lemma deltas_len l : forall p, length (deltas p l) = length l.
  Proof. induction l as [|q t IH]; intros p0; simpl; [reflexivity | rewrite IH; reflexivity]. Qed.
  Lemma hs_pos l : forall p x, incr p l -> In x (hs p l) -> 0 < x.
  Proof.
    induction l as [|q t IH]; intros p x Hi Hx; [destruct Hx|].
    destruct Hi as [H1 H2]. destruct Hx as [<-|Hx]; [qnorm; lra | apply (IH q); assumption].
  Qed.

  Theorem slopes_boxed p t : t <> [] -> incr p t -> (forall x, In x (deltas p t) -> okd x) ->
    exists S, slopes (p :: t) = Some S /\ boxedD (deltas p t) S.
  Proof.
    intros Hne Hi Hd. destruct t as [|q t]; [contradiction|].
    assert (Hh : forall x, In x (hs p (q :: t)) -> 0 < x) by (intros x; apply hs_pos; exact Hi).
    assert (HL : length (hs p (q :: t)) = length (deltas p (q :: t))) by (rewrite hs_len, deltas_len; reflexivity).
    unfold slopes. destruct t as [|r t'].
    - simpl. eexists. split; [reflexivity|]. simpl.
      assert (okd (qdiv (qsub (snd q) (snd p)) (qsub (fst q) (fst p)))) by (apply Hd; left; reflexivity).
      repeat split; try apply H_self; assumption.
    - remember (hs p (q :: r :: t')) as h eqn:Eh. remember (deltas p (q :: r :: t')) as d eqn:Ed.
      destruct h as [|h0 [|h1 hr]]; try discriminate. destruct d as [|d0 [|d1 dr]]; try discriminate.
      destruct (last2_some h0 h1 hr) as (hl & hl' & E1). destruct (last2_some d0 d1 dr) as (dl & dl' & E2).
      rewrite E1, E2. eexists. split; [reflexivity|].
      destruct (last2_inv _ _ _ E1) as (rh & Rh). destruct (last2_inv _ _ _ E2) as (rd & Rd).
      apply (inner_box _ _ _ _ 0 HL); [discriminate | exact Hh | exact Hd | |].
      + simpl. apply H_edge; [apply Hh | apply Hh | apply Hd | apply Hd]; simpl; auto.
      + rewrite Rd, last_app2. apply H_edge.
        * apply Hh. rewrite Rh. apply in_or_app. right. simpl; auto.
        * apply Hh. rewrite Rh. apply in_or_app. right. simpl; auto.
        * apply Hd. rewrite Rd. apply in_or_app. right. simpl; auto.
        * apply Hd. rewrite Rd. apply in_or_app. right. simpl; auto.
  Qed.
End Boxed.

Definition boxP (delta s : Q) : Prop := 0 <= s /\ s <= 3 * delta.       (* nondecreasing data *)
Definition boxN (delta s : Q) : Prop := 3 * delta <= s /\ s <= 0.       (* nonincreasing data *)

Fixpoint nondec (p : pt) (l : list pt) : Prop := match l with [] => True | q :: t => snd p <= snd q /\ nondec q t end.
Fixpoint noninc (p : pt) (l : list pt) : Prop := match l with [] => True | q :: t => snd q <= snd p /\ noninc q t end.
Definition nondecreasing (l : list pt) : Prop := match l with [] => True | p :: t => nondec p t end.
Definition nonincreasing (l : list pt) : Prop := match l with [] => True | p :: t => noninc p t end.

Lemma delta_eq p q : qdiv (qsub (snd q) (snd p)) (qsub (fst q) (fst p)) == (snd q - snd p) / (fst q - fst p).
Proof. qnorm. reflexivity. Qed.

Lemma deltas_nonneg l : forall p x, incr p l -> nondec p l -> In x (deltas p l) -> 0 <= x.
Proof.
  induction l as [|q t IH]; intros p x Hi Hm Hx; [destruct Hx|].
  destruct Hi as [H1 H2]. destruct Hm as [M1 M2]. destruct Hx as [<-|Hx]; [|apply (IH q); assumption].
  rewrite delta_eq. apply Qle_shift_div_l; lra.
Qed.
Lemma deltas_nonpos l : forall p x, incr p l -> noninc p l -> In x (deltas p l) -> x <= 0.
Proof.
  induction l as [|q t IH]; intros p x Hi Hm Hx; [destruct Hx|].
  destruct Hi as [H1 H2]. destruct Hm as [M1 M2]. destruct Hx as [<-|Hx]; [|apply (IH q); assumption].
  rewrite delta_eq. apply Qle_shift_div_r; lra.
Qed.

Theorem slopes_boxP p t : t <> [] -> incr p t -> nondec p t ->
  exists S, slopes (p :: t) = Some S /\ boxedD boxP (deltas p t) S.
Proof.
  intros Hne Hi Hm. apply (slopes_boxed (fun d => 0 <= d) boxP); try assumption.
  - intros h1 d1 h2 d2 A B C D. destruct (slope_in_box h1 d1 h2 d2 A B C D) as (X & Y & Z). unfold boxP. tauto.
  - intros h0 h1 m0 m1 A B C D. exact (slope_edge_box h0 h1 m0 m1 A B C D).
  - intros d Hd. unfold boxP. lra.
  - intros x. apply deltas_nonneg; assumption.
Qed.
Theorem slopes_boxN p t : t <> [] -> incr p t -> noninc p t ->
  exists S, slopes (p :: t) = Some S /\ boxedD boxN (deltas p t) S.
Proof.
  intros Hne Hi Hm. apply (slopes_boxed (fun d => d <= 0) boxN); try assumption.
  - intros h1 d1 h2 d2 A B C D. destruct (slope_in_box_neg h1 d1 h2 d2 A B C D) as (X & Y & Z). unfold boxN. tauto.
  - intros h0 h1 m0 m1 A B C D. destruct (slope_edge_box_neg h0 h1 m0 m1 A B C D). unfold boxN. tauto.
  - intros d Hd. unfold boxN. lra.
  - intros x. apply deltas_nonpos; assumption.
Qed.

(* ------------------------------------------------------------ pchip_go over a boxed slope list (nondecreasing data) *)
Definition sec (p q : pt) : Q := qdiv (qsub (snd q) (snd p)) (qsub (fst q) (fst p)).
Lemma secant_eq p q : fst p < fst q -> snd q - snd p == (fst q - fst p) * sec p q.
Proof. intros H. unfold sec. rewrite delta_eq. field. lra. Qed.
Lemma box_nondec p q s : fst p < fst q -> boxP (sec p q) s -> snd p <= snd q.
Proof.
  intros H [B1 B2]. pose proof (secant_eq p q H) as E.
  assert (0 <= (fst q - fst p) * sec p q) by (apply Qmult_le_0_compat; lra). lra.
Qed.

Lemma boxed_cons box p q t dp S : boxedD box (deltas p (q :: t)) (dp :: S) ->
  exists dq S', S = dq :: S' /\ box (sec p q) dp /\ box (sec p q) dq /\ boxedD box (deltas q t) (dq :: S').
Proof.
  destruct S as [|dq S']; simpl; [tauto|]. intros (A & B & C). exists dq, S'. repeat split; assumption.
Qed.
Lemma boxed_nil box (dq : Q) S' : boxedD box [] (dq :: S') -> S' = [].
Proof. destruct S'; simpl; [reflexivity | tauto]. Qed.

Lemma pgo_some box l : forall S p dp x, l <> [] -> boxedD box (deltas p l) (dp :: S) -> exists v, pchip_go x p dp l S = Some v.
Proof.
  induction l as [|q t IH]; intros S p dp x Hne HB; [contradiction|].
  destruct (boxed_cons _ _ _ _ _ _ HB) as (dq & S' & -> & B1 & B2 & HB').
  destruct t as [|r t'].
  - apply boxed_nil in HB'. subst S'. simpl. eexists; reflexivity.
  - change (pchip_go x p dp (q :: r :: t') (dq :: S')) with
      (if qltb x (fst q) then Some (hermite (fst p) (snd p) dp (fst q) (snd q) dq x) else pchip_go x q dq (r :: t') S').
    destruct (qltb x (fst q)); [eauto|]. apply IH; [discriminate | exact HB'].
Qed.

Lemma piece_range p q dp dq x : fst p < fst q -> boxP (sec p q) dp -> boxP (sec p q) dq -> fst p <= x -> x <= fst q ->
  snd p <= hermite (fst p) (snd p) dp (fst q) (snd q) dq x /\ hermite (fst p) (snd p) dp (fst q) (snd q) dq x <= snd q.
Proof.
  intros H [A0 A1] [B0 B1] H1 H2. apply (hermite_range _ _ _ _ _ _ _ (sec p q)); try assumption. apply secant_eq; exact H.
Qed.
Lemma piece_mono p q dp dq x x' : fst p < fst q -> boxP (sec p q) dp -> boxP (sec p q) dq -> fst p <= x -> x <= x' -> x' <= fst q ->
  hermite (fst p) (snd p) dp (fst q) (snd q) dq x <= hermite (fst p) (snd p) dp (fst q) (snd q) dq x'.
Proof.
  intros H [A0 A1] [B0 B1] H1 H2 H3. apply (hermite_mono _ _ _ _ _ _ _ _ (sec p q)); try assumption. apply secant_eq; exact H.
Qed.

Lemma boxed_last_ge l : forall S p dp, incr p l -> boxedD boxP (deltas p l) (dp :: S) -> snd p <= snd (last l p).
Proof.
  induction l as [|q t IH]; intros S p dp Hi HB; [simpl; lra|].
  destruct (boxed_cons _ _ _ _ _ _ HB) as (dq & S' & -> & B1 & B2 & HB').
  destruct Hi as [H1 H2]. rewrite last_cons.
  pose proof (box_nondec p q dp H1 B1). pose proof (IH S' q dq H2 HB'). lra.
Qed.

Lemma pgo_bounds l : forall S p dp x v, l <> [] -> incr p l -> boxedD boxP (deltas p l) (dp :: S) ->
  fst p <= x -> x <= fst (last l p) -> pchip_go x p dp l S = Some v -> snd p <= v /\ v <= snd (last l p).
Proof.
  induction l as [|q t IH]; intros S p dp x v Hne Hi HB X1 X2; [contradiction|].
  destruct (boxed_cons _ _ _ _ _ _ HB) as (dq & S' & -> & B1 & B2 & HB').
  destruct Hi as [H1 H2]. rewrite last_cons in *.
  destruct t as [|r t'].
  - apply boxed_nil in HB'. subst S'. simpl. intros E. inversion E.
    apply piece_range; assumption.
  - change (pchip_go x p dp (q :: r :: t') (dq :: S')) with
      (if qltb x (fst q) then Some (hermite (fst p) (snd p) dp (fst q) (snd q) dq x) else pchip_go x q dq (r :: t') S').
    pose proof (boxed_last_ge _ _ _ _ H2 HB') as L.
    pose proof (box_nondec p q dp H1 B1) as N.
    destruct (qltb x (fst q)) eqn:E.
    + apply qltb_lt in E. intros V. inversion V.
      destruct (piece_range p q dp dq x H1 B1 B2 X1) as [R1 R2]; [lra|]. split; lra.
    + apply qltb_ge in E. intros V.
      destruct (IH S' q dq x v) as [R1 R2]; try assumption; [discriminate|]. split; lra.
Qed.

Lemma pgo_within l : forall S p dp pa pb x v, incr p l -> boxedD boxP (deltas p l) (dp :: S) ->
  consec pa pb (p :: l) -> fst pa <= x -> x <= fst pb -> pchip_go x p dp l S = Some v -> snd pa <= v /\ v <= snd pb.
Proof.
  induction l as [|q t IH]; intros S p dp pa pb x v Hi HB Hc X1 X2; [destruct Hc|].
  destruct (boxed_cons _ _ _ _ _ _ HB) as (dq & S' & -> & B1 & B2 & HB').
  destruct Hi as [H1 H2].
  destruct Hc as [[<- <-]|Hc].
  - destruct t as [|r t'].
    + apply boxed_nil in HB'. subst S'. simpl. intros E. inversion E. apply piece_range; assumption.
    + change (pchip_go x p dp (q :: r :: t') (dq :: S')) with
        (if qltb x (fst q) then Some (hermite (fst p) (snd p) dp (fst q) (snd q) dq x) else pchip_go x q dq (r :: t') S').
      destruct (qltb x (fst q)) eqn:E.
      * intros V. inversion V. apply piece_range; assumption.
      * apply qltb_ge in E. intros V. assert (XE : x == fst q) by lra.
        pose proof (pgo_start _ _ _ _ _ _ H2 XE V) as VE.
        pose proof (box_nondec p q dp H1 B1). split; lra.
  - destruct t as [|r t']; [destruct Hc|].
    assert (G : fst q <= fst pa) by (apply (consec_ge (r :: t') q pa pb); assumption).
    change (pchip_go x p dp (q :: r :: t') (dq :: S')) with
      (if qltb x (fst q) then Some (hermite (fst p) (snd p) dp (fst q) (snd q) dq x) else pchip_go x q dq (r :: t') S').
    assert (Q : qltb x (fst q) = false) by (apply qltb_ge; lra). rewrite Q.
    apply IH; assumption.
Qed.

Lemma pgo_mono l : forall S p dp x x' v v', l <> [] -> incr p l -> boxedD boxP (deltas p l) (dp :: S) ->
  fst p <= x -> x <= x' -> x' <= fst (last l p) ->
  pchip_go x p dp l S = Some v -> pchip_go x' p dp l S = Some v' -> v <= v'.
Proof.
  induction l as [|q t IH]; intros S p dp x x' v v' Hne Hi HB X1 X2 X3; [contradiction|].
  destruct (boxed_cons _ _ _ _ _ _ HB) as (dq & S' & -> & B1 & B2 & HB').
  destruct Hi as [H1 H2]. rewrite last_cons in *.
  destruct t as [|r t'].
  - apply boxed_nil in HB'. subst S'. simpl. intros E E'. inversion E. inversion E'.
    apply piece_mono; assumption.
  - change (pchip_go x p dp (q :: r :: t') (dq :: S')) with
      (if qltb x (fst q) then Some (hermite (fst p) (snd p) dp (fst q) (snd q) dq x) else pchip_go x q dq (r :: t') S').
    change (pchip_go x' p dp (q :: r :: t') (dq :: S')) with
      (if qltb x' (fst q) then Some (hermite (fst p) (snd p) dp (fst q) (snd q) dq x') else pchip_go x' q dq (r :: t') S').
    destruct (qltb x (fst q)) eqn:E; destruct (qltb x' (fst q)) eqn:E';
      rewrite ?qltb_lt, ?qltb_ge in *; intros V V'.
    + inversion V. inversion V'. apply piece_mono; try assumption. lra.
    + inversion V.
      destruct (piece_range p q dp dq x H1 B1 B2 X1) as [R1 R2]; [lra|].
      destruct (pgo_bounds (r :: t') S' q dq x' v') as [R3 R4]; try assumption; [discriminate|]. lra.
    + lra.
    + apply (IH S' q dq x x'); try assumption. discriminate.
Qed.

(* ------------------------------------------------------------ the whole curve, nondecreasing data *)
Theorem pchip_nondec_within l p q x : sorted l -> nondecreasing l -> consec p q l -> fst p <= x -> x <= fst q ->
  exists v, pchip x l = Some v /\ snd p <= v /\ v <= snd q.
Proof.
  destruct l as [|a t]; intros Hs Hm Hc X1 X2; [destruct Hc|].
  destruct t as [|b t']; [destruct Hc|].
  destruct (slopes_boxP a (b :: t')) as (S & ES & HB); [discriminate | exact Hs | exact Hm|].
  unfold pchip. rewrite ES. destruct S as [|dp S0]; [destruct HB|].
  destruct (pgo_some boxP (b :: t') S0 a dp x) as (v & EV); [discriminate | exact HB|].
  exists v. split; [exact EV|]. apply (pgo_within (b :: t') S0 a dp p q x v); assumption.
Qed.

Theorem pchip_nondec_monotone a t x x' : t <> [] -> sorted (a :: t) -> nondecreasing (a :: t) ->
  fst a <= x -> x <= x' -> x' <= fst (last t a) ->
  exists v v', pchip x (a :: t) = Some v /\ pchip x' (a :: t) = Some v' /\ v <= v'.
Proof.
  intros Hne Hs Hm X1 X2 X3.
  destruct (slopes_boxP a t) as (S & ES & HB); [exact Hne | exact Hs | exact Hm|].
  unfold pchip. rewrite ES. destruct S as [|dp S0]; [destruct t; [contradiction | destruct HB]|].
  destruct (pgo_some boxP t S0 a dp x Hne HB) as (v & EV).
  destruct (pgo_some boxP t S0 a dp x' Hne HB) as (v' & EV').
  exists v, v'. split; [exact EV|]. split; [exact EV'|].
  apply (pgo_mono t S0 a dp x x' v v'); assumption.
Qed.

(* ------------------------------------------------------------ negation: nonincreasing data *)
Definition negp (p : pt) : pt := (fst p, - snd p).
Lemma hermite_neg x0 y0 d0 x1 y1 d1 x : hermite x0 (- y0) (- d0) x1 (- y1) (- d1) x == - hermite x0 y0 d0 x1 y1 d1 x.
Proof. rewrite !hermite_eq. unfold herm_t. ring. Qed.

Lemma pgo_neg l : forall S p dp x v, pchip_go x p dp l S = Some v ->
  exists w, pchip_go x (negp p) (- dp) (map negp l) (map Qopp S) = Some w /\ w == - v.
Proof.
  induction l as [|q t IH]; intros S p dp x v; [destruct S; discriminate|].
  destruct S as [|dq S']; [destruct t; discriminate|].
  destruct t as [|r t'].
  - destruct S' as [|? ?]; [|discriminate]. simpl. intros E. inversion E. eexists. split; [reflexivity|]. apply hermite_neg.
  - change (pchip_go x p dp (q :: r :: t') (dq :: S')) with
      (if qltb x (fst q) then Some (hermite (fst p) (snd p) dp (fst q) (snd q) dq x) else pchip_go x q dq (r :: t') S').
    change (pchip_go x (negp p) (- dp) (map negp (q :: r :: t')) (map Qopp (dq :: S'))) with
      (if qltb x (fst q) then Some (hermite (fst p) (- snd p) (- dp) (fst q) (- snd q) (- dq) x)
       else pchip_go x (negp q) (- dq) (map negp (r :: t')) (map Qopp S')).
    destruct (qltb x (fst q)).
    + intros E. inversion E. eexists. split; [reflexivity|]. apply hermite_neg.
    + apply IH.
Qed.

Lemma sec_neg p q : sec (negp p) (negp q) == - sec p q.
Proof. unfold sec, negp. simpl. qnorm. unfold Qdiv. ring. Qed.

Lemma boxed_neg l : forall S p, boxedD boxN (deltas p l) S -> boxedD boxP (deltas (negp p) (map negp l)) (map Qopp S).
Proof.
  induction l as [|q t IH]; intros S p HB.
  - destruct S as [|s [|? ?]]; simpl in *; tauto.
  - destruct S as [|dp S]; [destruct HB|].
    destruct (boxed_cons _ _ _ _ _ _ HB) as (dq & S' & -> & [A1 A2] & [B1 B2] & HB').
    change (boxP (sec (negp p) (negp q)) (- dp) /\ boxP (sec (negp p) (negp q)) (- dq) /\
            boxedD boxP (deltas (negp q) (map negp t)) (map Qopp (dq :: S'))).
    pose proof (sec_neg p q) as E. unfold boxP. rewrite E.
    repeat split; try lra. apply IH. exact HB'.
Qed.

Lemma incr_neg l : forall p, incr p l -> incr (negp p) (map negp l).
Proof. induction l as [|q t IH]; intros p H; [exact I|]. destruct H as [H1 H2]. split; [exact H1 | apply IH; exact H2]. Qed.
Lemma consec_neg l : forall p q, consec p q l -> consec (negp p) (negp q) (map negp l).
Proof.
  induction l as [|a t IH]; intros p q H; [destruct H|].
  destruct t as [|b t']; [destruct H|].
  destruct H as [[-> ->]|H]; [left; split; reflexivity | right; apply (IH p q H)].
Qed.
Lemma last_neg l : forall p, last (map negp l) (negp p) = negp (last l p).
Proof. induction l as [|q t IH]; intros p; [reflexivity|]. simpl map. rewrite !last_cons. apply IH. Qed.

Theorem pchip_noninc_within l p q x : sorted l -> nonincreasing l -> consec p q l -> fst p <= x -> x <= fst q ->
  exists v, pchip x l = Some v /\ snd q <= v /\ v <= snd p.
Proof.
  destruct l as [|a t]; intros Hs Hm Hc X1 X2; [destruct Hc|].
  destruct t as [|b t']; [destruct Hc|].
  destruct (slopes_boxN a (b :: t')) as (S & ES & HB); [discriminate | exact Hs | exact Hm|].
  unfold pchip. rewrite ES. destruct S as [|dp S0]; [destruct HB|].
  destruct (pgo_some boxN (b :: t') S0 a dp x) as (v & EV); [discriminate | exact HB|].
  exists v. split; [exact EV|].
  destruct (pgo_neg _ _ _ _ _ _ EV) as (w & EW & WV).
  pose proof (boxed_neg _ _ _ HB) as HB2.
  destruct (pgo_within (map negp (b :: t')) (map Qopp S0) (negp a) (- dp) (negp p) (negp q) x w) as [R1 R2]; try assumption.
  - apply incr_neg. exact Hs.
  - apply (consec_neg (a :: b :: t')). exact Hc.
  - simpl in R1, R2. lra.
Qed.

Theorem pchip_noninc_monotone a t x x' : t <> [] -> sorted (a :: t) -> nonincreasing (a :: t) ->
  fst a <= x -> x <= x' -> x' <= fst (last t a) ->
  exists v v', pchip x (a :: t) = Some v /\ pchip x' (a :: t) = Some v' /\ v' <= v.
Proof.
  intros Hne Hs Hm X1 X2 X3.
  destruct (slopes_boxN a t) as (S & ES & HB); [exact Hne | exact Hs | exact Hm|].
  unfold pchip. rewrite ES. destruct S as [|dp S0]; [destruct t; [contradiction | destruct HB]|].
  destruct (pgo_some boxN t S0 a dp x Hne HB) as (v & EV).
  destruct (pgo_some boxN t S0 a dp x' Hne HB) as (v' & EV').
  exists v, v'. split; [exact EV|]. split; [exact EV'|].
  destruct (pgo_neg _ _ _ _ _ _ EV) as (w & EW & WV). destruct (pgo_neg _ _ _ _ _ _ EV') as (w' & EW' & WV').
  pose proof (boxed_neg _ _ _ HB) as HB2.
  assert (w <= w').
  { apply (pgo_mono (map negp t) (map Qopp S0) (negp a) (- dp) x x' w w'); try assumption.
    - destruct t; [contradiction | discriminate].
    - apply incr_neg. exact Hs.
    - rewrite last_neg. exact X3. }
  lra.
Qed.

Theorem pchip_nondec_bounds a t x : t <> [] -> sorted (a :: t) -> nondecreasing (a :: t) ->
  fst a <= x -> x <= fst (last t a) -> exists v, pchip x (a :: t) = Some v /\ snd a <= v /\ v <= snd (last t a).
Proof.
  intros Hne Hs Hm X1 X2.
  destruct (slopes_boxP a t) as (S & ES & HB); [exact Hne | exact Hs | exact Hm|].
  unfold pchip. rewrite ES. destruct S as [|dp S0]; [destruct t; [contradiction | destruct HB]|].
  destruct (pgo_some boxP t S0 a dp x Hne HB) as (v & EV).
  exists v. split; [exact EV|]. apply (pgo_bounds t S0 a dp x v); assumption.
Qed.
Theorem pchip_noninc_bounds a t x : t <> [] -> sorted (a :: t) -> nonincreasing (a :: t) ->
  fst a <= x -> x <= fst (last t a) -> exists v, pchip x (a :: t) = Some v /\ snd (last t a) <= v /\ v <= snd a.
Proof.
  intros Hne Hs Hm X1 X2.
  destruct (slopes_boxN a t) as (S & ES & HB); [exact Hne | exact Hs | exact Hm|].
  unfold pchip. rewrite ES. destruct S as [|dp S0]; [destruct t; [contradiction | destruct HB]|].
  destruct (pgo_some boxN t S0 a dp x Hne HB) as (v & EV).
  exists v. split; [exact EV|].
  destruct (pgo_neg _ _ _ _ _ _ EV) as (w & EW & WV).
  pose proof (boxed_neg _ _ _ HB) as HB2.
  destruct (pgo_bounds (map negp t) (map Qopp S0) (negp a) (- dp) x w) as [R1 R2]; try assumption.
  - destruct t; [contradiction | discriminate].
  - apply incr_neg. exact Hs.
  - rewrite last_neg. exact X2.
  - rewrite last_neg in R2. simpl in R1, R2. lra.
Qed.

(* ------------------------------------------------------------ LogSplineCharacteristic(Pchip): 10 ** pchip(log10 x) on (log10 x_i, log10 y_i) *)
Section LogWhole.
  Variable lg pw : Q -> Q.                         (* log10 and 10** as oracles with their order contract *)
  Hypothesis pw_lg : forall y, 0 < y -> pw (lg y) == y.
  Hypothesis pw_mono : forall a b, a <= b -> pw a <= pw b.
  Hypothesis lg_mono : forall a b, 0 < a -> a <= b -> lg a <= lg b.
  Hypothesis lg_strict : forall a b, 0 < a -> a < b -> lg a < lg b.

  Definition loglog (p : pt) : pt := (lg (fst p), lg (snd p)).
  (* characteristic.py:186-221: x_vals / y_vals are stored as log10, __call__ = np.power(10, interpolator(np.log10(x))) *)
  Definition logspline (l : list pt) (x : Q) : option Q :=
    match pchip (lg x) (map loglog l) with Some v => Some (pw v) | None => None end.
  Definition positive (l : list pt) : Prop := forall p, In p l -> 0 < fst p /\ 0 < snd p.

  Lemma positive_tl a l : positive (a :: l) -> positive l.
  Proof. intros H p Hp. apply H. right. exact Hp. Qed.
  Lemma incr_log l : forall p, positive (p :: l) -> incr p l -> incr (loglog p) (map loglog l).
  Proof.
    induction l as [|q t IH]; intros p Hp Hi; [exact I|]. destruct Hi as [H1 H2]. split.
    - simpl. apply lg_strict; [apply (Hp p); left; reflexivity | exact H1].
    - apply IH; [apply (positive_tl p); exact Hp | exact H2].
  Qed.
  Lemma nondec_log l : forall p, positive (p :: l) -> nondec p l -> nondec (loglog p) (map loglog l).
  Proof.
    induction l as [|q t IH]; intros p Hp Hi; [exact I|]. destruct Hi as [H1 H2]. split.
    - simpl. apply lg_mono; [apply (Hp p); left; reflexivity | exact H1].
    - apply IH; [apply (positive_tl p); exact Hp | exact H2].
  Qed.
  Lemma noninc_log l : forall p, positive (p :: l) -> noninc p l -> noninc (loglog p) (map loglog l).
  Proof.
    induction l as [|q t IH]; intros p Hp Hi; [exact I|]. destruct Hi as [H1 H2]. split.
    - simpl. apply lg_mono; [apply (Hp q); right; left; reflexivity | exact H1].
    - apply IH; [apply (positive_tl p); exact Hp | exact H2].
  Qed.
  Lemma consec_log l : forall p q, consec p q l -> consec (loglog p) (loglog q) (map loglog l).
  Proof.
    induction l as [|a t IH]; intros p q H; [destruct H|].
    destruct t as [|b t']; [destruct H|].
    destruct H as [[-> ->]|H]; [left; split; reflexivity | right; apply (IH p q H)].
  Qed.
  Lemma consec_in l : forall p q, consec p q l -> In p l /\ In q l.
  Proof.
    induction l as [|a t IH]; intros p q H; [destruct H|].
    destruct t as [|b t']; [destruct H|].
    destruct H as [[-> ->]|H]; [split; simpl; auto|]. destruct (IH p q H). split; right; assumption.
  Qed.
  Lemma last_log l : forall p, last (map loglog l) (loglog p) = loglog (last l p).
  Proof. induction l as [|q t IH]; intros p; [reflexivity|]. simpl map. rewrite !last_cons. apply IH. Qed.
  Lemma last_in (l : list pt) : forall p, In (last l p) (p :: l).
  Proof.
    induction l as [|q t IH]; intros p; [left; reflexivity|]. rewrite last_cons. right. apply IH.
  Qed.

  Lemma pw_between y0 y1 v : 0 < y0 -> 0 < y1 -> lg y0 <= v -> v <= lg y1 -> y0 <= pw v /\ pw v <= y1.
  Proof.
    intros H0 H1 A B. split.
    - apply Qle_trans with (pw (lg y0)); [rewrite (pw_lg y0 H0); apply Qle_refl | apply pw_mono; exact A].
    - apply Qle_trans with (pw (lg y1)); [apply pw_mono; exact B | rewrite (pw_lg y1 H1); apply Qle_refl].
  Qed.

  Theorem logspline_nondec_within l p q x : positive l -> sorted l -> nondecreasing l -> consec p q l ->
    fst p <= x -> x <= fst q -> exists v, logspline l x = Some v /\ snd p <= v /\ v <= snd q.
  Proof.
    intros Hp Hs Hm Hc X1 X2. destruct (consec_in l p q Hc) as [Ip Iq].
    destruct (Hp p Ip) as [Px Py]. destruct (Hp q Iq) as [Qx Qy].
    destruct (pchip_nondec_within (map loglog l) (loglog p) (loglog q) (lg x)) as (v & EV & R1 & R2).
    - destruct l as [|a t]; [exact I|]. apply incr_log; assumption.
    - destruct l as [|a t]; [exact I|]. apply nondec_log; assumption.
    - apply consec_log. exact Hc.
    - simpl. apply lg_mono; assumption.
    - simpl. apply lg_mono; [lra | exact X2].
    - unfold logspline. rewrite EV. eexists. split; [reflexivity|]. apply pw_between; assumption.
  Qed.
  Theorem logspline_noninc_within l p q x : positive l -> sorted l -> nonincreasing l -> consec p q l ->
    fst p <= x -> x <= fst q -> exists v, logspline l x = Some v /\ snd q <= v /\ v <= snd p.
  Proof.
    intros Hp Hs Hm Hc X1 X2. destruct (consec_in l p q Hc) as [Ip Iq].
    destruct (Hp p Ip) as [Px Py]. destruct (Hp q Iq) as [Qx Qy].
    destruct (pchip_noninc_within (map loglog l) (loglog p) (loglog q) (lg x)) as (v & EV & R1 & R2).
    - destruct l as [|a t]; [exact I|]. apply incr_log; assumption.
    - destruct l as [|a t]; [exact I|]. apply noninc_log; assumption.
    - apply consec_log. exact Hc.
    - simpl. apply lg_mono; assumption.
    - simpl. apply lg_mono; [lra | exact X2].
    - unfold logspline. rewrite EV. eexists. split; [reflexivity|]. apply pw_between; assumption.
  Qed.

  Theorem logspline_nondec_monotone a t x x' : t <> [] -> positive (a :: t) -> sorted (a :: t) -> nondecreasing (a :: t) ->
    fst a <= x -> x <= x' -> x' <= fst (last t a) ->
    exists v v', logspline (a :: t) x = Some v /\ logspline (a :: t) x' = Some v' /\ v <= v'.
  Proof.
    intros Hne Hp Hs Hm X1 X2 X3. destruct (Hp a (or_introl eq_refl)) as [Ax Ay].
    destruct (pchip_nondec_monotone (loglog a) (map loglog t) (lg x) (lg x')) as (v & v' & EV & EV' & L).
    - destruct t; [contradiction | discriminate].
    - apply (incr_log t a); assumption.
    - apply (nondec_log t a); assumption.
    - simpl. apply lg_mono; assumption.
    - apply lg_mono; lra.
    - rewrite last_log. simpl. apply lg_mono; [lra | exact X3].
    - unfold logspline. change (map loglog (a :: t)) with (loglog a :: map loglog t). rewrite EV, EV'.
      eexists. eexists. split; [reflexivity|]. split; [reflexivity|]. apply pw_mono. exact L.
  Qed.
  Theorem logspline_noninc_monotone a t x x' : t <> [] -> positive (a :: t) -> sorted (a :: t) -> nonincreasing (a :: t) ->
    fst a <= x -> x <= x' -> x' <= fst (last t a) ->
    exists v v', logspline (a :: t) x = Some v /\ logspline (a :: t) x' = Some v' /\ v' <= v.
  Proof.
    intros Hne Hp Hs Hm X1 X2 X3. destruct (Hp a (or_introl eq_refl)) as [Ax Ay].
    destruct (pchip_noninc_monotone (loglog a) (map loglog t) (lg x) (lg x')) as (v & v' & EV & EV' & L).
    - destruct t; [contradiction | discriminate].
    - apply (incr_log t a); assumption.
    - apply (noninc_log t a); assumption.
    - simpl. apply lg_mono; assumption.
    - apply lg_mono; lra.
    - rewrite last_log. simpl. apply lg_mono; [lra | exact X3].
    - unfold logspline. change (map loglog (a :: t)) with (loglog a :: map loglog t). rewrite EV, EV'.
      eexists. eexists. split; [reflexivity|]. split; [reflexivity|]. apply pw_mono. exact L.
  Qed.

  (* every value on [x_0, x_n] lies between the last and the first support value, in particular it is positive *)
  Theorem logspline_noninc_bounds a t x : t <> [] -> positive (a :: t) -> sorted (a :: t) -> nonincreasing (a :: t) ->
    fst a <= x -> x <= fst (last t a) ->
    exists v, logspline (a :: t) x = Some v /\ snd (last t a) <= v /\ v <= snd a.
  Proof.
    intros Hne Hp Hs Hm X1 X2. destruct (Hp a (or_introl eq_refl)) as [Ax Ay].
    destruct (Hp (last t a) (last_in t a)) as [Lx Ly].
    destruct (pchip_noninc_bounds (loglog a) (map loglog t) (lg x)) as (v & EV & R1 & R2).
    - destruct t; [contradiction | discriminate].
    - apply (incr_log t a); assumption.
    - apply (noninc_log t a); assumption.
    - simpl. apply lg_mono; assumption.
    - rewrite last_log. simpl. apply lg_mono; [lra | exact X2].
    - unfold logspline. change (map loglog (a :: t)) with (loglog a :: map loglog t). rewrite EV.
      eexists. split; [reflexivity|]. rewrite last_log in R1. simpl in R1, R2. apply pw_between; assumption.
  Qed.
  Theorem logspline_nondec_bounds a t x : t <> [] -> positive (a :: t) -> sorted (a :: t) -> nondecreasing (a :: t) ->
    fst a <= x -> x <= fst (last t a) ->
    exists v, logspline (a :: t) x = Some v /\ snd a <= v /\ v <= snd (last t a).
  Proof.
    intros Hne Hp Hs Hm X1 X2. destruct (Hp a (or_introl eq_refl)) as [Ax Ay].
    destruct (Hp (last t a) (last_in t a)) as [Lx Ly].
    destruct (pchip_nondec_bounds (loglog a) (map loglog t) (lg x)) as (v & EV & R1 & R2).
    - destruct t; [contradiction | discriminate].
    - apply (incr_log t a); assumption.
    - apply (nondec_log t a); assumption.
    - simpl. apply lg_mono; assumption.
    - rewrite last_log. simpl. apply lg_mono; [lra | exact X2].
    - unfold logspline. change (map loglog (a :: t)) with (loglog a :: map loglog t). rewrite EV.
      eexists. split; [reflexivity|]. rewrite last_log in R2. simpl in R1, R2. apply pw_between; assumption.
  Qed.
End LogWhole.
