(* C24 — faithful model of the create functions with a batch counterpart
   (pandapower/create/*.py, helpers in create/_utils.py).

   A create function is transcribed as a *descriptor*: the table it extends, the table whose index is
   consulted by the index check (_get_index_with_check / _get_multiple_index_with_check), the node
   arguments checked for existence (_check_element / _check_multiple_elements / _check_branch_element),
   the arguments that must be positive, and for every column written: where its value comes from
   (argument / standard type / constant) or, for the NaN-optional columns, the
   _set_value_if_not_nan (_utils.py:218) resp. _add_to_entries_if_not_nan (_utils.py:258) protocol.
   The single and the batch function of a pair have *separate* descriptors, transcribed from the two
   function bodies as they are (defects included).  The interpreters [fold_col] (sequence of single
   calls) and [batch_col] give the values of one column after the call(s); pandas tables are
   column-major, "column absent" and NaN/None coincide at value level (VNaN).
   Executable definitions only. *)
From Coq Require Import ZArith QArith List Bool String.
From PPV Require Import Base.QN Base.Out.
Import ListNotations.
Open Scope string_scope.
Open Scope list_scope.

(* ---------------------------------------------------------------- cells *)
Inductive cell := VQ (q : Q) | VNaN | VB (b : bool) | VS (s : string).

Definition isnanc (c : cell) : bool := match c with VNaN => true | _ => false end.   (* not _not_nan, _utils.py:192 *)

Definition cell_eqb (a b : cell) : bool :=
  match a, b with
  | VQ x, VQ y => Z.eqb (Qnum x) (Qnum y) && Pos.eqb (Qden x) (Qden y)
  | VNaN, VNaN => true
  | VB x, VB y => Bool.eqb x y
  | VS x, VS y => String.eqb x y
  | _, _ => false
  end.

Definition amap := list (string * cell).          (* argument vector of one element / a std type *)
Fixpoint lookup (m : amap) (k : string) : option cell :=
  match m with [] => None | (k', v) :: t => if String.eqb k' k then Some v else lookup t k end.
Definition getarg (a : amap) (k : string) (pydflt : cell) : cell :=
  match lookup a k with Some v => v | None => pydflt end.
Definition has (m : amap) (k : string) : bool := match lookup m k with Some _ => true | None => false end.

(* ---------------------------------------------------------------- where a value comes from *)
Inductive src :=
| SArg (a : string) (pydflt : cell)     (* the argument (python default when not passed); always written *)
| SStd (p : string)                     (* std_type[p]  (KeyError when missing: see std_ok) *)
| SStdOpt (p : string)                  (* written only "if p in std_type" *)
| SStdGet (p : string) (d : cell)       (* std_type.get(p, d) *)
| SConst (c : cell)
| SAbsent                               (* column not written by this function *)
| SArgOr (a : string) (fb : src)        (* the argument if it is not NaN-like, else fb *)
| SStdIfCol (p : string).               (* create_line alpha: "if column exists and p in std_type" *)

(* ev: Some v = the key is in the entries dict with value v; None = not written *)
Fixpoint ev (ex : bool) (std a : amap) (s : src) : option cell :=
  match s with
  | SArg n d => Some (getarg a n d)
  | SStd p => lookup std p
  | SStdOpt p => lookup std p
  | SStdGet p d => Some (match lookup std p with Some v => v | None => d end)
  | SConst c => Some c
  | SAbsent => None
  | SArgOr n fb => let v := getarg a n VNaN in if isnanc v then ev ex std a fb else Some v
  | SStdIfCol p => if ex then lookup std p else None
  end.
Definition valof (o : option cell) : cell := match o with Some v => v | None => VNaN end.

Fixpoint pure (s : src) : bool :=            (* does not look at the column's existence *)
  match s with SStdIfCol _ => false | SArgOr _ fb => pure fb | _ => true end.

(* partial evaluation of the std-type lookups (used by the compatibility test / the guard G24) *)
Fixpoint norm (std : amap) (s : src) : src :=
  match s with
  | SStd p | SStdOpt p => match lookup std p with Some v => SConst v | None => SAbsent end
  | SStdGet p d => SConst (match lookup std p with Some v => v | None => d end)
  | SArgOr n fb => match norm std fb with SAbsent => SArg n VNaN | SConst VNaN => SArg n VNaN | f => SArgOr n f end
  | SConst VNaN => SAbsent
  | s => s
  end.

Fixpoint src_eqb (s t : src) : bool :=
  match s, t with
  | SArg a d, SArg b e => String.eqb a b && cell_eqb d e
  | SStd p, SStd q | SStdOpt p, SStdOpt q | SStdIfCol p, SStdIfCol q => String.eqb p q
  | SStdGet p d, SStdGet q e => String.eqb p q && cell_eqb d e
  | SConst c, SConst d => cell_eqb c d
  | SAbsent, SAbsent => true
  | SArgOr a f, SArgOr b g => String.eqb a b && src_eqb f g
  | _, _ => false
  end.

Inductive colspec :=
| Man (s : src)                                           (* key of the entries dict *)
| Opt (a : string) (pydflt dflt : cell) (fill : bool).    (* _set_value_if_not_nan / _add_to_entries_if_not_nan
                                                             (column, argument, its python default, default_val);
                                                             fill: the batch function lists it in defaults_to_fill *)

Record desc := {
  d_table : string;                       (* table that receives the rows *)
  d_idxtab : string;                      (* table whose index the index check looks at *)
  d_nodes : list (string * string);       (* (argument, node table) existence checks *)
  d_pos : list string;                    (* arguments rejected when <= 0 *)
  d_req : list string;                    (* std-type parameters read unconditionally *)
  d_cols : list (string * colspec)
}.

Fixpoint find_spec (l : list (string * colspec)) (c : string) : colspec :=
  match l with [] => Man SAbsent | (k, sp) :: t => if String.eqb k c then sp else find_spec t c end.
Definition spec_of (d : desc) (c : string) : colspec := find_spec (d_cols d) c.

(* ---------------------------------------------------------------- one column *)
Record ocol := { oc_ex : bool; oc_vals : list cell }.    (* column exists; values of all rows (NaN when absent) *)

(* one single call (_set_entries, then _set_value_if_not_nan) *)
Definition single_col (sp : colspec) (std a : amap) (oc : ocol) : ocol :=
  match sp with
  | Man s => let o := ev (oc_ex oc) std a s in
             {| oc_ex := oc_ex oc || (match o with Some _ => true | None => false end);
                oc_vals := oc_vals oc ++ [valof o] |}
  | Opt n pyd dflt _ =>
      let v := getarg a n pyd in
      if isnanc v then
        if oc_ex oc then {| oc_ex := true; oc_vals := oc_vals oc ++ [dflt] |}
        else {| oc_ex := false; oc_vals := oc_vals oc ++ [VNaN] |}
      else {| oc_ex := true;
              oc_vals := (if oc_ex oc then oc_vals oc else map (fun _ => dflt) (oc_vals oc)) ++ [v] |}
  end.

Fixpoint fold_col (sp : colspec) (std : amap) (l : list amap) (oc : ocol) : ocol :=
  match l with [] => oc | a :: t => fold_col sp std t (single_col sp std a oc) end.

(* one batch call (_add_to_entries_if_not_nan, _set_multiple_entries) *)
Definition batch_col (sp : colspec) (std : amap) (l : list amap) (oc : ocol) : ocol :=
  match sp with
  | Man s => let vs := map (fun a => valof (ev (oc_ex oc) std a s)) l in
             {| oc_ex := oc_ex oc || existsb (fun v => negb (isnanc v)) vs; oc_vals := oc_vals oc ++ vs |}
  | Opt n pyd dflt fill =>
      let vs := map (fun a => getarg a n pyd) l in
      if existsb (fun v => negb (isnanc v)) vs then
        {| oc_ex := true;
           oc_vals := (if oc_ex oc then oc_vals oc else if fill then map (fun _ => dflt) (oc_vals oc) else oc_vals oc)
                      ++ map (fun v => if isnanc v then dflt else v) vs |}
      else if oc_ex oc then {| oc_ex := true; oc_vals := oc_vals oc ++ map (fun _ => dflt) vs |}
      else {| oc_ex := false; oc_vals := oc_vals oc ++ map (fun _ => VNaN) vs |}
  end.

Definition new_vals (before : ocol) (after : ocol) : list cell := skipn (List.length (oc_vals before)) (oc_vals after).

(* ---------------------------------------------------------------- rejections *)
Definition tabs := list (string * list Z).              (* table name -> index *)
Fixpoint tindex (t : tabs) (k : string) : list Z :=
  match t with [] => [] | (k', l) :: r => if String.eqb k' k then l else tindex r k end.
Fixpoint tappend (t : tabs) (k : string) (i : Z) : tabs :=
  match t with [] => [(k, [i])] | (k', l) :: r => if String.eqb k' k then (k', l ++ [i]) :: r else (k', l) :: tappend r k i end.
Definition memz (i : Z) (l : list Z) : bool := existsb (Z.eqb i) l.

(* get_free_id (auxiliary.py:491) *)
Definition free_id (l : list Z) : Z := match l with [] => 0%Z | h :: t => (fold_left Z.max t h + 1)%Z end.

Definition node_ok (t : tabs) (a : amap) (n : string * string) : bool :=
  match lookup a (fst n) with
  | Some (VQ q) => Pos.eqb (Qden q) 1 && memz (Qnum q) (tindex t (snd n))
  | _ => false end.
Definition pos_ok (a : amap) (n : string) : bool :=
  match lookup a n with Some (VQ q) => Z.ltb 0 (Qnum q) | None => true | _ => false end.
Definition std_ok (d : desc) (std : amap) : bool := forallb (has std) (d_req d).
Definition elem_ok (d : desc) (t : tabs) (std a : amap) : bool :=
  forallb (node_ok t a) (d_nodes d) && forallb (pos_ok a) (d_pos d) && std_ok d std.

(* one single call: Some (new index) or None = raises *)
Definition single_ok (d : desc) (t : tabs) (std : amap) (idx : option Z) (a : amap) : option Z :=
  if elem_ok d t std a then
    match idx with
    | None => Some (free_id (tindex t (d_idxtab d)))
    | Some i => if memz i (tindex t (d_idxtab d)) then None else Some i
    end
  else None.

(* the sequence of single calls; stops at the first one that raises *)
Fixpoint fold_ok (d : desc) (t : tabs) (std : amap) (idxs : option (list Z)) (l : list amap) : option (list Z) :=
  match l with
  | [] => Some []
  | a :: l' =>
      let (i0, rest) := match idxs with
                        | None => (None, None)
                        | Some [] => (None, Some [])          (* lengths are checked by the caller *)
                        | Some (i :: r) => (Some i, Some r) end in
      match single_ok d t std i0 a with
      | None => None
      | Some i => match fold_ok d (tappend t (d_table d) i) std rest l' with
                  | None => None | Some r => Some (i :: r) end
      end
  end.

Fixpoint nodupz (l : list Z) : bool := match l with [] => true | h :: t => negb (memz h t) && nodupz t end.
Fixpoint arange (b : Z) (n : nat) : list Z := match n with O => [] | S k => b :: arange (b + 1)%Z k end.

(* the batch call *)
Definition batch_ok (d : desc) (t : tabs) (std : amap) (idxs : option (list Z)) (l : list amap) : option (list Z) :=
  if forallb (elem_ok d t std) l then
    match idxs with
    | None => Some (arange (free_id (tindex t (d_idxtab d))) (List.length l))
    | Some li => if nodupz li && negb (existsb (fun i => memz i (tindex t (d_idxtab d))) li) then Some li else None
    end
  else None.

(* ---------------------------------------------------------------- compatibility of a pair (= the guard G24) *)
Definition col_compat (std : amap) (ds db : desc) (c : string) : bool :=
  match spec_of ds c, spec_of db c with
  | Man s, Man t => pure s && pure t && src_eqb (norm std s) (norm std t)
  | Opt a p d _, Opt b q e _ => String.eqb a b && cell_eqb p q && cell_eqb d e
  | Opt a p VNaN _, Man t => pure t && src_eqb (SArg a p) (norm std t)
  | Man s, Opt b q VNaN _ => pure s && src_eqb (norm std s) (SArg b q)
  | _, _ => false
  end.
(* boolean bookkeeping flag excluded from the electrical comparison: the single functions write it through
   _set_value_if_not_nan(default False), the batch functions as a plain entry (differs only for a NaN flag) *)
Definition flags : list string := ["tap_dependency_table"].
Definition all_cols (ds db : desc) : list string :=
  filter (fun c => negb (existsb (String.eqb c) flags)) (map fst (d_cols ds) ++ map fst (d_cols db)).
Definition G24 (std : amap) (ds db : desc) : bool := forallb (col_compat std ds db) (all_cols ds db).
Definition incompat_cols (std : amap) (ds db : desc) : list string :=
  filter (fun c => negb (col_compat std ds db c)) (all_cols ds db).

Fixpoint slist_eqb (l m : list string) : bool :=
  match l, m with
  | [], [] => true
  | a :: l', b :: m' => String.eqb a b && slist_eqb l' m'
  | _, _ => false end.
Fixpoint nodes_eqb (l m : list (string * string)) : bool :=
  match l, m with
  | [], [] => true
  | a :: l', b :: m' => String.eqb (fst a) (fst b) && String.eqb (snd a) (snd b) && nodes_eqb l' m'
  | _, _ => false end.
(* the two functions perform the same checks against the same tables *)
Definition checks_compat (ds db : desc) : bool :=
  String.eqb (d_table ds) (d_table db) && String.eqb (d_idxtab ds) (d_table ds) && String.eqb (d_idxtab db) (d_table db)
  && nodes_eqb (d_nodes ds) (d_nodes db) && slist_eqb (d_pos ds) (d_pos db) && slist_eqb (d_req ds) (d_req db)
  && forallb (fun n => negb (String.eqb (snd n) (d_table ds))) (d_nodes ds).

(* ---------------------------------------------------------------- descriptors (file:line of the entries dicts) *)
Definition T := VB true.
Definition F := VB false.
Definition N (k : Z) := VQ (inject_Z k).
Definition arg (n : string) (d : cell) := (n, Man (SArg n d)).
Definition opt (n : string) := (n, Opt n VNaN VNaN false).
Definition lims := [opt "min_p_mw"; opt "max_p_mw"; opt "min_q_mvar"; opt "max_q_mvar"].

(* bus_create.py:91-96 / :228-231 *)
Definition d_bus_s : desc := {| d_table := "bus"; d_idxtab := "bus"; d_nodes := []; d_pos := []; d_req := [];
  d_cols := [arg "vn_kv" VNaN; arg "type" (VS "b"); arg "zone" VNaN; arg "in_service" T;
             ("min_vm_pu", Opt "min_vm_pu" VNaN (N 0) false); ("max_vm_pu", Opt "max_vm_pu" VNaN (N 2) false)] |}.
(* create_buses with the proposed (not applied: the REI code of grid_equivalents relies on NaN limits) repair
   "pass default_val=0.0 / 2.0 like create_bus" *)
Definition d_bus_b_repair : desc := {| d_table := "bus"; d_idxtab := "bus"; d_nodes := []; d_pos := []; d_req := [];
  d_cols := [arg "vn_kv" VNaN; arg "type" (VS "b"); arg "zone" VNaN; arg "in_service" T;
             ("min_vm_pu", Opt "min_vm_pu" VNaN (N 0) false); ("max_vm_pu", Opt "max_vm_pu" VNaN (N 2) false)] |}.
(* create_buses as it is: no default_val *)
Definition d_bus_b : desc := {| d_table := "bus"; d_idxtab := "bus"; d_nodes := []; d_pos := []; d_req := [];
  d_cols := [arg "vn_kv" VNaN; arg "type" (VS "b"); arg "zone" VNaN; arg "in_service" T;
             opt "min_vm_pu"; opt "max_vm_pu"] |}.

(* load_create.py:104-124 / :201-226 *)
Definition load_cols (fill : bool) :=
  [arg "bus" VNaN; arg "p_mw" VNaN; arg "q_mvar" (N 0); arg "const_z_p_percent" (N 0); arg "const_i_p_percent" (N 0);
   arg "const_z_q_percent" (N 0); arg "const_i_q_percent" (N 0); arg "sn_mva" VNaN; arg "scaling" (N 1);
   arg "in_service" T; arg "type" (VS "wye")] ++ lims ++ [("controllable", Opt "controllable" VNaN F fill)].
Definition d_load_s : desc := {| d_table := "load"; d_idxtab := "load"; d_nodes := [("bus", "bus")]; d_pos := []; d_req := [];
  d_cols := load_cols false |}.
Definition d_load_b : desc := {| d_table := "load"; d_idxtab := "load"; d_nodes := [("bus", "bus")]; d_pos := []; d_req := [];
  d_cols := load_cols true |}.

(* storage_create.py:99-120 / :193-217 *)
Definition storage_cols (fill : bool) :=
  [arg "bus" VNaN; arg "p_mw" VNaN; arg "q_mvar" (N 0); arg "sn_mva" VNaN; arg "scaling" (N 1); arg "soc_percent" VNaN;
   arg "min_e_mwh" (N 0); arg "max_e_mwh" VNaN; arg "in_service" T; arg "type" VNaN] ++ lims
   ++ [("controllable", Opt "controllable" VNaN F fill)].
Definition d_storage_s : desc := {| d_table := "storage"; d_idxtab := "storage"; d_nodes := [("bus", "bus")]; d_pos := [];
  d_req := []; d_cols := storage_cols false |}.
Definition d_storage_b : desc := {| d_table := "storage"; d_idxtab := "storage"; d_nodes := [("bus", "bus")]; d_pos := [];
  d_req := []; d_cols := storage_cols true |}.

(* gen_create.py:127-171 / :281-320 *)
Definition gen_common :=
  [arg "bus" VNaN; arg "p_mw" VNaN; arg "vm_pu" (N 1); arg "sn_mva" VNaN; arg "type" VNaN; arg "slack" F;
   arg "in_service" T; arg "scaling" (N 1); arg "slack_weight" (N 0)] ++ lims ++
  [opt "vn_kv"; opt "cos_phi"; opt "xdss_pu"; opt "rdss_ohm"; opt "pg_percent"; opt "power_station_trafo";
   opt "id_q_capability_characteristic"].
Definition d_gen_s : desc := {| d_table := "gen"; d_idxtab := "gen"; d_nodes := [("bus", "bus")]; d_pos := []; d_req := [];
  d_cols := gen_common ++ [("controllable", Opt "controllable" VNaN T false);
                           ("curve_style", Opt "curve_style" VNaN VNaN false);
                           ("reactive_capability_curve", Opt "reactive_capability_curve" F VNaN false);
                           ("max_vm_pu", Opt "max_vm_pu" VNaN (N 2) false); ("min_vm_pu", Opt "min_vm_pu" VNaN (N 0) false)] |}.
Definition gen_b_cols (vm : list (string * colspec)) :=
  gen_common ++ [("controllable", Opt "controllable" VNaN T true);
                 arg "curve_style" VNaN;
                 ("reactive_capability_curve", Opt "reactive_capability_curve" F VNaN true)] ++ vm.
Definition d_gen_b_repair : desc := {| d_table := "gen"; d_idxtab := "gen"; d_nodes := [("bus", "bus")]; d_pos := []; d_req := [];
  d_cols := gen_b_cols [("max_vm_pu", Opt "max_vm_pu" VNaN (N 2) false); ("min_vm_pu", Opt "min_vm_pu" VNaN (N 0) false)] |}.
Definition d_gen_b : desc := {| d_table := "gen"; d_idxtab := "gen"; d_nodes := [("bus", "bus")]; d_pos := []; d_req := [];
  d_cols := gen_b_cols [opt "max_vm_pu"; opt "min_vm_pu"] |}.

(* ward_create.py:58-70 / :105-118   (before "fix: create_wards checks and allocates the index in net.ward" it consulted net.storage) *)
Definition ward_cols := [arg "bus" VNaN; arg "ps_mw" VNaN; arg "qs_mvar" VNaN; arg "pz_mw" VNaN; arg "qz_mvar" VNaN; arg "in_service" T].
Definition d_ward_s : desc := {| d_table := "ward"; d_idxtab := "ward"; d_nodes := [("bus", "bus")]; d_pos := []; d_req := [];
  d_cols := ward_cols |}.
Definition d_ward_b : desc := {| d_table := "ward"; d_idxtab := "ward"; d_nodes := [("bus", "bus")]; d_pos := []; d_req := [];
  d_cols := ward_cols |}.
Definition d_ward_b_old : desc := {| d_table := "ward"; d_idxtab := "storage"; d_nodes := [("bus", "bus")]; d_pos := []; d_req := [];
  d_cols := ward_cols |}.

(* line_create.py:115-150 / :349-373 *)
Definition line_common :=
  [arg "from_bus" VNaN; arg "to_bus" VNaN; arg "length_km" VNaN; arg "in_service" T; arg "df" (N 1); arg "parallel" (N 1);
   ("r_ohm_per_km", Man (SStd "r_ohm_per_km")); ("x_ohm_per_km", Man (SStd "x_ohm_per_km"));
   ("c_nf_per_km", Man (SStd "c_nf_per_km")); ("max_i_ka", Man (SStd "max_i_ka"));
   ("g_us_per_km", Man (SStdGet "g_us_per_km" (N 0))); ("type", Man (SStdOpt "type")); opt "max_loading_percent"].
Definition line_req := ["r_ohm_per_km"; "x_ohm_per_km"; "c_nf_per_km"; "max_i_ka"].
Definition line_nodes := [("from_bus", "bus"); ("to_bus", "bus")].
Definition line_zero := [("r0_ohm_per_km", Man (SStdOpt "r0_ohm_per_km")); ("x0_ohm_per_km", Man (SStdOpt "x0_ohm_per_km"));
                         ("c0_nf_per_km", Man (SStdOpt "c0_nf_per_km"))].
Definition d_line_s : desc := {| d_table := "line"; d_idxtab := "line"; d_nodes := line_nodes; d_pos := []; d_req := line_req;
  d_cols := line_common ++ line_zero ++ [
                            ("alpha", Man (SArgOr "alpha" (SStdIfCol "alpha")));
                            opt "temperature_degree_celsius"] |}.
(* create_lines has no alpha / temperature parameter: they arrive through **kwargs as plain entries *)
(* after "fix: create_lines copies the zero sequence parameters of the standard type" *)
Definition d_line_b : desc := {| d_table := "line"; d_idxtab := "line"; d_nodes := line_nodes; d_pos := []; d_req := line_req;
  d_cols := line_common ++ line_zero ++ [arg "alpha" VNaN; arg "temperature_degree_celsius" VNaN] |}.
Definition d_line_b_old : desc := {| d_table := "line"; d_idxtab := "line"; d_nodes := line_nodes; d_pos := []; d_req := line_req;
  d_cols := line_common ++ [arg "alpha" VNaN; arg "temperature_degree_celsius" VNaN] |}.

(* trafo_create.py:105-189 (create_transformer) / :252-270 + :623-695 (create_transformers -> ..._from_parameters) *)
Definition trafo_nodes := [("hv_bus", "bus"); ("lv_bus", "bus")].
Definition trafo_req := ["sn_mva"; "vn_hv_kv"; "vn_lv_kv"; "vk_percent"; "vkr_percent"; "pfe_kw"; "i0_percent"].
Definition stdcol (p : string) := (p, Man (SStd p)).
Definition stdopt (p : string) := (p, Man (SStdOpt p)).
Definition trafo_common :=
  [arg "hv_bus" VNaN; arg "lv_bus" VNaN; arg "in_service" T; arg "parallel" (N 1); arg "df" (N 1)] ++ map stdcol trafo_req ++
  map stdopt ["vk0_percent"; "vkr0_percent"; "mag0_percent"; "mag0_rx"; "si0_hv_partial"; "vector_group"] ++
  [opt "max_loading_percent"; opt "id_characteristic_table"; opt "pt_percent"; opt "xn_ohm"].
Definition d_trafo_s : desc := {| d_table := "trafo"; d_idxtab := "trafo"; d_nodes := trafo_nodes; d_pos := ["df"]; d_req := trafo_req;
  d_cols := trafo_common ++
    [("shift_degree", Man (SStdGet "shift_degree" (N 0)))] ++
    map stdopt ["tap_neutral"; "tap_max"; "tap_min"; "tap_side"; "tap_step_percent"; "tap_step_degree";
                "tap2_neutral"; "tap2_max"; "tap2_min"; "tap2_side"; "tap2_step_percent"; "tap2_step_degree"; "tap2_changer_type"] ++
    [("tap_changer_type", Man (SArgOr "tap_changer_type" (SStdOpt "tap_changer_type")));
     ("tap_pos", Man (SArgOr "tap_pos" (SStdOpt "tap_neutral")));
     ("tap2_pos", Man (SArgOr "tap2_pos" (SStdOpt "tap2_neutral")));
     ("tap_dependency_table", Opt "tap_dependency_table" F F false);
     ("oltc", Opt "oltc" F F false)] |}.
(* d_pos: after "fix: create_transformers_from_parameters rejects a non-positive derating factor df" *)
Definition trafo_b_cols := trafo_common ++
    [("shift_degree", Man (SConst (N 0)));
     arg "tap_changer_type" VNaN;
     ("tap_pos", Man (SArgOr "tap_pos" SAbsent));
     opt "tap2_pos";
     arg "tap_dependency_table" F;
     ("oltc", Opt "oltc" F F false)].
Definition d_trafo_b : desc := {| d_table := "trafo"; d_idxtab := "trafo"; d_nodes := trafo_nodes; d_pos := ["df"]; d_req := trafo_req;
  d_cols := trafo_b_cols |}.
Definition d_trafo_b_old : desc := {| d_table := "trafo"; d_idxtab := "trafo"; d_nodes := trafo_nodes; d_pos := []; d_req := trafo_req;
  d_cols := trafo_b_cols |}.

(* trafo_create.py:762-820 (create_transformer3w) / :897-926 + from_parameters *)
Definition t3_nodes := [("hv_bus", "bus"); ("mv_bus", "bus"); ("lv_bus", "bus")].
Definition t3_req := ["sn_hv_mva"; "sn_mv_mva"; "sn_lv_mva"; "vn_hv_kv"; "vn_mv_kv"; "vn_lv_kv"; "vk_hv_percent"; "vk_mv_percent";
                      "vk_lv_percent"; "vkr_hv_percent"; "vkr_mv_percent"; "vkr_lv_percent"; "pfe_kw"; "i0_percent"].
Definition t3_cols :=
  [arg "hv_bus" VNaN; arg "mv_bus" VNaN; arg "lv_bus" VNaN; arg "in_service" T; arg "tap_at_star_point" F] ++ map stdcol t3_req ++
  [("shift_mv_degree", Man (SStdGet "shift_mv_degree" (N 0))); ("shift_lv_degree", Man (SStdGet "shift_lv_degree" (N 0)))] ++
  map stdopt ["tap_neutral"; "tap_max"; "tap_min"; "tap_side"; "tap_step_percent"; "tap_step_degree"] ++
  [("tap_changer_type", Man (SArgOr "tap_changer_type" (SStdOpt "tap_changer_type")));
   ("tap_pos", Man (SArgOr "tap_pos" (SStdOpt "tap_neutral")));
   opt "max_loading_percent"; opt "id_characteristic_table"].
Definition d_t3_s : desc := {| d_table := "trafo3w"; d_idxtab := "trafo3w"; d_nodes := t3_nodes; d_pos := []; d_req := t3_req;
  d_cols := t3_cols ++ [("tap_dependency_table", Opt "tap_dependency_table" F F false)] |}.
Definition d_t3_b : desc := {| d_table := "trafo3w"; d_idxtab := "trafo3w"; d_nodes := t3_nodes; d_pos := []; d_req := t3_req;
  d_cols := t3_cols ++ [arg "tap_dependency_table" F] |}.

Definition kind_desc (k : string) : option (desc * desc) :=
  if String.eqb k "bus" then Some (d_bus_s, d_bus_b) else
  if String.eqb k "load" then Some (d_load_s, d_load_b) else
  if String.eqb k "storage" then Some (d_storage_s, d_storage_b) else
  if String.eqb k "gen" then Some (d_gen_s, d_gen_b) else
  if String.eqb k "ward" then Some (d_ward_s, d_ward_b) else
  if String.eqb k "line" then Some (d_line_s, d_line_b) else
  if String.eqb k "trafo" then Some (d_trafo_s, d_trafo_b) else
  if String.eqb k "trafo3w" then Some (d_t3_s, d_t3_b) else None.

(* ---------------------------------------------------------------- duplicate-cost checks (_utils.py:96-137) *)
Record cost := { c_elem : Z; c_et : string; c_ptype : string }.     (* a row of poly_cost / pwl_cost *)
Definition same_el (e : Z) (et : string) (c : cost) : bool := Z.eqb (c_elem c) e && String.eqb (c_et c) et.
(* _cost_existance_check: power_type None (create_poly_cost) or given (create_pwl_cost) *)
Definition cost_exists (poly pwl : list cost) (e : Z) (et : string) (pt : option string) : bool :=
  existsb (same_el e et) poly ||
  existsb (fun c => same_el e et c && match pt with None => true | Some p => String.eqb (c_ptype c) p end) pwl.
(* fold of single create_poly_cost / create_pwl_cost calls, et given as one string; true = some call raises.
   is_poly: the new rows go to poly_cost (else to pwl_cost with power type pt) *)
Fixpoint cost_fold_rejects (is_poly : bool) (poly pwl : list cost) (els : list Z) (et : string) (pt : string) : bool :=
  match els with
  | [] => false
  | e :: r =>
      if cost_exists poly pwl e et (if is_poly then None else Some pt) then true
      else let c := {| c_elem := e; c_et := et; c_ptype := pt |} in
           if is_poly then cost_fold_rejects is_poly (poly ++ [c]) pwl r et pt
           else cost_fold_rejects is_poly poly (pwl ++ [c]) r et pt
  end.
(* _costs_existance_check after "fix: create_poly_costs / create_pwl_costs reject exactly the duplicate costs the single
   functions reject": number of new entries with an existing poly cost / pwl cost [of the power type] + repetitions >= 1 *)
Definition costs_batch_rejects (is_poly : bool) (poly pwl : list cost) (els : list Z) (et : string) (pt : string) : bool :=
  existsb (fun e => cost_exists poly pwl e et (if is_poly then None else Some pt)) els || negb (nodupz els).
(* before the repair, branch "et is a str": sum(poly_exist) & sum(pwl_exist) >= 1  (bitwise and of two counts) *)
Definition countb {A} (f : A -> bool) (l : list A) : Z := Z.of_nat (List.length (filter f l)).
Definition costs_batch_rejects_old (is_poly : bool) (poly pwl : list cost) (els : list Z) (et : string) (pt : string) : bool :=
  let pe := countb (fun c => memz (c_elem c) els && String.eqb (c_et c) et) poly in
  let we := countb (fun c => memz (c_elem c) els && String.eqb (c_et c) et &&
                             (if is_poly then true else String.eqb (c_ptype c) pt)) pwl in
  Z.leb 1 (Z.land pe we).
(* guard of the partial theorem: no cost exists yet for any of the elements and the elements are distinct *)
Definition G24_cost (poly pwl : list cost) (els : list Z) (et : string) : bool :=
  nodupz els && negb (existsb (fun c => memz (c_elem c) els && String.eqb (c_et c) et) (poly ++ pwl)).

(* ---------------------------------------------------------------- output for the correspondence run *)
Definition ocell (c : cell) : out :=
  match c with VQ q => oq q | VNaN => ONone | VB b => OB b | VS s => OS s end.
Definition oocol (b : ocol) (a : ocol) : out := OL [OB (oc_ex a); olist ocell (new_vals b a)].
Definition oidx (o : option (list Z)) : out := match o with None => OErr "reject" | Some l => olist OZ l end.

(* one generated case: both ways, the queried columns with their initial state *)
Definition run_pair (ds db : desc) (t : tabs) (std : amap) (idxs : option (list Z)) (l : list amap)
           (cols : list (string * ocol)) : out :=
  OL [ oidx (fold_ok ds t std idxs l);
       oidx (batch_ok db t std idxs l);
       olist (fun p => oocol (snd p) (fold_col (spec_of ds (fst p)) std l (snd p))) cols;
       olist (fun p => oocol (snd p) (batch_col (spec_of db (fst p)) std l (snd p))) cols;
       olist OS (incompat_cols std ds db);
       OB (checks_compat ds db) ].
Definition run_kind (k : string) (t : tabs) (std : amap) (idxs : option (list Z)) (l : list amap)
           (cols : list (string * ocol)) : out :=
  match kind_desc k with Some (ds, db) => run_pair ds db t std idxs l cols | None => OErr "kind" end.

Definition mkcost (e : Z) (et pt : string) : cost := {| c_elem := e; c_et := et; c_ptype := pt |}.
Definition run_cost (is_poly : bool) (poly pwl : list cost) (els : list Z) (et pt : string) : out :=
  OL [OB (cost_fold_rejects is_poly poly pwl els et pt); OB (costs_batch_rejects is_poly poly pwl els et pt);
      OB (G24_cost poly pwl els et); OB (costs_batch_rejects_old is_poly poly pwl els et pt)].
