(* C24 — extended descriptors: create pairs whose bodies contain *conditional* column writes or argument
   defaults computed from other arguments (sgen / sgens, shunt / shunts, impedance / impedances, the
   *_from_parameters pairs of lines, transformers, 3W transformers, bus_dc / buses_dc, the columns of
   switch / switches), the element / connectivity checks of create_switch(es), and the duplicate-cost checks with
   et / power_type given per element.

   Same descriptor language as C24/Model.v (desc, colspec, src; interpreters single_col / batch_col / fold_ok /
   batch_ok).  New: a column may have *alternatives* guarded by a condition on the arguments.  A single function
   evaluates the condition on the arguments of its one element ([acond]: `if generator_type == "current_source"`,
   `if not np_any(nan_0_values)`, `if vn_kv is None`); a batch function evaluates it once on the whole argument
   vectors ([vcond]: `gen_type_match["current_source"].any()`, `if vn_kv is None`).  Conditions under which the
   function raises are listed in x_rs / x_rb.  Executable definitions only. *)
From Coq Require Import ZArith QArith List Bool String.
From PPV Require Import Base.QN Base.Out C24.Model.
Import ListNotations.
Open Scope string_scope.
Open Scope list_scope.

(* ---------------------------------------------------------------- conditions on the arguments *)
Inductive acond :=
| CTrue
| CIn (a : string) (pydflt : cell) (vals : list cell)    (* the argument (python default when omitted) is one of vals *)
| CAllGiven (l : list string)                            (* none of the arguments is NaN-like *)
| CNot (c : acond)
| CAnd (c d : acond).
Definition memc (v : cell) (l : list cell) : bool := existsb (cell_eqb v) l.
Fixpoint aeval (c : acond) (a : amap) : bool :=
  match c with
  | CTrue => true
  | CIn n p vs => memc (getarg a n p) vs
  | CAllGiven l => forallb (fun n => negb (isnanc (getarg a n VNaN))) l
  | CNot c' => negb (aeval c' a)
  | CAnd c' d' => aeval c' a && aeval d' a
  end.
Definition CNaN (n : string) : acond := CIn n VNaN [VNaN].          (* "n is None" / isnan(n) *)
Definition CGiven (n : string) : acond := CNot (CNaN n).

Inductive vcond :=                                                   (* over the rows of the argument vectors *)
| VAll (c : acond) | VAny (c : acond) | VAnd (v w : vcond)
| VHet (n : string).                   (* the argument is passed as a vector (the rows are not all equal) *)
Definition het (n : string) (l : list amap) : bool :=
  match l with [] => false | a0 :: r => negb (forallb (fun a => cell_eqb (getarg a n VNaN) (getarg a0 n VNaN)) r) end.
Fixpoint veval (v : vcond) (l : list amap) : bool :=
  match v with
  | VAll c => forallb (aeval c) l | VAny c => existsb (aeval c) l | VAnd v' w' => veval v' l && veval w' l
  | VHet n => het n l
  end.

Fixpoint pick_s (alts : list (acond * colspec)) (a : amap) : colspec :=
  match alts with [] => Man SAbsent | (c, sp) :: r => if aeval c a then sp else pick_s r a end.
Fixpoint pick_b (alts : list (vcond * colspec)) (l : list amap) : colspec :=
  match alts with [] => Man SAbsent | (c, sp) :: r => if veval c l then sp else pick_b r l end.

Fixpoint assoc {A} (l : list (string * A)) (k : string) : option A :=
  match l with [] => None | (k', v) :: t => if String.eqb k' k then Some v else assoc t k end.

Record xdesc := {
  x_d : desc;                                         (* checks and unconditional columns *)
  x_cs : list (string * list (acond * colspec));      (* conditional columns of a single function (first match) *)
  x_cb : list (string * list (vcond * colspec));      (* conditional columns of a batch function *)
  x_rs : list acond;                                  (* a single call raises when one of these holds *)
  x_rb : list vcond                                   (* the batch call raises when one of these holds *)
}.
Definition plain (d : desc) : xdesc := {| x_d := d; x_cs := []; x_cb := []; x_rs := []; x_rb := [] |}.

(* the column specification a single call with arguments a / the batch call with vectors l follows *)
Definition spec_el (x : xdesc) (c : string) (a : amap) : colspec :=
  match assoc (x_cs x) c with Some alts => pick_s alts a | None => spec_of (x_d x) c end.
Definition spec_vec (x : xdesc) (c : string) (l : list amap) : colspec :=
  match assoc (x_cb x) c with Some alts => pick_b alts l | None => spec_of (x_d x) c end.

Fixpoint xfold_col (x : xdesc) (c : string) (std : amap) (l : list amap) (oc : ocol) : ocol :=
  match l with [] => oc | a :: t => xfold_col x c std t (single_col (spec_el x c a) std a oc) end.
Definition xbatch_col (x : xdesc) (c : string) (std : amap) (l : list amap) (oc : ocol) : ocol :=
  batch_col (spec_vec x c l) std l oc.

(* ---------------------------------------------------------------- rejections *)
Definition raises_s (x : xdesc) (a : amap) : bool := existsb (fun c => aeval c a) (x_rs x).
Definition extra_s (x : xdesc) (l : list amap) : bool := existsb (raises_s x) l.
Definition extra_b (x : xdesc) (l : list amap) : bool := existsb (fun v => veval v l) (x_rb x).

Fixpoint xfold_ok (x : xdesc) (t : tabs) (std : amap) (idxs : option (list Z)) (l : list amap) : option (list Z) :=
  match l with
  | [] => Some []
  | a :: l' =>
      let (i0, rest) := match idxs with
                        | None => (None, None)
                        | Some [] => (None, Some [])
                        | Some (i :: r) => (Some i, Some r) end in
      if raises_s x a then None else
      match single_ok (x_d x) t std i0 a with
      | None => None
      | Some i => match xfold_ok x (tappend t (d_table (x_d x)) i) std rest l' with
                  | None => None | Some r => Some (i :: r) end
      end
  end.
Definition xbatch_ok (x : xdesc) (t : tabs) (std : amap) (idxs : option (list Z)) (l : list amap) : option (list Z) :=
  if extra_b x l then None else batch_ok (x_d x) t std idxs l.

(* ---------------------------------------------------------------- the guard *)
Definition colspec_eqb (a b : colspec) : bool :=
  match a, b with
  | Man s, Man t => src_eqb s t
  | Opt n p d f, Opt m q e g => String.eqb n m && cell_eqb p q && cell_eqb d e && Bool.eqb f g
  | _, _ => false
  end.
Definition mk1 (sp : colspec) : desc :=
  {| d_table := ""; d_idxtab := ""; d_nodes := []; d_pos := []; d_req := []; d_cols := [("c", sp)] |}.
(* compatibility of two column specifications = col_compat of Model.v *)
Definition compat1 (std : amap) (sp_s sp_b : colspec) : bool := col_compat std (mk1 sp_s) (mk1 sp_b) "c".
(* two plain entries that denote the same value on each of the given rows *)
Definition sem_eq (std : amap) (sp_s sp_b : colspec) (l : list amap) : bool :=
  match sp_s, sp_b with
  | Man s, Man t => pure s && pure t &&
                    forallb (fun a => cell_eqb (valof (ev false std a s)) (valof (ev false std a t))) l
  (* the same optional column, python defaults / default_val may differ but not on these rows *)
  | Opt n p d _, Opt m q e _ => String.eqb n m &&
                                forallb (fun a => cell_eqb (getarg a n p) (getarg a m q) &&
                                                  (negb (isnanc (getarg a n p)) || cell_eqb d e)) l
  (* an entry against an optional column without default value *)
  | Man s, Opt m q VNaN _ => pure s && forallb (fun a => cell_eqb (valof (ev false std a s)) (getarg a m q)) l
  | Opt n p VNaN _, Man t => pure t && forallb (fun a => cell_eqb (getarg a n p) (valof (ev false std a t))) l
  | _, _ => false
  end.
(* GX: every single call of the sequence follows the same column specification, and it is compatible with
   the one the batch call follows for these argument vectors *)
Definition GX (std : amap) (xs xb : xdesc) (c : string) (l : list amap) : bool :=
  match l with
  | [] => true
  | a0 :: _ => let sp := spec_el xs c a0 in
               forallb (fun a => colspec_eqb (spec_el xs c a) sp) l &&
               (compat1 std sp (spec_vec xb c l) || sem_eq std sp (spec_vec xb c l) l)
  end.
Definition xall_cols (xs xb : xdesc) : list string :=
  all_cols (x_d xs) (x_d xb) ++ map fst (x_cs xs) ++ map fst (x_cb xb).
Definition xincompat_cols (std : amap) (xs xb : xdesc) (l : list amap) : list string :=
  filter (fun c => negb (GX std xs xb c l)) (xall_cols xs xb).
Definition xchecks_compat (xs xb : xdesc) (l : list amap) : bool :=
  checks_compat (x_d xs) (x_d xb) && Bool.eqb (extra_s xs l) (extra_b xb l).

(* ---------------------------------------------------------------- descriptors *)
Definition ospec (n : string) : colspec := Opt n VNaN VNaN false.
Definition CS := VS "current_source".
Definition mkd (tab : string) (nodes : list (string * string)) (pos : list string) (cols : list (string * colspec)) : desc :=
  {| d_table := tab; d_idxtab := tab; d_nodes := nodes; d_pos := pos; d_req := []; d_cols := cols |}.

(* sgen_create.py:126-171 (create_sgen) / :251-305 (create_sgens) *)
Definition sgen_common :=
  [arg "bus" VNaN; arg "p_mw" VNaN; arg "scaling" (N 1); arg "q_mvar" (N 0); arg "sn_mva" VNaN; arg "in_service" T;
   arg "type" (VS "wye"); arg "current_source" T] ++ lims ++
  [opt "rx"; opt "kappa" (* written only if isfinite(kappa): an infinite kappa is not generated *);
   opt "id_q_capability_characteristic"].
Definition GT := "generator_type".
Definition x_sgen_s : xdesc := {|
  x_d := mkd "sgen" [("bus", "bus")] []
    (sgen_common ++ [("controllable", Opt "controllable" VNaN F false);
                     ("reactive_capability_curve", Opt "reactive_capability_curve" F VNaN false);
                     ("curve_style", Opt "curve_style" VNaN VNaN false);
                     (GT, Opt GT VNaN CS false)]);                     (* default None, default_val "current_source" *)
  x_cs := [("k", [(CIn GT VNaN [VNaN; CS], ospec "k")]);               (* if generator_type == "current_source" or None *)
           ("lrc_pu", [(CIn GT VNaN [VS "async"], ospec "lrc_pu")]);
           ("max_ik_ka", [(CIn GT VNaN [VS "async_doubly_fed"], ospec "max_ik_ka")])];
  x_cb := [];
  x_rs := [CNot (CIn GT VNaN [VNaN; CS; VS "async"; VS "async_doubly_fed"])];
  x_rb := [] |}.
Definition x_sgen_b : xdesc := {|
  x_d := mkd "sgen" [("bus", "bus")] []
    (sgen_common ++ [("controllable", Opt "controllable" VNaN F true);
                     arg "reactive_capability_curve" F; arg "curve_style" VNaN;
                     (GT, Opt GT CS CS false)]);                       (* default "current_source" *)
  x_cs := [];
  (* gen_type_match[...].any() on the filled generator_type series: the whole vector is written *)
  x_cb := [("k", [(VAny (CIn GT CS [VNaN; CS]), ospec "k")]);
           ("lrc_pu", [(VAny (CIn GT CS [VS "async"]), ospec "lrc_pu")]);
           ("max_ik_ka", [(VAny (CIn GT CS [VS "async_doubly_fed"]), ospec "max_ik_ka")])];
  x_rs := [];
  (* generator_type=None with the column absent -> KeyError at entries["generator_type"]
     ("col:generator_type" = the column exists, context value) *)
  x_rb := [VAny (CNot (CIn GT CS [VNaN; CS; VS "async"; VS "async_doubly_fed"]));
           VAnd (VAll (CIn GT CS [VNaN])) (VAll (CIn "col:generator_type" F [F]))] |}.
(* before "fix: batch create functions accept string-valued optional arguments passed as a list": _not_nan called isnan
   on a list of strings -> TypeError *)
Definition x_sgen_b_old : xdesc := {|
  x_d := x_d x_sgen_b; x_cs := []; x_cb := x_cb x_sgen_b; x_rs := []; x_rb := x_rb x_sgen_b ++ [VHet GT] |}.

(* shunt_create.py:75-99 / :147-171.  "bus:vn_kv" = net.bus.vn_kv.at[bus] (context value, passed with the arguments) *)
Definition shunt_common :=
  [arg "bus" VNaN; arg "p_mw" (N 0); arg "q_mvar" VNaN; arg "step" (N 1); arg "max_step" (N 1); arg "in_service" T;
   arg "step_dependency_table" F].
Definition x_shunt_s : xdesc := plain (mkd "shunt" [("bus", "bus")] []
  (shunt_common ++ [("vn_kv", Man (SArgOr "vn_kv" (SArg "bus:vn_kv" VNaN)));          (* if vn_kv is None *)
                    opt "id_characteristic_table"])).
Definition x_shunt_b : xdesc := {|
  x_d := mkd "shunt" [("bus", "bus")] [] (shunt_common ++ [arg "id_characteristic_table" VNaN]);
  x_cs := [];
  x_cb := [("vn_kv", [(VAll (CNaN "vn_kv"), Man (SArg "bus:vn_kv" VNaN));             (* the argument vn_kv is None *)
                      (VAll CTrue, Man (SArg "vn_kv" VNaN))])];
  x_rs := []; x_rb := [] |}.

(* impedance_create.py:140-203 / :312-380 *)
Definition imp_nodes := [("from_bus", "bus"); ("to_bus", "bus")].
Definition imp_plain := [arg "from_bus" VNaN; arg "to_bus" VNaN; arg "rft_pu" VNaN; arg "xft_pu" VNaN; arg "gf_pu" (N 0);
                         arg "bf_pu" (N 0); arg "sn_mva" VNaN; arg "in_service" T].
Definition dfl (n fb : string) (d : cell) : colspec := Man (SArgOr n (SArg fb d)).    (* if n is None: n = fb *)
Definition imp_raise := CAnd (CNaN "rft0_pu") (CGiven "rtf0_pu").
Definition imp_raise' := CAnd (CNaN "xft0_pu") (CGiven "xtf0_pu").
Definition x_imp_s : xdesc := {|
  x_d := mkd "impedance" imp_nodes []
    (imp_plain ++ [("rtf_pu", dfl "rtf_pu" "rft_pu" VNaN); ("xtf_pu", dfl "xtf_pu" "xft_pu" VNaN);
                   ("gt_pu", dfl "gt_pu" "gf_pu" (N 0)); ("bt_pu", dfl "bt_pu" "bf_pu" (N 0))]);
  (* if rft0_pu is not None: _set_value_if_not_nan for the four zero-sequence series values; likewise gf0_pu *)
  x_cs := [("rft0_pu", [(CGiven "rft0_pu", ospec "rft0_pu")]);
           ("xft0_pu", [(CGiven "rft0_pu", ospec "xft0_pu")]);
           ("rtf0_pu", [(CGiven "rft0_pu", dfl "rtf0_pu" "rft0_pu" VNaN)]);
           ("xtf0_pu", [(CGiven "rft0_pu", dfl "xtf0_pu" "xft0_pu" VNaN)]);
           ("gf0_pu", [(CGiven "gf0_pu", ospec "gf0_pu")]);
           ("bf0_pu", [(CGiven "gf0_pu", ospec "bf0_pu")]);
           ("gt0_pu", [(CGiven "gf0_pu", dfl "gt0_pu" "gf0_pu" VNaN)]);
           ("bt0_pu", [(CGiven "gf0_pu", dfl "bt0_pu" "bf0_pu" VNaN)])];
  x_cb := [];
  x_rs := [CNaN "rft_pu"; CNaN "xft_pu"; imp_raise; imp_raise'];
  x_rb := [] |}.
(* the batch function tests "is None" on the whole argument *)
Definition vdfl (n fb : string) (d : cell) : list (vcond * colspec) :=
  [(VAll (CNaN n), Man (SArg fb d)); (VAll CTrue, Man (SArg n VNaN))].
Definition imp_rb := [VAll (CNaN "rft_pu"); VAll (CNaN "xft_pu"); VAnd (VAll (CNaN "rft0_pu")) (VAny (CGiven "rtf0_pu"));
                      VAnd (VAll (CNaN "xft0_pu")) (VAny (CGiven "xtf0_pu"))].
Definition imp_cb_main := [("rtf_pu", vdfl "rtf_pu" "rft_pu" VNaN); ("xtf_pu", vdfl "xtf_pu" "xft_pu" VNaN);
                           ("gt_pu", vdfl "gt_pu" "gf_pu" (N 0)); ("bt_pu", vdfl "bt_pu" "bf_pu" (N 0))].
(* zero-sequence block after "fix: create_impedances accepts the zero-sequence arguments": _add_to_entries_if_not_nan under
   "if rft0_pu is not None" / "if gf0_pu is not None"; a tf / t argument that is None was replaced by the ft / f argument *)
Definition zdfl (g n fb : string) : list (vcond * colspec) :=
  [(VAnd (VAny (CGiven g)) (VAll (CNaN n)), ospec fb); (VAny (CGiven g), ospec n)].
Definition x_imp_b : xdesc := {|
  x_d := mkd "impedance" imp_nodes [] imp_plain;
  x_cs := [];
  x_cb := imp_cb_main ++
          [("rft0_pu", [(VAny (CGiven "rft0_pu"), ospec "rft0_pu")]); ("xft0_pu", [(VAny (CGiven "rft0_pu"), ospec "xft0_pu")]);
           ("rtf0_pu", zdfl "rft0_pu" "rtf0_pu" "rft0_pu"); ("xtf0_pu", zdfl "rft0_pu" "xtf0_pu" "xft0_pu");
           ("gf0_pu", [(VAny (CGiven "gf0_pu"), ospec "gf0_pu")]); ("bf0_pu", [(VAny (CGiven "gf0_pu"), ospec "bf0_pu")]);
           ("gt0_pu", zdfl "gf0_pu" "gt0_pu" "gf0_pu"); ("bt0_pu", zdfl "gf0_pu" "bt0_pu" "bf0_pu")];
  x_rs := [];
  x_rb := imp_rb |}.
(* before the repair the zero-sequence block called _set_value_if_not_nan with the index *array* -> DataFrame.at raised
   InvalidIndexError *)
Definition x_imp_b_old : xdesc := {|
  x_d := mkd "impedance" imp_nodes [] imp_plain;
  x_cs := [];
  x_cb := imp_cb_main;
  x_rs := [];
  x_rb := imp_rb ++ [VAny (CGiven "rft0_pu"); VAny (CGiven "gf0_pu")] |}.

(* line_create.py:634-688 (create_line_from_parameters) / :900-945 (create_lines_from_parameters) *)
Definition linepar_common :=
  [arg "from_bus" VNaN; arg "to_bus" VNaN; arg "length_km" VNaN; arg "in_service" T; arg "df" (N 1); arg "parallel" (N 1);
   arg "r_ohm_per_km" VNaN; arg "x_ohm_per_km" VNaN; arg "c_nf_per_km" VNaN; arg "max_i_ka" VNaN; arg "type" VNaN;
   arg "g_us_per_km" (N 0); opt "max_loading_percent"; opt "alpha"; opt "temperature_degree_celsius"].
Definition zgroup := CAllGiven ["r0_ohm_per_km"; "x0_ohm_per_km"; "c0_nf_per_km"].        (* not np_any(nan_0_values) *)
Definition x_linepar_s : xdesc := {|
  x_d := mkd "line" line_nodes [] (linepar_common ++ [opt "endtemp_degree"]);
  x_cs := [("r0_ohm_per_km", [(zgroup, ospec "r0_ohm_per_km")]); ("x0_ohm_per_km", [(zgroup, ospec "x0_ohm_per_km")]);
           ("c0_nf_per_km", [(zgroup, ospec "c0_nf_per_km")]);
           ("g0_us_per_km", [(zgroup, Opt "g0_us_per_km" (N 0) (N 0) false)])];
  x_cb := []; x_rs := []; x_rb := [] |}.
Definition x_linepar_b : xdesc := plain (mkd "line" line_nodes []
  (linepar_common ++ [arg "endtemp_degree" VNaN (* no such parameter: **kwargs *);
                      opt "r0_ohm_per_km"; opt "x0_ohm_per_km"; opt "c0_nf_per_km"; opt "g0_us_per_km"])).

(* trafo_create.py:395-501 (create_transformer_from_parameters) / :623-709 (create_transformers_from_parameters) *)
Definition trafopar_common :=
  [arg "hv_bus" VNaN; arg "lv_bus" VNaN; arg "in_service" T; arg "sn_mva" VNaN; arg "vn_hv_kv" VNaN; arg "vn_lv_kv" VNaN;
   arg "vk_percent" VNaN; arg "vkr_percent" VNaN; arg "pfe_kw" VNaN; arg "i0_percent" VNaN; arg "tap_neutral" VNaN;
   arg "tap_max" VNaN; arg "tap_min" VNaN; arg "shift_degree" (N 0); arg "tap_side" VNaN; arg "tap_step_percent" VNaN;
   arg "tap_step_degree" VNaN; arg "parallel" (N 1); arg "df" (N 1);
   ("tap_pos", dfl "tap_pos" "tap_neutral" VNaN);                      (* if tap_pos is nan / .fillna(tp_neutral) *)
   opt "id_characteristic_table"; opt "vk0_percent"; opt "vkr0_percent"; opt "mag0_percent"; opt "mag0_rx";
   opt "si0_hv_partial"; opt "vector_group"; opt "max_loading_percent"; opt "pt_percent"; ("oltc", Opt "oltc" F F false);
   opt "xn_ohm"; opt "tap2_side"; opt "tap2_neutral"; opt "tap2_min"; opt "tap2_max"; opt "tap2_step_percent";
   opt "tap2_step_degree"; opt "tap2_changer_type"].
Definition x_trafopar_s : xdesc := plain (mkd "trafo" trafo_nodes ["df"]
  (trafopar_common ++ [("tap_changer_type", Opt "tap_changer_type" VNaN VNaN false);
                       ("tap_dependency_table", Opt "tap_dependency_table" F F false);
                       (* tap2_pos if pd.notnull(tap2_pos) else tap2_neutral *)
                       ("tap2_pos", dfl "tap2_pos" "tap2_neutral" VNaN)])).
(* after "fix: create_transformers_from_parameters defaults tap2_pos to tap2_neutral" (.fillna like tap_pos) and
   "fix: batch create functions accept string-valued optional arguments passed as a list" *)
Definition x_trafopar_b : xdesc := plain (mkd "trafo" trafo_nodes ["df"]
  (trafopar_common ++ [arg "tap_changer_type" VNaN; arg "tap_dependency_table" F;
                       ("tap2_pos", dfl "tap2_pos" "tap2_neutral" VNaN)])).
(* before the repairs: tap2_pos without fallback; string-valued optional arguments passed as a list: _not_nan called
   isnan on it -> TypeError *)
Definition x_trafopar_b_old : xdesc := {|
  x_d := mkd "trafo" trafo_nodes ["df"]
    (trafopar_common ++ [arg "tap_changer_type" VNaN; arg "tap_dependency_table" F; opt "tap2_pos"]);
  x_cs := []; x_cb := []; x_rs := [];
  x_rb := [VHet "vector_group"; VHet "tap2_side"; VHet "tap2_changer_type"] |}.

(* trafo_create.py:1043-1123 (create_transformer3w_from_parameters) / :1237-1318 (create_transformers3w_from_parameters) *)
Definition t3par_cols :=
  [arg "hv_bus" VNaN; arg "mv_bus" VNaN; arg "lv_bus" VNaN] ++
  map (fun n => arg n VNaN) t3_req ++
  [arg "shift_mv_degree" (N 0); arg "shift_lv_degree" (N 0); arg "tap_side" VNaN; arg "tap_step_percent" VNaN;
   arg "tap_step_degree" VNaN; ("tap_pos", dfl "tap_pos" "tap_neutral" VNaN); arg "tap_neutral" VNaN; arg "tap_max" VNaN;
   arg "tap_min" VNaN; arg "in_service" T; arg "tap_at_star_point" F; arg "vk0_hv_percent" VNaN; arg "vk0_mv_percent" VNaN;
   arg "vk0_lv_percent" VNaN; arg "vkr0_hv_percent" VNaN; arg "vkr0_mv_percent" VNaN; arg "vkr0_lv_percent" VNaN;
   arg "vector_group" VNaN; opt "max_loading_percent"; opt "id_characteristic_table";
   ("tap_changer_type", Opt "tap_changer_type" VNaN VNaN false)].
Definition x_t3par_s : xdesc := plain (mkd "trafo3w" t3_nodes []
  (t3par_cols ++ [("tap_dependency_table", Opt "tap_dependency_table" F F false)])).
Definition x_t3par_b : xdesc := plain (mkd "trafo3w" t3_nodes [] (t3par_cols ++ [arg "tap_dependency_table" F])).
Definition x_t3par_b_old : xdesc := {|                      (* TypeError for a list of tap changer types, see above *)
  x_d := mkd "trafo3w" t3_nodes [] (t3par_cols ++ [arg "tap_dependency_table" F]);
  x_cs := []; x_cb := []; x_rs := []; x_rb := [VHet "tap_changer_type"] |}.

(* bus_create.py:163-169 (create_bus_dc) / :296-299 (create_buses_dc): as create_bus / create_buses *)
Definition busdc_common := [arg "vn_kv" VNaN; arg "type" (VS "b"); arg "zone" VNaN; arg "in_service" T].
Definition x_busdc_s : xdesc := plain (mkd "bus_dc" [] []
  (busdc_common ++ [("min_vm_pu", Opt "min_vm_pu" VNaN (N 0) false); ("max_vm_pu", Opt "max_vm_pu" VNaN (N 2) false)])).
Definition x_busdc_b : xdesc := plain (mkd "bus_dc" [] [] (busdc_common ++ [opt "min_vm_pu"; opt "max_vm_pu"])).

(* switch_create.py:120-131 / :238-250: the columns (the element checks are modelled below) *)
Definition switch_cols := [arg "bus" VNaN; arg "element" VNaN; arg "et" VNaN; arg "closed" T; arg "type" VNaN;
                           arg "z_ohm" (N 0); arg "in_ka" VNaN].
Definition x_switch_s : xdesc := plain (mkd "switch" [("bus", "bus")] [] switch_cols).
Definition x_switch_b : xdesc := plain (mkd "switch" [("bus", "bus")] [] switch_cols).

Definition xkind_desc (k : string) : option (xdesc * xdesc) :=
  if String.eqb k "sgen" then Some (x_sgen_s, x_sgen_b) else
  if String.eqb k "shunt" then Some (x_shunt_s, x_shunt_b) else
  if String.eqb k "impedance" then Some (x_imp_s, x_imp_b) else
  if String.eqb k "line_par" then Some (x_linepar_s, x_linepar_b) else
  if String.eqb k "trafo_par" then Some (x_trafopar_s, x_trafopar_b) else
  if String.eqb k "trafo3w_par" then Some (x_t3par_s, x_t3par_b) else
  if String.eqb k "bus_dc" then Some (x_busdc_s, x_busdc_b) else
  if String.eqb k "switch" then Some (x_switch_s, x_switch_b) else None.

(* ---------------------------------------------------------------- create_switch / create_switches: element checks *)
Record brow := { b_id : Z; b_nodes : list Z }.          (* a line [from, to], trafo [hv, lv], trafo3w [hv, mv, lv] *)
Record swenv := { sw_bus : list Z; sw_line : list brow; sw_trafo : list brow; sw_t3 : list brow }.
Record swarg := { s_bus : Z; s_el : Z; s_et : string }.
Fixpoint find_row (rows : list brow) (e : Z) : option brow :=
  match rows with [] => None | r :: t => if Z.eqb (b_id r) e then Some r else find_row t e end.
Definition sw_table (env : swenv) (et : string) : option (list brow) :=
  if String.eqb et "l" then Some (sw_line env) else if String.eqb et "t" then Some (sw_trafo env) else
  if String.eqb et "t3" then Some (sw_t3 env) else None.
(* create_switch (switch_create.py:83-112): bus exists; match et: element exists, is connected to the bus *)
Definition sw_single_ok (env : swenv) (s : swarg) : bool :=
  memz (s_bus s) (sw_bus env) &&
  (if String.eqb (s_et s) "b" then memz (s_el s) (sw_bus env) else
   match sw_table env (s_et s) with
   | None => false                                                   (* "Unknown element type" *)
   | Some rows => match find_row rows (s_el s) with
                  | None => false                                    (* unknown line / trafo / trafo3w index *)
                  | Some r => memz (s_bus s) (b_nodes r) end         (* not connected *)
   end).
(* create_switches (:194-235): vector-wise: all buses exist; every et is implemented; per type the elements exist;
   per branch type each bus is one of the buses of its own element *)
Definition sw_known (s : swarg) : bool :=
  String.eqb (s_et s) "b" || String.eqb (s_et s) "l" || String.eqb (s_et s) "t" || String.eqb (s_et s) "t3".
Definition sw_el_exists (env : swenv) (s : swarg) : bool :=
  if String.eqb (s_et s) "b" then memz (s_el s) (sw_bus env) else
  match sw_table env (s_et s) with
  | None => true
  | Some rows => match find_row rows (s_el s) with Some _ => true | None => false end end.
Definition sw_connected (env : swenv) (s : swarg) : bool :=
  if String.eqb (s_et s) "b" then true else
  match sw_table env (s_et s) with
  | None => true
  | Some rows => match find_row rows (s_el s) with Some r => memz (s_bus s) (b_nodes r) | None => true end end.
Definition sw_batch_ok (env : swenv) (l : list swarg) : bool :=
  forallb (fun s => memz (s_bus s) (sw_bus env)) l && forallb sw_known l && forallb (sw_el_exists env) l &&
  forallb (sw_connected env) l.

(* index allocation for a sequence of calls whose acceptance test does not look at the table they extend
   (generic version of fold_ok / batch_ok) *)
Fixpoint gfold_ok {A} (ok : A -> bool) (idx : list Z) (idxs : option (list Z)) (l : list A) : option (list Z) :=
  match l with
  | [] => Some []
  | a :: l' =>
      let (i0, rest) := match idxs with
                        | None => (None, None)
                        | Some [] => (None, Some [])
                        | Some (i :: r) => (Some i, Some r) end in
      if ok a then
        match (match i0 with None => Some (free_id idx) | Some i => if memz i idx then None else Some i end) with
        | None => None
        | Some i => match gfold_ok ok (idx ++ [i]) rest l' with None => None | Some r => Some (i :: r) end
        end
      else None
  end.
Definition gbatch_ok {A} (okall : list A -> bool) (idx : list Z) (idxs : option (list Z)) (l : list A) : option (list Z) :=
  if okall l then
    match idxs with
    | None => Some (arange (free_id idx) (List.length l))
    | Some li => if nodupz li && negb (existsb (fun i => memz i idx) li) then Some li else None
    end
  else None.
Definition sw_fold (env : swenv) := gfold_ok (sw_single_ok env).
Definition sw_batch (env : swenv) := gbatch_ok (sw_batch_ok env).

(* ---------------------------------------------------------------- duplicate-cost checks, et / power_type per element *)
Record citem := { i_el : Z; i_et : string; i_pt : string }.
Definition mkitem (e : Z) (et pt : string) : citem := {| i_el := e; i_et := et; i_pt := pt |}.
(* sequence of create_poly_cost / create_pwl_cost calls (cost_create.py:76, :226 -> _cost_existance_check) *)
Fixpoint cost_fold_rejects_l (is_poly : bool) (poly pwl : list cost) (items : list citem) : bool :=
  match items with
  | [] => false
  | it :: r =>
      if cost_exists poly pwl (i_el it) (i_et it) (if is_poly then None else Some (i_pt it)) then true
      else let c := mkcost (i_el it) (i_et it) (i_pt it) in
           if is_poly then cost_fold_rejects_l is_poly (poly ++ [c]) pwl r
           else cost_fold_rejects_l is_poly poly (pwl ++ [c]) r
  end.
(* _costs_existance_check (_utils.py:119-138): existing + repeated >= 1; the keys are (element, et) for poly costs
   and (element, et, power_type) for pwl costs *)
Definition item_eqb (is_poly : bool) (x y : citem) : bool :=
  Z.eqb (i_el x) (i_el y) && String.eqb (i_et x) (i_et y) && (is_poly || String.eqb (i_pt x) (i_pt y)).
Fixpoint nodup_items (is_poly : bool) (l : list citem) : bool :=
  match l with [] => true | h :: t => negb (existsb (item_eqb is_poly h) t) && nodup_items is_poly t end.
Definition costs_batch_rejects_l (is_poly : bool) (poly pwl : list cost) (items : list citem) : bool :=
  existsb (fun it => cost_exists poly pwl (i_el it) (i_et it) (if is_poly then None else Some (i_pt it))) items
  || negb (nodup_items is_poly items).

(* ---------------------------------------------------------------- output for the correspondence run *)
Definition run_xpair (xs xb : xdesc) (t : tabs) (std : amap) (idxs : option (list Z)) (l : list amap)
           (cols : list (string * ocol)) : out :=
  OL [ oidx (xfold_ok xs t std idxs l);
       oidx (xbatch_ok xb t std idxs l);
       olist (fun p => oocol (snd p) (xfold_col xs (fst p) std l (snd p))) cols;
       olist (fun p => oocol (snd p) (xbatch_col xb (fst p) std l (snd p))) cols;
       olist OS (xincompat_cols std xs xb l);
       OB (xchecks_compat xs xb l) ].
Definition run_xkind (k : string) (t : tabs) (std : amap) (idxs : option (list Z)) (l : list amap)
           (cols : list (string * ocol)) : out :=
  match xkind_desc k with Some (xs, xb) => run_xpair xs xb t std idxs l cols | None => OErr "kind" end.

Definition mkrow (i : Z) (n : list Z) : brow := {| b_id := i; b_nodes := n |}.
Definition mksw (b e : Z) (et : string) : swarg := {| s_bus := b; s_el := e; s_et := et |}.
Definition run_switch (bus : list Z) (lines trafos t3 : list brow) (idx : list Z) (idxs : option (list Z))
           (l : list swarg) : out :=
  let env := {| sw_bus := bus; sw_line := lines; sw_trafo := trafos; sw_t3 := t3 |} in
  OL [ oidx (sw_fold env idx idxs l); oidx (sw_batch env idx idxs l) ].
Definition run_cost_l (is_poly : bool) (poly pwl : list cost) (items : list citem) : out :=
  OL [ OB (cost_fold_rejects_l is_poly poly pwl items); OB (costs_batch_rejects_l is_poly poly pwl items) ].
