From Coq Require Import ZArith QArith List Bool String Lia.
From PPV Require Import Base.QN C24.Model.
Import ListNotations.
Open Scope string_scope.
Open Scope list_scope.

(* ------------------------------------------------------------ decidable equalities are Leibniz *)
Lemma cell_eqb_eq a b : cell_eqb a b = true -> a = b.
Proof.
  destruct a as [[n d]| |x|x], b as [[n' d']| |y|y]; simpl; try discriminate; intros H.
  - apply andb_true_iff in H. destruct H as [H1 H2]. apply Z.eqb_eq in H1. apply Pos.eqb_eq in H2. subst. reflexivity.
  - reflexivity.
  - apply Bool.eqb_prop in H. subst. reflexivity.
  - apply String.eqb_eq in H. subst. reflexivity.
Qed.

Lemma src_eqb_eq s : forall t, src_eqb s t = true -> s = t.
Proof.
  induction s; intros t H; destruct t; simpl in H; try discriminate;
    repeat match goal with
           | H : _ && _ = true |- _ => apply andb_true_iff in H; destruct H
           | H : String.eqb _ _ = true |- _ => apply String.eqb_eq in H; subst
           | H : cell_eqb _ _ = true |- _ => apply cell_eqb_eq in H; subst
           end; try reflexivity.
  f_equal. apply IHs. assumption.
Qed.

Lemma isnanc_eq v : isnanc v = true -> v = VNaN.
Proof. destruct v; simpl; congruence. Qed.

(* ------------------------------------------------------------ sources *)
Lemma pure_ex s : pure s = true -> forall ex ex' std a, ev ex std a s = ev ex' std a s.
Proof.
  induction s as [n d|p|p|p d|c| |n fb IH|p]; simpl; intros Hp ex ex' std a; try reflexivity; try discriminate.
  destruct (isnanc (getarg a n VNaN)); [apply IH; exact Hp | reflexivity].
Qed.

Lemma norm_pure std s : pure s = true -> pure (norm std s) = true.
Proof.
  induction s as [n d|p|p|p d|c| |n fb IH|p]; simpl; intros Hp; try reflexivity; try discriminate.
  - destruct (lookup std p); reflexivity.
  - destruct (lookup std p); reflexivity.
  - destruct c; reflexivity.
  - specialize (IH Hp). destruct (norm std fb); simpl in *; try reflexivity; try exact IH.
    destruct c; reflexivity.
Qed.

Lemma norm_sound std s : forall ex a, valof (ev ex std a (norm std s)) = valof (ev ex std a s).
Proof.
  induction s as [n d|p|p|p d|c| |n fb IH|p]; intros ex a; simpl; try reflexivity.
  - destruct (lookup std p); reflexivity.
  - destruct (lookup std p); reflexivity.
  - destruct c; reflexivity.
  - specialize (IH ex a).
    destruct (isnanc (getarg a n VNaN)) eqn:E.
    + rewrite <- IH. destruct (norm std fb) as [n' d'|p'|p'|p' d'|c'| |n' fb'|p']; simpl; rewrite ?E; try reflexivity.
      * destruct c'; simpl; rewrite ?E; try reflexivity.
        apply isnanc_eq in E. rewrite E. reflexivity.
      * apply isnanc_eq in E. rewrite E. reflexivity.
    + destruct (norm std fb) as [n' d'|p'|p'|p' d'|c'| |n' fb'|p']; simpl; rewrite ?E; try reflexivity.
      destruct c'; simpl; rewrite ?E; reflexivity.
Qed.

(* two pure sources with the same normal form give the same value for every argument vector *)
Lemma man_equiv std s t : pure s = true -> pure t = true -> src_eqb (norm std s) (norm std t) = true ->
  forall ex ex' a, valof (ev ex std a s) = valof (ev ex' std a t).
Proof.
  intros Hs Ht He ex ex' a. apply src_eqb_eq in He.
  rewrite <- (norm_sound std s), <- (norm_sound std t), He.
  rewrite (pure_ex _ (norm_pure std t Ht) ex ex'). reflexivity.
Qed.

(* ------------------------------------------------------------ what the new rows of a column contain *)
Definition nonnan (v : cell) : bool := negb (isnanc v).
Definition fillf (d v : cell) : cell := if isnanc v then d else v.
Definition newspec (sp : colspec) (ex : bool) (std : amap) (l : list amap) : list cell :=
  match sp with
  | Man s => map (fun a => valof (ev ex std a s)) l
  | Opt n p d _ => let vs := map (fun a => getarg a n p) l in
                   if ex || existsb nonnan vs then map (fillf d) vs else map (fun _ => VNaN) vs
  end.

Lemma skipn_app_exact {A} (x y : list A) n : List.length x = n -> skipn n (x ++ y) = y.
Proof. intros <-. induction x; simpl; auto. Qed.

Lemma fold_man s std l : pure s = true -> forall oc,
  exists e, fold_col (Man s) std l oc = {| oc_ex := e; oc_vals := oc_vals oc ++ map (fun a => valof (ev (oc_ex oc) std a s)) l |}.
Proof.
  intros Hp. induction l as [|a l IH]; intros oc.
  - exists (oc_ex oc). simpl. rewrite app_nil_r. destruct oc; reflexivity.
  - destruct (IH (single_col (Man s) std a oc)) as [e He]. exists e.
    change (fold_col (Man s) std (a :: l) oc) with (fold_col (Man s) std l (single_col (Man s) std a oc)).
    rewrite He. cbn [single_col oc_vals oc_ex map].
    rewrite <- app_assoc. cbn [app]. f_equal. f_equal. f_equal.
    apply map_ext. intros b. rewrite (pure_ex s Hp _ (oc_ex oc)). reflexivity.
Qed.

Lemma fold_opt_true n p d f std l : forall vals,
  fold_col (Opt n p d f) std l {| oc_ex := true; oc_vals := vals |} =
  {| oc_ex := true; oc_vals := vals ++ map (fillf d) (map (fun a => getarg a n p) l) |}.
Proof.
  induction l as [|a l IH]; intros vals; simpl.
  - rewrite app_nil_r. reflexivity.
  - unfold fillf at 1. destruct (isnanc (getarg a n p)); simpl; rewrite IH, <- app_assoc; reflexivity.
Qed.

Lemma fold_opt_false n p d f std l : forall vals,
  fold_col (Opt n p d f) std l {| oc_ex := false; oc_vals := vals |} =
  let vs := map (fun a => getarg a n p) l in
  if existsb nonnan vs then {| oc_ex := true; oc_vals := map (fun _ => d) vals ++ map (fillf d) vs |}
  else {| oc_ex := false; oc_vals := vals ++ map (fun _ => VNaN) vs |}.
Proof.
  induction l as [|a l IH]; intros vals; simpl.
  - rewrite app_nil_r. reflexivity.
  - unfold nonnan at 1, fillf at 1. destruct (isnanc (getarg a n p)) eqn:E; simpl.
    + rewrite IH. simpl. destruct (existsb nonnan (map (fun a0 => getarg a0 n p) l)).
      * rewrite map_app, <- app_assoc. reflexivity.
      * rewrite <- app_assoc. reflexivity.
    + rewrite fold_opt_true, <- app_assoc. reflexivity.
Qed.

Lemma fold_new sp std l oc :
  match sp with Man s => pure s = true | _ => True end ->
  new_vals oc (fold_col sp std l oc) = newspec sp (oc_ex oc) std l.
Proof.
  intros Hp. destruct sp as [s|n p d f]; unfold new_vals.
  - destruct (fold_man s std l Hp oc) as [e He]. rewrite He. simpl. apply skipn_app_exact. reflexivity.
  - destruct oc as [[|] vals]; simpl oc_vals; simpl oc_ex.
    + rewrite fold_opt_true. simpl. apply skipn_app_exact. reflexivity.
    + rewrite fold_opt_false. simpl.
      destruct (existsb nonnan (map (fun a => getarg a n p) l)); simpl; apply skipn_app_exact;
        [apply map_length | reflexivity].
Qed.

Lemma allnan_fill d vs : existsb nonnan vs = false -> map (fillf d) vs = map (fun _ => d) vs.
Proof.
  induction vs as [|v vs IH]; simpl; [reflexivity|]. intros H. apply orb_false_iff in H. destruct H as [H1 H2].
  rewrite (IH H2). f_equal. unfold nonnan in H1. apply negb_false_iff in H1. unfold fillf. rewrite H1. reflexivity.
Qed.

Lemma batch_new sp std l oc : new_vals oc (batch_col sp std l oc) = newspec sp (oc_ex oc) std l.
Proof.
  destruct sp as [s|n p d f]; unfold new_vals; simpl.
  - apply skipn_app_exact. reflexivity.
  - fold nonnan. destruct (existsb nonnan (map (fun a => getarg a n p) l)) eqn:E.
    + rewrite orb_true_r. simpl. apply skipn_app_exact.
      destruct (oc_ex oc); [reflexivity|]. destruct f; [apply map_length | reflexivity].
    + rewrite orb_false_r. destruct (oc_ex oc); simpl; [rewrite (allnan_fill d _ E)|]; apply skipn_app_exact; reflexivity.
Qed.

Lemma fillf_nan_id vs : map (fillf VNaN) vs = vs.
Proof.
  induction vs as [|v vs IH]; simpl; [reflexivity|]. rewrite IH. f_equal.
  unfold fillf. destruct (isnanc v) eqn:E; [symmetry; apply isnanc_eq; exact E | reflexivity].
Qed.
Lemma allnan_id vs : existsb nonnan vs = false -> map (fun _ => VNaN) vs = vs.
Proof.
  induction vs as [|v vs IH]; simpl; [reflexivity|]. intros H. apply orb_false_iff in H. destruct H as [H1 H2].
  rewrite (IH H2). f_equal. unfold nonnan in H1. apply negb_false_iff in H1. symmetry. apply isnanc_eq. exact H1.
Qed.
Lemma opt_nan_spec n p f ex std l : newspec (Opt n p VNaN f) ex std l = map (fun a => getarg a n p) l.
Proof.
  simpl. destruct (ex || existsb nonnan (map (fun a => getarg a n p) l)) eqn:E.
  - apply fillf_nan_id.
  - apply orb_false_iff in E. destruct E as [_ E]. apply allnan_id. exact E.
Qed.
Lemma man_arg_spec std t a p ex l : pure t = true -> src_eqb (SArg a p) (norm std t) = true ->
  newspec (Man t) ex std l = map (fun x => getarg x a p) l.
Proof.
  intros Hp He. simpl. apply map_ext. intros x. apply src_eqb_eq in He.
  rewrite <- (norm_sound std t), <- He. reflexivity.
Qed.

(* compatible column descriptions denote the same new rows *)
Lemma compat_newspec std ds db c : col_compat std ds db c = true ->
  forall ex l, newspec (spec_of ds c) ex std l = newspec (spec_of db c) ex std l.
Proof.
  unfold col_compat. destruct (spec_of ds c) as [s|a p d f], (spec_of db c) as [t|b q e g]; intros H ex l.
  - apply andb_true_iff in H. destruct H as [H H3]. apply andb_true_iff in H. destruct H as [H1 H2].
    simpl. apply map_ext. intros x. apply man_equiv; assumption.
  - destruct e; try discriminate. apply andb_true_iff in H. destruct H as [H1 H2].
    rewrite opt_nan_spec. apply src_eqb_eq in H2.
    simpl. apply map_ext. intros x. rewrite <- (norm_sound std s), H2. reflexivity.
  - destruct d; try discriminate. apply andb_true_iff in H. destruct H as [H1 H2].
    rewrite opt_nan_spec. symmetry. apply man_arg_spec; assumption.
  - assert (H' : String.eqb a b && cell_eqb p q && cell_eqb d e = true) by (destruct d; exact H).
    clear H. apply andb_true_iff in H'. destruct H' as [H H3]. apply andb_true_iff in H. destruct H as [H1 H2].
    apply String.eqb_eq in H1. apply cell_eqb_eq in H2. apply cell_eqb_eq in H3. subst. reflexivity.
Qed.

Lemma compat_pure_s std ds db c : col_compat std ds db c = true ->
  match spec_of ds c with Man s => pure s = true | _ => True end.
Proof.
  unfold col_compat. destruct (spec_of ds c) as [s|a p d f], (spec_of db c) as [t|b q e g]; intros H; try exact I.
  - apply andb_true_iff in H. destruct H as [H _]. apply andb_true_iff in H. destruct H as [H _]. exact H.
  - destruct e; try discriminate. apply andb_true_iff in H. destruct H as [H _]. exact H.
Qed.

(* MAIN 1: on a compatible column the batch call creates the rows the sequence of single calls creates *)
Theorem batch_eq_fold_col std ds db c : col_compat std ds db c = true ->
  forall l oc, new_vals oc (batch_col (spec_of db c) std l oc) = new_vals oc (fold_col (spec_of ds c) std l oc).
Proof.
  intros H l oc. rewrite batch_new, fold_new; [|apply (compat_pure_s std ds db c H)].
  symmetry. apply compat_newspec. exact H.
Qed.

Lemma G24_col std ds db : G24 std ds db = true -> forall c, existsb (String.eqb c) flags = false -> col_compat std ds db c = true.
Proof.
  unfold G24. intros H c. rewrite forallb_forall in H.
  intros Hfl.
  destruct (in_dec string_dec c (all_cols ds db)) as [Hin|Hn]; [apply H; exact Hin|].
  (* a column mentioned by neither descriptor: both sides Man SAbsent *)
  assert (Hn' : ~ In c (map fst (d_cols ds) ++ map fst (d_cols db))).
  { intros X. apply Hn. unfold all_cols. apply filter_In. split; [exact X|]. rewrite Hfl. reflexivity. }
  clear Hn. rename Hn' into Hn. unfold col_compat, spec_of.
  assert (A : forall l, ~ In c (map fst l) -> find_spec l c = Man SAbsent).
  { induction l as [|[k sp] l IH]; simpl; intros Hc; [reflexivity|].
    destruct (String.eqb k c) eqn:E; [apply String.eqb_eq in E; subst; exfalso; apply Hc; left; reflexivity|].
    apply IH. intros X. apply Hc. right. exact X. }
  rewrite !A; [reflexivity| |]; intros X; apply Hn; apply in_or_app; [right|left]; exact X.
Qed.

Theorem batch_eq_fold_rows std ds db : G24 std ds db = true ->
  forall c, existsb (String.eqb c) flags = false ->
  forall l oc, new_vals oc (batch_col (spec_of db c) std l oc) = new_vals oc (fold_col (spec_of ds c) std l oc).
Proof. intros H c Hc. apply batch_eq_fold_col. apply G24_col; assumption. Qed.

(* ------------------------------------------------------------ rejections *)
Lemma tindex_tappend_same t k i : tindex (tappend t k i) k = tindex t k ++ [i].
Proof.
  induction t as [|[k' l] t IH]; simpl.
  - rewrite String.eqb_refl. reflexivity.
  - destruct (String.eqb k' k) eqn:E; simpl; rewrite E; [reflexivity | exact IH].
Qed.
Lemma tindex_tappend_other t k k' i : String.eqb k' k = false -> tindex (tappend t k i) k' = tindex t k'.
Proof.
  intros Hk. induction t as [|[k0 l] t IH]; simpl.
  - rewrite String.eqb_sym, Hk. reflexivity.
  - destruct (String.eqb k0 k) eqn:E; simpl.
    + apply String.eqb_eq in E. subst. rewrite String.eqb_sym, Hk. reflexivity.
    + destruct (String.eqb k0 k'); [reflexivity | exact IH].
Qed.

Lemma elem_ok_tappend d t std a i :
  forallb (fun n => negb (String.eqb (snd n) (d_table d))) (d_nodes d) = true ->
  elem_ok d (tappend t (d_table d) i) std a = elem_ok d t std a.
Proof.
  intros H. unfold elem_ok. f_equal. f_equal.
  induction (d_nodes d) as [|n ns IH]; simpl in *; [reflexivity|].
  apply andb_true_iff in H. destruct H as [H1 H2]. rewrite (IH H2). f_equal.
  unfold node_ok. rewrite tindex_tappend_other; [reflexivity|].
  apply negb_true_iff in H1. exact H1.
Qed.

Lemma memz_app i l m : memz i (l ++ m) = memz i l || memz i m.
Proof. unfold memz. apply existsb_app. Qed.

Lemma fold_max_snoc t : forall h x, fold_left Z.max (t ++ [x]) h = Z.max (fold_left Z.max t h) x.
Proof. induction t; simpl; intros; [reflexivity | apply IHt]. Qed.
Lemma free_id_snoc l : free_id (l ++ [free_id l]) = (free_id l + 1)%Z.
Proof.
  destruct l as [|h t]; simpl; [reflexivity|].
  rewrite fold_max_snoc. lia.
Qed.

Lemma forallb_ext' {A} (f g : A -> bool) l : (forall x, f x = g x) -> forallb f l = forallb g l.
Proof. intros H. induction l; simpl; [reflexivity|]. rewrite H, IHl. reflexivity. Qed.
Lemma existsb_ext' {A} (f g : A -> bool) l : (forall x, f x = g x) -> existsb f l = existsb g l.
Proof. intros H. induction l; simpl; [reflexivity|]. rewrite H, IHl. reflexivity. Qed.

Section Rej.
  Variable d : desc.
  Variable std : amap.
  Hypothesis Hidx : d_idxtab d = d_table d.
  Hypothesis Hnodes : forallb (fun n => negb (String.eqb (snd n) (d_table d))) (d_nodes d) = true.

  Lemma fold_ok_none l : forall t,
    fold_ok d t std None l =
    if forallb (elem_ok d t std) l then Some (arange (free_id (tindex t (d_table d))) (List.length l)) else None.
  Proof.
    induction l as [|a l IH]; intros t; simpl; [reflexivity|].
    unfold single_ok. rewrite Hidx.
    destruct (elem_ok d t std a) eqn:E; simpl; [|reflexivity].
    rewrite IH. rewrite tindex_tappend_same, free_id_snoc.
    assert (X : forallb (elem_ok d (tappend t (d_table d) (free_id (tindex t (d_table d)))) std) l =
                forallb (elem_ok d t std) l).
    { apply forallb_ext'. intros x. apply elem_ok_tappend. exact Hnodes. }
    rewrite X. destruct (forallb (elem_ok d t std) l); reflexivity.
  Qed.

  Lemma fold_ok_some l : forall t li, List.length li = List.length l ->
    fold_ok d t std (Some li) l =
    if forallb (elem_ok d t std) l && (nodupz li && negb (existsb (fun i => memz i (tindex t (d_table d))) li))
    then Some li else None.
  Proof.
    induction l as [|a l IH]; intros t li Hlen; destruct li as [|i r]; simpl in Hlen; try discriminate.
    - reflexivity.
    - simpl. unfold single_ok. rewrite Hidx.
      destruct (elem_ok d t std a) eqn:E; simpl; [|reflexivity].
      destruct (memz i (tindex t (d_table d))) eqn:M; simpl.
      + rewrite !andb_false_r. reflexivity.
      + rewrite IH by lia. rewrite tindex_tappend_same.
        assert (X : forallb (elem_ok d (tappend t (d_table d) i) std) l = forallb (elem_ok d t std) l).
        { apply forallb_ext'. intros x. apply elem_ok_tappend. exact Hnodes. }
        rewrite X.
        assert (Y : existsb (fun j => memz j (tindex t (d_table d) ++ [i])) r =
                    existsb (fun j => memz j (tindex t (d_table d))) r || memz i r).
        { clear. induction r as [|j r IHr]; simpl; [reflexivity|].
          rewrite IHr, memz_app. simpl. rewrite orb_false_r. rewrite (Z.eqb_sym j i).
          destruct (memz j (tindex t (d_table d))), (existsb (fun j0 => memz j0 (tindex t (d_table d))) r),
            (i =? j)%Z, (memz i r); reflexivity. }
        rewrite Y.
        destruct (forallb (elem_ok d t std) l), (nodupz r), (memz i r),
          (existsb (fun j => memz j (tindex t (d_table d))) r); reflexivity.
  Qed.
End Rej.

Lemma slist_eqb_eq l : forall m, slist_eqb l m = true -> l = m.
Proof.
  induction l as [|a l IH]; intros [|b m] H; simpl in H; try discriminate; [reflexivity|].
  apply andb_true_iff in H. destruct H as [H1 H2]. apply String.eqb_eq in H1. subst. f_equal. apply IH. exact H2.
Qed.
Lemma nodes_eqb_eq l : forall m, nodes_eqb l m = true -> l = m.
Proof.
  induction l as [|[a1 a2] l IH]; intros [|[b1 b2] m] H; simpl in H; try discriminate; [reflexivity|].
  apply andb_true_iff in H. destruct H as [H H3]. apply andb_true_iff in H. destruct H as [H1 H2].
  apply String.eqb_eq in H1. apply String.eqb_eq in H2. subst. f_equal. apply IH. exact H3.
Qed.

(* MAIN 2: the batch call rejects exactly the inputs some call of the sequence of single calls rejects,
   and otherwise returns the same indices *)
Theorem batch_rejects_iff_fold ds db : checks_compat ds db = true ->
  forall t std idxs l, (match idxs with Some li => List.length li = List.length l | None => True end) ->
  batch_ok db t std idxs l = fold_ok ds t std idxs l.
Proof.
  unfold checks_compat. intros H t std idxs l Hlen.
  apply andb_true_iff in H; destruct H as [H H5]. apply andb_true_iff in H; destruct H as [H H4].
  apply andb_true_iff in H; destruct H as [H H3]. apply andb_true_iff in H; destruct H as [H H2].
  apply andb_true_iff in H; destruct H as [H H1]. apply andb_true_iff in H; destruct H as [H H0].
  apply String.eqb_eq in H. apply String.eqb_eq in H0. apply String.eqb_eq in H1.
  apply nodes_eqb_eq in H2. apply slist_eqb_eq in H3. apply slist_eqb_eq in H4.
  assert (E : forall a, elem_ok db t std a = elem_ok ds t std a).
  { intros a. unfold elem_ok, std_ok. rewrite H2, H3, H4. reflexivity. }
  unfold batch_ok.
  assert (E' : forallb (elem_ok db t std) l = forallb (elem_ok ds t std) l) by (apply forallb_ext'; exact E).
  rewrite E', H1, <- H.
  destruct idxs as [li|].
  - rewrite (fold_ok_some ds std H0 H5 l t li Hlen).
    destruct (forallb (elem_ok ds t std) l); reflexivity.
  - rewrite (fold_ok_none ds std H0 H5 l t). reflexivity.
Qed.

(* ------------------------------------------------------------ per kind *)
Lemma compat_load : forall std, G24 std d_load_s d_load_b = true /\ checks_compat d_load_s d_load_b = true.
Proof. intros std. split; reflexivity. Qed.
Lemma compat_storage : forall std, G24 std d_storage_s d_storage_b = true /\ checks_compat d_storage_s d_storage_b = true.
Proof. intros std. split; reflexivity. Qed.
Lemma compat_ward : forall std, G24 std d_ward_s d_ward_b = true /\ checks_compat d_ward_s d_ward_b = true.
Proof. intros std. split; reflexivity. Qed.
Lemma compat_bus_repair : forall std, G24 std d_bus_s d_bus_b_repair = true /\ checks_compat d_bus_s d_bus_b_repair = true.
Proof. intros std. split; reflexivity. Qed.
Lemma compat_gen_repair : forall std, G24 std d_gen_s d_gen_b_repair = true /\ checks_compat d_gen_s d_gen_b_repair = true.
Proof. intros std. split; reflexivity. Qed.
Lemma compat_bus_gen_checks : checks_compat d_bus_s d_bus_b = true /\ checks_compat d_gen_s d_gen_b = true.
Proof. split; reflexivity. Qed.
Lemma compat_line_checks : checks_compat d_line_s d_line_b = true.
Proof. reflexivity. Qed.
Lemma compat_trafo_checks : checks_compat d_trafo_s d_trafo_b = true.
Proof. reflexivity. Qed.
Lemma compat_t3_checks : checks_compat d_t3_s d_t3_b = true.
Proof. reflexivity. Qed.

(* a complete trafo3w type: every parameter create_transformer3w copies is also copied by create_transformers3w *)
Lemma lookup_some_norm std p : forall v, lookup std p = Some v -> norm std (SStd p) = norm std (SStdOpt p).
Proof. reflexivity. Qed.

Lemma col_compat_same_man std ds db c s :
  spec_of ds c = Man s -> spec_of db c = Man s -> pure s = true -> col_compat std ds db c = true.
Proof.
  intros H1 H2 Hp. unfold col_compat. rewrite H1, H2, Hp. simpl.
  assert (R : forall x, cell_eqb x x = true).
  { intros [[n dd]| |b|x]; simpl; [rewrite Z.eqb_refl, Pos.eqb_refl| |destruct b|rewrite String.eqb_refl]; reflexivity. }
  assert (S : forall x, src_eqb x x = true).
  { induction x; simpl; rewrite ?String.eqb_refl, ?R, ?IHx; reflexivity. }
  apply S.
Qed.

(* every column create_transformer3w writes except the boolean bookkeeping flag tap_dependency_table
   (single: _set_value_if_not_nan with default False, batch: plain entry; they differ only for a NaN flag) *)
Definition elec_trafo3w : list string :=
  ["hv_bus"; "mv_bus"; "lv_bus"; "in_service"; "tap_at_star_point"; "sn_hv_mva"; "sn_mv_mva"; "sn_lv_mva"; "vn_hv_kv";
   "vn_mv_kv"; "vn_lv_kv"; "vk_hv_percent"; "vk_mv_percent"; "vk_lv_percent"; "vkr_hv_percent"; "vkr_mv_percent";
   "vkr_lv_percent"; "pfe_kw"; "i0_percent"; "shift_mv_degree"; "shift_lv_degree"; "tap_neutral"; "tap_max"; "tap_min";
   "tap_side"; "tap_step_percent"; "tap_step_degree"; "tap_changer_type"; "tap_pos"; "max_loading_percent";
   "id_characteristic_table"].
Lemma compat_t3 : forall std c, In c elec_trafo3w -> col_compat std d_t3_s d_t3_b c = true.
Proof.
  intros std c Hc. unfold elec_trafo3w in Hc. simpl in Hc.
  repeat (destruct Hc as [<-|Hc];
          [first [ reflexivity
                 | eapply col_compat_same_man; [reflexivity | reflexivity | reflexivity] ]|]).
  destruct Hc.
Qed.

(* every column create_line writes except alpha (create_line takes alpha from the type only when the column exists) *)
Definition elec_line : list string :=
  ["from_bus"; "to_bus"; "length_km"; "in_service"; "df"; "parallel"; "r_ohm_per_km"; "x_ohm_per_km"; "c_nf_per_km"; "max_i_ka";
   "g_us_per_km"; "type"; "max_loading_percent"; "r0_ohm_per_km"; "x0_ohm_per_km"; "c0_nf_per_km"; "temperature_degree_celsius"].
Lemma compat_line : forall std c, In c elec_line -> col_compat std d_line_s d_line_b c = true.
Proof.
  intros std c Hc. unfold elec_line in Hc. simpl in Hc.
  repeat (destruct Hc as [<-|Hc];
          [first [ reflexivity
                 | eapply col_compat_same_man; [reflexivity | reflexivity | reflexivity] ]|]).
  destruct Hc.
Qed.

(* ---- refutations: concrete inputs on which the new rows differ *)
Definition q (n : Z) (d : positive) : cell := VQ (Qmake n d).
Definition std_trafo_w : amap :=
  [("sn_mva", q 25 1); ("vn_hv_kv", q 110 1); ("vn_lv_kv", q 20 1); ("vk_percent", q 12 1); ("vkr_percent", q 1 2);
   ("pfe_kw", q 14 1); ("i0_percent", q 1 16); ("shift_degree", q 150 1); ("tap_side", VS "hv"); ("tap_neutral", q 0 1);
   ("tap_min", q (-9) 1); ("tap_max", q 9 1); ("tap_step_percent", q 3 2)].
Definition args_trafo_w : list amap := [[("hv_bus", q 0 1); ("lv_bus", q 1 1)]].
Definition oc0 : ocol := {| oc_ex := true; oc_vals := [] |}.

Lemma trafo_refuted :
  exists std l c oc, new_vals oc (batch_col (spec_of d_trafo_b c) std l oc) <> new_vals oc (fold_col (spec_of d_trafo_s c) std l oc).
Proof. exists std_trafo_w, args_trafo_w, "shift_degree", oc0. vm_compute. discriminate. Qed.

Lemma trafo_refuted_cols :
  incompat_cols std_trafo_w d_trafo_s d_trafo_b =
  ["shift_degree"; "tap_neutral"; "tap_max"; "tap_min"; "tap_side"; "tap_step_percent"; "tap_pos"; "shift_degree"; "tap_pos"].
Proof. vm_compute. reflexivity. Qed.

(* a trafo type without tap changer and phase shift: the pair is compatible *)
Definition std_trafo_plain : amap :=
  [("sn_mva", q 25 1); ("vn_hv_kv", q 110 1); ("vn_lv_kv", q 20 1); ("vk_percent", q 12 1); ("vkr_percent", q 1 2);
   ("pfe_kw", q 14 1); ("i0_percent", q 1 16); ("shift_degree", q 0 1); ("vector_group", VS "Dyn5"); ("vk0_percent", q 11 1)].
Lemma trafo_nonvacuous : G24 std_trafo_plain d_trafo_s d_trafo_b = true.
Proof. vm_compute. reflexivity. Qed.
Lemma trafo_old_df_check_differs : checks_compat d_trafo_s d_trafo_b_old = false.
Proof. reflexivity. Qed.

Definition std_line_w : amap :=
  [("r_ohm_per_km", q 1 8); ("x_ohm_per_km", q 5 16); ("c_nf_per_km", q 210 1); ("max_i_ka", q 7 16);
   ("r0_ohm_per_km", q 1 2); ("x0_ohm_per_km", q 5 4); ("c0_nf_per_km", q 111 1)].
Definition args_line_w : list amap := [[("from_bus", q 0 1); ("to_bus", q 1 1); ("length_km", q 3 2)]].
Lemma line_old_refuted :
  exists std l c oc, new_vals oc (batch_col (spec_of d_line_b_old c) std l oc) <> new_vals oc (fold_col (spec_of d_line_s c) std l oc).
Proof. exists std_line_w, args_line_w, "r0_ohm_per_km", oc0. vm_compute. discriminate. Qed.
Definition std_line_plain : amap :=
  [("r_ohm_per_km", q 1 8); ("x_ohm_per_km", q 5 16); ("c_nf_per_km", q 210 1); ("max_i_ka", q 7 16); ("type", VS "cs"); ("q_mm2", q 95 1)].
Lemma line_alpha_only : incompat_cols std_line_w d_line_s d_line_b = ["alpha"; "alpha"].
Proof. vm_compute. reflexivity. Qed.

(* bus / gen: min_vm_pu, max_vm_pu get 0.0 / 2.0 from create_bus / create_gen but NaN from the batch function *)
Lemma bus_refuted :
  exists l c oc, new_vals oc (batch_col (spec_of d_bus_b c) [] l oc) <> new_vals oc (fold_col (spec_of d_bus_s c) [] l oc).
Proof.
  exists [[("vn_kv", q 20 1); ("min_vm_pu", VNaN)]; [("vn_kv", q 20 1); ("min_vm_pu", q 9 10)]], "min_vm_pu",
         {| oc_ex := false; oc_vals := [] |}.
  vm_compute. discriminate.
Qed.
Lemma bus_incompat : forall std, incompat_cols std d_bus_s d_bus_b = ["min_vm_pu"; "max_vm_pu"; "min_vm_pu"; "max_vm_pu"].
Proof. intros. reflexivity. Qed.
Lemma gen_incompat : forall std, incompat_cols std d_gen_s d_gen_b = ["max_vm_pu"; "min_vm_pu"; "max_vm_pu"; "min_vm_pu"].
Proof. intros. reflexivity. Qed.

(* wards: the index check of create_wards looks at net.storage *)
Lemma ward_old_refuted : exists t idxs l, batch_ok d_ward_b_old t [] idxs l <> fold_ok d_ward_s t [] idxs l.
Proof.
  exists [("bus", [0%Z]); ("ward", [0%Z]); ("storage", [])], None, [[("bus", q 0 1)]].
  vm_compute. discriminate.
Qed.

(* ------------------------------------------------------------ duplicate-cost checks *)
Lemma land_pos a b : (0 <= a)%Z -> (0 <= b)%Z -> (1 <=? Z.land a b)%Z = true -> (1 <= a)%Z.
Proof.
  intros Ha Hb H. apply Z.leb_le in H.
  destruct (Z.eq_dec a 0) as [->|Hn]; [rewrite Z.land_0_l in H; lia | lia].
Qed.

Lemma countb_pos {A} (f : A -> bool) l : (1 <= countb f l)%Z -> exists x, In x l /\ f x = true.
Proof.
  unfold countb. induction l as [|a l IH]; simpl; [lia|].
  destruct (f a) eqn:E.
  - intros _. exists a. split; [left; reflexivity | exact E].
  - intros H. destruct (IH H) as [x [Hx Hf]]. exists x. split; [right; exact Hx | exact Hf].
Qed.

Lemma fold_rejects_mono is_poly els et pt : forall poly pwl c e,
  In c poly -> In e els -> same_el e et c = true -> cost_fold_rejects is_poly poly pwl els et pt = true.
Proof.
  induction els as [|e0 r IH]; intros poly pwl c e Hc He Hs; [destruct He|].
  simpl. destruct (cost_exists poly pwl e0 et (if is_poly then None else Some pt)) eqn:X; [reflexivity|].
  destruct He as [->|He].
  - exfalso. unfold cost_exists in X. apply orb_false_iff in X. destruct X as [X _].
    assert (Y : existsb (same_el e et) poly = true) by (apply existsb_exists; exists c; split; assumption).
    congruence.
  - destruct is_poly; apply (IH _ _ c e); try assumption. apply in_or_app. left. exact Hc.
Qed.

(* the batch check never rejects an input the single calls accept *)
Theorem cost_old_batch_sound is_poly poly pwl els et pt :
  costs_batch_rejects_old is_poly poly pwl els et pt = true -> cost_fold_rejects is_poly poly pwl els et pt = true.
Proof.
  unfold costs_batch_rejects_old. intros H.
  apply land_pos in H; try (unfold countb; lia).
  apply countb_pos in H. destruct H as [c [Hc Hf]]. apply andb_true_iff in Hf. destruct Hf as [Hm Het].
  unfold memz in Hm. apply existsb_exists in Hm. destruct Hm as [e [He Hee]]. apply Z.eqb_eq in Hee.
  apply (fold_rejects_mono is_poly els et pt poly pwl c e Hc He).
  unfold same_el. rewrite Het, Hee, Z.eqb_refl. reflexivity.
Qed.

Theorem cost_old_refuted : exists is_poly poly pwl els et pt,
  cost_fold_rejects is_poly poly pwl els et pt = true /\ costs_batch_rejects_old is_poly poly pwl els et pt = false.
Proof. exists true, [mkcost 0 "gen" "p"], [], [0%Z], "gen", "p". split; reflexivity. Qed.

Lemma cost_fold_accepts is_poly et pt els : forall poly pwl,
  nodupz els = true ->
  (forall c, In c (poly ++ pwl) -> (memz (c_elem c) els && String.eqb (c_et c) et) = false) ->
  cost_fold_rejects is_poly poly pwl els et pt = false.
Proof.
  induction els as [|e r IH]; intros poly pwl Hn Hno; [reflexivity|].
  simpl in Hn. apply andb_true_iff in Hn. destruct Hn as [Hne Hn]. apply negb_true_iff in Hne.
  assert (P : forall l, (forall c, In c l -> In c (poly ++ pwl)) -> forall g, existsb (fun c => same_el e et c && g c) l = false).
  { intros l Hl g. apply not_true_is_false. intros X. apply existsb_exists in X. destruct X as [c [Hc Hs]].
    apply andb_true_iff in Hs. destruct Hs as [Hs _].
    specialize (Hno c (Hl c Hc)). unfold same_el in Hs. apply andb_true_iff in Hs. destruct Hs as [H1 H2].
    unfold memz in Hno. simpl in Hno. rewrite H2, H1 in Hno. simpl in Hno. discriminate. }
  simpl. unfold cost_exists.
  assert (P1 : existsb (same_el e et) poly = false).
  { specialize (P poly (fun c H => in_or_app _ _ _ (or_introl H)) (fun _ => true)).
    rewrite <- P. apply existsb_ext'. intros c. rewrite andb_true_r. reflexivity. }
  rewrite P1. simpl.
  rewrite (P pwl (fun c H => in_or_app _ _ _ (or_intror H))).
  assert (Q : forall c, In c ((poly ++ pwl) ++ [mkcost e et pt]) -> (memz (c_elem c) r && String.eqb (c_et c) et) = false).
  { intros c Hc. apply in_app_or in Hc. destruct Hc as [Hc|[<-|[]]].
    - specialize (Hno c Hc). simpl in Hno. destruct (String.eqb (c_et c) et); [|apply andb_false_r].
      rewrite andb_true_r in *. apply orb_false_iff in Hno. destruct Hno as [_ X]. exact X.
    - simpl. rewrite Hne. reflexivity. }
  destruct is_poly; apply IH; try exact Hn; intros c Hc; apply Q.
  - apply in_app_or in Hc. destruct Hc as [Hc|Hc].
    + apply in_app_or in Hc. destruct Hc as [Hc|Hc].
      * apply in_or_app. left. apply in_or_app. left. exact Hc.
      * apply in_or_app. right. exact Hc.
    + apply in_or_app. left. apply in_or_app. right. exact Hc.
  - rewrite app_assoc in Hc. exact Hc.
Qed.

(* under the guard both accept *)
Theorem cost_old_partial is_poly poly pwl els et pt : G24_cost poly pwl els et = true ->
  cost_fold_rejects is_poly poly pwl els et pt = false /\ costs_batch_rejects_old is_poly poly pwl els et pt = false.
Proof.
  unfold G24_cost. intros H. apply andb_true_iff in H. destruct H as [Hn He]. apply negb_true_iff in He.
  assert (Hno : forall c, In c (poly ++ pwl) -> (memz (c_elem c) els && String.eqb (c_et c) et) = false).
  { intros c Hc. apply not_true_is_false. intros X.
    assert (Y : existsb (fun c => memz (c_elem c) els && String.eqb (c_et c) et) (poly ++ pwl) = true)
      by (apply existsb_exists; exists c; split; assumption). congruence. }
  split; [apply cost_fold_accepts; assumption|].
  unfold costs_batch_rejects_old.
  assert (Z0 : countb (fun c => memz (c_elem c) els && String.eqb (c_et c) et) poly = 0%Z).
  { unfold countb. replace (filter (fun c => memz (c_elem c) els && String.eqb (c_et c) et) poly) with (@nil cost); [reflexivity|].
    symmetry. assert (G : forall c, In c poly -> (memz (c_elem c) els && String.eqb (c_et c) et) = false)
      by (intros c Hc; apply Hno; apply in_or_app; left; exact Hc).
    clear -G. induction poly as [|c p IH]; [reflexivity|]. simpl.
    rewrite (G c (or_introl eq_refl)). apply IH. intros c' Hc'. apply G. right. exact Hc'. }
  rewrite Z0. rewrite Z.land_0_l. reflexivity.
Qed.
Lemma cost_partial_nonvacuous : G24_cost [mkcost 3 "gen" "p"] [mkcost 1 "load" "p"] [0%Z; 1%Z; 2%Z] "gen" = true.
Proof. reflexivity. Qed.

(* ---- the repaired batch check is the sequence of single checks *)
Lemma existsb_orb {A} (f g : A -> bool) l : existsb (fun x => f x || g x) l = existsb f l || existsb g l.
Proof.
  induction l as [|a l IH]; simpl; [reflexivity|]. rewrite IH.
  destruct (f a), (g a), (existsb f l), (existsb g l); reflexivity.
Qed.

Lemma cost_exists_snoc_poly poly pwl e et pt x :
  cost_exists (poly ++ [mkcost e et pt]) pwl x et None = cost_exists poly pwl x et None || Z.eqb e x.
Proof.
  unfold cost_exists. rewrite existsb_app. simpl. unfold same_el at 2. simpl.
  rewrite String.eqb_refl, andb_true_r, orb_false_r.
  destruct (existsb (same_el x et) poly), (e =? x)%Z, (existsb (fun c => same_el x et c && true) pwl); reflexivity.
Qed.
Lemma cost_exists_snoc_pwl poly pwl e et pt x :
  cost_exists poly (pwl ++ [mkcost e et pt]) x et (Some pt) = cost_exists poly pwl x et (Some pt) || Z.eqb e x.
Proof.
  unfold cost_exists. rewrite existsb_app. simpl. unfold same_el at 3. simpl.
  rewrite !String.eqb_refl, !andb_true_r, orb_false_r. rewrite orb_assoc. reflexivity.
Qed.

Theorem cost_batch_eq_fold is_poly et pt els : forall poly pwl,
  costs_batch_rejects is_poly poly pwl els et pt = cost_fold_rejects is_poly poly pwl els et pt.
Proof.
  unfold costs_batch_rejects. destruct is_poly.
  - induction els as [|e r IH]; intros poly pwl; [reflexivity|].
    cbn [cost_fold_rejects existsb nodupz].
    destruct (cost_exists poly pwl e et None) eqn:X; [reflexivity|]. cbn [orb].
    change {| c_elem := e; c_et := et; c_ptype := pt |} with (mkcost e et pt).
    rewrite <- IH.
    rewrite (existsb_ext' _ _ r (cost_exists_snoc_poly poly pwl e et pt)), existsb_orb.
    fold (memz e r).
    destruct (existsb (fun e0 => cost_exists poly pwl e0 et None) r), (memz e r), (nodupz r); reflexivity.
  - induction els as [|e r IH]; intros poly pwl; [reflexivity|].
    cbn [cost_fold_rejects existsb nodupz].
    destruct (cost_exists poly pwl e et (Some pt)) eqn:X; [reflexivity|]. cbn [orb].
    change {| c_elem := e; c_et := et; c_ptype := pt |} with (mkcost e et pt).
    rewrite <- IH.
    rewrite (existsb_ext' _ _ r (cost_exists_snoc_pwl poly pwl e et pt)), existsb_orb.
    fold (memz e r).
    destruct (existsb (fun e0 => cost_exists poly pwl e0 et (Some pt)) r), (memz e r), (nodupz r); reflexivity.
Qed.
