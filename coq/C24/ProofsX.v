From Coq Require Import ZArith QArith List Bool String Lia.
From PPV Require Import Base.QN C24.Model C24.Proofs C24.ModelX.
Import ListNotations.
Open Scope string_scope.
Open Scope list_scope.

(* ------------------------------------------------------------ boolean equalities *)
Lemma cell_eqb_refl x : cell_eqb x x = true.
Proof. destruct x as [[n d]| |b|s]; simpl; [rewrite Z.eqb_refl, Pos.eqb_refl| |destruct b|rewrite String.eqb_refl]; reflexivity. Qed.
Lemma src_eqb_refl x : src_eqb x x = true.
Proof. induction x; simpl; rewrite ?String.eqb_refl, ?cell_eqb_refl, ?IHx; reflexivity. Qed.
Lemma colspec_eqb_refl x : colspec_eqb x x = true.
Proof.
  destruct x as [s|n p d f]; simpl; [apply src_eqb_refl|].
  rewrite String.eqb_refl, !cell_eqb_refl. destruct f; reflexivity.
Qed.
Lemma colspec_eqb_eq a b : colspec_eqb a b = true -> a = b.
Proof.
  destruct a as [s|n p d f], b as [t|m q e g]; simpl; try discriminate; intros H.
  - apply src_eqb_eq in H. subst. reflexivity.
  - apply andb_true_iff in H. destruct H as [H H4]. apply andb_true_iff in H. destruct H as [H H3].
    apply andb_true_iff in H. destruct H as [H1 H2].
    apply String.eqb_eq in H1. apply cell_eqb_eq in H2. apply cell_eqb_eq in H3. apply Bool.eqb_prop in H4.
    subst. reflexivity.
Qed.

(* ------------------------------------------------------------ columns *)
Lemma xfold_hom x c std sp l : (forall a, In a l -> spec_el x c a = sp) ->
  forall oc, xfold_col x c std l oc = fold_col sp std l oc.
Proof.
  induction l as [|a l IH]; intros H oc; [reflexivity|]. simpl.
  rewrite (H a (or_introl eq_refl)). apply IH. intros b Hb. apply H. right. exact Hb.
Qed.

Lemma spec_of_mk1 sp : spec_of (mk1 sp) "c" = sp.
Proof. reflexivity. Qed.

Lemma compat1_spec_of std ds db c : compat1 std (spec_of ds c) (spec_of db c) = col_compat std ds db c.
Proof. unfold compat1, col_compat. rewrite !spec_of_mk1. reflexivity. Qed.

Lemma sem_eq_newspec std sp_s sp_b l : sem_eq std sp_s sp_b l = true ->
  (match sp_s with Man s => pure s = true | _ => True end) /\
  forall ex, newspec sp_s ex std l = newspec sp_b ex std l.
Proof.
  destruct sp_s as [s|n p d f], sp_b as [t|m q e g]; intros H.
  - simpl in H. apply andb_true_iff in H. destruct H as [H H3]. apply andb_true_iff in H. destruct H as [H1 H2].
    split; [exact H1|]. intros ex. apply map_ext_in. intros a Ha.
    rewrite forallb_forall in H3. specialize (H3 a Ha). apply cell_eqb_eq in H3.
    rewrite (pure_ex s H1 ex false), (pure_ex t H2 ex false). exact H3.
  - destruct e; try discriminate. simpl in H. apply andb_true_iff in H. destruct H as [H1 H3].
    split; [exact H1|]. intros ex. rewrite opt_nan_spec. apply map_ext_in. intros a Ha.
    rewrite forallb_forall in H3. specialize (H3 a Ha). apply cell_eqb_eq in H3.
    rewrite (pure_ex s H1 ex false). exact H3.
  - destruct d; try discriminate. simpl in H. apply andb_true_iff in H. destruct H as [H1 H3].
    split; [exact I|]. intros ex. rewrite opt_nan_spec. apply map_ext_in. intros a Ha.
    rewrite forallb_forall in H3. specialize (H3 a Ha). apply cell_eqb_eq in H3.
    rewrite (pure_ex t H1 ex false). exact H3.
  - assert (H' : String.eqb n m && forallb (fun a => cell_eqb (getarg a n p) (getarg a m q) &&
                    (negb (isnanc (getarg a n p)) || cell_eqb d e)) l = true) by (destruct d; exact H).
    clear H. rename H' into H.
    apply andb_true_iff in H. destruct H as [H1 H3]. apply String.eqb_eq in H1. subst. split; [exact I|]. intros ex.
    rewrite forallb_forall in H3.
    assert (E : map (fun a => getarg a m p) l = map (fun a => getarg a m q) l).
    { apply map_ext_in. intros a Ha. specialize (H3 a Ha). apply andb_true_iff in H3. apply cell_eqb_eq. apply H3. }
    simpl. rewrite <- E.
    assert (E2 : map (fillf d) (map (fun a => getarg a m p) l) = map (fillf e) (map (fun a => getarg a m p) l)).
    { rewrite !map_map. apply map_ext_in. intros a Ha. specialize (H3 a Ha). apply andb_true_iff in H3. destruct H3 as [_ H3].
      unfold fillf. destruct (isnanc (getarg a m p)); [|reflexivity]. simpl in H3. apply cell_eqb_eq. exact H3. }
    rewrite E2. reflexivity.
Qed.

(* MAIN X1: under GX the batch call creates the rows the sequence of single calls creates, also for the
   conditional columns *)
Theorem xbatch_eq_fold std xs xb c l : GX std xs xb c l = true ->
  forall oc, new_vals oc (xbatch_col xb c std l oc) = new_vals oc (xfold_col xs c std l oc).
Proof.
  destruct l as [|a0 l'].
  - intros _ oc. unfold xbatch_col. rewrite batch_new. simpl xfold_col.
    unfold new_vals. rewrite skipn_all. destruct (spec_vec xb c []) as [s|n p d f]; simpl; [reflexivity|].
    destruct (oc_ex oc || false); reflexivity.
  - set (l := a0 :: l'). intros H oc. unfold GX in H. fold l in H.
    apply andb_true_iff in H. destruct H as [Hh Hc].
    assert (Hsp : forall a, In a l -> spec_el xs c a = spec_el xs c a0).
    { intros a Ha. rewrite forallb_forall in Hh. apply colspec_eqb_eq. apply Hh. exact Ha. }
    rewrite (xfold_hom xs c std _ l Hsp). unfold xbatch_col.
    apply orb_true_iff in Hc. destruct Hc as [Hc|Hc].
    + pose proof (batch_eq_fold_col std (mk1 (spec_el xs c a0)) (mk1 (spec_vec xb c l)) "c" Hc l oc) as X.
      rewrite !spec_of_mk1 in X. exact X.
    + destruct (sem_eq_newspec std _ _ l Hc) as [Hp He].
      rewrite batch_new, fold_new by exact Hp. symmetry. apply He.
Qed.

Lemma GX_uncond std xs xb c : assoc (x_cs xs) c = None -> assoc (x_cb xb) c = None ->
  col_compat std (x_d xs) (x_d xb) c = true -> forall l, GX std xs xb c l = true.
Proof.
  intros H1 H2 Hc [|a0 l']; [reflexivity|]. unfold GX, spec_el, spec_vec. rewrite H1, H2.
  rewrite compat1_spec_of, Hc. rewrite andb_true_r.
  apply forallb_forall. intros a _. apply colspec_eqb_refl.
Qed.

(* ------------------------------------------------------------ rejections *)
Lemma xfold_ok_noextra x std l : forall t idxs, extra_s x l = false ->
  xfold_ok x t std idxs l = fold_ok (x_d x) t std idxs l.
Proof.
  induction l as [|a l IH]; intros t idxs H; [reflexivity|].
  unfold extra_s in H. simpl in H. apply orb_false_iff in H. destruct H as [H1 H2].
  simpl. destruct idxs as [[|i r]|]; rewrite H1;
    (destruct (single_ok (x_d x) t std _ a); [rewrite IH by exact H2|]; reflexivity).
Qed.
Lemma xfold_ok_extra x std l : forall t idxs, extra_s x l = true -> xfold_ok x t std idxs l = None.
Proof.
  induction l as [|a l IH]; intros t idxs H; [discriminate|].
  unfold extra_s in H. simpl in H. simpl.
  destruct (raises_s x a) eqn:E.
  - destruct idxs as [[|i r]|]; reflexivity.
  - simpl in H. destruct idxs as [[|i r]|];
      (destruct (single_ok (x_d x) t std _ a); [rewrite IH by exact H|]; reflexivity).
Qed.

(* MAIN X2 *)
Theorem xbatch_rejects_iff_fold xs xb l : xchecks_compat xs xb l = true ->
  forall t std idxs, (match idxs with Some li => List.length li = List.length l | None => True end) ->
  xbatch_ok xb t std idxs l = xfold_ok xs t std idxs l.
Proof.
  unfold xchecks_compat. intros H t std idxs Hlen. apply andb_true_iff in H. destruct H as [Hc He].
  apply Bool.eqb_prop in He. unfold xbatch_ok. destruct (extra_b xb l) eqn:Eb.
  - rewrite xfold_ok_extra by exact He. reflexivity.
  - rewrite xfold_ok_noextra by exact He. apply batch_rejects_iff_fold; assumption.
Qed.

(* ------------------------------------------------------------ switches *)
Lemma forallb_andb {A} (f g : A -> bool) l : forallb (fun x => f x && g x) l = forallb f l && forallb g l.
Proof.
  induction l as [|a l IH]; simpl; [reflexivity|]. rewrite IH.
  destruct (f a), (g a), (forallb f l), (forallb g l); reflexivity.
Qed.

(* the vector-wise checks of create_switches accept exactly the vectors each row of which create_switch accepts *)
Theorem sw_batch_ok_forall env l : sw_batch_ok env l = forallb (sw_single_ok env) l.
Proof.
  unfold sw_batch_ok. rewrite <- !forallb_andb. apply forallb_ext'. intros s.
  unfold sw_single_ok, sw_known, sw_el_exists, sw_connected, sw_table.
  destruct (memz (s_bus s) (sw_bus env)); simpl; [|reflexivity].
  destruct (String.eqb (s_et s) "b") eqn:Eb; simpl.
  - rewrite andb_true_r. reflexivity.
  - destruct (String.eqb (s_et s) "l") eqn:El; simpl.
    + destruct (find_row (sw_line env) (s_el s)); reflexivity.
    + destruct (String.eqb (s_et s) "t") eqn:Et; simpl.
      * destruct (find_row (sw_trafo env) (s_el s)); reflexivity.
      * destruct (String.eqb (s_et s) "t3") eqn:E3; simpl; [|reflexivity].
        destruct (find_row (sw_t3 env) (s_el s)); reflexivity.
Qed.

Section Gen.
  Context {A : Type}.
  Variable ok : A -> bool.

  Lemma gfold_ok_none l : forall idx,
    gfold_ok ok idx None l = if forallb ok l then Some (arange (free_id idx) (List.length l)) else None.
  Proof.
    induction l as [|a l IH]; intros idx; simpl; [reflexivity|].
    destruct (ok a); simpl; [|reflexivity].
    rewrite IH, free_id_snoc. destruct (forallb ok l); reflexivity.
  Qed.

  Lemma gfold_ok_some l : forall idx li, List.length li = List.length l ->
    gfold_ok ok idx (Some li) l =
    if forallb ok l && (nodupz li && negb (existsb (fun i => memz i idx) li)) then Some li else None.
  Proof.
    induction l as [|a l IH]; intros idx li Hlen; destruct li as [|i r]; simpl in Hlen; try discriminate.
    - reflexivity.
    - simpl. destruct (ok a); simpl; [|reflexivity].
      destruct (memz i idx) eqn:M; simpl.
      + rewrite !andb_false_r. reflexivity.
      + rewrite IH by lia.
        assert (Y : existsb (fun j => memz j (idx ++ [i])) r = existsb (fun j => memz j idx) r || memz i r).
        { clear. induction r as [|j r IHr]; simpl; [reflexivity|].
          rewrite IHr, memz_app. simpl. rewrite orb_false_r. rewrite (Z.eqb_sym j i).
          destruct (memz j idx), (existsb (fun j0 => memz j0 idx) r), (i =? j)%Z, (memz i r); reflexivity. }
        rewrite Y.
        destruct (forallb ok l), (nodupz r), (memz i r), (existsb (fun j => memz j idx) r); reflexivity.
  Qed.

  Theorem gbatch_eq_gfold okall : (forall l, okall l = forallb ok l) ->
    forall idx idxs l, (match idxs with Some li => List.length li = List.length l | None => True end) ->
    gbatch_ok okall idx idxs l = gfold_ok ok idx idxs l.
  Proof.
    intros H idx idxs l Hlen. unfold gbatch_ok. rewrite H. destruct idxs as [li|].
    - rewrite (gfold_ok_some l idx li Hlen). destruct (forallb ok l); reflexivity.
    - rewrite gfold_ok_none. reflexivity.
  Qed.
End Gen.

(* MAIN X3: create_switches rejects exactly the inputs the sequence of create_switch calls rejects
   (unknown bus / element / element type, bus not at the element, index clash), same indices otherwise *)
Theorem sw_batch_eq_fold env idx idxs l :
  (match idxs with Some li => List.length li = List.length l | None => True end) ->
  sw_batch env idx idxs l = sw_fold env idx idxs l.
Proof. apply gbatch_eq_gfold. apply sw_batch_ok_forall. Qed.

(* ------------------------------------------------------------ costs, et / power type per element *)
Lemma cost_exists_snoc_poly_l poly pwl e et pt x etx :
  cost_exists (poly ++ [mkcost e et pt]) pwl x etx None = cost_exists poly pwl x etx None || (Z.eqb e x && String.eqb et etx).
Proof.
  unfold cost_exists. rewrite existsb_app. simpl. unfold same_el at 2. simpl. rewrite orb_false_r.
  destruct (existsb (same_el x etx) poly), ((e =? x)%Z && String.eqb et etx),
    (existsb (fun c => same_el x etx c && true) pwl); reflexivity.
Qed.
Lemma cost_exists_snoc_pwl_l poly pwl e et pt x etx ptx :
  cost_exists poly (pwl ++ [mkcost e et pt]) x etx (Some ptx) =
  cost_exists poly pwl x etx (Some ptx) || (Z.eqb e x && String.eqb et etx && String.eqb pt ptx).
Proof.
  unfold cost_exists. rewrite existsb_app. simpl. unfold same_el at 3. simpl. rewrite orb_false_r.
  rewrite orb_assoc. reflexivity.
Qed.

Theorem cost_batch_eq_fold_l is_poly items : forall poly pwl,
  costs_batch_rejects_l is_poly poly pwl items = cost_fold_rejects_l is_poly poly pwl items.
Proof.
  unfold costs_batch_rejects_l. destruct is_poly.
  - induction items as [|it r IH]; intros poly pwl; [reflexivity|].
    cbn [cost_fold_rejects_l existsb nodup_items].
    destruct (cost_exists poly pwl (i_el it) (i_et it) None) eqn:X; [reflexivity|]. cbn [orb].
    rewrite <- IH.
    rewrite (existsb_ext' _ _ r (fun x => cost_exists_snoc_poly_l poly pwl (i_el it) (i_et it) (i_pt it) (i_el x) (i_et x))).
    rewrite existsb_orb.
    assert (E : existsb (fun x => (i_el it =? i_el x)%Z && String.eqb (i_et it) (i_et x)) r = existsb (item_eqb true it) r).
    { apply existsb_ext'. intros x. unfold item_eqb. rewrite andb_true_r. reflexivity. }
    rewrite E.
    destruct (existsb (fun x => cost_exists poly pwl (i_el x) (i_et x) None) r), (existsb (item_eqb true it) r),
      (nodup_items true r); reflexivity.
  - induction items as [|it r IH]; intros poly pwl; [reflexivity|].
    cbn [cost_fold_rejects_l existsb nodup_items].
    destruct (cost_exists poly pwl (i_el it) (i_et it) (Some (i_pt it))) eqn:X; [reflexivity|]. cbn [orb].
    rewrite <- IH.
    rewrite (existsb_ext' _ _ r (fun x => cost_exists_snoc_pwl_l poly pwl (i_el it) (i_et it) (i_pt it) (i_el x) (i_et x) (i_pt x))).
    rewrite existsb_orb.
    assert (E : existsb (fun x => (i_el it =? i_el x)%Z && String.eqb (i_et it) (i_et x) && String.eqb (i_pt it) (i_pt x)) r
                = existsb (item_eqb false it) r).
    { apply existsb_ext'. intros x. reflexivity. }
    rewrite E.
    destruct (existsb (fun x => cost_exists poly pwl (i_el x) (i_et x) (Some (i_pt x))) r), (existsb (item_eqb false it) r),
      (nodup_items false r); reflexivity.
Qed.

(* ------------------------------------------------------------ per kind *)
Ltac incols Hc :=
  simpl in Hc;
  repeat (destruct Hc as [<-|Hc];
          [apply GX_uncond;
           [reflexivity | reflexivity |
            first [ reflexivity | eapply col_compat_same_man; [reflexivity | reflexivity | reflexivity] ]]|]);
  destruct Hc.

(* sgens: every column except generator_type and the three columns that depend on it *)
Definition elec_sgen : list string :=
  ["bus"; "p_mw"; "scaling"; "q_mvar"; "sn_mva"; "in_service"; "type"; "current_source"; "min_p_mw"; "max_p_mw"; "min_q_mvar";
   "max_q_mvar"; "rx"; "kappa"; "id_q_capability_characteristic"; "controllable"; "reactive_capability_curve"; "curve_style"].
Lemma compat_sgen : forall std c, In c elec_sgen -> forall l, GX std x_sgen_s x_sgen_b c l = true.
Proof. intros std c Hc. unfold elec_sgen in Hc. incols Hc. Qed.

Definition elec_shunt : list string :=
  ["bus"; "p_mw"; "q_mvar"; "step"; "max_step"; "in_service"; "step_dependency_table"; "id_characteristic_table"].
Lemma compat_shunt : forall std c, In c elec_shunt -> forall l, GX std x_shunt_s x_shunt_b c l = true.
Proof. intros std c Hc. unfold elec_shunt in Hc. incols Hc. Qed.

Definition elec_imp : list string := ["from_bus"; "to_bus"; "rft_pu"; "xft_pu"; "gf_pu"; "bf_pu"; "sn_mva"; "in_service"].
Lemma compat_imp : forall std c, In c elec_imp -> forall l, GX std x_imp_s x_imp_b c l = true.
Proof. intros std c Hc. unfold elec_imp in Hc. incols Hc. Qed.

Definition elec_linepar : list string :=
  ["from_bus"; "to_bus"; "length_km"; "in_service"; "df"; "parallel"; "r_ohm_per_km"; "x_ohm_per_km"; "c_nf_per_km"; "max_i_ka";
   "type"; "g_us_per_km"; "max_loading_percent"; "alpha"; "temperature_degree_celsius"; "endtemp_degree"].
Lemma compat_linepar : forall std c, In c elec_linepar -> forall l, GX std x_linepar_s x_linepar_b c l = true.
Proof. intros std c Hc. unfold elec_linepar in Hc. incols Hc. Qed.

(* every column create_transformer_from_parameters writes (except the bookkeeping flag) *)
Definition elec_trafopar : list string :=
  ["hv_bus"; "lv_bus"; "in_service"; "sn_mva"; "vn_hv_kv"; "vn_lv_kv"; "vk_percent"; "vkr_percent"; "pfe_kw"; "i0_percent";
   "tap_neutral"; "tap_max"; "tap_min"; "shift_degree"; "tap_side"; "tap_step_percent"; "tap_step_degree"; "parallel"; "df";
   "tap_pos"; "id_characteristic_table"; "vk0_percent"; "vkr0_percent"; "mag0_percent"; "mag0_rx"; "si0_hv_partial";
   "vector_group"; "max_loading_percent"; "pt_percent"; "oltc"; "xn_ohm"; "tap2_side"; "tap2_neutral"; "tap2_min"; "tap2_max";
   "tap2_step_percent"; "tap2_step_degree"; "tap2_changer_type"; "tap_changer_type"; "tap2_pos"].
Lemma compat_trafopar : forall std c, In c elec_trafopar -> forall l, GX std x_trafopar_s x_trafopar_b c l = true.
Proof. intros std c Hc. unfold elec_trafopar in Hc. incols Hc. Qed.

Definition elec_t3par : list string :=
  ["hv_bus"; "mv_bus"; "lv_bus"; "sn_hv_mva"; "sn_mv_mva"; "sn_lv_mva"; "vn_hv_kv"; "vn_mv_kv"; "vn_lv_kv"; "vk_hv_percent";
   "vk_mv_percent"; "vk_lv_percent"; "vkr_hv_percent"; "vkr_mv_percent"; "vkr_lv_percent"; "pfe_kw"; "i0_percent";
   "shift_mv_degree"; "shift_lv_degree"; "tap_side"; "tap_step_percent"; "tap_step_degree"; "tap_pos"; "tap_neutral"; "tap_max";
   "tap_min"; "in_service"; "tap_at_star_point"; "vk0_hv_percent"; "vk0_mv_percent"; "vk0_lv_percent"; "vkr0_hv_percent";
   "vkr0_mv_percent"; "vkr0_lv_percent"; "vector_group"; "max_loading_percent"; "id_characteristic_table"; "tap_changer_type"].
Lemma compat_t3par : forall std c, In c elec_t3par -> forall l, GX std x_t3par_s x_t3par_b c l = true.
Proof. intros std c Hc. unfold elec_t3par in Hc. incols Hc. Qed.

Definition elec_switch : list string := ["bus"; "element"; "et"; "closed"; "type"; "z_ohm"; "in_ka"].
Lemma compat_switch : forall std c, In c elec_switch -> forall l, GX std x_switch_s x_switch_b c l = true.
Proof. intros std c Hc. unfold elec_switch in Hc. incols Hc. Qed.

Definition elec_busdc : list string := ["vn_kv"; "type"; "zone"; "in_service"].
Lemma compat_busdc : forall std c, In c elec_busdc -> forall l, GX std x_busdc_s x_busdc_b c l = true.
Proof. intros std c Hc. unfold elec_busdc in Hc. incols Hc. Qed.

Lemma existsb_false_const {A} (l : list A) : existsb (fun _ => false) l = false.
Proof. induction l; simpl; auto. Qed.

(* the checks: same node / index / df checks and no further raise conditions *)
Lemma xchecks_plain : forall l,
  xchecks_compat x_shunt_s x_shunt_b l = true /\ xchecks_compat x_linepar_s x_linepar_b l = true /\
  xchecks_compat x_busdc_s x_busdc_b l = true /\ xchecks_compat x_switch_s x_switch_b l = true /\
  xchecks_compat x_trafopar_s x_trafopar_b l = true /\ xchecks_compat x_t3par_s x_t3par_b l = true.
Proof.
  intros l. unfold xchecks_compat, extra_s, extra_b, raises_s. simpl.
  rewrite existsb_false_const. repeat split; reflexivity.
Qed.

(* before the repair of _not_nan: a string-valued optional argument passed as a list made the batch call raise *)
Definition tp (extra : amap) : amap := [("hv_bus", q 0 1); ("lv_bus", q 1 1)] ++ extra.
Lemma trafopar_old_rej_refuted : exists t l, xbatch_ok x_trafopar_b_old t [] None l <> xfold_ok x_trafopar_s t [] None l.
Proof. exists [("bus", [0%Z; 1%Z])], [tp [("vector_group", VS "Dyn5")]; tp [("vector_group", VS "Yy0")]]. vm_compute. discriminate. Qed.
Lemma t3par_old_rej_refuted : exists t l, xbatch_ok x_t3par_b_old t [] None l <> xfold_ok x_t3par_s t [] None l.
Proof.
  exists [("bus", [0%Z; 1%Z; 2%Z])],
         [[("hv_bus", q 0 1); ("mv_bus", q 1 1); ("lv_bus", q 2 1); ("tap_changer_type", VS "Ratio")];
          [("hv_bus", q 0 1); ("mv_bus", q 1 1); ("lv_bus", q 2 1); ("tap_changer_type", VS "Ideal")]].
  vm_compute. discriminate.
Qed.

(* ---- conditional columns: homogeneous vectors *)
(* sgens whose generator_type is given and the same for every row: all columns agree *)
Definition sgen_hom (g : string) (l : list amap) : bool := forallb (fun a => cell_eqb (getarg a GT VNaN) (VS g)) l.

Lemma pick_hom_s x c sp l : (forall a, In a l -> spec_el x c a = sp) ->
  forallb (fun a => colspec_eqb (spec_el x c a) sp) l = true.
Proof. intros H. apply forallb_forall. intros a Ha. rewrite (H a Ha). apply colspec_eqb_refl. Qed.

Lemma existsb_const_true {A} (l : list A) : l <> [] -> existsb (fun _ => true) l = true.
Proof. destruct l; [congruence | reflexivity]. Qed.
Lemma existsb_const_false {A} (l : list A) : existsb (fun _ => false) l = false.
Proof. induction l; simpl; auto. Qed.

Lemma sgen_hom_getarg g l a : sgen_hom g l = true -> In a l -> getarg a GT VNaN = VS g /\ getarg a GT CS = VS g.
Proof.
  unfold sgen_hom. intros H Ha. rewrite forallb_forall in H. specialize (H a Ha). apply cell_eqb_eq in H.
  split; [exact H|]. unfold getarg in *. destruct (lookup a GT); [exact H | discriminate].
Qed.

Lemma existsb_ext_in' {A} (f g : A -> bool) l : (forall x, In x l -> f x = g x) -> existsb f l = existsb g l.
Proof.
  induction l as [|a l IH]; simpl; intros H; [reflexivity|].
  rewrite (H a (or_introl eq_refl)), IH; [reflexivity|]. intros x Hx. apply H. right. exact Hx.
Qed.

Lemma sgen_cond_hom g vs l : sgen_hom g l = true -> l <> [] ->
  (forall a, In a l -> aeval (CIn GT VNaN vs) a = memc (VS g) vs) /\
  veval (VAny (CIn GT CS vs)) l = memc (VS g) vs.
Proof.
  intros H Hn. split.
  - intros a Ha. simpl. destruct (sgen_hom_getarg g l a H Ha) as [-> _]. reflexivity.
  - simpl. rewrite (existsb_ext_in' (fun a => memc (getarg a GT CS) vs) (fun _ => memc (VS g) vs)).
    + destruct (memc (VS g) vs); [apply existsb_const_true; exact Hn | apply existsb_const_false].
    + intros a Ha. destruct (sgen_hom_getarg g l a H Ha) as [_ ->]. reflexivity.
Qed.

(* a conditional column of the sgen pair: [(CIn GT None vs, Opt n)] in create_sgen, [(VAny (CIn GT "current_source" vs), Opt n)]
   in create_sgens *)
Lemma sgen_cond_col std g n vs c l :
  assoc (x_cs x_sgen_s) c = Some [(CIn GT VNaN vs, ospec n)] ->
  assoc (x_cb x_sgen_b) c = Some [(VAny (CIn GT CS vs), ospec n)] ->
  sgen_hom g l = true -> GX std x_sgen_s x_sgen_b c l = true.
Proof.
  intros H1 H2 Hh. destruct l as [|a0 l']; [reflexivity|]. set (l := a0 :: l') in *.
  assert (Hn : l <> []) by discriminate.
  destruct (sgen_cond_hom g vs l Hh Hn) as [Ha Hv].
  unfold GX. unfold l at 1. cbv iota. unfold spec_el, spec_vec. rewrite H1, H2. cbn [pick_s pick_b]. rewrite Hv.
  rewrite (Ha a0 (or_introl eq_refl)).
  apply andb_true_iff. split.
  - apply forallb_forall. intros a Hin. rewrite (Ha a Hin). apply colspec_eqb_refl.
  - destruct (memc (VS g) vs); unfold compat1, col_compat; rewrite !spec_of_mk1; simpl;
      rewrite ?String.eqb_refl; reflexivity.
Qed.

(* MAIN X4: sgens with the generator type passed and equal for every row: also generator_type, k, lrc_pu, max_ik_ka agree *)
Theorem sgen_hom_compat std g l : sgen_hom g l = true ->
  forall c, In c [GT; "k"; "lrc_pu"; "max_ik_ka"] -> GX std x_sgen_s x_sgen_b c l = true.
Proof.
  intros Hh c Hc. simpl in Hc. destruct Hc as [<-|[<-|[<-|[<-|[]]]]].
  - destruct l as [|a0 l']; [reflexivity|]. set (l := a0 :: l') in *.
    unfold GX. unfold l at 1. cbv iota. apply andb_true_iff. split; [apply forallb_forall; intros; apply colspec_eqb_refl|].
    apply orb_true_iff. right. unfold spec_el, spec_vec. simpl assoc. cbv beta iota.
    change (spec_of (x_d x_sgen_s) GT) with (Opt GT VNaN CS false).
    change (spec_of (x_d x_sgen_b) GT) with (Opt GT CS CS false).
    unfold sem_eq. rewrite String.eqb_refl, cell_eqb_refl. cbv beta iota delta [andb].
    apply forallb_forall. intros a Ha. destruct (sgen_hom_getarg g l a Hh Ha) as [-> ->]. rewrite cell_eqb_refl, orb_true_r. reflexivity.
  - eapply sgen_cond_col; [reflexivity | reflexivity | exact Hh].
  - eapply sgen_cond_col; [reflexivity | reflexivity | exact Hh].
  - eapply sgen_cond_col; [reflexivity | reflexivity | exact Hh].
Qed.

(* sgens, generator type given and equal for every row: the batch call raises iff some single call raises
   (unknown generator type) *)
Lemma xchecks_sgen g l : sgen_hom g l = true -> l <> [] -> xchecks_compat x_sgen_s x_sgen_b l = true.
Proof.
  intros Hh Hn. unfold xchecks_compat. apply andb_true_iff. split; [reflexivity|].
  unfold extra_s, extra_b, raises_s. cbn [x_rs x_rb x_sgen_s x_sgen_b existsb veval]. rewrite !orb_false_r.
  assert (Hnone : forallb (aeval (CIn GT CS [VNaN])) l = false).
  { destruct l as [|a0 r]; [congruence|]. simpl. destruct (sgen_hom_getarg g (a0 :: r) a0 Hh (or_introl eq_refl)) as [_ ->].
    reflexivity. }
  rewrite Hnone. simpl. rewrite ?orb_false_r.
  apply Bool.eqb_true_iff. apply existsb_ext_in'. intros a Ha. rewrite orb_false_r.
  cbn [aeval]. destruct (sgen_hom_getarg g l a Hh Ha) as [-> ->]. reflexivity.
Qed.
Lemma sgen_old_rej_refuted : exists t l, xbatch_ok x_sgen_b_old t [] None l <> xfold_ok x_sgen_s t [] None l.
Proof.
  exists [("bus", [0%Z])], [[("bus", q 0 1); ("p_mw", q 1 1); (GT, CS)]; [("bus", q 0 1); ("p_mw", q 1 1); (GT, VS "async")]].
  vm_compute. discriminate.
Qed.

(* ---- refutations and non-vacuity (concrete inputs) *)
Definition sg (g : cell) (k : cell) : amap := [("bus", q 0 1); ("p_mw", q 1 1); (GT, g); ("k", k)].
(* create_sgens writes generator_type = "current_source" where create_sgen (default None) leaves the column absent *)
Lemma sgen_refuted : exists l c oc,
  new_vals oc (xbatch_col x_sgen_b c [] l oc) <> new_vals oc (xfold_col x_sgen_s c [] l oc).
Proof. exists [[("bus", q 0 1); ("p_mw", q 1 1)]], GT, {| oc_ex := false; oc_vals := [] |}. vm_compute. discriminate. Qed.
(* mixed generator types: create_sgens writes k for the async row as well *)
Lemma sgen_mixed_refuted : exists l oc,
  new_vals oc (xbatch_col x_sgen_b "k" [] l oc) <> new_vals oc (xfold_col x_sgen_s "k" [] l oc).
Proof. exists [sg CS (q 3 2); sg (VS "async") (q 5 2)], {| oc_ex := false; oc_vals := [] |}. vm_compute. discriminate. Qed.
Lemma sgen_hom_nonvacuous : sgen_hom "async" [sg (VS "async") (q 3 2); sg (VS "async") VNaN] = true.
Proof. reflexivity. Qed.

(* lines_from_parameters: only r0 given *)
Lemma linepar_refuted : exists l c oc,
  new_vals oc (xbatch_col x_linepar_b c [] l oc) <> new_vals oc (xfold_col x_linepar_s c [] l oc).
Proof. exists [[("r0_ohm_per_km", q 1 2)]], "r0_ohm_per_km", {| oc_ex := false; oc_vals := [] |}. vm_compute. discriminate. Qed.
(* the whole zero-sequence group incl. g0 given for every row: compatible *)
Definition lp_full : amap := [("r0_ohm_per_km", q 1 2); ("x0_ohm_per_km", q 5 4); ("c0_nf_per_km", q 111 1); ("g0_us_per_km", q 1 4)].
Lemma linepar_nonvacuous :
  forallb (fun c => GX [] x_linepar_s x_linepar_b c [lp_full; lp_full]) ["r0_ohm_per_km"; "x0_ohm_per_km"; "c0_nf_per_km"; "g0_us_per_km"] = true.
Proof. vm_compute. reflexivity. Qed.

(* transformers_from_parameters before the repair: tap2_neutral given, tap2_pos not *)
Lemma trafopar_old_refuted : exists l oc,
  new_vals oc (xbatch_col x_trafopar_b_old "tap2_pos" [] l oc) <> new_vals oc (xfold_col x_trafopar_s "tap2_pos" [] l oc).
Proof. exists [[("tap2_neutral", q 1 1)]], {| oc_ex := false; oc_vals := [] |}. vm_compute. discriminate. Qed.

(* impedances: before the repair zero-sequence values made the batch function raise; a None inside a vector is not replaced *)
Definition imp_a (extra : amap) : amap := [("from_bus", q 0 1); ("to_bus", q 1 1); ("rft_pu", q 1 8); ("xft_pu", q 1 4); ("sn_mva", q 1 1)] ++ extra.
Lemma imp_old_rej_refuted : exists t l, xbatch_ok x_imp_b_old t [] None l <> xfold_ok x_imp_s t [] None l.
Proof. exists [("bus", [0%Z; 1%Z])], [imp_a [("rft0_pu", q 1 2); ("xft0_pu", q 3 4)]]. vm_compute. discriminate. Qed.
Lemma imp_col_refuted : exists l oc,
  new_vals oc (xbatch_col x_imp_b "rtf_pu" [] l oc) <> new_vals oc (xfold_col x_imp_s "rtf_pu" [] l oc).
Proof. exists [imp_a [("rtf_pu", q 3 8)]; imp_a []], {| oc_ex := true; oc_vals := [] |}. vm_compute. discriminate. Qed.
Lemma imp_nonvacuous :
  forallb (fun c => GX [] x_imp_s x_imp_b c [imp_a [("rtf_pu", q 3 8)]; imp_a [("rtf_pu", q 1 2)]]) ["rtf_pu"; "xtf_pu"; "gt_pu"; "bt_pu"] = true
  /\ xchecks_compat x_imp_s x_imp_b [imp_a []; imp_a []] = true.
Proof. split; vm_compute; reflexivity. Qed.

Definition imp_z : amap := imp_a [("rft0_pu", q 1 2); ("xft0_pu", q 3 4); ("gf0_pu", q 1 16)].
Lemma imp_zero_seq_nonvacuous :
  forallb (fun c => GX [] x_imp_s x_imp_b c [imp_z; imp_z])
          ["rft0_pu"; "xft0_pu"; "rtf0_pu"; "xtf0_pu"; "gf0_pu"; "bf0_pu"; "gt0_pu"; "bt0_pu"] = true
  /\ xchecks_compat x_imp_s x_imp_b [imp_z; imp_z] = true
  /\ new_vals {| oc_ex := false; oc_vals := [] |} (xbatch_col x_imp_b "rtf0_pu" [] [imp_z; imp_z] {| oc_ex := false; oc_vals := [] |})
     = [q 1 2; q 1 2].
Proof. repeat split; vm_compute; reflexivity. Qed.

(* shunts: vn_kv given for some rows only *)
Definition sh (extra : amap) : amap := [("bus", q 0 1); ("q_mvar", q 1 1); ("bus:vn_kv", q 20 1)] ++ extra.
Lemma shunt_refuted : exists l oc,
  new_vals oc (xbatch_col x_shunt_b "vn_kv" [] l oc) <> new_vals oc (xfold_col x_shunt_s "vn_kv" [] l oc).
Proof. exists [sh [("vn_kv", q 10 1)]; sh []], {| oc_ex := true; oc_vals := [] |}. vm_compute. discriminate. Qed.
Lemma shunt_nonvacuous : GX [] x_shunt_s x_shunt_b "vn_kv" [sh []; sh []] = true /\
                         GX [] x_shunt_s x_shunt_b "vn_kv" [sh [("vn_kv", q 10 1)]; sh [("vn_kv", q 20 1)]] = true.
Proof. split; vm_compute; reflexivity. Qed.

(* buses_dc: as buses *)
Lemma busdc_refuted : exists l c oc,
  new_vals oc (xbatch_col x_busdc_b c [] l oc) <> new_vals oc (xfold_col x_busdc_s c [] l oc).
Proof.
  exists [[("vn_kv", q 20 1); ("min_vm_pu", VNaN)]; [("vn_kv", q 20 1); ("min_vm_pu", q 9 10)]], "min_vm_pu",
         {| oc_ex := false; oc_vals := [] |}.
  vm_compute. discriminate.
Qed.

(* switches *)
Definition swenv_w : swenv := {| sw_bus := [0; 1; 2]%Z; sw_line := [mkrow 0 [0; 1]%Z; mkrow 1 [1; 2]%Z]; sw_trafo := []; sw_t3 := [] |}.
Lemma sw_nonvacuous : sw_batch swenv_w [] None [mksw 0 0 "l"; mksw 2 1 "l"; mksw 0 2 "b"] = Some [0; 1; 2]%Z /\
                      sw_batch swenv_w [] None [mksw 0 1 "l"] = None.
Proof. split; reflexivity. Qed.
