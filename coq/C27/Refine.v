(* C27 — refinement of detach / drop_elements_simple / drop_lines / reindex_elements to an abstract set model of group
   membership that covers index based AND reference-column (name based) rows *)
From Coq Require Import ZArith List Bool String Lia.
From PPV Require Import C27.Model C27.Proofs.
Import ListNotations.
Open Scope Z_scope.

(* ------------------------------------------------------------------ the abstract set model *)
(* x is a member of row r, given the element table tb of the row's element type:
   index based row: x is listed;  reference-column row: an element x of the table carries a listed reference value *)
Definition row_mem (tb : list (Z * Z)) (r : grow) (x : Z) : Prop :=
  if rc_null (grc r) then In x (gmem r) else exists nm, In (x, nm) tb /\ In nm (gmem r).
(* x is a member of group g for element type et *)
Definition member (s : st) (g : Z) (et : nat) (x : Z) : Prop :=
  exists r, In r (grp s) /\ gid r = g /\ gty r = et /\ row_mem (tab s et) r x.
Definition selected (sl : option (list Z)) (g : Z) : Prop := match sl with None => True | Some l => In g l end.
(* the reference values of a table are unique *)
Definition uniq_names (tb : list (Z * Z)) : Prop := forall i j nm, In (i, nm) tb -> In (j, nm) tb -> i = j.

Lemma nodupb_true l : nodupb l = true -> NoDup l.
Proof.
  induction l as [|x t IH]; simpl; [constructor|]. intros H. apply andb_true_iff in H. destruct H as [H1 H2].
  constructor; [apply zin_false, negb_true_iff, H1 | apply IH, H2].
Qed.
Lemma nodup_snd_inj (tb : list (Z * Z)) : NoDup (map snd tb) -> uniq_names tb.
Proof.
  induction tb as [|p t IH]; intros N i j nm Hi Hj; [destruct Hi|]. simpl in N. inversion N as [|? ? Hn N']; subst.
  destruct Hi as [Hi|Hi], Hj as [Hj|Hj].
  - congruence.
  - exfalso. apply Hn. subst p. simpl. change nm with (snd (j, nm)). apply in_map, Hj.
  - exfalso. apply Hn. subst p. simpl. change nm with (snd (i, nm)). apply in_map, Hi.
  - eapply IH; eauto.
Qed.
Lemma G27_names_uniq s et : G27_names s et = true -> uniq_names (tab s et).
Proof. unfold G27_names, names. intros H. apply andb_true_iff in H. apply nodup_snd_inj, nodupb_true, H. Qed.

(* what group_element_index reports for a (group, type) with one row is exactly the abstract member set *)
Lemma members_of_is_member s g et r l :
  rows_of s g et = [r] -> members_of s g et = Ok l -> forall x, In x l <-> member s g et x.
Proof.
  intros Hrow Hm x. unfold members_of in Hm. rewrite Hrow in Hm.
  assert (Hr : forall r', In r' (grp s) /\ gid r' = g /\ gty r' = et <-> r' = r).
  { intros r'. assert (E : In r' (rows_of s g et) <-> In r' (grp s) /\ gid r' = g /\ gty r' = et).
    { unfold rows_of. rewrite filter_In, andb_true_iff, Z.eqb_eq, Nat.eqb_eq. tauto. }
    rewrite <- E, Hrow. simpl. intuition. }
  assert (M : member s g et x <-> row_mem (tab s et) r x).
  { unfold member. split.
    - intros [r' (H1 & H2 & H3 & H4)]. assert (r' = r) by (apply Hr; tauto). subst r'. exact H4.
    - intros H. exists r. destruct (proj2 (Hr r) eq_refl) as (H1 & H2 & H3). tauto. }
  rewrite M. unfold row_mem. destruct (rc_null (grc r)).
  - destruct (zin garbage (gmem r)); [discriminate|]. inversion Hm; subst. tauto.
  - inversion Hm; subst l. rewrite in_map_iff. split.
    + intros [[i nm] [H1 H2]]. simpl in H1. subst i. apply filter_In in H2. destruct H2 as [H2 H3]. simpl in H3.
      exists nm. split; [exact H2 | apply zin_true, H3].
    + intros [nm [H1 H2]]. exists (x, nm). split; [reflexivity|]. apply filter_In. split; [exact H1 | apply zin_true, H2].
Qed.

Lemma row_mem_nonempty tb r x : row_mem tb r x -> gmem r <> [].
Proof. unfold row_mem. destruct (rc_null (grc r)); [|intros [nm [_ H]]]; intros; destruct (gmem r); auto; discriminate. Qed.

(* ------------------------------------------------------------------ detach_from_groups *)
Definition detach_names (s : st) (et : nat) (idl : list Z) : list Z :=
  flat_map (name_of s et) (filter (fun i => zin i (ids s et)) (zuniq [] idl)).
Definition detach_mem (s : st) (et : nat) (idl : list Z) (r : grow) : list Z :=
  if rc_null (grc r) then zdiff (gmem r) idl else zdiff (gmem r) (detach_names s et idl).
Definition with_mem (r : grow) (m : list Z) : grow := {| gid := gid r; gty := gty r; gmem := m; grc := grc r |}.

Lemma detach_in s et idl sl r' :
  In r' (grp (detach s et idl sl)) <->
  exists r, In r (grp s) /\
    (if targeted et sl r then detach_mem s et idl r <> [] /\ r' = with_mem r (detach_mem s et idl r) else r' = r).
Proof.
  unfold detach. simpl. rewrite in_flat_map. split; intros [r [Hr H]]; exists r; (split; [exact Hr|]);
    fold (targeted et sl r) in *; fold (detach_names s et idl) in *; fold (detach_mem s et idl r) in *;
    destruct (targeted et sl r).
  - destruct (detach_mem s et idl r) eqn:M; [destruct H|]. destruct H as [H|[]]. split; [discriminate|]. subst r'. reflexivity.
  - destruct H as [H|[]]. auto.
  - destruct H as [H1 H2]. destruct (detach_mem s et idl r) eqn:M; [contradiction|]. left. subst r'. reflexivity.
  - left. auto.
Qed.

Lemma in_detach_names s et idl nm : In nm (detach_names s et idl) <-> exists i, In i idl /\ In (i, nm) (tab s et).
Proof.
  unfold detach_names, name_of. rewrite in_flat_map. split.
  - intros [i [H1 H2]]. apply filter_In in H1. destruct H1 as [H1 _]. apply in_zuniq in H1. destruct H1 as [H1 _].
    apply in_map_iff in H2. destruct H2 as [[j nm'] [H2 H3]]. simpl in H2. subst nm'. apply filter_In in H3. destruct H3 as [H3 H4].
    simpl in H4. apply Z.eqb_eq in H4. subst j. exists i. tauto.
  - intros [i [H1 H2]]. exists i. split.
    + apply filter_In. split; [apply in_zuniq; simpl; tauto|]. apply zin_true. unfold ids. change i with (fst (i, nm)). apply in_map, H2.
    + apply in_map_iff. exists (i, nm). split; [reflexivity|]. apply filter_In. split; [exact H2 | simpl; apply Z.eqb_refl].
Qed.

Lemma targeted_iff et sl r : targeted et sl r = true <-> gty r = et /\ selected sl (gid r).
Proof.
  unfold targeted, selected. rewrite andb_true_iff, Nat.eqb_eq. destruct sl; [rewrite zin_true|]; intuition.
Qed.

(* one targeted row: the members become members \ ids — for index based rows always, for reference-column rows when the
   reference values of the table are unique *)
Lemma row_detach s et idl r x :
  gty r = et -> (rc_null (grc r) = false -> uniq_names (tab s et)) ->
  (row_mem (tab s et) (with_mem r (detach_mem s et idl r)) x <-> row_mem (tab s et) r x /\ ~ In x idl).
Proof.
  intros Ht U. unfold row_mem, detach_mem, with_mem. simpl. destruct (rc_null (grc r)) eqn:N.
  - apply in_zdiff.
  - specialize (U eq_refl). split.
    + intros [nm [H1 H2]]. apply in_zdiff in H2. destruct H2 as [H2 H3]. split; [exists nm; tauto|].
      intros Hx. apply H3. apply in_detach_names. exists x. tauto.
    + intros [[nm [H1 H2]] Hx]. exists nm. split; [exact H1|]. apply in_zdiff. split; [exact H2|].
      intros H3. apply in_detach_names in H3. destruct H3 as [i [H3 H4]]. assert (i = x) by (eapply U; eauto). subst i. contradiction.
Qed.

Lemma detach_member s et idl sl g et' x :
  (forall r, In r (grp s) -> gty r = et -> rc_null (grc r) = false -> uniq_names (tab s et)) ->
  (member (detach s et idl sl) g et' x <-> member s g et' x /\ ~ (et' = et /\ selected sl g /\ In x idl)).
Proof.
  intros U. unfold member. change (tab (detach s et idl sl)) with (tab s). split.
  - intros [r' (H1 & H2 & H3 & H4)]. apply detach_in in H1. destruct H1 as [r [Hr H1]]. destruct (targeted et sl r) eqn:T.
    + destruct H1 as [_ H1]. subst r'. simpl in H2, H3. apply targeted_iff in T. destruct T as [T1 T2].
      assert (E : et' = et) by congruence. rewrite E in *. apply (row_detach s et idl r x T1) in H4; [|intros; eapply U; eauto].
      split; [exists r; tauto | tauto].
    + subst r'. split; [exists r; tauto|]. intros (E1 & E2 & _). subst et'.
      assert (targeted et sl r = true) by (apply targeted_iff; subst g; tauto). congruence.
  - intros [[r (H1 & H2 & H3 & H4)] Hn]. destruct (targeted et sl r) eqn:T.
    + pose proof T as T'. apply targeted_iff in T'. destruct T' as [T1 T2]. assert (E : et' = et) by congruence. rewrite E in *.
      assert (Hx : ~ In x idl) by (intros Hx; apply Hn; subst g; tauto).
      assert (R : row_mem (tab s et) (with_mem r (detach_mem s et idl r)) x).
      { apply row_detach; [exact T1 | intros; eapply U; eauto | tauto]. }
      exists (with_mem r (detach_mem s et idl r)). split; [|simpl; tauto].
      apply detach_in. exists r. split; [exact H1|]. rewrite T. split; [|reflexivity].
      apply (row_mem_nonempty _ _ _ R).
    + exists r. split; [|tauto]. apply detach_in. exists r. rewrite T. tauto.
Qed.

(* removing rows from an element table whose ids are members of no group leaves the membership alone *)
Lemma tab_set_tab s et v e : tab (set_tab s et v) e = if Nat.eqb e et then v else tab s e.
Proof. reflexivity. Qed.
Lemma member_drop_rows s et idl g et' x :
  (forall g x, member s g et x -> ~ In x idl) ->
  (member (set_tab s et (filter (fun p => negb (zin (fst p) idl)) (tab s et))) g et' x <-> member s g et' x).
Proof.
  intros Hfree. unfold member. change (grp (set_tab s et _)) with (grp s). rewrite tab_set_tab.
  destruct (Nat.eqb et' et) eqn:E; [|tauto]. apply Nat.eqb_eq in E. subst et'.
  split; intros [r (H1 & H2 & H3 & H4)]; exists r; (split; [exact H1|]; split; [exact H2|]; split; [exact H3|]).
  - unfold row_mem in *. destruct (rc_null (grc r)); [exact H4|]. destruct H4 as [nm [H4 H5]]. apply filter_In in H4. exists nm. tauto.
  - assert (Hx : ~ In x idl) by (apply (Hfree g x); exists r; tauto).
    unfold row_mem in *. destruct (rc_null (grc r)); [exact H4|]. destruct H4 as [nm [H4 H5]]. exists nm. split; [|exact H5].
    apply filter_In. split; [exact H4|]. simpl. apply negb_true_iff, zin_false, Hx.
Qed.

(* ------------------------------------------------------------------ drop_elements_simple *)
Lemma drop_simple_member s et idl s' :
  (forall r, In r (grp s) -> gty r = et -> rc_null (grc r) = false -> uniq_names (tab s et)) ->
  drop_simple s et idl = Ok s' ->
  (forall g et' x, member s' g et' x <-> member s g et' x /\ ~ (et' = et /\ In x idl)) /\
  (forall p, In p (tab s' et) <-> In p (tab s et) /\ ~ In (fst p) idl) /\
  (forall e, e <> et -> tab s' e = tab s e) /\ lsw s' = lsw s.
Proof.
  intros U. unfold drop_simple. destruct (forallb (fun i => zin i (ids s et)) idl); [|discriminate].
  intros E. inversion E; subst s'; clear E. split; [|split; [|split]].
  - intros g et' x. change (tab s et) with (tab (detach s et idl None) et). rewrite member_drop_rows.
    + rewrite (detach_member s et idl None g et' x U). simpl. tauto.
    + intros g0 x0 H. apply (detach_member s et idl None g0 et x0 U) in H. simpl in H. tauto.
  - intros p. rewrite tab_set_tab, Nat.eqb_refl, filter_In, negb_true_iff, zin_false. change (tab (detach s et idl None)) with (tab s). tauto.
  - intros e He. rewrite tab_set_tab. apply Nat.eqb_neq in He. rewrite He. reflexivity.
  - reflexivity.
Qed.

(* ------------------------------------------------------------------ drop_lines: the composite step *)
Definition line_switches (s : st) (idl : list Z) : list Z := map fst (filter (fun p => zin (snd p) idl) (lsw s)).

Lemma detach_other_type s et idl sl r : gty r <> et -> (In r (grp (detach s et idl sl)) <-> In r (grp s)).
Proof.
  intros Hne. rewrite detach_in. split.
  - intros [r0 [H0 H]]. destruct (targeted et sl r0) eqn:T; [|subst; exact H0].
    apply targeted_iff in T. destruct H as [_ H]. subst r. simpl in Hne. tauto.
  - intros H. exists r. split; [exact H|]. destruct (targeted et sl r) eqn:T; [|reflexivity]. apply targeted_iff in T. tauto.
Qed.
Lemma detach_nonempty s et idl sl :
  (forall r, In r (grp s) -> gmem r <> []) -> forall r, In r (grp (detach s et idl sl)) -> gmem r <> [].
Proof.
  intros H r Hr. apply detach_in in Hr. destruct Hr as [r0 [H0 H1]]. destruct (targeted et sl r0).
  - destruct H1 as [H1 H2]. subst r. exact H1.
  - subst r. apply H, H0.
Qed.
Lemma detach_name_rows s et idl sl r :
  In r (grp (detach s et idl sl)) -> exists r0, In r0 (grp s) /\ gty r0 = gty r /\ grc r0 = grc r.
Proof.
  intros Hr. apply detach_in in Hr. destruct Hr as [r0 [H0 H1]]. exists r0. destruct (targeted et sl r0).
  - destruct H1 as [_ H1]. subst r. auto.
  - subst r. auto.
Qed.

Definition drop_lines_core (s : st) (idl : list Z) : result st :=
  let i := map fst (filter (fun p => zin (snd p) idl) (lsw s)) in
  let s1 := detach s ET_SWITCH i None in
  let s1 := set_lsw (set_tab s1 ET_SWITCH (filter (fun p => negb (zin (fst p) i)) (tab s1 ET_SWITCH)))
                    (filter (fun p => negb (zin (fst p) i)) (lsw s1)) in
  let s2 := detach s1 ET_LINE idl None in
  if forallb (fun x => zin x (ids s ET_LINE)) idl
  then Ok (set_tab s2 ET_LINE (filter (fun p => negb (zin (fst p) idl)) (tab s2 ET_LINE)))
  else Err "KeyError".
Lemma drop_lines_unfold s idl : drop_lines s idl = match idl with [] => Ok s | _ => drop_lines_core s idl end.
Proof. destruct idl; reflexivity. Qed.

Definition drop_lines_spec (s : st) (idl : list Z) (s' : st) : Prop :=
  (* every group loses exactly the dropped lines and the line switches at them *)
  (forall g et x, member s' g et x <->
       member s g et x /\ ~ (et = ET_LINE /\ In x idl) /\ ~ (et = ET_SWITCH /\ In x (line_switches s idl))) /\
  (* the tables lose exactly these rows *)
  (forall p, In p (tab s' ET_LINE) <-> In p (tab s ET_LINE) /\ ~ In (fst p) idl) /\
  (forall p, In p (tab s' ET_SWITCH) <-> In p (tab s ET_SWITCH) /\ ~ In (fst p) (line_switches s idl)) /\
  (forall p, In p (lsw s') <-> In p (lsw s) /\ ~ In (fst p) (line_switches s idl)) /\
  (forall e, e <> ET_LINE -> e <> ET_SWITCH -> tab s' e = tab s e) /\
  (* rows of other element types are untouched, no row is left without members *)
  (forall r, gty r <> ET_LINE -> gty r <> ET_SWITCH -> (In r (grp s') <-> In r (grp s))) /\
  ((forall r, In r (grp s) -> gmem r <> []) -> forall r, In r (grp s') -> gmem r <> []).

Lemma drop_lines_core_member s idl s' :
  (forall r, In r (grp s) -> rc_null (grc r) = false -> uniq_names (tab s (gty r))) ->
  drop_lines_core s idl = Ok s' -> drop_lines_spec s idl s'.
Proof.
  intros U. unfold drop_lines_core. fold (line_switches s idl). set (i := line_switches s idl).
  destruct (forallb (fun x => zin x (ids s ET_LINE)) idl); [|discriminate].
  set (s1 := detach s ET_SWITCH i None).
  set (s1' := set_lsw (set_tab s1 ET_SWITCH (filter (fun p => negb (zin (fst p) i)) (tab s1 ET_SWITCH)))
                      (filter (fun p => negb (zin (fst p) i)) (lsw s1))).
  set (s2 := detach s1' ET_LINE idl None).
  intros E. assert (E' : s' = set_tab s2 ET_LINE (filter (fun p => negb (zin (fst p) idl)) (tab s2 ET_LINE))) by congruence.
  clear E. subst s'.
  assert (U1 : forall r, In r (grp s) -> gty r = ET_SWITCH -> rc_null (grc r) = false -> uniq_names (tab s ET_SWITCH)).
  { intros r H1 H2 H3. rewrite <- H2. apply U; assumption. }
  assert (M1 : forall g et x, member s1 g et x <-> member s g et x /\ ~ (et = ET_SWITCH /\ In x i)).
  { intros g et x. unfold s1. rewrite (detach_member s ET_SWITCH i None g et x U1). simpl. tauto. }
  assert (M1' : forall g et x, member s1' g et x <-> member s1 g et x).
  { intros g et x. change (member s1' g et x) with
      (member (set_tab s1 ET_SWITCH (filter (fun p => negb (zin (fst p) i)) (tab s1 ET_SWITCH))) g et x).
    apply member_drop_rows. intros g0 x0 H. apply M1 in H. tauto. }
  assert (U2 : forall r, In r (grp s1') -> gty r = ET_LINE -> rc_null (grc r) = false -> uniq_names (tab s1' ET_LINE)).
  { intros r H1 H2 H3. change (grp s1') with (grp (detach s ET_SWITCH i None)) in H1. apply detach_name_rows in H1.
    destruct H1 as [r0 (H4 & H5 & H6)]. change (tab s1' ET_LINE) with (tab s ET_LINE). rewrite <- H2, <- H5. apply U; [exact H4 | congruence]. }
  assert (M2 : forall g et x, member s2 g et x <-> member s1' g et x /\ ~ (et = ET_LINE /\ In x idl)).
  { intros g et x. unfold s2. rewrite (detach_member s1' ET_LINE idl None g et x U2). simpl. tauto. }
  unfold drop_lines_spec. split; [|split; [|split; [|split; [|split; [|split]]]]].
  - intros g et x. rewrite member_drop_rows; [|intros g0 x0 H; apply M2 in H; tauto].
    rewrite M2, M1', M1. tauto.
  - intros p. rewrite tab_set_tab, Nat.eqb_refl, filter_In, negb_true_iff, zin_false. change (tab s2 ET_LINE) with (tab s ET_LINE). tauto.
  - intros p. change (tab (set_tab s2 ET_LINE (filter (fun p => negb (zin (fst p) idl)) (tab s2 ET_LINE))) ET_SWITCH)
      with (filter (fun p => negb (zin (fst p) i)) (tab s ET_SWITCH)).
    rewrite filter_In, negb_true_iff, zin_false. tauto.
  - intros p. change (lsw (set_tab s2 ET_LINE (filter (fun p => negb (zin (fst p) idl)) (tab s2 ET_LINE))))
      with (filter (fun p => negb (zin (fst p) i)) (lsw s)).
    rewrite filter_In, negb_true_iff, zin_false. tauto.
  - intros e H1 H2. rewrite tab_set_tab. apply Nat.eqb_neq in H1. rewrite H1. unfold s2. change (tab (detach s1' ET_LINE idl None) e) with (tab s1' e).
    unfold s1'. change (tab (set_lsw ?a ?b)) with (tab a). rewrite tab_set_tab. apply Nat.eqb_neq in H2. rewrite H2. reflexivity.
  - intros r H1 H2. change (grp (set_tab s2 ET_LINE (filter (fun p => negb (zin (fst p) idl)) (tab s2 ET_LINE)))) with (grp s2).
    unfold s2. rewrite (detach_other_type s1' ET_LINE idl None r H1). change (grp s1') with (grp (detach s ET_SWITCH i None)).
    apply detach_other_type, H2.
  - intros H r Hr. change (grp (set_tab s2 ET_LINE (filter (fun p => negb (zin (fst p) idl)) (tab s2 ET_LINE)))) with (grp s2) in Hr.
    unfold s2 in Hr. revert r Hr. apply detach_nonempty. change (grp s1') with (grp (detach s ET_SWITCH i None)).
    apply detach_nonempty, H.
Qed.

(* drop_lines(net, lines): every group loses exactly the dropped lines (as line members) and the line switches at them
   (as switch members); the line / switch tables lose exactly these rows; nothing else changes *)
Lemma drop_lines_member s idl s' :
  (forall r, In r (grp s) -> rc_null (grc r) = false -> uniq_names (tab s (gty r))) ->
  drop_lines s idl = Ok s' -> drop_lines_spec s idl s'.
Proof.
  intros U. rewrite drop_lines_unfold. destruct idl as [|i0 it]; [|apply drop_lines_core_member, U].
  intros E. inversion E; subst s'; clear E. unfold drop_lines_spec, line_switches. simpl.
  assert (F : filter (fun p : Z * Z => false) (lsw s) = []) by (induction (lsw s); simpl; auto).
  rewrite F. simpl. repeat split; try tauto; intros; tauto.
Qed.

(* ------------------------------------------------------------------ reindex_elements commutes with the set model *)
Definition remap (lk : list (Z * Z)) (i : Z) : Z := match lookup lk i with Some v => v | None => i end.
(* the renaming that reindex_elements(net, et, lookup) applies: rows of the table that are keys of the lookup move *)
Definition rho (s : st) (et : nat) (lk : list (Z * Z)) (i : Z) : Z :=
  if zin i (filter (fun i => zin i (map fst lk)) (ids s et)) then remap lk i else i.

Lemma lookup_fold lk k acc :
  fold_left (fun a kv => if fst kv =? k then Some (snd kv) else a) lk acc =
  match lookup lk k with Some v => Some v | None => acc end.
Proof.
  unfold lookup. revert acc. induction lk as [|kv t IH]; intros acc; simpl; [reflexivity|].
  rewrite IH. rewrite (IH (if fst kv =? k then Some (snd kv) else None)).
  destruct (fold_left _ t None); [reflexivity|]. destruct (fst kv =? k); reflexivity.
Qed.
Lemma lookup_none lk k : ~ In k (map fst lk) -> lookup lk k = None.
Proof.
  induction lk as [|kv t IH]; intros H; [reflexivity|]. unfold lookup. simpl. rewrite lookup_fold. simpl in H.
  destruct (fst kv =? k) eqn:E; [apply Z.eqb_eq in E; exfalso; apply H; left; exact E|].
  rewrite IH; [reflexivity|]. intros X. apply H. right. exact X.
Qed.
Lemma rho_ids s et lk i : In i (ids s et) -> rho s et lk i = remap lk i.
Proof.
  intros Hi. unfold rho. destruct (zin i (filter (fun i => zin i (map fst lk)) (ids s et))) eqn:Z; [reflexivity|].
  apply zin_false in Z. unfold remap. rewrite lookup_none; [reflexivity|]. intros H. apply Z. apply filter_In. split; [exact Hi | apply zin_true, H].
Qed.
Lemma rho_nil s et i : rho s et [] i = i.
Proof. unfold rho. destruct (zin i _); reflexivity. Qed.
Lemma rho_notab s et lk i : tab s et = [] -> rho s et lk i = i.
Proof. intros H. unfold rho, ids. rewrite H. reflexivity. Qed.

Definition reindex_spec (s : st) (et : nat) (lk : list (Z * Z)) (s' : st) : Prop :=
  (* the members of every group of this element type are the images of the old members, other types keep theirs *)
  (forall g et' x', member s' g et' x' <-> exists x, member s g et' x /\ x' = if Nat.eqb et' et then rho s et lk x else x) /\
  (* the table index is renamed by the same function, which is the lookup on every existing row *)
  tab s' et = map (fun p => (rho s et lk (fst p), snd p)) (tab s et) /\
  (forall e, e <> et -> tab s' e = tab s e) /\
  (forall x, In x (ids s et) -> rho s et lk x = remap lk x).

Lemma reindex_spec_id s et lk : (forall i, rho s et lk i = i) -> reindex_spec s et lk s.
Proof.
  intros Hid. split; [|split; [|split]].
  - intros g et' x'. split.
    + intros H. exists x'. split; [exact H|]. destruct (Nat.eqb et' et); [rewrite Hid|]; reflexivity.
    + intros [x [H E]]. destruct (Nat.eqb et' et); [rewrite Hid in E|]; subst; exact H.
  - rewrite <- (map_id (tab s et)) at 1. apply map_ext. intros [a b]. simpl. rewrite Hid. reflexivity.
  - reflexivity.
  - intros x Hx. apply rho_ids, Hx.
Qed.

Lemma reindex_member s et lk s' : reindex s et lk = Ok s' -> reindex_spec s et lk s'.
Proof.
  unfold reindex. destruct (tab s et) as [|p0 pt] eqn:ET.
  { intros E. inversion E; subst s'. apply reindex_spec_id. intros i. apply rho_notab, ET. }
  destruct lk as [|l0 lt] eqn:EL.
  { intros E. inversion E; subst s'. apply reindex_spec_id. intros i. apply rho_nil. }
  rewrite <- EL, <- ET. clear EL l0 lt ET p0 pt.
  fold (remap lk). intros E. inversion E; subst s'; clear E.
  set (F := fun r => if Nat.eqb (gty r) et && rc_null (grc r)
                     then {| gid := gid r; gty := gty r; gmem := map (rho s et lk) (gmem r); grc := grc r |} else r).
  set (T := map (fun p => (remap lk (fst p), snd p)) (tab s et)).
  assert (HT : T = map (fun p => (rho s et lk (fst p), snd p)) (tab s et)).
  { unfold T. apply map_ext_in. intros [a b] Hp. simpl. rewrite rho_ids; [reflexivity|]. unfold ids. change a with (fst (a, b)). apply in_map, Hp. }
  assert (HF : forall r, gid (F r) = gid r /\ gty (F r) = gty r /\ grc (F r) = grc r).
  { intros r. unfold F. destruct (Nat.eqb (gty r) et && rc_null (grc r)); auto. }
  assert (HG : forall r', In r' (map F (grp s)) <-> exists r, In r (grp s) /\ r' = F r).
  { intros r'. rewrite in_map_iff. split; intros [r H]; exists r; intuition. }
  split; [|split; [|split]].
  - intros g et' x'. unfold member. cbn [grp set_tab set_grp]. rewrite tab_set_tab. cbn [tab set_grp].
    change (map (fun p => (match lookup lk (fst p) with Some v => v | None => fst p end, snd p)) (tab s et)) with T.
    change (fun i => if zin i (filter (fun i0 => zin i0 (map fst lk)) (ids s et)) then remap lk i else i) with (rho s et lk).
    fold F. destruct (Nat.eqb et' et) eqn:Ee.
    + apply Nat.eqb_eq in Ee. subst et'. split.
      * intros [r' (H1 & H2 & H3 & H4)]. apply HG in H1. destruct H1 as [r [Hr E]]. subst r'. destruct (HF r) as (F1 & F2 & F3).
        rewrite F1 in H2. rewrite F2 in H3. unfold row_mem in H4. rewrite F3 in H4. destruct (rc_null (grc r)) eqn:N.
        -- unfold F in H4. rewrite H3, Nat.eqb_refl, N in H4. simpl in H4. apply in_map_iff in H4. destruct H4 as [x [E Hx]].
           exists x. split; [|symmetry; exact E]. exists r. unfold row_mem. rewrite N. tauto.
        -- destruct H4 as [nm [H4 H5]]. rewrite HT in H4. apply in_map_iff in H4. destruct H4 as [[a b] [E Hp]]. simpl in E. inversion E; subst.
           exists a. split; [|reflexivity]. exists r. unfold row_mem. rewrite N. split; [exact Hr|]. split; [reflexivity|]. split; [reflexivity|].
           exists nm. split; [exact Hp|]. unfold F in H5. rewrite Nat.eqb_refl, N in H5. exact H5.
      * intros [x [[r (H1 & H2 & H3 & H4)] E]]. subst x'. exists (F r). destruct (HF r) as (F1 & F2 & F3).
        split; [apply HG; exists r; tauto|]. rewrite F1, F2. split; [exact H2|]. split; [exact H3|].
        unfold row_mem in *. rewrite F3. destruct (rc_null (grc r)) eqn:N.
        -- unfold F. rewrite H3, Nat.eqb_refl, N. simpl. apply in_map, H4.
        -- destruct H4 as [nm [H4 H5]]. exists nm. split.
           ++ rewrite HT. apply in_map_iff. exists (x, nm). split; [reflexivity | exact H4].
           ++ unfold F. rewrite H3, Nat.eqb_refl, N. exact H5.
    + assert (HFo : forall r, gty r = et' -> F r = r).
      { intros r Hr. unfold F. rewrite Hr, Ee. reflexivity. }
      split.
      * intros [r' (H1 & H2 & H3 & H4)]. apply HG in H1. destruct H1 as [r [Hr E]]. subst r'. destruct (HF r) as (F1 & F2 & F3).
        rewrite F2 in H3. rewrite (HFo r H3) in *. exists x'. split; [exists r; tauto | reflexivity].
      * intros [x [[r (H1 & H2 & H3 & H4)] E]]. subst x'. exists r. split; [|tauto]. apply HG. exists r. split; [exact H1|]. symmetry. apply HFo, H3.
  - rewrite tab_set_tab, Nat.eqb_refl. exact HT.
  - intros e He. rewrite tab_set_tab. apply Nat.eqb_neq in He. rewrite He. reflexivity.
  - intros x Hx. apply rho_ids, Hx.
Qed.

(* the hypotheses are satisfiable on a non-trivial state: a line group, a switch group (index based) and a name based load
   group; line 5 carries the line switches 5 and 9 *)
Definition s_ex : st :=
  {| grp := [{| gid := 0; gty := ET_LINE; gmem := [5; 3]; grc := RNone |};
             {| gid := 0; gty := ET_SWITCH; gmem := [5; 9; 20]; grc := RNaN |};
             {| gid := 1; gty := ET_SWITCH; gmem := [9]; grc := RNaN |};
             {| gid := 1; gty := 0%nat; gmem := [1]; grc := RName |}];
     tab := mk_tab [[(4, 0); (2, 1); (7, 2)]; []; [(5, 0); (3, 1)]; [(5, 0); (9, 1); (20, 2)]];
     lsw := [(5, 5); (9, 5)] |}.
Lemma drop_lines_nonvacuous :
  exists s', drop_lines s_ex [5] = Ok s' /\ line_switches s_ex [5] = [5; 9] /\
             map (fun r => (gid r, gty r, gmem r)) (grp s') = [(0, ET_LINE, [3]); (0, ET_SWITCH, [20]); (1, 0%nat, [1])] /\
             members_of s' 1 0%nat = Ok [2].
Proof. eexists. split; [vm_compute; reflexivity|]. vm_compute. repeat split. Qed.
Lemma reindex_nonvacuous :
  exists s', reindex s_ex ET_SWITCH [(9, 30); (5, 31)] = Ok s' /\ members_of s' 0 ET_SWITCH = Ok [31; 30; 20] /\
             map (rho s_ex ET_SWITCH [(9, 30); (5, 31)]) [5; 9; 20; 77] = [31; 30; 20; 77].
Proof. eexists. split; [vm_compute; reflexivity|]. vm_compute. repeat split. Qed.

(* ------------------------------------------------------------------ the same statements under the boolean guard G27_names *)
Lemma G27_refcols_uniq s : G27_refcols s = true -> forall r, In r (grp s) -> rc_null (grc r) = false -> uniq_names (tab s (gty r)).
Proof.
  unfold G27_refcols. rewrite forallb_forall. intros H r Hr N. specialize (H r Hr). rewrite N in H. apply G27_names_uniq, H.
Qed.
Lemma detach_member_b s et idl sl g et' x :
  G27_refcols s = true ->
  (member (detach s et idl sl) g et' x <-> member s g et' x /\ ~ (et' = et /\ selected sl g /\ In x idl)).
Proof. intros G. apply detach_member. intros r H1 H2 H3. rewrite <- H2. eapply G27_refcols_uniq; eauto. Qed.
Lemma drop_simple_member_b s et idl s' :
  G27_refcols s = true -> drop_simple s et idl = Ok s' ->
  (forall g et' x, member s' g et' x <-> member s g et' x /\ ~ (et' = et /\ In x idl)) /\
  (forall p, In p (tab s' et) <-> In p (tab s et) /\ ~ In (fst p) idl) /\
  (forall e, e <> et -> tab s' e = tab s e) /\ lsw s' = lsw s.
Proof. intros G. apply drop_simple_member. intros r H1 H2 H3. rewrite <- H2. eapply G27_refcols_uniq; eauto. Qed.
Lemma drop_lines_member_b s idl s' : G27_refcols s = true -> drop_lines s idl = Ok s' -> drop_lines_spec s idl s'.
Proof. intros G. apply drop_lines_member, G27_refcols_uniq, G. Qed.
Lemma refcols_nonvacuous : G27_refcols s_ex = true /\ G27_refcols s_w2 = false.
Proof. split; vm_compute; reflexivity. Qed.
