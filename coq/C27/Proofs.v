(* C27 — refinement of the group table operations to set operations on the members *)
From Coq Require Import ZArith List Bool String Lia.
From PPV Require Import C27.Model.
Import ListNotations.
Open Scope Z_scope.

Lemma zin_true x l : zin x l = true <-> In x l.
Proof.
  unfold zin. rewrite existsb_exists. split.
  - intros [y [H1 H2]]. apply Z.eqb_eq in H2. subst. exact H1.
  - intros H. exists x. split; [exact H | apply Z.eqb_refl].
Qed.
Lemma zin_false x l : zin x l = false <-> ~ In x l.
Proof. rewrite <- zin_true. destruct (zin x l); split; congruence. Qed.
Lemma in_zinsert x y l : In x (zinsert y l) <-> x = y \/ In x l.
Proof.
  induction l as [|z t IH]; simpl; [intuition|].
  destruct (y <? z); simpl; [intuition|]. destruct (y =? z) eqn:E; simpl.
  - apply Z.eqb_eq in E. subst. intuition.
  - rewrite IH. intuition.
Qed.
Lemma in_zsort_uniq x l : In x (zsort_uniq l) <-> In x l.
Proof. induction l as [|y t IH]; simpl; [tauto|]. unfold zsort_uniq in *. simpl. rewrite in_zinsert, IH. intuition. Qed.
Lemma in_zuniq x seen l : In x (zuniq seen l) <-> In x l /\ ~ In x seen.
Proof.
  revert seen. induction l as [|y t IH]; intros seen; simpl; [tauto|].
  destruct (zin y seen) eqn:E.
  - apply zin_true in E. rewrite IH. split; [tauto|]. intros [[H|H] Hn]; [subst; contradiction | tauto].
  - apply zin_false in E. simpl. rewrite IH. simpl. split.
    + intros [H|[H1 H2]]; [subst; tauto | tauto].
    + intros [[H|H] Hn]; [left; exact H|]. destruct (Z.eq_dec y x); [left; exact e | right; split; [exact H|]; intros [?|?]; tauto].
Qed.
(* pd.Index(l).difference(d) is the set difference *)
Lemma in_zdiff x l d : In x (zdiff l d) <-> In x l /\ ~ In x d.
Proof.
  unfold zdiff. destruct d as [|d0 d'].
  - rewrite in_zuniq. simpl. tauto.
  - rewrite in_zsort_uniq, filter_In, negb_true_iff, zin_false. tauto.
Qed.

(* ------------------------------------------------------------------ attach = union *)
Definition sel (g : Z) (et : nat) (r : grow) : bool := (gid r =? g) && Nat.eqb (gty r) et.
Lemma filter_map_commute (P : grow -> bool) (f : grow -> grow) l :
  (forall r, P (f r) = P r) -> filter P (map f l) = map f (filter P l).
Proof.
  intros H. induction l as [|r t IH]; simpl; [reflexivity|]. rewrite H. destruct (P r); simpl; rewrite IH; reflexivity.
Qed.
Lemma sel_other g et g' et' r : (g', et') <> (g, et) -> sel g et r = true -> sel g' et' r = false.
Proof.
  unfold sel. intros Hne H. apply andb_true_iff in H. destruct H as [H1 H2]. apply Z.eqb_eq in H1. apply Nat.eqb_eq in H2.
  destruct (gid r =? g') eqn:E1; [|reflexivity]. destruct (Nat.eqb (gty r) et') eqn:E2; [|reflexivity].
  apply Z.eqb_eq in E1. apply Nat.eqb_eq in E2. exfalso. apply Hne. congruence.
Qed.

(* attach_to_group onto the existing index row of (g, et): the members become the union; every other (group, type) row set
   is untouched *)
Lemma attach_union s g et elm r0 s' :
  rows_of s g et = [r0] -> rc_null (grc r0) = true -> attach s g et elm = Ok s' ->
  (exists r1, rows_of s' g et = [r1] /\ grc r1 = grc r0 /\ forall x, In x (gmem r1) <-> In x (gmem r0) \/ In x elm) /\
  (forall g' et', (g', et') <> (g, et) -> rows_of s' g' et' = rows_of s g' et') /\ tab s' = tab s /\
  (forall x, In x elm -> In x (ids s et)).
Proof.
  intros Hrow Hrc. unfold attach, attach_gen. destruct (zin g (map gid (grp s))); simpl; [|discriminate].
  rewrite Hrow, Hrc. destruct (exist_ok s et elm false) eqn:Ex; simpl; [|discriminate].
  intros E. inversion E; subst s'; clear E.
  assert (Hex : forall x, In x elm -> In x (ids s et)).
  { intros x Hx. unfold exist_ok in Ex. rewrite forallb_forall in Ex. apply zin_true, Ex, Hx. }
  set (f := fun r => if (gid r =? g) && Nat.eqb (gty r) et
                     then {| gid := gid r; gty := gty r; gmem := gmem r ++ zdiff elm (gmem r); grc := grc r |} else r).
  assert (Hsel : forall g' et' r, sel g' et' (f r) = sel g' et' r).
  { intros g' et' r. unfold f, sel. destruct ((gid r =? g) && Nat.eqb (gty r) et); reflexivity. }
  split; [|split; [|split; [reflexivity | exact Hex]]].
  - unfold rows_of in *. simpl. fold (sel g et) in *. fold f. rewrite filter_map_commute by apply Hsel. rewrite Hrow. simpl.
    assert (S0 : sel g et r0 = true).
    { assert (In r0 (filter (sel g et) (grp s))) by (rewrite Hrow; left; reflexivity). apply filter_In in H. apply H. }
    unfold f. unfold sel in S0. rewrite S0. eexists. split; [reflexivity|]. simpl. split; [reflexivity|].
    intros x. rewrite in_app_iff, in_zdiff. destruct (in_dec Z.eq_dec x (gmem r0)); tauto.
  - intros g' et' Hne. unfold rows_of. simpl. fold (sel g' et'). fold f. rewrite filter_map_commute by apply Hsel.
    induction (grp s) as [|r t IH]; simpl; [reflexivity|]. destruct (sel g' et' r) eqn:E; simpl; [|exact IH]. rewrite IH. f_equal.
    unfold f. destruct ((gid r =? g) && Nat.eqb (gty r) et) eqn:E2; [|reflexivity].
    rewrite (sel_other g et g' et' r Hne E2) in E. discriminate.
Qed.

(* attach_to_group when (g, et) has no row yet: a row with exactly the given members appears *)
Lemma attach_new_row s g et elm s' :
  rows_of s g et = [] -> attach s g et elm = Ok s' ->
  exists r1, rows_of s' g et = [r1] /\ gmem r1 = elm /\ rc_null (grc r1) = true /\ forall x, In x elm -> In x (ids s et).
Proof.
  intros Hrow. unfold attach, attach_gen. destruct (zin g (map gid (grp s))); simpl; [|discriminate]. rewrite Hrow.
  destruct (exist_ok s et elm false) eqn:Ex; [|discriminate]. intros E. inversion E; subst s'; clear E.
  unfold rows_of in *. simpl. unfold add_rows. rewrite filter_app. simpl.
  assert (Hold : forall c l, filter (fun r => (gid r =? g) && Nat.eqb (gty r) et) l = [] ->
            filter (fun r => (gid r =? g) && Nat.eqb (gty r) et)
                   (map (fun r => {| gid := gid r; gty := gty r; gmem := gmem r; grc := c |}) l) = []).
  { intros c. induction l as [|r t IH]; simpl; [reflexivity|].
    destruct ((gid r =? g) && Nat.eqb (gty r) et); [discriminate|exact IH]. }
  assert (H0 : filter (fun r => (gid r =? g) && Nat.eqb (gty r) et) (uniform (grp s)) = []).
  { unfold uniform. destruct (grp s) as [|r0 t] eqn:Eg; [reflexivity|].
    destruct (forallb (fun r => rc_null (grc r)) (r0 :: t)); [apply Hold, Hrow | exact Hrow]. }
  rewrite H0. simpl. rewrite Z.eqb_refl, Nat.eqb_refl. simpl. eexists. split; [reflexivity|]. simpl. split; [reflexivity|]. split.
  - destruct (grp s); reflexivity.
  - intros x Hx. unfold exist_ok in Ex. rewrite forallb_forall in Ex. apply zin_true, Ex, Hx.
Qed.

(* ------------------------------------------------------------------ detach = difference, empty rows disappear *)
Definition targeted (et : nat) (sl : option (list Z)) (r : grow) : bool :=
  Nat.eqb (gty r) et && match sl with None => true | Some l => zin (gid r) l end.
Lemma detach_rows s et idl sl r' :
  In r' (grp (detach s et idl sl)) ->
  exists r, In r (grp s) /\ gid r' = gid r /\ gty r' = gty r /\ grc r' = grc r /\
    (targeted et sl r = false -> r' = r) /\
    (targeted et sl r = true -> gmem r' <> [] /\
       (rc_null (grc r) = true -> forall x, In x (gmem r') <-> In x (gmem r) /\ ~ In x idl)).
Proof.
  unfold detach. simpl. rewrite in_flat_map. intros [r [Hr H]]. exists r. split; [exact Hr|]. fold (targeted et sl r) in H.
  destruct (targeted et sl r) eqn:T.
  - remember (if rc_null (grc r) then zdiff (gmem r) idl
               else zdiff (gmem r) (flat_map (name_of s et) (filter (fun i => zin i (ids s et)) (zuniq [] idl)))) as m eqn:M.
    destruct m as [|m0 mt]; [destruct H|]. destruct H as [H|[]]. subst r'. simpl.
    split; [reflexivity|]. split; [reflexivity|]. split; [reflexivity|]. split; [discriminate|]. intros _. split; [discriminate|].
    intros Hn y. rewrite Hn in M. change (In y (m0 :: mt) <-> In y (gmem r) /\ ~ In y idl). rewrite M. apply in_zdiff.
  - destruct H as [H|[]]. subst r'. repeat split; auto; discriminate.
Qed.
Lemma detach_keeps s et idl sl r :
  In r (grp s) ->
  (targeted et sl r = false -> In r (grp (detach s et idl sl))) /\
  (targeted et sl r = true -> rc_null (grc r) = true -> (exists x, In x (gmem r) /\ ~ In x idl) ->
     exists r', In r' (grp (detach s et idl sl)) /\ gid r' = gid r /\ gty r' = gty r).
Proof.
  intros Hr. unfold detach. simpl. split.
  - intros T. apply in_flat_map. exists r. split; [exact Hr|]. fold (targeted et sl r). rewrite T. left. reflexivity.
  - intros T N [x [H1 H2]]. fold (targeted et sl). 
    assert (In x (zdiff (gmem r) idl)) by (apply in_zdiff; tauto).
    destruct (zdiff (gmem r) idl) eqn:M; [destruct H|].
    eexists. split.
    + apply in_flat_map. exists r. split; [exact Hr|]. fold (targeted et sl r). rewrite T, N, M. left. reflexivity.
    + split; reflexivity.
Qed.

(* ------------------------------------------------------------------ witnesses *)
(* the row that the old rule corrupted is handled like any index based row now *)
Definition s_w1_ : st :=
  {| grp := [{| gid := 0; gty := 0%nat; gmem := [4]; grc := RNone |}; {| gid := 1; gty := 0%nat; gmem := [7]; grc := RNaN |}];
     tab := mk_tab [[(4, 0); (7, 1); (2, 2)]]; lsw := [] |}.
Lemma attach_nan_row_now_union : exists s', attach s_w1_ 1 0%nat [2] = Ok s' /\ members_of s' 1 0%nat = Ok [7; 2].
Proof. eexists. split; vm_compute; reflexivity. Qed.
Definition s_w1 : st :=
  {| grp := [{| gid := 0; gty := 0%nat; gmem := [4]; grc := RNone |}; {| gid := 1; gty := 0%nat; gmem := [7]; grc := RNaN |}];
     tab := mk_tab [[(4, 0); (7, 1); (2, 2)]]; lsw := [] |}.
Lemma attach_nan_refuted :
  exists s g et elm s', attach_old s g et elm = Ok s' /\ members_of s g et = Ok [7] /\ members_of s' g et = Err "ValueError".
Proof. exists s_w1, 1, 0%nat, [2]. eexists. split; [vm_compute; reflexivity | split; vm_compute; reflexivity]. Qed.
(* before the existence check: a non-existing index became a member of an existing row *)
Lemma attach_unchecked_refuted :
  exists s g et elm s', attach_unchecked s g et elm = Ok s' /\ members_of s' g et = Ok [4; 88] /\ ~ In 88 (ids s' et) /\
                        attach s g et elm = Err "UserWarning".
Proof.
  exists {| grp := [{| gid := 0; gty := 0%nat; gmem := [4]; grc := RNone |}]; tab := mk_tab [[(4, 0); (7, 1)]]; lsw := [] |}, 0, 0%nat, [88].
  eexists. split; [vm_compute; reflexivity|]. split; [vm_compute; reflexivity|]. split; [|vm_compute; reflexivity].
  vm_compute. intros [H|[H|[]]]; discriminate.
Qed.
(* two loads (4 and 2) carry the same name 0; the group is {name 0}; detaching load 4 also removes load 2 *)
Definition s_w2 : st :=
  {| grp := [{| gid := 0; gty := 0%nat; gmem := [0; 1]; grc := RName |}]; tab := mk_tab [[(4, 0); (2, 0); (7, 1)]]; lsw := [] |}.
Lemma detach_refcol_refuted :
  exists s et idl, members_of s 0 et = Ok [4; 2; 7] /\ members_of (detach s et idl None) 0 et = Ok [7].
Proof. exists s_w2, 0%nat, [4]. split; vm_compute; reflexivity. Qed.
