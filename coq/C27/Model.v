(* C27 — net.group as a table and the group operations of pandapower/groups.py
     attach_to_group :108-190, detach_from_groups :225-263, group_element_index :322-351, group_row :354,
     create/group_create.py create_group :23-76, create/_utils.py _check_elements_existence :66,
     toolbox/grid_modification.py drop_elements_simple :663, toolbox/data_modification.py reindex_elements :279-285
   AS THEY ARE in /repo.  Element tables are (index, reference value) lists; names are integer codes.
   reference_column of a row is None, NaN or a column name: rows appended to a non-empty net.group get NaN
   (pandas concat), and attach_to_group compares `existing_rc != rc` (NaN != None is True).
   Executable definitions only. *)
From Coq Require Import ZArith List Bool String.
From PPV Require Import Base.Out.
Import ListNotations.
Open Scope Z_scope.

Inductive rc := RNone | RNaN | RName.
Definition rc_null (r : rc) : bool := match r with RName => false | _ => true end.   (* rc is None or pd.isnull(rc) *)
Record grow := { gid : Z; gty : nat; gmem : list Z; grc : rc }.
(* tab et = [(index, name)]; element types: 0 load, 1 sgen, 2 line, 3 switch; lsw = the line switches (switch index, line index) *)
Record st := { grp : list grow; tab : nat -> list (Z * Z); lsw : list (Z * Z) }.

Inductive result (A : Type) := Ok (a : A) | Err (s : string).
Arguments Ok {A} a. Arguments Err {A} s.

Definition zin (x : Z) (l : list Z) : bool := existsb (Z.eqb x) l.
Fixpoint zinsert (x : Z) (l : list Z) : list Z :=
  match l with [] => [x] | y :: t => if x <? y then x :: l else if x =? y then l else y :: zinsert x t end.
Definition zsort_uniq (l : list Z) : list Z := fold_right zinsert [] l.
Fixpoint zuniq (seen l : list Z) : list Z :=
  match l with [] => [] | x :: t => if zin x seen then zuniq seen t else x :: zuniq (x :: seen) t end.
(* pd.Index(l).difference(d) *)
Definition zdiff (l d : list Z) : list Z :=
  match d with [] => zuniq [] l | _ => zsort_uniq (filter (fun x => negb (zin x d)) l) end.
Definition garbage : Z := -1.       (* a generated "<et>_<idx>_<uuid>" string inside element_index *)

Definition ids (s : st) (et : nat) : list Z := map fst (tab s et).
Definition names (s : st) (et : nat) : list Z := map snd (tab s et).
Definition set_grp (s : st) (g : list grow) : st := {| grp := g; tab := tab s; lsw := lsw s |}.
Definition set_tab (s : st) (et : nat) (v : list (Z * Z)) : st :=
  {| grp := grp s; tab := fun e => if Nat.eqb e et then v else tab s e; lsw := lsw s |}.
Definition set_lsw (s : st) (v : list (Z * Z)) : st := {| grp := grp s; tab := tab s; lsw := v |}.

(* _set_multiple_entries on net.group (create/_utils.py:371 drops the all-null columns of the new rows before the concat):
   null reference_column rows appended to a non-empty table carry NaN, NaN of older rows is turned into None *)
(* an all-null object column comes out of the concat uniformly filled with the null kind (None / NaN) of its FIRST row;
   with a name somewhere in it the old values are kept *)
Definition uniform (g : list grow) : list grow :=
  match g with
  | [] => g
  | r0 :: _ => if forallb (fun r => rc_null (grc r)) g
               then map (fun r => {| gid := gid r; gty := gty r; gmem := gmem r; grc := grc r0 |}) g else g
  end.
Definition add_rows (g : list grow) (new : list grow) : list grow :=
  uniform g ++
  map (fun r => {| gid := gid r; gty := gty r; gmem := gmem r;
                   grc := match grc r, g with RName, _ => RName | _, [] => RNone | _, _ => RNaN end |}) new.

(* _check_elements_existence for one element type *)
Definition exist_ok (s : st) (et : nat) (mem : list Z) (byname : bool) : bool :=
  forallb (fun x => zin x (if byname then names s et else ids s et)) mem.

(* create_group(net, [et], [mem], reference_columns, index) *)
Definition create_group (s : st) (g : Z) (et : nat) (mem : list Z) (byname : bool) : result st :=
  if negb (exist_ok s et mem byname) || zin g (map gid (grp s)) then Err "UserWarning"
  else Ok (set_grp s (add_rows (grp s) [{| gid := g; gty := et; gmem := mem; grc := if byname then RName else RNone |}])).

(* attach_to_group(net, index, et, [elm], reference_columns=None) *)
Definition rows_of (s : st) (g : Z) (et : nat) : list grow :=
  filter (fun r => (gid r =? g) && Nat.eqb (gty r) et) (grp s).
(* after "fix: attach_to_group treats a NaN reference_column like None" (None and NaN are the same, absent, column) and
   "fix: attach_to_group checks the existence of elements appended to an existing group row" (chk = true; chk = false is
   the rule before that repair) *)
Definition attach_gen (chk : bool) (s : st) (g : Z) (et : nat) (elm : list Z) : result st :=
  if negb (zin g (map gid (grp s))) then Err "ValueError" else
  match rows_of s g et with
  | [] => if exist_ok s et elm false
          then Ok (set_grp s (add_rows (grp s) [{| gid := g; gty := et; gmem := elm; grc := RNone |}]))
          else Err "UserWarning"
  | [r0] =>
    if chk && negb (exist_ok s et elm false) then Err "UserWarning" else   (* :152 _check_elements_existence *)
    if rc_null (grc r0) then                                  (* :168-173 append the new ones, sorted *)
      Ok (set_grp s (map (fun r => if (gid r =? g) && Nat.eqb (gty r) et
                                   then {| gid := gid r; gty := gty r; gmem := gmem r ++ zdiff elm (gmem r); grc := grc r |}
                                   else r) (grp s)))
    else Err "Unsupported"                                    (* index -> name conversion: not modelled *)
  | _ => Err "ValueError"
  end.
Definition attach := attach_gen true.
Definition attach_unchecked := attach_gen false.

(* the behaviour before the repair, kept so that its return is recognised (C27_attach_old_nan_row_refuted) *)
Definition attach_old (s : st) (g : Z) (et : nat) (elm : list Z) : result st :=
  if negb (zin g (map gid (grp s))) then Err "ValueError" else
  match rows_of s g et with
  | [] => if exist_ok s et elm false
          then Ok (set_grp s (add_rows (grp s) [{| gid := g; gty := et; gmem := elm; grc := RNone |}]))
          else Err "UserWarning"
  | [r0] =>
    match grc r0 with
    | RNone =>                                               (* :168-173 append the new ones, sorted *)
      Ok (set_grp s (map (fun r => if (gid r =? g) && Nat.eqb (gty r) et
                                   then {| gid := gid r; gty := gty r; gmem := gmem r ++ zdiff elm (gmem r); grc := grc r |}
                                   else r) (grp s)))
    | RNaN =>
      (* :154 existing_rc != rc holds for NaN vs None: a temporary group is created (existence check, rows appended and
         dropped again), set_group_reference_column(temp, NaN) replaces its members by generated names, these are appended *)
      if exist_ok s et elm false then
        Ok (set_grp s (map (fun r => if (gid r =? g) && Nat.eqb (gty r) et
                                     then {| gid := gid r; gty := gty r;
                                             gmem := gmem r ++ map (fun _ => garbage) (zsort_uniq elm); grc := grc r |}
                                     else r) (uniform (grp s))))
      else Err "UserWarning"
    | RName => Err "Unsupported"                             (* index -> name conversion: not modelled *)
    end
  | _ => Err "ValueError"
  end.

(* detach_from_groups(net, et, ids, index=sel)   sel = None: all groups *)
Definition name_of (s : st) (et : nat) (i : Z) : list Z :=
  map snd (filter (fun p => fst p =? i) (tab s et)).
Definition detach (s : st) (et : nat) (idl : list Z) (sel : option (list Z)) : st :=
  set_grp s (flat_map (fun r =>
    if Nat.eqb (gty r) et && match sel with None => true | Some l => zin (gid r) l end then
      let m := if rc_null (grc r) then zdiff (gmem r) idl
               else zdiff (gmem r) (flat_map (name_of s et) (filter (fun i => zin i (ids s et)) (zuniq [] idl))) in
      match m with [] => [] | _ => [{| gid := gid r; gty := gty r; gmem := m; grc := grc r |}] end
    else [r]) (grp s)).

(* drop_elements_simple(net, et, ids) *)
Definition drop_simple (s : st) (et : nat) (idl : list Z) : result st :=
  let s1 := detach s et idl None in
  if forallb (fun i => zin i (ids s et)) idl
  then Ok (set_tab s1 et (filter (fun p => negb (zin (fst p) idl)) (tab s et)))
  else Err "KeyError".
(* grid_modification.py:737 drop_lines: the line switches at the lines are detached from the groups AS SWITCHES and dropped,
   then the lines are detached and dropped *)
Definition ET_LINE : nat := 2.
Definition ET_SWITCH : nat := 3.
Definition drop_lines (s : st) (idl : list Z) : result st :=
  match idl with
  | [] => Ok s
  | _ =>
    let i := map fst (filter (fun p => zin (snd p) idl) (lsw s)) in
    let s1 := detach s ET_SWITCH i None in
    let s1 := set_lsw (set_tab s1 ET_SWITCH (filter (fun p => negb (zin (fst p) i)) (tab s1 ET_SWITCH)))
                      (filter (fun p => negb (zin (fst p) i)) (lsw s1)) in
    let s2 := detach s1 ET_LINE idl None in
    if forallb (fun x => zin x (ids s ET_LINE)) idl
    then Ok (set_tab s2 ET_LINE (filter (fun p => negb (zin (fst p) idl)) (tab s2 ET_LINE)))
    else Err "KeyError"
  end.
Definition drop_elements (s : st) (et : nat) (idl : list Z) : result st :=
  if Nat.eqb et ET_LINE then drop_lines s idl
  else if Nat.eqb et ET_SWITCH
       then (match drop_simple s et idl with
             | Ok s' => Ok (set_lsw s' (filter (fun p => negb (zin (fst p) idl)) (lsw s')))
             | e => e end)
       else drop_simple s et idl.

(* reindex_elements(net, et, lookup): table index, then group link of the index based rows *)
Definition lookup (lk : list (Z * Z)) (k : Z) : option Z :=
  fold_left (fun acc kv => if fst kv =? k then Some (snd kv) else acc) lk None.
Fixpoint get_indices (sel : list Z) (lk : list (Z * Z)) : result (list Z) :=
  match sel with
  | [] => Ok []
  | k :: t => match lookup lk k with
              | None => Err "KeyError"
              | Some v => match get_indices t lk with Ok r => Ok (v :: r) | Err e => Err e end
              end
  end.
Fixpoint map_rows (f : grow -> result grow) (l : list grow) : result (list grow) :=
  match l with
  | [] => Ok []
  | r :: t => match f r with Err e => Err e | Ok r' => match map_rows f t with Ok t' => Ok (r' :: t') | Err e => Err e end end
  end.
Definition reindex (s : st) (et : nat) (lk : list (Z * Z)) : result st :=
  match tab s et, lk with
  | [], _ => Ok s
  | _, [] => Ok s
  | _, _ =>
    let t' := map (fun p => (match lookup lk (fst p) with Some v => v | None => fst p end, snd p)) (tab s et) in
    (* after "fix: reindex_elements updates ... partially looked-up group members": members that are not reindexed keep
       their index (before: get_indices over all members, KeyError) *)
    let old := filter (fun i => zin i (map fst lk)) (ids s et) in
    let g := map (fun r => if Nat.eqb (gty r) et && rc_null (grc r)
                           then {| gid := gid r; gty := gty r;
                                   gmem := map (fun i => if zin i old then match lookup lk i with Some v => v | None => i end else i) (gmem r);
                                   grc := grc r |}
                           else r) (grp s) in
    Ok (set_tab (set_grp s g) et t')
  end.

Definition drop_group (s : st) (g : Z) : result st :=
  if zin g (map gid (grp s)) then Ok (set_grp s (filter (fun r => negb (gid r =? g)) (grp s))) else Err "KeyError".

(* group_element_index(net, g, et) — the members the impl reports *)
Definition members_of (s : st) (g : Z) (et : nat) : result (list Z) :=
  match rows_of s g et with
  | [] => if zin g (map gid (grp s)) then Ok [] else Err "KeyError"
  | [r] => if rc_null (grc r)
           then (if zin garbage (gmem r) then Err "ValueError" else Ok (gmem r))
           else Ok (map fst (filter (fun p => zin (snd p) (gmem r)) (tab s et)))
  | _ => Err "ValueError"
  end.

Inductive op :=
| OCreate (g : Z) (et : nat) (mem : list Z) (byname : bool)
| OAttach (g : Z) (et : nat) (elm : list Z)
| ODetach (et : nat) (idl : list Z) (sel : option (list Z))
| ODropEl (et : nat) (idl : list Z)
| OReindex (et : nat) (lk : list (Z * Z))
| ODropGroup (g : Z).
Definition step (s : st) (o : op) : result st :=
  match o with
  | OCreate g et mem bn => create_group s g et mem bn
  | OAttach g et elm => attach s g et elm
  | ODetach et idl sel => Ok (detach s et idl sel)
  | ODropEl et idl => drop_elements s et idl
  | OReindex et lk => reindex s et lk
  | ODropGroup g => drop_group s g
  end.

(* guards *)
(* G27a: attach only meets rows whose reference_column is really None *)
Definition G27_attach (s : st) (g : Z) (et : nat) : bool :=
  forallb (fun r => match grc r with RNone => true | _ => false end) (rows_of s g et).
(* G27b: the reference values of table et are unique *)
Fixpoint nodupb (l : list Z) : bool := match l with [] => true | x :: t => negb (zin x t) && nodupb t end.
Definition G27_names (s : st) (et : nat) : bool := nodupb (names s et) && nodupb (ids s et).
(* G27c: every reference-column row sits on a table with unique reference values (guard of the set-model refinement of
   detach / drop_elements / drop_lines in C27/Refine.v) *)
Definition G27_refcols (s : st) : bool :=
  forallb (fun r => rc_null (grc r) || G27_names s (gty r)) (grp s).

(* ---- output *)
Definition orc (r : rc) : out := match r with RNone => OZ 0 | RNaN => OZ 1 | RName => OZ 2 end.
Definition ores {A} (f : A -> out) (r : result A) : out := match r with Ok a => f a | Err e => OErr e end.
Definition ost (ets : list nat) (gids : list Z) (s : st) : out :=
  OL [ olist (fun r => OL [OZ (gid r); onat (gty r); olist OZ (gmem r); orc (grc r)]) (grp s);
       olist (fun et => olist (fun p => OL [OZ (fst p); OZ (snd p)]) (tab s et)) ets;
       olist (fun g => olist (fun et => ores (olist OZ) (members_of s g et)) ets) gids ].
Definition mk_tab (tabs : list (list (Z * Z))) : nat -> list (Z * Z) := fun et => nth et tabs [].
Definition run_step (ets : list nat) (gids : list Z) (s : st) (o : op) : out := ores (ost ets gids) (step s o).
(* the same with the guard G27_refcols of the state before *)
Definition run_step_g (ets : list nat) (gids : list Z) (s : st) (o : op) : out := OL [OB (G27_refcols s); run_step ets gids s o].
