"""Run the Gallina model: emit cases files, run coqc under a timeout, parse `out` terms.

Protocol: every model exposes Run functions returning `PPV.Base.Out.out`.  A shard file is

    From PPV Require Import Base.Out <requires>.
    <prelude>
    Definition shard : out := OL [ <case term>; ... ].
    Eval vm_compute in shard.

and the single printed term is parsed back into Python values:
  OZ z -> int, OQ n d -> Fraction, OB b -> bool, ONone -> None, OS s -> str,
  OErr s -> Err(s), OL l -> list.
"""
import os, re, subprocess, hashlib, shutil, time
from fractions import Fraction
from concurrent.futures import ThreadPoolExecutor

VERIF = os.path.dirname(os.path.dirname(os.path.dirname(os.path.abspath(__file__))))
COQDIR = os.path.join(VERIF, "coq")
CACHE = os.path.join(VERIF, ".cache")


class Err:
    def __init__(self, s):
        self.s = s

    def __eq__(self, o):
        return isinstance(o, Err) and o.s == self.s

    def __hash__(self):
        return hash(("Err", self.s))

    def __repr__(self):
        return "Err(%r)" % self.s


class CoqError(Exception):
    pass


# ---------------------------------------------------------------- literals
def z(x):
    x = int(x)
    return "(%d)%%Z" % x


def nat(x):
    return "%d%%nat" % int(x)


def q(x, bits=None):
    """exact rational literal of a python number (float/int/Fraction)."""
    if x is None:
        raise ValueError("None is not a Q")
    fr = x if isinstance(x, Fraction) else Fraction(x)
    if bits is not None:
        fr = round_bits(fr, bits)
    return "(%d # %d)%%Q" % (fr.numerator, fr.denominator)


def round_bits(fr, bits):
    fr = Fraction(fr)
    if fr == 0:
        return fr
    n, d = abs(fr.numerator), fr.denominator
    e = n.bit_length() - d.bit_length()  # 2^e ~ |fr|
    shift = bits - e
    if shift >= 0:
        m = (n << shift) // d
        r = Fraction(m, 1 << shift)
    else:
        m = n // (d << (-shift))
        r = Fraction(m << (-shift), 1)
    return r if fr > 0 else -r


def oq(x, bits=None):
    """option Q literal; NaN/None -> None."""
    if x is None or (isinstance(x, float) and x != x):
        return "None"
    return "(Some %s)" % q(x, bits)


def b(x):
    return "true" if x else "false"


def lst(items):
    return "[" + "; ".join(items) + "]"


def s(x):
    return '"%s"%%string' % str(x).replace('"', '""')


def opt(x, f):
    return "None" if x is None else "(Some %s)" % f(x)


# ---------------------------------------------------------------- parser
_tok = re.compile(r'\s*(?:(\[|\]|\(|\)|;|,)|("(?:[^"]|"")*")|(-?\d+)(?:%\w+)?|([A-Za-z_][\w\.\']*))')


def _tokens(text):
    pos = 0
    out = []
    n = len(text)
    while pos < n:
        m = _tok.match(text, pos)
        if not m:
            if text[pos:].strip() == "":
                break
            raise CoqError("cannot tokenise at: %r" % text[pos:pos + 60])
        pos = m.end()
        if m.group(1):
            out.append(("p", m.group(1)))
        elif m.group(2) is not None:
            out.append(("s", m.group(2)[1:-1].replace('""', '"')))
        elif m.group(3) is not None:
            out.append(("n", int(m.group(3))))
        else:
            out.append(("i", m.group(4)))
    return out


def _parse(toks, i):
    k, v = toks[i]
    if k == "p" and v == "(":
        val, i = _parse(toks, i + 1)
        if toks[i] != ("p", ")"):
            raise CoqError("expected ) at token %d" % i)
        # optional %scope already swallowed by tokenizer only for numbers; skip ident scope
        return val, i + 1
    if k == "i":
        if v == "OZ":
            n, i = _atom(toks, i + 1)
            return n, i
        if v == "OQ":
            n, i = _atom(toks, i + 1)
            d, i = _atom(toks, i)
            return Fraction(n, d), i
        if v == "OB":
            kk, vv = toks[i + 1]
            return vv == "true", i + 2
        if v == "ONone":
            return None, i + 1
        if v == "OS":
            return toks[i + 1][1], i + 2
        if v == "OErr":
            return Err(toks[i + 1][1]), i + 2
        if v == "OL":
            if toks[i + 1] != ("p", "["):
                raise CoqError("expected [ after OL")
            i += 2
            items = []
            if toks[i] == ("p", "]"):
                return items, i + 1
            while True:
                val, i = _parse(toks, i)
                items.append(val)
                if toks[i] == ("p", ";"):
                    i += 1
                    continue
                if toks[i] == ("p", "]"):
                    return items, i + 1
                raise CoqError("expected ; or ] in list")
        raise CoqError("unexpected identifier %s" % v)
    raise CoqError("unexpected token %r" % (toks[i],))


def _atom(toks, i):
    k, v = toks[i]
    if k == "n":
        return v, i + 1
    if k == "p" and v == "(":
        val, j = _atom(toks, i + 1)
        if toks[j] != ("p", ")"):
            raise CoqError("expected )")
        return val, j + 1
    raise CoqError("expected number, got %r" % (toks[i],))


def parse_out(text):
    m = re.search(r"^\s*=\s(.*)\n\s*:\s*out\s*$", text, re.S | re.M)
    if not m:
        raise CoqError("no `= ... : out` in coqc output:\n" + text[-2000:])
    body = m.group(1)
    body = re.sub(r"%(string|Z|nat|N|positive)\b", "", body)
    toks = _tokens(body)
    val, i = _parse(toks, 0)
    return val


# ---------------------------------------------------------------- running
def _coqc(path, timeout):
    cmd = ["timeout", str(timeout), "coqc", "-Q", COQDIR, "PPV", path]
    p = subprocess.run(cmd, capture_output=True, text=True, cwd=os.path.dirname(path))
    return p.returncode, p.stdout, p.stderr


def eval_cases(workdir, name, requires, cases, prelude="", shard=300, timeout=240, jobs=12):
    """cases: list of Gallina terms of type `out`. Returns list of parsed python values."""
    os.makedirs(workdir, exist_ok=True)
    files = []
    for k in range(0, len(cases), shard):
        chunk = cases[k:k + shard]
        path = os.path.join(workdir, "%s_%d.v" % (name, k // shard))
        with open(path, "w") as f:
            f.write("From Coq Require Import ZArith QArith List String.\nImport ListNotations.\n")
            f.write("From PPV Require Import Base.Out %s.\n" % requires)
            f.write("Set Printing Width 1000000.\nSet Printing Depth 1000000.\n")
            f.write(prelude + "\n")
            f.write("Definition shard : out := OL [\n " + ";\n ".join(chunk) + "\n].\n")
            f.write("Eval vm_compute in shard.\n")
        files.append(path)
    results = []

    def run(path):
        rc, so, se = _coqc(path, timeout)
        if rc == 124:
            raise CoqError("coqc timed out on %s" % path)
        if rc != 0:
            raise CoqError("coqc failed on %s:\n%s" % (path, se[-3000:]))
        return parse_out(so)

    with ThreadPoolExecutor(max_workers=jobs) as ex:
        for vals in ex.map(run, files):
            results.extend(vals)
    if len(results) != len(cases):
        raise CoqError("model returned %d results for %d cases" % (len(results), len(cases)))
    return results


def build_property(pid, timeout=1500):
    """(re)build Properties/<pid>.vo and its dependencies; return (ok, log)."""
    import fcntl
    os.makedirs(CACHE, exist_ok=True)
    with open(os.path.join(CACHE, "make.lock"), "w") as lk:
        fcntl.flock(lk, fcntl.LOCK_EX)
        subprocess.run([os.path.join(VERIF, "tools", "mkcoqproject.sh")], capture_output=True)
        p = subprocess.run(["timeout", str(timeout), "make", "-j8", "Properties/%s.vo" % pid],
                           cwd=COQDIR, capture_output=True, text=True)
    return p.returncode == 0, p.stdout + p.stderr


def print_assumptions(pid, timeout=600):
    """Recompile Properties/<pid>.v, capture the Print Assumptions output.
    Returns dict theorem -> list of axioms ([] == closed under the global context)."""
    src = os.path.join(COQDIR, "Properties", pid + ".v")
    text = open(src).read()
    theorems = re.findall(r"^\s*(?:Theorem|Lemma|Example|Corollary)\s+([\w']+)", text, re.M)
    wd = os.path.join(CACHE, "pa", pid)
    os.makedirs(wd, exist_ok=True)
    dst = os.path.join(wd, pid + "_pa.v")
    shutil.copy(src, dst)
    rc, so, se = _coqc(dst, timeout)
    if rc != 0:
        return None, theorems, so + se
    # split the output per "Print Assumptions": blocks are either "Closed under the global context"
    # or "Axioms:\n name : type ..."
    blocks = re.split(r"(?=Closed under the global context|Axioms:)", so)
    res = []
    for blk in blocks:
        if blk.startswith("Closed under"):
            res.append([])
        elif blk.startswith("Axioms:"):
            names = re.findall(r"^([\w\.']+)\s*:", blk[len("Axioms:"):], re.M)
            res.append(names)
    return res, theorems, so
