"""C08/C09 helpers: table snapshots (values, index, columns, dtypes) of the user-visible part of a pandapower net."""
import numpy as np, pandas as pd


def is_user_table(name, v):
    return isinstance(v, pd.DataFrame) and not name.startswith("res_") and not name.startswith("_")


def snapshot(net):
    """name -> (index list, columns list, dtype strs, values as object array copy)"""
    out = {}
    for k, v in net.items():
        if is_user_table(k, v):
            out[k] = (list(v.index), list(v.columns), [str(t) for t in v.dtypes], v.to_numpy(dtype=object, copy=True))
    return out


def _same_val(a, b):
    if a is b:
        return True
    try:
        if isinstance(a, float) and isinstance(b, float) and a != a and b != b:
            return True
        if a is None or b is None:
            return (a is None or (isinstance(a, float) and a != a)) and (b is None or (isinstance(b, float) and b != b))
        r = a == b
        if isinstance(r, (bool, np.bool_)):
            return bool(r) or (pd.isna(a) is True and pd.isna(b) is True)
        return bool(np.all(r))
    except Exception:
        return repr(a) == repr(b)


def diff(before, after, allow_new_columns=True):
    """list of (table, kind, detail); kinds: rows_added rows_removed index_changed value_changed dtype_changed
    column_removed column_added table_added table_removed"""
    out = []
    for t in before:
        if t not in after:
            out.append((t, "table_removed", ""))
            continue
        i0, c0, d0, v0 = before[t]
        i1, c1, d1, v1 = after[t]
        if i0 != i1:
            s0, s1 = set(map(repr, i0)), set(map(repr, i1))
            if s1 - s0:
                out.append((t, "rows_added", sorted(s1 - s0)[:6]))
            if s0 - s1:
                out.append((t, "rows_removed", sorted(s0 - s1)[:6]))
            if s0 == s1:
                out.append((t, "index_changed", "order"))
            continue
        for j, c in enumerate(c0):
            if c not in c1:
                out.append((t, "column_removed", c))
                continue
            j1 = c1.index(c)
            if d0[j] != d1[j1]:
                out.append((t, "dtype_changed", "%s: %s -> %s" % (c, d0[j], d1[j1])))
            col0, col1 = v0[:, j], v1[:, j1]
            bad = [r for r in range(len(i0)) if not _same_val(col0[r], col1[r])]
            if bad:
                r = bad[0]
                out.append((t, "value_changed", "%s[%r]: %r -> %r" % (c, i0[r], col0[r], col1[r])))
        if not allow_new_columns:
            for c in c1:
                if c not in c0:
                    out.append((t, "column_added", c))
    for t in after:
        if t not in before and len(after[t][0]) > 0:
            out.append((t, "table_added", ""))
    return out
