"""C08/C09 network generator: small meshed 110/20 kV nets that every calculation type can run on
(zero-sequence data, short-circuit data, measurements) with dclines, tap-dependency-table transformers, gens,
shunts; plus a fixed back-to-back VSC net."""
import numpy as np, pandas as pd
import pandapower as pp


def rich_net(rng, n_dcline=None, gens=None, taptab=None, nb=None, index_gap=None, shift=150, bb_switch=None,
             xward=0, trafo3w=0, ctrl_sgen=0):
    """meshed 110 kV ring of nb buses + one 20 kV bus behind a transformer"""
    net = pp.create_empty_network()
    nb = nb or rng.randint(3, 5)
    gap = rng.random() < 0.4 if index_gap is None else index_gap
    ids = sorted(rng.sample(range(0, 3 * nb), nb)) if gap else list(range(nb))
    b = [pp.create_bus(net, 110., index=i) for i in ids]
    lv = pp.create_bus(net, 20.)
    vm = rng.choice([1.0, 1.02])
    pp.create_ext_grid(net, b[0], vm_pu=vm, s_sc_max_mva=1000, s_sc_min_mva=800, rx_max=0.1, rx_min=0.1,
                       x0x_max=1.0, r0x0_max=0.1)
    edges = [(i, (i + 1) % nb) for i in range(nb)] if nb > 2 else [(0, 1)]
    if nb > 3 and rng.random() < 0.5:
        edges.append((0, 2))
    for f, t in edges:
        pp.create_line_from_parameters(net, b[f], b[t], length_km=rng.randint(4, 40) / 4, r_ohm_per_km=0.125, x_ohm_per_km=0.375,
                                       c_nf_per_km=8.0, max_i_ka=0.5, r0_ohm_per_km=0.5, x0_ohm_per_km=1.25, c0_nf_per_km=4.0,
                                       endtemp_degree=80.0, max_loading_percent=100.0)
    pp.create_transformer_from_parameters(net, b[1], lv, sn_mva=25., vn_hv_kv=110., vn_lv_kv=20., vkr_percent=0.5, vk_percent=12.,
                                          pfe_kw=14., i0_percent=0.0625, shift_degree=shift, tap_side="hv", tap_neutral=0, tap_min=-2,
                                          tap_max=2, tap_step_percent=1.5, tap_pos=rng.randint(-2, 2), tap_changer_type="Ratio",
                                          vector_group="YNyn", vk0_percent=12., vkr0_percent=0.5, mag0_percent=100., mag0_rx=0.,
                                          si0_hv_partial=0.9, max_loading_percent=100.0)
    for bus in b[1:] + [lv]:
        if rng.random() < 0.7:
            pp.create_load(net, bus, p_mw=rng.randint(4, 40) / 8, q_mvar=rng.randint(0, 8) / 8)
    if len(net.load) == 0:
        pp.create_load(net, lv, p_mw=2., q_mvar=0.5)
    # substation busbars: extra buses coupled by closed bus-bus switches, each with its own injection
    nbb = (rng.choice([0, 1, 2]) if bb_switch is None else int(bb_switch))
    for k in range(nbb):
        at = b[rng.randrange(1, nb)]
        extra = pp.create_bus(net, 110.)
        pp.create_switch(net, at, extra, et="b", closed=True, z_ohm=0.0)
        pp.create_load(net, extra, p_mw=rng.randint(4, 24) / 8, q_mvar=rng.randint(0, 8) / 8)
        if len(net.load[net.load.bus == at]) == 0:
            pp.create_load(net, at, p_mw=rng.randint(4, 24) / 8, q_mvar=rng.randint(0, 8) / 8)
    if rng.random() < 0.5:
        pp.create_shunt(net, b[-1], q_mvar=-rng.randint(1, 8) / 4, p_mw=0.)
    ngen = rng.choice([0, 1, 2]) if gens is None else gens
    for k in range(ngen):
        pp.create_gen(net, b[rng.randrange(1, nb)], p_mw=rng.randint(1, 16) / 4, vm_pu=vm, vn_kv=110., xdss_pu=0.2, rdss_ohm=0.1,
                      cos_phi=0.9, sn_mva=10., min_p_mw=0., max_p_mw=10., min_q_mvar=-5., max_q_mvar=5., controllable=True,
                      index=(3 * k + 2) if gap else None)
    ndc = rng.choice([0, 1, 1, 2]) if n_dcline is None else n_dcline
    for k in range(ndc):
        f, t = rng.sample(range(nb), 2)
        pp.create_dcline(net, b[f], b[t], p_mw=rng.choice([1.0, 2.0, -1.5]), loss_percent=1.0, loss_mw=0.125, vm_from_pu=vm,
                         vm_to_pu=vm, max_p_mw=5., min_q_from_mvar=-5., max_q_from_mvar=5., min_q_to_mvar=-5., max_q_to_mvar=5.,
                         in_service=rng.random() < 0.85)
    tt = (rng.random() < 0.5) if taptab is None else taptab
    if tt:
        net.trafo["id_characteristic_table"] = 0
        net.trafo["tap_dependency_table"] = True
        net["trafo_characteristic_table"] = pd.DataFrame({
            "id_characteristic": [0] * 5, "step": [-2, -1, 0, 1, 2], "voltage_ratio": [0.97, 0.985, 1.0, 1.015, 1.03],
            "angle_deg": [0.] * 5, "vk_percent": [11., 11.5, 12., 12.5, 13.], "vkr_percent": [0.4375, 0.46875, 0.5, 0.53125, 0.5625],
            "vk_hv_percent": np.nan, "vkr_hv_percent": np.nan, "vk_mv_percent": np.nan, "vkr_mv_percent": np.nan,
            "vk_lv_percent": np.nan, "vkr_lv_percent": np.nan})
    # elements with an internal (auxiliary) bus in the ppc: their start values for init="results" come from their own
    # result tables
    for k in range(int(xward)):
        pp.create_xward(net, [lv, b[-1]][k % 2], ps_mw=0.25, qs_mvar=0.125, pz_mw=0.125, qz_mvar=0.0, r_ohm=0.5, x_ohm=2.0, vm_pu=vm)
    for k in range(int(trafo3w)):
        mv = pp.create_bus(net, 20.)
        lv3 = pp.create_bus(net, 10.)
        pp.create_transformer3w_from_parameters(net, b[(k + 2) % nb], mv, lv3, vn_hv_kv=110., vn_mv_kv=20., vn_lv_kv=10.,
                                                sn_hv_mva=40., sn_mv_mva=25., sn_lv_mva=15., vk_hv_percent=10., vk_mv_percent=11.,
                                                vk_lv_percent=12., vkr_hv_percent=0.3, vkr_mv_percent=0.31, vkr_lv_percent=0.32,
                                                pfe_kw=10., i0_percent=0.05, shift_mv_degree=0., shift_lv_degree=0.)
        pp.create_load(net, mv, p_mw=1.5, q_mvar=0.25)
        pp.create_load(net, lv3, p_mw=0.75, q_mvar=0.125)
    for k in range(int(ctrl_sgen)):
        sg = pp.create_sgen(net, b[(k + 1) % nb], p_mw=1.0, q_mvar=0.0, controllable=True, min_p_mw=0., max_p_mw=2., min_q_mvar=-1.,
                            max_q_mvar=1.)
        pp.create_poly_cost(net, sg, "sgen", 1.5)
    pp.create_poly_cost(net, 0, "ext_grid", 1.0)
    for g in net.gen.index:
        pp.create_poly_cost(net, g, "gen", 2.0)
    net.bus["min_vm_pu"] = 0.9
    net.bus["max_vm_pu"] = 1.1
    return net


def add_measurements(net):
    """exact measurements from a power flow on a copy (for estimate)"""
    import copy
    ref = copy.deepcopy(net)
    pp.runpp(ref, numba=False)
    for bus in ref.bus.index:
        pp.create_measurement(net, "v", "bus", float(ref.res_bus.vm_pu.at[bus]), 0.004, bus)
        pp.create_measurement(net, "p", "bus", float(ref.res_bus.p_mw.at[bus]), 0.01, bus)
        pp.create_measurement(net, "q", "bus", float(ref.res_bus.q_mvar.at[bus]), 0.01, bus)
    for l in ref.line.index:
        pp.create_measurement(net, "p", "line", float(ref.res_line.p_from_mw.at[l]), 0.01, l, side="from")
        pp.create_measurement(net, "q", "line", float(ref.res_line.q_from_mvar.at[l]), 0.01, l, side="from")
    return net


def b2b_net(user_vsc_name=None, n_dcline=0):
    """bipolar back-to-back VSC link (after test_facts_b2b_vsc.py); optionally a user VSC with a given name"""
    net = pp.create_empty_network()
    pp.create_buses(net, 8, 380)
    pp.create_ext_grid(net, bus=0, vm_pu=1.0)
    pp.create_ext_grid(net, bus=1, vm_pu=1.0)
    for f, t in [(0, 2), (1, 3), (4, 6), (5, 7)]:
        pp.create_line_from_parameters(net, f, t, 1, 0.0487, 0.13823, 160, 0.664)
    pp.create_load(net, bus=6, p_mw=100.)
    pp.create_load(net, bus=7, p_mw=150.)
    for n in "ABCDEF":
        pp.create_bus_dc(net, 380., n)
    pp.create_line_dc_from_parameters(net, 0, 3, length_km=100, r_ohm_per_km=0.0212, max_i_ka=0.963)
    pp.create_line_dc_from_parameters(net, 2, 5, length_km=100, r_ohm_per_km=0.0212, max_i_ka=0.963)
    pp.create_line_dc_from_parameters(net, 1, 4, length_km=100, r_ohm_per_km=0.0212, max_i_ka=0.963)
    pp.create_b2b_vsc(net, 2, 0, 1, 0.2, 10, 0.3, control_mode_ac='vm_pu', control_value_ac=1, control_mode_dc="vm_pu", control_value_dc=1.)
    pp.create_b2b_vsc(net, 3, 1, 2, 0.2, 10, 0.3, control_mode_ac='vm_pu', control_value_ac=1, control_mode_dc="vm_pu", control_value_dc=1.)
    pp.create_b2b_vsc(net, 4, 3, 4, 0.2, 10, 0.3, control_mode_ac='slack', control_value_ac=1, control_mode_dc="p_mw", control_value_dc=1.5)
    pp.create_b2b_vsc(net, 5, 4, 5, 0.2, 10, 0.3, control_mode_ac='slack', control_value_ac=1, control_mode_dc="p_mw", control_value_dc=0.5)
    for k in range(n_dcline):
        # a dcline next to the b2b_vsc's: both kinds of auxiliary elements exist in the same calculation
        f, t = [(6, 7), (7, 6)][k % 2]
        pp.create_dcline(net, f, t, p_mw=5.0, loss_percent=1.0, loss_mw=0.125, vm_from_pu=1.0, vm_to_pu=1.0, max_p_mw=50.,
                         min_q_from_mvar=-50., max_q_from_mvar=50., min_q_to_mvar=-50., max_q_to_mvar=50.)
    if user_vsc_name is not None:
        pp.create_vsc(net, 6, 3, 0.2, 10, 0.3, control_mode_ac='vm_pu', control_value_ac=1., control_mode_dc="p_mw",
                      control_value_dc=0., name=user_vsc_name, in_service=False)
    return net
