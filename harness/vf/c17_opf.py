"""OPF problem generator and white-box capture of the OPF ppci (shared by the C17 and C16 checks).

gen_net(rng, ...) builds a small meshed 20 kV net with every controllable element kind
(gen, sgen, load, storage, ext_grid, dcline), optional out-of-service elements, gapped gen indices and
poly / pwl cost entries with coefficients on small grids.
capture(net, ac) runs runopp/rundcopp up to the call of pypower's opf() and returns the ppci handed to the
solver together with the lookups make_objective used (no solver run, nothing in /repo is touched:
the module attribute pandapower.optimal_powerflow.opf is swapped in this process only)."""
import copy
import numpy as np
import pandapower as pp

ETS = ["gen", "sgen", "load", "storage", "ext_grid", "dcline"]
ETC = {"gen": "Gen", "sgen": "Sgen", "load": "Load", "storage": "Storage", "ext_grid": "ExtGrid", "dcline": "Dcline"}
NEG = ("load", "storage", "dcline")


class _Captured(Exception):
    pass


def capture(net, ac=True, **kw):
    import pandapower.optimal_powerflow as om
    orig = om.opf
    box = {}

    def fake(ppci, ppopt):
        box["gen"] = ppci["gen"].copy()
        box["bus"] = ppci["bus"].copy()
        box["branch"] = ppci["branch"].copy()
        box["gencost"] = ppci["gencost"].copy()
        box["baseMVA"] = ppci["baseMVA"]
        box["lookups"] = {k: (v.copy() if isinstance(v, np.ndarray) else v) for k, v in net._pd2ppc_lookups.items()}
        box["n_gen_tab"] = len(net.gen.index)
        box["gen_index"] = [int(i) for i in net.gen.index]
        box["dcl_index"] = [int(i) for i in net.dcline.index]
        # the generators _add_dcline_gens created (to-bus gen, from-bus gen per dcline) and what _get_gen_index
        # returns for every cost key while they exist
        box["aux_gens"] = [int(i) for i in ((net.get("_aux_elements", None) or {}).get("gen", []) or [])]
        box["dcl_from_bus"] = [int(b) for b in net.dcline.from_bus.values]
        from pandapower.opf.make_objective import _get_gen_index
        rows = []
        for tab in (net.poly_cost, net.pwl_cost):
            for et, el in zip(tab.et.values, tab.element.values):
                try:
                    rows.append((str(et), int(el), _get_gen_index(net, et, el)))
                except Exception as e:
                    rows.append((str(et), int(el), type(e).__name__))
        box["gen_rows"] = rows
        box["gen_order"] = dict(net._gen_order)
        box["gen_table"] = net.gen.copy()
        box["options"] = dict(net._options)
        box["is_elements"] = {k: np.array(v).copy() for k, v in net._is_elements.items() if v is not None and not isinstance(v, dict)}
        # the dcline constraint rows _add_dcline_constraints would hand to the OPF model
        if len(net.dcline) > 0:
            class _OM:
                def __init__(s): s.rec = None
                def get_ppc(s): return ppci
                def add_constraints(s, name, A, l, u, varsets=None):
                    s.rec = (A.toarray().copy(), np.array(l, dtype=float).copy(), np.array(u, dtype=float).copy())
                    return s
            fom = _OM()
            try:
                om._add_dcline_constraints(fom, net)
                box["dc_rows"] = fom.rec
                box["dc_raise"] = fom.rec is not None and fom.rec[0].shape[0] != len(fom.rec[1])
            except Exception as e:
                box["dc_rows"] = None
                box["dc_raise"] = True
        box["ppci"] = ppci
        raise _Captured()

    om.opf = fake
    err = None
    n0 = len(net.gen)
    try:
        (pp.runopp if ac else pp.rundcopp)(net, **kw)
    except _Captured:
        pass
    except Exception as e:  # the build itself raised (e.g. ValueError of make_objective)
        err = e
    finally:
        om.opf = orig
        if len(net.gen) > n0:   # auxiliary dcline gens
            net.gen = net.gen.drop(net.gen.index[n0:])
    box["error"] = err
    return box


def gen_net(rng, pwl=False, oos=0.15, gap=0.4, quad=True, ndc_max=2, q_cost=True, controllable_cols=False,
            tight=False, sn_choices=(1.0,), areas=(1, 2, 2, 3)):
    """returns net.  All numbers are dyadic (k/8 etc.); net.sn_mva is drawn from sn_choices."""
    net = pp.create_empty_network(sn_mva=float(rng.choice(list(sn_choices))))
    nb = rng.randint(2, 5)
    vmin, vmax = (0.95, 1.05) if tight else (0.9, 1.1)
    buses = [pp.create_bus(net, vn_kv=20.0, min_vm_pu=vmin, max_vm_pu=vmax) for _ in range(nb)]
    edges = [(buses[rng.randrange(0, i)], buses[i]) for i in range(1, nb)]
    if nb > 2 and rng.random() < 0.5:
        a, b = rng.sample(buses, 2)
        if (a, b) not in edges and (b, a) not in edges:
            edges.append((a, b))
    for a, b in edges:
        pp.create_line_from_parameters(net, a, b, length_km=rng.randint(4, 24) / 8, r_ohm_per_km=rng.randint(4, 16) / 64,
                                       x_ohm_per_km=rng.randint(8, 24) / 64, c_nf_per_km=rng.choice([0, 0, 64]),
                                       max_i_ka=rng.choice([0.125, 0.25, 1.0]) if tight else 1.0,
                                       max_loading_percent=rng.choice([50.0, 100.0]) if tight else 100.0)
    eg = pp.create_ext_grid(net, buses[0], vm_pu=rng.choice([1.0, 1.0, 1.02]), min_p_mw=-50.0, max_p_mw=50.0,
                            min_q_mvar=-50.0, max_q_mvar=50.0)
    # fixed demand
    for b in buses[1:]:
        if rng.random() < 0.7:
            pp.create_load(net, b, p_mw=rng.randint(2, 16) / 8, q_mvar=rng.randint(0, 4) / 8, controllable=False)
    if len(net.load) == 0:
        pp.create_load(net, buses[-1], p_mw=1.0, q_mvar=0.25, controllable=False)
    ins = lambda: rng.random() >= oos
    # gens
    gi = rng.choice([0, 0, 3]) if rng.random() < gap else 0
    for _ in range(rng.randint(0, 2)):
        pmax = rng.randint(4, 24) / 8
        kw = {}
        if controllable_cols:
            kw["controllable"] = rng.random() < 0.7
        pp.create_gen(net, rng.choice(buses[1:]) if nb > 1 else buses[0], p_mw=rng.randint(0, 8) / 8 * pmax / 2,
                      vm_pu=rng.choice([1.0, 1.01]), min_p_mw=rng.choice([0.0, 0.0, 0.25]), max_p_mw=pmax,
                      min_q_mvar=-rng.randint(2, 8) / 4, max_q_mvar=rng.randint(2, 8) / 4, in_service=ins(), index=gi,
                      scaling=rng.choice([1.0, 1.0, 0.5]) if controllable_cols else 1.0, **kw)
        gi += rng.choice([1, 1, 2]) if rng.random() < gap else 1
    for _ in range(rng.randint(0, 2)):
        pmax = rng.randint(4, 16) / 8
        pp.create_sgen(net, rng.choice(buses), p_mw=pmax / 2, q_mvar=0.0, controllable=rng.random() < 0.8,
                       min_p_mw=rng.choice([0.0, 0.25]), max_p_mw=pmax, min_q_mvar=-rng.randint(0, 4) / 4,
                       max_q_mvar=rng.randint(0, 4) / 4, in_service=ins(),
                       scaling=rng.choice([1.0, 1.0, 0.5]) if controllable_cols else 1.0)
    for _ in range(rng.randint(0, 2)):
        pmax = rng.randint(8, 24) / 8
        pmin = rng.choice([0.0, 0.5, 1.0])
        pp.create_load(net, rng.choice(buses[1:]), p_mw=(pmin + pmax) / 2, q_mvar=0.0, controllable=rng.random() < 0.85,
                       min_p_mw=pmin, max_p_mw=pmax, min_q_mvar=0.0, max_q_mvar=rng.choice([0.0, 0.5]), in_service=ins())
    for _ in range(rng.randint(0, 1)):
        pp.create_storage(net, rng.choice(buses), p_mw=0.25, max_e_mwh=10.0, q_mvar=0.0, controllable=rng.random() < 0.85,
                          min_p_mw=-rng.randint(2, 8) / 8, max_p_mw=rng.randint(2, 8) / 8, min_q_mvar=-0.25, max_q_mvar=0.25,
                          in_service=ins())
    if nb >= 2:
        for _ in range(rng.choice([0, 0, 1, ndc_max]) if ndc_max else 0):
            a, b = rng.sample(buses, 2)
            pp.create_dcline(net, a, b, p_mw=rng.randint(1, 8) / 8 * (1 if rng.random() < 0.8 else -1), loss_percent=rng.choice([0.0, 0.0, 2.0, 5.0]),
                             loss_mw=rng.choice([0.0, 0.0, 0.0625]), vm_from_pu=1.0, vm_to_pu=1.0, max_p_mw=rng.randint(8, 16) / 8,
                             min_q_from_mvar=-0.5, max_q_from_mvar=0.5, min_q_to_mvar=-0.5, max_q_to_mvar=0.5,
                             in_service=ins())
    # costs
    cands = [("ext_grid", int(eg))]
    cands += [("gen", int(i)) for i in net.gen.index]
    cands += [("sgen", int(i)) for i in net.sgen.index if net.sgen.controllable.at[i] or rng.random() < 0.3]
    cands += [("load", int(i)) for i in net.load.index if net.load.controllable.at[i]]
    cands += [("storage", int(i)) for i in net.storage.index if net.storage.controllable.at[i]]
    cands += [("dcline", int(i)) for i in net.dcline.index]
    rng.shuffle(cands)
    use_q = q_cost and rng.random() < 0.4
    use_quad = quad and rng.random() < 0.6
    both = pwl and rng.random() < 0.35
    for et, el in cands:
        if rng.random() < 0.2 and et != "ext_grid":
            continue
        as_pwl = pwl and (not both or rng.random() < 0.6)
        if as_pwl:
            nseg = rng.choice(list(areas))
            lo = rng.choice([-2.0, 0.0, 0.0, 0.5])
            if et == "ext_grid":
                lo = -50.0
            pts = []
            slope = rng.randint(-2, 4) * 1.0
            for k in range(nseg):
                hi = lo + (rng.randint(1, 4) * 0.5 if et != "ext_grid" else 50.0)
                pts.append([lo, hi, slope])
                lo = hi
                slope = slope + rng.choice([0.0, 1.0, 2.0])   # convex (pypower's CCV formulation needs it)
            pp.create_pwl_cost(net, el, et, pts, power_type="q" if (use_q and rng.random() < 0.2) else "p")
        else:
            kw = dict(cp1_eur_per_mw=float(rng.randint(-2, 6)),
                      cp2_eur_per_mw2=rng.choice([0.0, 0.5, 1.0, 2.0]) if (use_quad and not pwl) else 0.0,
                      cp0_eur=rng.choice([0.0, 0.0, 5.0, -3.0]))
            if use_q:
                kw.update(cq1_eur_per_mvar=rng.choice([0.0, 1.0, -1.0]),
                          cq2_eur_per_mvar2=rng.choice([0.0, 0.0, 0.5]) if (use_quad and not pwl) else 0.0,
                          cq0_eur=rng.choice([0.0, 0.0, 2.0]))
            elif rng.random() < 0.1:
                kw.update(cq0_eur=2.0)
            pp.create_poly_cost(net, el, et, **kw)
    return net
