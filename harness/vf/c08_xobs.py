"""C08: observation of StateEstimation.estimate (bus-bus switch impedance substitution) and run_contingency (in_service
restore loop) on the real code, and the crash-index arithmetic of the Coq stage machines C08.Model.run_estimate /
run_contingency (every nested power flow counts with all its atomic operations).  Harness process only."""
import importlib, inspect, sys
import numpy as np
import pandapower as pp
from vf import c08_inject as J

SCALE = 4096


def zcol(net, col):
    if col not in net.switch.columns:
        return None
    return [(-1 if v != v else int(round(float(v) * SCALE))) for v in net.switch[col].values]


def pf_ops(net):
    """number of atomic operations of C08.Model.pl_powerflow on this net, and of its part in front of AInitRes"""
    D, B = len(net.dcline), len(net.b2b_vsc)
    tail = ((1 + 4 * D) if D > 0 else 0) + ((1 + 4 * B) if B > 0 else 0)
    return tail + 5, tail


class XObserver:
    """entry/exit events of the given module functions; records a state function at every event and raises `exc` at one"""

    def __init__(self, net, points, state, fault=None, exc=J.InjectedFault):
        self.net, self.points, self.state, self.fault, self.exc = net, points, state, fault, exc
        self.events, self.states, self.counts = [], [], {}
        self.fired = False
        self.at_fault = None
        self._saved = []

    def __enter__(self):
        for modname, name in self.points:
            mod = importlib.import_module(modname)
            f = getattr(mod, name)
            self._saved.append((mod, name, f))
            setattr(mod, name, self.wrap(f, name))
        return self

    def wrap(self, f, name):
        ob = self

        def w(*a, **kw):
            n = ob.counts.get(name, 0)
            ob.counts[name] = n + 1
            ob.event(name, n, "entry")
            r = f(*a, **kw)
            ob.event(name, n, "exit")
            return r
        w.__name__ = name
        return w

    def event(self, name, n, when):
        st = self.state(self.net)
        self.events.append((name, n, when))
        self.states.append(st)
        if self.fault is not None and not self.fired and tuple(self.fault) == (name, n, when):
            self.fired = True
            self.at_fault = st
            raise self.exc("fault at %s #%d %s" % (name, n, when))

    def __exit__(self, *a):
        for mod, name, f in self._saved:
            setattr(mod, name, f)


# ------------------------------------------------------------------ estimate
EST_POINTS = [("pandapower.estimation.state_estimation", "set_bb_switch_impedance"),
              ("pandapower.estimation.util", "_get_bus_ppc_mapping"),
              ("pandapower.estimation.state_estimation", "pp2eppci"),
              ("pandapower.estimation.state_estimation", "eppci2pp"),
              ("pandapower.create", "create_gen")]


def est_state(net):
    return [zcol(net, "z_ohm"), zcol(net, "z_ohm_ori")]


def est_rounds(ob):
    """the impedance writes of set_bb_switch_impedance, read off the z_ohm column at the entries of _get_bus_ppc_mapping:
    call 0 = before any write, call 2r-1 = behind the selection of round r, call 2r = behind its partial undo"""
    zs = [st[0] for ev, st in zip(ob.events, ob.states) if ev[0] == "_get_bus_ppc_mapping" and ev[2] == "entry"]
    rounds = []
    for m in range(1, len(zs), 2):
        sel = [a != b for a, b in zip(zs[m - 1], zs[m])]
        undo = None
        if m + 1 < len(zs):
            undo = [a != b for a, b in zip(zs[m], zs[m + 1])]
        rounds.append((sel, undo))
    return rounds, len(zs)


def est_k(net, rounds, fault):
    """crash index in C08.Model.est_body (bb = true): XRaiseIf, XSaveZ, XRaiseIf, XCalc, per round XSetZ, XCalc [XSetZ, XCalc],
    XStage (pp2eppci), XStage (solver), XStage (eppci2pp)"""
    L, tail = pf_ops(net)
    D = len(net.dcline)
    starts, pos = [3], 3 + L            # start index of the nested power flow of _get_bus_ppc_mapping call m
    for sel, undo in rounds:
        starts.append(pos + 1)
        pos += 1 + L
        if undo is not None:
            starts.append(pos + 1)
            pos += 1 + L
    P = pos                             # first XStage
    name, n, when = fault
    if name == "set_bb_switch_impedance":
        return 1 if when == "entry" else P
    if name == "_get_bus_ppc_mapping":
        if n >= len(starts):
            return None
        return starts[n] if when == "entry" else starts[n] + L
    if name == "create_gen" and D > 0:
        m, r = divmod(n, 2 * D)
        if m >= len(starts):
            return None
        return starts[m] + (2 + 2 * r if when == "entry" else 3 + 2 * r)
    if name == "pp2eppci":
        return P if when == "entry" else P + 1
    if name == "eppci2pp" and when == "entry":
        return P + 2
    return None


# ------------------------------------------------------------------ contingency
CONT_POINTS = [("pandapower.contingency.contingency", "_update_contingency_results")]


def try_line_of_run_contingency():
    """line number of the `try:` that follows the outage assignment in run_contingency (read from the source in use)"""
    import pandapower.contingency.contingency as C
    src, first = inspect.getsourcelines(C.run_contingency)
    for j, l in enumerate(src):
        if "'in_service'] = False" in l.replace('"', "'") and src[j + 1].strip() == "try:":
            return first + j + 1, C.__file__
    return None, C.__file__


class TryLineFault:
    """raise `exc` at the n-th line event on the `try:` line behind the outage assignment of run_contingency"""

    def __init__(self, n, exc):
        self.n, self.exc, self.seen, self.fired = n, exc, 0, False
        self.line, self.file = try_line_of_run_contingency()

    def _local(self, frame, event, arg):
        if event == "line" and frame.f_lineno == self.line and not self.fired:
            if self.seen == self.n:
                self.fired = True
                self.seen += 1
                raise self.exc("fault on the try line of run_contingency, occurrence %d" % self.n)
            self.seen += 1
        return self._local

    def _global(self, frame, event, arg):
        co = frame.f_code
        if event == "call" and co.co_name == "run_contingency" and co.co_filename == self.file:
            return self._local
        return None

    def __enter__(self):
        self._old = sys.gettrace()
        sys.settrace(self._global)
        return self

    def __exit__(self, *a):
        sys.settrace(self._old)


def cont_k(net, cases, fault):
    """crash index in C08.Model.run_contingency (window = false unless the fault is the try-line fault).
    cases: list of (executed: bool, conv: bool) per listed outage in order; executed = present and in service.
    returns (k, window)"""
    L, tail = pf_ops(net)
    offs, convs, pos = [], [], 0
    for executed, conv in cases:
        if not executed:
            continue
        offs.append(pos)
        convs.append(conv)
        pos += 1 + ((L + 1) if conv else (tail + 3))
    offs.append(pos)            # the N-0 case
    convs.append(True)
    name, n, when = fault
    if name == "try_line":
        # with window = true every executed case in front has one more operation
        if n >= len(offs) - 1:
            return None, True
        return offs[n] + n + 1, True
    if n >= len(offs):
        return None, False
    last = n == len(offs) - 1
    base = offs[n] + (0 if last else 1)
    if name == "eval":
        return (base if when == "entry" else base + L), False
    if name == "_update_contingency_results" and when == "entry":
        # the bookkeeping is only reached behind a converged evaluation: its n-th call belongs to the n-th converging case
        idx = [j for j, c in enumerate(convs) if c]
        if n >= len(idx):
            return None, False
        j = idx[n]
        return offs[j] + (0 if j == len(offs) - 1 else 1) + L, False
    return None, False
