"""Seeded network generators shared by the property checks."""
import numpy as np
import pandapower as pp

LINE_TYPES = ["NAYY 4x150 SE", "NA2XS2Y 1x240 RM/25 12/20 kV", "149-AL1/24-ST1A 20.0", "243-AL1/39-ST1A 20.0"]


def grid(rng, k=64, lo=0, hi=64):
    """a dyadic number in [lo/k, hi/k]"""
    return rng.randint(lo, hi) / k


def rand_net(rng, nb=6, chords=2, n_trafo=1, shuffle_index=False, loads=True, sgens=True, n_trafo3w=0,
             oos=0.0, line_params=False):
    """Connected MV net: ext_grid at an HV bus (if n_trafo>0) feeding a 20 kV random tree + chords.
    Returns net.  Indices of buses/lines are optionally shuffled & gapped."""
    net = pp.create_empty_network()
    idx = list(range(nb))
    if shuffle_index:
        idx = rng.sample(range(3 * nb + 5), nb)
    buses = [pp.create_bus(net, vn_kv=20.0, index=i, name="b%d" % i) for i in idx]
    lidx = None
    edges = []
    for i in range(1, nb):
        j = rng.randrange(0, i)
        edges.append((buses[j], buses[i]))
    tries = 0
    while chords > 0 and tries < 50 and nb > 2:
        tries += 1
        a, bq = rng.sample(buses, 2)
        if (a, bq) in edges or (bq, a) in edges:
            continue
        edges.append((a, bq))
        chords -= 1
    lids = list(range(len(edges)))
    if shuffle_index:
        lids = rng.sample(range(3 * len(edges) + 5), len(edges))
    for (a, bq), li in zip(edges, lids):
        if line_params:
            pp.create_line_from_parameters(net, a, bq, length_km=rng.randint(1, 40) / 8,
                                           r_ohm_per_km=rng.randint(4, 40) / 64, x_ohm_per_km=rng.randint(8, 40) / 64,
                                           c_nf_per_km=rng.choice([0, 8, 160, 256]), max_i_ka=rng.randint(8, 40) / 64,
                                           g_us_per_km=rng.choice([0, 0, 4]), parallel=rng.choice([1, 1, 2]),
                                           df=rng.choice([1.0, 1.0, 0.75]), index=li,
                                           in_service=rng.random() >= oos, max_loading_percent=100.0)
        else:
            pp.create_line(net, a, bq, length_km=rng.randint(1, 40) / 8, std_type=rng.choice(LINE_TYPES), index=li,
                           in_service=rng.random() >= oos, max_loading_percent=100.0)
    if n_trafo > 0:
        hv = pp.create_bus(net, vn_kv=110.0, name="hv")
        pp.create_ext_grid(net, hv, vm_pu=rng.choice([1.0, 1.02, 0.98]), va_degree=rng.choice([0.0, 0.0, 10.0]))
        for t in range(n_trafo):
            pp.create_transformer(net, hv, buses[t % nb], std_type=rng.choice(["25 MVA 110/20 kV", "40 MVA 110/20 kV", "63 MVA 110/20 kV"]),
                                  max_loading_percent=100.0, in_service=(t == 0) or rng.random() >= oos)
    else:
        pp.create_ext_grid(net, buses[0], vm_pu=rng.choice([1.0, 1.02, 0.98]))
    for t in range(n_trafo3w):
        mv = pp.create_bus(net, vn_kv=10.0, name="mv%d" % t)
        hvb = net.bus.index[net.bus.vn_kv == 110.0]
        if len(hvb) == 0:
            break
        pp.create_transformer3w(net, hvb[0], buses[rng.randrange(nb)], mv, std_type="63/25/38 MVA 110/20/10 kV",
                                max_loading_percent=100.0)
        pp.create_load(net, mv, p_mw=rng.randint(0, 16) / 8, q_mvar=rng.randint(0, 8) / 8)
    if loads:
        for bq in buses:
            if rng.random() < 0.7:
                pp.create_load(net, bq, p_mw=rng.randint(0, 24) / 8, q_mvar=rng.randint(-4, 12) / 8)
    if sgens:
        for bq in buses:
            if rng.random() < 0.25:
                pp.create_sgen(net, bq, p_mw=rng.randint(0, 16) / 8, q_mvar=rng.randint(-4, 4) / 8)
    return net


def net_to_json(net):
    return pp.to_json(net)


def net_from_json(s):
    return pp.from_json_string(s)
