"""Check driver: proof build -> correspondence -> oracle -> classification -> evidence."""
import os, sys, json, time, random, hashlib, traceback, subprocess, re, shutil
from . import coqrun

VERIF = coqrun.VERIF
REPO = os.environ.get("VERIF_REPO", "/repo")

ALLOWED_AXIOMS = {
    # standard-library axioms, named in DESIGN.md section 5
    "ClassicalDedekindReals.sig_not_dec", "ClassicalDedekindReals.sig_forall_dec",
    "FunctionalExtensionality.functional_extensionality_dep", "Classical_Prop.classic",
    "sig_not_dec", "sig_forall_dec", "functional_extensionality_dep", "classic",
}

TRUSTED_BASE_COMMON = [
    "Coq 8.16.1 kernel + vm_compute (no native_compute)",
    "hand-written Gallina model of the anchored Python (coq/<id>/Model.v), tied by the correspondence run of this check",
    "harness: generators, impl drivers, Gallina literal emitter, out-term parser, comparer (harness/vf, harness/props)",
    "numpy/pandas/scipy semantics as observed through the impl at the observation points",
]


def canon(x):
    return json.dumps(x, sort_keys=True, default=str)


class Ctx:
    def __init__(self, pid, tier, seed):
        self.pid, self.tier, self.seed = pid, tier, seed
        self.rng = random.Random(seed * 1000003 + int(pid[1:]))
        self.t0 = time.time()
        self.evaluations = 0
        self.nontrivial = set()
        self.samples = []
        self.hist = {}
        self.violations = []     # dicts: kind, what, case
        self.known_hits = {}     # finding id -> count
        self.disagreements = 0   # model vs impl disagreements (correspondence)
        self.corr_checked = 0
        self.notes = []
        self.assumptions = []
        self.extra = {}
        # one work directory per running check (several checks of one property may run at the same time)
        self.workdir = os.path.join(coqrun.CACHE, "run", "%s_%d" % (pid, os.getpid()))
        shutil.rmtree(self.workdir, ignore_errors=True)
        os.makedirs(self.workdir, exist_ok=True)
        self.proof = None
        self.scale = {"quick": 1, "thorough": 12}[tier]

    # -- bookkeeping
    def n(self, quick, thorough=None):
        return quick if self.tier == "quick" else (thorough if thorough is not None else quick * self.scale)

    def count(self, key, k=1):
        self.hist[key] = self.hist.get(key, 0) + k

    def case(self, case, nontrivial=True, sample=None):
        self.evaluations += 1
        if nontrivial:
            self.nontrivial.add(hashlib.sha1(canon(case).encode()).hexdigest())
        if sample is not None and len(self.samples) < 4:
            self.samples.append(sample)

    def violation(self, kind, what, case, source="oracle"):
        """kind: classification key matched against known_findings.json."""
        self.violations.append({"kind": kind, "what": what, "case": case, "source": source})

    def disagreement(self, what, case):
        self.disagreements += 1
        self.violations.append({"kind": "correspondence", "what": "model/impl disagreement: " + what,
                                "case": case, "source": "correspondence"})

    # -- model
    def coq_eval(self, name, requires, cases, prelude="", shard=300, timeout=300):
        if self.tier == "thorough":
            timeout = max(timeout, 1500)
        return coqrun.eval_cases(self.workdir, name, requires, cases, prelude, shard, timeout)


def load_known():
    import glob
    out = []
    p = os.path.join(VERIF, "known_findings.json")
    if os.path.exists(p):
        out += json.load(open(p))["findings"]
    for f in sorted(glob.glob(os.path.join(VERIF, "known_findings.d", "*.json"))):
        out += json.load(open(f))["findings"]
    return out


def repo_state():
    try:
        head = subprocess.run(["git", "-C", REPO, "rev-parse", "HEAD"], capture_output=True, text=True).stdout.strip()
        dirty = subprocess.run(["git", "-C", REPO, "status", "--porcelain"], capture_output=True, text=True).stdout.split("\n")
        return head, [d for d in dirty if d.strip()]
    except Exception:
        return "?", []


def write_replay(ctx, idx, v, extra=None):
    d = os.path.join(VERIF, "replays", ctx.pid)
    os.makedirs(d, exist_ok=True)
    path = os.path.join(d, "%s_%s_%d_%d.json" % (ctx.pid, ctx.tier, ctx.seed, idx))
    head, dirty = repo_state()
    rec = {"property": ctx.pid, "seed": ctx.seed, "tier": ctx.tier, "kind": v["kind"], "what": v["what"],
           "source": v["source"], "case": v["case"], "repo_head": head, "dirty_files": dirty}
    if extra:
        rec.update(extra)
    with open(path, "w") as f:
        json.dump(rec, f, indent=1, default=str)
    return path


def run_check(mod, pid, tier, seed, replay=None):
    ctx = Ctx(pid, tier, seed)
    known = [k for k in load_known() if k["property"] == pid]
    status = 0
    lines = []
    # 1. proof obligations
    t = time.time()
    ok, log = coqrun.build_property(pid)
    proof = {"built": ok, "theorems": [], "axioms": {}, "build_s": None}
    broken_proof = None
    if ok:
        res, theorems, raw = coqrun.print_assumptions(pid)
        proof["theorems"] = theorems
        if res is None:
            ok = False
            log = raw
        else:
            bad = []
            for i, ax in enumerate(res):
                proof["axioms"]["#%d" % i] = ax
                for a in ax:
                    if a not in ALLOWED_AXIOMS and a.split(".")[-1] not in ALLOWED_AXIOMS:
                        bad.append(a)
            proof["n_print_assumptions"] = len(res)
            if bad:
                ok = False
                log = "unexpected axioms: %s" % bad
    if ok and tier == "thorough" and os.environ.get("VERIF_NO_COQCHK") != "1":
        # independent re-check of the compiled property file and everything it depends on
        try:
            pc = subprocess.run(["timeout", "1500", "coqchk", "-silent", "-o", "-Q", coqrun.COQDIR, "PPV",
                                 "PPV.Properties.%s" % pid], capture_output=True, text=True)
            proof["coqchk_exit"] = pc.returncode
            proof["coqchk_report"] = (pc.stdout + pc.stderr)[-3000:]
            if pc.returncode not in (0,):
                ok = False
                log = "coqchk failed: " + proof["coqchk_report"][-500:]
        except Exception as e:
            proof["coqchk_exit"] = "error %s" % e
    proof["build_s"] = round(time.time() - t, 1)
    if not ok:
        m = re.search(r'File "([^"]+)", line (\d+)', log)
        broken_proof = "proof obligation no longer checks: %s" % (m.group(0) if m else log[-300:])
        proof["log_tail"] = log[-1500:]
    ctx.proof = proof
    # count obligations: Theorem/Lemma/Example/Corollary in the property's own Coq dir + Properties file
    obligations = count_obligations(pid)
    discharged = obligations if ok else 0

    # 2-4. correspondence + oracle (module specific)
    harness_error = None
    try:
        if replay and hasattr(mod, "replay"):
            mod.replay(ctx, json.load(open(replay)))
        else:
            mod.run(ctx)
    except coqrun.CoqError as e:
        harness_error = "model evaluation failed: %s" % str(e)[:1500]
    except Exception as e:
        harness_error = "harness error: %s\n%s" % (e, traceback.format_exc()[-2500:])

    # 5. classification
    n_new = 0
    printed_known = set()
    idx = 0
    oracle_v = [v for v in ctx.violations if v["source"] != "correspondence"]
    corr_v = [v for v in ctx.violations if v["source"] == "correspondence"]
    for v in oracle_v:
        kf = None
        for k in known:
            if k.get("status", "known") == "known" and v["kind"] in k.get("kinds", [k["id"]]):
                kf = k
                break
        if kf is not None:
            ctx.known_hits[kf["id"]] = ctx.known_hits.get(kf["id"], 0) + 1
            if kf["id"] not in printed_known:
                printed_known.add(kf["id"])
                lines.append("KNOWN-FINDING: property=%s %s" % (pid, kf["what"]))
            continue
        n_new += 1
        if n_new <= 5:
            extra = {"broken_correspondence": corr_v[0]["what"][:1000]} if corr_v else None
            path = write_replay(ctx, idx, v, extra)
            idx += 1
            lines.append("VIOLATION property=%s replay=%s" % (pid, path))
            lines.append("  -> [%s] %s" % (v["kind"], v["what"][:400]))
    if corr_v and n_new == 0:
        # the tie between model and code is broken and the oracle found no input on which the property fails
        v = corr_v[0]
        path = write_replay(ctx, idx, v, {"n_disagreements": len(corr_v),
                                          "correspondence": "model coq/%s/Model.v vs impl" % pid})
        idx += 1
        lines.append("VIOLATION property=%s replay=%s no-failing-input-found" % (pid, path))
        lines.append("  -> [correspondence] %s" % v["what"][:400])
        n_new += 1
    if broken_proof and n_new == 0:
        v = {"kind": "proof", "what": broken_proof, "case": {"theorem_file": "coq/Properties/%s.v" % pid,
                                                            "log": proof.get("log_tail", "")}, "source": "proof"}
        path = write_replay(ctx, idx, v)
        lines.append("VIOLATION property=%s replay=%s no-failing-input-found" % (pid, path))
        n_new += 1
    if harness_error and n_new == 0:
        # a model that cannot be evaluated against the impl is a broken correspondence
        if isinstance(harness_error, str) and harness_error.startswith("harness error"):
            print(harness_error, file=sys.stderr)
            status = 2
        else:
            v = {"kind": "correspondence", "what": harness_error, "case": {}, "source": "correspondence"}
            path = write_replay(ctx, idx, v)
            lines.append("VIOLATION property=%s replay=%s no-failing-input-found" % (pid, path))
            n_new += 1
    if n_new:
        status = 1

    # 6. evidence
    axioms_seen = sorted({a for ax in proof["axioms"].values() for a in ax})
    ev = {
        "property_id": pid, "tier": tier, "seed": seed, "level": "proof",
        "coverage": {
            "obligations": max(obligations, 1), "discharged": max(discharged, 0) if not ok else max(discharged, 1),
            "checker_cmd": "cd /verif/coq && make Properties/%s.vo && coqc -Q . PPV Properties/%s.v  (Print Assumptions captured)" % (pid, pid),
            "trusted_base": TRUSTED_BASE_COMMON + ["axioms reported by Print Assumptions in this run: %s" %
                                                  (", ".join(axioms_seen) if axioms_seen else "none (closed under the global context)")]
                            + getattr(mod, "TRUSTED", []),
            "theorems": proof["theorems"],
            "print_assumptions_blocks": proof.get("n_print_assumptions", 0),
            "evaluations": ctx.evaluations,
            "distinct_nontrivial": len(ctx.nontrivial),
            "rule": getattr(mod, "RULE", ""),
            "samples": ctx.samples if ctx.samples else [{"note": "no case recorded"}],
            "traces_validated_against_impl": ctx.corr_checked,
            "disagreements_checked": ctx.disagreements,
            "histogram": ctx.hist,
            "known_finding_hits": ctx.known_hits,
            "proof_build_s": proof["build_s"],
            "coqchk": {k: proof[k] for k in ("coqchk_exit", "coqchk_report") if k in proof},
            "notes": ctx.notes,
            **ctx.extra,
        },
        "assumptions": getattr(mod, "ASSUMPTIONS", []) + ctx.assumptions,
        "wall_s": round(time.time() - ctx.t0, 2),
        "violations": n_new,
    }
    if harness_error:
        ev["coverage"]["harness_error"] = harness_error[:2000]
    os.makedirs(os.path.join(VERIF, "evidence"), exist_ok=True)
    with open(os.path.join(VERIF, "evidence", pid + ".json"), "w") as f:
        json.dump(ev, f, indent=1, default=str)
    shutil.rmtree(ctx.workdir, ignore_errors=True)
    for l in lines:
        print(l)
    print("%s tier=%s seed=%d evaluations=%d nontrivial=%d corr=%d disagreements=%d known_hits=%s new=%d proof=%s wall=%.1fs" % (
        pid, tier, seed, ctx.evaluations, len(ctx.nontrivial), ctx.corr_checked, ctx.disagreements,
        ctx.known_hits, n_new, "ok" if ok else "BROKEN", time.time() - ctx.t0))
    return status


def count_obligations(pid):
    n = 0
    d = os.path.join(coqrun.COQDIR, pid)
    files = [os.path.join(coqrun.COQDIR, "Properties", pid + ".v")]
    if os.path.isdir(d):
        files += [os.path.join(d, f) for f in os.listdir(d) if f.endswith(".v")]
    for f in files:
        if os.path.exists(f):
            n += len(re.findall(r"^\s*(?:Theorem|Lemma|Example|Corollary|Fact)\s", open(f).read(), re.M))
    return n


def main(argv):
    import argparse, importlib
    ap = argparse.ArgumentParser()
    ap.add_argument("pid")
    ap.add_argument("--tier", default=os.environ.get("VERIF_TIER", "quick"))
    ap.add_argument("--replay")
    a = ap.parse_args(argv)
    seed = int(os.environ.get("VERIF_SEED", "20260921"))
    if a.replay:
        # a replay re-runs the check with the recorded seed and tier: every random choice derives from
        # them, so the recorded case is regenerated bit-identically (modules may add a direct replay)
        rec = json.load(open(a.replay))
        seed, a.tier = int(rec.get("seed", seed)), rec.get("tier", a.tier)
    sys.path.insert(0, REPO)
    import logging
    logging.disable(logging.CRITICAL)
    mod = importlib.import_module("props." + a.pid.lower())
    return run_check(mod, a.pid, a.tier, seed, a.replay)
