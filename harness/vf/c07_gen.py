"""C07/C26/C05 — generator of small networks with random switching / in_service states, the Gallina emitter of
their topology data (coq/C07/Model.v `net`), and an independent python evaluation of the *spec* `Supplied`
(property text: connected through in-service branches and closed switches to an in-service slack)."""
import numpy as np
import pandapower as pp
from vf import coqrun as cq

LT = "NAYY 4x150 SE"


def rand_topo_net(rng, nb=None, p_oos_bus=0.12, p_oos_el=0.15, p_open=0.35, dcline=None, allow_bridge=True,
                  small_load=True, n_slack=None, z_switch=True, coincide=False, parallel_lines=False):
    """Random (possibly disconnected) 20 kV net with all branch kinds, switches of all four kinds, several slacks.
    Bus indices are shuffled and gapped.  Returns net."""
    net = pp.create_empty_network()
    nb = nb or rng.randint(3, 10)
    ids = rng.sample(range(0, 2 * nb + 3), nb)
    for i in ids:
        pp.create_bus(net, vn_kv=20.0, index=i, in_service=rng.random() >= p_oos_bus)
    B = list(ids)

    def two():
        return rng.sample(B, 2)

    # a sparse backbone so that islands and meshes both occur
    n_line = rng.randint(max(1, nb - 3), nb + 2)
    lids = rng.sample(range(0, 2 * n_line + 2), n_line)
    for li in lids:
        a, b = two()
        pp.create_line_from_parameters(net, a, b, length_km=rng.randint(1, 16) / 8, r_ohm_per_km=0.25, x_ohm_per_km=0.125,
                                       c_nf_per_km=0.0, max_i_ka=0.5, index=li, in_service=rng.random() >= p_oos_el)
    if parallel_lines and len(net.line):
        # parallel lines of different length between the same two buses (either orientation)
        for _ in range(rng.choice([1, 1, 2])):
            li = rng.choice(list(net.line.index))
            a, b = int(net.line.at[li, "from_bus"]), int(net.line.at[li, "to_bus"])
            if rng.random() < 0.5:
                a, b = b, a
            pp.create_line_from_parameters(net, a, b, length_km=float(net.line.at[li, "length_km"]) + rng.randint(1, 8) / 8,
                                           r_ohm_per_km=0.25, x_ohm_per_km=0.125, c_nf_per_km=0.0, max_i_ka=0.5,
                                           in_service=rng.random() >= p_oos_el)
    for _ in range(rng.choice([0, 1, 1, 2]) if not coincide else rng.choice([1, 2])):
        a, b = two()
        pp.create_transformer_from_parameters(net, a, b, sn_mva=10, vn_hv_kv=20, vn_lv_kv=20, vkr_percent=0.5, vk_percent=5,
                                              pfe_kw=0, i0_percent=0, index=rng.randint(0, 9) if len(net.trafo) == 0 else None,
                                              in_service=rng.random() >= p_oos_el)
    for _ in range(rng.choice([0, 0, 1, 1, 2]) if not coincide else rng.choice([1, 2])):
        if nb < 3:
            break
        a, b, c = rng.sample(B, 3)
        pp.create_transformer3w_from_parameters(net, a, b, c, 20, 20, 20, 10, 10, 10, 5, 5, 5, 0.5, 0.5, 0.5, 0, 0,
                                                in_service=rng.random() >= p_oos_el,
                                                index=(int(net.trafo.index[0]) if (coincide and len(net.trafo)) else rng.randint(0, 5))
                                                if len(net.trafo3w) == 0 else None)
    for _ in range(rng.choice([0, 0, 1, 2])):
        a, b = two()
        pp.create_impedance(net, a, b, rft_pu=0.01, xft_pu=0.02, sn_mva=10, in_service=rng.random() >= p_oos_el)
    if dcline is None:
        dcline = rng.random() < 0.15
    if dcline:
        a, b = two()
        pp.create_dcline(net, a, b, p_mw=0.05, loss_percent=1.0, loss_mw=0.0, vm_from_pu=1.0, vm_to_pu=1.0,
                         in_service=rng.random() >= 0.1)
    for _ in range(rng.choice([0, 0, 0, 1])):
        pp.create_xward(net, rng.choice(B), 0.01, 0.0, 0.0, 0.0, r_ohm=1.0, x_ohm=2.0, vm_pu=1.0,
                        in_service=rng.random() >= p_oos_el)
    # switches
    for li in net.line.index:
        for end in ("from_bus", "to_bus"):
            if rng.random() < 0.3:
                pp.create_switch(net, int(net.line.at[li, end]), int(li), et="l", closed=rng.random() >= p_open)
    for ti in net.trafo.index:
        for end in ("hv_bus", "lv_bus"):
            if rng.random() < 0.35:
                pp.create_switch(net, int(net.trafo.at[ti, end]), int(ti), et="t", closed=rng.random() >= p_open)
    for ti in net.trafo3w.index:
        for end in ("hv_bus", "mv_bus", "lv_bus"):
            if rng.random() < 0.35:
                pp.create_switch(net, int(net.trafo3w.at[ti, end]), int(ti), et="t3", closed=rng.random() >= p_open)
    for _ in range(rng.choice([0, 1, 2, 3])):
        a, b = two()
        z = 0.0
        if z_switch and rng.random() < 0.2:
            z = 0.5
        pp.create_switch(net, a, b, et="b", closed=rng.random() >= p_open, z_ohm=z)
    if len(net.switch) and rng.random() < 0.5:
        perm = rng.sample(list(net.switch.index), len(net.switch))
        net.switch = net.switch.loc[perm].reset_index(drop=True)
    # slacks and other bus elements
    ns = n_slack if n_slack is not None else rng.choice([1, 1, 2, 2, 3])
    for _ in range(ns):
        if rng.random() < 0.7:
            pp.create_ext_grid(net, rng.choice(B), vm_pu=1.0, in_service=rng.random() >= 0.1)
        else:
            pp.create_gen(net, rng.choice(B), p_mw=0.0, vm_pu=1.0, slack=True, in_service=rng.random() >= 0.1)
    for _ in range(rng.choice([0, 0, 1])):
        pp.create_gen(net, rng.choice(B), p_mw=0.01, vm_pu=1.0, in_service=rng.random() >= p_oos_el)
    sc = 1 / 64 if small_load else 1.0
    for b in B:
        if rng.random() < 0.5:
            pp.create_load(net, b, p_mw=rng.randint(0, 8) * sc, q_mvar=rng.randint(0, 4) * sc, in_service=rng.random() >= p_oos_el)
        if rng.random() < 0.2:
            pp.create_sgen(net, b, p_mw=rng.randint(0, 4) * sc, in_service=rng.random() >= p_oos_el)
        if rng.random() < 0.1:
            pp.create_shunt(net, b, q_mvar=rng.randint(0, 4) * sc, in_service=rng.random() >= p_oos_el)
    if not allow_bridge:
        isb = set(net.bus.index[net.bus.in_service.values])
        for tab, cols in (("trafo", ("hv_bus", "lv_bus")), ("impedance", ("from_bus", "to_bus")),
                          ("trafo3w", ("hv_bus", "mv_bus", "lv_bus"))):
            for i in net[tab].index:
                if any(int(net[tab].at[i, c]) not in isb for c in cols):
                    net[tab].at[i, "in_service"] = False
    return net


def enrich(net, rng):
    """structured additions exercising the in-service guards: a closed bus-bus switch between an out-of-service and an
    in-service bus in either orientation with a non-line branch hanging off the out-of-service bus, out-of-service
    lines early in the line table next to in-service lines at out-of-service buses, and out-of-service slack candidates
    (ext_grid / slack gen) as the only slack of a part of the net"""
    B = [int(b) for b in net.bus.index]
    if len(B) < 3:
        return net
    a, b, c = rng.sample(B, 3)
    net.bus.at[a, "in_service"] = False
    net.bus.at[b, "in_service"] = True
    if rng.random() < 0.5:
        pp.create_switch(net, a, b, et="b", closed=True, z_ohm=0.0)
    else:
        pp.create_switch(net, b, a, et="b", closed=True, z_ohm=0.0)
    r = rng.random()
    if r < 0.4:
        pp.create_transformer_from_parameters(net, a, c, sn_mva=10, vn_hv_kv=20, vn_lv_kv=20, vkr_percent=0.5, vk_percent=5,
                                              pfe_kw=0, i0_percent=0)
    elif r < 0.7:
        pp.create_impedance(net, a, c, rft_pu=0.01, xft_pu=0.02, sn_mva=10)
    else:
        pp.create_line_from_parameters(net, a, c, length_km=0.5, r_ohm_per_km=0.25, x_ohm_per_km=0.125, c_nf_per_km=0.0, max_i_ka=0.5)
    if len(net.line) and rng.random() < 0.7:
        net.line.at[net.line.index[0], "in_service"] = False
    # an out-of-service slack candidate at a bus that may have no other slack
    d = rng.choice(B)
    if rng.random() < 0.5:
        pp.create_gen(net, d, p_mw=0.0, vm_pu=1.0, slack=True, in_service=False)
    else:
        pp.create_ext_grid(net, d, vm_pu=1.0, in_service=False)
    if rng.random() < 0.5:
        # ... and nothing else supplies: all other slacks of the net are at one bus only
        keep = rng.choice(B)
        for tab in ("ext_grid", "gen"):
            for i in net[tab].index:
                if int(net[tab].at[i, "bus"]) != keep and (tab == "ext_grid" or net.gen.at[i, "slack"]):
                    net[tab].at[i, "in_service"] = False if rng.random() < 0.7 else net[tab].at[i, "in_service"]
    return net


# ------------------------------------------------------------------ Gallina emitter
def _b(x):
    return cq.b(bool(x))


def net_term(net, with_dcline_gens=True):
    """coq/C07/Model.v `net` literal of the topology data of a pandapower net (as runpp sees it: dcline gens added)."""
    buses = ["{| b_id := %d; b_is := %s |}" % (i, _b(s)) for i, s in zip(net.bus.index, net.bus.in_service.values)]

    def br2(tab, f, t):
        return ["{| r_id := %d; r_f := %d; r_t := %d; r_is := %s |}" % (i, a, b, _b(s)) for i, a, b, s in
                zip(net[tab].index, net[tab][f].values, net[tab][t].values, net[tab].in_service.values)]

    t3 = ["{| t_id := %d; t_hv := %d; t_mv := %d; t_lv := %d; t_is := %s |}" % (i, a, b, c, _b(s)) for i, a, b, c, s in
          zip(net.trafo3w.index, net.trafo3w.hv_bus.values, net.trafo3w.mv_bus.values, net.trafo3w.lv_bus.values,
              net.trafo3w.in_service.values)]
    et = {"b": "ETb", "l": "ETl", "t": "ETt", "t3": "ETt3"}
    sw = ["{| s_bus := %d; s_el := %d; s_et := %s; s_closed := %s; s_zpos := %s |}" % (a, e, et[k], _b(c), _b(z > 0))
          for a, e, k, c, z in zip(net.switch.bus.values, net.switch.element.values, net.switch.et.values,
                                   net.switch.closed.values, net.switch.z_ohm.values)]
    injs = []

    def inj(bus, is_, pv, slack):
        injs.append("{| i_bus := %d; i_is := %s; i_pv := %s; i_slack := %s |}" % (bus, _b(is_), _b(pv), _b(slack)))

    for bq, s in zip(net.ext_grid.bus.values, net.ext_grid.in_service.values):
        inj(bq, s, True, True)
    for bq, s, sl in zip(net.gen.bus.values, net.gen.in_service.values, net.gen.slack.values):
        inj(bq, s, True, sl)
    if with_dcline_gens:
        for f, t, s in zip(net.dcline.from_bus.values, net.dcline.to_bus.values, net.dcline.in_service.values):
            inj(t, s, True, False)
            inj(f, s, True, False)
    for tab in ("load", "motor", "sgen", "shunt", "ward"):
        for bq, s in zip(net[tab].bus.values, net[tab].in_service.values):
            inj(bq, s, False, False)
    xw = ["{| x_bus := %d; x_is := %s |}" % (bq, _b(s)) for bq, s in zip(net.xward.bus.values, net.xward.in_service.values)]
    return ("{| buses := %s; lines := %s; trafos := %s; trafo3ws := %s; imps := %s; dclines := %s; xwards := %s; "
            "switches := %s; injs := %s |}") % (
        cq.lst(buses), cq.lst(br2("line", "from_bus", "to_bus")), cq.lst(br2("trafo", "hv_bus", "lv_bus")), cq.lst(t3),
        cq.lst(br2("impedance", "from_bus", "to_bus")), cq.lst(br2("dcline", "from_bus", "to_bus")), cq.lst(xw),
        cq.lst(sw), cq.lst(injs))


# ------------------------------------------------------------------ the spec, independently of model and impl
def spec_links(net, dcline=False):
    """pairs (u, v) of buses joined by an in-service branch not interrupted by an open switch, or a closed bus-bus switch"""
    sw = net.switch
    opn = ~sw.closed.values.astype(bool)
    open_l = set(sw.element.values[opn & (sw.et.values == "l")])
    open_t = set(sw.element.values[opn & (sw.et.values == "t")])
    open_t3 = set(zip(sw.element.values[opn & (sw.et.values == "t3")], sw.bus.values[opn & (sw.et.values == "t3")]))
    links = []
    for i, r in net.line.iterrows():
        if r.in_service and i not in open_l:
            links.append((int(r.from_bus), int(r.to_bus)))
    for i, r in net.trafo.iterrows():
        if r.in_service and i not in open_t:
            links.append((int(r.hv_bus), int(r.lv_bus)))
    for i, r in net.impedance.iterrows():
        if r.in_service:
            links.append((int(r.from_bus), int(r.to_bus)))
    for i, r in net.trafo3w.iterrows():
        if r.in_service:
            bs = [int(r.hv_bus), int(r.mv_bus), int(r.lv_bus)]
            closed = [bq for bq in bs if (i, bq) not in open_t3]
            for a in range(len(closed)):
                for c in range(a + 1, len(closed)):
                    links.append((closed[a], closed[c]))
    for a, e, k, c in zip(sw.bus.values, sw.element.values, sw.et.values, sw.closed.values):
        if k == "b" and c:
            links.append((int(a), int(e)))
    if dcline:
        for i, r in net.dcline.iterrows():
            if r.in_service:
                links.append((int(r.from_bus), int(r.to_bus)))
    return links


def spec_supplied(net, dcline=False):
    """set of in-service buses connected to an in-service slack through in-service buses only"""
    isb = set(int(i) for i in net.bus.index[net.bus.in_service.values.astype(bool)])
    adj = {}
    for u, v in spec_links(net, dcline):
        if u in isb and v in isb:
            adj.setdefault(u, []).append(v)
            adj.setdefault(v, []).append(u)
    start = set(int(bq) for bq, s in zip(net.ext_grid.bus.values, net.ext_grid.in_service.values) if s)
    start |= set(int(bq) for bq, s, sl in zip(net.gen.bus.values, net.gen.in_service.values, net.gen.slack.values) if s and sl)
    start &= isb
    seen = set(start)
    todo = list(start)
    while todo:
        u = todo.pop()
        for v in adj.get(u, []):
            if v not in seen:
                seen.add(v)
                todo.append(v)
    return seen


def guard_g07(net):
    """python twin of C07.Model.G07; returns the list of reasons for which the guard is false"""
    isb = set(int(i) for i in net.bus.index[net.bus.in_service.values.astype(bool)])
    why = []
    if len(net.dcline) and net.dcline.in_service.any():
        why.append("dcline")
    return sorted(set(why))
