"""C02/C03 shared: generator of small networks over all branch kinds, observation of the impl at the branch
observation points, Gallina terms for C02.Model / C02.Run, and an independent float reference implementation of the
documented element models (physical units) used as the spec oracle."""
import copy, math, cmath
import numpy as np, pandas as pd
import pandapower as pp
from fractions import Fraction
from vf import coqrun as cq
from pandapower.pypower.idx_brch import F_BUS, T_BUS, BR_R, BR_X, BR_B, BR_G, TAP, SHIFT, BR_STATUS, RATE_A, \
    BR_R_ASYM, BR_X_ASYM, BR_G_ASYM, BR_B_ASYM, PF, QF, PT, QT
from pandapower.pypower.idx_bus import BASE_KV, VM, VA

NAN = float("nan")
SQRT3 = float(np.sqrt(3.0))
_EMPTY = []


def empty_net(sn, fhz):
    if not _EMPTY:
        _EMPTY.append(pp.create_empty_network())
    net = copy.deepcopy(_EMPTY[0])
    net.sn_mva = sn
    net.f_hz = fhz
    return net


def isnan(x):
    return x is None or (isinstance(x, float) and x != x)


# ------------------------------------------------------------------ generation
def gen_tap(rng, three_w=False):
    typ = rng.choice(["Ratio", "Ratio", "Ratio", "Symmetrical", "Ideal", "Ideal", None])
    tap = {"type": typ, "side": rng.choice(["hv", "lv"] if not three_w else ["hv", "mv", "lv"]),
           "pos": rng.randint(-2, 2), "neutral": rng.choice([0, 0, 1]), "pct": NAN, "deg": NAN}
    if typ in ("Ratio", "Symmetrical"):
        tap["pct"] = rng.choice([1.5, 2.5, 0.625, NAN])
        tap["deg"] = rng.choice([0.0, 0.0, NAN, NAN, 30.0, 90.0, -60.0]) if typ == "Ratio" else rng.choice([90.0, 90.0, NAN])
        if three_w:
            tap["deg"] = rng.choice([0.0, 0.0, NAN])
    elif typ == "Ideal":
        if rng.random() < 0.5:
            tap["deg"] = rng.choice([1.5, -0.75, 2.0])
            tap["pct"] = rng.choice([0.0, NAN])
        else:
            tap["pct"] = rng.choice([1.5, 2.5])
            tap["deg"] = rng.choice([0.0, NAN])
        if rng.random() < 0.04:
            tap["pct"], tap["deg"] = 1.5, 1.0       # both set: UserWarning
    if rng.random() < 0.05:
        tap["side"] = None
    return tap


def gen_desc(rng, passive=True):
    nmv = rng.randint(2, 4)
    d = {"sn_mva": rng.choice([1.0, 1.0, 10.0, 100.0]), "f_hz": rng.choice([50.0, 50.0, 60.0]), "nmv": nmv,
         "opt": {"trafo_model": rng.choice(["t", "pi"]), "trafo_loading": rng.choice(["current", "power"]),
                 "cva": rng.random() < 0.7, "temp": rng.random() < 0.25, "rx": rng.choice([2, 2, 0.5])},
         "vm": rng.choice([1.0, 1.02, 1.04]), "va": rng.choice([0.0, 0.0, 10.0])}
    lines = []
    pairs = [(rng.randrange(1, i), i) for i in range(2, nmv + 1)]
    if nmv >= 3 and rng.random() < 0.6:
        a, b = rng.sample(range(1, nmv + 1), 2)
        pairs.append((a, b))
    if rng.random() < 0.3:
        pairs.append(pairs[0] if pairs else (1, 2))          # parallel line
    for k, (a, b) in enumerate(pairs):
        lines.append({"f": a, "t": b, "r": rng.randint(4, 40) / 64, "x": rng.randint(8, 40) / 64,
                      "c": rng.choice([0.0, 10.0, 210.0, 300.0]), "g": rng.choice([0.0, 0.0, 4.0]),
                      "len": rng.randint(2, 24) / 8, "par": rng.choice([1, 1, 2]), "df": rng.choice([1.0, 0.75]),
                      "maxi": rng.randint(16, 40) / 64, "in": (k < nmv - 1) or rng.random() > 0.2,
                      "alpha": rng.choice([0.004, 0.00403]), "T": rng.choice([20.0, 60.0, 80.0]),
                      "maxload": rng.choice([100.0, 80.0])})
    d["lines"] = lines
    d["line_maxload_col"] = rng.random() < 0.8
    t2 = []
    for k in range(rng.randint(1, 2)):
        sn = rng.choice([25.0, 40.0, 63.0])
        t = {"lv": 1 if k == 0 else rng.randint(1, nmv), "sn": sn, "vnh": rng.choice([110.0, 110.0, 112.75]),
             "vnl": rng.choice([20.0, 20.0, 21.0, 20.5]), "vk": rng.randint(24, 64) / 4, "vkr": rng.randint(2, 8) / 8,
             "pfe": rng.choice([14.0, 30.0, 0.0]), "i0": rng.choice([0.07, 0.25, 0.0, 0.01]),
             "shift": rng.choice([0.0, 0.0, 150.0, 30.0, -30.0]), "par": rng.choice([1, 1, 2]), "df": rng.choice([1.0, 1.0, 0.8]),
             "in": k == 0 or rng.random() > 0.15, "maxload": rng.choice([100.0, 90.0]), "tap": gen_tap(rng),
             "rr": None, "xr": None}
        if rng.random() < 0.3:
            t["rr"], t["xr"] = rng.choice([0.5, 0.25, 0.75]), rng.choice([0.5, 0.375, 1.0])
        if rng.random() < 0.02:
            t["df"] = 0.0
        t["tap2"] = gen_tap(rng) if rng.random() < 0.25 else None      # second tap changer (tap2_* columns)
        if t["tap2"]:
            # create_transformer_from_parameters only adds the tap2_* columns that are not NaN and build_branch reads all of
            # them (KeyError 'tap2_step_percent' otherwise): keep every tap2 value defined
            for k_ in ("pct", "deg"):
                if isnan(t["tap2"][k_]):
                    t["tap2"][k_] = 0.0
            if t["tap2"]["type"] is None:
                t["tap2"]["type"] = "Ratio"
            if t["tap2"]["side"] is None:
                t["tap2"]["side"] = "lv"
        t2.append(t)
    d["t2"] = t2
    d["trafo_maxload_col"] = rng.random() < 0.8
    t3 = []
    if rng.random() < 0.45:
        tap = gen_tap(rng, three_w=True)
        if tap["type"] == "Ideal":
            tap["type"] = "Ratio"
            tap["pct"], tap["deg"] = 1.25, rng.choice([0.0, NAN])
        t3.append({"mv": rng.randint(1, nmv), "vn": [rng.choice([110.0, 112.75]), rng.choice([20.0, 21.0]), rng.choice([10.0, 10.5])],
                   "sn": rng.choice([[63.0, 40.0, 25.0], [40.0, 40.0, 16.0], [63.0, 25.0, 38.0]]),
                   "vk": [rng.randint(40, 48) / 4, rng.randint(40, 48) / 4, rng.randint(40, 48) / 4],
                   "vkr": [rng.randint(2, 4) / 8, rng.randint(2, 4) / 8, rng.randint(2, 4) / 8],
                   "pfe": rng.choice([30.0, 0.0]), "i0": rng.choice([0.1, 0.0]),
                   "shift_mv": rng.choice([0.0, 0.0, 30.0]), "shift_lv": rng.choice([0.0, 150.0]),
                   "in": True, "maxload": 100.0, "tap": tap, "star": rng.random() < 0.4,
                   "loss": rng.choice(["hv", "hv", "mv", "lv", "star"]), "p_lv": rng.randint(1, 8) / 8})
    d["t3"] = t3
    imp = []
    if nmv >= 2 and rng.random() < 0.5:
        a, b = rng.sample(range(1, nmv + 1), 2)
        # series and shunt asymmetries are drawn independently: none / only x / only r / both  (passive nets: none)
        acls = "none" if passive else rng.choice(["none", "x", "x", "r", "both"])
        r, x = rng.randint(1, 8) / 64, rng.randint(4, 16) / 64
        gcls = rng.choice(["none", "g", "b", "both"])
        gf, bf = rng.choice([0.0, 0.015625]), rng.choice([0.0, -0.03125, 0.0625])
        imp.append({"f": a, "t": b, "rft": r, "xft": x, "rtf": r * (2 if acls in ("r", "both") else 1),
                    "xtf": x * (1.5 if acls in ("x", "both") else 1),
                    "gf": gf, "bf": bf, "gt": gf + (0.03125 if gcls in ("g", "both") else 0.0),
                    "bt": bf + (0.0625 if gcls in ("b", "both") else 0.0),
                    "sn": rng.choice([10.0, 25.0, 100.0]), "in": rng.random() > 0.1})
    d["imp"] = imp
    d["xward"] = []
    if rng.random() < 0.35:
        d["xward"].append({"bus": rng.randint(1, nmv), "ps": 0.5, "qs": 0.125, "pz": 0.25, "qz": 0.0625,
                           "r": rng.choice([0.0, 0.5, 2.0]), "x": rng.choice([4.0, 12.5]), "vm": rng.choice([1.0, 1.02]),
                           "in": rng.random() > 0.1})
    d["ward"] = [{"bus": rng.randint(1, nmv), "ps": 0.25, "qs": 0.0625, "pz": 0.125, "qz": -0.25}] if rng.random() < 0.25 else []
    d["sw"] = []
    if rng.random() < 0.4:
        d["sw"].append({"bus": rng.randint(1, nmv), "z": rng.choice([0.125, 0.5, 2.0]), "p": rng.randint(2, 12) / 8})
    d["loads"] = [{"bus": i, "p": rng.randint(0, 20) / 8, "q": rng.randint(-2, 8) / 8} for i in range(1, nmv + 1) if rng.random() < 0.8]
    d["sgens"] = [{"bus": rng.randint(1, nmv), "p": rng.randint(1, 12) / 8, "q": 0.0}] if rng.random() < 0.3 else []
    d["shunts"] = [{"bus": rng.randint(1, nmv), "p": 0.0625, "q": rng.choice([-0.5, 0.25])}] if rng.random() < 0.3 else []
    # ---- bus-side variety that matters for the global balance (C03): PV gens (also at the slack bus), shunts / wards directly
    # at the slack bus (bus 0), and "single slack, purely resistive shunts" nets (the guard of the numba single-slack pfsoln)
    d["gens"] = []
    if rng.random() < 0.35:
        for _ in range(rng.randint(1, 2)):
            b = 0 if rng.random() < 0.5 else rng.randint(1, nmv)
            d["gens"].append({"bus": b, "p": rng.randint(2, 16) / 8, "vm": d["vm"] if b == 0 else [1.0, 1.01][b % 2]})   # one setpoint per bus
    if rng.random() < 0.3:
        d["shunts"].append({"bus": 0, "p": rng.choice([0.125, 0.5]), "q": rng.choice([0.0, -0.25])})
    if rng.random() < 0.2:
        d["ward"] = d.get("ward", []) + [{"bus": 0, "ps": 0.125, "qs": 0.0, "pz": rng.choice([0.25, 0.5]), "qz": rng.choice([0.0, 0.125])}]
    if rng.random() < 0.25:
        d["gens"], d["xward"] = [], []
        for s_ in d["shunts"]:
            s_["q"] = 0.0
        for w_ in d.get("ward", []):
            w_["qz"] = 0.0
        if not d["shunts"]:
            d["shunts"].append({"bus": rng.randint(0, nmv), "p": rng.choice([0.0625, 0.25]), "q": 0.0})
        for w3 in d["t3"]:
            if w3["loss"] == "star":
                w3["loss"] = "hv"
        d["single_slack_resistive"] = True
    return d


def build(d):
    net = empty_net(d["sn_mva"], d["f_hz"])
    hv = pp.create_bus(net, 110.0)
    mv = {i: pp.create_bus(net, 20.0) for i in range(1, d["nmv"] + 1)}
    mv[0] = hv                                  # bus 0 in a description = the 110 kV slack bus
    pp.create_ext_grid(net, hv, vm_pu=d["vm"], va_degree=d["va"])
    for l in d["lines"]:
        kw = {}
        if d["line_maxload_col"]:
            kw["max_loading_percent"] = l["maxload"]
        pp.create_line_from_parameters(net, mv[l["f"]], mv[l["t"]], length_km=l["len"], r_ohm_per_km=l["r"], x_ohm_per_km=l["x"],
                                       c_nf_per_km=l["c"], max_i_ka=l["maxi"], g_us_per_km=l["g"], parallel=l["par"], df=l["df"],
                                       in_service=l["in"], alpha=l["alpha"], temperature_degree_celsius=l["T"], **kw)
    for t in d["t2"]:
        tp = t["tap"]
        kw = {}
        if d["trafo_maxload_col"]:
            kw["max_loading_percent"] = t["maxload"]
        if t["rr"] is not None:
            kw["leakage_resistance_ratio_hv"] = t["rr"]
            kw["leakage_reactance_ratio_hv"] = t["xr"]
        a2 = t.get("tap2")
        if a2:
            kw.update(tap2_side=a2["side"], tap2_neutral=a2["neutral"], tap2_min=-2, tap2_max=2, tap2_pos=a2["pos"],
                      tap2_step_percent=a2["pct"], tap2_step_degree=a2["deg"], tap2_changer_type=a2["type"])
        pp.create_transformer_from_parameters(
            net, hv, mv[t["lv"]], sn_mva=t["sn"], vn_hv_kv=t["vnh"], vn_lv_kv=t["vnl"], vkr_percent=t["vkr"], vk_percent=t["vk"],
            pfe_kw=t["pfe"], i0_percent=t["i0"], shift_degree=t["shift"], tap_side=tp["side"], tap_neutral=tp["neutral"],
            tap_min=-2, tap_max=2, tap_pos=tp["pos"], tap_step_percent=tp["pct"], tap_step_degree=tp["deg"],
            tap_changer_type=tp["type"], parallel=t["par"], df=(t["df"] if t["df"] > 0 else 1.0), in_service=t["in"], **kw)
        if t["df"] <= 0:
            net.trafo.loc[net.trafo.index[-1], "df"] = t["df"]       # create_* rejects df <= 0; build_branch has its own check
    if "leakage_resistance_ratio_hv" in net.trafo.columns:
        net.trafo["leakage_resistance_ratio_hv"] = net.trafo["leakage_resistance_ratio_hv"].fillna(0.5)
        net.trafo["leakage_reactance_ratio_hv"] = net.trafo["leakage_reactance_ratio_hv"].fillna(0.5)
    for w in d["t3"]:
        lv = pp.create_bus(net, 10.0)
        pp.create_load(net, lv, p_mw=w["p_lv"], q_mvar=0.125)
        tp = w["tap"]
        pp.create_transformer3w_from_parameters(
            net, hv, mv[w["mv"]], lv, vn_hv_kv=w["vn"][0], vn_mv_kv=w["vn"][1], vn_lv_kv=w["vn"][2],
            sn_hv_mva=w["sn"][0], sn_mv_mva=w["sn"][1], sn_lv_mva=w["sn"][2],
            vk_hv_percent=w["vk"][0], vk_mv_percent=w["vk"][1], vk_lv_percent=w["vk"][2],
            vkr_hv_percent=w["vkr"][0], vkr_mv_percent=w["vkr"][1], vkr_lv_percent=w["vkr"][2],
            pfe_kw=w["pfe"], i0_percent=w["i0"], shift_mv_degree=w["shift_mv"], shift_lv_degree=w["shift_lv"],
            tap_side=tp["side"], tap_step_percent=tp["pct"], tap_step_degree=tp["deg"], tap_pos=tp["pos"],
            tap_neutral=tp["neutral"], tap_min=-2, tap_max=2, tap_changer_type=tp["type"], tap_at_star_point=bool(w["star"]),
            in_service=w["in"], max_loading_percent=w["maxload"])
    for i in d["imp"]:
        pp.create_impedance(net, mv[i["f"]], mv[i["t"]], rft_pu=i["rft"], xft_pu=i["xft"], sn_mva=i["sn"], rtf_pu=i["rtf"],
                            xtf_pu=i["xtf"], gf_pu=i["gf"], bf_pu=i["bf"], gt_pu=i["gt"], bt_pu=i["bt"], in_service=i["in"])
    for x in d["xward"]:
        pp.create_xward(net, mv[x["bus"]], ps_mw=x["ps"], qs_mvar=x["qs"], pz_mw=x["pz"], qz_mvar=x["qz"], r_ohm=x["r"],
                        x_ohm=x["x"], vm_pu=x["vm"], in_service=x["in"])
    for w_ in d.get("ward", []):
        pp.create_ward(net, mv[w_["bus"]], ps_mw=w_["ps"], qs_mvar=w_["qs"], pz_mw=w_["pz"], qz_mvar=w_["qz"])
    for s in d["sw"]:
        nb = pp.create_bus(net, 20.0)
        pp.create_load(net, nb, p_mw=s["p"], q_mvar=0.25)
        pp.create_switch(net, mv[s["bus"]], nb, et="b", closed=True, z_ohm=s["z"])
    for l in d["loads"]:
        pp.create_load(net, mv[l["bus"]], p_mw=l["p"], q_mvar=l["q"])
    for g in d["sgens"]:
        pp.create_sgen(net, mv[g["bus"]], p_mw=g["p"], q_mvar=g["q"])
    for s in d["shunts"]:
        pp.create_shunt(net, mv[s["bus"]], q_mvar=s["q"], p_mw=s["p"])
    for g_ in d.get("gens", []):
        pp.create_gen(net, mv[g_["bus"]], p_mw=g_["p"], vm_pu=g_["vm"])
    return net


def run_ac(net, d, numba=False, **kw):
    o = d["opt"]
    pp.runpp(net, calculate_voltage_angles=o["cva"], trafo_model=o["trafo_model"], trafo_loading=o["trafo_loading"],
             consider_line_temperature=o["temp"], switch_rx_ratio=o["rx"], numba=numba, lightsim2grid=False,
             tolerance_mva=1e-9, max_iteration=30, trafo3w_losses=(d["t3"][0]["loss"] if d["t3"] else "hv"), **kw)


# ------------------------------------------------------------------ literals
def q(x):
    return cq.q(x)


def oq(x):
    return cq.oq(None if isnan(x) else x)


def cplx(z):
    return "(mkC %s %s)" % (q(float(z.real)), q(float(z.imag)))


def triple(v):
    return "(%s, %s, %s)" % tuple(q(x) for x in v)


def side_t(s):
    return {"hv": "HV", "lv": "LV"}.get(s, "NoSide")


def tct_t(t):
    return {"Ratio": "Ratio", "Symmetrical": "Symmetrical", "Ideal": "Ideal"}.get(t, "OtherT")


def line_term(l, d):
    return ("{| l_r := %s; l_x := %s; l_c := %s; l_g := %s; l_len := %s; l_par := %s; l_in := %s; l_maxload := %s; l_maxi := %s; "
            "l_df := %s; l_temp := %s |}" % (q(l["r"]), q(l["x"]), q(l["c"]), q(l["g"]), q(l["len"]), q(l["par"]), cq.b(l["in"]),
                                              ("(Some %s)" % q(l["maxload"])) if d["line_maxload_col"] else "None", q(l["maxi"]), q(l["df"]),
                                              ("(Some (%s, %s))" % (q(l["alpha"]), q(l["T"]))) if d["opt"]["temp"] else "None"))


def tapc_term(side, typ, pos, neutral, pct, deg):
    diff = None if (isnan(pos) or isnan(neutral)) else pos - neutral
    return "{| tc_side := %s; tc_type := %s; tc_diff := %s; tc_pct := %s; tc_deg := %s |}" % (
        side_t(side), tct_t(typ), oq(diff), oq(pct), oq(deg))


def tap_oracle(side, typ, pos, neutral, pct, deg, vnh, vnl):
    """python-math values of the oracles of tap_notable for one (equivalent) transformer + the resulting vnh, vnl, shift add"""
    a = 0.0 if isnan(deg) else deg
    c, s = math.cos(math.radians(a)), math.sin(math.radians(a))
    steps = 0.0 if (isnan(pct) or isnan(pos) or isnan(neutral)) else pct * (pos - neutral) / 100
    u1 = vnh if side == "hv" else vnl
    du = u1 * steps
    dirn = 1 if side == "hv" else -1
    vn = math.sqrt((u1 + du * c) ** 2 + (du * s) ** 2)
    at = math.degrees(math.atan(dirn * du * s / (u1 + du * c))) if (u1 + du * c) != 0 else 0.0
    arg = 0.0 if (isnan(pct) or isnan(pos) or isnan(neutral)) else (pos - neutral) * pct / 100 / 2
    asin = 2 * math.degrees(math.asin(arg)) if abs(arg) <= 1 else 0.0
    return {"c": c, "s": s, "vn": vn, "atan": at, "asin": asin}


def tap_orc_term(o):
    return "{| o_c := %s; o_s := %s; o_vn := %s; o_atan := %s; o_asin := %s |}" % (q(o["c"]), q(o["s"]), q(o["vn"]), q(o["atan"]), q(o["asin"]))


def apply_tap_py(side, typ, pos, neutral, pct, deg, vnh, vnl, shift, o):
    """mirror of tap_notable in floats (used only to derive the downstream sqrt oracles)"""
    if side not in ("hv", "lv") or typ not in ("Ratio", "Symmetrical", "Ideal"):
        return vnh, vnl, shift
    dirn = 1 if side == "hv" else -1
    if typ == "Ideal":
        dset = (0.0 if isnan(deg) else deg) != 0
        if dset:
            return vnh, vnl, shift + dirn * (pos - neutral) * deg
        return vnh, vnl, shift + dirn * o["asin"]
    if side == "hv":
        return o["vn"], vnl, shift + o["atan"]
    return vnh, o["vn"], shift + o["atan"]


def trafo_term(t):
    return ("{| t_vnh0 := %s; t_vnl0 := %s; t_sn := %s; t_vk := %s; t_vkr := %s; t_pfe := %s; t_i0 := %s; t_par := %s; t_df := %s; "
            "t_in := %s; t_maxload := %s; t_rr := %s; t_xr := %s |}" % (
                q(t["vnh"]), q(t["vnl"]), q(t["sn"]), q(t["vk"]), q(t["vkr"]), q(t["pfe"]), q(t["i0"]), q(t["par"]), q(t["df"]),
                cq.b(t["in"]), ("(Some %s)" % q(t["maxload"])) if t.get("maxload_col", True) else "None",
                q(0.5 if t["rr"] is None else t["rr"]), q(0.5 if t["xr"] is None else t["xr"])))


def trafo_oracle(t, vnl, vnlbus, sn):
    tap_lv = (vnl / vnlbus) ** 2 * sn
    z = t["vk"] / 100 / t["sn"] * tap_lv
    r = t["vkr"] / 100 / t["sn"] * tap_lv
    ym2 = (t["i0"] / 100 * t["sn"]) ** 2 - (t["pfe"] * 1e-3) ** 2
    return {"x": math.sqrt(max(z * z - r * r, 0.0)), "bm": math.sqrt(max(ym2, 0.0))}


def trafo_orc_term(o):
    return "{| o_x := %s; o_bm := %s |}" % (q(o["x"]), q(o["bm"]))


# ---- trafo3w helpers (floats mirror the impl's documented conversion)
def t3_delta(w):
    s = w["sn"]
    f = lambda z: [s[0] * z[0] / min(s[0], s[1]), s[0] * z[1] / min(s[1], s[2]), s[0] * z[2] / min(s[0], s[2])]
    return f(w["vk"]), f(w["vkr"])


def wye(z, s):
    return [0.5 * s[0] / s[0] * (z[0] + z[2] - z[1]), 0.5 * s[1] / s[0] * (z[1] + z[0] - z[2]), 0.5 * s[2] / s[0] * (z[2] + z[1] - z[0])]


def t3_oracle(w):
    vk_d, vkr_d = t3_delta(w)
    vki_d = [math.sqrt(max(a * a - b * b, 0.0)) for a, b in zip(vk_d, vkr_d)]
    vkr2 = wye(vkr_d, w["sn"])
    vki2 = wye(vki_d, w["sn"])
    vk2m = [math.sqrt(a * a + b * b) for a, b in zip(vki2, vkr2)]
    vk2 = [math.copysign(1, a) * m if a != 0 else 0.0 for a, m in zip(vki2, vk2m)]
    return {"vki_d": vki_d, "vk2m": vk2m, "vk2": vk2, "vkr2": vkr2}


def t3_term(w):
    loss = {"hv": 0, "mv": 1, "lv": 2}.get(w["loss"], 3)
    return ("{| w_vn := %s; w_sn := %s; w_vk := %s; w_vkr := %s; w_pfe := %s; w_i0 := %s; w_shift := (%s, %s); w_in := %s; "
            "w_maxload := (Some %s); w_loss := %d%%nat |}" % (triple(w["vn"]), triple(w["sn"]), triple(w["vk"]), triple(w["vkr"]),
                                                               q(w["pfe"]), q(w["i0"]), q(w["shift_mv"]), q(w["shift_lv"]), cq.b(w["in"]),
                                                               q(w["maxload"]), loss))


def tap3_term(w):
    tp = w["tap"]
    side = {"hv": 0, "mv": 1, "lv": 2}.get(tp["side"], 9)
    return "{| x_side := %d%%nat; x_star := %s; x_type := %s; x_pos := %s; x_neutral := %s; x_pct := %s; x_deg := %s |}" % (
        side, cq.b(w["star"]), tct_t(tp["type"]), oq(tp["pos"]), oq(tp["neutral"]), oq(tp["pct"]), oq(tp["deg"]))


def tap3_block_py(w, blk):
    """mirror of tap3_block: (side, type, pos, neutral, pct, deg) seen by block blk"""
    tp = w["tap"]
    side = {"hv": 0, "mv": 1, "lv": 2}.get(tp["side"], 9)
    if side != blk:
        return (None, tp["type"], NAN, NAN, NAN, NAN)
    if w["star"]:
        s = "lv" if blk == 0 else "hv"
        if isnan(tp["pct"]) or isnan(tp["pos"]) or isnan(tp["neutral"]):      # NaN tap_step_degree counts as 0 (np.nan_to_num)
            return (s, tp["type"], tp["pos"], tp["neutral"], NAN, NAN)
        tc = 100 * tp["pct"] / (100 + tp["pct"] * (tp["pos"] - tp["neutral"]))
        return (s, tp["type"], tp["pos"], tp["neutral"], abs(tc), (180.0 if tc < 0 else 0.0) - 180.0)
    return ("hv" if blk == 0 else "lv", tp["type"], tp["pos"], tp["neutral"], tp["pct"], tp["deg"])


def imp_term(i):
    return ("{| i_rft := %s; i_xft := %s; i_rtf := %s; i_xtf := %s; i_gf := %s; i_bf := %s; i_gt := %s; i_bt := %s; i_sn := %s; i_in := %s |}"
            % (q(i["rft"]), q(i["xft"]), q(i["rtf"]), q(i["xtf"]), q(i["gf"]), q(i["bf"]), q(i["gt"]), q(i["bt"]), q(i["sn"]), cq.b(i["in"])))


# ------------------------------------------------------------------ observation of the impl + model terms
class Obs:
    pass


def observe(net, d):
    """after a successful runpp: per ppc branch the impl's row, stamps, flows; plus one Gallina term per branch"""
    ppc = net._ppc
    br = ppc["branch"].real
    bus = ppc["bus"].real
    internal = ppc["internal"]
    bis = np.asarray(internal["branch_is"], dtype=bool)
    Yf, Yt = internal["Yf"].tocsr(), internal["Yt"].tocsr()
    ibr = internal["branch"].real
    imap = np.cumsum(bis) - 1
    lk = net._pd2ppc_lookups["branch"]
    sn = float(net.sn_mva)
    V = bus[:, VM] * np.exp(1j * np.deg2rad(bus[:, VA]))
    out = []

    def common(k):
        o = Obs()
        o.k = k
        row = br[k]
        o.row = [row[BR_R], row[BR_X], row[BR_G], row[BR_B], row[BR_R_ASYM], row[BR_X_ASYM], row[BR_G_ASYM], row[BR_B_ASYM],
                 row[TAP], row[SHIFT], bool(row[BR_STATUS]), row[RATE_A]]
        o.f, o.t = int(row[F_BUS]), int(row[T_BUS])
        o.active = bool(bis[k])
        if o.active:
            j = int(imap[k])
            fi, ti = int(ibr[j, F_BUS]), int(ibr[j, T_BUS])
            o.selfloop = fi == ti
            o.fi, o.ti = fi, ti                     # ppci (internal) bus numbers of the two terminals
            o.stamps = [complex(Yf[j, fi]), complex(Yf[j, ti]), complex(Yt[j, fi]), complex(Yt[j, ti])]
            o.flows = [complex(row[PF], row[QF]), complex(row[PT], row[QT])]
        o.vf, o.vt = complex(V[o.f]), complex(V[o.t])
        o.vmf, o.vmt = float(bus[o.f, VM]), float(bus[o.t, VM])
        o.basef, o.baset = float(bus[o.f, BASE_KV]), float(bus[o.t, BASE_KV])
        sh = float(row[SHIFT])
        o.e = cmath.exp(1j * math.pi / 180 * sh) if sh == sh else complex(1, 0)
        o.sf = float(np.sqrt(row[PF] ** 2 + row[QF] ** 2))
        o.st = float(np.sqrt(row[PT] ** 2 + row[QT] ** 2))
        if not o.active:      # voltages of de-energised buses are NaN; the model does not use them for an inactive branch
            o.vf = o.vt = complex(1, 0)
            o.vmf = o.vmt = 1.0
            o.sf = o.st = 0.0
            if o.e != o.e:
                o.e = complex(1, 0)
        return o

    def tail(o):
        return "%s %s %s %s %s %s %s %s %s %s %s" % (cplx(o.e), cplx(o.vf), cplx(o.vt), q(sn), q(o.vmf), q(o.vmt), q(o.basef),
                                                     q(o.baset), q(o.sf), q(o.st), q(SQRT3))

    if "line" in lk:
        f0, _ = lk["line"]
        for i, l in enumerate(d["lines"]):
            o = common(f0 + i)
            o.kind, o.idx, o.el = "line", i, l
            vnfrom = float(net.bus.vn_kv.at[net.line.from_bus.iat[i]])
            basekv = float(bus[net._pd2ppc_lookups["bus"][net.line.from_bus.iat[i]], BASE_KV])
            o.lterm = line_term(l, d)
            o.rowterm = "(Ok (line_branch %s %s %s %s %s %s %s))" % (
                q(sn), q(d["f_hz"]), q(math.pi), q(SQRT3), q(basekv), q(vnfrom), o.lterm)
            o.term = "run_elem %s [] %s" % (o.rowterm, tail(o))
            out.append(o)
    cva = d["opt"]["cva"]
    tmt = cq.b(d["opt"]["trafo_model"] == "t")
    if "trafo" in lk:
        f0, _ = lk["trafo"]
        for i, t in enumerate(d["t2"]):
            o = common(f0 + i)
            o.kind, o.idx, o.el = "trafo", i, t
            t = dict(t)
            t["maxload_col"] = d["trafo_maxload_col"]
            tp = t["tap"]
            shift0 = t["shift"] if cva else 0.0
            to = tap_oracle(tp["side"], tp["type"], tp["pos"], tp["neutral"], tp["pct"], tp["deg"], t["vnh"], t["vnl"])
            vnh, vnl, _ = apply_tap_py(tp["side"], tp["type"], tp["pos"], tp["neutral"], tp["pct"], tp["deg"], t["vnh"], t["vnl"], shift0, to)
            baselv = float(bus[net._pd2ppc_lookups["bus"][net.trafo.lv_bus.iat[i]], BASE_KV])
            basehv = float(bus[net._pd2ppc_lookups["bus"][net.trafo.hv_bus.iat[i]], BASE_KV])
            tc = tapc_term(tp["side"], tp["type"], tp["pos"], tp["neutral"], tp["pct"], tp["deg"])
            o.tterm = trafo_term(t)
            tapx = "(tap_notable %s %s %s %s %s)" % (tc, tap_orc_term(to), q(t["vnh"]), q(t["vnl"]), q(shift0))
            a2 = t.get("tap2")
            if a2:
                to2 = tap_oracle(a2["side"], a2["type"], a2["pos"], a2["neutral"], a2["pct"], a2["deg"], vnh, vnl)
                tapx = "(tap_second %s %s %s)" % (tapx, tapc_term(a2["side"], a2["type"], a2["pos"], a2["neutral"], a2["pct"], a2["deg"]), tap_orc_term(to2))
                vnh, vnl, _ = apply_tap_py(a2["side"], a2["type"], a2["pos"], a2["neutral"], a2["pct"], a2["deg"], vnh, vnl, 0.0, to2)
            oo = trafo_oracle(t, vnl, baselv, sn)
            o.rowterm = "(trafo_row %s %s %s %s %s %s %s)" % (q(sn), tmt, o.tterm, trafo_orc_term(oo), tapx, q(basehv), q(baselv))
            o.term = "run_elem %s (trafo_resids %s %s %s %s %s %s %s) %s" % (
                o.rowterm, q(sn), o.tterm, trafo_orc_term(oo), tc, tap_orc_term(to), tapx, q(baselv), tail(o))
            out.append(o)
    if "trafo3w" in lk:
        f0, f1 = lk["trafo3w"]
        n3 = (f1 - f0) // 3
        for i, w in enumerate(d["t3"]):
            o3 = t3_oracle(w)
            o3t = "{| o_vki_d := %s; o_vk2 := %s |}" % (triple(o3["vki_d"]), triple(o3["vk2m"]))
            for blk in range(3):
                o = common(f0 + blk * n3 + i)
                o.kind, o.idx, o.el, o.blk = "trafo3w", i, w, blk
                side, typ, pos, neu, pct, deg = tap3_block_py(w, blk)
                vnh0, vnl0 = w["vn"][0], w["vn"][blk]
                to = tap_oracle(side, typ, pos, neu, pct, deg, vnh0, vnl0)
                sh0 = ([0.0, w["shift_mv"], w["shift_lv"]][blk]) if cva else 0.0
                vnh, vnl, _ = apply_tap_py(side, typ, pos, neu, pct, deg, vnh0, vnl0, sh0, to)
                t = {"vk": o3["vk2"][blk], "vkr": o3["vkr2"][blk], "sn": w["sn"][blk],
                     "i0": w["i0"] if {"hv": 0, "mv": 1, "lv": 2}.get(w["loss"], 3) == blk else 0.0,
                     "pfe": w["pfe"] if {"hv": 0, "mv": 1, "lv": 2}.get(w["loss"], 3) == blk else 0.0}
                oo = trafo_oracle(t, vnl, o.baset, sn)
                o.c_off = (vnl / o.baset) ** 2            # off-nominal factor (vn_lv,tap-adjusted / V_N,lv-bus)^2 of this block
                o.rowterm = "(t3_row %s %s %s %s %s %s %d%%nat %s %s %s %s)" % (
                    q(sn), tmt, cq.b(cva), t3_term(w), tap3_term(w), o3t, blk, tap_orc_term(to), trafo_orc_term(oo),
                    q(o.basef), q(o.baset))
                # residuals of the sqrt oracles of the vk conversion and of this block's x (hypotheses of C02_t3_star_pairwise)
                o.term = "run_elem %s (app (t3_resids %s %s) (t3_block_resid %s %s %s %s %d%%nat %s %s %s)) %s" % (
                    o.rowterm, t3_term(w), o3t, q(sn), t3_term(w), tap3_term(w), o3t, blk, tap_orc_term(to), trafo_orc_term(oo),
                    q(o.baset), tail(o))
                out.append(o)
    if "impedance" in lk:
        f0, _ = lk["impedance"]
        for i, im in enumerate(d["imp"]):
            o = common(f0 + i)
            o.kind, o.idx, o.el = "impedance", i, im
            o.rowterm = "(Ok (impedance_branch %s %s))" % (q(sn), imp_term(im))
            o.term = "run_elem %s [] %s" % (o.rowterm, tail(o))
            out.append(o)
    if "xward" in lk:
        f0, _ = lk["xward"]
        for i, x in enumerate(d["xward"]):
            o = common(f0 + i)
            o.kind, o.idx, o.el = "xward", i, x
            o.rowterm = "(Ok (xward_branch %s %s %s %s %s))" % (q(sn), q(o.basef), q(x["r"]), q(x["x"]), cq.b(x["in"]))
            o.term = "run_elem %s [] %s" % (o.rowterm, tail(o))
            out.append(o)
    if "switch" in lk:
        f0, _ = lk["switch"]
        for i, s in enumerate(d["sw"]):
            o = common(f0 + i)
            o.kind, o.idx, o.el = "switch", i, s
            rx = d["opt"]["rx"]
            o.rowterm = "(Ok (switch_branch %s %s %s %s %s))" % (q(sn), q(o.basef), q(s["z"]), q(rx), q(math.sqrt(1 + rx ** 2)))
            o.term = "run_elem %s [] %s" % (o.rowterm, tail(o))
            out.append(o)
    return out


def fl(x):
    if isinstance(x, list):
        return [fl(i) for i in x]
    if isinstance(x, Fraction):
        return float(x)
    return x


def close(a, b, tol=1e-9, atol=0.0):
    if isinstance(a, (list, tuple)) or isinstance(b, (list, tuple)):
        return isinstance(a, (list, tuple)) and isinstance(b, (list, tuple)) and len(a) == len(b) and all(close(x, y, tol, atol) for x, y in zip(a, b))
    if isinstance(a, bool) or isinstance(b, bool):
        return bool(a) == bool(b)
    if a is None or b is None:
        return (a is None or a != a) and (b is None or b != b)
    a, b = float(a), float(b)
    if a != a or b != b:
        return a != a and b != b
    if math.isinf(a) or math.isinf(b):
        return a == b
    return abs(a - b) <= atol + tol * max(1.0, abs(a), abs(b))


def c2(z):
    return [z.real, z.imag]


# ------------------------------------------------------------------ reference implementation (documented models, floats)
def U(net, b):
    return net.res_bus.vm_pu.at[b] * net.bus.vn_kv.at[b] * cmath.exp(1j * math.radians(net.res_bus.va_degree.at[b]))


def ref_pi(z, yf, yt, uf, ut):
    ys = 1 / z
    i_f = (ys + yf) * uf - ys * ut
    i_t = (ys + yt) * ut - ys * uf
    return uf * i_f.conjugate(), ut * i_t.conjugate()


def ref_line(net, d, i):
    l = d["lines"][i]
    r = l["r"] * (1 + l["alpha"] * (l["T"] - 20)) if d["opt"]["temp"] else l["r"]
    z = complex(r, l["x"]) * l["len"] / l["par"]
    y = complex(l["g"] * 1e-6, 2 * math.pi * d["f_hz"] * l["c"] * 1e-9) * l["len"] * l["par"]
    uf, ut = U(net, net.line.from_bus.iat[i]), U(net, net.line.to_bus.iat[i])
    sf, st = ref_pi(z, y / 2, y / 2, uf, ut)
    i_f, i_t = abs(sf) / (SQRT3 * abs(uf)), abs(st) / (SQRT3 * abs(ut))
    imax = l["maxi"] * l["df"] * l["par"]
    return {"p_from_mw": sf.real, "q_from_mvar": sf.imag, "p_to_mw": st.real, "q_to_mvar": st.imag, "pl_mw": (sf + st).real,
            "ql_mvar": (sf + st).imag, "i_from_ka": i_f, "i_to_ka": i_t, "i_ka": max(i_f, i_t),
            "loading_percent": max(i_f, i_t) / imax * 100}


def ref_tap(side, typ, pos, neutral, pct, deg, vnh, vnl):
    """documented tap changer: returns (vnh', vnl', added shift in degree)"""
    if side not in ("hv", "lv") or typ not in ("Ratio", "Symmetrical", "Ideal") or isnan(pos) or isnan(neutral):
        return vnh, vnl, 0.0
    diff = pos - neutral
    dirn = 1 if side == "hv" else -1
    if typ == "Ideal":
        dg = 0.0 if isnan(deg) else deg
        if dg != 0:
            return vnh, vnl, dirn * diff * dg
        p = 0.0 if isnan(pct) else pct
        return vnh, vnl, dirn * 2 * math.degrees(math.asin(diff * p / 100 / 2))
    p = 0.0 if isnan(pct) else pct
    phi = math.radians(0.0 if isnan(deg) else deg)
    n = 1 + diff * p / 100 * cmath.exp(1j * phi * dirn)
    if side == "hv":
        return vnh * abs(n), vnl, math.degrees(cmath.phase(n))
    return vnh, vnl * abs(n), math.degrees(cmath.phase(n))


def ref_trafo_2port(model, vk, vkr, sn_t, pfe, i0, par, rr, xr, vnh, vnl, shift_deg, uh, ul):
    """ideal transformer vnh/vnl (angle shift) at the hv side, equivalent circuit in Ohm/Siemens referred to the lv side"""
    zk = complex(vkr, math.copysign(math.sqrt(max(vk * vk - vkr * vkr, 0.0)), vk)) / 100 * vnl ** 2 / sn_t / par
    pfe_mw = pfe * 1e-3
    ym = complex(pfe_mw, -math.sqrt(max((i0 / 100 * sn_t) ** 2 - pfe_mw ** 2, 0.0))) * par / vnl ** 2
    n = vnh / vnl * cmath.exp(1j * math.radians(shift_deg))
    uh2 = uh / n
    if model == "pi" or ym == 0:
        sh, sl = ref_pi(zk, ym / 2, ym / 2, uh2, ul)
    else:
        za = complex(zk.real * rr, zk.imag * xr)
        zb = complex(zk.real * (1 - rr), zk.imag * (1 - xr))
        um = (uh2 / za + ul / zb) / (1 / za + 1 / zb + ym)
        sh = uh2 * ((uh2 - um) / za).conjugate()
        sl = ul * ((ul - um) / zb).conjugate()
    return sh, sl


def ref_trafo(net, d, i):
    t = d["t2"][i]
    tp = t["tap"]
    o = d["opt"]
    vnh, vnl, add = ref_tap(tp["side"], tp["type"], tp["pos"], tp["neutral"], tp["pct"], tp["deg"], t["vnh"], t["vnl"])
    shift = (t["shift"] if o["cva"] else 0.0) + add
    a2 = t.get("tap2")
    if a2:          # second tap changer: the same documented rule applied to the already adjusted rated voltages
        vnh, vnl, add2 = ref_tap(a2["side"], a2["type"], a2["pos"], a2["neutral"], a2["pct"], a2["deg"], vnh, vnl)
        shift += add2
    uh, ul = U(net, net.trafo.hv_bus.iat[i]), U(net, net.trafo.lv_bus.iat[i])
    sh, sl = ref_trafo_2port(o["trafo_model"], t["vk"], t["vkr"], t["sn"], t["pfe"], t["i0"], t["par"],
                             0.5 if t["rr"] is None else t["rr"], 0.5 if t["xr"] is None else t["xr"], vnh, vnl, shift, uh, ul)
    ih, il = abs(sh) / (SQRT3 * abs(uh)), abs(sl) / (SQRT3 * abs(ul))
    if o["trafo_loading"] == "current":
        ld = max(ih * t["vnh"] * SQRT3 / t["sn"], il * t["vnl"] * SQRT3 / t["sn"]) * 100
    else:
        ld = max(abs(sh), abs(sl)) / t["sn"] * 100
    return {"p_hv_mw": sh.real, "q_hv_mvar": sh.imag, "p_lv_mw": sl.real, "q_lv_mvar": sl.imag, "pl_mw": (sh + sl).real,
            "ql_mvar": (sh + sl).imag, "i_hv_ka": ih, "i_lv_ka": il, "loading_percent": ld / t["par"] / t["df"]}


def ref_trafo3w(net, d, i):
    w = d["t3"][i]
    tp = w["tap"]
    o = d["opt"]
    o3 = t3_oracle(w)
    hvb, mvb, lvb = net.trafo3w.hv_bus.iat[i], net.trafo3w.mv_bus.iat[i], net.trafo3w.lv_bus.iat[i]
    ua = net.res_trafo3w.vm_internal_pu.iat[i] * net.bus.vn_kv.at[hvb] * cmath.exp(1j * math.radians(net.res_trafo3w.va_internal_degree.iat[i]))
    us = [U(net, hvb), U(net, mvb), U(net, lvb)]
    ntap = 1.0
    tside = {"hv": 0, "mv": 1, "lv": 2}.get(tp["side"], 9)
    if tp["type"] in ("Ratio", "Symmetrical") and not isnan(tp["pct"]) and not isnan(tp["pos"]) and not isnan(tp["neutral"]):
        ntap = 1 + (tp["pos"] - tp["neutral"]) * tp["pct"] / 100        # documented: tap_step_degree not involved for 3W
    res = {}
    S = []
    for blk in range(3):
        vnh, vnl = w["vn"][0], w["vn"][blk]
        if blk == tside:
            if not w["star"]:
                if blk == 0:
                    vnh = vnh * ntap
                else:
                    vnl = vnl * ntap
            else:       # tap changer at the star point side of the branch
                if blk == 0:
                    vnl = vnl / ntap
                else:
                    vnh = vnh / ntap
        shift = ([0.0, w["shift_mv"], w["shift_lv"]][blk]) if o["cva"] else 0.0
        loss_here = {"hv": 0, "mv": 1, "lv": 2}.get(w["loss"], 3) == blk
        uh, ul = (us[0], ua) if blk == 0 else (ua, us[blk])
        sh, sl = ref_trafo_2port(o["trafo_model"], o3["vk2"][blk], o3["vkr2"][blk], w["sn"][blk], w["pfe"] if loss_here else 0.0,
                                 w["i0"] if loss_here else 0.0, 1, 0.5, 0.5, vnh, vnl, shift, uh, ul)
        S.append(sh if blk == 0 else sl)
    names = ["hv", "mv", "lv"]
    ii = [abs(S[k]) / (SQRT3 * abs(us[k])) for k in range(3)]
    for k in range(3):
        res["p_%s_mw" % names[k]] = S[k].real
        res["q_%s_mvar" % names[k]] = S[k].imag
        res["i_%s_ka" % names[k]] = ii[k]
    if o["trafo_loading"] == "current":
        res["loading_percent"] = max(ii[k] * w["vn"][k] * SQRT3 / w["sn"][k] for k in range(3)) * 100
    else:
        res["loading_percent"] = max(abs(S[k]) / w["sn"][k] for k in range(3)) * 100
    return res


def ref_impedance(net, d, i):
    im = d["imp"][i]
    sn = d["sn_mva"]
    k = sn / im["sn"]
    vf = net.res_bus.vm_pu.at[net.impedance.from_bus.iat[i]] * cmath.exp(1j * math.radians(net.res_bus.va_degree.at[net.impedance.from_bus.iat[i]]))
    vt = net.res_bus.vm_pu.at[net.impedance.to_bus.iat[i]] * cmath.exp(1j * math.radians(net.res_bus.va_degree.at[net.impedance.to_bus.iat[i]]))
    zf, zt = complex(im["rft"], im["xft"]) * k, complex(im["rtf"], im["xtf"]) * k
    yf, yt = complex(im["gf"], im["bf"]) / k, complex(im["gt"], im["bt"]) / k
    sf = sn * vf * ((1 / zf + yf) * vf - vt / zf).conjugate()
    st = sn * vt * ((1 / zt + yt) * vt - vf / zt).conjugate()
    uf = abs(vf) * net.bus.vn_kv.at[net.impedance.from_bus.iat[i]]
    ut = abs(vt) * net.bus.vn_kv.at[net.impedance.to_bus.iat[i]]
    return {"p_from_mw": sf.real, "q_from_mvar": sf.imag, "p_to_mw": st.real, "q_to_mvar": st.imag, "pl_mw": (sf + st).real,
            "ql_mvar": (sf + st).imag, "i_from_ka": abs(sf) / (SQRT3 * uf), "i_to_ka": abs(st) / (SQRT3 * ut)}


def ref_shunt(net, d, i):
    """documented shunt: S = (p_mw + j q_mvar) * step * (v * V_N,bus / vn_kv)^2"""
    r = net.shunt.iloc[i]
    v = net.res_bus.vm_pu.at[r.bus] * net.bus.vn_kv.at[r.bus] / r.vn_kv
    return {"p_mw": r.p_mw * r.step * v ** 2, "q_mvar": r.q_mvar * r.step * v ** 2, "vm_pu": net.res_bus.vm_pu.at[r.bus]}


def ref_ward(net, d, i):
    r = net.ward.iloc[i]
    v = net.res_bus.vm_pu.at[r.bus]
    return {"p_mw": r.ps_mw + r.pz_mw * v ** 2, "q_mvar": r.qs_mvar + r.qz_mvar * v ** 2, "vm_pu": v}


def ref_xward(net, d, i):
    """constant power + constant impedance + voltage source vm_pu behind r_ohm + j x_ohm (PV node with p = 0)"""
    r = net.xward.iloc[i]
    ub = U(net, r.bus)
    v = net.res_bus.vm_pu.at[r.bus]
    ui = net.res_xward.vm_internal_pu.iat[i] * net.bus.vn_kv.at[r.bus] * cmath.exp(1j * math.radians(net.res_xward.va_internal_degree.iat[i]))
    s_int = ub * ((ub - ui) / complex(r.r_ohm, r.x_ohm)).conjugate()
    s_src = ui * ((ui - ub) / complex(r.r_ohm, r.x_ohm)).conjugate()       # power delivered by the internal source: p must be 0
    return {"p_mw": r.ps_mw + r.pz_mw * v ** 2 + s_int.real, "q_mvar": r.qs_mvar + r.qz_mvar * v ** 2 + s_int.imag,
            "vm_internal_pu": r.vm_pu, "vm_pu": v}, s_src.real


def ref_switch(net, d, i, sw_index):
    """closed bus-bus switch with z_ohm: series impedance z_ohm * (rx + j) / sqrt(1 + rx^2) between switch.bus and switch.element"""
    rx = d["opt"]["rx"]
    z = d["sw"][i]["z"] * complex(rx, 1) / math.sqrt(1 + rx ** 2)
    uf, ut = U(net, net.switch.bus.at[sw_index]), U(net, net.switch.element.at[sw_index])
    sf, st = ref_pi(z, 0, 0, uf, ut)
    return {"p_from_mw": sf.real, "q_from_mvar": sf.imag, "p_to_mw": st.real, "q_to_mvar": st.imag,
            "i_ka": max(abs(sf) / (SQRT3 * abs(uf)), abs(st) / (SQRT3 * abs(ut)))}


def star_nan_defect(d):
    """guard of the REPAIRED defect C02-trafo3w-star-tap-nan-degree (kept as a histogram key only): tap changer at the star
    point, tap_step_degree NaN, a non-zero tap step"""
    for w in d["t3"]:
        tp = w["tap"]
        if (w["star"] and w["in"] and tp["side"] in ("hv", "mv", "lv") and tp["type"] in ("Ratio", "Symmetrical") and isnan(tp["deg"])
                and not isnan(tp["pct"]) and tp["pct"] != 0 and not isnan(tp["pos"]) and not isnan(tp["neutral"]) and tp["pos"] != tp["neutral"]):
            return True
    return False
